import PytezosModel.Michelson.Session
/-! helper lemmas for C22: values and references, the heap as a store, `MichelsonStack` primitives under renaming of the
items, the simulation of the heap run of a well-formed session state (every stacked big map points at the interpreter's
context) by the aliasing-free run over a single context (`unitStore`) — leaves first, then lifted through DIP bodies —
and the bookkeeping of the `protected` counter (back where it was, or 0, after every successful instruction) -/
set_option linter.unusedSimpArgs false   -- `cases x <;> simp [...]`: not every branch needs every lemma
namespace Proofs.C22
open Impl.Session Impl.BigMap

/-! ### values and references -/

theorem map_map {ρ ρ' ρ'' : Type} (f : ρ' → ρ'') (g : ρ → ρ') (v : Val ρ) : (v.map g).map f = v.map (f ∘ g) := by
  induction v with
  | some v ih => simp [Val.map, ih]
  | pair a b iha ihb => simp [Val.map, iha, ihb]
  | _ => simp [Val.map]

theorem map_unit_id (v : Val Unit) (f : Unit → Unit) : v.map f = v := by
  induction v with
  | some v ih => simp [Val.map, ih]
  | pair a b iha ihb => simp [Val.map, iha, ihb]
  | _ => simp [Val.map]

/-- give every big map of an address-free value the reference `cur` -/
abbrev rb (cur : Nat) (v : Val Unit) : Val Nat := v.map fun _ => cur

theorem erase_rb (cur : Nat) (v : Val Unit) : erase (rb cur v) = v := by
  simp only [erase, rb, map_map]
  exact map_unit_id v _

theorem erase_unit (v : Val Unit) : erase v = v := map_unit_id v _

theorem refs_map {ρ ρ' : Type} (f : ρ → ρ') (v : Val ρ) : (v.map f).refs = v.refs.map f := by
  induction v with
  | some v ih => simp [Val.map, Val.refs, ih]
  | pair a b iha ihb => simp [Val.map, Val.refs, iha, ihb]
  | _ => simp [Val.map, Val.refs]

theorem rb_erase (cur : Nat) (v : Val Nat) (h : ∀ r ∈ v.refs, r = cur) : rb cur (erase v) = v := by
  induction v with
  | some v ih => simp only [erase, rb, Val.map, Val.some.injEq]; exact ih (by simpa [Val.refs] using h)
  | pair a b iha ihb =>
    simp only [Val.refs, List.mem_append] at h
    simp only [erase, rb, Val.map, Val.pair.injEq]
    exact ⟨iha (fun r hr => h r (Or.inl hr)), ihb (fun r hr => h r (Or.inr hr))⟩
  | bigmap b r => simp only [erase, rb, Val.map, Val.bigmap.injEq, true_and]; exact (h r (by simp [Val.refs])).symm
  | _ => simp [erase, rb, Val.map]

theorem typeOf_map {ρ ρ' : Type} (f : ρ → ρ') (v : Val ρ) : (v.map f).typeOf = v.typeOf := by
  induction v with
  | some v ih => simp [Val.map, Val.typeOf, ih]
  | pair a b iha ihb => simp [Val.map, Val.typeOf, iha, ihb]
  | _ => simp [Val.map, Val.typeOf]

/-! ### the heap as a store -/

theorem set_self {α : Type} (l : List α) (i : Nat) (a : α) (h : l[i]? = some a) : l.set i a = l := by
  induction l generalizing i with
  | nil => rfl
  | cons x xs ih =>
    cases i with
    | zero => simp at h; simp [h]
    | succ i => simp at h; simp [ih i h]

theorem get_set {α : Type} (l : List α) (i : Nat) (a b : α) (h : l[i]? = some a) : (l.set i b)[i]? = some b := by
  induction l generalizing i with
  | nil => simp at h
  | cons x xs ih =>
    cases i with
    | zero => simp
    | succ i => simp at h; simp [ih i h]


/-! ### `MichelsonStack` primitives commute with renaming of the items -/

section stk
variable {α β : Type} (f : α → β) (s : Stk α)

@[simp] theorem map_prot : (s.map f).prot = s.prot := rfl
@[simp] theorem map_items : (s.map f).items = s.items.map f := rfl

theorem push_map (v : α) : (s.map f).push (f v) = (s.push v).map f := by
  simp [Stk.map, Stk.push, List.map_take, List.map_drop]

theorem peek_map : (s.map f).peek = s.peek.map f := by
  simp only [Stk.peek, Stk.map, List.isEmpty_map]
  split <;> simp

theorem pop_map (k : Nat) : (s.map f).pop k = (s.pop k).map fun r => (r.1.map f, r.2.map f) := by
  simp only [Stk.pop, Stk.map, List.length_map]
  split <;> simp [List.map_take, List.map_drop]

theorem popArgs_map (k : Nat) : (s.map f).popArgs k = (s.popArgs k).map fun r => (r.1.map f, r.2.map f) := by
  simp only [Stk.popArgs]
  split
  · simp
  · exact pop_map f s k

theorem protect_map (k : Nat) : (s.map f).protect k = (s.protect k).map (Stk.map f) := by
  by_cases h : s.items.length < k <;> simp [Stk.protect, Stk.map, h]

theorem restore_map (k : Nat) : (s.map f).restore k = (s.restore k).map (Stk.map f) := by
  by_cases h : s.prot < k <;> simp [Stk.restore, Stk.map, h]

theorem pushAll_map (vs : List α) : (s.map f).pushAll (vs.map f) = (s.pushAll vs).map f := by
  induction vs with
  | nil => rfl
  | cons v vs ih =>
    simp only [Stk.pushAll, List.map_cons, List.foldr_cons] at ih ⊢
    rw [ih, push_map]

end stk

/-! ### stack-only instructions commute with renaming of references -/

theorem mutezOf_map {ρ ρ' : Type} (f : ρ → ρ') (v : Int) : (mutezOf (ρ := ρ') v) = (mutezOf (ρ := ρ) v).map (Val.map f) := by
  simp only [mutezOf]
  split
  · rfl
  · split <;> rfl

def mapRes {ρ ρ' : Type} (f : ρ → ρ') : Except Impl.Session.Err (List (Val ρ)) → Except Impl.Session.Err (List (Val ρ'))
  | .ok st => .ok (st.map (Val.map f))
  | .error e => .error e

theorem stackOnly_map {ρ ρ' : Type} (f : ρ → ρ') (b : Basic) (st : List (Val ρ)) :
    stackOnly b (st.map (Val.map f)) = (stackOnly b st).map (mapRes f) := by
  cases b with
  | push n => simp [stackOnly, mapRes, Val.map]
  | none_ t => simp [stackOnly, mapRes, Val.map]
  | unit => simp [stackOnly, mapRes, Val.map]
  | nilOp => simp [stackOnly, mapRes, Val.map]
  | some => cases st <;> simp [stackOnly, mapRes, Val.map]
  | drop => cases st <;> simp [stackOnly, mapRes, Val.map]
  | failwith => cases st <;> simp [stackOnly, mapRes, Val.map]
  | swap => rcases st with _ | ⟨x, _ | ⟨y, st⟩⟩ <;> simp [stackOnly, mapRes, Val.map]
  | pair => rcases st with _ | ⟨x, _ | ⟨y, st⟩⟩ <;> simp [stackOnly, mapRes, Val.map]
  | car =>
    rcases st with _ | ⟨x, st⟩
    · simp [stackOnly, mapRes]
    · cases x <;> simp [stackOnly, mapRes, Val.map]
  | cdr =>
    rcases st with _ | ⟨x, st⟩
    · simp [stackOnly, mapRes]
    · cases x <;> simp [stackOnly, mapRes, Val.map]
  | add =>
    rcases st with _ | ⟨x, _ | ⟨y, st⟩⟩
    · simp [stackOnly, mapRes]
    · cases x <;> simp [stackOnly, mapRes, Val.map]
    · cases x <;> cases y <;> try (simp [stackOnly, mapRes, Val.map]; done)
      rename_i a b
      simp only [List.map_cons, Val.map, stackOnly, Option.map_some, Option.some.injEq]
      rw [mutezOf_map f]
      cases mutezOf (ρ := ρ) ((a + b : Nat) : Int) <;> simp [mapRes, Except.map]
  | _ => simp [stackOnly]


/-! ### simulation: the heap run of a well-formed state is the single-context run, written back at `cur` -/

section sim
variable (cur : Nat) (h : List Impl.Session.Ctx) (c : Impl.Session.Ctx) (hc : h[cur]? = some c)

abbrev rbs (cur : Nat) (st : List (Val Unit)) : List (Val Nat) := st.map (Val.map fun _ => cur)

include hc in
theorem bmGet_sim (b : BM Nat Nat) (k : Nat) : bmGet heapStore h b cur k = bmGet unitStore c b () k := by
  simp only [bmGet, heapStore, unitStore, hc]

include hc in
theorem bmUpdate_sim (b : BM Nat Nat) (k : Nat) (v : Option Nat) :
    bmUpdate heapStore h b cur k v = bmUpdate unitStore c b () k v := by
  simp only [bmUpdate, bmGet_sim cur h c hc]

theorem optVal_map {ρ ρ' : Type} (f : ρ → ρ') (v : Option Nat) : (optVal v : Val ρ).map f = optVal v := by
  cases v <;> simp [optVal, Val.map]

theorem asOptNat_map {ρ ρ' : Type} (f : ρ → ρ') (v : Val ρ) : asOptNat (v.map f) = asOptNat v := by
  cases v with
  | some w => cases w <;> simp [asOptNat, Val.map]
  | _ => simp [asOptNat, Val.map]

include hc in
theorem stepBigMap_sim (b : Basic) (pst : List (Val Unit)) :
    stepBigMap heapStore h b (rbs cur pst) = mapRes (fun _ => cur) (stepBigMap unitStore c b pst) := by
  have hg := bmGet_sim cur h c hc
  have hu := bmUpdate_sim cur h c hc
  cases b with
  | get =>
    rcases pst with _ | ⟨x, _ | ⟨y, st⟩⟩
    · simp [stepBigMap, rbs, mapRes]
    · cases x <;> simp [stepBigMap, rbs, rb, mapRes, Val.map]
    · cases x <;> cases y <;> simp [stepBigMap, rbs, rb, mapRes, Val.map]
      rename_i k b' r
      rw [hg]
      cases bmGet unitStore c b' () k <;> simp [Except.map, mapRes, optVal_map, Val.map]
  | mem =>
    rcases pst with _ | ⟨x, _ | ⟨y, st⟩⟩
    · simp [stepBigMap, rbs, mapRes]
    · cases x <;> simp [stepBigMap, rbs, rb, mapRes, Val.map]
    · cases x <;> cases y <;> simp [stepBigMap, rbs, rb, mapRes, Val.map]
      rename_i k b' r
      rw [hg]
      cases bmGet unitStore c b' () k <;> simp [Except.map, mapRes, Val.map]
  | update =>
    rcases pst with _ | ⟨x, _ | ⟨y, _ | ⟨z, st⟩⟩⟩
    · simp [stepBigMap, rbs, mapRes]
    · cases x <;> simp [stepBigMap, rbs, rb, mapRes, Val.map]
    · cases x <;> cases y <;> simp [stepBigMap, rbs, rb, mapRes, Val.map]
    · cases x <;> cases z <;> simp [stepBigMap, rbs, rb, mapRes, Val.map]
      rename_i k b' r
      have := asOptNat_map (fun (_ : Unit) => cur) y
      rw [this]
      cases asOptNat y with
      | error e => simp [Except.bind, bind, mapRes]
      | ok ov =>
        simp only [Except.bind, bind, hu]
        cases bmUpdate unitStore c b' () k ov <;> simp [Except.map, mapRes, Val.map]
  | getAndUpdate =>
    rcases pst with _ | ⟨x, _ | ⟨y, _ | ⟨z, st⟩⟩⟩
    · simp [stepBigMap, rbs, mapRes]
    · cases x <;> simp [stepBigMap, rbs, rb, mapRes, Val.map]
    · cases x <;> cases y <;> simp [stepBigMap, rbs, rb, mapRes, Val.map]
    · cases x <;> cases z <;> simp [stepBigMap, rbs, rb, mapRes, Val.map]
      rename_i k b' r
      have := asOptNat_map (fun (_ : Unit) => cur) y
      rw [this]
      cases asOptNat y with
      | error e => simp [Except.bind, bind, mapRes]
      | ok ov =>
        simp only [Except.bind, bind, hu]
        cases bmUpdate unitStore c b' () k ov <;> simp [Except.map, mapRes, optVal_map, Val.map]
  | _ => simp [stepBigMap, mapRes]



abbrev rbS (cur : Nat) (st : Stk (Val Unit)) : Stk (Val Nat) := st.map (Val.map fun _ => cur)

def mapResS (cur : Nat) : Except Fail (Stk (Val Unit)) → Except Fail (Stk (Val Nat))
  | .ok st => .ok (rbS cur st)
  | .error f => .error f

theorem readEnv_map {ρ ρ' : Type} (f : ρ → ρ') (c : Impl.Session.Ctx) (b : Basic) :
    (readEnv (ρ := ρ') c b) = (readEnv (ρ := ρ) c b).map (Val.map f) := by
  cases b <;> simp only [readEnv] <;> try rfl
  · exact mutezOf_map f _
  · exact mutezOf_map f _
  · cases c.sender with
    | none => rfl
    | some x => cases x <;> rfl
  · cases c.source with
    | none => rfl
    | some x => cases x <;> rfl

include hc in
theorem stepPops_sim (b : Basic) (pst : Stk (Val Unit)) :
    stepPops heapStore b (rbS cur pst) h =
      (mapResS cur (stepPops unitStore b pst c).1, h.set cur (stepPops unitStore b pst c).2) := by
  have hs := set_self h cur c hc
  simp only [stepPops, rbS, popArgs_map]
  cases hp : pst.popArgs (arity b) with
  | none => simp [failAt, mapResS, hs]
  | some r =>
    obtain ⟨xs, st1⟩ := r
    simp only [Option.map_some, stackOnly_map]
    cases hso : stackOnly b xs with
    | some r =>
      cases r with
      | ok ys => simp [mapRes, mapResS, hs, pushAll_map, rbS]
      | error e => simp [mapRes, mapResS, hs, failAt]
    | none =>
      simp only [Option.map_none]
      have := stepBigMap_sim cur h c hc b xs
      simp only [rbs] at this
      rw [this]
      cases stepBigMap unitStore c b xs with
      | ok ys => simp [mapRes, mapResS, hs, pushAll_map, rbS]
      | error e => simp [mapRes, mapResS, hs, failAt]

include hc in
theorem stepEnv_sim (b : Basic) (pst : Stk (Val Unit)) :
    stepEnv heapStore cur b (rbS cur pst) h =
      (mapResS cur (stepEnv unitStore () b pst c).1, h.set cur (stepEnv unitStore () b pst c).2) := by
  have hs := set_self h cur c hc
  have hrd : heapStore.rd h cur = some c := hc
  have hrd' : unitStore.rd c () = some c := rfl
  simp only [stepEnv, hrd, hrd']
  rw [readEnv_map (fun (_ : Unit) => cur) c b]
  cases readEnv (ρ := Unit) c b with
  | ok v => simp [Except.map, mapResS, hs, rbS, push_map]
  | error e => simp [Except.map, mapResS, hs, failAt]

include hc in
theorem stepBasic_sim (b : Basic) (pst : Stk (Val Unit)) :
    stepBasic heapStore cur b (rbS cur pst) h =
      (mapResS cur (stepBasic unitStore () b pst c).1, h.set cur (stepBasic unitStore () b pst c).2) := by
  have hs := set_self h cur c hc
  have hrd : heapStore.rd h cur = some c := hc
  have hrd' : unitStore.rd c () = some c := rfl
  cases b with
  | dup =>
    simp only [stepBasic, rbS, peek_map]
    cases pst.peek with
    | none => simp [failAt, mapResS, hs]
    | some v => simp [mapResS, hs, push_map, rbS]
  | dropn n =>
    simp only [stepBasic, rbS, pop_map]
    cases pst.pop n with
    | none => simp [failAt, mapResS, hs]
    | some r => simp [mapResS, hs, rbS]
  | dig n =>
    simp only [stepBasic, rbS, protect_map]
    cases pst.protect n with
    | none => simp [failAt, mapResS, hs]
    | some st1 =>
      simp only [Option.map_some, pop_map]
      cases st1.pop 1 with
      | none => simp [failAt, mapResS, hs]
      | some r =>
        obtain ⟨vs, st2⟩ := r
        simp only [Option.map_some, restore_map]
        cases st2.restore n with
        | none => simp [failAt, mapResS, hs]
        | some st3 => simp [mapResS, hs, rbS, pushAll_map]
  | dug n =>
    simp only [stepBasic, rbS, pop_map]
    cases pst.pop 1 with
    | none => simp [failAt, mapResS, hs]
    | some r =>
      obtain ⟨vs, st1⟩ := r
      simp only [Option.map_some, protect_map]
      cases st1.protect n with
      | none => simp [failAt, mapResS, hs]
      | some st2 =>
        simp only [Option.map_some, pushAll_map, restore_map]
        cases (st2.pushAll vs).restore n with
        | none => simp [failAt, mapResS, hs]
        | some st3 => simp [mapResS, hs, rbS]
  | dupn d =>
    simp only [stepBasic, rbS, protect_map]
    cases pst.protect d with
    | none => simp [failAt, mapResS, hs]
    | some st1 =>
      simp only [Option.map_some, peek_map]
      cases st1.peek with
      | none => simp [failAt, mapResS, hs]
      | some v =>
        simp only [Option.map_some, restore_map]
        cases st1.restore d with
        | none => simp [failAt, mapResS, hs]
        | some st2 => simp [mapResS, hs, rbS, push_map]
  | emptyBigMap =>
    simp only [stepBasic, hrd, hrd']
    have := push_map (Val.map fun (_ : Unit) => cur) pst (.bigmap ⟨[], [], some (getTmpBigMapId c.big).1⟩ ())
    simp only [Val.map] at this
    simp [mapResS, rbS, heapStore, unitStore, this]
  | amount => simpa only [stepBasic] using stepEnv_sim cur h c hc _ pst
  | balance => simpa only [stepBasic] using stepEnv_sim cur h c hc _ pst
  | now => simpa only [stepBasic] using stepEnv_sim cur h c hc _ pst
  | sender => simpa only [stepBasic] using stepEnv_sim cur h c hc _ pst
  | source => simpa only [stepBasic] using stepEnv_sim cur h c hc _ pst
  | _ => simpa only [stepBasic] using stepPops_sim cur h c hc _ pst

end sim

def mapStep (cur : Nat) : Except Fail (Stk (Val Unit) × List Out) → Except Fail (Stk (Val Nat) × List Out)
  | .ok r => .ok (rbS cur r.1, r.2)
  | .error f => .error f

/-! ### DIP bodies: the simulation of the leaves lifts to programs -/

theorem executeDip_sim (cur count : Nat)
    (bodyH : Stk (Val Nat) → List Impl.Session.Ctx → Res (List Impl.Session.Ctx) (Stk (Val Nat) × List Out))
    (bodyU : Stk (Val Unit) → Impl.Session.Ctx → Res Impl.Session.Ctx (Stk (Val Unit) × List Out))
    (hb : ∀ pst h c, h[cur]? = some c → bodyH (rbS cur pst) h = (mapStep cur (bodyU pst c).1, h.set cur (bodyU pst c).2))
    (pst : Stk (Val Unit)) (h : List Impl.Session.Ctx) (c : Impl.Session.Ctx) (hc : h[cur]? = some c) :
    executeDip count bodyH (rbS cur pst) h =
      (mapStep cur (executeDip count bodyU pst c).1, h.set cur (executeDip count bodyU pst c).2) := by
  have hs := set_self h cur c hc
  simp only [executeDip, rbS, protect_map]
  cases pst.protect count with
  | none => simp [failAt, mapStep, hs]
  | some st1 =>
    simp only [Option.map_some]
    have := hb st1 h c hc
    simp only [rbS] at this
    rw [this]
    cases hr : bodyU st1 c with
    | mk r c' =>
      cases r with
      | error f => simp [mapStep]
      | ok r =>
        simp only [mapStep, rbS, restore_map]
        cases r.1.restore count with
        | none => simp [failAt, mapStep]
        | some st2 => simp [mapStep, rbS]

section prog
variable {α : Type} (cur : Nat)
  (stepH : α → Stk (Val Nat) → List Impl.Session.Ctx → Res (List Impl.Session.Ctx) (Stk (Val Nat) × List Out))
  (stepU : α → Stk (Val Unit) → Impl.Session.Ctx → Res Impl.Session.Ctx (Stk (Val Unit) × List Out))

mutual
theorem execProg_sim
    (hstep : ∀ a pst h c, h[cur]? = some c → stepH a (rbS cur pst) h = (mapStep cur (stepU a pst c).1, h.set cur (stepU a pst c).2)) :
    ∀ (p : Prog α) (pst : Stk (Val Unit)) (h : List Impl.Session.Ctx) (c : Impl.Session.Ctx), h[cur]? = some c →
      execProg stepH p (rbS cur pst) h = (mapStep cur (execProg stepU p pst c).1, h.set cur (execProg stepU p pst c).2)
  | .op a, pst, h, c, hc => by simp only [execProg]; exact hstep a pst h c hc
  | .dip body, pst, h, c, hc => by
    simp only [execProg]
    exact executeDip_sim cur 1 _ _ (fun pst h c hc => execProgs_sim hstep body pst h c hc) pst h c hc
  | .dipn n body, pst, h, c, hc => by
    simp only [execProg]
    exact executeDip_sim cur n _ _ (fun pst h c hc => execProgs_sim hstep body pst h c hc) pst h c hc
theorem execProgs_sim
    (hstep : ∀ a pst h c, h[cur]? = some c → stepH a (rbS cur pst) h = (mapStep cur (stepU a pst c).1, h.set cur (stepU a pst c).2)) :
    ∀ (ps : List (Prog α)) (pst : Stk (Val Unit)) (h : List Impl.Session.Ctx) (c : Impl.Session.Ctx), h[cur]? = some c →
      execProgs stepH ps (rbS cur pst) h = (mapStep cur (execProgs stepU ps pst c).1, h.set cur (execProgs stepU ps pst c).2)
  | [], pst, h, c, hc => by simp [execProgs, mapStep, set_self h cur c hc]
  | p :: ps, pst, h, c, hc => by
    simp only [execProgs]
    rw [execProg_sim hstep p pst h c hc]
    cases hr : execProg stepU p pst c with
    | mk r c1 =>
      cases r with
      | error f => simp [mapStep]
      | ok r =>
        simp only [mapStep]
        rw [execProgs_sim hstep ps r.1 (h.set cur c1) c1 (get_set h cur c c1 hc)]
        cases hr2 : execProgs stepU ps r.1 c1 with
        | mk r2 c2 => cases r2 <;> simp [mapStep]
end
end prog

theorem basicStep_sim (cur : Nat) (b : Basic) (pst : Stk (Val Unit)) (h : List Impl.Session.Ctx) (c : Impl.Session.Ctx)
    (hc : h[cur]? = some c) :
    basicStep heapStore cur b (rbS cur pst) h =
      (mapStep cur (basicStep unitStore () b pst c).1, h.set cur (basicStep unitStore () b pst c).2) := by
  simp only [basicStep, stepBasic_sim cur h c hc]
  cases hr : stepBasic unitStore () b pst c with
  | mk r c' => cases r <;> simp [mapResS, mapStep]

theorem runBasics_sim (cur : Nat) (code : List (Prog Basic)) (pst : Stk (Val Unit)) (h : List Impl.Session.Ctx) (c : Impl.Session.Ctx)
    (hc : h[cur]? = some c) :
    runBasics heapStore cur code (rbS cur pst) h =
      (mapStep cur (runBasics unitStore () code pst c).1, h.set cur (runBasics unitStore () code pst c).2) :=
  execProgs_sim cur _ _ (basicStep_sim cur) code pst h c hc

theorem attachVal_sim (cur : Nat) (copy : Bool) (v : Val Unit) (c : Impl.BigMap.Ctx) :
    attachVal cur copy v c = ((attachVal () copy v c).1.map (fun _ => cur), (attachVal () copy v c).2) := by
  induction v generalizing c with
  | some v ih => simp [attachVal, ih c, Val.map]
  | pair a b iha ihb =>
    simp only [attachVal, Val.map]
    rw [iha c, ihb]
  | bigmap b r => simp [attachVal, Val.map]
  | _ => simp [attachVal, Val.map]

def mapAgg (cur : Nat) : Except Impl.Session.Err (Val Unit × List Entry) → Except Impl.Session.Err (Val Nat × List Entry)
  | .ok r => .ok (rb cur r.1, r.2)
  | .error e => .error e

theorem aggVal_sim (cur : Nat) (pv : Val Unit) (h : List Impl.Session.Ctx) (c : Impl.Session.Ctx) (hc : h[cur]? = some c) :
    aggVal heapStore (rb cur pv) h = (mapAgg cur (aggVal unitStore pv c).1, h.set cur (aggVal unitStore pv c).2) := by
  induction pv generalizing h c with
  | bigmap b r =>
    simp only [aggVal, rb, Val.map, heapStore, unitStore, hc]
    cases aggregateLazyDiff (fun _ => ()) c.big b with
    | none => simp [mapAgg, set_self h cur c hc]
    | some res => simp [mapAgg, Val.map]
  | pair a b iha ihb =>
    simp only [aggVal, rb, Val.map]
    have ha := iha h c hc
    simp only [rb] at ha
    rw [ha]
    cases hra : aggVal unitStore a c with
    | mk ra c1 =>
      cases ra with
      | error e => simp [mapAgg]
      | ok ra =>
        simp only [mapAgg]
        have hb := ihb (h.set cur c1) c1 (get_set h cur c c1 hc)
        simp only [rb] at hb
        rw [hb]
        cases hrb : aggVal unitStore b c1 with
        | mk rb' c2 =>
          cases rb' with
          | error e => simp [mapAgg]
          | ok rb' => simp [mapAgg, Val.map]
  | some v ih =>
    simp only [aggVal, rb, Val.map]
    have hv := ih h c hc
    simp only [rb] at hv
    rw [hv]
    cases hrv : aggVal unitStore v c with
    | mk rv c1 =>
      cases rv with
      | error e => simp [mapAgg]
      | ok rv => simp [mapAgg, Val.map]
  | _ => simp [aggVal, rb, Val.map, mapAgg, set_self h cur c hc]


def mapVal (cur : Nat) : Except Impl.Session.Err (Val Unit) → Except Impl.Session.Err (Val Nat)
  | .ok v => .ok (rb cur v)
  | .error e => .error e

theorem beginWith_sim (cur : Nat) (p s : Lit) (h : List Impl.Session.Ctx) (c : Impl.Session.Ctx) (hc : h[cur]? = some c) :
    beginWith heapStore cur p s h = (mapVal cur (beginWith unitStore () p s c).1, h.set cur (beginWith unitStore () p s c).2) := by
  have hs := set_self h cur c hc
  simp only [beginWith, heapStore, unitStore, hc]
  cases c.paramTy with
  | none => simp [mapVal, hs]
  | some pt =>
    cases c.storageTy with
    | none => simp [mapVal, hs]
    | some sty =>
      simp only []
      cases parseLit pt p with
      | error e => simp [mapVal, hs]
      | ok pv =>
        cases parseLit sty s with
        | error e => simp [mapVal, hs]
        | ok sv =>
          simp only [mapVal]
          rw [attachVal_sim cur true pv, attachVal_sim cur false sv]
          simp [Val.map]

theorem endWith_sim (cur : Nat) (res : Val Unit) (h : List Impl.Session.Ctx) (c : Impl.Session.Ctx) (hc : h[cur]? = some c) :
    endWith heapStore cur (rb cur res) h = (mapAgg cur (endWith unitStore () res c).1, h.set cur (endWith unitStore () res c).2) := by
  have hs := set_self h cur c hc
  have hrd : heapStore.rd h cur = some c := hc
  have hrd' : unitStore.rd c () = some c := rfl
  simp only [endWith, hrd, hrd']
  cases c.storageTy with
  | none => simp [mapAgg, hs]
  | some sty =>
    cases res with
    | pair ops sv =>
      simp only [rb, Val.map]
      have ht : (Val.pair (ops.map fun _ => cur) (sv.map fun _ => cur)).typeOf = (Val.pair ops sv).typeOf := by
        simp [Val.typeOf, typeOf_map]
      simp only [ht]
      by_cases hty : (Val.pair ops sv).typeOf = .pair .listOp sty
      · simp only [hty, if_true]
        have := aggVal_sim cur sv h c hc
        simp only [rb] at this
        rw [this]
        cases hra : aggVal unitStore sv c with
        | mk ra c1 =>
          cases ra with
          | error e => simp [mapAgg]
          | ok ra => simp [mapAgg, Val.map]
      · simp [hty, mapAgg, hs]
    | _ => simp [rb, Val.map, mapAgg, hs]



def mapPop (cur : Nat) : Except Fail (Stk (Val Unit) × Val Unit × Val Unit × List Entry) → Except Fail (Stk (Val Nat) × Val Nat × Val Nat × List Entry)
  | .ok r => .ok (rbS cur r.1, rb cur r.2.1, rb cur r.2.2.1, r.2.2.2)
  | .error f => .error f

theorem popResult_sim (cur : Nat) (pst : Stk (Val Unit)) (h : List Impl.Session.Ctx) (c : Impl.Session.Ctx) (hc : h[cur]? = some c) :
    popResult heapStore cur (rbS cur pst) h =
      (mapPop cur (popResult unitStore () pst c).1, h.set cur (popResult unitStore () pst c).2) := by
  have hs := set_self h cur c hc
  simp only [popResult, rbS, pop_map]
  cases hp : pst.pop 1 with
  | none => simp [failAt, mapPop, hs]
  | some r =>
    obtain ⟨xs, st1⟩ := r
    rcases xs with _ | ⟨res, _ | ⟨y, xs⟩⟩
    · simp [failAt, mapPop, hs]
    · simp only [Option.map_some, List.map_cons, List.map_nil, map_items, List.isEmpty_map, map_prot]
      cases hemp : st1.items.isEmpty with
      | false => simp [failAt, mapPop, hs]
      | true =>
        simp only [if_true]
        have := endWith_sim cur res h c hc
        simp only [rb] at this
        rw [this]
        cases hr : endWith unitStore () res c with
        | mk r c' => cases r <;> simp [mapAgg, mapPop, failAt, rbS, rb]
    · simp [failAt, mapPop, hs]

theorem stepInstr_sim (cur : Nat) (i : Instr) (pst : Stk (Val Unit)) (h : List Impl.Session.Ctx) (c : Impl.Session.Ctx)
    (hc : h[cur]? = some c) :
    stepInstr heapStore cur i (rbS cur pst) h =
      (mapStep cur (stepInstr unitStore () i pst c).1, h.set cur (stepInstr unitStore () i pst c).2) := by
  have hs := set_self h cur c hc
  have hrd : heapStore.rd h cur = some c := hc
  have hrd' : unitStore.rd c () = some c := rfl
  cases i with
  | basic b => simp only [stepInstr]; exact basicStep_sim cur b pst h c hc
  | declStorage t => simp [stepInstr, mapStep, heapStore, unitStore, hc]
  | declParam t => simp [stepInstr, mapStep, heapStore, unitStore, hc]
  | declCode code => simp [stepInstr, mapStep, heapStore, unitStore, hc]
  | begin_ p sl =>
    simp only [stepInstr, beginWith_sim cur p sl h c hc]
    cases hr : beginWith unitStore () p sl c with
    | mk r c' =>
      cases r with
      | error e => simp [mapVal, mapStep, failAt]
      | ok v =>
        simp only [mapVal, mapStep, rb]
        have := push_map (Val.map fun (_ : Unit) => cur) ({ pst with items := [] } : Stk (Val Unit)) v
        simp only [Stk.map, List.map_nil] at this
        simp [rbS, Stk.map, this]
  | commit =>
    simp only [stepInstr, popResult_sim cur pst h c hc]
    cases hr : popResult unitStore () pst c with
    | mk r c' => cases r <;> simp [mapPop, mapStep, erase_rb, erase_unit]
  | run p sl =>
    simp only [stepInstr, hrd, hrd']
    cases c.code with
    | none => simp [mapStep, hs, failAt, Stk.clear]
    | some code =>
      simp only [beginWith_sim cur p sl h c hc]
      cases hr : beginWith unitStore () p sl c with
      | mk r c1 =>
        cases r with
        | error e => simp [mapVal, mapStep, failAt, Stk.clear]
        | ok v =>
          simp only [mapVal]
          have hc1 := get_set h cur c c1 hc
          have hpush : (rbS cur pst).clear.push (rb cur v) = rbS cur (pst.clear.push v) := by
            simp [Stk.clear, Stk.push, rbS, Stk.map, rb]
          rw [hpush, runBasics_sim cur code _ (h.set cur c1) c1 hc1]
          cases hr2 : runBasics unitStore () code (pst.clear.push v) c1 with
          | mk r2 c2 =>
            cases r2 with
            | error f => simp [mapStep]
            | ok r2 =>
              simp only [mapStep]
              have hc2 : ((h.set cur c1).set cur c2)[cur]? = some c2 := get_set _ cur c1 c2 hc1
              rw [popResult_sim cur r2.1 _ c2 hc2]
              cases hr3 : popResult unitStore () r2.1 c2 with
              | mk r3 c3 => cases r3 <;> simp [mapPop, mapStep, erase_rb, erase_unit]
  | dropAll => simp [stepInstr, mapStep, hs, rbS, Stk.map]
  | bigMapDiff =>
    simp only [stepInstr, rbS, peek_map]
    cases pst.peek with
    | none => simp [failAt, mapStep, hs]
    | some v =>
      simp only [Option.map_some]
      have := aggVal_sim cur v h c hc
      simp only [rb] at this
      rw [this]
      cases hr : aggVal unitStore v c with
      | mk r c' => cases r <;> simp [mapAgg, mapStep, failAt, rbS]
  | patch f v =>
    simp only [stepInstr, hrd, hrd']
    cases patchCtx c f v with
    | ok c' => simp [mapStep, heapStore, unitStore]
    | error e => simp [mapStep, failAt, hs]
  | parseError => simp [stepInstr, mapStep, hs, failAt]

theorem runInstrs_sim (cur : Nat) (is : List (Prog Instr)) (pst : Stk (Val Unit)) (h : List Impl.Session.Ctx) (c : Impl.Session.Ctx)
    (hc : h[cur]? = some c) :
    runInstrs heapStore cur is (rbS cur pst) h =
      (mapStep cur (runInstrs unitStore () is pst c).1, h.set cur (runInstrs unitStore () is pst c).2) :=
  execProgs_sim cur _ _ (stepInstr_sim cur) is pst h c hc


/-! ### cells and sessions: the aliasing-free reading -/

/-- a session state without addresses: the stack and the one context -/
abbrev PState := Stk (Val Unit) × Impl.Session.Ctx

/-- a cell on the aliasing-free state: run; on error nothing changes -/
def cellP (a : PState) (cl : Cell) : PState × CellResult :=
  match runInstrs unitStore () cl a.1 a.2 with
  | (.ok r, c') => ((r.1, c'), .ok r.2)
  | (.error _, _) => (a, .failed)

def sessionP : PState → List Cell → List CellResult × PState
  | a, [] => ([], a)
  | a, cl :: cs =>
    let r := cellP a cl
    let rest := sessionP r.1 cs
    (r.2 :: rest.1, rest.2)

def dropFailingP : PState → List Cell → List Cell
  | _, [] => []
  | a, cl :: cs =>
    let r := cellP a cl
    if r.2.isFailed then dropFailingP r.1 cs else cl :: dropFailingP r.1 cs

def obsP (a : PState) : Observation := ⟨a.1.items, a.1.prot, (a.1.items.flatMap Val.refs).map fun _ => some a.2, some a.2⟩

/-- the shape the theorems are about: the stack copy follows the context copy, the stack object is replaced -/
abbrev repaired : Cfg := ⟨true, .replaceStack⟩

/-- a heap state represents the aliasing-free state `a` -/
def Rep (σ : State) (a : PState) : Prop := WF σ ∧ σ.heap[σ.cur]? = some a.2 ∧ σ.stack.map erase = a.1

theorem items_eq_rbs {σ : State} (hwf : WF σ) : σ.stack.items = rbs σ.cur (σ.stack.items.map erase) := by
  simp only [rbs, List.map_map]
  have : ∀ v ∈ σ.stack.items, ((Val.map fun _ => σ.cur) ∘ erase) v = v := fun v hv => rb_erase σ.cur v (hwf.2 v hv)
  rw [List.map_congr_left this]
  simp

theorem stack_eq_rbS {σ : State} (hwf : WF σ) : σ.stack = rbS σ.cur (σ.stack.map erase) := by
  have := items_eq_rbs hwf
  cases hσ : σ.stack with
  | mk items prot =>
    rw [hσ] at this
    simp only [rbS, Stk.map, rbs] at this ⊢
    rw [← this]

theorem flatMap_refs_rbs (cur : Nat) (pst : List (Val Unit)) :
    (rbs cur pst).flatMap Val.refs = (pst.flatMap Val.refs).map fun _ => cur := by
  induction pst with
  | nil => rfl
  | cons v st ih =>
    simp only [rbs, List.map_cons, List.flatMap_cons, List.map_append] at ih ⊢
    rw [ih, refs_map]

theorem observe_rep {σ : State} {a : PState} (h : Rep σ a) : observe σ = obsP a := by
  obtain ⟨hwf, hc, hst⟩ := h
  have hs := items_eq_rbs hwf
  have hit : σ.stack.items.map erase = a.1.items := by rw [← hst]; rfl
  have hpr : σ.stack.prot = a.1.prot := by rw [← hst]; rfl
  simp only [observe, obsP, hc, hit, hpr]
  congr 1
  rw [hs, flatMap_refs_rbs, hit, List.map_map]
  apply List.map_congr_left
  intro r _
  simp [hc]

theorem rep_init : Rep State.init (Stk.empty, Ctx.init) := by
  refine ⟨⟨by simp [State.init], by simp [State.init, Stk.empty]⟩, by simp [State.init], by simp [State.init, Stk.empty, Stk.map]⟩

theorem refs_rbS (cur : Nat) (pst : Stk (Val Unit)) : ∀ v ∈ (rbS cur pst).items, ∀ r ∈ v.refs, r = cur := by
  intro v hv r hr
  obtain ⟨w, _, rfl⟩ := List.mem_map.1 hv
  rw [refs_map] at hr
  obtain ⟨_, _, rfl⟩ := List.mem_map.1 hr
  rfl

theorem erase_rbS (cur : Nat) (pst : Stk (Val Unit)) : (rbS cur pst).map erase = pst := by
  cases pst with
  | mk items prot =>
    simp only [rbS, Stk.map, List.map_map, Stk.mk.injEq, and_true]
    have : ∀ v ∈ items, (erase ∘ Val.map fun _ => cur) v = v := fun v _ => erase_rb cur v
    rw [List.map_congr_left this]
    simp

/-- one cell with the repaired backup and restore: the heap run represents the aliasing-free run, with the same result -/
theorem cell_rep {σ : State} {a : PState} (h : Rep σ a) (cl : Cell) :
    Rep (cellWith repaired σ cl).1 (cellP a cl).1 ∧ (cellWith repaired σ cl).2 = (cellP a cl).2 := by
  obtain ⟨hwf, hc, hst⟩ := h
  obtain ⟨pst, c⟩ := a
  simp only at hc hst
  have hlt : σ.cur < σ.heap.length := hwf.1
  have hc1 : (σ.heap ++ [c])[σ.cur]? = some c := by rw [List.getElem?_append_left hlt]; exact hc
  have hs := stack_eq_rbS hwf
  rw [hst] at hs
  have hsim := runInstrs_sim σ.cur cl pst (σ.heap ++ [c]) c hc1
  simp only [cellWith, hc, cellP]
  have hsim' : runInstrs heapStore σ.cur cl σ.stack (σ.heap ++ [c]) =
      (mapStep σ.cur (runInstrs unitStore () cl pst c).1, (σ.heap ++ [c]).set σ.cur (runInstrs unitStore () cl pst c).2) := by
    rw [hs]; exact hsim
  rw [hsim']
  cases hr : runInstrs unitStore () cl pst c with
  | mk r c' =>
    cases r with
    | ok r =>
      simp only [mapStep]
      refine ⟨⟨⟨?_, refs_rbS _ _⟩, ?_, erase_rbS _ _⟩, trivial⟩
      · simp only [List.length_set, List.length_append, List.length_cons, List.length_nil]; omega
      · exact get_set _ _ _ _ hc1
    | error e =>
      simp only [mapStep]
      refine ⟨⟨⟨?_, ?_⟩, ?_, ?_⟩, trivial⟩
      · simp only [List.length_set, List.length_append, List.length_cons, List.length_nil]; omega
      · intro v hv r hr'
        obtain ⟨w, hw, rfl⟩ := List.mem_map.1 hv
        rw [refs_map] at hr'
        obtain ⟨r0, hr0, rfl⟩ := List.mem_map.1 hr'
        simp [hwf.2 w hw r0 hr0]
      · simp only
        rw [List.getElem?_set_ne (by omega)]
        simp
      · rw [← hst]
        cases hσ : σ.stack with
        | mk items prot =>
          simp only [Stk.map, List.map_map, Stk.mk.injEq, and_true]
          apply List.map_congr_left
          intro v _
          simp only [Function.comp, erase, map_map]

theorem session_rep {σ : State} {a : PState} (h : Rep σ a) (cs : List Cell) :
    (sessionWith repaired σ cs).1 = (sessionP a cs).1 ∧ Rep (sessionWith repaired σ cs).2 (sessionP a cs).2 := by
  induction cs generalizing σ a with
  | nil => exact ⟨rfl, h⟩
  | cons cl cs ih =>
    obtain ⟨h1, h2⟩ := cell_rep h cl
    obtain ⟨i1, i2⟩ := ih h1
    simp only [sessionWith, sessionP]
    exact ⟨by rw [h2, i1], i2⟩

theorem dropFailing_rep {σ : State} {a : PState} (h : Rep σ a) (cs : List Cell) :
    dropFailingWith repaired σ cs = dropFailingP a cs := by
  induction cs generalizing σ a with
  | nil => rfl
  | cons cl cs ih =>
    obtain ⟨h1, h2⟩ := cell_rep h cl
    simp only [dropFailingWith, dropFailingP, h2, ih h1]

theorem cellP_failed (a : PState) (cl : Cell) (h : (cellP a cl).2.isFailed = true) : (cellP a cl).1 = a := by
  simp only [cellP] at h ⊢
  cases hr : runInstrs unitStore () cl a.1 a.2 with
  | mk r c' =>
    rw [hr] at h
    cases r with
    | ok r => simp [CellResult.isFailed] at h
    | error e => rfl

/-- on the aliasing-free state a failing cell changes nothing, so dropping the failing cells changes neither the
results of the others nor the final state -/
theorem sessionP_filtered (a : PState) (cs : List Cell) :
    (sessionP a (dropFailingP a cs)).1 = (sessionP a cs).1.filter (fun r => !r.isFailed) ∧
    (sessionP a (dropFailingP a cs)).2 = (sessionP a cs).2 := by
  induction cs generalizing a with
  | nil => exact ⟨rfl, rfl⟩
  | cons cl cs ih =>
    simp only [dropFailingP, sessionP]
    by_cases hf : (cellP a cl).2.isFailed = true
    · have ha := cellP_failed a cl hf
      simp only [hf, if_true, List.filter_cons, Bool.not_true, Bool.false_eq_true, if_false]
      rw [ha]
      exact ih a
    · have hf' : (cellP a cl).2.isFailed = false := by simpa using hf
      obtain ⟨i1, i2⟩ := ih (cellP a cl).1
      simp only [hf', Bool.false_eq_true, if_false, sessionP, List.filter_cons, Bool.not_false, if_true]
      exact ⟨by rw [i1], i2⟩

theorem exists_rep {σ : State} (hwf : WF σ) : ∃ a, Rep σ a := by
  have hlt := hwf.1
  refine ⟨(σ.stack.map erase, σ.heap[σ.cur]), hwf, ?_, rfl⟩
  simp [List.getElem?_eq_getElem hlt]

def traceP : PState → List Cell → List (CellResult × Observation)
  | _, [] => []
  | a, cl :: cs =>
    let r := cellP a cl
    (r.2, obsP r.1) :: traceP r.1 cs

theorem trace_rep {σ : State} {a : PState} (h : Rep σ a) (cs : List Cell) : traceWith repaired σ cs = traceP a cs := by
  induction cs generalizing σ a with
  | nil => rfl
  | cons cl cs ih =>
    obtain ⟨h1, h2⟩ := cell_rep h cl
    simp only [traceWith, traceP, h2, observe_rep h1, ih h1]

theorem traceP_filtered (a : PState) (cs : List Cell) :
    traceP a (dropFailingP a cs) = (traceP a cs).filter (fun r => !r.1.isFailed) := by
  induction cs generalizing a with
  | nil => rfl
  | cons cl cs ih =>
    simp only [dropFailingP, traceP]
    by_cases hf : (cellP a cl).2.isFailed = true
    · have ha := cellP_failed a cl hf
      simp only [hf, if_true, List.filter_cons, Bool.not_true, Bool.false_eq_true, if_false]
      rw [ha]
      exact ih a
    · have hf' : (cellP a cl).2.isFailed = false := by simpa using hf
      simp only [hf', Bool.false_eq_true, if_false, traceP, List.filter_cons, Bool.not_false, if_true]
      rw [ih]


/-! ### no protected prefix survives a successful instruction: `protected` comes back to where it was, or to 0 (`clear`) -/

section prot
variable {α : Type} (s : Stk α)

theorem push_prot (v : α) : (s.push v).prot = s.prot := rfl

theorem pushAll_prot (vs : List α) : (s.pushAll vs).prot = s.prot := by
  induction vs with
  | nil => rfl
  | cons v vs ih => simpa only [Stk.pushAll, List.foldr_cons, push_prot] using ih

theorem pop_prot {k : Nat} {r : List α × Stk α} (h : s.pop k = some r) : r.2.prot = s.prot := by
  simp only [Stk.pop] at h
  split at h
  · cases h
  · cases h; rfl

theorem popArgs_prot {k : Nat} {r : List α × Stk α} (h : s.popArgs k = some r) : r.2.prot = s.prot := by
  simp only [Stk.popArgs] at h
  split at h
  · cases h; rfl
  · exact pop_prot s h

theorem protect_prot {k : Nat} {s' : Stk α} (h : s.protect k = some s') : s'.prot = s.prot + k := by
  simp only [Stk.protect] at h
  split at h
  · cases h
  · cases h; rfl

theorem restore_prot {k : Nat} {s' : Stk α} (h : s.restore k = some s') : s'.prot = s.prot - k ∧ k ≤ s.prot := by
  simp only [Stk.restore] at h
  split at h
  · cases h
  · cases h; exact ⟨rfl, by omega⟩

end prot

section protInstr
variable {ρ S : Type} (σ : Store ρ S)

theorem stepPops_prot (b : Basic) (st st' : Stk (Val ρ)) (s s' : S) (h : stepPops σ b st s = (.ok st', s')) : st'.prot = st.prot := by
  simp only [stepPops] at h
  cases hp : st.popArgs (arity b) with
  | none => simp [hp, failAt] at h
  | some r =>
    obtain ⟨xs, st1⟩ := r
    have h1 := popArgs_prot st hp
    simp only [hp] at h
    split at h
    · cases h; rw [pushAll_prot]; exact h1
    · simp [failAt] at h

theorem stepEnv_prot (cur : ρ) (b : Basic) (st st' : Stk (Val ρ)) (s s' : S) (h : stepEnv σ cur b st s = (.ok st', s')) : st'.prot = st.prot := by
  simp only [stepEnv] at h
  split at h
  · simp [failAt] at h
  · split at h
    · cases h; rfl
    · simp [failAt] at h

theorem stepBasic_prot (cur : ρ) (b : Basic) (st st' : Stk (Val ρ)) (s s' : S) (h : stepBasic σ cur b st s = (.ok st', s')) :
    st'.prot = st.prot := by
  cases b with
  | dup =>
    simp only [stepBasic] at h
    split at h
    · simp [failAt] at h
    · cases h; rfl
  | dropn n =>
    simp only [stepBasic] at h
    cases hp : st.pop n with
    | none => simp [hp, failAt] at h
    | some r => simp only [hp] at h; cases h; exact pop_prot st hp
  | dig n =>
    simp only [stepBasic] at h
    cases h1 : st.protect n with
    | none => simp [h1, failAt] at h
    | some st1 =>
      simp only [h1] at h
      cases h2 : st1.pop 1 with
      | none => simp [h2, failAt] at h
      | some r =>
        obtain ⟨vs, st2⟩ := r
        simp only [h2] at h
        cases h3 : st2.restore n with
        | none => simp [h3, failAt] at h
        | some st3 =>
          simp only [h3] at h
          cases h
          have e1 := protect_prot st h1
          have e2 := pop_prot st1 h2
          have e3 := (restore_prot st2 h3).1
          simp only at e2
          rw [pushAll_prot, e3, e2, e1]; omega
  | dug n =>
    simp only [stepBasic] at h
    cases h1 : st.pop 1 with
    | none => simp [h1, failAt] at h
    | some r =>
      obtain ⟨vs, st1⟩ := r
      simp only [h1] at h
      cases h2 : st1.protect n with
      | none => simp [h2, failAt] at h
      | some st2 =>
        simp only [h2] at h
        cases h3 : (st2.pushAll vs).restore n with
        | none => simp [h3, failAt] at h
        | some st3 =>
          simp only [h3] at h
          cases h
          have e1 := pop_prot st h1
          have e2 := protect_prot st1 h2
          have e3 := (restore_prot _ h3).1
          simp only at e1
          rw [e3, pushAll_prot, e2, e1]; omega
  | dupn d =>
    simp only [stepBasic] at h
    cases h1 : st.protect d with
    | none => simp [h1, failAt] at h
    | some st1 =>
      simp only [h1] at h
      cases h2 : st1.peek with
      | none => simp [h2, failAt] at h
      | some v =>
        simp only [h2] at h
        cases h3 : st1.restore d with
        | none => simp [h3, failAt] at h
        | some st2 =>
          simp only [h3] at h
          cases h
          have e1 := protect_prot st h1
          have e3 := (restore_prot st1 h3).1
          rw [push_prot, e3, e1]; omega
  | emptyBigMap =>
    simp only [stepBasic] at h
    split at h
    · simp [failAt] at h
    · cases h; rfl
  | amount => exact stepEnv_prot σ cur _ st st' s s' (by simpa only [stepBasic] using h)
  | balance => exact stepEnv_prot σ cur _ st st' s s' (by simpa only [stepBasic] using h)
  | now => exact stepEnv_prot σ cur _ st st' s s' (by simpa only [stepBasic] using h)
  | sender => exact stepEnv_prot σ cur _ st st' s s' (by simpa only [stepBasic] using h)
  | source => exact stepEnv_prot σ cur _ st st' s s' (by simpa only [stepBasic] using h)
  | _ => exact stepPops_prot σ _ st st' s s' (by simpa only [stepBasic] using h)

/-- `protected` after a successful instruction: back where it was, or 0 -/
def ProtBack (p p' : Nat) : Prop := p' = p ∨ p' = 0

theorem executeDip_prot {β : Type} (count : Nat) (body : Stk (Val ρ) → S → Res S (Stk (Val ρ) × β))
    (hb : ∀ st s r s', body st s = (.ok r, s') → ProtBack st.prot r.1.prot)
    (st : Stk (Val ρ)) (s : S) (r : Stk (Val ρ) × β) (s' : S) (h : executeDip count body st s = (.ok r, s')) :
    ProtBack st.prot r.1.prot := by
  simp only [executeDip] at h
  cases h1 : st.protect count with
  | none => simp [h1, failAt] at h
  | some st1 =>
    simp only [h1] at h
    cases h2 : body st1 s with
    | mk r1 s1 =>
      cases r1 with
      | error f => simp [h2] at h
      | ok r1 =>
        simp only [h2] at h
        cases h3 : r1.1.restore count with
        | none => simp [h3, failAt] at h
        | some st2 =>
          simp only [h3] at h
          have hb' := hb st1 s r1 s1 h2
          cases h
          have e1 := protect_prot st h1
          obtain ⟨e3, e4⟩ := restore_prot r1.1 h3
          rcases hb' with e2 | e2
          · left; simp only; rw [e3, e2, e1]; omega
          · right; simp only; rw [e3, e2]; omega

mutual
theorem execProg_prot {α : Type} (step : α → Stk (Val ρ) → S → Res S (Stk (Val ρ) × List Out))
    (hstep : ∀ a st s r s', step a st s = (.ok r, s') → ProtBack st.prot r.1.prot) :
    ∀ (p : Prog α) st s r s', execProg step p st s = (.ok r, s') → ProtBack st.prot r.1.prot
  | .op a, st, s, r, s', h => by simp only [execProg] at h; exact hstep a st s r s' h
  | .dip body, st, s, r, s', h => by
    simp only [execProg] at h
    exact executeDip_prot 1 _ (fun st s r s' h => execProgs_prot step hstep body st s r s' h) st s r s' h
  | .dipn n body, st, s, r, s', h => by
    simp only [execProg] at h
    exact executeDip_prot n _ (fun st s r s' h => execProgs_prot step hstep body st s r s' h) st s r s' h
theorem execProgs_prot {α : Type} (step : α → Stk (Val ρ) → S → Res S (Stk (Val ρ) × List Out))
    (hstep : ∀ a st s r s', step a st s = (.ok r, s') → ProtBack st.prot r.1.prot) :
    ∀ (ps : List (Prog α)) st s r s', execProgs step ps st s = (.ok r, s') → ProtBack st.prot r.1.prot
  | [], st, s, r, s', h => by simp only [execProgs] at h; cases h; exact Or.inl rfl
  | p :: ps, st, s, r, s', h => by
    simp only [execProgs] at h
    cases h1 : execProg step p st s with
    | mk r1 s1 =>
      cases r1 with
      | error f => simp [h1] at h
      | ok r1 =>
        simp only [h1] at h
        cases h2 : execProgs step ps r1.1 s1 with
        | mk r2 s2 =>
          cases r2 with
          | error f => simp [h2] at h
          | ok r2 =>
            simp only [h2] at h
            have e1 := execProg_prot step hstep p st s r1 s1 h1
            have e2 := execProgs_prot step hstep ps r1.1 s1 r2 s2 h2
            cases h
            simp only
            rcases e1 with e1 | e1 <;> rcases e2 with e2 | e2
            · left; rw [e2, e1]
            · right; exact e2
            · right; rw [e2, e1]
            · right; exact e2
end

theorem basicStep_prot (cur : ρ) (b : Basic) (st : Stk (Val ρ)) (s : S) (r : Stk (Val ρ) × List Out) (s' : S)
    (h : basicStep σ cur b st s = (.ok r, s')) : ProtBack st.prot r.1.prot := by
  simp only [basicStep] at h
  cases h1 : stepBasic σ cur b st s with
  | mk r1 s1 =>
    cases r1 with
    | error f => simp [h1] at h
    | ok st1 =>
      simp only [h1] at h
      have e := stepBasic_prot σ cur b st st1 s s1 h1
      cases h
      exact Or.inl e

theorem popResult_prot (cur : ρ) (st : Stk (Val ρ)) (s : S) (r : Stk (Val ρ) × Val ρ × Val ρ × List Entry) (s' : S)
    (h : popResult σ cur st s = (.ok r, s')) : r.1.prot = st.prot := by
  simp only [popResult] at h
  split at h
  · rename_i res stk1 hp
    have e := pop_prot st hp
    split at h
    · split at h
      · cases h; exact e
      · simp [failAt] at h
    · simp [failAt] at h
  · simp [failAt] at h

theorem stepInstr_prot (cur : ρ) (i : Instr) (st : Stk (Val ρ)) (s : S) (r : Stk (Val ρ) × List Out) (s' : S)
    (h : stepInstr σ cur i st s = (.ok r, s')) : ProtBack st.prot r.1.prot := by
  cases i with
  | basic b => exact basicStep_prot σ cur b st s r s' (by simpa only [stepInstr] using h)
  | declStorage t =>
    simp only [stepInstr] at h
    split at h
    · simp [failAt] at h
    · cases h; exact Or.inl rfl
  | declParam t =>
    simp only [stepInstr] at h
    split at h
    · simp [failAt] at h
    · cases h; exact Or.inl rfl
  | declCode code =>
    simp only [stepInstr] at h
    split at h
    · simp [failAt] at h
    · cases h; exact Or.inl rfl
  | begin_ p sl =>
    simp only [stepInstr] at h
    split at h
    · cases h; exact Or.inl rfl
    · simp [failAt] at h
  | commit =>
    simp only [stepInstr] at h
    split at h
    · rename_i q s1 hq
      have e := popResult_prot σ cur st s q s1 hq
      cases h
      exact Or.inl e
    · simp at h
  | run p sl =>
    simp only [stepInstr] at h
    split at h
    · simp [failAt] at h
    · split at h
      · simp [failAt] at h
      · split at h
        · simp [failAt] at h
        · split at h
          · simp at h
          · rename_i v s1 _ r2 s2 h2
            split at h
            · rename_i q s3 hq
              have e1 := execProgs_prot (basicStep σ cur) (basicStep_prot σ cur) _ _ _ _ _ h2
              have e2 := popResult_prot σ cur _ _ q _ hq
              cases h
              right
              simp only [Stk.clear, push_prot, ProtBack] at e1
              simp only
              rw [e2]
              rcases e1 with e1 | e1 <;> exact e1
            · simp at h
  | dropAll => simp only [stepInstr] at h; cases h; exact Or.inl rfl
  | bigMapDiff =>
    simp only [stepInstr] at h
    split at h
    · simp [failAt] at h
    · split at h
      · cases h; exact Or.inl rfl
      · simp [failAt] at h
  | patch f v =>
    simp only [stepInstr] at h
    split at h
    · simp [failAt] at h
    · split at h
      · cases h; exact Or.inl rfl
      · simp [failAt] at h
  | parseError => simp [stepInstr, failAt] at h

/-- a cell body that starts with nothing protected ends with nothing protected -/
theorem runInstrs_prot_zero (cur : ρ) (cl : List (Prog Instr)) (st : Stk (Val ρ)) (s : S) (r : Stk (Val ρ) × List Out) (s' : S)
    (h0 : st.prot = 0) (h : runInstrs σ cur cl st s = (.ok r, s')) : r.1.prot = 0 := by
  have := execProgs_prot (stepInstr σ cur) (stepInstr_prot σ cur) cl st s r s' h
  rcases this with e | e
  · rw [e, h0]
  · exact e

end protInstr

/-- with the repaired restore (the stack object is replaced by its copy) no cell leaves a protected prefix behind -/
theorem cellWith_prot_zero (σ : State) (h0 : σ.stack.prot = 0) (cl : Cell) : (cellWith repaired σ cl).1.stack.prot = 0 := by
  simp only [cellWith]
  cases hc : σ.heap[σ.cur]? with
  | none => exact h0
  | some ctx =>
    simp only
    cases hr : runInstrs heapStore σ.cur cl σ.stack (σ.heap ++ [ctx]) with
    | mk r h =>
      cases r with
      | ok r => exact runInstrs_prot_zero heapStore σ.cur cl σ.stack _ r h h0 hr
      | error f => exact h0

theorem sessionWith_prot_zero (σ : State) (h0 : σ.stack.prot = 0) (cs : List Cell) : (sessionWith repaired σ cs).2.stack.prot = 0 := by
  induction cs generalizing σ with
  | nil => exact h0
  | cons cl cs ih => exact ih _ (cellWith_prot_zero σ h0 cl)

end Proofs.C22
