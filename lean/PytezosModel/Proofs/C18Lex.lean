import PytezosModel.Proofs.C18Lit
/-! C18 helper lemmas: lexing the text of one token followed by a delimiter gives that token (maximal munch stops
at the delimiter, earlier rules of the master regex do not match), for any lexer table that passes the finite
check `specOK` (rule order, classes of the delimiters / first characters, disjointness of the classes). -/
namespace Impl.Text

/-! ### character classes -/

def inRn (rs : Ranges) (n : Nat) : Bool := rs.any fun r => decide (r.1 ≤ n) && decide (n ≤ r.2)

theorem inR_eq (rs : Ranges) (c : Char) : inR rs c = inRn rs c.toNat := rfl

/-- the two classes have no character in common -/
def disjR (a b : Ranges) : Bool := a.all fun x => b.all fun y => decide (x.2 < y.1) || decide (y.2 < x.1)

theorem disjR_sound {a b : Ranges} (h : disjR a b = true) {n : Nat} (ha : inRn a n = true) : inRn b n = false := by
  cases hb : inRn b n with
  | false => rfl
  | true =>
    simp only [inRn, List.any_eq_true, Bool.and_eq_true, decide_eq_true_eq] at ha hb
    obtain ⟨x, hx, hx1, hx2⟩ := ha
    obtain ⟨y, hy, hy1, hy2⟩ := hb
    simp only [disjR, List.all_eq_true, Bool.or_eq_true, decide_eq_true_eq] at h
    have := h x hx y hy
    omega

/-! ### delimiters -/

def delimChars : List Char := [' ', '\n', '(', ')', '{', '}', ';']

/-- the text that follows starts with white space or punctuation (or is empty) -/
def Delim (rest : List Char) : Prop := ∀ c cs, rest = c :: cs → c ∈ delimChars

theorem Delim.nil : Delim [] := by intro c cs h; cases h
theorem Delim.cons {c : Char} (h : c ∈ delimChars) (cs : List Char) : Delim (c :: cs) := by
  intro c' cs' h'; cases h'; exact h

theorem takeWhile_append_stop {p : Char → Bool} (l rest : List Char) (hl : ∀ x ∈ l, p x = true)
    (hr : ∀ c cs, rest = c :: cs → p c = false) :
    (l ++ rest).takeWhile p = l ∧ (l ++ rest).dropWhile p = rest := by
  induction l with
  | nil =>
    cases rest with
    | nil => simp
    | cons c cs => simp [List.takeWhile_cons, List.dropWhile_cons, hr c cs rfl]
  | cons x l ih =>
    have hx := hl x (by simp)
    have := ih (fun y hy => hl y (by simp [hy]))
    simp [List.takeWhile_cons, List.dropWhile_cons, hx, this]

theorem dropWhile_head_not {p : Char → Bool} (l : List Char) {c : Char} {r : List Char}
    (h : l.dropWhile p = c :: r) : p c = false := by
  induction l with
  | nil => simp at h
  | cons x l ih =>
    simp only [List.dropWhile_cons] at h
    split at h
    · exact ih h
    · rename_i hx; cases h; simpa using hx

theorem takeWhile_all {p : Char → Bool} (l : List Char) : ∀ x ∈ l.takeWhile p, p x = true := by
  induction l with
  | nil => simp
  | cons x l ih =>
    simp only [List.takeWhile_cons]
    split
    · rename_i hx; intro y hy; simp at hy; rcases hy with rfl | hy; exact hx; exact ih y hy
    · simp

/-! ### the finite check on the lexer table -/

def stdOrder : List Rule :=
  [.annot, .prim, .str, .byte, .mcomment, .int, .comment, .lcurly, .lparen, .rcurly, .rparen, .semi]

def punctChars : List Char := ['{', '(', '}', ')', ';']

def specOK (sp : LexSpec) : Bool :=
  decide (sp.order = stdOrder)
  && (sp.ignore.contains 32 && sp.ignore.contains 10)
  && delimChars.all (fun d => !inR sp.primTail d && !inR sp.annotHead d && !inR sp.annotFirst d
      && !inR sp.annotRest d && !inR sp.intDigits d && !inR sp.byteDigits d)
  && sp.ignore.all (fun n => !inRn sp.primHead n && !inRn sp.annotHead n && !inRn sp.intDigits n
      && !(([34, 48, 45, 123, 125, 40, 41, 59] : List Nat).contains n))
  && disjR sp.primHead sp.annotHead
  && (!inRn sp.annotHead 34 && !inRn sp.primHead 34)
  && (!inRn sp.annotHead 48 && !inRn sp.primHead 48)
  && (!inRn sp.annotHead 45 && !inRn sp.primHead 45)
  && (disjR sp.intDigits sp.annotHead && disjR sp.intDigits sp.primHead)
  && (!inRn sp.intDigits 34 && !inRn sp.intDigits 47 && !inRn sp.intDigits 120)
  && (List.range 10).all (fun d => inR sp.intDigits (digitChar d))
  && (List.range 16).all (fun d => inR sp.byteDigits (hexChar d))
  && punctChars.all (fun c => !inR sp.annotHead c && !inR sp.primHead c && !inR sp.intDigits c)

structure SpecOK (sp : LexSpec) : Prop where
  order : sp.order = stdOrder
  ign_space : sp.ignore.contains 32 = true
  ign_nl : sp.ignore.contains 10 = true
  delim : ∀ d ∈ delimChars, inR sp.primTail d = false ∧ inR sp.annotHead d = false ∧ inR sp.annotFirst d = false
      ∧ inR sp.annotRest d = false ∧ inR sp.intDigits d = false ∧ inR sp.byteDigits d = false
  ign : ∀ n ∈ sp.ignore, inRn sp.primHead n = false ∧ inRn sp.annotHead n = false ∧ inRn sp.intDigits n = false
      ∧ n ∉ ([34, 48, 45, 123, 125, 40, 41, 59] : List Nat)
  prim_annot : disjR sp.primHead sp.annotHead = true
  quote : inRn sp.annotHead 34 = false ∧ inRn sp.primHead 34 = false
  zero : inRn sp.annotHead 48 = false ∧ inRn sp.primHead 48 = false
  minus : inRn sp.annotHead 45 = false ∧ inRn sp.primHead 45 = false
  int_annot : disjR sp.intDigits sp.annotHead = true
  int_prim : disjR sp.intDigits sp.primHead = true
  int_misc : inRn sp.intDigits 34 = false ∧ inRn sp.intDigits 47 = false ∧ inRn sp.intDigits 120 = false
  digits : ∀ d, d < 10 → inR sp.intDigits (digitChar d) = true
  hexdigits : ∀ d, d < 16 → inR sp.byteDigits (hexChar d) = true
  punct : ∀ c ∈ punctChars, inR sp.annotHead c = false ∧ inR sp.primHead c = false ∧ inR sp.intDigits c = false

theorem specOK_sound {sp : LexSpec} (h : specOK sp = true) : SpecOK sp := by
  simp only [specOK, Bool.and_eq_true, decide_eq_true_eq, List.all_eq_true, Bool.not_eq_true', Bool.not_eq_eq_eq_not,
    Bool.not_true] at h
  obtain ⟨⟨⟨⟨⟨⟨⟨⟨⟨⟨⟨⟨h1, h2⟩, h3⟩, h4⟩, h5⟩, h6⟩, h7⟩, h8⟩, h9⟩, h10⟩, h11⟩, h12⟩, h13⟩ := h
  refine ⟨h1, h2.1, h2.2, ?_, ?_, h5, h6, h7, h8, h9.1, h9.2, ⟨h10.1.1, h10.1.2, h10.2⟩, ?_, ?_, ?_⟩
  · intro d hd
    obtain ⟨⟨⟨⟨⟨a, b⟩, c⟩, d'⟩, e⟩, f⟩ := h3 d hd
    exact ⟨a, b, c, d', e, f⟩
  · intro n hn
    obtain ⟨⟨⟨a, b⟩, c⟩, d'⟩ := h4 n hn
    refine ⟨a, b, c, ?_⟩
    intro hmem
    have : ([34, 48, 45, 123, 125, 40, 41, 59] : List Nat).contains n = true := by simpa using hmem
    rw [this] at d'; cases d'
  · intro d hd; exact h11 d (by simp [hd])
  · intro d hd; exact h12 d (by simp [hd])
  · intro c hc
    obtain ⟨⟨a, b⟩, c'⟩ := h13 c hc
    exact ⟨a, b, c'⟩


/-! ### one step of the lexer -/

theorem lexWith_skip (sp : LexSpec) (c : Char) (cs : List Char) (h : sp.ignore.contains c.toNat = true) :
    lexWith sp (c :: cs) = lexWith sp cs := by
  rw [lexWith]; simp only [h, if_true]

theorem lexWith_tok (sp : LexSpec) (c : Char) (cs : List Char) (t : Tok) (rest : List Char)
    (hi : sp.ignore.contains c.toNat = false)
    (hm : firstMatch sp sp.order (c :: cs) = some (some t, rest)) :
    lexWith sp (c :: cs) = (lexWith sp rest).map (t :: ·) := by
  rw [lexWith]
  simp only [hi, Bool.false_eq_true, if_false]
  split
  · rename_i h; rw [hm] at h; cases h
  · rename_i t' rest' h; rw [hm] at h; cases h; rfl
  · rename_i rest' h; rw [hm] at h; cases h

theorem scanAnnot_none (sp : LexSpec) (c : Char) (cs : List Char) (h : inR sp.annotHead c = false) :
    scanAnnot sp (c :: cs) = none := by
  simp [scanAnnot, List.takeWhile_cons, h]

theorem scanPrim_none (sp : LexSpec) (c : Char) (cs : List Char) (h : inR sp.primHead c = false) :
    scanPrim sp (c :: cs) = none := by
  simp [scanPrim, h]

theorem scanStr_none (c : Char) (cs : List Char) (h : c ≠ '"') : scanStr (c :: cs) = none := by
  unfold scanStr
  split
  · rename_i heq; cases heq; exact absurd rfl h
  · rfl

theorem scanByte_none (sp : LexSpec) (c : Char) (cs : List Char) (h : c ≠ '0') : scanByte sp (c :: cs) = none := by
  unfold scanByte
  split
  · rename_i heq; cases heq; exact absurd rfl h
  · rfl

theorem scanByte_none2 (sp : LexSpec) (c : Char) (cs : List Char)
    (h : ∀ d ds, cs = d :: ds → d ≠ 'x') : scanByte sp (c :: cs) = none := by
  unfold scanByte
  split
  · rename_i cs' heq; cases heq; exact absurd rfl (h 'x' cs' rfl)
  · rfl

theorem scanMComment_none (c : Char) (cs : List Char) (h : c ≠ '/') : scanMComment (c :: cs) = none := by
  unfold scanMComment
  split
  · rename_i heq; cases heq; exact absurd rfl h
  · rfl

theorem scanComment_none (c : Char) (cs : List Char) (h : c ≠ '#') : scanComment (c :: cs) = none := by
  unfold scanComment
  split
  · rename_i heq; cases heq; exact absurd rfl h
  · rfl

theorem scanInt_none (sp : LexSpec) (c : Char) (cs : List Char) (h1 : c ≠ '-') (h2 : inR sp.intDigits c = false) :
    scanInt sp (c :: cs) = none := by
  unfold scanInt
  split
  · rename_i heq; cases heq; exact absurd rfl h1
  · simp [List.takeWhile_cons, h2]

theorem scanChar_none (ch : Char) (t : Tok) (c : Char) (cs : List Char) (h : c ≠ ch) :
    scanChar ch t (c :: cs) = none := by
  simp [scanChar, h]

theorem not_ignored_of {sp : LexSpec} (ok : SpecOK sp) (c : Char)
    (h : inRn sp.primHead c.toNat = true ∨ inRn sp.annotHead c.toNat = true ∨ inRn sp.intDigits c.toNat = true
      ∨ c.toNat ∈ ([34, 48, 45, 123, 125, 40, 41, 59] : List Nat)) :
    sp.ignore.contains c.toNat = false := by
  cases hc : sp.ignore.contains c.toNat with
  | false => rfl
  | true =>
    have hmem : c.toNat ∈ sp.ignore := by simpa using hc
    obtain ⟨a, b, c', d⟩ := ok.ign _ hmem
    rcases h with h | h | h | h
    · rw [a] at h; cases h
    · rw [b] at h; cases h
    · rw [c'] at h; cases h
    · exact absurd h d

/-! ### white space -/

theorem lexWith_space {sp : LexSpec} (ok : SpecOK sp) (cs : List Char) : lexWith sp (' ' :: cs) = lexWith sp cs :=
  lexWith_skip sp ' ' cs ok.ign_space

theorem lexWith_nl {sp : LexSpec} (ok : SpecOK sp) (cs : List Char) : lexWith sp ('\n' :: cs) = lexWith sp cs :=
  lexWith_skip sp '\n' cs ok.ign_nl

theorem lexWith_spaces {sp : LexSpec} (ok : SpecOK sp) (n : Nat) (cs : List Char) :
    lexWith sp (spaces n ++ cs) = lexWith sp cs := by
  induction n with
  | zero => simp [spaces]
  | succ n ih =>
    simp only [spaces, List.replicate_succ, List.cons_append] at ih ⊢
    rw [lexWith_space ok, ih]

/-! ### tokens -/

theorem delim_props {sp : LexSpec} (ok : SpecOK sp) {rest : List Char} (hd : Delim rest) (c : Char) (cs : List Char)
    (h : rest = c :: cs) :
    inR sp.primTail c = false ∧ inR sp.annotHead c = false ∧ inR sp.annotFirst c = false
      ∧ inR sp.annotRest c = false ∧ inR sp.intDigits c = false ∧ inR sp.byteDigits c = false ∧ c ≠ 'x' := by
  have hm := hd c cs h
  obtain ⟨a, b, c', d, e, f⟩ := ok.delim c hm
  refine ⟨a, b, c', d, e, f, ?_⟩
  intro hx; subst hx; revert hm; decide

/-- a primitive name -/
theorem lex_prim {sp : LexSpec} (ok : SpecOK sp) (p : List Char) (hp : primLexes sp p = true) (rest : List Char)
    (hd : Delim rest) : lexWith sp (p ++ rest) = (lexWith sp rest).map (Tok.prim p :: ·) := by
  match p, hp with
  | c :: d :: t, hp =>
    simp only [primLexes, Bool.and_eq_true] at hp
    obtain ⟨hc, ht⟩ := hp
    have hc' : inRn sp.primHead c.toNat = true := hc
    have hna : inR sp.annotHead c = false := disjR_sound ok.prim_annot hc'
    have htw := takeWhile_append_stop (p := inR sp.primTail) (d :: t) rest
      (by simpa [List.all_eq_true] using ht) (fun x xs h => (delim_props ok hd x xs h).1)
    show lexWith sp (c :: ((d :: t) ++ rest)) = _
    apply lexWith_tok sp c _ _ _ (not_ignored_of ok c (Or.inl hc'))
    simp only [ok.order, stdOrder, firstMatch, scanRule, scanAnnot_none sp c _ hna]
    simp only [scanPrim, hc, if_true, htw.1, htw.2]
    rfl

/-- an annotation -/
theorem lex_annot {sp : LexSpec} (ok : SpecOK sp) (a : List Char) (ha : annotLexes sp a = true) (rest : List Char)
    (hd : Delim rest) : lexWith sp (a ++ rest) = (lexWith sp rest).map (Tok.annot a :: ·) := by
  simp only [annotLexes, Bool.and_eq_true, Bool.not_eq_true'] at ha
  obtain ⟨hne, hbody⟩ := ha
  have hsplit : a.takeWhile (inR sp.annotHead) ++ a.dropWhile (inR sp.annotHead) = a := List.takeWhile_append_dropWhile
  -- the first character is in the head class
  obtain ⟨c, cs, hcs, hc⟩ : ∃ c cs, a = c :: cs ∧ inR sp.annotHead c = true := by
    cases a with
    | nil => simp at hne
    | cons c cs =>
      refine ⟨c, cs, rfl, ?_⟩
      cases hcc : inR sp.annotHead c with
      | true => rfl
      | false => simp [List.takeWhile_cons, hcc] at hne
  have hni := not_ignored_of ok c (Or.inr (Or.inl hc))
  have hfm : firstMatch sp sp.order (a ++ rest) = some (some (Tok.annot a), rest) := by
    simp only [ok.order, stdOrder, firstMatch, scanRule]
    have hgoal : scanAnnot sp (a ++ rest) = some (some (Tok.annot a), rest) := by
      cases hdw : a.dropWhile (inR sp.annotHead) with
      | nil =>
        rw [hdw, List.append_nil] at hsplit
        have hall : ∀ x ∈ a, inR sp.annotHead x = true := by
          intro x hx; rw [← hsplit] at hx; exact takeWhile_all a x hx
        have htw := takeWhile_append_stop (p := inR sp.annotHead) a rest hall
          (fun x xs h => (delim_props ok hd x xs h).2.1)
        simp only [scanAnnot, htw.1, htw.2]
        have hane : a.isEmpty = false := by rw [hcs]; rfl
        simp only [hane, Bool.false_eq_true, if_false]
        cases rest with
        | nil => rfl
        | cons x xs =>
          simp only [(delim_props ok hd x xs rfl).2.2.1, Bool.false_eq_true, if_false]
      | cons b r =>
        rw [hdw] at hbody
        simp only [Bool.and_eq_true] at hbody
        have hb := dropWhile_head_not a hdw
        have hall : ∀ x ∈ a.takeWhile (inR sp.annotHead), inR sp.annotHead x = true := takeWhile_all a
        have htw := takeWhile_append_stop (p := inR sp.annotHead) (a.takeWhile (inR sp.annotHead)) (b :: (r ++ rest))
          hall (by intro x xs h; cases h; exact hb)
        have ha' : a ++ rest = a.takeWhile (inR sp.annotHead) ++ (b :: (r ++ rest)) := by
          rw [← List.cons_append, ← List.append_assoc, ← hdw, hsplit]
        have htw2 := takeWhile_append_stop (p := inR sp.annotRest) r rest
          (by simpa [List.all_eq_true] using hbody.2) (fun x xs h => (delim_props ok hd x xs h).2.2.2.1)
        rw [ha']
        simp only [scanAnnot, htw.1, htw.2, hne, Bool.false_eq_true, if_false, hbody.1, if_true, htw2.1, htw2.2]
        rw [← hdw, hsplit]
    rw [hgoal]
  rw [hcs] at hfm ⊢
  exact lexWith_tok sp c _ _ _ hni hfm

theorem natRepr_digits (n : Nat) : ∀ c ∈ natRepr n, ∃ d, d < 10 ∧ c = digitChar d := by
  induction n using Nat.strongRecOn with
  | _ n ih =>
    rw [natRepr]
    split
    · rename_i h; intro c hc; simp at hc; exact ⟨n, h, hc⟩
    · rename_i h
      intro c hc
      simp only [List.mem_append, List.mem_singleton] at hc
      rcases hc with hc | hc
      · exact ih (n / 10) (by omega) c hc
      · exact ⟨n % 10, by omega, hc⟩

theorem digitChar_misc : ∀ d, d < 10 → digitChar d ≠ '"' ∧ digitChar d ≠ '/' ∧ digitChar d ≠ '-' ∧ digitChar d ≠ 'x' := by
  decide

/-- rules tried before `INT` fail on a digit string that is not followed by `x` -/
theorem firstMatch_int {sp : LexSpec} (ok : SpecOK sp) (c : Char) (cs : List Char)
    (hc : inR sp.intDigits c = true) (hx : ∀ d ds, cs = d :: ds → d ≠ 'x') {x : Option Tok × List Char}
    (hs : scanInt sp (c :: cs) = some x) : firstMatch sp sp.order (c :: cs) = some x := by
  have hc' : inRn sp.intDigits c.toNat = true := hc
  have h1 : inR sp.annotHead c = false := disjR_sound ok.int_annot hc'
  have h2 : inR sp.primHead c = false := disjR_sound ok.int_prim hc'
  have h3 : c ≠ '"' := by
    intro h; subst h; have := ok.int_misc.1; rw [show inRn sp.intDigits 34 = inRn sp.intDigits ('"').toNat from rfl, hc'] at this
    cases this
  have h4 : c ≠ '/' := by
    intro h; subst h; have := ok.int_misc.2.1; rw [show inRn sp.intDigits 47 = inRn sp.intDigits ('/').toNat from rfl, hc'] at this
    cases this
  simp only [ok.order, stdOrder, firstMatch, scanRule, scanAnnot_none sp c cs h1, scanPrim_none sp c cs h2,
    scanStr_none c cs h3, scanByte_none2 sp c cs hx, scanMComment_none c cs h4, hs]

/-- an integer literal -/
theorem lex_int {sp : LexSpec} (ok : SpecOK sp) (v : Int) (rest : List Char) (hd : Delim rest) :
    lexWith sp (intRepr v ++ rest) = (lexWith sp rest).map (Tok.int (intRepr v) :: ·) := by
  have hdig : ∀ n, ∀ x ∈ natRepr n, inR sp.intDigits x = true := by
    intro n x hx
    obtain ⟨d, hd', rfl⟩ := natRepr_digits n x hx
    exact ok.digits d hd'
  have hstop : ∀ x xs, rest = x :: xs → inR sp.intDigits x = false :=
    fun x xs h => (delim_props ok hd x xs h).2.2.2.2.1
  cases v with
  | ofNat n =>
    obtain ⟨d, t, hd', ht⟩ := natRepr_head n
    have htw := takeWhile_append_stop (p := inR sp.intDigits) (natRepr n) rest (hdig n) hstop
    simp only [intRepr]
    have hc := ok.digits d hd'
    have hx : ∀ e es, t ++ rest = e :: es → e ≠ 'x' := by
      intro e es h
      cases t with
      | nil => exact (delim_props ok hd e es h).2.2.2.2.2.2
      | cons y ys =>
        cases h
        obtain ⟨d2, hd2, rfl⟩ := natRepr_digits n e (by rw [ht]; simp)
        exact (digitChar_misc d2 hd2).2.2.2
    have hni := not_ignored_of ok (digitChar d) (Or.inr (Or.inr (Or.inl hc)))
    have hfm : firstMatch sp sp.order (natRepr n ++ rest) = some (some (Tok.int (natRepr n)), rest) := by
      have hsi : scanInt sp (natRepr n ++ rest) = some (some (Tok.int (natRepr n)), rest) := by
        unfold scanInt
        split
        · rename_i cs heq
          rw [ht] at heq
          simp only [List.cons_append, List.cons.injEq] at heq
          exact absurd heq.1 (digitChar_misc d hd').2.2.1
        · simp only [htw.1, htw.2]
          rw [ht]; rfl
      rw [ht, List.cons_append] at hsi ⊢
      exact firstMatch_int ok _ _ hc hx hsi
    rw [ht, List.cons_append] at hfm ⊢
    exact lexWith_tok sp _ _ _ _ hni hfm
  | negSucc n =>
    have htw := takeWhile_append_stop (p := inR sp.intDigits) (natRepr (n + 1)) rest (hdig (n + 1)) hstop
    obtain ⟨d, t, hd', ht⟩ := natRepr_head (n + 1)
    simp only [intRepr, List.cons_append]
    have hni := not_ignored_of ok '-' (Or.inr (Or.inr (Or.inr (by decide))))
    apply lexWith_tok sp _ _ _ _ hni
    have h1 : inR sp.annotHead '-' = false := ok.minus.1
    have h2 : inR sp.primHead '-' = false := ok.minus.2
    simp only [ok.order, stdOrder, firstMatch, scanRule, scanAnnot_none sp _ _ h1, scanPrim_none sp _ _ h2,
      scanStr_none '-' _ (by decide), scanByte_none sp '-' _ (by decide), scanMComment_none '-' _ (by decide)]
    simp only [scanInt, htw.1, htw.2]
    rw [ht]; rfl

theorem hexOf_digits (b : List Nat) (h : b.all (· < 256) = true) : ∀ c ∈ hexOf b, ∃ d, d < 16 ∧ c = hexChar d := by
  induction b with
  | nil => simp [hexOf]
  | cons x xs ih =>
    simp only [List.all_cons, Bool.and_eq_true, decide_eq_true_eq] at h
    intro c hc
    simp only [hexOf, List.mem_cons] at hc
    rcases hc with rfl | rfl | hc
    · exact ⟨x / 16, by omega, rfl⟩
    · exact ⟨x % 16, by omega, rfl⟩
    · exact ih h.2 c hc

/-- a byte literal -/
theorem lex_bytes {sp : LexSpec} (ok : SpecOK sp) (b : List Nat) (hb : b.all (· < 256) = true) (rest : List Char)
    (hd : Delim rest) :
    lexWith sp ('0' :: 'x' :: hexOf b ++ rest) = (lexWith sp rest).map (Tok.byte ('0' :: 'x' :: hexOf b) :: ·) := by
  have hall : ∀ x ∈ hexOf b, inR sp.byteDigits x = true := by
    intro x hx
    obtain ⟨d, hd', rfl⟩ := hexOf_digits b hb x hx
    exact ok.hexdigits d hd'
  have htw := takeWhile_append_stop (p := inR sp.byteDigits) (hexOf b) rest hall
    (fun x xs h => (delim_props ok hd x xs h).2.2.2.2.2.1)
  have hni := not_ignored_of ok '0' (Or.inr (Or.inr (Or.inr (by decide))))
  simp only [List.cons_append]
  apply lexWith_tok sp _ _ _ _ hni
  have h1 : inR sp.annotHead '0' = false := ok.zero.1
  have h2 : inR sp.primHead '0' = false := ok.zero.2
  simp only [ok.order, stdOrder, firstMatch, scanRule, scanAnnot_none sp _ _ h1, scanPrim_none sp _ _ h2,
    scanStr_none '0' _ (by decide)]
  simp only [scanByte, htw.1, htw.2]

theorem hexChar_plain : ∀ d, d < 16 → hexChar d ≠ '"' ∧ hexChar d ≠ '\\' := by decide

theorem strBody_plain (c : Char) (tail : List Char) (h1 : c ≠ '"') (h2 : c ≠ '\\') :
    strBody (c :: tail) = (strBody tail).map fun (b, r) => (c :: b, r) := by
  rw [strBody.eq_def]; simp [h1, h2]

theorem strBody_esc (d : Char) (tail : List Char) :
    strBody ('\\' :: d :: tail) = (strBody tail).map fun (b, r) => ('\\' :: d :: b, r) := by
  rw [strBody.eq_def]; simp

theorem strBody_u4 (n : Nat) (tail : List Char) :
    strBody (u4 n ++ tail) = (strBody tail).map fun (b, r) => (u4 n ++ b, r) := by
  have h3 := hexChar_plain (n / 4096 % 16) (by omega)
  have h2 := hexChar_plain (n / 256 % 16) (by omega)
  have h1 := hexChar_plain (n / 16 % 16) (by omega)
  have h0 := hexChar_plain (n % 16) (by omega)
  simp only [u4, List.cons_append, List.nil_append]
  rw [strBody_esc, strBody_plain _ _ h3.1 h3.2, strBody_plain _ _ h2.1 h2.2, strBody_plain _ _ h1.1 h1.2,
    strBody_plain _ _ h0.1 h0.2]
  cases strBody tail with
  | none => rfl
  | some p => rfl

theorem strBody_escapeChar (c : Char) (tail : List Char) :
    strBody (escapeChar c ++ tail) = (strBody tail).map fun (b, r) => (escapeChar c ++ b, r) := by
  unfold escapeChar
  simp only
  split
  · exact strBody_esc _ _
  split
  · exact strBody_esc _ _
  split
  · exact strBody_esc _ _
  split
  · exact strBody_esc _ _
  split
  · exact strBody_esc _ _
  split
  · exact strBody_esc _ _
  split
  · exact strBody_esc _ _
  split
  · rename_i hq hb _ _ _ _ _ _
    exact strBody_plain c tail hq hb
  split
  · exact strBody_u4 _ _
  · rw [List.append_assoc, strBody_u4, strBody_u4]
    cases strBody tail with
    | none => rfl
    | some p => simp

theorem strBody_dumps (s rest : List Char) :
    strBody (s.flatMap escapeChar ++ '"' :: rest) = some (s.flatMap escapeChar ++ ['"'], rest) := by
  induction s with
  | nil => rw [List.flatMap_nil, List.nil_append, strBody.eq_def]; simp
  | cons c s ih =>
    simp only [List.flatMap_cons, List.append_assoc]
    rw [strBody_escapeChar, ih]
    rfl

/-- a string literal (any text may follow) -/
theorem lex_str {sp : LexSpec} (ok : SpecOK sp) (s : List Char) (rest : List Char) :
    lexWith sp (jsonDumps s ++ rest) = (lexWith sp rest).map (Tok.str (jsonDumps s) :: ·) := by
  have hni := not_ignored_of ok '"' (Or.inr (Or.inr (Or.inr (by decide))))
  simp only [jsonDumps, List.cons_append, List.append_assoc]
  apply lexWith_tok sp _ _ _ _ hni
  have h1 : inR sp.annotHead '"' = false := ok.quote.1
  have h2 : inR sp.primHead '"' = false := ok.quote.2
  simp only [ok.order, stdOrder, firstMatch, scanRule, scanAnnot_none sp _ _ h1, scanPrim_none sp _ _ h2]
  simp only [scanStr, List.nil_append, List.cons_append, strBody_dumps]
  rfl

/-- punctuation (any text may follow) -/
theorem lex_punct {sp : LexSpec} (ok : SpecOK sp) (c : Char) (t : Tok) (rest : List Char)
    (h : (c, t) ∈ [('{', Tok.lcurly), ('(', Tok.lparen), ('}', Tok.rcurly), (')', Tok.rparen), (';', Tok.semi)]) :
    lexWith sp (c :: rest) = (lexWith sp rest).map (t :: ·) := by
  have hc : c ∈ punctChars := by
    simp only [List.mem_cons, Prod.mk.injEq, List.not_mem_nil, or_false] at h
    rcases h with ⟨rfl, _⟩ | ⟨rfl, _⟩ | ⟨rfl, _⟩ | ⟨rfl, _⟩ | ⟨rfl, _⟩ <;> decide
  obtain ⟨h1, h2, h3⟩ := ok.punct c hc
  have hall : ∀ c ∈ punctChars, (c ≠ '"' ∧ c ≠ '0' ∧ c ≠ '/' ∧ c ≠ '-' ∧ c ≠ '#') ∧
      c.toNat ∈ ([34, 48, 45, 123, 125, 40, 41, 59] : List Nat) := by decide
  have hmisc := (hall c hc).1
  have hni : sp.ignore.contains c.toNat = false :=
    not_ignored_of ok c (Or.inr (Or.inr (Or.inr (hall c hc).2)))
  apply lexWith_tok sp _ _ _ _ hni
  simp only [ok.order, stdOrder, firstMatch, scanRule, scanAnnot_none sp _ _ h1, scanPrim_none sp _ _ h2,
    scanStr_none c _ hmisc.1, scanByte_none sp c _ hmisc.2.1, scanMComment_none c _ hmisc.2.2.1,
    scanInt_none sp c _ hmisc.2.2.2.1 h3, scanComment_none c _ hmisc.2.2.2.2]
  simp only [List.mem_cons, Prod.mk.injEq, List.not_mem_nil, or_false] at h
  rcases h with ⟨rfl, rfl⟩ | ⟨rfl, rfl⟩ | ⟨rfl, rfl⟩ | ⟨rfl, rfl⟩ | ⟨rfl, rfl⟩ <;> simp [scanChar]

end Impl.Text
