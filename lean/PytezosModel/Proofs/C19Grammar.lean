import PytezosModel.Proofs.C19Expand
/-! C19 helper lemmas: what a successful match of each regex of the table says about the name (soundness of the
matcher), and what a successful `build_pxr_tree` says about a `P…R` name. -/
set_option linter.unusedSimpArgs false
namespace C19.Grammar
open Impl.Macros Generated.C19 Spec C19.Dispatch C19.Expand

/-- denotation of an atom list: `s` splits into the pieces `ps`, one per atom, up to the final newline `$` tolerates -/
def Lang : List Atom → List Char → List (List Char) → Prop
  | [], s, ps => ps = [] ∧ (s = [] ∨ s = ['\n'])
  | .lit l :: as, s, ps => ∃ t ps', s = l ++ t ∧ ps = l :: ps' ∧ Lang as t ps'
  | .alts ls :: as, s, ps => ∃ l, l ∈ ls ∧ ∃ t ps', s = l ++ t ∧ ps = l :: ps' ∧ Lang as t ps'
  | .many cs mn :: as, s, ps =>
    ∃ p t ps', s = p ++ t ∧ mn ≤ p.length ∧ (∀ c ∈ p, cs.contains c = true) ∧ ps = p :: ps' ∧ Lang as t ps'

theorem prefix_split (l s : List Char) (h : l.isPrefixOf s = true) : s = l ++ s.drop l.length := by
  have := List.isPrefixOf_iff_prefix.mp h
  obtain ⟨t, rfl⟩ := this
  simp

theorem takeWhile_all {α} (f : α → Bool) (l : List α) : ∀ c ∈ l.takeWhile f, f c = true := by
  induction l with
  | nil => intro c hc; simp at hc
  | cons x xs ih =>
    intro c hc
    by_cases hx : f x = true
    · simp only [List.takeWhile_cons, hx, if_true, List.mem_cons] at hc
      rcases hc with rfl | hc
      · exact hx
      · exact ih c hc
    · simp [List.takeWhile_cons, hx] at hc

theorem matchAtoms_sound (as : List Atom) : ∀ (s : List Char) (ps : List (List Char)),
    matchAtoms as s = some ps → Lang as s ps := by
  induction as with
  | nil =>
    intro s ps h
    simp only [matchAtoms] at h
    split at h
    · rename_i he
      simp only [Option.some.injEq] at h
      refine ⟨h.symm, ?_⟩
      simpa [endOk] using he
    · cases h
  | cons a as ih =>
    intro s ps h
    cases a with
    | lit l =>
      simp only [matchAtoms] at h
      split at h
      · rename_i hp
        cases hm : matchAtoms as (s.drop l.length) with
        | none => simp [hm] at h
        | some ps' =>
          simp only [hm, Option.map_some, Option.some.injEq] at h
          exact ⟨_, ps', prefix_split l s hp, h.symm, ih _ _ hm⟩
      · cases h
    | alts ls =>
      simp only [matchAtoms] at h
      obtain ⟨l, hl, hx⟩ := List.exists_of_findSome?_eq_some h
      split at hx
      · rename_i hp
        cases hm : matchAtoms as (s.drop l.length) with
        | none => simp [hm] at hx
        | some ps' =>
          simp only [hm, Option.map_some, Option.some.injEq] at hx
          exact ⟨l, hl, _, ps', prefix_split l s hp, hx.symm, ih _ _ hm⟩
      · cases hx
    | many cs mn =>
      simp only [matchAtoms] at h
      split at h
      · rename_i hlen
        cases hm : matchAtoms as (s.dropWhile (cs.contains ·)) with
        | none => rw [hm] at h; simp only [Option.map_none] at h; cases h
        | some ps' =>
          simp only [hm, Option.map_some, Option.some.injEq] at h
          exact ⟨_, _, ps', (List.takeWhile_append_dropWhile).symm, hlen, takeWhile_all _ _, h.symm, ih _ _ hm⟩
      · cases h


theorem findall_sound (p : Pat) (s g : List Char) (h : findall p s = some g) :
    ∃ ps, Lang p.atoms s ps ∧ g = (match p.group with
      | some (a, n) => ((ps.drop a).take n).flatten
      | none => ps.flatten) := by
  unfold findall at h
  cases hm : matchAtoms p.atoms s with
  | none => rw [hm] at h; cases h
  | some ps =>
    rw [hm] at h
    simp only [Option.map_some, Option.some.injEq] at h
    exact ⟨ps, matchAtoms_sound _ _ _ hm, h.symm⟩

theorem tail_nil (t : List Char) (s : List Char) (hs : '\n' ∉ s) (hsub : ∀ c ∈ t, c ∈ s) (ht : t = [] ∨ t = ['\n']) :
    t = [] := by
  rcases ht with rfl | rfl
  · rfl
  · exact absurd (hsub '\n' (by simp)) hs

/-- `^l$` -/
theorem shape_lit (l s g : List Char) (hs : '\n' ∉ s) (h : findall ⟨[.lit l], none⟩ s = some g) : s = l ∧ g = l := by
  obtain ⟨ps, hl, hg⟩ := findall_sound _ _ _ h
  simp only [Lang] at hl
  obtain ⟨t, ps', rfl, rfl, rfl, ht⟩ := hl
  have := tail_nil t _ hs (by intro c hc; simp [hc]) ht
  subst this
  simp at hg ⊢
  exact hg

/-- `^pre(a|b|…)$` -/
theorem shape_alts (pre : List Char) (ls : List (List Char)) (s g : List Char) (hs : '\n' ∉ s)
    (h : findall ⟨[.lit pre, .alts ls], some (1, 1)⟩ s = some g) : s = pre ++ g ∧ g ∈ ls := by
  obtain ⟨ps, hl, hg⟩ := findall_sound _ _ _ h
  simp only [Lang] at hl
  obtain ⟨t, ps', rfl, rfl, l, hmem, t2, ps2, rfl, rfl, rfl, ht⟩ := hl
  have := tail_nil t2 _ hs (by intro c hc; simp [hc]) ht
  subst this
  simp at hg
  subst hg
  exact ⟨by simp, hmem⟩

/-- `^pre[cs]{mn,}post$` with the repetition as the group -/
theorem shape_many (pre cs : List Char) (mn : Nat) (post s g : List Char) (hs : '\n' ∉ s)
    (h : findall ⟨[.lit pre, .many cs mn, .lit post], some (1, 1)⟩ s = some g) :
    s = pre ++ (g ++ post) ∧ mn ≤ g.length ∧ ∀ c ∈ g, cs.contains c = true := by
  obtain ⟨ps, hl, hg⟩ := findall_sound _ _ _ h
  simp only [Lang] at hl
  obtain ⟨t, ps', rfl, rfl, p, t2, ps2, rfl, hlen, hall, rfl, t3, ps3, rfl, rfl, rfl, ht⟩ := hl
  have := tail_nil t3 _ hs (by intro c hc; simp [hc]) ht
  subst this
  simp at hg
  subst hg
  exact ⟨by simp, hlen, hall⟩

/-- `^pre[cs]{mn,}post$` without group: the value is the whole name -/
theorem shape_many_whole (pre cs : List Char) (mn : Nat) (post s g : List Char) (hs : '\n' ∉ s)
    (h : findall ⟨[.lit pre, .many cs mn, .lit post], none⟩ s = some g) :
    g = s ∧ ∃ p, s = pre ++ (p ++ post) ∧ mn ≤ p.length ∧ ∀ c ∈ p, cs.contains c = true := by
  obtain ⟨ps, hl, hg⟩ := findall_sound _ _ _ h
  simp only [Lang] at hl
  obtain ⟨t, ps', rfl, rfl, p, t2, ps2, rfl, hlen, hall, rfl, t3, ps3, rfl, rfl, rfl, ht⟩ := hl
  have := tail_nil t3 _ hs (by intro c hc; simp [hc]) ht
  subst this
  simp at hg
  subst hg
  exact ⟨by simp, p, by simp, hlen, hall⟩

/-- `^a(b[cs]{mn,})post$` -/
theorem shape_two (a b cs : List Char) (mn : Nat) (post s g : List Char) (hs : '\n' ∉ s)
    (h : findall ⟨[.lit a, .lit b, .many cs mn, .lit post], some (1, 2)⟩ s = some g) :
    ∃ p, g = b ++ p ∧ s = a ++ (b ++ (p ++ post)) ∧ mn ≤ p.length ∧ ∀ c ∈ p, cs.contains c = true := by
  obtain ⟨ps, hl, hg⟩ := findall_sound _ _ _ h
  simp only [Lang] at hl
  obtain ⟨t, ps', rfl, rfl, t1, ps1, rfl, rfl, p, t2, ps2, rfl, hlen, hall, rfl, t3, ps3, rfl, rfl, rfl, ht⟩ := hl
  have := tail_nil t3 _ hs (by intro c hc; simp [hc]) ht
  subst this
  simp at hg
  subst hg
  exact ⟨p, rfl, by simp, hlen, hall⟩

/-- `^a(b[cs]{mn,}post)$` -/
theorem shape_three (a b cs : List Char) (mn : Nat) (post s g : List Char) (hs : '\n' ∉ s)
    (h : findall ⟨[.lit a, .lit b, .many cs mn, .lit post], some (1, 3)⟩ s = some g) :
    ∃ p, g = b ++ (p ++ post) ∧ s = a ++ g ∧ mn ≤ p.length ∧ ∀ c ∈ p, cs.contains c = true := by
  obtain ⟨ps, hl, hg⟩ := findall_sound _ _ _ h
  simp only [Lang] at hl
  obtain ⟨t, ps', rfl, rfl, t1, ps1, rfl, rfl, p, t2, ps2, rfl, hlen, hall, rfl, t3, ps3, rfl, rfl, rfl, ht⟩ := hl
  have := tail_nil t3 _ hs (by intro c hc; simp [hc]) ht
  subst this
  simp at hg
  subst hg
  exact ⟨p, by simp, by simp, hlen, hall⟩

/-- `dispatch` only answers with an entry of the table whose regex matched -/
theorem dispatch_inv (hs : List Handler) (s : List Char) (h : Handler) (g : List Char)
    (hd : dispatch hs s = .ok (some (h, g))) : ∃ p, h ∈ hs ∧ h.pat = some p ∧ findall p s = some g := by
  induction hs with
  | nil => simp [dispatch, pure, Except.pure] at hd
  | cons x xs ih =>
    unfold dispatch at hd
    cases hp : x.pat with
    | none => rw [hp] at hd; cases hd
    | some p =>
      rw [hp] at hd
      simp only at hd
      split at hd
      · cases hd
      · cases hf : findall p s with
        | some g' =>
          rw [hf] at hd
          simp only [pure, Except.pure, Except.ok.injEq, Option.some.injEq, Prod.mk.injEq] at hd
          obtain ⟨rfl, rfl⟩ := hd
          exact ⟨p, by simp, hp, hf⟩
        | none =>
          rw [hf] at hd
          obtain ⟨p', hm, hp', hf'⟩ := ih hd
          exact ⟨p', by simp [hm], hp', hf'⟩


/-! ### `build_pxr_tree` (repaired shape) only succeeds on names of the reference grammar -/

/-- what a successful `parse` consumed: a leaf (then the letter was the expected one) or the letters of a subtree -/
def Consumed (t : PairTree) (lf : Option Char) (s rest : List Char) : Prop :=
  match t with
  | .leaf => ∃ c, lf = some c ∧ s = c :: rest
  | .node l r => s = (PairTree.node l r).body 'A' ++ rest

theorem Consumed.body {t : PairTree} {x : Char} {s rest : List Char} (h : Consumed t (some x) s rest) :
    s = t.body x ++ rest := by
  cases t with
  | leaf =>
    obtain ⟨c, hc, hs⟩ := h
    cases hc
    exact hs
  | node l r => exact h

theorem pxrParse_sound (fuel : Nat) : ∀ (s : List Char) (an : List String) (d : Nat) (root : Bool) (lf : Option Char)
    (res : Pxr × Option String × List Char × List String × Nat),
    pxrParse true fuel s an d root lf = .ok res → ∃ t : PairTree, Consumed t lf s res.2.2.1 := by
  induction fuel with
  | zero => intro s an d root lf res h; simp [pxrParse] at h
  | succ fuel ih =>
    intro s an d root lf res h
    cases s with
    | nil => simp [pxrParse] at h
    | cons letter prim =>
      simp only [pxrParse] at h
      split at h
      · -- letter = 'P'
        rename_i hP
        cases h1 : pxrParse true fuel prim an d false (some 'A') with
        | error e => simp [h1, bind, Except.bind] at h
        | ok r1 =>
          obtain ⟨l, la, prim1, an1, d1⟩ := r1
          simp only [h1, bind, Except.bind] at h
          cases h2 : pxrParse true fuel prim1 an1 d1 false (some 'I') with
          | error e => simp [h2] at h
          | ok r2 =>
            obtain ⟨r, ra, prim2, an2, d2⟩ := r2
            simp only [h2, pure, Except.pure, Except.ok.injEq] at h
            subst h
            obtain ⟨tl, hl⟩ := ih _ _ _ _ _ _ h1
            obtain ⟨tr, hr⟩ := ih _ _ _ _ _ _ h2
            refine ⟨.node tl tr, ?_⟩
            have e1 := hl.body
            have e2 := hr.body
            simp only at e1 e2
            show letter :: prim = (PairTree.node tl tr).body 'A' ++ prim2
            rw [hP, e1, e2]
            simp [PairTree.body]
      · -- a leaf letter: `assert letter == leaf`
        simp only [if_true, bind, Except.bind] at h
        cases ha : assertThat (some letter == lf) with
        | error e => simp [ha] at h
        | ok u =>
          have hlf : lf = some letter := by
            unfold assertThat at ha
            split at ha
            · rename_i hb; exact (beq_iff_eq.mp hb).symm
            · cases ha
          simp only [ha] at h
          refine ⟨.leaf, letter, hlf, ?_⟩
          cases an with
          | nil => simp only [pure, Except.pure, Except.ok.injEq] at h; subst h; rfl
          | cons a rest => simp only [pure, Except.pure, Except.ok.injEq] at h; subst h; rfl

theorem buildPxrTree_sound (name : List Char) (an : List String) (px : Pxr) (h : buildPxrTree name an = .ok px) :
    ∃ l r : PairTree, name = pairName (.node l r) := by
  have hv : pxrValidated = some true := rfl
  unfold buildPxrTree at h
  rw [hv] at h
  simp only [bind, Except.bind] at h
  cases hp : pxrParse true (name.length + 1) name an 0 true none with
  | error e => simp [hp] at h
  | ok res =>
    obtain ⟨root, a, rest, an', d'⟩ := res
    simp only [hp, if_true] at h
    have hrest : rest = ['R'] := by
      cases ha : assertThat (rest == ['R']) with
      | error e => simp [ha] at h
      | ok u =>
        unfold assertThat at ha
        split at ha
        · rename_i hb; exact beq_iff_eq.mp hb
        · cases ha
    obtain ⟨t, ht⟩ := pxrParse_sound _ _ _ _ _ _ _ hp
    cases t with
    | leaf => obtain ⟨c, hc, _⟩ := ht; cases hc
    | node l r =>
      refine ⟨l, r, ?_⟩
      have : name = (PairTree.node l r).body 'A' ++ rest := ht
      rw [this, hrest]
      rfl

/-- letters of `[AD]*` are the letters of a path -/
theorem chars_path (g : List Char) (h : ∀ c ∈ g, ['A', 'D'].contains c = true) :
    ∃ q : Path, g = pathChars q ∧ q.length = g.length := by
  induction g with
  | nil => exact ⟨[], rfl, rfl⟩
  | cons c g ih =>
    obtain ⟨q, hq, hl⟩ := ih (fun x hx => h x (by simp [hx]))
    have hc := h c (by simp)
    have : c = 'A' ∨ c = 'D' := by simpa using hc
    rcases this with rfl | rfl
    · exact ⟨.A :: q, by simp [pathChars, Dir.char, hq], by simp [hl]⟩
    · exact ⟨.D :: q, by simp [pathChars, Dir.char, hq], by simp [hl]⟩

/-- a run of one letter is a `replicate` -/
theorem chars_rep (x : Char) (g : List Char) (h : ∀ c ∈ g, [x].contains c = true) : g = List.replicate g.length x := by
  induction g with
  | nil => rfl
  | cons c g ih =>
    have hc : c = x := by simpa using h c (by simp)
    rw [List.length_cons, List.replicate_succ, ← ih (fun y hy => h y (by simp [hy])), hc]

end C19.Grammar
