import PytezosModel.Michelson.TicketsTyping
import PytezosModel.Proofs.C20Main
/-! C20 — type preservation for the static checker of `TicketsTyping`: basics (stack typing, the stack primitives on a
state whose protected prefix is `pre` and whose active part is `act`) -/
namespace Impl.Tickets

/-- split and join keep the ticket's class (read from the source by the translator) -/
structure CfgOk2 (c : Cfg) : Prop where
  splitKeeps : c.splitKeeps = true
  joinKeeps : c.joinKeeps = true

/-- stack typing: every value is deeply well typed and the classes are the static types -/
def STy (act : List Val) (Γ : List Ty) : Prop := (∀ v ∈ act, v.wt = true) ∧ act.map Val.typeOf = Γ

/-- the state has the protected prefix `pre`, the active part `act`, and no ill-typed store happened so far -/
def Shape (pre act : List Val) (s : State) : Prop := s.typedStores = true ∧ s.items = pre ++ act ∧ s.prot = pre.length

theorem STy.nil : STy [] [] := ⟨fun v hv => (by cases hv), rfl⟩

theorem STy.cons {a : Val} {rest : List Val} {t : Ty} {Γ : List Ty} (h1 : a.wt = true) (h2 : a.typeOf = t) (h : STy rest Γ) :
    STy (a :: rest) (t :: Γ) := by
  refine ⟨fun v hv => ?_, by simp [h2, h.2]⟩
  rcases List.mem_cons.mp hv with rfl | hv
  · exact h1
  · exact h.1 v hv

theorem STy.cons_inv {act : List Val} {t : Ty} {Γ : List Ty} (h : STy act (t :: Γ)) :
    ∃ a rest, act = a :: rest ∧ a.wt = true ∧ a.typeOf = t ∧ STy rest Γ := by
  cases act with
  | nil => simp [STy] at h
  | cons a rest =>
    obtain ⟨h1, h2⟩ := h
    simp only [List.map_cons, List.cons.injEq] at h2
    exact ⟨a, rest, rfl, h1 a List.mem_cons_self, h2.1, fun v hv => h1 v (List.mem_cons_of_mem _ hv), h2.2⟩

theorem STy.length {act : List Val} {Γ : List Ty} (h : STy act Γ) : act.length = Γ.length := by
  rw [← h.2]; simp

theorem STy.append {a b : List Val} {Γ Δ : List Ty} (h1 : STy a Γ) (h2 : STy b Δ) : STy (a ++ b) (Γ ++ Δ) := by
  refine ⟨fun v hv => ?_, by simp [h1.2, h2.2]⟩
  rcases List.mem_append.mp hv with h | h
  · exact h1.1 v h
  · exact h2.1 v h

theorem STy.take {act : List Val} {Γ : List Ty} (n : Nat) (h : STy act Γ) : STy (act.take n) (Γ.take n) :=
  ⟨fun v hv => h.1 v (List.mem_of_mem_take hv), by rw [← h.2, List.map_take]⟩

theorem STy.drop {act : List Val} {Γ : List Ty} (n : Nat) (h : STy act Γ) : STy (act.drop n) (Γ.drop n) :=
  ⟨fun v hv => h.1 v (List.mem_of_mem_drop hv), by rw [← h.2, List.map_drop]⟩

theorem wtList_iff (t : Ty) (xs : List Val) : Val.wtList t xs = true ↔ ∀ v ∈ xs, v.typeOf = t ∧ v.wt = true := by
  induction xs with
  | nil => simp [Val.wtList]
  | cons x xs ih => simp [Val.wtList, ih, and_assoc]

mutual
  theorem wt_consistent : ∀ v : Val, v.wt = true → v.consistent = true
    | .atom _, _ => rfl
    | .ticket cls _ ct _, h => by simp only [Val.wt] at h; simp [Val.consistent, h]
    | .pair l r, h => by
      simp only [Val.wt, Bool.and_eq_true] at h
      simp [Val.consistent, wt_consistent l h.1, wt_consistent r h.2]
    | .none _, _ => rfl
    | .some v, h => by simp only [Val.wt] at h; simp [Val.consistent, wt_consistent v h]
    | .list t xs, h => by simp only [Val.wt] at h; simp [Val.consistent, wtList_consistent t xs h]
    | .map _ k v keys vals _, h => by
      simp only [Val.wt, Bool.and_eq_true] at h
      simp [Val.consistent, h.1.1.1, h.1.1.2, wtList_consistent v vals h.2]
    | .left v _, h => by simp only [Val.wt] at h; simp [Val.consistent, wt_consistent v h]
    | .right _ v, h => by simp only [Val.wt] at h; simp [Val.consistent, wt_consistent v h]
    | .set _ xs, h => by simp only [Val.wt, Bool.and_eq_true] at h; simp [Val.consistent, h.1]
    | .lam _ _ _, _ => rfl
  theorem wtList_consistent : ∀ (t : Ty) (xs : List Val), Val.wtList t xs = true → Val.consistentList t xs = true
    | _, [], _ => rfl
    | t, x :: xs, h => by
      simp only [Val.wtList, Bool.and_eq_true] at h
      simp [Val.consistentList, h.1.1, wt_consistent x h.1.2, wtList_consistent t xs h.2]
end

theorem STy.lc {act : List Val} {Γ : List Ty} (h : STy act Γ) : LC act := fun v hv => wt_consistent v (h.1 v hv)

/-! ### the stack primitives -/

theorem Shape.push {pre rest : List Val} {s : State} (h : Shape pre rest s) (v : Val) : Shape pre (v :: rest) (s.push v) := by
  obtain ⟨h1, h2, h3⟩ := h
  refine ⟨h1, ?_, h3⟩
  simp only [State.push, h2, h3, List.take_left, List.drop_left]

theorem Shape.pop {pre act : List Val} {s : State} (h : Shape pre act s) (n : Nat) (hn : n ≤ act.length) :
    s.pop n = .ok (act.take n, { s with items := pre ++ act.drop n }) ∧ Shape pre (act.drop n) { s with items := pre ++ act.drop n } := by
  obtain ⟨h1, h2, h3⟩ := h
  refine ⟨?_, h1, rfl, h3⟩
  unfold State.pop
  have : List.drop (pre.length + n) (pre ++ act) = act.drop n := by
    rw [← List.drop_drop, List.drop_left]
  simp only [h2, h3, List.take_left, List.drop_left, this]
  rw [if_neg (by rw [List.length_append]; omega)]

theorem Shape.pop1 {pre rest : List Val} {a : Val} {s : State} (h : Shape pre (a :: rest) s) :
    s.pop1 = .ok (a, { s with items := pre ++ rest }) ∧ Shape pre rest { s with items := pre ++ rest } := by
  obtain ⟨e, sh⟩ := h.pop 1 (by simp)
  refine ⟨?_, sh⟩
  simp [State.pop1, e, bind, Except.bind, pure, Except.pure]

theorem Shape.pop2 {pre rest : List Val} {a b : Val} {s : State} (h : Shape pre (a :: b :: rest) s) :
    s.pop2 = .ok (a, b, { s with items := pre ++ rest }) ∧ Shape pre rest { s with items := pre ++ rest } := by
  obtain ⟨e, sh⟩ := h.pop 2 (by simp)
  refine ⟨?_, sh⟩
  simp [State.pop2, e, bind, Except.bind, pure, Except.pure]

theorem Shape.pop3 {pre rest : List Val} {a b d : Val} {s : State} (h : Shape pre (a :: b :: d :: rest) s) :
    s.pop3 = .ok (a, b, d, { s with items := pre ++ rest }) ∧ Shape pre rest { s with items := pre ++ rest } := by
  obtain ⟨e, sh⟩ := h.pop 3 (by simp)
  refine ⟨?_, sh⟩
  simp [State.pop3, e, bind, Except.bind, pure, Except.pure]

theorem Shape.peek {pre rest : List Val} {a : Val} {s : State} (h : Shape pre (a :: rest) s) : s.peek = .ok a := by
  obtain ⟨_, h2, h3⟩ := h
  unfold State.peek
  have : s.items.isEmpty = false := by rw [h2]; cases pre <;> simp
  simp [h2, h3]

/-- `protect n` moves the first `n` active items into the protected prefix -/
theorem Shape.protect {pre act : List Val} {s : State} (h : Shape pre act s) (n : Nat) (hn : n ≤ act.length) :
    ∃ s1, s.protect n = .ok s1 ∧ Shape (pre ++ act.take n) (act.drop n) s1 ∧ s1.self = s.self ∧ s1.minted = s.minted := by
  obtain ⟨h1, h2, h3⟩ := h
  refine ⟨{ s with prot := s.prot + n }, ?_, ⟨h1, ?_, ?_⟩, rfl, rfl⟩
  · unfold State.protect
    have : ¬ (s.items.length < n) := by rw [h2, List.length_append]; omega
    simp [this]
  · show s.items = pre ++ List.take n act ++ List.drop n act
    rw [List.append_assoc, List.take_append_drop, h2]
  · show s.prot + n = (pre ++ List.take n act).length
    rw [List.length_append, List.length_take, h3]; omega

/-- `restore n` gives the last `n` protected items back -/
theorem Shape.restore {pre mid act : List Val} {s : State} (h : Shape (pre ++ mid) act s) :
    ∃ s1, s.restore mid.length = .ok s1 ∧ Shape pre (mid ++ act) s1 ∧ s1.self = s.self ∧ s1.minted = s.minted := by
  obtain ⟨h1, h2, h3⟩ := h
  refine ⟨{ s with prot := s.prot - mid.length }, ?_, ⟨h1, ?_, ?_⟩, rfl, rfl⟩
  · unfold State.restore
    have : ¬ (s.prot < mid.length) := by rw [h3, List.length_append]; omega
    simp [this]
  · show s.items = pre ++ (mid ++ act)
    rw [h2, List.append_assoc]
  · show s.prot - mid.length = pre.length
    rw [h3, List.length_append]; omega

end Impl.Tickets
