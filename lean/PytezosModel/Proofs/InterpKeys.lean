import PytezosModel.Michelson.Interp.Impl
import PytezosModel.Michelson.Interp.Spec
import PytezosModel.Proofs.C14Coll
/-! Sets and maps of the interpreter model: pytezos' list operations (`Impl.Coll`, with the runtime `__eq__` / `__lt__`
of the key classes) against the reference dictionary (`Spec.Coll`, with the order `Typing.keyLt`).

C14's lemmas need `eq` / `lt` to be a decidable equality and a strict total order on the *whole* carrier.  The values of
one simple comparable type `k` form such a carrier (`KeyOf k`); a well-formed collection is the image of a list over it,
every operation commutes with the embedding (naturality lemmas), and the results are transported back. -/
namespace Interp
open Typing List

@[simp] theorem rbind_ok' {α β : Type} (a : α) (f : α → Res β) : (Res.ok a).bind f = f a := rfl

-- order on strings / bytes ---------------------------------------------------------------------------
theorem lexLt_irrefl' : ∀ a, Typing.lexLt a a = false
  | [] => rfl
  | x :: xs => by simp [Typing.lexLt, lexLt_irrefl' xs]

theorem lexLt_trans' : ∀ a b c, Typing.lexLt a b = true → Typing.lexLt b c = true → Typing.lexLt a c = true
  | [], [], _, h, _ => by simp [Typing.lexLt] at h
  | [], _ :: _, [], _, h => by simp [Typing.lexLt] at h
  | [], _ :: _, _ :: _, _, _ => rfl
  | _ :: _, [], _, h, _ => by simp [Typing.lexLt] at h
  | _ :: _, _ :: _, [], _, h => by simp [Typing.lexLt] at h
  | x :: xs, y :: ys, z :: zs, h1, h2 => by
    simp only [Typing.lexLt, Bool.or_eq_true, decide_eq_true_eq, Bool.and_eq_true, beq_iff_eq] at h1 h2 ⊢
    rcases h1 with h1 | ⟨e1, h1⟩ <;> rcases h2 with h2 | ⟨e2, h2⟩
    · left; omega
    · left; omega
    · left; omega
    · right; exact ⟨by omega, lexLt_trans' xs ys zs h1 h2⟩

theorem lexLt_total' : ∀ a b, a = b ∨ Typing.lexLt a b = true ∨ Typing.lexLt b a = true
  | [], [] => Or.inl rfl
  | [], _ :: _ => Or.inr (Or.inl rfl)
  | _ :: _, [] => Or.inr (Or.inr rfl)
  | x :: xs, y :: ys => by
    simp only [Typing.lexLt, Bool.or_eq_true, decide_eq_true_eq, Bool.and_eq_true, beq_iff_eq, List.cons.injEq]
    rcases Nat.lt_trichotomy x y with h | h | h
    · exact Or.inr (Or.inl (Or.inl h))
    · rcases lexLt_total' xs ys with e | l | l
      · exact Or.inl ⟨h, e⟩
      · exact Or.inr (Or.inl (Or.inr ⟨h, l⟩))
      · exact Or.inr (Or.inr (Or.inr ⟨h.symm, l⟩))
    · exact Or.inr (Or.inr (Or.inl h))

theorem listLt_eq' : ∀ a b, Impl.listLt a b = Typing.lexLt a b
  | [], [] => rfl
  | [], _ :: _ => rfl
  | _ :: _, [] => rfl
  | x :: xs, y :: ys => by
    simp only [Impl.listLt, Typing.lexLt, listLt_eq' xs ys]
    by_cases h1 : x < y
    · simp [h1]
    · by_cases h2 : y < x
      · have : ¬ x = y := by omega
        simp [h1, h2, this]
      · have : x = y := by omega
        simp [h1, h2, this]

-- keys of one simple comparable type ----------------------------------------------------------------
/-- the shapes of the values of a simple comparable type -/
theorem isKey_shape {k : Ty} {v : Val} (h : isKey k v = true) :
    (k = .int ∧ ∃ n, v = .num .int n) ∨ (k = .nat ∧ ∃ n, v = .num .nat n) ∨ (k = .mutez ∧ ∃ n, v = .num .mutez n) ∨
    (k = .timestamp ∧ ∃ n, v = .num .timestamp n) ∨ (k = .string ∧ ∃ s, v = .str s) ∨ (k = .bytes ∧ ∃ s, v = .bytes s) ∨
    (k = .bool ∧ ∃ b, v = .bool b) ∨ (k = .unit ∧ v = .unit) := by
  cases k <;> cases v <;> first
    | (simp [isKey] at h; done)
    | (rename_i t n; cases t <;> first | (simp [isKey] at h; done) | simp)
    | simp

theorem isKey_typeOf {k : Ty} {v : Val} (h : isKey k v = true) : typeOf v = k := by
  rcases isKey_shape h with ⟨rfl, n, rfl⟩ | ⟨rfl, n, rfl⟩ | ⟨rfl, n, rfl⟩ | ⟨rfl, n, rfl⟩ | ⟨rfl, s, rfl⟩ | ⟨rfl, s, rfl⟩ |
    ⟨rfl, b, rfl⟩ | ⟨rfl, rfl⟩ <;> rfl

theorem isKey_simple {k : Ty} {v : Val} (h : isKey k v = true) : simpleComparable k = true := by
  rcases isKey_shape h with ⟨rfl, _⟩ | ⟨rfl, _⟩ | ⟨rfl, _⟩ | ⟨rfl, _⟩ | ⟨rfl, _⟩ | ⟨rfl, _⟩ | ⟨rfl, _⟩ | ⟨rfl, _⟩ <;> rfl

theorem isKey_modelled {k : Ty} {v : Val} (h : isKey k v = true) : Impl.keyModelled k = true := by
  rcases isKey_shape h with ⟨rfl, _⟩ | ⟨rfl, _⟩ | ⟨rfl, _⟩ | ⟨rfl, _⟩ | ⟨rfl, _⟩ | ⟨rfl, _⟩ | ⟨rfl, _⟩ | ⟨rfl, _⟩ <;> rfl

/-- two values of one simple comparable type have the same shape -/
theorem isKey_pair {k : Ty} {a b : Val} (ha : isKey k a = true) (hb : isKey k b = true) :
    (∃ t n m, a = .num t n ∧ b = .num t m) ∨ (∃ s s', a = .str s ∧ b = .str s') ∨ (∃ s s', a = .bytes s ∧ b = .bytes s') ∨
    (∃ x y, a = .bool x ∧ b = .bool y) ∨ (a = .unit ∧ b = .unit) := by
  rcases isKey_shape ha with ⟨rfl, n, rfl⟩ | ⟨rfl, n, rfl⟩ | ⟨rfl, n, rfl⟩ | ⟨rfl, n, rfl⟩ | ⟨rfl, s, rfl⟩ | ⟨rfl, s, rfl⟩ |
      ⟨rfl, x, rfl⟩ | ⟨rfl, rfl⟩ <;>
    rcases isKey_shape hb with ⟨h', m, rfl⟩ | ⟨h', m, rfl⟩ | ⟨h', m, rfl⟩ | ⟨h', m, rfl⟩ | ⟨h', s', rfl⟩ | ⟨h', s', rfl⟩ |
      ⟨h', y, rfl⟩ | ⟨h', rfl⟩ <;>
    first
      | (cases h'; done)
      | exact Or.inl ⟨_, _, _, rfl, rfl⟩
      | exact Or.inr (Or.inl ⟨_, _, rfl, rfl⟩)
      | exact Or.inr (Or.inr (Or.inl ⟨_, _, rfl, rfl⟩))
      | exact Or.inr (Or.inr (Or.inr (Or.inl ⟨_, _, rfl, rfl⟩)))
      | exact Or.inr (Or.inr (Or.inr (Or.inr ⟨rfl, rfl⟩)))

/-- on the values of one type the runtime `__lt__` is the reference order -/
theorem valLt_eq_keyLt {k : Ty} {a b : Val} (ha : isKey k a = true) (hb : isKey k b = true) :
    Impl.valLt a b = keyLt a b := by
  rcases isKey_pair ha hb with ⟨t, n, m, rfl, rfl⟩ | ⟨s, s', rfl, rfl⟩ | ⟨s, s', rfl, rfl⟩ | ⟨x, y, rfl, rfl⟩ | ⟨rfl, rfl⟩ <;>
    simp [Impl.valLt, keyLt, listLt_eq']

theorem valEq_iff {k : Ty} {a b : Val} (ha : isKey k a = true) (hb : isKey k b = true) :
    Impl.valEq a b = true ↔ a = b := by
  rcases isKey_pair ha hb with ⟨t, n, m, rfl, rfl⟩ | ⟨s, s', rfl, rfl⟩ | ⟨s, s', rfl, rfl⟩ | ⟨x, y, rfl, rfl⟩ | ⟨rfl, rfl⟩ <;>
    simp [Impl.valEq]

/-- the values of the simple comparable type `k` -/
abbrev KeyOf (k : Ty) := { v : Val // isKey k v = true }

def eqK {k : Ty} (a b : KeyOf k) : Bool := Impl.valEq a.1 b.1
def ltK {k : Ty} (a b : KeyOf k) : Bool := Impl.valLt a.1 b.1

theorem ltK_eq {k : Ty} : (ltK : KeyOf k → KeyOf k → Bool) = fun a b => keyLt a.1 b.1 := by
  funext a b; exact valLt_eq_keyLt a.2 b.2

theorem keyLt_irrefl {k : Ty} {a : Val} (ha : isKey k a = true) : keyLt a a = false := by
  rcases isKey_pair ha ha with ⟨t, n, m, rfl, h⟩ | ⟨s, s', rfl, h⟩ | ⟨s, s', rfl, h⟩ | ⟨x, y, rfl, h⟩ | ⟨rfl, _⟩ <;>
    simp [keyLt, lexLt_irrefl']

theorem keyLt_trans {k : Ty} {a b c : Val} (ha : isKey k a = true) (hb : isKey k b = true) (hc : isKey k c = true)
    (h1 : keyLt a b = true) (h2 : keyLt b c = true) : keyLt a c = true := by
  rcases isKey_pair ha hb with ⟨t, n, m, rfl, rfl⟩ | ⟨s, s', rfl, rfl⟩ | ⟨s, s', rfl, rfl⟩ | ⟨x, y, rfl, rfl⟩ | ⟨rfl, rfl⟩ <;>
    rcases isKey_pair hb hc with ⟨t', n', m', h, rfl⟩ | ⟨r, r', h, rfl⟩ | ⟨r, r', h, rfl⟩ | ⟨x', y', h, rfl⟩ | ⟨h, rfl⟩ <;>
    first | (cases h; done) | skip
  · simp only [keyLt, decide_eq_true_eq] at h1 h2 ⊢; omega
  · exact lexLt_trans' _ _ _ h1 h2
  · exact lexLt_trans' _ _ _ h1 h2
  · cases x <;> cases y <;> cases y' <;> simp [keyLt] at h1 h2 ⊢
  · simp [keyLt] at h1

theorem keyLt_total {k : Ty} {a b : Val} (ha : isKey k a = true) (hb : isKey k b = true) :
    a = b ∨ keyLt a b = true ∨ keyLt b a = true := by
  rcases isKey_pair ha hb with ⟨t, n, m, rfl, rfl⟩ | ⟨s, s', rfl, rfl⟩ | ⟨s, s', rfl, rfl⟩ | ⟨x, y, rfl, rfl⟩ | ⟨rfl, rfl⟩
  · simp only [keyLt, decide_eq_true_eq, Val.num.injEq, true_and]; omega
  · rcases lexLt_total' s s' with e | l | l
    · exact Or.inl (by rw [e])
    · exact Or.inr (Or.inl l)
    · exact Or.inr (Or.inr l)
  · rcases lexLt_total' s s' with e | l | l
    · exact Or.inl (by rw [e])
    · exact Or.inr (Or.inl l)
    · exact Or.inr (Or.inr l)
  · cases x <;> cases y <;> simp [keyLt]
  · exact Or.inl rfl

theorem strictTotalK (k : Ty) : Coll.StrictTotal (eqK : KeyOf k → KeyOf k → Bool) ltK where
  eq_iff a b := by
    unfold eqK
    rw [valEq_iff a.2 b.2]
    exact ⟨Subtype.ext, fun h => by rw [h]⟩
  irrefl a := by rw [ltK_eq]; exact keyLt_irrefl a.2
  trans a b c := by rw [ltK_eq]; exact keyLt_trans a.2 b.2 c.2
  total a b := by
    rw [ltK_eq]
    rcases keyLt_total a.2 b.2 with e | l | l
    · exact Or.inl (Subtype.ext e)
    · exact Or.inr (Or.inl l)
    · exact Or.inr (Or.inr l)

/-- a list of keys is the image of a list over `KeyOf k` -/
theorem lift_keys {k : Ty} : ∀ (xs : List Val), (∀ x ∈ xs, isKey k x = true) → ∃ ys : List (KeyOf k), ys.map Subtype.val = xs
  | [], _ => ⟨[], rfl⟩
  | x :: xs, h => by
    obtain ⟨ys, hy⟩ := lift_keys xs (fun y hy => h y (by simp [hy]))
    exact ⟨⟨x, h x (by simp)⟩ :: ys, by simp [hy]⟩

theorem lift_kvs {k : Ty} : ∀ (m : List (Val × Val)), (∀ e ∈ m, isKey k e.1 = true) →
    ∃ ys : List (KeyOf k × Val), ys.map (Prod.map Subtype.val id) = m
  | [], _ => ⟨[], rfl⟩
  | e :: m, h => by
    obtain ⟨ys, hy⟩ := lift_kvs m (fun y hy => h y (by simp [hy]))
    exact ⟨(⟨e.1, h e (by simp)⟩, e.2) :: ys, by simp [hy]⟩

end Interp

-- naturality of the list operations ------------------------------------------------------------------
namespace Interp
open List

section
variable {α β κα κβ : Type} (g : α → β) (fα : α → κα) (fβ : β → κβ) (ltα : κα → κα → Bool) (ltβ : κβ → κβ → Bool)
  (hlt : ∀ a b, ltβ (fβ (g a)) (fβ (g b)) = ltα (fα a) (fα b))
include hlt

theorem insBy_map (x : α) : ∀ l : List α,
    (_root_.Impl.Coll.insBy ltα fα x l).map g = _root_.Impl.Coll.insBy ltβ fβ (g x) (l.map g)
  | [] => rfl
  | e :: es => by
    simp only [_root_.Impl.Coll.insBy, List.map_cons, hlt]
    split
    · rfl
    · simp [insBy_map x es]

theorem foldl_insBy_map : ∀ (l acc : List α),
    (l.foldl (fun acc x => _root_.Impl.Coll.insBy ltα fα x acc) acc).map g
      = (l.map g).foldl (fun acc x => _root_.Impl.Coll.insBy ltβ fβ x acc) (acc.map g)
  | [], _ => rfl
  | x :: l, acc => by
    simp only [List.foldl_cons, List.map_cons]
    rw [foldl_insBy_map l, insBy_map g fα fβ ltα ltβ hlt]

theorem sortBy_map (l : List α) :
    (_root_.Impl.Coll.sortBy ltα fα l).map g = _root_.Impl.Coll.sortBy ltβ fβ (l.map g) := by
  unfold _root_.Impl.Coll.sortBy
  rw [foldl_insBy_map g fα fβ ltα ltβ hlt]; rfl

end

section
variable {α β : Type} (g : α → β) (ltβ : β → β → Bool)

theorem insertKey_map (x : α) : ∀ l : List α,
    (_root_.Spec.Coll.insertKey (fun a b => ltβ (g a) (g b)) x l).map g = _root_.Spec.Coll.insertKey ltβ (g x) (l.map g)
  | [] => rfl
  | e :: es => by
    simp only [_root_.Spec.Coll.insertKey, List.map_cons]
    split
    · rfl
    · split
      · simp [insertKey_map x es]
      · rfl

theorem eraseKey_map (x : α) : ∀ l : List α,
    (_root_.Spec.Coll.eraseKey (fun a b => ltβ (g a) (g b)) x l).map g = _root_.Spec.Coll.eraseKey ltβ (g x) (l.map g)
  | [] => rfl
  | e :: es => by
    simp only [_root_.Spec.Coll.eraseKey, List.map_cons]
    split
    · simp [eraseKey_map x es]
    · split <;> rfl

theorem memKey_map (x : α) : ∀ l : List α,
    _root_.Spec.Coll.memKey (fun a b => ltβ (g a) (g b)) x l = _root_.Spec.Coll.memKey ltβ (g x) (l.map g)
  | [] => rfl
  | e :: es => by
    simp only [_root_.Spec.Coll.memKey, List.map_cons]
    split
    · exact memKey_map x es
    · rfl

variable {ν : Type}

theorem insertKV_map (x : α) (v : ν) : ∀ m : List (α × ν),
    (_root_.Spec.Coll.insertKV (fun a b => ltβ (g a) (g b)) x v m).map (Prod.map g id)
      = _root_.Spec.Coll.insertKV ltβ (g x) v (m.map (Prod.map g id))
  | [] => rfl
  | e :: es => by
    simp only [_root_.Spec.Coll.insertKV, List.map_cons, Prod.map_fst]
    split
    · rfl
    · split
      · simp [insertKV_map x v es]
      · rfl

theorem eraseKV_map (x : α) : ∀ m : List (α × ν),
    (_root_.Spec.Coll.eraseKV (fun a b => ltβ (g a) (g b)) x m).map (Prod.map g id)
      = _root_.Spec.Coll.eraseKV ltβ (g x) (m.map (Prod.map g id))
  | [] => rfl
  | e :: es => by
    simp only [_root_.Spec.Coll.eraseKV, List.map_cons, Prod.map_fst]
    split
    · simp [eraseKV_map x es]
    · split <;> rfl

theorem findKV_map (x : α) : ∀ m : List (α × ν),
    _root_.Spec.Coll.findKV (fun a b => ltβ (g a) (g b)) x m = _root_.Spec.Coll.findKV ltβ (g x) (m.map (Prod.map g id))
  | [] => rfl
  | e :: es => by
    simp only [_root_.Spec.Coll.findKV, List.map_cons, Prod.map_fst, Prod.map_snd, id]
    split
    · exact findKV_map x es
    · rfl

end
end Interp

-- naturality of pytezos' composite operations -----------------------------------------------------------
namespace Interp
open List

section
variable {α β : Type} (g : α → β) (eqβ ltβ : β → β → Bool)

theorem contains_map (l : List α) (x : α) :
    _root_.Impl.Coll.Set.contains eqβ (l.map g) (g x) = _root_.Impl.Coll.Set.contains (fun a b => eqβ (g a) (g b)) l x := by
  simp [_root_.Impl.Coll.Set.contains, List.any_map, Function.comp_def]

theorem add_map (l : List α) (x : α) :
    (_root_.Impl.Coll.Set.add (fun a b => eqβ (g a) (g b)) (fun a b => ltβ (g a) (g b)) l x).map g
      = _root_.Impl.Coll.Set.add eqβ ltβ (l.map g) (g x) := by
  unfold _root_.Impl.Coll.Set.add
  rw [contains_map]
  split
  · rfl
  · rw [sortBy_map g id id (fun a b => ltβ (g a) (g b)) ltβ (fun _ _ => rfl)]; rfl

theorem remove_map (l : List α) (x : α) :
    (_root_.Impl.Coll.Set.remove (fun a b => eqβ (g a) (g b)) l x).map g = _root_.Impl.Coll.Set.remove eqβ (l.map g) (g x) := by
  unfold _root_.Impl.Coll.Set.remove
  rw [contains_map]
  split
  · rw [List.filter_map]; rfl
  · rfl

variable {ν : Type}

theorem get_map (m : List (α × ν)) (x : α) :
    _root_.Impl.Coll.Map.get eqβ (m.map (Prod.map g id)) (g x) = _root_.Impl.Coll.Map.get (fun a b => eqβ (g a) (g b)) m x := by
  unfold _root_.Impl.Coll.Map.get
  rw [List.find?_map]
  simp [Function.comp_def, Option.map_map]

theorem update_map (m : List (α × ν)) (x : α) (v : Option ν) :
    (_root_.Impl.Coll.Map.update (fun a b => eqβ (g a) (g b)) (fun a b => ltβ (g a) (g b)) m x v).2.map (Prod.map g id)
        = (_root_.Impl.Coll.Map.update eqβ ltβ (m.map (Prod.map g id)) (g x) v).2 ∧
      (_root_.Impl.Coll.Map.update (fun a b => eqβ (g a) (g b)) (fun a b => ltβ (g a) (g b)) m x v).1
        = (_root_.Impl.Coll.Map.update eqβ ltβ (m.map (Prod.map g id)) (g x) v).1 := by
  unfold _root_.Impl.Coll.Map.update
  rw [get_map]
  cases hp : _root_.Impl.Coll.Map.get (fun a b => eqβ (g a) (g b)) m x <;> cases v
  · exact ⟨rfl, rfl⟩
  · refine ⟨?_, rfl⟩
    simp only
    rw [sortBy_map (Prod.map g id) Prod.fst Prod.fst (fun a b => ltβ (g a) (g b)) ltβ (fun _ _ => rfl)]
    simp
  · refine ⟨?_, rfl⟩
    simp only
    rw [List.filter_map]; rfl
  · refine ⟨?_, rfl⟩
    simp [Function.comp_def, Prod.map]

end
end Interp

-- the operations of pytezos on well-formed collections are the reference operations ----------------------
namespace Interp
open Typing List

section
variable {k : Ty} {xs : List Val} {x : Val}
  (hall : ∀ e ∈ xs, isKey k e = true) (hs : Coll.StrictSorted keyLt xs) (hx : isKey k x = true)
include hall hs hx

theorem set_contains_eq : _root_.Impl.Coll.Set.contains Impl.valEq xs x = _root_.Spec.Coll.memKey keyLt x xs := by
  obtain ⟨ys, rfl⟩ := lift_keys xs hall
  have hs' : Coll.StrictSorted (ltK : KeyOf k → KeyOf k → Bool) ys := by
    rw [ltK_eq]; exact (List.pairwise_map.mp hs)
  have := Coll.memKey_eq (strictTotalK k) (⟨x, hx⟩ : KeyOf k) ys hs'
  rw [contains_map Subtype.val Impl.valEq ys ⟨x, hx⟩]
  rw [← memKey_map Subtype.val keyLt ⟨x, hx⟩ ys]
  rw [← ltK_eq]
  exact this.symm

theorem set_add_eq :
    _root_.Impl.Coll.Set.add Impl.valEq Impl.valLt xs x = _root_.Spec.Coll.insertKey keyLt x xs := by
  obtain ⟨ys, rfl⟩ := lift_keys xs hall
  have hs' : Coll.StrictSorted (ltK : KeyOf k → KeyOf k → Bool) ys := by
    rw [ltK_eq]; exact (List.pairwise_map.mp hs)
  have := Coll.add_eq (strictTotalK k) hs' (⟨x, hx⟩ : KeyOf k)
  rw [← add_map Subtype.val Impl.valEq Impl.valLt ys ⟨x, hx⟩]
  rw [← insertKey_map Subtype.val keyLt ⟨x, hx⟩ ys, ← ltK_eq]
  exact congrArg (List.map Subtype.val) this

theorem set_remove_eq :
    _root_.Impl.Coll.Set.remove Impl.valEq xs x = _root_.Spec.Coll.eraseKey keyLt x xs := by
  obtain ⟨ys, rfl⟩ := lift_keys xs hall
  have hs' : Coll.StrictSorted (ltK : KeyOf k → KeyOf k → Bool) ys := by
    rw [ltK_eq]; exact (List.pairwise_map.mp hs)
  have := Coll.remove_eq (strictTotalK k) hs' (⟨x, hx⟩ : KeyOf k)
  rw [← remove_map Subtype.val Impl.valEq ys ⟨x, hx⟩]
  rw [← eraseKey_map Subtype.val keyLt ⟨x, hx⟩ ys, ← ltK_eq]
  exact congrArg (List.map Subtype.val) this

end

section
variable {k : Ty} {m : List (Val × Val)} {x : Val}
  (hall : ∀ e ∈ m, isKey k e.1 = true) (hs : Coll.StrictSorted keyLt (m.map Prod.fst)) (hx : isKey k x = true)
include hall hs hx

theorem map_get_eq : _root_.Impl.Coll.Map.get Impl.valEq m x = _root_.Spec.Coll.findKV keyLt x m := by
  obtain ⟨ys, rfl⟩ := lift_kvs m hall
  have hs' : Coll.StrictSorted (ltK : KeyOf k → KeyOf k → Bool) (Coll.keys ys) := by
    rw [ltK_eq]
    have hk : (ys.map (Prod.map Subtype.val id)).map Prod.fst = (Coll.keys ys).map Subtype.val := by
      simp [Coll.keys, List.map_map, Function.comp_def]
    rw [hk] at hs
    exact List.pairwise_map.mp hs
  have := Coll.get_eq (strictTotalK k) (⟨x, hx⟩ : KeyOf k) ys hs'
  rw [get_map Subtype.val Impl.valEq ys ⟨x, hx⟩]
  rw [← findKV_map Subtype.val keyLt ⟨x, hx⟩ ys, ← ltK_eq]
  exact this

theorem map_update_eq (v : Option Val) :
    _root_.Impl.Coll.Map.update Impl.valEq Impl.valLt m x v
      = (_root_.Spec.Coll.findKV keyLt x m,
          match v with
          | some y => _root_.Spec.Coll.insertKV keyLt x y m
          | none => _root_.Spec.Coll.eraseKV keyLt x m) := by
  obtain ⟨ys, rfl⟩ := lift_kvs m hall
  have hs' : Coll.StrictSorted (ltK : KeyOf k → KeyOf k → Bool) (Coll.keys ys) := by
    rw [ltK_eq]
    have hk : (ys.map (Prod.map Subtype.val id)).map Prod.fst = (Coll.keys ys).map Subtype.val := by
      simp [Coll.keys, List.map_map, Function.comp_def]
    rw [hk] at hs
    exact List.pairwise_map.mp hs
  have h := Coll.update_eq (strictTotalK k) hs' (⟨x, hx⟩ : KeyOf k) v
  obtain ⟨h2, h1⟩ := update_map Subtype.val Impl.valEq Impl.valLt ys ⟨x, hx⟩ v
  refine Prod.ext ?_ ?_
  · simp only
    rw [← h1, ← findKV_map Subtype.val keyLt ⟨x, hx⟩ ys, ← ltK_eq]
    exact congrArg Prod.fst h
  · simp only
    rw [← h2]
    have h' := congrArg (fun p => p.2.map (Prod.map Subtype.val id)) h
    simp only at h'
    rw [show (fun a b : KeyOf k => Impl.valEq a.1 b.1) = eqK from rfl, show (fun a b : KeyOf k => Impl.valLt a.1 b.1) = ltK from rfl]
    rw [h']
    cases v with
    | none => simp only; rw [← eraseKV_map Subtype.val keyLt ⟨x, hx⟩ ys, ← ltK_eq]
    | some y => simp only; rw [← insertKV_map Subtype.val keyLt ⟨x, hx⟩ y ys, ← ltK_eq]

end
end Interp
