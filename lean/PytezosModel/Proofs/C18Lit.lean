import PytezosModel.Micheline.Text
/-! C18 helper lemmas: literals are read back — decimal integers, hex bytes, JSON strings (every `Char`). -/
namespace Impl.Text

theorem digitVal_digitChar : ∀ d, d < 10 → digitVal? (digitChar d) = some d := by decide
theorem hexVal_hexChar : ∀ d, d < 16 → hexVal? (hexChar d) = some d := by decide
theorem digitChar_ne_minus : ∀ d, d < 10 → digitChar d ≠ '-' := by decide

theorem char_valid (c : Char) : c.toNat < 55296 ∨ (57343 < c.toNat ∧ c.toNat < 1114112) := by
  have h := c.valid
  simp only [UInt32.isValidChar, Nat.isValidChar] at h
  exact h

theorem char_eq_of_toNat {c : Char} {n : Nat} (h : c.toNat = n) : c = Char.ofNat n := by
  rw [← Char.ofNat_toNat c, h]

/-! ### decimal -/

theorem decodeNatAux_append (acc : Nat) (xs ys : List Char) :
    decodeNatAux acc (xs ++ ys) = (decodeNatAux acc xs).bind fun a => decodeNatAux a ys := by
  induction xs generalizing acc with
  | nil => simp [decodeNatAux]
  | cons x xs ih =>
    simp only [List.cons_append, decodeNatAux]
    cases digitVal? x with
    | none => simp
    | some d => simp [ih]

theorem decodeNatAux_natRepr (n : Nat) : decodeNatAux 0 (natRepr n) = some n := by
  induction n using Nat.strongRecOn with
  | _ n ih =>
    rw [natRepr]
    split
    · rename_i h
      simp [decodeNatAux, digitVal_digitChar n h]
    · rename_i h
      have h1 : n / 10 < n := by omega
      have h2 : n % 10 < 10 := by omega
      rw [decodeNatAux_append, ih _ h1]
      simp only [Option.bind_some, decodeNatAux, digitVal_digitChar _ h2]
      simp only [Option.some.injEq]
      omega

theorem natRepr_head (n : Nat) : ∃ d t, d < 10 ∧ natRepr n = digitChar d :: t := by
  induction n using Nat.strongRecOn with
  | _ n ih =>
    rw [natRepr]
    split
    · rename_i h; exact ⟨n, [], h, rfl⟩
    · rename_i h
      obtain ⟨d, t, hd, ht⟩ := ih (n / 10) (by omega)
      exact ⟨d, t ++ [digitChar (n % 10)], hd, by simp [ht]⟩

theorem decodeNat_natRepr (n : Nat) : decodeNat (natRepr n) = some n := by
  obtain ⟨d, t, _, ht⟩ := natRepr_head n
  unfold decodeNat
  rw [decodeNatAux_natRepr]
  simp [ht]

theorem decodeInt_intRepr (v : Int) : decodeInt (intRepr v) = some v := by
  cases v with
  | ofNat n =>
    obtain ⟨d, t, hd, ht⟩ := natRepr_head n
    have hne := digitChar_ne_minus d hd
    simp only [intRepr]
    unfold decodeInt
    split
    · rename_i ds heq
      rw [ht] at heq
      simp at heq
      exact absurd heq.1 hne
    · simp [decodeNat_natRepr]
  | negSucc n =>
    simp only [intRepr, decodeInt, decodeNat_natRepr]
    simp only [Option.bind_eq_bind, Option.bind_some, Option.pure_def, Option.map_some, Option.some.injEq]
    omega

theorem litInt_intRepr (v : Int) : litInt (intRepr v) = some (.int v) := by
  simp [litInt, decodeInt_intRepr]

/-! ### hex -/

theorem decodeHex_hexOf (b : List Nat) (h : b.all (· < 256) = true) : decodeHex (hexOf b) = some b := by
  induction b with
  | nil => simp [hexOf, decodeHex]
  | cons x xs ih =>
    simp only [List.all_cons, Bool.and_eq_true, decide_eq_true_eq] at h
    have h1 : x / 16 < 16 := by omega
    have h2 : x % 16 < 16 := by omega
    simp only [hexOf, decodeHex, hexVal_hexChar _ h1, hexVal_hexChar _ h2, ih h.2]
    simp only [Option.bind_eq_bind, Option.bind_some, Option.pure_def, Option.some.injEq, List.cons.injEq, and_true]
    omega

theorem litBytes_hexOf (b : List Nat) (h : b.all (· < 256) = true) :
    litBytes ('0' :: 'x' :: hexOf b) = some (.bytes b) := by
  simp [litBytes, decodeHex_hexOf b h]

/-! ### JSON strings -/

/-- UTF-16 units of a character -/
def charUnits (c : Char) : List Nat :=
  if c.toNat < 65536 then [c.toNat] else [55296 + (c.toNat - 65536) / 1024, 56320 + (c.toNat - 65536) % 1024]

theorem loadsUnits_u4 (n : Nat) (h : n < 65536) (tail : List Char) :
    loadsUnits (u4 n ++ tail) = (loadsUnits tail).map fun (us, r) => (n :: us, r) := by
  have h3 : n / 4096 % 16 < 16 := by omega
  have h2 : n / 256 % 16 < 16 := by omega
  have h1 : n / 16 % 16 < 16 := by omega
  have h0 : n % 16 < 16 := by omega
  have hv : ((n / 4096 % 16 * 16 + n / 256 % 16) * 16 + n / 16 % 16) * 16 + n % 16 = n := by omega
  simp only [u4, List.cons_append, List.nil_append]
  rw [loadsUnits.eq_def]
  simp only [hexVal_hexChar _ h3, hexVal_hexChar _ h2, hexVal_hexChar _ h1, hexVal_hexChar _ h0]
  cases loadsUnits tail with
  | none => simp
  | some p => simp [hv]

theorem loadsUnits_escapeChar (c : Char) (tail : List Char) :
    loadsUnits (escapeChar c ++ tail) = (loadsUnits tail).map fun (us, r) => (charUnits c ++ us, r) := by
  have hv := char_valid c
  unfold escapeChar
  simp only
  split
  · rename_i h; subst h
    rw [show (['\\', '"'] ++ tail) = '\\' :: '"' :: tail from rfl, loadsUnits.eq_def]
    simp [charUnits]
  split
  · rename_i _ h; subst h
    rw [show (['\\', '\\'] ++ tail) = '\\' :: '\\' :: tail from rfl, loadsUnits.eq_def]
    simp [charUnits]
  split
  · rename_i _ _ h; have := char_eq_of_toNat h; subst this
    rw [show (['\\', 'n'] ++ tail) = '\\' :: 'n' :: tail from rfl, loadsUnits.eq_def]
    simp [charUnits]
  split
  · rename_i _ _ _ h; have := char_eq_of_toNat h; subst this
    rw [show (['\\', 'r'] ++ tail) = '\\' :: 'r' :: tail from rfl, loadsUnits.eq_def]
    simp [charUnits]
  split
  · rename_i _ _ _ _ h; have := char_eq_of_toNat h; subst this
    rw [show (['\\', 't'] ++ tail) = '\\' :: 't' :: tail from rfl, loadsUnits.eq_def]
    simp [charUnits]
  split
  · rename_i _ _ _ _ _ h; have := char_eq_of_toNat h; subst this
    rw [show (['\\', 'b'] ++ tail) = '\\' :: 'b' :: tail from rfl, loadsUnits.eq_def]
    simp [charUnits]
  split
  · rename_i _ _ _ _ _ _ h; have := char_eq_of_toNat h; subst this
    rw [show (['\\', 'f'] ++ tail) = '\\' :: 'f' :: tail from rfl, loadsUnits.eq_def]
    simp [charUnits]
  split
  · rename_i hq hb _ _ _ _ _ h
    rw [show ([c] ++ tail) = c :: tail from rfl, loadsUnits.eq_def]
    have : ¬ c.toNat < 32 := by omega
    have h2 : c.toNat < 65536 := by omega
    simp [hq, hb, this, charUnits, h2]
  split
  · rename_i h
    rw [loadsUnits_u4 _ h]
    simp [charUnits, h]
  · rename_i h
    have ha : 55296 + (c.toNat - 65536) / 1024 < 65536 := by omega
    have hb : 56320 + (c.toNat - 65536) % 1024 < 65536 := by omega
    rw [List.append_assoc, loadsUnits_u4 _ ha, loadsUnits_u4 _ hb]
    cases loadsUnits tail with
    | none => simp
    | some p => simp [charUnits, h]

theorem loadsUnits_dumps (s tail : List Char) :
    loadsUnits (s.flatMap escapeChar ++ '"' :: tail) = some (s.flatMap charUnits, tail) := by
  induction s with
  | nil => rw [loadsUnits.eq_def]; simp
  | cons c s ih =>
    simp only [List.flatMap_cons, List.append_assoc]
    rw [loadsUnits_escapeChar, ih]
    simp

theorem unitsToChars_units (s : List Char) : unitsToChars (s.flatMap charUnits) = some s := by
  induction s with
  | nil => simp [unitsToChars]
  | cons c s ih =>
    have hv := char_valid c
    simp only [List.flatMap_cons, charUnits]
    split
    · rename_i h
      simp only [List.cons_append, List.nil_append]
      rw [unitsToChars.eq_def]
      have h1 : ¬ (55296 ≤ c.toNat ∧ c.toNat ≤ 56319) := by omega
      have h2 : ¬ (56320 ≤ c.toNat ∧ c.toNat ≤ 57343) := by omega
      simp [h1, h2, ih, Char.ofNat_toNat]
    · rename_i h
      simp only [List.cons_append, List.nil_append]
      rw [unitsToChars.eq_def]
      have h1 : 55296 ≤ 55296 + (c.toNat - 65536) / 1024 ∧ 55296 + (c.toNat - 65536) / 1024 ≤ 56319 := by omega
      have h2 : 56320 ≤ 56320 + (c.toNat - 65536) % 1024 ∧ 56320 + (c.toNat - 65536) % 1024 ≤ 57343 := by omega
      have h3 : 65536 + (55296 + (c.toNat - 65536) / 1024 - 55296) * 1024 + (56320 + (c.toNat - 65536) % 1024 - 56320)
          = c.toNat := by omega
      simp only [h1, h2, and_self, if_true, ih, Option.map_some, h3, Char.ofNat_toNat]

theorem jsonLoads_jsonDumps (s : List Char) : jsonLoads (jsonDumps s) = some s := by
  simp only [jsonDumps, jsonLoads]
  rw [loadsUnits_dumps s []]
  simp [unitsToChars_units]

theorem litStr_jsonDumps (s : String) : litStr (jsonDumps s.toList) = some (.str s) := by
  simp [litStr, jsonLoads_jsonDumps]

end Impl.Text
