import PytezosModel.Proofs.C31
import PytezosModel.Proofs.HashText
import PytezosModel.Client.MerkleText
/-! Helper lemmas for the string-level (`Impl.MerkleText`) corollaries of C31: every Merkle root is a value of the hash
function (so it has the digest length), and the `list(map(operation_list_hash, …))` / `list(map(base58_decode, …))`
pair of `operation_list_list_hash` gives the roots of the inner lists back. -/
namespace Proofs.C31
open Impl.Merkle Spec.Merkle Impl.MerkleText Impl.Encoding HashText

theorem node_is_hash (H : Bytes → Bytes) (L : List Bytes) (hL : L ≠ []) (hh : ∀ x ∈ L, ∃ y, x = H y) (j i : Nat) :
    ∃ y, node H (leafOf L) j i = H y := by
  cases j with
  | zero =>
    have hpos : 0 < L.length := List.length_pos_iff.mpr hL
    have hlt : min i (L.length - 1) < L.length := by omega
    simp only [node, leafOf, List.getD_eq_getElem?_getD, List.getElem?_eq_getElem hlt, Option.getD_some]
    exact hh _ (List.getElem_mem hlt)
  | succ j => exact ⟨_, rfl⟩

/-- every value of `merkle` is a value of `H` -/
theorem merkle_is_hash (H : Bytes → Bytes) (xs : List Bytes) (r : Bytes) (h : merkle H xs = some r) : ∃ y, r = H y := by
  unfold merkle at h
  split at h
  · exact ⟨[], by injection h with h; exact h.symm⟩
  next hne =>
    have hL : xs.map H ≠ [] := by simpa using hne
    rw [root_padPow2 H _ hL] at h
    injection h with h
    obtain ⟨y, hy⟩ := node_is_hash H (xs.map H) hL (by
      intro x hx
      obtain ⟨a, _, rfl⟩ := List.mem_map.mp hx
      exact ⟨a, rfl⟩) (height (xs.map H).length) 0
    exact ⟨y, by rw [← h, hy]⟩

theorem merkle_defined (H : Bytes → Bytes) (xs : List Bytes) : ∃ r, merkle H xs = some r := by
  unfold merkle
  split
  · exact ⟨_, rfl⟩
  next hne =>
    have hL : xs.map H ≠ [] := by simpa using hne
    exact ⟨_, root_padPow2 H _ hL⟩

theorem chars_Lo : chars "Lo" = [76, 111] := by decide
theorem chars_LLo : chars "LLo" = [76, 76, 111] := by decide
theorem chars_vh : chars "vh" = [118, 104] := by decide

/-- the rows of the regenerated `base58_encodings` table under which the three results are written -/
def loRow : Row := ⟨[76, 111], 52, [133, 233], 32⟩
def lloRow : Row := ⟨[76, 76, 111], 53, [29, 159, 109], 32⟩
def vhRow : Row := ⟨[118, 104], 52, [1, 106, 242], 32⟩

/-- every group of `operation_list_list_hash`'s argument decodes (`none` as soon as one item of one group does not) -/
def decodeGroups (cks : List Nat → List Nat) : List (List (List Nat)) → Option (List (List Bytes))
  | [] => some []
  | g :: gs =>
    match decodeAll cks g, decodeGroups cks gs with
    | .ok r, some rs => some (r :: rs)
    | _, _ => none

section
variable (cks : List Nat → List Nat) (hck : CksOk cks) (H : Bytes → Bytes) (hH : HashOk H)

include hck hH in
/-- a Merkle root written under a row for 32-byte payloads -/
theorem root_text (r : Row) (hf : rowFacts r = true) (h32 : r.dataLen = 32) (raw : List Bytes) :
    ∃ root s, merkle H raw = some root ∧ base58Encode cks root r.human = .ok s ∧
      s.length = r.encLen ∧ r.human <+: s ∧ base58Decode cks s = .ok root := by
  obtain ⟨root, hroot⟩ := merkle_defined H raw
  obtain ⟨y, hy⟩ := merkle_is_hash H raw root hroot
  obtain ⟨s, hs, hl, hp, hd⟩ := text_of_payload cks hck r hf root (by rw [hy, h32]; exact hH.len y)
    (by rw [hy]; exact hH.bytes y)
  exact ⟨root, s, hroot, hs, hl, hp, hd⟩

include hck hH in
theorem opListHash_text (hf : rowFacts loRow = true) (ops : List (List Nat)) (raw : List Bytes)
    (hdec : decodeAll cks ops = .ok raw) :
    ∃ root s, merkle H raw = some root ∧ operationListHash cks H ops = .ok s ∧
      s.length = 52 ∧ [76, 111] <+: s ∧ base58Decode cks s = .ok root := by
  obtain ⟨root, s, hroot, hs, hl, hp, hd⟩ := root_text cks hck H hH loRow hf rfl raw
  refine ⟨root, s, hroot, ?_, hl, hp, hd⟩
  have hs' : base58Encode cks root [76, 111] = .ok s := hs
  have e2 : reduce H = merkle H := funext (fun xs => by
    unfold merkle
    split
    · next h => subst h; simp [reduce, reduceWith, show Generated.C31.reduceShape = some P0 by decide]
    · next h => simp only [reduce, show Generated.C31.reduceShape = some P0 by decide, Option.bind_some]
                exact reduceWith_spec H xs h)
  simp [operationListHash, Generated.C31.opListPrefix, withPrefix, chars_Lo, hdec, reduceE, e2, hroot, liftB, hs']

include hck hH in
/-- `list(map(operation_list_hash, groups))` followed by `list(map(base58_decode, …))` yields the Merkle roots of the
decoded groups -/
theorem listHashes_spec (hf : rowFacts loRow = true) (opss : List (List (List Nat))) (rawss : List (List Bytes))
    (hdec : decodeGroups cks opss = some rawss) :
    ∃ los roots, listHashes cks H opss = .ok los ∧ decodeAll cks los = .ok roots ∧
      rawss.mapM (merkle H) = some roots := by
  induction opss generalizing rawss with
  | nil =>
    simp only [decodeGroups, Option.some.injEq] at hdec
    subst hdec
    exact ⟨[], [], rfl, rfl, rfl⟩
  | cons g gs ih =>
    simp only [decodeGroups] at hdec
    split at hdec
    next r rs hg hgs =>
      injection hdec with hdec
      subst hdec
      obtain ⟨los, roots, h1, h2, h3⟩ := ih rs hgs
      obtain ⟨root, s, hroot, hs, _, _, hd⟩ := opListHash_text cks hck H hH hf _ _ hg
      exact ⟨s :: los, root :: roots, by simp [listHashes, hs, h1], by simp [decodeAll, hd, h2],
        by simp [List.mapM_cons, hroot, h3]⟩
    · simp at hdec

end

end Proofs.C31
