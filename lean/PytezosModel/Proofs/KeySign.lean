import PytezosModel.Proofs.KeyLemmas
/-! Lemmas about the mirror of `Key.sign` / `Key.verify` (used by Props/C07 and Props/C23). -/
namespace Impl.Key

/-! ### dispatch tables of `Key.sign` / `Key.verify` -/

/-- both functions hand the same thing to the primitive: the Blake2b-256 digest, except for BLS -/
theorem payloadKinds (c : Curve) :
    ∃ dg, signPayloadKind c = some dg ∧ verifyPayloadKind c = some dg ∧ (dg = true ↔ c ≠ .bl) := by
  cases c <;> exact ⟨_, rfl, rfl, by decide⟩

theorem catches_some : ∃ b, Generated.C07.verifyP256CatchesRangeError = some b := ⟨_, rfl⟩

/-- first row of the signature kinds with a given human prefix -/
def sigRowOf (pfx : Bytes) : Option Row := sigRows.find? fun r => r.human == pfx

theorem sigRowOf_mem (pfx : Bytes) (r : Row) (h : sigRowOf pfx = some r) : r ∈ sigRows ∧ r.human = pfx := by
  unfold sigRowOf at h
  refine ⟨List.mem_of_find?_eq_some h, ?_⟩
  have := List.find?_some h
  simpa using this

/-- the prefix `Key.sign` chooses names a signature kind whose payload length is the length of the raw
signature of that curve: `sig` or `<curve>sig`.  (On a tree where a BLS key is given the 64-byte generic
kind this does not evaluate to `rfl` and the obligation is open.) -/
theorem signPrefix_row (c : Curve) (g : Bool) :
    ∃ pfx r, signPrefix c g = some pfx ∧ sigRowOf pfx = some r ∧ r.dataLen = sigLen c ∧
      (pfx = sigTag ∨ pfx = c.tag ++ sigTag) ∧ (g = false → pfx = c.tag ++ sigTag) := by
  cases c <;> cases g <;> exact ⟨_, _, rfl, rfl, rfl, by decide, by decide⟩

/-- every signature kind starts with characters `bytes.fromhex` rejects -/
theorem sig_prefix_nonhex (c : Curve) (pfx : Bytes) (h : pfx = sigTag ∨ pfx = c.tag ++ sigTag) :
    ∃ p ∈ nonHexStarts, p <+: pfx := by
  rcases h with h | h <;> subst h
  · exact ⟨[115], by decide, ⟨[105, 103], rfl⟩⟩
  · cases c
    · exact ⟨[101, 100, 115], by decide, ⟨[105, 103], rfl⟩⟩
    · exact ⟨[115], by decide, ⟨[112, 115, 105, 103], rfl⟩⟩
    · exact ⟨[112], by decide, ⟨[50, 115, 105, 103], rfl⟩⟩
    · exact ⟨[66, 76], by decide, ⟨[115, 105, 103], rfl⟩⟩

/-- the prefix / curve pre-check of `Key.verify` passes for a string with the generic or the key's own prefix -/
theorem precheck_passes (c : Curve) (pfx s : Str) (h : pfx = sigTag ∨ pfx = c.tag ++ sigTag) (hp : pfx <+: s) :
    (s.take 3 != sigTag && c.tag != s.take 2) = false := by
  obtain ⟨t, rfl⟩ := hp
  rcases h with h | h <;> subst h
  · simp [sigTag]
  · cases c <;> simp [sigTag, Curve.tag]

/-- … and fails for a curve-specific signature of another curve -/
theorem precheck_fails (c c' : Curve) (hne : c ≠ c') (s : Str) (hp : (c'.tag ++ sigTag) <+: s) :
    (s.take 3 != sigTag && c.tag != s.take 2) = true := by
  obtain ⟨t, rfl⟩ := hp
  cases c <;> cases c' <;> first | exact absurd rfl hne | simp [sigTag, Curve.tag]

/-- `Key.verify` returns True as soon as the inputs scrub, the pre-check passes, the signature decodes and the
primitive accepts -/
theorem verify_accepts (P : Prims) (C : Codec) (k : Key) (sig msg : PyIn) (es em raw : Bytes) (dg : Bool)
    (hs : scrub sig = .ok es) (hm : scrub msg = .ok em) (hpub : k.pub ≠ [])
    (hpre : (es.take 3 != sigTag && k.curve.tag != es.take 2) = false) (hdec : C.decode es = some raw)
    (hdg : verifyPayloadKind k.curve = some dg) (hacc : P.verify k.curve k.pub (payload P dg em) raw = .accept) :
    verify P C k sig msg = .ok true := by
  obtain ⟨b, hb⟩ := catches_some
  have hne : k.pub.isEmpty = false := by cases hk : k.pub with | nil => exact absurd hk hpub | cons _ _ => rfl
  simp [verify, hs, hm, hne, hpre, hdec, hdg, hb, hacc]

/-- conversely, `Key.verify` returning True exposes all of the above -/
theorem verify_true_inv (P : Prims) (C : Codec) (k : Key) (sig msg : PyIn) (b : Bool)
    (h : verify P C k sig msg = .ok b) :
    b = true ∧ ∃ es em raw dg, scrub sig = .ok es ∧ scrub msg = .ok em ∧ k.pub ≠ [] ∧
      (es.take 3 = sigTag ∨ es.take 2 = k.curve.tag) ∧ C.decode es = some raw ∧
      verifyPayloadKind k.curve = some dg ∧ P.verify k.curve k.pub (payload P dg em) raw = .accept := by
  unfold verify at h
  split at h
  · cases h
  · rename_i es hs
    split at h
    · cases h
    · rename_i em hm
      split at h
      · cases h
      · rename_i hpub
        split at h
        · cases h
        · rename_i hpre
          split at h
          · cases h
          · rename_i raw hdec
            split at h
            · rename_i dg catches hdg hc
              split at h
              · rename_i hacc
                refine ⟨by cases h; rfl, es, em, raw, dg, hs, hm, ?_, ?_, hdec, hdg, hacc⟩
                · intro hk; simp [hk] at hpub
                · simp only [Bool.and_eq_true, bne_iff_ne, ne_eq, not_and, Decidable.not_not] at hpre
                  by_cases h3 : es.take 3 = sigTag
                  · exact Or.inl h3
                  · exact Or.inr (hpre h3).symm
              · cases h
              · cases h
              · split at h <;> cases h
              · cases h
            · cases h

/-- sign then verify, for every valid key, message and form (the body of `C07.sign_verify`, shared with C23) -/
theorem sign_verify_core (P : Prims) (C : Codec) (L : Laws P) (CL : CodecLaws C sigRows)
    (k : Key) (hk : ValidKey P k) (msg : PyIn) (m : Bytes) (hm : scrub msg = .ok m) (generic : Bool) :
    ∃ s pfx raw, sign P C k msg generic = .ok s ∧ verify P C k (.str s) msg = .ok true ∧
      pfx <+: s ∧ (pfx = sigTag ∨ pfx = k.curve.tag ++ sigTag) ∧ (generic = false → pfx = k.curve.tag ++ sigTag) ∧
      scrub (.str s) = .ok s ∧ C.decode s = some raw ∧ raw.length = sigLen k.curve ∧
      (∃ sk, k.sec = some sk ∧ P.sign k.curve sk (if k.curve = .bl then m else P.blake2b 32 m) = some raw) := by
  obtain ⟨sk, hsec, hne, hkp⟩ := hk
  obtain ⟨dg, hsdg, hvdg, hdgb⟩ := payloadKinds k.curve
  obtain ⟨pfx, r, hpfx, hrow, hlen, hform, hspec⟩ := signPrefix_row k.curve generic
  obtain ⟨hr, hhuman⟩ := sigRowOf_mem pfx r hrow
  obtain ⟨raw, hsign, hacc⟩ := L.sign_verify k.curve k.pub sk hkp (payload P dg m)
  obtain ⟨hrl, hrb⟩ := L.sign_len k.curve sk _ raw hsign
  obtain ⟨s, henc, hdec, _, hpre, hascii⟩ := CL.enc_dec r hr raw (by rw [hrl, hlen]) hrb
  rw [hhuman] at henc hpre
  obtain ⟨p, hp, hpp⟩ := sig_prefix_nonhex k.curve pfx hform
  have hs : scrub (.str s) = .ok s := scrub_str_nonhex s p hp (hpp.trans hpre) hascii
  have hpay : payload P dg m = if k.curve = .bl then m else P.blake2b 32 m := by
    by_cases hc : k.curve = .bl
    · have : dg = false := by cases dg with | false => rfl | true => exact absurd hc (hdgb.mp rfl)
      simp [payload, this, hc]
    · simp [payload, hdgb.mpr hc, hc]
  refine ⟨s, pfx, raw, ?_, ?_, hpre, hform, hspec, hs, hdec, hrl, sk, hsec, by rw [← hpay]; exact hsign⟩
  · have : sk.isEmpty = false := by cases sk with | nil => exact absurd rfl hne | cons _ _ => rfl
    simp [sign, hm, hsec, this, hsdg, hpfx, hsign, henc]
  · have hpub : k.pub ≠ [] := by
      have := (L.pk_len k.curve k.pub sk hkp).1
      intro h0; rw [h0] at this; cases hc : k.curve <;> simp [hc, pkLen] at this
    exact verify_accepts P C k _ _ s m raw dg hs hm hpub (precheck_passes k.curve pfx s hform hpre) hdec hvdg hacc

end Impl.Key
