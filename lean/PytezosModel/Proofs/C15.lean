import PytezosModel.Michelson.BigMap
/-! helper lemmas for C15 (big maps): lookup in association lists, the stable insertion sort, and the case analysis of
`BigMapType.update` (repaired shape) against the layered dictionary -/
namespace Proofs.C15
open Impl.BigMap Spec.BigMap Generated.C15
variable {K V : Type} [DecidableEq K]

theorem lookup_nil (k : K) : lookup ([] : List (K × Option V)) k = none := rfl

theorem lookup_cons (e : K × Option V) (xs : List (K × Option V)) (k : K) :
    lookup (e :: xs) k = if e.1 = k then some e.2 else lookup xs k := by
  simp only [lookup, List.find?_cons]
  by_cases h : e.1 = k
  · have : (e.1 == k) = true := by simp [h]
    simp [this, h]
  · have : (e.1 == k) = false := by simp [h]
    simp [this, h]

theorem lookup_append (xs ys : List (K × Option V)) (k : K) :
    lookup (xs ++ ys) k = match lookup xs k with | some v => some v | none => lookup ys k := by
  induction xs with
  | nil => simp [lookup_nil]
  | cons e xs ih =>
    simp only [List.cons_append, lookup_cons]
    by_cases h : e.1 = k <;> simp [h, ih]

theorem lookup_removed (rs : List K) (k : K) :
    lookup (rs.map fun r => (r, (none : Option V))) k = if k ∈ rs then some none else none := by
  induction rs with
  | nil => simp [lookup_nil]
  | cons r rs ih =>
    simp only [List.map_cons, lookup_cons, ih, List.mem_cons]
    by_cases h : r = k
    · simp [h]
    · have : ¬ k = r := fun e => h e.symm
      simp [h, this]

theorem lookup_none_iff (xs : List (K × Option V)) (k : K) : lookup xs k = none ↔ ∀ e ∈ xs, e.1 ≠ k := by
  induction xs with
  | nil => simp [lookup_nil]
  | cons e xs ih =>
    simp only [lookup_cons, List.mem_cons, forall_eq_or_imp]
    by_cases h : e.1 = k <;> simp [h, ih]

theorem lookup_some_mem (xs : List (K × Option V)) (k : K) (v : Option V) (h : lookup xs k = some v) : (k, v) ∈ xs := by
  induction xs with
  | nil => simp [lookup_nil] at h
  | cons e xs ih =>
    rw [lookup_cons] at h
    by_cases h1 : e.1 = k
    · simp [h1] at h
      simp; left; rw [← h1, ← h]
    · simp [h1] at h
      simp [ih h]

theorem findLocal_eq (b : BM K V) (k : K) :
    findLocal b k = match lookup b.items k with | some v => some v | none => if k ∈ b.removed then some none else none := by
  simp [findLocal, selfIter, lookup_append, lookup_removed]

theorem overlay_eq (b : BM K V) (k : K) :
    overlay b k = if k ∈ b.removed then some none else lookup b.items k := by
  simp only [overlay, lookup]
  by_cases h : k ∈ b.removed
  · simp [h]
  · simp only [h, if_false]
    cases List.find? (fun e => e.1 == k) b.items <;> rfl

theorem findLocal_eq_overlay {lt : K → K → Bool} {b : BM K V} (hI : Inv lt b) (k : K) : findLocal b k = overlay b k := by
  rw [findLocal_eq, overlay_eq]
  by_cases h : k ∈ b.removed
  · have : lookup b.items k = none := (lookup_none_iff _ _).2 (hI.disjoint k h)
    simp [h, this]
  · simp only [h, if_false]
    cases lookup b.items k <;> rfl

theorem get_eq_dict {lt : K → K → Bool} {b : BM K V} (hI : Inv lt b) (chain : K → Option V) (k : K) :
    get chain b k = dict chain b k := by
  simp only [Impl.BigMap.get, dict, layered, findLocal_eq_overlay hI]


/-! ### sorting -/
section sorting
variable {α : Type} {lt : K → K → Bool}

theorem mem_insertByKey (x e : K × α) (ys : List (K × α)) : e ∈ insertByKey lt x ys ↔ e = x ∨ e ∈ ys := by
  induction ys with
  | nil => simp [insertByKey]
  | cons y ys ih =>
    simp only [insertByKey]
    split
    · simp
    · simp only [List.mem_cons, ih]
      constructor
      · rintro (h | h | h) <;> simp [h]
      · rintro (h | h | h) <;> simp [h]

theorem insertByKey_last (hs : StrictTotal lt) (x : K × α) (acc : List (K × α)) (h : ∀ y ∈ acc, lt y.1 x.1 = true) :
    insertByKey lt x acc = acc ++ [x] := by
  induction acc with
  | nil => rfl
  | cons y ys ih =>
    have hy : lt y.1 x.1 = true := h y (by simp)
    have hn : lt x.1 y.1 = false := by
      cases hxy : lt x.1 y.1
      · rfl
      · have := hs.trans _ _ _ hxy hy
        rw [hs.irrefl] at this
        cases this
    simp only [insertByKey, hn, List.cons_append]
    rw [ih (fun z hz => h z (by simp [hz]))]
    simp

theorem foldl_insert_sorted (hs : StrictTotal lt) (xs acc : List (K × α))
    (h : (acc ++ xs).Pairwise (fun a b => lt a.1 b.1 = true)) :
    xs.foldl (fun acc x => insertByKey lt x acc) acc = acc ++ xs := by
  induction xs generalizing acc with
  | nil => simp
  | cons x xs ih =>
    simp only [List.foldl_cons]
    have h1 : ∀ y ∈ acc, lt y.1 x.1 = true := by
      intro y hy
      have := List.pairwise_append.1 h
      exact this.2.2 y hy x (by simp)
    rw [insertByKey_last hs x acc h1, ih]
    · simp
    · simpa using h

theorem sortByKey_snoc (hs : StrictTotal lt) (xs : List (K × α)) (x : K × α)
    (h : xs.Pairwise (fun a b => lt a.1 b.1 = true)) :
    sortByKey lt (xs ++ [x]) = insertByKey lt x xs := by
  simp only [sortByKey, List.foldl_append, List.foldl_cons, List.foldl_nil]
  rw [foldl_insert_sorted hs xs [] (by simpa using h)]
  simp

theorem insertByKey_pairwise (hs : StrictTotal lt) (x : K × α) (ys : List (K × α))
    (h : ys.Pairwise (fun a b => lt a.1 b.1 = true)) (hx : ∀ y ∈ ys, y.1 ≠ x.1) :
    (insertByKey lt x ys).Pairwise (fun a b => lt a.1 b.1 = true) := by
  induction ys with
  | nil => simp [insertByKey]
  | cons y ys ih =>
    have hy := List.pairwise_cons.1 h
    simp only [insertByKey]
    split
    · rename_i hxy
      refine List.pairwise_cons.2 ⟨?_, h⟩
      intro z hz
      rcases List.mem_cons.1 hz with rfl | hz
      · exact hxy
      · exact hs.trans _ _ _ hxy (hy.1 z hz)
    · rename_i hxy
      refine List.pairwise_cons.2 ⟨?_, ih hy.2 (fun z hz => hx z (by simp [hz]))⟩
      intro z hz
      rcases (mem_insertByKey x z ys).1 hz with rfl | hz
      · have hne : z.1 ≠ y.1 := fun e => hx y (by simp) e.symm
        rcases hs.total _ _ hne with h1 | h1
        · exact absurd h1 hxy
        · exact h1
      · exact hy.1 z hz
end sorting

theorem lookup_insertByKey {lt : K → K → Bool} (k : K) (x : Option V) (ys : List (K × Option V)) (hx : ∀ y ∈ ys, y.1 ≠ k) (k' : K) :
    lookup (insertByKey lt (k, x) ys) k' = if k' = k then some x else lookup ys k' := by
  induction ys with
  | nil =>
    simp only [insertByKey, lookup_cons, lookup_nil]
    by_cases h : k = k'
    · simp [h]
    · have : ¬ k' = k := fun e => h e.symm
      simp [h, this]
  | cons y ys ih =>
    have hy : y.1 ≠ k := hx y (by simp)
    have ih' := ih (fun z hz => hx z (by simp [hz]))
    simp only [insertByKey]
    split
    · simp only [lookup_cons]
      by_cases h : k = k'
      · simp [h]
      · have : ¬ k' = k := fun e => h e.symm
        simp [h, this]
    · simp only [lookup_cons, ih']
      by_cases h : y.1 = k'
      · have : ¬ k' = k := fun e => hy (h.trans e)
        simp [h, this]
      · simp [h]

theorem lookup_map_val (f : K → Option V → Option V) (xs : List (K × Option V)) (k : K) :
    lookup (xs.map fun e => (e.1, f e.1 e.2)) k = (lookup xs k).map (f k) := by
  induction xs with
  | nil => simp [lookup_nil]
  | cons e xs ih =>
    simp only [List.map_cons, lookup_cons, ih]
    by_cases h : e.1 = k <;> simp [h]

theorem lookup_filter_ne (xs : List (K × Option V)) (k k' : K) :
    lookup (xs.filter fun e => e.1 != k) k' = if k' = k then none else lookup xs k' := by
  induction xs with
  | nil => simp [lookup_nil]
  | cons e xs ih =>
    by_cases he : e.1 = k
    · have : (e.1 != k) = false := by simp [he]
      simp only [List.filter_cons, this, lookup_cons]
      rw [if_neg (by simp), ih]
      by_cases h : k' = k
      · simp [h]
      · have : ¬ e.1 = k' := fun e' => h (e'.symm.trans he)
        simp [h, this]
    · have : (e.1 != k) = true := by simp [he]
      simp only [List.filter_cons, this, lookup_cons, ih, if_true]
      by_cases h : e.1 = k'
      · have : ¬ k' = k := fun e' => he (h.trans e')
        simp [h, this]
      · simp [h]

theorem toSet_mem (xs : List K) (k : K) : k ∈ toSet xs ↔ k ∈ xs := by
  induction xs with
  | nil => simp [toSet]
  | cons x xs ih =>
    simp only [toSet]
    split
    · rename_i h
      simp only [ih, List.mem_cons]
      constructor
      · intro h'; exact Or.inr h'
      · rintro (rfl | h')
        · exact ih.1 h
        · exact h'
    · simp [ih]

theorem toSet_nodup (xs : List K) (h : xs.Nodup) : toSet xs = xs := by
  induction xs with
  | nil => rfl
  | cons x xs ih =>
    have hx := List.nodup_cons.1 h
    simp only [toSet, ih hx.2, hx.1, if_false]


/-! ### applying a list of updates with pairwise distinct keys -/
theorem applyUpdates_eq (d : Dict K V) (us : List (K × Option V)) (h : us.Pairwise (fun a c => a.1 ≠ c.1)) (k : K) :
    applyUpdates d us k = match lookup us k with | some v => v | none => d k := by
  induction us generalizing d with
  | nil => simp [applyUpdates, lookup_nil]
  | cons u us ih =>
    have hu := List.pairwise_cons.1 h
    have := ih (d.set u.1 u.2) hu.2
    simp only [applyUpdates, List.foldl_cons] at this ⊢
    rw [this, lookup_cons]
    by_cases hk : u.1 = k
    · have hl : lookup us k = none := (lookup_none_iff _ _).2 (fun e he hek => hu.1 e he (hk.trans hek.symm))
      simp [hk, hl, Dict.set]
    · have : ¬ k = u.1 := fun e => hk e.symm
      simp only [hk, if_false, Dict.set, this]

/-! ### `update` (repaired shape) -/

/-- iterate the stored items only; a key known from the context only is inserted -/
def shOK : UpdateShape := ⟨.items, true⟩

theorem dict_eq (chain : K → Option V) (b : BM K V) (k : K) :
    dict chain b k = if k ∈ b.removed then none else match lookup b.items k with | some x => x | none => chain k := by
  simp only [dict, layered, overlay_eq]
  by_cases h : k ∈ b.removed
  · simp [h]
  · simp only [h, if_false]
    cases lookup b.items k <;> rfl

theorem any_key_iff (xs : List (K × Option V)) (k : K) : xs.any (fun e => e.1 == k) = true ↔ ∃ e ∈ xs, e.1 = k := by
  simp [List.any_eq_true]

theorem keys_ne_of_sorted {lt : K → K → Bool} (hs : StrictTotal lt) {xs : List (K × Option V)}
    (h : xs.Pairwise (fun a b => lt a.1 b.1 = true)) : xs.Pairwise (fun a b => a.1 ≠ b.1) := by
  refine h.imp ?_
  intro a b hab e
  rw [e, hs.irrefl] at hab
  cases hab

variable {lt : K → K → Bool}

/-- insert a key that is not among the stored items -/
theorem inv_insert (hs : StrictTotal lt) {b : BM K V} (hI : Inv lt b) (k : K) (nv : V) (hk : ∀ e ∈ b.items, e.1 ≠ k)
    (rem' : List K) (hr1 : rem'.Nodup) (hr2 : ∀ r ∈ rem', r ∈ b.removed ∧ r ≠ k) :
    Inv lt (⟨sortByKey lt (b.items ++ [(k, some nv)]), rem', b.ptr⟩ : BM K V) := by
  rw [sortByKey_snoc hs _ _ hI.sorted]
  refine ⟨insertByKey_pairwise hs _ _ hI.sorted hk, ?_, ?_, hr1⟩
  · intro e he
    rcases (mem_insertByKey _ _ _).1 he with rfl | he
    · simp
    · exact hI.noNone e he
  · intro r hr e he
    rcases (mem_insertByKey _ _ _).1 he with rfl | he
    · exact fun e' => (hr2 r hr).2 e'.symm
    · exact hI.disjoint r (hr2 r hr).1 e he

theorem dict_insert (hs : StrictTotal lt) {b : BM K V} (hI : Inv lt b) (chain : K → Option V) (k : K) (nv : V)
    (hk : ∀ e ∈ b.items, e.1 ≠ k) (rem' : List K) (hr : ∀ r, r ∈ rem' ↔ r ∈ b.removed ∧ r ≠ k) :
    dict chain (⟨sortByKey lt (b.items ++ [(k, some nv)]), rem', b.ptr⟩ : BM K V) = (dict chain b).set k (some nv) := by
  funext k'
  rw [sortByKey_snoc hs _ _ hI.sorted]
  simp only [dict_eq, Dict.set, lookup_insertByKey k (some nv) b.items hk, hr]
  by_cases h : k' = k
  · simp [h]
  · simp [h]

theorem updateSh_ok (hs : StrictTotal lt) {b : BM K V} (hI : Inv lt b) (chain : K → Option V) (k : K) (v : Option V) :
    (updateSh shOK lt chain b k v).1 = dict chain b k ∧
    Inv lt (updateSh shOK lt chain b k v).2 ∧
    dict chain (updateSh shOK lt chain b k v).2 = (dict chain b).set k v := by
  refine ⟨get_eq_dict hI chain k, ?_⟩
  have hget := get_eq_dict hI chain k
  have hd := dict_eq chain b k
  simp only [updateSh, updateWith, shOK, updIter, toSet_nodup _ hI.nodup, if_true]
  rw [hget]
  cases hp : dict chain b k with
  | none =>
    rw [hp] at hd
    -- the key is not among the stored items
    have hk : ∀ e ∈ b.items, e.1 ≠ k := by
      by_cases hr : k ∈ b.removed
      · exact hI.disjoint k hr
      · simp only [hr, if_false] at hd
        cases hl : lookup b.items k with
        | none => exact (lookup_none_iff _ _).1 hl
        | some x =>
          rw [hl] at hd
          have := hI.noNone _ (lookup_some_mem _ _ _ hl)
          exact absurd hd.symm this
    cases v with
    | none =>
      refine ⟨⟨hI.sorted, hI.noNone, hI.disjoint, hI.nodup⟩, ?_⟩
      funext k'
      simp only [Dict.set]
      by_cases h : k' = k
      · simp only [h, if_true]; exact hp
      · simp only [h, if_false]
    | some nv =>
      by_cases hr : k ∈ b.removed
      · simp only [hr, if_true]
        refine ⟨inv_insert hs hI k nv hk _ (hI.nodup.filter _) ?_, dict_insert hs hI chain k nv hk _ ?_⟩
        · intro r hr'; simpa [setRemove] using hr'
        · intro r; simp [setRemove]
      · simp only [hr, if_false]
        refine ⟨inv_insert hs hI k nv hk _ hI.nodup ?_, dict_insert hs hI chain k nv hk _ ?_⟩
        · intro r hr'; exact ⟨hr', fun e => hr (e ▸ hr')⟩
        · intro r; exact ⟨fun hr' => ⟨hr', fun e => hr (e ▸ hr')⟩, fun h => h.1⟩
  | some p =>
    rw [hp] at hd
    have hnr : k ∉ b.removed := by
      intro hr; simp [hr] at hd
    cases v with
    | none =>
      simp only []
      refine ⟨⟨hI.sorted.filter _, fun e he => hI.noNone e (List.mem_filter.1 he).1, ?_, ?_⟩, ?_⟩
      · intro r hr e he
        have he' := List.mem_filter.1 he
        simp only [setAdd, hnr, if_false, List.mem_append, List.mem_singleton] at hr
        rcases hr with hr | rfl
        · exact hI.disjoint r hr e he'.1
        · simpa using he'.2
      · simp only [setAdd, hnr, if_false]
        refine List.nodup_append.2 ⟨hI.nodup, by simp, ?_⟩
        intro a ha c hc
        simp only [List.mem_singleton] at hc
        subst hc
        exact fun e => hnr (e ▸ ha)
      · funext k'
        simp only [dict_eq, Dict.set, lookup_filter_ne, setAdd, hnr, if_false, List.mem_append, List.mem_singleton]
        by_cases h : k' = k
        · simp [h]
        · simp [h]
    | some nv =>
      by_cases ha : b.items.any (fun e => e.1 == k) = true
      · simp only [ha, if_true]
        refine ⟨⟨?_, ?_, ?_, hI.nodup⟩, ?_⟩
        · exact (List.pairwise_map).2 hI.sorted
        · intro e he
          obtain ⟨e0, he0, rfl⟩ := List.mem_map.1 he
          by_cases h : e0.1 = k
          · simp [h]
          · simp only [ne_eq, bne_iff_ne, h, not_false_eq_true, if_true]; exact hI.noNone e0 he0
        · intro r hr e he
          obtain ⟨e0, he0, rfl⟩ := List.mem_map.1 he
          exact hI.disjoint r hr e0 he0
        · funext k'
          have := lookup_map_val (fun k0 v0 => if k0 != k then v0 else some nv) b.items k'
          simp only [dict_eq, Dict.set, this]
          by_cases h : k' = k
          · subst h
            obtain ⟨e, he, hek⟩ := (any_key_iff _ _).1 ha
            have hl : lookup b.items k' ≠ none := fun hl => (lookup_none_iff _ _).1 hl e he hek
            cases hl' : lookup b.items k' with
            | none => exact absurd hl' hl
            | some x => simp [hnr]
          · simp only [h, if_false, bne_iff_ne, ne_eq, not_false_eq_true, if_true]
            cases lookup b.items k' <;> rfl
      · have hk : ∀ e ∈ b.items, e.1 ≠ k := by
          intro e he hek
          exact ha ((any_key_iff _ _).2 ⟨e, he, hek⟩)
        simp only [ha]
        refine ⟨inv_insert hs hI k nv hk _ hI.nodup ?_, dict_insert hs hI chain k nv hk _ ?_⟩
        · intro r hr'; exact ⟨hr', fun e => hnr (e ▸ hr')⟩
        · intro r; exact ⟨fun hr' => ⟨hr', fun e => hnr (e ▸ hr')⟩, fun h => h.1⟩

/-! ### the id of a map never changes during a history -/
theorem updateWith_ptr (sh : UpdateShape) (b : BM K V) (k : K) (v prev : Option V) :
    (updateWith sh lt b k v prev).ptr = b.ptr := by
  unfold updateWith
  cases prev <;> cases v <;> rfl

theorem stepSh_ptr (sh : UpdateShape) (chain : K → Option V) (b : BM K V) (op : Op K V) :
    (stepSh sh lt chain b op).2.ptr = b.ptr := by
  cases op <;> simp only [stepSh, updateSh, updateWith_ptr]

theorem runSh_ptr (sh : UpdateShape) (chain : K → Option V) (ops : List (Op K V)) (b : BM K V) :
    (runSh sh lt chain b ops).2.ptr = b.ptr := by
  induction ops generalizing b with
  | nil => rfl
  | cons op ops ih => simp only [runSh, ih, stepSh_ptr]

theorem run_ptr (chain : K → Option V) (ops : List (Op K V)) (b : BM K V) (r : List (Obs V) × BM K V)
    (h : Impl.BigMap.run lt chain b ops = some r) : r.2.ptr = b.ptr := by
  unfold Impl.BigMap.run at h
  cases hc : config with
  | none => rw [hc] at h; cases h
  | some sh =>
    rw [hc] at h
    simp only [Option.map_some, Option.some.injEq] at h
    rw [← h]; exact runSh_ptr sh chain ops b

/-! ### literals accepted by `check_constraints` -/
theorem toSet_length_le (xs : List K) : (toSet xs).length ≤ xs.length := by
  induction xs with
  | nil => simp [toSet]
  | cons x xs ih =>
    simp only [toSet]
    split <;> simp <;> omega

theorem nodup_of_toSet_length (xs : List K) (h : (toSet xs).length = xs.length) : xs.Nodup := by
  induction xs with
  | nil => exact List.nodup_nil
  | cons x xs ih =>
    simp only [toSet] at h
    have hle := toSet_length_le xs
    by_cases hx : x ∈ toSet xs
    · simp only [hx, if_true, List.length_cons] at h; omega
    · simp only [hx, if_false, List.length_cons] at h
      exact List.nodup_cons.2 ⟨fun hm => hx ((toSet_mem xs x).2 hm), ih (by omega)⟩

/-- non-decreasing by key -/
def NonDecr {α : Type} (lt : K → K → Bool) (l : List (K × α)) : Prop := l.Pairwise (fun a b => lt b.1 a.1 = false)

theorem insertByKey_nonDecr {α : Type} (hs : StrictTotal lt) (x : K × α) (acc : List (K × α)) (h : NonDecr lt acc) :
    NonDecr lt (insertByKey lt x acc) := by
  induction acc with
  | nil => simp [insertByKey, NonDecr]
  | cons y ys ih =>
    have hy := List.pairwise_cons.1 h
    simp only [insertByKey]
    split
    · rename_i hxy
      refine List.pairwise_cons.2 ⟨?_, h⟩
      intro z hz
      rcases List.mem_cons.1 hz with rfl | hz
      · cases hzx : lt z.1 x.1
        · rfl
        · have := hs.trans _ _ _ hxy hzx
          rw [hs.irrefl] at this; cases this
      · cases hzx : lt z.1 x.1
        · rfl
        · have h1 := hs.trans _ _ _ hzx hxy
          rw [hy.1 z hz] at h1; cases h1
    · rename_i hxy
      refine List.pairwise_cons.2 ⟨?_, ih hy.2⟩
      intro z hz
      rcases (mem_insertByKey x z ys).1 hz with rfl | hz
      · simpa using hxy
      · exact hy.1 z hz

theorem sortByKey_nonDecr {α : Type} (hs : StrictTotal lt) (xs : List (K × α)) : NonDecr lt (sortByKey lt xs) := by
  have : ∀ acc : List (K × α), NonDecr lt acc → NonDecr lt (xs.foldl (fun acc x => insertByKey lt x acc) acc) := by
    induction xs with
    | nil => intro acc h; exact h
    | cons x xs ih => intro acc h; exact ih _ (insertByKey_nonDecr hs x acc h)
  exact this [] List.Pairwise.nil

/-- a literal accepted by `check_constraints` gives a big map satisfying the invariant -/
theorem fromLiteral_inv (hs : StrictTotal lt) (items : List (K × V)) (b : BM K V) (h : fromLiteral lt items = some b) :
    Inv lt b := by
  simp only [fromLiteral] at h
  by_cases hc : checkConstraints lt items = true
  · simp only [hc, if_true, Option.some.injEq] at h
    subst h
    simp only [checkConstraints, Bool.and_eq_true, beq_iff_eq] at hc
    obtain ⟨h1, h2⟩ := hc
    have hnd := nodup_of_toSet_length _ h1
    have hs' := sortByKey_nonDecr hs ((items.map (·.1)).map fun k => (k, ()))
    have hk : (items.map (·.1)).Pairwise (fun a b => lt b a = false) := by
      rw [h2]
      exact (List.pairwise_map).2 hs'
    have hstrict : (items.map (·.1)).Pairwise (fun a b => lt a b = true) := by
      refine (hk.and hnd).imp ?_
      intro a c ⟨hca, hne⟩
      rcases hs.total a c hne with h | h
      · exact h
      · rw [hca] at h; cases h
    refine ⟨?_, ?_, by simp, List.nodup_nil⟩
    · have := (List.pairwise_map).1 hstrict
      exact (List.pairwise_map).2 this
    · intro e he
      obtain ⟨x, _, rfl⟩ := List.mem_map.1 he
      simp
  · simp [hc] at h

end Proofs.C15
