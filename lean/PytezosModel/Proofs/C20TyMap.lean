import PytezosModel.Proofs.C20TySimple
/-! C20 — type preservation: GET / GET_AND_UPDATE / UPDATE, and the dispatcher over `simple` -/
namespace Impl.Tickets

def mapTy (big : Bool) (k v : Ty) : Ty := if big then .bigMap k v else .map k v

theorem mapGet_keyty {c : Cfg} {big : Bool} {kt vt : Ty} {keys : List Atom} {vals : List Val} {removed : List Atom}
    {key : Val} {dup : Bool} {r : Option Val} (h : mapGet c big kt vt keys vals removed key dup = .ok r) :
    ∃ k, key = .atom k ∧ k.ty = kt := by
  unfold mapGet at h
  split at h
  · cases h
  · rename_i hk
    split at h
    · cases h
    · match key, h, hk with
      | .atom k, _, hk => exact ⟨k, rfl, by simpa [Val.typeOf] using hk⟩

theorem mapUpdate_wt {c : Cfg} {big : Bool} {kt vt : Ty} {keys : List Atom} {vals : List Val} {removed : List Atom}
    {key : Val} {ov prev : Option Val} {dst : Val}
    (h : mapUpdate c big kt vt keys vals removed key ov = .ok (prev, dst)) (wf : MapWT kt vt keys vals)
    (hov : ∀ x, ov = some x → x.typeOf = vt ∧ x.wt = true) :
    dst.wt = true ∧ dst.typeOf = mapTy big kt vt ∧ (∀ p, prev = some p → p.typeOf = vt ∧ p.wt = true) := by
  unfold mapUpdate at h
  cases hg : mapGet c big kt vt keys vals removed key false with
  | error e => simp [hg, bind, Except.bind] at h
  | ok pv =>
    simp only [hg, bind, Except.bind] at h
    obtain ⟨k0, hk0, hkty⟩ := mapGet_keyty hg
    cases pv with
    | some p =>
      obtain ⟨k, rfl, hl⟩ := mapGet_some hg
      have hpm := lookup_mem hl
      simp only at h
      cases ov with
      | some x =>
        simp only [pure, Except.pure, Except.ok.injEq, Prod.mk.injEq] at h
        obtain ⟨rfl, rfl⟩ := h
        obtain ⟨_, r2, r3⟩ := replaceVal_spec ("", .atom .unit) k x keys vals p wf.len wf.nodup hl
        refine ⟨mapWT_iff.mpr ⟨by rw [r2]; exact wf.len, wf.nodup, wf.ktys, fun v hv => ?_⟩, by simp [Val.typeOf, mapTy], fun q hq => ?_⟩
        · rcases r3 v hv with rfl | h
          · exact hov _ rfl
          · exact wf.vtys v h
        · simp only [Option.some.injEq] at hq; subst hq; exact wf.vtys _ hpm
      | none =>
        simp only [pure, Except.pure, Except.ok.injEq, Prod.mk.injEq] at h
        obtain ⟨rfl, rfl⟩ := h
        obtain ⟨r1, r2, r3, r4, _, _⟩ := removeKey_spec ("", .atom .unit) k keys vals wf.len wf.nodup
        refine ⟨mapWT_iff.mpr ⟨r1, r2, fun a ha => wf.ktys a (r3 a ha), fun v hv => wf.vtys v (r4 v hv)⟩, by simp [Val.typeOf, mapTy], fun q hq => ?_⟩
        simp only [Option.some.injEq] at hq; subst hq; exact wf.vtys _ hpm
    | none =>
      obtain ⟨k, rfl, hl⟩ := mapGet_none hg
      simp only [Val.atom.injEq] at hk0; subst hk0
      simp only at h
      cases ov with
      | some x =>
        simp only [pure, Except.pure, Except.ok.injEq, Prod.mk.injEq] at h
        obtain ⟨rfl, rfl⟩ := h
        have hnm := lookup_none_not_mem wf.len hl
        obtain ⟨r1, r2, r3, _, r5⟩ := insertSorted_spec ("", .atom .unit) k x keys vals wf.len wf.nodup hnm
        refine ⟨mapWT_iff.mpr ⟨r1, r2, fun a ha => ?_, fun v hv => ?_⟩, by simp [Val.typeOf, mapTy], fun q hq => by cases hq⟩
        · rcases r5 a ha with rfl | h
          · exact hkty
          · exact wf.ktys a h
        · rcases r3 v hv with rfl | h
          · exact hov _ rfl
          · exact wf.vtys v h
      | none =>
        simp only [pure, Except.pure, Except.ok.injEq, Prod.mk.injEq] at h
        obtain ⟨rfl, rfl⟩ := h
        exact ⟨mapWT_iff.mpr wf, by simp [Val.typeOf, mapTy], fun q hq => by cases hq⟩

theorem optVal_ty (vt : Ty) (prev : Option Val) (hp : ∀ p, prev = some p → p.typeOf = vt ∧ p.wt = true) :
    (optVal vt prev).wt = true ∧ (optVal vt prev).typeOf = .option vt := by
  cases prev with
  | none => exact ⟨rfl, rfl⟩
  | some p => obtain ⟨h1, h2⟩ := hp p rfl; simp [optVal, Val.wt, Val.typeOf, h1, h2]

/-- GET on a (big_)map -/
theorem ty_get_core {c : Cfg} (big : Bool) {pre act : List Val} {s s' : State} {k v : Ty} {Δ : List Ty}
    (hs : Shape pre act s) (hty : STy act (k :: mapTy big k v :: Δ)) (h : simple c s .get = some (.ok s')) :
    ∃ act', Shape pre act' s' ∧ STy act' (.option v :: Δ) := by
  obtain ⟨ky, r1, rfl, hx1, hx2, h1⟩ := hty.cons_inv
  obtain ⟨m, r2, rfl, hy1, hy2, h2⟩ := h1.cons_inv
  obtain ⟨keys, vals, rm, rfl, wf⟩ := inv_map big hy1 hy2
  obtain ⟨hp, hs1⟩ := hs.pop2
  simp only [simple, hp, bind, Except.bind, Option.some.injEq] at h
  cases hg : mapGet c big k v keys vals rm ky true with
  | error e => simp [hg] at h
  | ok r =>
    simp only [hg, pure, Except.pure, Except.ok.injEq] at h
    subst h
    have : ∀ p, r = some p → p.typeOf = v ∧ p.wt = true := by
      intro p hp; subst hp
      obtain ⟨k0, _, hl⟩ := mapGet_some hg
      exact wf.vtys p (lookup_mem hl)
    obtain ⟨o1, o2⟩ := optVal_ty v r this
    exact ⟨_, hs1.push _, STy.cons o1 o2 h2⟩

theorem ty_get {c : Cfg} {pre act : List Val} {s s' : State} {Γ Γ' : List Ty}
    (ht : tySimple c .get Γ = some Γ') (hs : Shape pre act s) (hty : STy act Γ) (h : simple c s .get = some (.ok s')) :
    ∃ act', Shape pre act' s' ∧ STy act' Γ' := by
  simp only [tySimple] at ht
  split at ht
  · split at ht
    · rename_i hk
      have hk' := by simpa using hk
      subst hk'
      simp only [Option.some.injEq] at ht; subst ht
      exact ty_get_core false hs hty h
    · cases ht
  · split at ht
    · rename_i hk
      have hk' := by simpa using hk
      subst hk'
      simp only [Option.some.injEq] at ht; subst ht
      exact ty_get_core true hs hty h
    · cases ht
  · cases ht

/-- the common part of UPDATE and GET_AND_UPDATE -/
theorem ty_update_core {c : Cfg} (big : Bool) {pre act : List Val} {s : State} {k v : Ty} {Δ : List Ty}
    (hs : Shape pre act s) (hty : STy act (k :: .option v :: mapTy big k v :: Δ)) :
    ∃ ky vl keys vals rm rest ov s1, act = ky :: vl :: .map big k v keys vals rm :: rest
      ∧ s.pop3 = .ok (ky, vl, .map big k v keys vals rm, s1) ∧ Shape pre rest s1 ∧ STy rest Δ
      ∧ optOf vl = some ov ∧ storeOk v ov = true
      ∧ ∀ prev dst, mapUpdate c big k v keys vals rm ky ov = .ok (prev, dst) →
          dst.wt = true ∧ dst.typeOf = mapTy big k v ∧ (optVal v prev).wt = true ∧ (optVal v prev).typeOf = .option v := by
  obtain ⟨ky, r1, rfl, hx1, hx2, h1⟩ := hty.cons_inv
  obtain ⟨vl, r2, rfl, hy1, hy2, h2⟩ := h1.cons_inv
  obtain ⟨m, r3, rfl, hz1, hz2, h3⟩ := h2.cons_inv
  obtain ⟨keys, vals, rm, rfl, wf⟩ := inv_map big hz1 hz2
  obtain ⟨hp, hs1⟩ := hs.pop3
  have core : ∀ ov, (∀ x, ov = some x → x.typeOf = v ∧ x.wt = true) → ∀ prev dst,
      mapUpdate c big k v keys vals rm ky ov = .ok (prev, dst) →
      dst.wt = true ∧ dst.typeOf = mapTy big k v ∧ (optVal v prev).wt = true ∧ (optVal v prev).typeOf = .option v := by
    intro ov hov prev dst hu
    obtain ⟨d1, d2, d3⟩ := mapUpdate_wt hu wf hov
    obtain ⟨o1, o2⟩ := optVal_ty v prev d3
    exact ⟨d1, d2, o1, o2⟩
  rcases inv_option hy1 hy2 with rfl | ⟨x, rfl, hxw, hxt⟩
  · exact ⟨_, _, _, _, _, _, none, _, rfl, hp, hs1, h3, rfl, rfl, core none (fun x hx => by cases hx)⟩
  · refine ⟨_, _, _, _, _, _, some x, _, rfl, hp, hs1, h3, rfl, by simp [storeOk, hxt], core (some x) (fun y hy => ?_)⟩
    simp only [Option.some.injEq] at hy; subst hy; exact ⟨hxt, hxw⟩

theorem ty_getAndUpdate_core {c : Cfg} (big : Bool) {pre act : List Val} {s s' : State} {k v : Ty} {Δ : List Ty}
    (hs : Shape pre act s) (hty : STy act (k :: .option v :: mapTy big k v :: Δ)) (h : simple c s .getAndUpdate = some (.ok s')) :
    ∃ act', Shape pre act' s' ∧ STy act' (.option v :: mapTy big k v :: Δ) := by
  obtain ⟨ky, vl, keys, vals, rm, rest, ov, s1, rfl, hp, hs1, h3, hov, hst, core⟩ := ty_update_core (c := c) big hs hty
  simp only [simple, hp, bind, Except.bind, Option.some.injEq, hov] at h
  cases hu : mapUpdate c big k v keys vals rm ky ov with
  | error e => simp [hu] at h
  | ok pd =>
    obtain ⟨prev, dst⟩ := pd
    simp only [hu, pure, Except.pure, Except.ok.injEq, hst] at h
    subst h
    obtain ⟨d1, d2, o1, o2⟩ := core prev dst hu
    exact ⟨_, (hs1.withTyped.push _).push _, STy.cons o1 o2 (STy.cons d1 d2 h3)⟩

theorem ty_update_core' {c : Cfg} (big : Bool) {pre act : List Val} {s s' : State} {k v : Ty} {Δ : List Ty}
    (hs : Shape pre act s) (hty : STy act (k :: .option v :: mapTy big k v :: Δ)) (h : simple c s .update = some (.ok s')) :
    ∃ act', Shape pre act' s' ∧ STy act' (mapTy big k v :: Δ) := by
  obtain ⟨ky, vl, keys, vals, rm, rest, ov, s1, rfl, hp, hs1, h3, hov, hst, core⟩ := ty_update_core (c := c) big hs hty
  simp only [simple, hp, bind, Except.bind, Option.some.injEq, hov] at h
  cases hu : mapUpdate c big k v keys vals rm ky ov with
  | error e => simp [hu] at h
  | ok pd =>
    obtain ⟨prev, dst⟩ := pd
    simp only [hu, pure, Except.pure, Except.ok.injEq, hst] at h
    subst h
    obtain ⟨d1, d2, _, _⟩ := core prev dst hu
    exact ⟨_, hs1.withTyped.push _, STy.cons d1 d2 h3⟩

theorem ty_getAndUpdate {c : Cfg} {pre act : List Val} {s s' : State} {Γ Γ' : List Ty}
    (ht : tySimple c .getAndUpdate Γ = some Γ') (hs : Shape pre act s) (hty : STy act Γ)
    (h : simple c s .getAndUpdate = some (.ok s')) : ∃ act', Shape pre act' s' ∧ STy act' Γ' := by
  simp only [tySimple] at ht
  split at ht
  · split at ht
    · rename_i hk
      simp only [Bool.and_eq_true, beq_iff_eq] at hk
      obtain ⟨rfl, rfl⟩ := hk
      simp only [Option.some.injEq] at ht; subst ht
      exact ty_getAndUpdate_core false hs hty h
    · cases ht
  · split at ht
    · rename_i hk
      simp only [Bool.and_eq_true, beq_iff_eq] at hk
      obtain ⟨rfl, rfl⟩ := hk
      simp only [Option.some.injEq] at ht; subst ht
      exact ty_getAndUpdate_core true hs hty h
    · cases ht
  · cases ht

theorem ty_update_set {c : Cfg} {pre act : List Val} {s s' : State} {t : Ty} {Δ : List Ty}
    (hs : Shape pre act s) (hty : STy act (t :: .bool :: .set t :: Δ)) (h : simple c s .update = some (.ok s')) :
    ∃ act', Shape pre act' s' ∧ STy act' (.set t :: Δ) := by
  obtain ⟨ky, r1, rfl, hx1, hx2, h1⟩ := hty.cons_inv
  obtain ⟨vl, r2, rfl, hy1, hy2, h2⟩ := h1.cons_inv
  obtain ⟨st, r3, rfl, hz1, hz2, h3⟩ := h2.cons_inv
  obtain ⟨b, rfl⟩ := inv_bool hy1 hy2
  obtain ⟨xs, rfl, hnd, hxs⟩ := inv_set hz1 hz2
  obtain ⟨hp, hs1⟩ := hs.pop3
  simp only [simple, hp, bind, Except.bind, Option.some.injEq] at h
  split at h
  · cases h
  · match ky, hx2, h with
    | .atom k, hx2, h =>
      simp only [pure, Except.pure, Except.ok.injEq] at h
      subst h
      have hk : k.ty = t := hx2
      refine ⟨_, hs1.push _, STy.cons ?_ rfl h3⟩
      simp only [Val.wt, Bool.and_eq_true, nodupB_iff, List.all_eq_true, beq_iff_eq]
      cases b
      · exact ⟨hnd.sublist List.filter_sublist, fun a ha => hxs a (List.mem_filter.mp ha).1⟩
      · refine ⟨setAdd_nodup hnd, fun a ha => ?_⟩
        rcases setAdd_mem ha with rfl | ha
        · exact hk
        · exact hxs a ha

theorem ty_update {c : Cfg} {pre act : List Val} {s s' : State} {Γ Γ' : List Ty}
    (ht : tySimple c .update Γ = some Γ') (hs : Shape pre act s) (hty : STy act Γ)
    (h : simple c s .update = some (.ok s')) : ∃ act', Shape pre act' s' ∧ STy act' Γ' := by
  simp only [tySimple] at ht
  split at ht
  · split at ht
    · rename_i hk
      simp only [Bool.and_eq_true, beq_iff_eq] at hk
      obtain ⟨rfl, rfl⟩ := hk
      simp only [Option.some.injEq] at ht; subst ht
      exact ty_update_core' false hs hty h
    · cases ht
  · split at ht
    · rename_i hk
      simp only [Bool.and_eq_true, beq_iff_eq] at hk
      obtain ⟨rfl, rfl⟩ := hk
      simp only [Option.some.injEq] at ht; subst ht
      exact ty_update_core' true hs hty h
    · cases ht
  · split at ht
    · rename_i hk
      have hk' := by simpa using hk
      subst hk'
      simp only [Option.some.injEq] at ht; subst ht
      exact ty_update_set hs hty h
    · cases ht
  · cases ht

theorem ty_mem_map {c : Cfg} (big : Bool) {pre act : List Val} {s s' : State} {k v : Ty} {Δ : List Ty}
    (hs : Shape pre act s) (hty : STy act (k :: mapTy big k v :: Δ)) (h : simple c s .mem = some (.ok s')) :
    ∃ act', Shape pre act' s' ∧ STy act' (.bool :: Δ) := by
  obtain ⟨ky, r1, rfl, hx1, hx2, h1⟩ := hty.cons_inv
  obtain ⟨m, r2, rfl, hy1, hy2, h2⟩ := h1.cons_inv
  obtain ⟨keys, vals, rm, rfl, wf⟩ := inv_map big hy1 hy2
  obtain ⟨hp, hs1⟩ := hs.pop2
  simp only [simple, hp, bind, Except.bind, Option.some.injEq] at h
  cases hg : mapGet c big k v keys vals rm ky false with
  | error e => simp [hg] at h
  | ok r =>
    simp only [hg, pure, Except.pure, Except.ok.injEq] at h
    subst h
    exact ⟨_, hs1.push _, STy.cons rfl rfl h2⟩

theorem ty_mem {c : Cfg} {pre act : List Val} {s s' : State} {Γ Γ' : List Ty}
    (ht : tySimple c .mem Γ = some Γ') (hs : Shape pre act s) (hty : STy act Γ)
    (h : simple c s .mem = some (.ok s')) : ∃ act', Shape pre act' s' ∧ STy act' Γ' := by
  simp only [tySimple] at ht
  split at ht
  · split at ht
    · rename_i hk
      have hk' := by simpa using hk
      subst hk'
      simp only [Option.some.injEq] at ht; subst ht
      obtain ⟨ky, r1, rfl, hx1, hx2, h1⟩ := hty.cons_inv
      obtain ⟨st, r2, rfl, hy1, hy2, h2⟩ := h1.cons_inv
      obtain ⟨xs, rfl, _, _⟩ := inv_set hy1 hy2
      obtain ⟨hp, hs1⟩ := hs.pop2
      simp only [simple, hp, bind, Except.bind, Option.some.injEq] at h
      split at h
      · cases h
      · match ky, h with
        | .atom k, h =>
          simp only [pure, Except.pure, Except.ok.injEq] at h
          subst h
          exact ⟨_, hs1.push _, STy.cons rfl rfl h2⟩
    · cases ht
  · split at ht
    · rename_i hk
      have hk' := by simpa using hk
      subst hk'
      simp only [Option.some.injEq] at ht; subst ht
      exact ty_mem_map false hs hty h
    · cases ht
  · split at ht
    · rename_i hk
      have hk' := by simpa using hk
      subst hk'
      simp only [Option.some.injEq] at ht; subst ht
      exact ty_mem_map true hs hty h
    · cases ht
  · cases ht

/-- every instruction handled by `simple` preserves typing -/
theorem simple_typed {c : Cfg} (ok2 : CfgOk2 c) {pre act : List Val} {s s' : State} {Γ Γ' : List Ty} (i : Instr)
    (ht : tySimple c i Γ = some Γ') (hs : Shape pre act s) (hty : STy act Γ) (h : simple c s i = some (.ok s')) :
    ∃ act', Shape pre act' s' ∧ STy act' Γ' := by
  cases i with
  | ticket => exact ty_ticket ht hs hty h
  | readTicket => exact ty_readTicket ht hs hty h
  | splitTicket => exact ty_splitTicket ok2 ht hs hty h
  | joinTickets => exact ty_joinTickets ok2 ht hs hty h
  | pair => exact ty_pair ht hs hty h
  | unpair => exact ty_unpair ht hs hty h
  | car => exact ty_car ht hs hty h
  | cdr => exact ty_cdr ht hs hty h
  | some => exact ty_some ht hs hty h
  | none t => exact ty_none ht hs hty h
  | nil t => exact ty_nil ht hs hty h
  | cons => exact ty_cons ht hs hty h
  | swap => exact ty_swap ht hs hty h
  | drop => exact ty_drop ht hs hty h
  | push t v => exact ty_push ht hs hty h
  | emptyMap k v => exact ty_emptyMap ht hs hty h
  | emptyBigMap k v => exact ty_emptyBigMap ht hs hty h
  | get => exact ty_get ht hs hty h
  | getAndUpdate => exact ty_getAndUpdate ht hs hty h
  | update => exact ty_update ht hs hty h
  | left t => exact ty_left ht hs hty h
  | right t => exact ty_right ht hs hty h
  | emptySet t => exact ty_emptySet ht hs hty h
  | mem => exact ty_mem ht hs hty h
  | lambda _ _ _ => simp [tySimple] at ht
  | apply => simp [tySimple] at ht
  | exec => simp [simple] at h
  | ifLeft _ _ => simp [simple] at h
  | failwith => simp [simple] at h
  | ifNone _ _ => simp [simple] at h
  | iter _ => simp [simple] at h
  | map _ => simp [simple] at h
  | dup => simp [simple] at h
  | dupN _ => simp [simple] at h
  | dig _ => simp [simple] at h
  | dug _ => simp [simple] at h
  | dip _ => simp [simple] at h
  | dipN _ _ => simp [simple] at h
  | seq _ => simp [simple] at h

end Impl.Tickets
