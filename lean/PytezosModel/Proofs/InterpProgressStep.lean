import PytezosModel.Proofs.InterpGood
import PytezosModel.Proofs.InterpGoodColl
set_option linter.unusedSectionVars false   -- `[Mode]` is a section variable of every lemma here; some do not use it
/-! Progress for the rules without sub-programs: on a well-typed stack (`StackWF`, `GoodStack`) on which the typing rule
of the instruction applies, the reference rule is not stuck, and its result stack satisfies `GoodStack` again
(`Res.Safe GoodStack`).  One lemma `safe_<I>` per instruction form, collected in `step_safe`. -/
-- every `safe_<I>` takes the same hypotheses (`StackWF`, `GoodStack`), whether or not its rule needs both
set_option linter.unusedSectionVars false

namespace Interp
variable [Mode]
open Typing

/-- expose the top of the stack and its type; discard the types on which the typing rule does not apply -/
syntax "prog_top1" : tactic
set_option hygiene false in
macro_rules
  | `(tactic| prog_top1) => `(tactic| (
      rcases st with _ | ⟨a, st⟩
      · simp [Typing.step, Typing.stepMore] at hty
      rw [stackWF_cons] at hw
      rw [goodStack_cons] at hg
      obtain ⟨hwa, hw⟩ := hw
      obtain ⟨hga, hg⟩ := hg
      simp only [List.map_cons] at hty
      generalize hta : typeOf a = ta at hty
      cases ta <;> first | (simp [Typing.step, Typing.stepMore] at hty; done) | skip))

/-- the canonical form of the value `a` of type `ta` (`hwa : WF a`, `hta : typeOf a = …`) -/
syntax "canon_top" : tactic
set_option hygiene false in
macro_rules
  | `(tactic| canon_top) => `(tactic| (
      first
        | (have hc := canon_pair hwa hta; obtain ⟨x, y, rfl, hx, hy⟩ := hc)
        | (have hc := canon_int hwa hta; obtain ⟨n, rfl⟩ := hc)
        | (have hc := canon_nat hwa hta; obtain ⟨n, rfl, hn⟩ := hc)
        | (have hc := canon_mutez hwa hta; obtain ⟨n, rfl, hn⟩ := hc)
        | (have hc := canon_timestamp hwa hta; obtain ⟨n, rfl⟩ := hc)
        | (have hc := canon_bool hwa hta; obtain ⟨b, rfl⟩ := hc)
        | (have hc := canon_string hwa hta; obtain ⟨s, rfl⟩ := hc)
        | (have hc := canon_bytes hwa hta; obtain ⟨s, rfl⟩ := hc)
        | (have hc := canon_list hwa hta; obtain ⟨xs, rfl, hxs⟩ := hc)
        | (have hc := canon_set hwa hta; obtain ⟨xs, rfl, hxs⟩ := hc)
        | (have hc := canon_map hwa hta; obtain ⟨xs, rfl, hxs⟩ := hc)
        | (have := canon_unit hwa hta; subst this)))

/-- unary rules on a value of a fixed shape: compute the rule -/
syntax "safe_val1" : tactic
set_option hygiene false in
macro_rules
  | `(tactic| safe_val1) => `(tactic| (
      prog_top1
      all_goals canon_top
      all_goals simp_all [Spec.step, Spec.stepMore, goodStack_cons]))

section
variable (env : Env) (st : List Val) (tr : TRes) (hw : StackWF st) (hg : GoodStack st)
include hw hg

theorem safe_UNPAIR (hty : Typing.step .UNPAIR (st.map typeOf) = some tr) : (Spec.step env .UNPAIR st).Safe GoodStack := by safe_val1
theorem safe_CAR (hty : Typing.step .CAR (st.map typeOf) = some tr) : (Spec.step env .CAR st).Safe GoodStack := by safe_val1
theorem safe_CDR (hty : Typing.step .CDR (st.map typeOf) = some tr) : (Spec.step env .CDR st).Safe GoodStack := by safe_val1
theorem safe_SIZE (hty : Typing.step .SIZE (st.map typeOf) = some tr) : (Spec.step env .SIZE st).Safe GoodStack := by safe_val1
theorem safe_NEG (hty : Typing.step .NEG (st.map typeOf) = some tr) : (Spec.step env .NEG st).Safe GoodStack := by safe_val1
theorem safe_ABS (hty : Typing.step .ABS (st.map typeOf) = some tr) : (Spec.step env .ABS st).Safe GoodStack := by safe_val1
theorem safe_ISNAT (hty : Typing.step .ISNAT (st.map typeOf) = some tr) : (Spec.step env .ISNAT st).Safe GoodStack := by
  prog_top1
  obtain ⟨n, rfl⟩ := canon_int hwa hta
  by_cases h : 0 ≤ n <;> simp [Spec.step, goodStack_cons, h, hg]
theorem safe_INT (hty : Typing.step .INT (st.map typeOf) = some tr) : (Spec.step env .INT st).Safe GoodStack := by safe_val1
theorem safe_EQ (hty : Typing.step .EQ (st.map typeOf) = some tr) : (Spec.step env .EQ st).Safe GoodStack := by safe_val1
theorem safe_NEQ (hty : Typing.step .NEQ (st.map typeOf) = some tr) : (Spec.step env .NEQ st).Safe GoodStack := by safe_val1
theorem safe_LT (hty : Typing.step .LT (st.map typeOf) = some tr) : (Spec.step env .LT st).Safe GoodStack := by safe_val1
theorem safe_GT (hty : Typing.step .GT (st.map typeOf) = some tr) : (Spec.step env .GT st).Safe GoodStack := by safe_val1
theorem safe_LE (hty : Typing.step .LE (st.map typeOf) = some tr) : (Spec.step env .LE st).Safe GoodStack := by safe_val1
theorem safe_GE (hty : Typing.step .GE (st.map typeOf) = some tr) : (Spec.step env .GE st).Safe GoodStack := by safe_val1
theorem safe_NOT (hty : Typing.step .NOT (st.map typeOf) = some tr) : (Spec.step env .NOT st).Safe GoodStack := by safe_val1
theorem safe_BLAKE2B (hty : Typing.step .BLAKE2B (st.map typeOf) = some tr) : (Spec.step env .BLAKE2B st).Safe GoodStack := by safe_val1
theorem safe_SHA256 (hty : Typing.step .SHA256 (st.map typeOf) = some tr) : (Spec.step env .SHA256 st).Safe GoodStack := by safe_val1
theorem safe_SHA512 (hty : Typing.step .SHA512 (st.map typeOf) = some tr) : (Spec.step env .SHA512 st).Safe GoodStack := by safe_val1
theorem safe_KECCAK (hty : Typing.step .KECCAK (st.map typeOf) = some tr) : (Spec.step env .KECCAK st).Safe GoodStack := by safe_val1
theorem safe_SHA3 (hty : Typing.step .SHA3 (st.map typeOf) = some tr) : (Spec.step env .SHA3 st).Safe GoodStack := by safe_val1


-- rules that only need a stack of the right depth ---------------------------------------------------------------
theorem safe_DROP (hty : Typing.step .DROP (st.map typeOf) = some tr) : (Spec.step env .DROP st).Safe GoodStack := by
  rcases st with _ | ⟨a, st⟩
  · simp [Typing.step, Typing.stepMore] at hty
  · rw [goodStack_cons] at hg; simp [Spec.step, hg.2]
theorem safe_DUP (hty : Typing.step .DUP (st.map typeOf) = some tr) : (Spec.step env .DUP st).Safe GoodStack := by
  rcases st with _ | ⟨a, st⟩
  · simp [Typing.step, Typing.stepMore] at hty
  · rw [goodStack_cons] at hg; simp [Spec.step, goodStack_cons, hg.1, hg.2]
theorem safe_SOME (hty : Typing.step .SOME (st.map typeOf) = some tr) : (Spec.step env .SOME st).Safe GoodStack := by
  rcases st with _ | ⟨a, st⟩
  · simp [Typing.step, Typing.stepMore] at hty
  · rw [goodStack_cons] at hg; simp [Spec.step, goodStack_cons, hg.1, hg.2]
theorem safe_LEFT (t : Ty) (hty : Typing.step (.LEFT t) (st.map typeOf) = some tr) : (Spec.step env (.LEFT t) st).Safe GoodStack := by
  rcases st with _ | ⟨a, st⟩
  · simp [Typing.step, Typing.stepMore] at hty
  · rw [goodStack_cons] at hg; simp [Spec.step, goodStack_cons, hg.1, hg.2]
theorem safe_RIGHT (t : Ty) (hty : Typing.step (.RIGHT t) (st.map typeOf) = some tr) : (Spec.step env (.RIGHT t) st).Safe GoodStack := by
  rcases st with _ | ⟨a, st⟩
  · simp [Typing.step, Typing.stepMore] at hty
  · rw [goodStack_cons] at hg; simp [Spec.step, goodStack_cons, hg.1, hg.2]
theorem safe_FAILWITH (hty : Typing.step .FAILWITH (st.map typeOf) = some tr) : (Spec.step env .FAILWITH st).Safe GoodStack := by
  rcases st with _ | ⟨a, st⟩
  · simp [Typing.step, Typing.stepMore] at hty
  · simp [Spec.step]
theorem safe_RENAME (hty : Typing.step .RENAME (st.map typeOf) = some tr) : (Spec.step env .RENAME st).Safe GoodStack := by
  rcases st with _ | ⟨a, st⟩
  · simp [Typing.step, Typing.stepMore] at hty
  · simp [Spec.step, Spec.stepMore, hg]
theorem safe_CAST (t : Ty) (hty : Typing.step (.CAST t) (st.map typeOf) = some tr) : (Spec.step env (.CAST t) st).Safe GoodStack := by
  rcases st with _ | ⟨a, st⟩
  · simp [Typing.step, Typing.stepMore] at hty
  · simp only [List.map_cons, Typing.step, Typing.stepMore] at hty
    split at hty
    · rename_i h; simp [Spec.step, Spec.stepMore, h, hg]
    · simp at hty
theorem safe_SWAP (hty : Typing.step .SWAP (st.map typeOf) = some tr) : (Spec.step env .SWAP st).Safe GoodStack := by
  rcases st with _ | ⟨a, _ | ⟨b, st⟩⟩
  · simp [Typing.step, Typing.stepMore] at hty
  · simp [Typing.step, Typing.stepMore] at hty
  · rw [goodStack_cons, goodStack_cons] at hg; simp [Spec.step, goodStack_cons, hg.1, hg.2.1, hg.2.2]
theorem safe_PAIR (hty : Typing.step .PAIR (st.map typeOf) = some tr) : (Spec.step env .PAIR st).Safe GoodStack := by
  rcases st with _ | ⟨a, _ | ⟨b, st⟩⟩
  · simp [Typing.step, Typing.stepMore] at hty
  · simp [Typing.step, Typing.stepMore] at hty
  · rw [goodStack_cons, goodStack_cons] at hg; simp [Spec.step, goodStack_cons, hg.1, hg.2.1, hg.2.2]

theorem safe_DROPN (n : Nat) (hty : Typing.step (.DROPN n) (st.map typeOf) = some tr) : (Spec.step env (.DROPN n) st).Safe GoodStack := by
  simp only [Typing.step, List.length_map] at hty
  split at hty
  · rename_i h; simp [Spec.step, h, goodStack_drop hg n]
  · simp at hty
theorem safe_DUPN (n : Nat) (hty : Typing.step (.DUPN n) (st.map typeOf) = some tr) : (Spec.step env (.DUPN n) st).Safe GoodStack := by
  simp only [Typing.step] at hty
  split at hty
  · simp at hty
  · rename_i hn
    cases hx : st[n - 1]? with
    | none => simp [List.getElem?_map, hx] at hty
    | some x => simp [Spec.step, hn, hx, goodStack_cons, goodStack_get hg _ x hx, hg]
theorem safe_DIG (n : Nat) (hty : Typing.step (.DIG n) (st.map typeOf) = some tr) : (Spec.step env (.DIG n) st).Safe GoodStack := by
  simp only [Typing.step] at hty
  cases hx : st[n]? with
  | none => simp [List.getElem?_map, hx] at hty
  | some x =>
    simp only [Spec.step, hx, safe_ok, goodStack_cons, goodStack_append]
    exact ⟨goodStack_get hg _ x hx, goodStack_take hg n, goodStack_drop hg (n + 1)⟩
theorem safe_DUG (n : Nat) (hty : Typing.step (.DUG n) (st.map typeOf) = some tr) : (Spec.step env (.DUG n) st).Safe GoodStack := by
  rcases st with _ | ⟨a, st⟩
  · simp [Typing.step, Typing.stepMore] at hty
  · rw [goodStack_cons] at hg
    simp only [List.map_cons, Typing.step, List.length_map] at hty
    split at hty
    · rename_i h
      simp only [Spec.step, h, if_true, safe_ok, goodStack_cons, goodStack_append]
      exact ⟨goodStack_take hg.2 n, hg.1, goodStack_drop hg.2 n⟩
    · simp at hty

-- constants and environment readers -------------------------------------------------------------------------------
theorem safe_UNIT : (Spec.step env .UNIT st).Safe GoodStack := by simp [Spec.step, goodStack_cons, hg]
theorem safe_NONE (t : Ty) : (Spec.step env (.NONE t) st).Safe GoodStack := by simp [Spec.step, goodStack_cons, hg]
theorem safe_NIL (t : Ty) : (Spec.step env (.NIL t) st).Safe GoodStack := by simp [Spec.step, goodStack_cons, hg, goodStack_nil]
theorem safe_EMPTY_MAP (k v : Ty) : (Spec.step env (.EMPTY_MAP k v) st).Safe GoodStack := by
  simp [Spec.step, goodStack_cons, hg, litOk_map, goodStack_nil, goodMap, strictSorted]
theorem safe_EMPTY_SET (t : Ty) (hty : Typing.step (.EMPTY_SET t) (st.map typeOf) = some tr) :
    (Spec.step env (.EMPTY_SET t) st).Safe GoodStack := by
  simp only [Typing.step] at hty
  split at hty
  · rename_i h; simp [Spec.step, h, goodStack_cons, hg, litOk_set, goodStack_nil, goodSet, strictSorted]
  · simp at hty
theorem safe_SENDER : (Spec.step env .SENDER st).Safe GoodStack := by simp [Spec.step, goodStack_cons, hg]
theorem safe_SOURCE : (Spec.step env .SOURCE st).Safe GoodStack := by simp [Spec.step, goodStack_cons, hg]
theorem safe_SELF_ADDRESS : (Spec.step env .SELF_ADDRESS st).Safe GoodStack := by simp [Spec.step, goodStack_cons, hg]
theorem safe_NOW : (Spec.step env .NOW st).Safe GoodStack := by simp [Spec.step, goodStack_cons, hg]
theorem safe_CHAIN_ID : (Spec.step env .CHAIN_ID st).Safe GoodStack := by simp [Spec.step, goodStack_cons, hg]

end

/-- a number is a value of a numeric type or — out of range — the runtime failure; never stuck -/
theorem numOk_safe (t : Ty) (v : Int) (ht : t = .int ∨ t = .nat ∨ t = .mutez ∨ t = .timestamp) :
    (Spec.numOk t v).Safe (fun r => litOk r = true) := by
  rcases ht with rfl | rfl | rfl | rfl <;> simp only [Spec.numOk] <;> first | (simp; done) | (split <;> simp)

theorem safe_numEnv (env : Env) (st : List Val) (hg : GoodStack st) (i : Instr) (t : Ty) (x : Int)
    (ht : t = .int ∨ t = .nat ∨ t = .mutez ∨ t = .timestamp)
    (hs : ∀ s, Spec.step env i s = (Spec.numOk t x).bind fun r => .ok (r :: s)) : (Spec.step env i st).Safe GoodStack := by
  rw [hs]
  exact (numOk_safe t x ht).bind fun r _ hr => by simp [goodStack_cons, hr, hg]

end Interp

-- binary rules --------------------------------------------------------------------------------------------------
namespace Interp
variable [Mode]
open Typing

def isNum (t : Ty) : Prop := t = .int ∨ t = .nat ∨ t = .mutez ∨ t = .timestamp

theorem canon_num {a : Val} (hw : WF a) (ht : isNum (typeOf a)) : ∃ n, a = .num (typeOf a) n := by
  rcases ht with ht | ht | ht | ht
  · obtain ⟨n, rfl⟩ := canon_int hw ht; exact ⟨n, rfl⟩
  · obtain ⟨n, rfl, _⟩ := canon_nat hw ht; exact ⟨n, rfl⟩
  · obtain ⟨n, rfl, _⟩ := canon_mutez hw ht; exact ⟨n, rfl⟩
  · obtain ⟨n, rfl⟩ := canon_timestamp hw ht; exact ⟨n, rfl⟩

theorem addTy_num {a b t : Ty} (h : Spec.addTy a b = some t) : isNum a ∧ isNum b ∧ isNum t := by
  cases a <;> cases b <;> simp [Spec.addTy] at h <;> subst h <;> simp [isNum]
theorem subTy_num {a b t : Ty} (h : Spec.subTy a b = some t) : isNum a ∧ isNum b ∧ isNum t := by
  cases a <;> cases b <;> simp [Spec.subTy] at h <;> subst h <;> simp [isNum]
theorem mulTy_num {a b t : Ty} (h : Spec.mulTy a b = some t) : isNum a ∧ isNum b ∧ isNum t := by
  cases a <;> cases b <;> simp [Spec.mulTy] at h <;> subst h <;> simp [isNum]
theorem edivTy_num {a b qt rt : Ty} (h : Spec.edivTy a b = some (qt, rt)) : isNum a ∧ isNum b ∧ isNum qt ∧ isNum rt := by
  cases a <;> cases b <;> simp [Spec.edivTy] at h <;> obtain ⟨rfl, rfl⟩ := h <;> simp [isNum]

section
variable (env : Env) (st : List Val) (tr : TRes) (hw : StackWF st) (hg : GoodStack st)
include hw hg

/-- ADD / SUB / MUL -/
theorem safe_arith (i : Instr) (sTy tTy : Ty → Ty → Option Ty) (op : Int → Int → Int) (heq : tTy = sTy)
    (hnum : ∀ a b t, sTy a b = some t → isNum a ∧ isNum b ∧ isNum t)
    (hs : ∀ ta x tb y s, Spec.step env i (.num ta x :: .num tb y :: s) =
      match sTy ta tb with
      | some t => (Spec.numOk t (op x y)).bind fun r => .ok (r :: s)
      | none => .stuck)
    (ht0 : Typing.step i [] = none) (ht1 : ∀ a, Typing.step i [a] = none)
    (ht : ∀ a b s, Typing.step i (a :: b :: s) = (tTy a b).map fun t => .ok (t :: s))
    (hty : Typing.step i (st.map typeOf) = some tr) : (Spec.step env i st).Safe GoodStack := by
  rcases st with _ | ⟨a, _ | ⟨b, st⟩⟩
  · simp [ht0] at hty
  · simp [ht1] at hty
  rw [stackWF_cons, stackWF_cons] at hw
  rw [goodStack_cons, goodStack_cons] at hg
  simp only [List.map_cons, ht, heq] at hty
  cases htf : sTy (typeOf a) (typeOf b) with
  | none => simp [htf] at hty
  | some t =>
    obtain ⟨na, nb, nt⟩ := hnum _ _ _ htf
    obtain ⟨x, hx⟩ := canon_num hw.1 na
    obtain ⟨y, hy⟩ := canon_num hw.2.1 nb
    rw [hx, hy, hs, htf]
    exact (numOk_safe t _ nt).bind fun r _ hr => by simp [goodStack_cons, hr, hg.2.2]

theorem safe_ADD (hty : Typing.step .ADD (st.map typeOf) = some tr) : (Spec.step env .ADD st).Safe GoodStack :=
  safe_arith env st tr hw hg .ADD Spec.addTy Typing.addTy (· + ·) typing_addTy_eq (fun _ _ _ => addTy_num)
    (fun _ _ _ _ _ => rfl) rfl (fun a => by cases a <;> rfl) (fun a b s => by simp [Typing.step]) hty
theorem safe_SUB (hty : Typing.step .SUB (st.map typeOf) = some tr) : (Spec.step env .SUB st).Safe GoodStack :=
  safe_arith env st tr hw hg .SUB Spec.subTy Typing.subTy (· - ·) typing_subTy_eq (fun _ _ _ => subTy_num)
    (fun _ _ _ _ _ => rfl) rfl (fun a => by cases a <;> rfl) (fun a b s => by simp [Typing.step]) hty
theorem safe_MUL (hty : Typing.step .MUL (st.map typeOf) = some tr) : (Spec.step env .MUL st).Safe GoodStack :=
  safe_arith env st tr hw hg .MUL Spec.mulTy Typing.mulTy (· * ·) typing_mulTy_eq (fun _ _ _ => mulTy_num)
    (fun _ _ _ _ _ => rfl) rfl (fun a => by cases a <;> rfl) (fun a b s => by simp [Typing.step]) hty

/-- instructions of the form `f a b : S → r : S` with a type function `tf` -/
theorem safe_binop (i : Instr) (f : Val → Val → Res Val) (tf : Ty → Ty → Option Ty)
    (hs : ∀ a b st, Spec.step env i (a :: b :: st) = (f a b).bind fun r => .ok (r :: st))
    (ht0 : Typing.step i [] = none) (ht1 : ∀ a, Typing.step i [a] = none)
    (ht : ∀ a b s, Typing.step i (a :: b :: s) = (tf a b).map fun t => .ok (t :: s))
    (hf : ∀ a b t, WF a → WF b → litOk a = true → litOk b = true → tf (typeOf a) (typeOf b) = some t →
      (f a b).Safe (fun r => litOk r = true))
    (hty : Typing.step i (st.map typeOf) = some tr) : (Spec.step env i st).Safe GoodStack := by
  rcases st with _ | ⟨a, _ | ⟨b, st⟩⟩
  · simp [ht0] at hty
  · simp [ht1] at hty
  rw [stackWF_cons, stackWF_cons] at hw
  rw [goodStack_cons, goodStack_cons] at hg
  simp only [List.map_cons, ht] at hty
  cases htf : tf (typeOf a) (typeOf b) with
  | none => simp [htf] at hty
  | some t =>
    rw [hs]
    exact (hf a b t hw.1 hw.2.1 hg.1 hg.2.1 htf).bind fun r _ hr => by simp [goodStack_cons, hr, hg.2.2]

end

theorem edivV_safe (a b : Val) (t : Ty) (hwa : WF a) (hwb : WF b) (_ : litOk a = true) (_ : litOk b = true)
    (h : edivResTy (typeOf a) (typeOf b) = some t) : (Spec.edivV a b).Safe (fun r => litOk r = true) := by
  simp only [edivResTy, typing_edivTy_eq] at h
  cases he : Spec.edivTy (typeOf a) (typeOf b) with
  | none => simp [he] at h
  | some p =>
    obtain ⟨qt, rt⟩ := p
    obtain ⟨na, nb, nq, nr⟩ := edivTy_num he
    obtain ⟨x, hx⟩ := canon_num hwa na
    obtain ⟨y, hy⟩ := canon_num hwb nb
    rw [hx, hy]
    simp only [Spec.edivV, he]
    split
    · simp
    · exact (numOk_safe qt _ nq).bind fun q _ hq => (numOk_safe rt _ nr).bind fun r _ hr => by simp [hq, hr]

theorem lslV_safe (a b : Val) (t : Ty) (hwa : WF a) (hwb : WF b) (_ : litOk a = true) (_ : litOk b = true)
    (h : shiftTy (typeOf a) (typeOf b) = some t) : (Spec.lslV a b).Safe (fun r => litOk r = true) := by
  generalize hta : typeOf a = ta at h
  generalize htb : typeOf b = tb at h
  cases ta <;> cases tb <;> simp [shiftTy] at h
  obtain ⟨x, rfl, _⟩ := canon_nat hwa hta
  obtain ⟨n, rfl, hn⟩ := canon_nat hwb htb
  have hn' : ¬ n < 0 := by omega
  simp only [Spec.lslV, hn', if_false]
  split
  · exact numOk_safe .nat _ (Or.inr (Or.inl rfl))
  · simp

theorem lsrV_safe (a b : Val) (t : Ty) (hwa : WF a) (hwb : WF b) (_ : litOk a = true) (_ : litOk b = true)
    (h : shiftTy (typeOf a) (typeOf b) = some t) : (Spec.lsrV a b).Safe (fun r => litOk r = true) := by
  generalize hta : typeOf a = ta at h
  generalize htb : typeOf b = tb at h
  cases ta <;> cases tb <;> simp [shiftTy] at h
  obtain ⟨x, rfl, _⟩ := canon_nat hwa hta
  obtain ⟨n, rfl, hn⟩ := canon_nat hwb htb
  have hn' : ¬ n < 0 := by omega
  simp only [Spec.lsrV, hn', if_false]
  split
  · exact numOk_safe .nat _ (Or.inr (Or.inl rfl))
  · simp

theorem subMutezV_safe (a b : Val) (t : Ty) (hwa : WF a) (hwb : WF b) (_ : litOk a = true) (_ : litOk b = true)
    (h : subMutezTy (typeOf a) (typeOf b) = some t) : (Spec.subMutezV a b).Safe (fun r => litOk r = true) := by
  generalize hta : typeOf a = ta at h
  generalize htb : typeOf b = tb at h
  cases ta <;> cases tb <;> simp [subMutezTy] at h
  obtain ⟨x, rfl, _⟩ := canon_mutez hwa hta
  obtain ⟨y, rfl, _⟩ := canon_mutez hwb htb
  simp only [Spec.subMutezV]
  split
  · simp
  · exact (numOk_safe .mutez _ (Or.inr (Or.inr (Or.inl rfl)))).bind fun r _ hr => by simp [hr]

theorem andV_safe (a b : Val) (t : Ty) (hwa : WF a) (hwb : WF b) (_ : litOk a = true) (_ : litOk b = true)
    (h : andTy (typeOf a) (typeOf b) = some t) : (Spec.andV a b).Safe (fun r => litOk r = true) := by
  generalize hta : typeOf a = ta at h
  generalize htb : typeOf b = tb at h
  cases ta <;> cases tb <;> simp [andTy] at h
  · obtain ⟨x, rfl⟩ := canon_bool hwa hta
    obtain ⟨y, rfl⟩ := canon_bool hwb htb
    simp [Spec.andV]
  · obtain ⟨x, rfl⟩ := canon_int hwa hta
    obtain ⟨y, rfl, hy⟩ := canon_nat hwb htb
    simp [Spec.andV, hy]
  · obtain ⟨x, rfl, hx⟩ := canon_nat hwa hta
    obtain ⟨y, rfl⟩ := canon_int hwb htb
    simp [Spec.andV, hx]
  · obtain ⟨x, rfl, hx⟩ := canon_nat hwa hta
    obtain ⟨y, rfl, hy⟩ := canon_nat hwb htb
    simp [Spec.andV, hx, hy]

theorem orV_safe (a b : Val) (t : Ty) (hwa : WF a) (hwb : WF b) (_ : litOk a = true) (_ : litOk b = true)
    (h : orTy (typeOf a) (typeOf b) = some t) : (Spec.orV a b).Safe (fun r => litOk r = true) := by
  generalize hta : typeOf a = ta at h
  generalize htb : typeOf b = tb at h
  cases ta <;> cases tb <;> simp [orTy] at h
  · obtain ⟨x, rfl⟩ := canon_bool hwa hta
    obtain ⟨y, rfl⟩ := canon_bool hwb htb
    simp [Spec.orV]
  · obtain ⟨x, rfl, hx⟩ := canon_nat hwa hta
    obtain ⟨y, rfl, hy⟩ := canon_nat hwb htb
    simp [Spec.orV, hx, hy]

theorem xorV_safe (a b : Val) (t : Ty) (hwa : WF a) (hwb : WF b) (_ : litOk a = true) (_ : litOk b = true)
    (h : orTy (typeOf a) (typeOf b) = some t) : (Spec.xorV a b).Safe (fun r => litOk r = true) := by
  generalize hta : typeOf a = ta at h
  generalize htb : typeOf b = tb at h
  cases ta <;> cases tb <;> simp [orTy] at h
  · obtain ⟨x, rfl⟩ := canon_bool hwa hta
    obtain ⟨y, rfl⟩ := canon_bool hwb htb
    simp [Spec.xorV]
  · obtain ⟨x, rfl, hx⟩ := canon_nat hwa hta
    obtain ⟨y, rfl, hy⟩ := canon_nat hwb htb
    simp [Spec.xorV, hx, hy]

end Interp

-- sets and maps -------------------------------------------------------------------------------------------------
namespace Interp
variable [Mode]
open Typing

theorem memV_safe (a b : Val) (t : Ty) (hwa : WF a) (hwb : WF b) (_ : litOk a = true) (hgb : litOk b = true)
    (h : memTy (typeOf a) (typeOf b) = some t) : (Spec.memV a b).Safe (fun r => litOk r = true) := by
  generalize htb : typeOf b = tb at h
  cases tb <;> simp [memTy] at h
  · obtain ⟨xs, rfl, _⟩ := canon_map hwb htb
    have hk := isKey_of_wf hwa h.1.1 h.1.2
    have hm := ((litOk_map _ _ _).mp hgb).1 h.1.2
    simp [Spec.memV, hm, hk]
  · obtain ⟨xs, rfl, _⟩ := canon_set hwb htb
    have hk := isKey_of_wf hwa h.1.1 h.1.2
    have hm := ((litOk_set _ _).mp hgb).1
    simp [Spec.memV, hm, hk]

theorem getV_safe (a b : Val) (t : Ty) (hwa : WF a) (hwb : WF b) (_ : litOk a = true) (hgb : litOk b = true)
    (h : getTy (typeOf a) (typeOf b) = some t) : (Spec.getV a b).Safe (fun r => litOk r = true) := by
  generalize htb : typeOf b = tb at h
  cases tb <;> simp [getTy] at h
  obtain ⟨xs, rfl, _⟩ := canon_map hwb htb
  have hk := isKey_of_wf hwa h.1.1 h.1.2
  obtain ⟨hm', hgx⟩ := (litOk_map _ _ _).mp hgb
  have hm := hm' h.1.2
  simp only [Spec.getV, hm, hk, Bool.and_self, if_true, safe_ok]
  cases hf : _root_.Spec.Coll.findKV keyLt a (Spec.kvs xs) with
  | none => simp
  | some y =>
    obtain ⟨e, he, rfl⟩ := findKV_mem keyLt hf
    simpa using (kvs_litOk (goodMap_bindings hm) hgx e he).2

theorem updateV_safe (a b c : Val) (t : Ty) (hwa : WF a) (hwb : WF b) (hwc : WF c)
    (_ : litOk a = true) (hgb : litOk b = true) (hgc : litOk c = true)
    (h : updateTy (typeOf a) (typeOf b) (typeOf c) = some t) :
    (Spec.updateV a b c).Safe (fun r => litOk r = true ∧ typeOf r = typeOf c) := by
  generalize htb : typeOf b = tb at h
  generalize htc : typeOf c = tc at h
  cases tb <;> cases tc <;> simp [updateTy] at h
  · -- bool, set
    obtain ⟨bb, rfl⟩ := canon_bool hwb htb
    obtain ⟨xs, rfl, _⟩ := canon_set hwc htc
    have hk := isKey_of_wf hwa h.1.1 h.1.2
    obtain ⟨hm, hgx⟩ := (litOk_set _ _).mp hgc
    simp only [Spec.updateV, hm, hk, Bool.and_self, if_true, safe_ok, litOk_set, typeOf, and_true]
    cases bb with
    | true =>
      simp only [if_true]
      refine ⟨goodSet_insert hm hk, ?_⟩
      intro z hz
      rcases mem_insertKey' keyLt hz with rfl | hz
      · exact litOk_of_isKey hk
      · exact hgx z hz
    | false =>
      simp only [Bool.false_eq_true, if_false]
      exact ⟨goodSet_erase hm hk, fun z hz => hgx z (mem_eraseKey' keyLt hz)⟩
  · -- option, map
    rename_i v' k v
    obtain ⟨xs, rfl, _⟩ := canon_map hwc htc
    have hk := isKey_of_wf hwa h.1.1 h.1.2.2
    obtain ⟨hm', hgx⟩ := (litOk_map _ _ _).mp hgc
    have hm := hm' h.1.2.2
    have hkv := kvs_litOk (goodMap_bindings hm) hgx
    rcases canon_option hwb htb with rfl | ⟨y, rfl, hwy, hty⟩
    · simp only [Spec.updateV, hm, hk, h.1.2.1, beq_self_eq_true, Bool.and_self, if_true, safe_ok, litOk_map, typeOf, and_true]
      refine ⟨fun _ => goodMap_erase hm hk, unkvs_litOk fun p hp => hkv p (mem_eraseKV' keyLt hp)⟩
    · simp only [Spec.updateV, hm, hk, hty, h.1.2.1, beq_self_eq_true, Bool.and_self, if_true, safe_ok, litOk_map, typeOf, and_true]
      refine ⟨fun _ => goodMap_insert hm hk, unkvs_litOk fun p hp => ?_⟩
      have hy : litOk y = true := by simpa using hgb
      rcases mem_insertKV' keyLt hp with rfl | hp | ⟨e, he, rfl⟩
      · exact ⟨litOk_of_isKey hk, hy⟩
      · exact hkv p hp
      · exact ⟨(hkv e he).1, hy⟩

/-! ### big maps: the rules on `big_map k v` are the rules on `map k v` -/
theorem canon_bigMap {b : Val} {k v : Ty} (hw : WF b) (ht : typeOf b = .bigMap k v) : ∃ xs, b = .bigMap k v xs := by
  have hc : checkVal Mode.strict b (.bigMap k v) = true := hasTy_iff.mpr ⟨hw, ht⟩
  cases b <;> first | (simp [checkVal] at hc; done) | skip
  all_goals first
    | (rename_i k' v' xs; simp [typeOf] at ht; obtain ⟨rfl, rfl⟩ := ht; exact ⟨xs, rfl⟩)
    | (rename_i t _; cases t <;> simp [checkVal] at hc)

theorem notBig_of_typeOf {b : Val} (h : ∀ k v, typeOf b ≠ .bigMap k v) : ∀ k v items, b ≠ .bigMap k v items := by
  intro k v items e; subst e; exact h k v rfl

theorem memB_safe (a b : Val) (t : Ty) (hwa : WF a) (hwb : WF b) (hga : litOk a = true) (hgb : litOk b = true)
    (h : memTyB (typeOf a) (typeOf b) = some t) : (Spec.memB a b).Safe (fun r => litOk r = true) := by
  by_cases hb : ∃ k v, typeOf b = .bigMap k v
  · obtain ⟨k, v, hb⟩ := hb
    obtain ⟨xs, rfl⟩ := canon_bigMap hwb hb
    exact memV_safe a (.map k v xs) t hwa (wf_big_as_map hwb) hga hgb h
  · have ht : ∀ k v, typeOf b ≠ .bigMap k v := fun k v e => hb ⟨k, v, e⟩
    rw [memB_notBig a b (notBig_of_typeOf ht)]
    rw [memTyB_notBig _ _ ht] at h
    exact memV_safe a b t hwa hwb hga hgb h

theorem getB_safe (a b : Val) (t : Ty) (hwa : WF a) (hwb : WF b) (hga : litOk a = true) (hgb : litOk b = true)
    (h : getTyB (typeOf a) (typeOf b) = some t) : (Spec.getB a b).Safe (fun r => litOk r = true) := by
  by_cases hb : ∃ k v, typeOf b = .bigMap k v
  · obtain ⟨k, v, hb⟩ := hb
    obtain ⟨xs, rfl⟩ := canon_bigMap hwb hb
    exact getV_safe a (.map k v xs) t hwa (wf_big_as_map hwb) hga hgb h
  · have ht : ∀ k v, typeOf b ≠ .bigMap k v := fun k v e => hb ⟨k, v, e⟩
    rw [getB_notBig a b (notBig_of_typeOf ht)]
    rw [getTyB_notBig _ _ ht] at h
    exact getV_safe a b t hwa hwb hga hgb h

/-- a map read as a big map -/
def reBig : Val → Val
  | .map k v xs => .bigMap k v xs
  | x => x

theorem updateB_big_eq (x o : Val) (k v : Ty) (items : List Val) :
    Spec.updateB x o (.bigMap k v items) = (Spec.updateV x o (.map k v items)).map' reBig := by
  cases o <;> first | rfl | (simp only [Spec.updateB, Spec.updateV]; split <;> rfl)

theorem updateB_safe (a b c : Val) (t : Ty) (hwa : WF a) (hwb : WF b) (hwc : WF c)
    (hga : litOk a = true) (hgb : litOk b = true) (hgc : litOk c = true)
    (h : updateTyB (typeOf a) (typeOf b) (typeOf c) = some t) :
    (Spec.updateB a b c).Safe (fun r => litOk r = true ∧ typeOf r = typeOf c) := by
  by_cases hb : ∃ k v, typeOf c = .bigMap k v
  · obtain ⟨k, v, hb⟩ := hb
    obtain ⟨xs, rfl⟩ := canon_bigMap hwc hb
    have ht : updateTy (typeOf a) (typeOf b) (.map k v) = some (.map k v) := by
      simp only [typeOf] at h
      generalize typeOf b = tb at h
      cases tb <;> simp [updateTyB, updateTy] at h ⊢
      exact ⟨h.1.1, h.1.2.1, h.1.2.2⟩
    have hV := updateV_safe a b (.map k v xs) (.map k v) hwa hwb (wf_big_as_map hwc) hga hgb hgc ht
    cases hq : Spec.updateB a b (.bigMap k v xs) with
    | ok r =>
      obtain ⟨items', rfl, hv⟩ := updateB_big a b k v xs r hq
      rw [hv] at hV
      simp only [safe_ok, typeOf] at hV ⊢
      exact ⟨by simpa [litOk] using hV.1, trivial⟩
    | stuck =>
      rw [updateB_big_eq] at hq
      cases hq2 : Spec.updateV a b (.map k v xs) <;> simp [hq2, Res.map', Res.bind] at hq
      rw [hq2] at hV; exact absurd hV (safe_stuck _)
    | offguard =>
      rw [updateB_big_eq] at hq
      cases hq2 : Spec.updateV a b (.map k v xs) <;> simp [hq2, Res.map', Res.bind] at hq
      rw [hq2] at hV; exact absurd hV (safe_offguard _)
    | failed _ => trivial
    | rtfail => trivial
    | oof => trivial
  · have ht : ∀ k v, typeOf c ≠ .bigMap k v := fun k v e => hb ⟨k, v, e⟩
    rw [updateB_notBig a b c (notBig_of_typeOf ht)]
    rw [updateTyB_notBig _ _ _ ht] at h
    exact updateV_safe a b c t hwa hwb hwc hga hgb hgc h

section
variable (env : Env) (st : List Val) (tr : TRes) (hw : StackWF st) (hg : GoodStack st)
include hw hg

theorem safe_EDIV (hty : Typing.step .EDIV (st.map typeOf) = some tr) : (Spec.step env .EDIV st).Safe GoodStack :=
  safe_binop env st tr hw hg .EDIV Spec.edivV edivResTy (fun _ _ _ => rfl) rfl (fun a => by cases a <;> rfl) (fun _ _ _ => rfl)
    edivV_safe hty
theorem safe_LSL (hty : Typing.step .LSL (st.map typeOf) = some tr) : (Spec.step env .LSL st).Safe GoodStack :=
  safe_binop env st tr hw hg .LSL Spec.lslV shiftTy (fun _ _ _ => rfl) rfl (fun a => by cases a <;> rfl) (fun _ _ _ => rfl)
    lslV_safe hty
theorem safe_LSR (hty : Typing.step .LSR (st.map typeOf) = some tr) : (Spec.step env .LSR st).Safe GoodStack :=
  safe_binop env st tr hw hg .LSR Spec.lsrV shiftTy (fun _ _ _ => rfl) rfl (fun a => by cases a <;> rfl) (fun _ _ _ => rfl)
    lsrV_safe hty
theorem safe_SUB_MUTEZ (hty : Typing.step .SUB_MUTEZ (st.map typeOf) = some tr) : (Spec.step env .SUB_MUTEZ st).Safe GoodStack :=
  safe_binop env st tr hw hg .SUB_MUTEZ Spec.subMutezV subMutezTy (fun _ _ _ => rfl) rfl (fun a => by cases a <;> rfl)
    (fun _ _ _ => rfl) subMutezV_safe hty
theorem safe_AND (hty : Typing.step .AND (st.map typeOf) = some tr) : (Spec.step env .AND st).Safe GoodStack :=
  safe_binop env st tr hw hg .AND Spec.andV andTy (fun _ _ _ => rfl) rfl (fun a => by cases a <;> rfl) (fun _ _ _ => rfl)
    andV_safe hty
theorem safe_OR (hty : Typing.step .OR (st.map typeOf) = some tr) : (Spec.step env .OR st).Safe GoodStack :=
  safe_binop env st tr hw hg .OR Spec.orV orTy (fun _ _ _ => rfl) rfl (fun a => by cases a <;> rfl) (fun _ _ _ => rfl)
    orV_safe hty
theorem safe_XOR (hty : Typing.step .XOR (st.map typeOf) = some tr) : (Spec.step env .XOR st).Safe GoodStack :=
  safe_binop env st tr hw hg .XOR Spec.xorV orTy (fun _ _ _ => rfl) rfl (fun a => by cases a <;> rfl) (fun _ _ _ => rfl)
    xorV_safe hty
theorem safe_MEM (hty : Typing.step .MEM (st.map typeOf) = some tr) : (Spec.step env .MEM st).Safe GoodStack :=
  safe_binop env st tr hw hg .MEM Spec.memB memTyB (fun _ _ _ => rfl) rfl (fun a => by cases a <;> rfl) (fun _ _ _ => rfl)
    memB_safe hty
theorem safe_GET (hty : Typing.step .GET (st.map typeOf) = some tr) : (Spec.step env .GET st).Safe GoodStack :=
  safe_binop env st tr hw hg .GET Spec.getB getTyB (fun _ _ _ => rfl) rfl (fun a => by cases a <;> rfl) (fun _ _ _ => rfl)
    getB_safe hty

theorem safe_UPDATE (hty : Typing.step .UPDATE (st.map typeOf) = some tr) : (Spec.step env .UPDATE st).Safe GoodStack := by
  rcases st with _ | ⟨a, _ | ⟨b, _ | ⟨c, st⟩⟩⟩
  · simp [Typing.step, Typing.stepMore] at hty
  · simp [Typing.step, Typing.stepMore] at hty
  · simp [Typing.step, Typing.stepMore] at hty
  rw [stackWF_cons, stackWF_cons, stackWF_cons] at hw
  rw [goodStack_cons, goodStack_cons, goodStack_cons] at hg
  have ht : Typing.step .UPDATE (typeOf a :: typeOf b :: typeOf c :: st.map typeOf)
      = (updateTyB (typeOf a) (typeOf b) (typeOf c)).map fun t => .ok (t :: st.map typeOf) := rfl
  simp only [List.map_cons, ht] at hty
  cases htf : updateTyB (typeOf a) (typeOf b) (typeOf c) with
  | none => simp [htf] at hty
  | some t =>
    have hs : Spec.step env .UPDATE (a :: b :: c :: st) = (Spec.updateB a b c).bind fun r => .ok (r :: st) := rfl
    rw [hs]
    exact (updateB_safe a b c t hw.1 hw.2.1 hw.2.2.1 hg.1 hg.2.1 hg.2.2.1 htf).bind fun r _ hr => by
      simp [goodStack_cons, hr.1, hg.2.2.2]

theorem safe_GET_AND_UPDATE (hty : Typing.step .GET_AND_UPDATE (st.map typeOf) = some tr) :
    (Spec.step env .GET_AND_UPDATE st).Safe GoodStack := by
  rcases st with _ | ⟨a, _ | ⟨b, _ | ⟨c, st⟩⟩⟩
  · simp [Typing.step, Typing.stepMore] at hty
  · simp [Typing.step, Typing.stepMore] at hty
  · simp [Typing.step, Typing.stepMore] at hty
  rw [stackWF_cons, stackWF_cons, stackWF_cons] at hw
  rw [goodStack_cons, goodStack_cons, goodStack_cons] at hg
  have ht : Typing.step .GET_AND_UPDATE (typeOf a :: typeOf b :: typeOf c :: st.map typeOf)
      = (updateTyB (typeOf a) (typeOf b) (typeOf c)).bind fun t =>
          (getTyB (typeOf a) t).map fun o => .ok (o :: t :: st.map typeOf) := rfl
  simp only [List.map_cons, ht] at hty
  cases htf : updateTyB (typeOf a) (typeOf b) (typeOf c) with
  | none => simp [htf] at hty
  | some t =>
    simp only [htf, Option.bind_some] at hty
    cases htg : getTyB (typeOf a) t with
    | none => simp [htg] at hty
    | some o =>
      have hs : Spec.step env .GET_AND_UPDATE (a :: b :: c :: st)
          = (Spec.getAndUpdateB a b c).bind fun r => .ok (r.1 :: r.2 :: st) := rfl
      rw [hs]
      unfold Spec.getAndUpdateB
      -- the updated map has the type of the old one, so GET is typed on the old map
      have htc : t = typeOf c := by
        generalize typeOf b = tb at htf
        generalize typeOf c = tc at htf
        cases tb <;> cases tc <;> simp [updateTyB, updateTy] at htf
        all_goals exact htf.2.symm
      rw [htc] at htg
      have hpair : ((Spec.getB a c).bind fun old => (Spec.updateB a b c).bind fun m' => Res.ok (old, m')).Safe
          (fun r : Val × Val => litOk r.1 = true ∧ litOk r.2 = true) :=
        (getB_safe a c o hw.1 hw.2.2.1 hg.1 hg.2.2.1 htg).bind fun old _ hold =>
          (updateB_safe a b c t hw.1 hw.2.1 hw.2.2.1 hg.1 hg.2.1 hg.2.2.1 htf).bind fun m' _ hm' => by
            simp [hold, hm'.1]
      exact hpair.bind fun r _ hr => by simp [goodStack_cons, hr.1, hr.2, hg.2.2.2]

end
end Interp

-- comparison, lists, lambdas, strings -----------------------------------------------------------------------------
namespace Interp
variable [Mode]
open Typing

theorem compare_isSome {k : Ty} {a b : Val} (ha : isKey k a = true) (hb : isKey k b = true) : ∃ c, Spec.compare a b = some c := by
  rcases isKey_pair ha hb with ⟨t, n, m, rfl, rfl⟩ | ⟨s, s', rfl, rfl⟩ | ⟨s, s', rfl, rfl⟩ | ⟨x, y, rfl, rfl⟩ | ⟨rfl, rfl⟩ <;>
    exact ⟨_, rfl⟩

theorem strs_isSome : ∀ (xs : List Val), (∀ x ∈ xs, WF x ∧ typeOf x = .string) → ∃ s, Spec.strs xs = some s
  | [], _ => ⟨[], rfl⟩
  | x :: xs, h => by
    obtain ⟨s, rfl⟩ := canon_string (h x (by simp)).1 (h x (by simp)).2
    obtain ⟨r, hr⟩ := strs_isSome xs (fun y hy => h y (by simp [hy]))
    exact ⟨s ++ r, by simp [Spec.strs, hr]⟩

theorem bytess_isSome : ∀ (xs : List Val), (∀ x ∈ xs, WF x ∧ typeOf x = .bytes) → ∃ s, Spec.bytess xs = some s
  | [], _ => ⟨[], rfl⟩
  | x :: xs, h => by
    obtain ⟨s, rfl⟩ := canon_bytes (h x (by simp)).1 (h x (by simp)).2
    obtain ⟨r, hr⟩ := bytess_isSome xs (fun y hy => h y (by simp [hy]))
    exact ⟨s ++ r, by simp [Spec.bytess, hr]⟩

section
variable (env : Env) (st : List Val) (tr : TRes) (hw : StackWF st) (hg : GoodStack st)
include hw hg

theorem safe_COMPARE (hty : Typing.step .COMPARE (st.map typeOf) = some tr) : (Spec.step env .COMPARE st).Safe GoodStack := by
  rcases st with _ | ⟨a, _ | ⟨b, st⟩⟩
  · simp [Typing.step, Typing.stepMore] at hty
  · simp [Typing.step, Typing.stepMore] at hty
  rw [stackWF_cons, stackWF_cons] at hw
  rw [goodStack_cons, goodStack_cons] at hg
  simp only [List.map_cons, Typing.step] at hty
  split at hty
  · rename_i h
    obtain ⟨c, hc⟩ := compare_isSome (isKey_of_wf hw.1 rfl h.2) (isKey_of_wf hw.2.1 h.1.symm h.2)
    simp [Spec.step, h.1, hc, goodStack_cons, hg.2.2]
  · simp at hty

theorem safe_CONS (hty : Typing.step .CONS (st.map typeOf) = some tr) : (Spec.step env .CONS st).Safe GoodStack := by
  rcases st with _ | ⟨a, _ | ⟨b, st⟩⟩
  · simp [Typing.step, Typing.stepMore] at hty
  · simp [Typing.step, Typing.stepMore] at hty
  rw [stackWF_cons, stackWF_cons] at hw
  rw [goodStack_cons, goodStack_cons] at hg
  simp only [List.map_cons] at hty
  generalize htb : typeOf b = tb at hty
  cases tb <;> first | (simp [Typing.step, Typing.stepMore] at hty; done) | skip
  obtain ⟨xs, rfl, _⟩ := canon_list hw.2.1 htb
  simp only [Typing.step] at hty
  split at hty
  · rename_i h
    have hx : GoodStack xs := by simpa using hg.2.1
    simp [Spec.step, h, goodStack_cons, hg.1, hx, hg.2.2]
  · simp at hty

theorem safe_APPLY (hty : Typing.step .APPLY (st.map typeOf) = some tr) : (Spec.step env .APPLY st).Safe GoodStack := by
  rcases st with _ | ⟨a, _ | ⟨b, st⟩⟩
  · simp [Typing.step, Typing.stepMore] at hty
  · simp [Typing.step, Typing.stepMore] at hty
  rw [stackWF_cons, stackWF_cons] at hw
  rw [goodStack_cons, goodStack_cons] at hg
  simp only [List.map_cons] at hty
  generalize htb : typeOf b = tb at hty
  cases tb <;> first | (simp [Typing.step, Typing.stepMore] at hty; done) | skip
  rename_i tp tc
  cases tp <;> first | (simp [Typing.step, Typing.stepMore] at hty; done) | skip
  obtain ⟨body, rfl, _⟩ := canon_lambda hw.2.1 htb
  simp only [Typing.step] at hty
  split at hty
  · rename_i h
    have hb : literalsOk body = true := by simpa using hg.2.1
    obtain ⟨h1, hp⟩ := h
    rw [h1] at hp
    simp [Spec.step, h1, hp, goodStack_cons, literalsOk, literalsOks, hg.1, hb, hg.2.2]
  · simp at hty

theorem safe_CONCAT (hty : Typing.step .CONCAT (st.map typeOf) = some tr) : (Spec.step env .CONCAT st).Safe GoodStack := by
  prog_top1
  · -- string, string
    obtain ⟨x, rfl⟩ := canon_string hwa hta
    rcases st with _ | ⟨b, st⟩
    · simp [Typing.step, Typing.stepMore] at hty
    rw [stackWF_cons] at hw
    rw [goodStack_cons] at hg
    simp only [List.map_cons] at hty
    generalize htb : typeOf b = tb at hty
    cases tb <;> first | (simp [Typing.step, Typing.stepMore] at hty; done) | skip
    obtain ⟨y, rfl⟩ := canon_string hw.1 htb
    simp [Spec.step, goodStack_cons, hg.2]
  · -- bytes, bytes
    obtain ⟨x, rfl⟩ := canon_bytes hwa hta
    rcases st with _ | ⟨b, st⟩
    · simp [Typing.step, Typing.stepMore] at hty
    rw [stackWF_cons] at hw
    rw [goodStack_cons] at hg
    simp only [List.map_cons] at hty
    generalize htb : typeOf b = tb at hty
    cases tb <;> first | (simp [Typing.step, Typing.stepMore] at hty; done) | skip
    obtain ⟨y, rfl⟩ := canon_bytes hw.1 htb
    simp [Spec.step, goodStack_cons, hg.2]
  · -- list string / list bytes
    rename_i t
    obtain ⟨xs, rfl, hxs⟩ := canon_list hwa hta
    cases t <;> first | (simp [Typing.step, Typing.stepMore] at hty; done) | skip
    · obtain ⟨r, hr⟩ := strs_isSome xs hxs
      simp [Spec.step, hr, goodStack_cons, hg]
    · obtain ⟨r, hr⟩ := bytess_isSome xs hxs
      simp [Spec.step, hr, goodStack_cons, hg]

theorem safe_SLICE (hty : Typing.step .SLICE (st.map typeOf) = some tr) : (Spec.step env .SLICE st).Safe GoodStack := by
  prog_top1
  obtain ⟨off, rfl, _⟩ := canon_nat hwa hta
  rcases st with _ | ⟨b, st⟩
  · simp [Typing.step, Typing.stepMore] at hty
  rw [stackWF_cons] at hw
  rw [goodStack_cons] at hg
  simp only [List.map_cons] at hty
  generalize htb : typeOf b = tb at hty
  cases tb <;> first | (simp [Typing.step, Typing.stepMore] at hty; done) | skip
  obtain ⟨len, rfl, _⟩ := canon_nat hw.1 htb
  obtain ⟨_, hw⟩ := hw
  obtain ⟨_, hg⟩ := hg
  rcases st with _ | ⟨c, st⟩
  · simp [Typing.step, Typing.stepMore] at hty
  rw [stackWF_cons] at hw
  rw [goodStack_cons] at hg
  simp only [List.map_cons] at hty
  generalize htc : typeOf c = tc at hty
  cases tc <;> first | (simp [Typing.step, Typing.stepMore] at hty; done) | skip
  · obtain ⟨x, rfl⟩ := canon_string hw.1 htc
    simp only [Spec.step, safe_ok, goodStack_cons]
    refine ⟨?_, hg.2⟩
    split <;> simp
  · obtain ⟨x, rfl⟩ := canon_bytes hw.1 htc
    simp only [Spec.step, safe_ok, goodStack_cons]
    refine ⟨?_, hg.2⟩
    split <;> simp

theorem safe_AMOUNT : (Spec.step env .AMOUNT st).Safe GoodStack :=
  safe_numEnv env st hg .AMOUNT .mutez env.amount (Or.inr (Or.inr (Or.inl rfl))) (fun _ => rfl)
theorem safe_BALANCE : (Spec.step env .BALANCE st).Safe GoodStack :=
  safe_numEnv env st hg .BALANCE .mutez env.balance (Or.inr (Or.inr (Or.inl rfl))) (fun _ => rfl)
theorem safe_LEVEL : (Spec.step env .LEVEL st).Safe GoodStack :=
  safe_numEnv env st hg .LEVEL .nat env.level (Or.inr (Or.inl rfl)) (fun _ => rfl)
theorem safe_TOTAL_VOTING_POWER : (Spec.step env .TOTAL_VOTING_POWER st).Safe GoodStack :=
  safe_numEnv env st hg .TOTAL_VOTING_POWER .nat env.totalVotingPower (Or.inr (Or.inl rfl)) (fun _ => rfl)
theorem safe_MIN_BLOCK_TIME : (Spec.step env .MIN_BLOCK_TIME st).Safe GoodStack :=
  safe_numEnv env st hg .MIN_BLOCK_TIME .nat env.minBlockTime (Or.inr (Or.inl rfl)) (fun _ => rfl)

end
end Interp
