import PytezosModel.Proofs.InterpBytes
/-! PACK of the plain data classes: the mirror of `to_micheline_value(mode='optimized')` + `forge_micheline` (property C05's
`Impl.Forge.forge`, primitives from the extracted `prim_tags`) against the reference's canonical optimized form and binary
Micheline encoding (`Spec.optBoth`, `Spec.encodeM`). -/
namespace Interp
open Core

/-! the primitive tags read from the source are the reference's -/
theorem tag_Unit : Impl.primTagOf "Unit" = some 11 := by decide
theorem tag_True : Impl.primTagOf "True" = some 10 := by decide
theorem tag_False : Impl.primTagOf "False" = some 3 := by decide
theorem tag_Pair : Impl.primTagOf "Pair" = some 7 := by decide
theorem tag_Some : Impl.primTagOf "Some" = some 9 := by decide
theorem tag_None : Impl.primTagOf "None" = some 6 := by decide
theorem tag_Left : Impl.primTagOf "Left" = some 5 := by decide
theorem tag_Right : Impl.primTagOf "Right" = some 8 := by decide
theorem tag_Elt : Impl.primTagOf "Elt" = some 4 := by decide

theorem pairNode_eq (args : List BMich) (h : 2 ≤ args.length) : Impl.pairNode args = some (Spec.combLayout args) := by
  rcases args with _ | ⟨x, _ | ⟨y, _ | ⟨z, _ | ⟨w, rest⟩⟩⟩⟩
  · simp at h
  · simp at h
  · simp [Impl.pairNode, Impl.primNode, tag_Pair, Spec.combLayout]
  · simp [Impl.pairNode, Impl.primNode, tag_Pair, Spec.combLayout]
  · simp [Impl.pairNode, Spec.combLayout]

mutual
  /-- the mirror's Micheline is the canonical optimized form, on every value -/
  theorem toMichBoth_eq : ∀ v : Val, Impl.toMichBoth v = Spec.optBoth v
    | .pair a b => by
      rw [Impl.toMichBoth, Spec.optBoth, toMichBoth_eq a, toMichBoth_eq b]
      cases Spec.optBoth a with
      | none => rfl
      | some x =>
        cases hb : Spec.optBoth b with
        | none => rfl
        | some y =>
          have hl : 2 ≤ (x.1 :: y.2).length := by
            have := optBoth_parts b y hb
            simp only [List.length_cons]; omega
          simp [pairNode_eq _ hl]
    | .unit => by simp [Impl.toMichBoth, Spec.optBoth, Impl.primNode, tag_Unit]
    | .bool true => by simp [Impl.toMichBoth, Spec.optBoth, Impl.primNode, tag_True]
    | .bool false => by simp [Impl.toMichBoth, Spec.optBoth, Impl.primNode, tag_False]
    | .num _ _ => by simp [Impl.toMichBoth, Spec.optBoth]
    | .str _ => by simp [Impl.toMichBoth, Spec.optBoth]
    | .bytes _ => by simp [Impl.toMichBoth, Spec.optBoth]
    | .some v => by
      rw [Impl.toMichBoth, Spec.optBoth, toMichBoth_eq v]
      cases Spec.optBoth v <;> simp [Impl.primNode, tag_Some]
    | .none _ => by simp [Impl.toMichBoth, Spec.optBoth, Impl.primNode, tag_None]
    | .left v _ => by
      rw [Impl.toMichBoth, Spec.optBoth, toMichBoth_eq v]
      cases Spec.optBoth v <;> simp [Impl.primNode, tag_Left]
    | .right _ v => by
      rw [Impl.toMichBoth, Spec.optBoth, toMichBoth_eq v]
      cases Spec.optBoth v <;> simp [Impl.primNode, tag_Right]
    | .list _ xs => by rw [Impl.toMichBoth, Spec.optBoth, toMichL_eq xs]
    | .set _ xs => by rw [Impl.toMichBoth, Spec.optBoth, toMichL_eq xs]
    | .map _ _ xs => by rw [Impl.toMichBoth, Spec.optBoth, toMichE_eq xs]
    | .atom _ _ => by simp [Impl.toMichBoth, Spec.optBoth]
    | .lam _ _ _ => by simp [Impl.toMichBoth, Spec.optBoth]
    | .contract _ _ => by simp [Impl.toMichBoth, Spec.optBoth]
    | .opTransfer .. => by simp [Impl.toMichBoth, Spec.optBoth]
    | .opDelegate .. => by simp [Impl.toMichBoth, Spec.optBoth]
    | .opEmit .. => by simp [Impl.toMichBoth, Spec.optBoth]
    | .bigMap .. => by simp [Impl.toMichBoth, Spec.optBoth]
  theorem toMichL_eq : ∀ xs : List Val, Impl.toMichL xs = Spec.optimizedL xs
    | [] => rfl
    | x :: xs => by
      rw [Impl.toMichL, Spec.optimizedL, toMichBoth_eq x, toMichL_eq xs]
      cases Spec.optBoth x <;> cases Spec.optimizedL xs <;> rfl
  theorem toMichE_eq : ∀ xs : List Val, Impl.toMichE xs = Spec.optimizedE xs
    | [] => rfl
    | .pair k v :: xs => by
      rw [Impl.toMichE, Spec.optimizedE, toMichBoth_eq k, toMichBoth_eq v, toMichE_eq xs]
      cases Spec.optBoth k <;> cases Spec.optBoth v <;> cases Spec.optimizedE xs <;> simp [Impl.primNode, tag_Elt]
    | .unit :: _ | .bool _ :: _ | .num _ _ :: _ | .str _ :: _ | .bytes _ :: _ | .atom _ _ :: _ | .some _ :: _ | .none _ :: _
    | .left _ _ :: _ | .right _ _ :: _ | .list _ _ :: _ | .map _ _ _ :: _ | .set _ _ :: _ | .lam _ _ _ :: _ | .contract _ _ :: _
    | .opTransfer .. :: _ | .opDelegate .. :: _ | .opEmit .. :: _ | .bigMap .. :: _ => by simp [Impl.toMichE, Spec.optimizedE]
  /-- a value contributes at least one component -/
  theorem optBoth_parts : ∀ (v : Val) (y : BMich × List BMich), Spec.optBoth v = some y → 1 ≤ y.2.length
    | .pair a b, y, h => by
      rw [Spec.optBoth] at h
      cases ha : Spec.optBoth a <;> cases hb : Spec.optBoth b <;> simp [ha, hb] at h
      subst h; simp
    | .unit, y, h => by simp [Spec.optBoth] at h; subst h; simp
    | .bool true, y, h => by simp [Spec.optBoth] at h; subst h; simp
    | .bool false, y, h => by simp [Spec.optBoth] at h; subst h; simp
    | .num _ _, y, h => by simp [Spec.optBoth] at h; subst h; simp
    | .str _, y, h => by simp [Spec.optBoth] at h; subst h; simp
    | .bytes _, y, h => by simp [Spec.optBoth] at h; subst h; simp
    | .some v, y, h => by
      rw [Spec.optBoth] at h; cases hv : Spec.optBoth v <;> simp [hv] at h; subst h; simp
    | .none _, y, h => by simp [Spec.optBoth] at h; subst h; simp
    | .left v _, y, h => by
      rw [Spec.optBoth] at h; cases hv : Spec.optBoth v <;> simp [hv] at h; subst h; simp
    | .right _ v, y, h => by
      rw [Spec.optBoth] at h; cases hv : Spec.optBoth v <;> simp [hv] at h; subst h; simp
    | .list _ xs, y, h => by
      rw [Spec.optBoth] at h; cases hv : Spec.optimizedL xs <;> simp [hv] at h; subst h; simp
    | .set _ xs, y, h => by
      rw [Spec.optBoth] at h; cases hv : Spec.optimizedL xs <;> simp [hv] at h; subst h; simp
    | .map _ _ xs, y, h => by
      rw [Spec.optBoth] at h; cases hv : Spec.optimizedE xs <;> simp [hv] at h; subst h; simp
    | .atom _ _, y, h => by simp [Spec.optBoth] at h
    | .lam _ _ _, y, h => by simp [Spec.optBoth] at h
    | .contract _ _, y, h => by simp [Spec.optBoth] at h
    | .opTransfer .., y, h => by simp [Spec.optBoth] at h
    | .opDelegate .., y, h => by simp [Spec.optBoth] at h
    | .opEmit .., y, h => by simp [Spec.optBoth] at h
    | .bigMap .., y, h => by simp [Spec.optBoth] at h
end

/-! ### binary Micheline: property C05's mirror of `forge_micheline` on annotation-free expressions with at most two
arguments per primitive application is the reference encoding -/
theorem natToBE_eq : ∀ (k v : Nat), natToBE k v = if v < 256 ^ k then some (Spec.beDigits k v) else none
  | 0, v => by
    by_cases h : v = 0
    · subst h; simp [natToBE, Spec.beDigits]
    · have : ¬ v < 1 := by omega
      simp [natToBE, h, this]
  | k + 1, v => by
    have e : Spec.beDigits (k + 1) v = Spec.beDigits k (v / 256) ++ [v % 256] := by
      rw [beDigits_eq, beDigits_eq]; rfl
    rw [natToBE, natToBE_eq k (v / 256), e]
    have hp : (256 : Nat) ^ (k + 1) = 256 ^ k * 256 := Nat.pow_succ ..
    by_cases h : v / 256 < 256 ^ k
    · have : v < 256 ^ (k + 1) := by rw [hp]; omega
      simp [h, this]
    · have : ¬ v < 256 ^ (k + 1) := by rw [hp]; omega
      simp [h, this]

theorem forgeArray_eq (data : List Nat) : forgeArray 4 data = Spec.lenPrefixed data := by
  unfold forgeArray Spec.lenPrefixed
  rw [natToBE_eq]
  have : (256 : Nat) ^ 4 = 2 ^ 32 := by decide
  rw [this]
  split <;> simp

mutual
  def plain : BMich → Bool
    | .int _ | .str _ | .bytes _ => true
    | .seq xs => plainL xs
    | .prim _ args an => an.isNone && decide (args.length ≤ 2) && plainL args
  def plainL : List BMich → Bool
    | [] => true
    | x :: xs => plain x && plainL xs
end

mutual
  theorem forge_eq : ∀ m : BMich, plain m = true → Impl.Forge.forge m = Spec.encodeM m
    | .int _, _ => rfl
    | .str s, _ => by simp [Impl.Forge.forge, Spec.encodeM, forgeArray_eq]
    | .bytes b, _ => by simp [Impl.Forge.forge, Spec.encodeM, forgeArray_eq]
    | .seq xs, h => by
      simp only [plain] at h
      simp only [Impl.Forge.forge, Spec.encodeM, forgeList_eq xs h, forgeArray_eq]
      cases Spec.encodeL xs with
      | none => rfl
      | some body => cases hq : Spec.lenPrefixed body <;> simp [hq]
    | .prim t [] none, _ => by simp [Impl.Forge.forge, Spec.encodeM, Impl.Forge.forgeList, Impl.Forge.getTag]
    | .prim t [a] none, h => by
      simp only [plain, plainL, Bool.and_true, Option.isNone_none, List.length_cons, List.length_nil, Bool.true_and,
        Bool.and_eq_true, decide_eq_true_eq] at h
      simp only [Impl.Forge.forge, Spec.encodeM, Impl.Forge.forgeList, forge_eq a h.2, Impl.Forge.getTag]
      cases Spec.encodeM a <;> simp
    | .prim t [a, b] none, h => by
      simp only [plain, plainL, Bool.and_true, Option.isNone_none, List.length_cons, List.length_nil, Bool.true_and,
        Bool.and_eq_true, decide_eq_true_eq] at h
      simp only [Impl.Forge.forge, Spec.encodeM, Impl.Forge.forgeList, forge_eq a h.2.1, forge_eq b h.2.2, Impl.Forge.getTag]
      cases Spec.encodeM a <;> cases Spec.encodeM b <;> simp
    | .prim _ (_ :: _ :: _ :: _) _, h => by simp [plain] at h
    | .prim _ [] (some _), h => by simp [plain] at h
    | .prim _ [_] (some _), h => by simp [plain] at h
    | .prim _ [_, _] (some _), h => by simp [plain] at h
  theorem forgeList_eq : ∀ xs : List BMich, plainL xs = true → Impl.Forge.forgeList xs = Spec.encodeL xs
    | [], _ => rfl
    | x :: xs, h => by
      simp only [plainL, Bool.and_eq_true] at h
      simp only [Impl.Forge.forgeList, Spec.encodeL, forge_eq x h.1, forgeList_eq xs h.2]
      cases Spec.encodeM x <;> cases Spec.encodeL xs <;> rfl
end

theorem plain_combLayout (cs : List BMich) (h : plainL cs = true) : plain (Spec.combLayout cs) = true := by
  rcases cs with _ | ⟨x, _ | ⟨y, _ | ⟨z, _ | ⟨w, rest⟩⟩⟩⟩ <;> simp_all [Spec.combLayout, plain, plainL]

mutual
  /-- the canonical optimized form is annotation-free with at most two arguments per application -/
  theorem optBoth_plain : ∀ (v : Val) (y : BMich × List BMich), Spec.optBoth v = some y → plain y.1 = true ∧ plainL y.2 = true
    | .pair a b, y, h => by
      rw [Spec.optBoth] at h
      cases ha : Spec.optBoth a with
      | none => simp [ha] at h
      | some x =>
        cases hb : Spec.optBoth b with
        | none => simp [ha, hb] at h
        | some z =>
          simp only [ha, hb, Option.some.injEq] at h
          subst h
          have h1 := optBoth_plain a x ha
          have h2 := optBoth_plain b z hb
          have hc : plainL (x.1 :: z.2) = true := by simp [plainL, h1.1, h2.2]
          exact ⟨plain_combLayout _ hc, hc⟩
    | .unit, y, h => by simp [Spec.optBoth] at h; subst h; simp [plain, plainL]
    | .bool true, y, h => by simp [Spec.optBoth] at h; subst h; simp [plain, plainL]
    | .bool false, y, h => by simp [Spec.optBoth] at h; subst h; simp [plain, plainL]
    | .num _ _, y, h => by simp [Spec.optBoth] at h; subst h; simp [plain, plainL]
    | .str _, y, h => by simp [Spec.optBoth] at h; subst h; simp [plain, plainL]
    | .bytes _, y, h => by simp [Spec.optBoth] at h; subst h; simp [plain, plainL]
    | .some v, y, h => by
      rw [Spec.optBoth] at h
      cases hv : Spec.optBoth v with
      | none => simp [hv] at h
      | some x => simp [hv] at h; subst h; simp [plain, plainL, (optBoth_plain v x hv).1]
    | .none _, y, h => by simp [Spec.optBoth] at h; subst h; simp [plain, plainL]
    | .left v _, y, h => by
      rw [Spec.optBoth] at h
      cases hv : Spec.optBoth v with
      | none => simp [hv] at h
      | some x => simp [hv] at h; subst h; simp [plain, plainL, (optBoth_plain v x hv).1]
    | .right _ v, y, h => by
      rw [Spec.optBoth] at h
      cases hv : Spec.optBoth v with
      | none => simp [hv] at h
      | some x => simp [hv] at h; subst h; simp [plain, plainL, (optBoth_plain v x hv).1]
    | .list _ xs, y, h => by
      rw [Spec.optBoth] at h
      cases hv : Spec.optimizedL xs with
      | none => simp [hv] at h
      | some ys => simp [hv] at h; subst h; simp [plain, plainL, optimizedL_plain xs ys hv]
    | .set _ xs, y, h => by
      rw [Spec.optBoth] at h
      cases hv : Spec.optimizedL xs with
      | none => simp [hv] at h
      | some ys => simp [hv] at h; subst h; simp [plain, plainL, optimizedL_plain xs ys hv]
    | .map _ _ xs, y, h => by
      rw [Spec.optBoth] at h
      cases hv : Spec.optimizedE xs with
      | none => simp [hv] at h
      | some ys => simp [hv] at h; subst h; simp [plain, plainL, optimizedE_plain xs ys hv]
    | .atom _ _, y, h => by simp [Spec.optBoth] at h
    | .lam _ _ _, y, h => by simp [Spec.optBoth] at h
    | .contract _ _, y, h => by simp [Spec.optBoth] at h
    | .opTransfer .., y, h => by simp [Spec.optBoth] at h
    | .opDelegate .., y, h => by simp [Spec.optBoth] at h
    | .opEmit .., y, h => by simp [Spec.optBoth] at h
    | .bigMap .., y, h => by simp [Spec.optBoth] at h
  theorem optimizedL_plain : ∀ (xs : List Val) (ys : List BMich), Spec.optimizedL xs = some ys → plainL ys = true
    | [], ys, h => by simp [Spec.optimizedL] at h; subst h; rfl
    | x :: xs, ys, h => by
      rw [Spec.optimizedL] at h
      cases hx : Spec.optBoth x with
      | none => simp [hx] at h
      | some y =>
        cases hr : Spec.optimizedL xs with
        | none => simp [hx, hr] at h
        | some zs => simp [hx, hr] at h; subst h; simp [plainL, (optBoth_plain x y hx).1, optimizedL_plain xs zs hr]
  theorem optimizedE_plain : ∀ (xs : List Val) (ys : List BMich), Spec.optimizedE xs = some ys → plainL ys = true
    | [], ys, h => by simp [Spec.optimizedE] at h; subst h; rfl
    | .pair k v :: xs, ys, h => by
      rw [Spec.optimizedE] at h
      cases hk : Spec.optBoth k with
      | none => simp [hk] at h
      | some a =>
        cases hv : Spec.optBoth v with
        | none => simp [hk, hv] at h
        | some b =>
          cases hr : Spec.optimizedE xs with
          | none => simp [hk, hv, hr] at h
          | some zs =>
            simp [hk, hv, hr] at h; subst h
            simp [plain, plainL, (optBoth_plain k a hk).1, (optBoth_plain v b hv).1, optimizedE_plain xs zs hr]
    | .unit :: _, _, h | .bool _ :: _, _, h | .num _ _ :: _, _, h | .str _ :: _, _, h | .bytes _ :: _, _, h | .atom _ _ :: _, _, h
    | .some _ :: _, _, h | .none _ :: _, _, h | .left _ _ :: _, _, h | .right _ _ :: _, _, h | .list _ _ :: _, _, h
    | .map _ _ _ :: _, _, h | .set _ _ :: _, _, h | .lam _ _ _ :: _, _, h | .contract _ _ :: _, _, h
    | .opTransfer .. :: _, _, h | .opDelegate .. :: _, _, h | .opEmit .. :: _, _, h | .bigMap .. :: _, _, h => by simp [Spec.optimizedE] at h
end

open Typing in
mutual
  /-- every well-formed value of a packable type of the model has a canonical optimized form -/
  theorem optBoth_some (s : Bool) : ∀ (v : Val) (t : Ty), checkVal s v t = true → packable t = true →
      (Spec.optBoth v).isSome = true
    | .pair a b, t, h, hp => by
      cases t <;> simp [checkVal] at h
      rename_i ta tb
      simp only [packable, Bool.and_eq_true] at hp
      have h1 := optBoth_some s a ta h.1 hp.1
      have h2 := optBoth_some s b tb h.2 hp.2
      rw [Spec.optBoth]
      cases ha : Spec.optBoth a <;> cases hb : Spec.optBoth b <;> simp_all
    | .unit, _, _, _ => by simp [Spec.optBoth]
    | .bool true, _, _, _ => by simp [Spec.optBoth]
    | .bool false, _, _, _ => by simp [Spec.optBoth]
    | .num _ _, _, _, _ => by simp [Spec.optBoth]
    | .str _, _, _, _ => by simp [Spec.optBoth]
    | .bytes _, _, _, _ => by simp [Spec.optBoth]
    | .some v, t, h, hp => by
      cases t <;> simp [checkVal] at h
      rename_i ta
      simp only [packable] at hp
      have h1 := optBoth_some s v ta h hp
      rw [Spec.optBoth]
      cases hv : Spec.optBoth v <;> simp_all
    | .none _, _, _, _ => by simp [Spec.optBoth]
    | .left v _, t, h, hp => by
      cases t <;> simp [checkVal] at h
      rename_i ta tb
      simp only [packable, Bool.and_eq_true] at hp
      have h1 := optBoth_some s v ta h.2 hp.1
      rw [Spec.optBoth]
      cases hv : Spec.optBoth v <;> simp_all
    | .right _ v, t, h, hp => by
      cases t <;> simp [checkVal] at h
      rename_i ta tb
      simp only [packable, Bool.and_eq_true] at hp
      have h1 := optBoth_some s v tb h.2 hp.2
      rw [Spec.optBoth]
      cases hv : Spec.optBoth v <;> simp_all
    | .list _ xs, t, h, hp => by
      cases t <;> simp [checkVal] at h
      rename_i ta
      simp only [packable] at hp
      have h1 := optimizedL_some s xs ta h.2 hp
      rw [Spec.optBoth]
      cases hv : Spec.optimizedL xs <;> simp_all
    | .set _ xs, t, h, hp => by
      cases t <;> simp [checkVal] at h
      rename_i ta
      simp only [packable] at hp
      have h1 := optimizedL_some s xs ta h.2 hp
      rw [Spec.optBoth]
      cases hv : Spec.optimizedL xs <;> simp_all
    | .map _ _ xs, t, h, hp => by
      cases t <;> simp [checkVal] at h
      rename_i ta tb
      simp only [packable, Bool.and_eq_true] at hp
      have h1 := optimizedE_some s xs ta tb h.2 hp.1 hp.2
      rw [Spec.optBoth]
      cases hv : Spec.optimizedE xs <;> simp_all
    | .atom ta _, t, h, hp => by cases ta <;> cases t <;> simp [checkVal] at h <;> simp [packable] at hp
    | .lam _ _ _, t, h, hp => by cases t <;> simp [checkVal] at h; simp [packable] at hp
    | .contract _ _, t, h, hp => by cases t <;> simp [checkVal] at h; simp [packable] at hp
    | .opTransfer .., t, h, hp => by cases t <;> simp [checkVal] at h <;> simp [packable] at hp
    | .opDelegate .., t, h, hp => by cases t <;> simp [checkVal] at h <;> simp [packable] at hp
    | .opEmit .., t, h, hp => by cases t <;> simp [checkVal] at h <;> simp [packable] at hp
    | .bigMap .., t, h, hp => by cases t <;> simp [checkVal] at h; simp [packable] at hp
  theorem optimizedL_some (s : Bool) : ∀ (xs : List Val) (t : Ty), checkVals s xs t = true → packable t = true →
      (Spec.optimizedL xs).isSome = true
    | [], _, _, _ => by simp [Spec.optimizedL]
    | x :: xs, t, h, hp => by
      simp only [checkVals, Bool.and_eq_true] at h
      have h1 := optBoth_some s x t h.1 hp
      have h2 := optimizedL_some s xs t h.2 hp
      rw [Spec.optimizedL]
      cases hx : Spec.optBoth x <;> cases hr : Spec.optimizedL xs <;> simp_all
  theorem optimizedE_some (s : Bool) : ∀ (xs : List Val) (k w : Ty), checkVals s xs (.pair k w) = true → packable k = true →
      packable w = true → (Spec.optimizedE xs).isSome = true
    | [], _, _, _, _, _ => by simp [Spec.optimizedE]
    | x :: xs, k, w, h, hk, hw => by
      simp only [checkVals, Bool.and_eq_true] at h
      have h2 := optimizedE_some s xs k w h.2 hk hw
      cases x <;> simp [checkVal] at h
      rename_i a b
      have ha := optBoth_some s a k h.1.1 hk
      have hb := optBoth_some s b w h.1.2 hw
      rw [Spec.optimizedE]
      cases hx : Spec.optBoth a <;> cases hy : Spec.optBoth b <;> cases hr : Spec.optimizedE xs <;> simp_all
end

/-- **PACK**: the mirror computes the reference serialization wherever the rule applies -/
theorem execPack_eq (a : Val) (h : Spec.packV a ≠ .stuck) : Impl.execPack a = Spec.packV a := by
  unfold Spec.packV at h ⊢
  unfold Impl.execPack
  split at h
  · exact absurd rfl h
  · rename_i hp
    simp only [hp, if_false, Spec.optimized, toMichBoth_eq]
    cases hb : Spec.optBoth a with
    | none => simp [Spec.optimized, hb] at h
    | some y =>
      simp only [Option.map_some, forge_eq y.1 (optBoth_plain a y hb).1]
      cases Spec.encodeM y.1 <;> rfl

end Interp
