import PytezosModel.Proofs.C20TyMap
/-! C20 — type preservation for every instruction: induction on the fuel, mutually over instructions, sequences, the ITER
loop and the MAP loop.  A successful run of a checked program ends in a state whose active stack has the computed
types, whose protected prefix is untouched, and in which no ill-typed store happened (`typedStores` still true). -/
namespace Impl.Tickets

/-- the run ended normally, so the checker did not say "always fails", and the final state has the computed types -/
def ResOk (pre : List Val) (r : TyRes) (s' : State) : Prop := ∃ Γ' act', r = some Γ' ∧ Shape pre act' s' ∧ STy act' Γ'

def TypedAs (t : Ty) (xs : List Val) : Prop := ∀ x ∈ xs, x.typeOf = t ∧ x.wt = true

theorem tyInstr_simple {c : Cfg} {s s' : State} {i : Instr} {Γ : List Ty} (h : simple c s i = some (.ok s')) :
    tyInstr c i Γ = (tySimple c i Γ).map some := by
  cases i <;> first | rfl | (simp [simple] at h)

theorem duplicate_eq {c : Cfg} {v r : Val} (h : duplicate c v = .ok r) : r = v := by
  unfold duplicate at h
  split at h
  · split at h
    · cases h
    · simp only [Except.ok.injEq] at h; exact h.symm
  · split at h
    · cases h
    · simp only [Except.ok.injEq] at h; exact h.symm

theorem joinRes_left {Γ1 : List Ty} {r2 : TyRes} {r : TyRes} (h : joinRes (some Γ1) r2 = some r) : r = some Γ1 := by
  cases r2 with
  | none => simp [joinRes] at h; exact h.symm
  | some b =>
    simp only [joinRes] at h
    split at h
    · simp at h; exact h.symm
    · cases h

theorem joinRes_right {Γ2 : List Ty} {r1 : TyRes} {r : TyRes} (h : joinRes r1 (some Γ2) = some r) : r = some Γ2 := by
  cases r1 with
  | none => simp [joinRes] at h; exact h.symm
  | some a =>
    simp only [joinRes] at h
    split at h
    · rename_i hab
      have : a = Γ2 := by simpa using hab
      subst this
      simp at h; exact h.symm
    · cases h

theorem loopOk_some {Γ' Γ : List Ty} (h : loopOk (some Γ') Γ = true) : Γ' = Γ := by
  simpa [loopOk] using h

theorem zip_pairs_typed {k v : Ty} : ∀ (keys : List Atom) (vals : List Val), (∀ a ∈ keys, a.ty = k) →
    (∀ x ∈ vals, x.typeOf = v ∧ x.wt = true) → TypedAs (.pair k v) ((keys.zip vals).map fun (a, x) => Val.pair (.atom a) x)
  | [], _, _, _ => by intro x hx; simp at hx
  | _ :: _, [], _, _ => by intro x hx; simp at hx
  | a :: as, x :: xs, hk, hv => by
    intro y hy
    simp only [List.zip_cons_cons, List.map_cons, List.mem_cons] at hy
    rcases hy with rfl | hy
    · obtain ⟨h1, h2⟩ := hv x List.mem_cons_self
      simp [Val.typeOf, Val.wt, h1, h2, hk a List.mem_cons_self]
    · exact zip_pairs_typed as xs (fun b hb => hk b (List.mem_cons_of_mem _ hb)) (fun z hz => hv z (List.mem_cons_of_mem _ hz)) y hy

theorem take_length_of_le {α : Type} {n : Nat} {l : List α} (h : n ≤ l.length) : (l.take n).length = n := by
  rw [List.length_take]; omega

mutual
  theorem exec_typed {c : Cfg} (ok2 : CfgOk2 c) : ∀ (f : Nat) (i : Instr) (pre act : List Val) (s s' : State) (Γ : List Ty)
      (r : TyRes), tyInstr c i Γ = some r → Shape pre act s → STy act Γ → exec c f i s = .ok s' → ResOk pre r s'
    | 0, _, _, _, _, _, _, _, _, _, _, h => by simp [exec] at h
    | f + 1, i, pre, act, s, s', Γ, r, ht, hs, hty, h => by
      cases hsi : simple c s i with
      | some r0 =>
        simp only [exec, hsi] at h
        subst h
        rw [tyInstr_simple hsi] at ht
        cases hts : tySimple c i Γ with
        | none => simp [hts] at ht
        | some Γ' =>
          simp only [hts, Option.map_some, Option.some.injEq] at ht
          subst ht
          obtain ⟨act', h1, h2⟩ := simple_typed ok2 i hts hs hty hsi
          exact ⟨Γ', act', rfl, h1, h2⟩
      | none =>
        cases i with
        | dup =>
          simp only [tyInstr] at ht
          split at ht
          · rename_i a Δ
            split at ht
            · simp only [Option.some.injEq] at ht; subst ht
              obtain ⟨x, rest, rfl, hx1, hx2, h1⟩ := hty.cons_inv
              simp only [exec, hsi, hs.peek, bind, Except.bind] at h
              cases hd : duplicate c x with
              | error e => simp [hd] at h
              | ok d =>
                simp only [hd, pure, Except.pure, Except.ok.injEq] at h
                subst h
                obtain rfl := duplicate_eq hd
                exact ⟨_, _, rfl, hs.push _, STy.cons hx1 hx2 (STy.cons hx1 hx2 h1)⟩
            · cases ht
          · cases ht
        | dupN n =>
          simp only [tyInstr] at ht
          split at ht
          · cases ht
          · rename_i hn0
            split at ht
            · rename_i a tl hdrop
              split at ht
              · simp only [Option.some.injEq] at ht; subst ht
                have hlen : n - 1 ≤ act.length := by
                  rw [hty.length]
                  have : (Γ.drop (n - 1)).length = (a :: tl).length := by rw [hdrop]
                  simp only [List.length_drop, List.length_cons] at this; omega
                obtain ⟨s1, hp, hs1, _, _⟩ := hs.protect (n - 1) hlen
                have hd := hty.drop (n - 1)
                rw [hdrop] at hd
                obtain ⟨x, rest, hx, hx1, hx2, _⟩ := hd.cons_inv
                rw [hx] at hs1
                simp only [exec, hsi, hn0, Bool.false_eq_true, if_false, hp, hs1.peek, bind, Except.bind] at h
                cases hdup : duplicate c x with
                | error e => simp [hdup] at h
                | ok d =>
                  obtain rfl := duplicate_eq hdup
                  simp only [hdup] at h
                  obtain ⟨s2, hr, hs2, _, _⟩ := hs1.restore
                  rw [take_length_of_le hlen] at hr
                  simp only [hr, pure, Except.pure, Except.ok.injEq] at h
                  subst h
                  rw [← hx, List.take_append_drop] at hs2
                  exact ⟨_, _, rfl, hs2.push _, STy.cons hx1 hx2 hty⟩
              · cases ht
            · cases ht
        | dig n =>
          simp only [tyInstr, tyDig] at ht
          split at ht
          · rename_i t tl hdrop
            simp only [Option.map_some, Option.some.injEq] at ht; subst ht
            have hlen : n ≤ act.length := by
              rw [hty.length]
              have : (Γ.drop n).length = (t :: tl).length := by rw [hdrop]
              simp only [List.length_drop, List.length_cons] at this; omega
            obtain ⟨s1, hp, hs1, _, _⟩ := hs.protect n hlen
            have hd := hty.drop n
            rw [hdrop] at hd
            obtain ⟨x, rest, hx, hx1, hx2, hrest⟩ := hd.cons_inv
            rw [hx] at hs1
            obtain ⟨hpop, hs2⟩ := hs1.pop1
            obtain ⟨s3, hr, hs3, _, _⟩ := hs2.restore
            rw [take_length_of_le hlen] at hr
            simp only [exec, hsi, hp, hpop, hr, bind, Except.bind, pure, Except.pure, Except.ok.injEq] at h
            subst h
            exact ⟨_, _, rfl, hs3.push _, STy.cons hx1 hx2 ((hty.take n).append hrest)⟩
          · simp at ht
        | dug n =>
          simp only [tyInstr, tyDug] at ht
          split at ht
          · rename_i t tl
            split at ht
            · rename_i hn
              simp only [Option.map_some, Option.some.injEq] at ht; subst ht
              obtain ⟨x, rest, rfl, hx1, hx2, hrest⟩ := hty.cons_inv
              obtain ⟨hpop, hs1⟩ := hs.pop1
              have hlen : n ≤ rest.length := by rw [hrest.length]; exact hn
              obtain ⟨s2, hp, hs2, _, _⟩ := hs1.protect n hlen
              obtain ⟨s3, hr, hs3, _, _⟩ := (hs2.push x).restore
              rw [take_length_of_le hlen] at hr
              simp only [exec, hsi, hpop, hp, hr, bind, Except.bind] at h
              simp only [Except.ok.injEq] at h
              subst h
              exact ⟨_, _, rfl, hs3, (hrest.take n).append (STy.cons hx1 hx2 (hrest.drop n))⟩
            · simp at ht
          · simp at ht
        | dip body =>
          simp only [tyInstr] at ht
          split at ht
          · rename_i a Δ
            obtain ⟨x, rest, rfl, hx1, hx2, hrest⟩ := hty.cons_inv
            obtain ⟨s1, hp, hs1, _, _⟩ := hs.protect 1 (by simp)
            simp only [List.take_succ_cons, List.take_zero, List.drop_succ_cons, List.drop_zero] at hs1
            simp only [exec, hsi, hp, bind, Except.bind] at h
            cases hb : execSeq c f body s1 with
            | error e => simp [hb] at h
            | ok s2 =>
              simp only [hb] at h
              cases hts : tySeq c body Δ with
              | none => simp [hts] at ht
              | some rb =>
                obtain ⟨Δ', act2, rfl, hs2, hty2⟩ := execSeq_typed ok2 f body _ _ s1 s2 Δ rb hts hs1 hrest hb
                simp only [hts, Option.some.injEq] at ht; subst ht
                obtain ⟨s3, hr, hs3, _, _⟩ := hs2.restore
                simp only [List.length_cons, List.length_nil, Nat.zero_add] at hr
                rw [hr] at h
                simp only [Except.ok.injEq] at h; subst h
                exact ⟨_, _, rfl, hs3, STy.cons hx1 hx2 hty2⟩
          · cases ht
        | dipN n body =>
          simp only [tyInstr] at ht
          split at ht
          · cases ht
          · rename_i hn
            have hlen : n ≤ act.length := by rw [hty.length]; omega
            obtain ⟨s1, hp, hs1, _, _⟩ := hs.protect n hlen
            simp only [exec, hsi, hp, bind, Except.bind] at h
            cases hb : execSeq c f body s1 with
            | error e => simp [hb] at h
            | ok s2 =>
              simp only [hb] at h
              cases hts : tySeq c body (Γ.drop n) with
              | none => simp [hts] at ht
              | some rb =>
                obtain ⟨Δ', act2, rfl, hs2, hty2⟩ := execSeq_typed ok2 f body _ _ s1 s2 _ rb hts hs1 (hty.drop n) hb
                simp only [hts, Option.some.injEq] at ht; subst ht
                obtain ⟨s3, hr, hs3, _, _⟩ := hs2.restore
                rw [take_length_of_le hlen] at hr
                rw [hr] at h
                simp only [Except.ok.injEq] at h; subst h
                exact ⟨_, _, rfl, hs3, (hty.take n).append hty2⟩
        | seq body =>
          simp only [tyInstr] at ht
          simp only [exec, hsi] at h
          exact execSeq_typed ok2 f body pre act s s' Γ r ht hs hty h
        | ifNone bt bf =>
          simp only [tyInstr] at ht
          split at ht
          · rename_i a Δ
            obtain ⟨o, rest, rfl, ho1, ho2, hrest⟩ := hty.cons_inv
            obtain ⟨hpop, hs1⟩ := hs.pop1
            simp only [exec, hsi, hpop, bind, Except.bind] at h
            cases h1 : tySeq c bt Δ with
            | none => simp [h1] at ht
            | some r1 =>
              cases h2 : tySeq c bf (a :: Δ) with
              | none => simp [h1, h2] at ht
              | some r2 =>
                simp only [h1, h2] at ht
                rcases inv_option ho1 ho2 with rfl | ⟨x, rfl, hxw, hxt⟩
                · simp only at h
                  obtain ⟨Γ1, act1, rfl, hs', hty'⟩ := execSeq_typed ok2 f bt _ _ _ s' Δ r1 h1 hs1 hrest h
                  obtain rfl := joinRes_left ht
                  exact ⟨_, _, rfl, hs', hty'⟩
                · simp only at h
                  obtain ⟨Γ2, act2, rfl, hs', hty'⟩ :=
                    execSeq_typed ok2 f bf _ _ _ s' (a :: Δ) r2 h2 (hs1.push x) (STy.cons hxw hxt hrest) h
                  obtain rfl := joinRes_right ht
                  exact ⟨_, _, rfl, hs', hty'⟩
          · cases ht
        | ifLeft bt bf =>
          simp only [tyInstr] at ht
          split at ht
          · rename_i a b Δ
            obtain ⟨o, rest, rfl, ho1, ho2, hrest⟩ := hty.cons_inv
            obtain ⟨hpop, hs1⟩ := hs.pop1
            simp only [exec, hsi, hpop, bind, Except.bind] at h
            cases h1 : tySeq c bt (a :: Δ) with
            | none => simp [h1] at ht
            | some r1 =>
              cases h2 : tySeq c bf (b :: Δ) with
              | none => simp [h1, h2] at ht
              | some r2 =>
                simp only [h1, h2] at ht
                rcases inv_or ho1 ho2 with ⟨x, rfl, hxw, hxt⟩ | ⟨x, rfl, hxw, hxt⟩
                · simp only at h
                  obtain ⟨Γ1, act1, rfl, hs', hty'⟩ :=
                    execSeq_typed ok2 f bt _ _ _ s' (a :: Δ) r1 h1 (hs1.push x) (STy.cons hxw hxt hrest) h
                  obtain rfl := joinRes_left ht
                  exact ⟨_, _, rfl, hs', hty'⟩
                · simp only at h
                  obtain ⟨Γ2, act2, rfl, hs', hty'⟩ :=
                    execSeq_typed ok2 f bf _ _ _ s' (b :: Δ) r2 h2 (hs1.push x) (STy.cons hxw hxt hrest) h
                  obtain rfl := joinRes_right ht
                  exact ⟨_, _, rfl, hs', hty'⟩
          · cases ht
        | iter body =>
          simp only [tyInstr] at ht
          split at ht
          · rename_i a Δ
            obtain ⟨src, rest, rfl, ho1, ho2, hrest⟩ := hty.cons_inv
            obtain ⟨xs, rfl, hxs⟩ := inv_list ho1 ho2
            obtain ⟨hpop, hs1⟩ := hs.pop1
            simp only [exec, hsi, hpop, bind, Except.bind, elements] at h
            cases hts : tySeq c body (a :: Δ) with
            | none => simp [hts] at ht
            | some rb =>
              simp only [hts] at ht
              split at ht
              · rename_i hl
                simp only [Option.some.injEq] at ht; subst ht
                obtain ⟨act', h1, h2⟩ := iterLoop_typed ok2 f body xs _ _ _ s' a Δ rb hts hl hxs hs1 hrest h
                exact ⟨_, _, rfl, h1, h2⟩
              · cases ht
          · rename_i a Δ
            obtain ⟨src, rest, rfl, ho1, ho2, hrest⟩ := hty.cons_inv
            obtain ⟨xs, rfl, _, hxs⟩ := inv_set ho1 ho2
            obtain ⟨hpop, hs1⟩ := hs.pop1
            simp only [exec, hsi, hpop, bind, Except.bind, elements] at h
            cases hts : tySeq c body (a :: Δ) with
            | none => simp [hts] at ht
            | some rb =>
              simp only [hts] at ht
              split at ht
              · rename_i hl
                simp only [Option.some.injEq] at ht; subst ht
                have hel : TypedAs a (xs.map Val.atom) := by
                  intro y hy
                  obtain ⟨z, hz, rfl⟩ := List.mem_map.mp hy
                  exact ⟨hxs z hz, rfl⟩
                obtain ⟨act', h1, h2⟩ := iterLoop_typed ok2 f body _ _ _ _ s' a Δ rb hts hl hel hs1 hrest h
                exact ⟨_, _, rfl, h1, h2⟩
              · cases ht
          · rename_i k v Δ
            obtain ⟨src, rest, rfl, ho1, ho2, hrest⟩ := hty.cons_inv
            obtain ⟨keys, vals, rm, rfl, wf⟩ := inv_map false ho1 ho2
            obtain ⟨hpop, hs1⟩ := hs.pop1
            simp only [exec, hsi, hpop, bind, Except.bind, elements, Bool.false_and, Bool.false_eq_true, if_false] at h
            cases hts : tySeq c body (.pair k v :: Δ) with
            | none => simp [hts] at ht
            | some rb =>
              simp only [hts] at ht
              split at ht
              · rename_i hl
                simp only [Option.some.injEq] at ht; subst ht
                obtain ⟨act', h1, h2⟩ := iterLoop_typed ok2 f body _ _ _ _ s' (.pair k v) Δ rb hts hl
                  (zip_pairs_typed keys vals wf.ktys wf.vtys) hs1 hrest h
                exact ⟨_, _, rfl, h1, h2⟩
              · cases ht
          · cases ht
        | map body =>
          simp only [tyInstr] at ht
          split at ht
          · rename_i a Δ
            obtain ⟨src, rest, rfl, ho1, ho2, hrest⟩ := hty.cons_inv
            obtain ⟨xs, rfl, hxs⟩ := inv_list ho1 ho2
            obtain ⟨hpop, hs1⟩ := hs.pop1
            generalize ({ s with items := pre ++ rest } : State) = s1 at hpop hs1
            simp only [exec, hsi, bind, Except.bind] at h
            simp only [hpop] at h
            cases hts : tySeq c body (a :: Δ) with
            | none => simp [hts] at ht
            | some rb =>
              simp only [hts] at ht
              split at ht
              · rename_i hl
                simp only [Option.some.injEq] at ht; subst ht
                cases hm : mapLoop c f body xs [] s1 with
                | error e => simp [hm] at h
                | ok res =>
                  obtain ⟨ys, s2⟩ := res
                  simp only [hm] at h
                  obtain ⟨act2, hs2, hty2, hys⟩ := mapLoop_typed ok2 f body xs [] _ _ _ ys s2 a a Δ rb hts hl hxs
                    (fun y hy => by cases hy) hs1 hrest hm
                  cases ys with
                  | nil =>
                    simp only [pure, Except.pure, Except.ok.injEq] at h
                    subst h
                    exact ⟨_, _, rfl, hs2.push _, STy.cons ho1 ho2 hty2⟩
                  | cons y ys' =>
                    simp only at h
                    split at h
                    · simp only [pure, Except.pure, Except.ok.injEq] at h
                      subst h
                      have hy := (hys y List.mem_cons_self).1
                      refine ⟨_, _, rfl, hs2.push _, STy.cons ?_ (by simp [Val.typeOf, hy]) hty2⟩
                      simp only [Val.wt, hy]
                      exact (wtList_iff _ _).mpr hys
                    · cases h
              · cases ht
          · rename_i k v Δ
            obtain ⟨src, rest, rfl, ho1, ho2, hrest⟩ := hty.cons_inv
            obtain ⟨keys, vals, rm, rfl, wf⟩ := inv_map false ho1 ho2
            obtain ⟨hpop, hs1⟩ := hs.pop1
            generalize ({ s with items := pre ++ rest } : State) = s1 at hpop hs1
            simp only [exec, hsi, bind, Except.bind] at h
            simp only [hpop] at h
            have hels : elements (.map false k v keys vals rm) = .ok ((keys.zip vals).map fun (a, x) => Val.pair (.atom a) x) := by
              simp [elements]
            simp only [hels] at h
            generalize ((keys.zip vals).map fun (a, x) => Val.pair (.atom a) x) = els at h hels
            have helt : TypedAs (.pair k v) els := by
              simp only [elements, Bool.false_and, Bool.false_eq_true, if_false, Except.ok.injEq] at hels
              subst hels
              exact zip_pairs_typed keys vals wf.ktys wf.vtys
            cases hts : tySeq c body (.pair k v :: Δ) with
            | none => simp [hts] at ht
            | some rb =>
              simp only [hts] at ht
              split at ht
              · rename_i hl
                simp only [Option.some.injEq] at ht; subst ht
                cases hm : mapLoop c f body els [] s1 with
                | error e => simp [hm] at h
                | ok res =>
                  obtain ⟨ys, s2⟩ := res
                  simp only [hm] at h
                  obtain ⟨act2, hs2, hty2, hys⟩ := mapLoop_typed ok2 f body _ [] _ _ _ ys s2 (.pair k v) v Δ rb hts hl
                    helt (fun y hy => by cases hy) hs1 hrest hm
                  cases ys with
                  | nil =>
                    simp only [pure, Except.pure, Except.ok.injEq] at h
                    subst h
                    exact ⟨_, _, rfl, hs2.push _, STy.cons ho1 ho2 hty2⟩
                  | cons y ys' =>
                    simp only at h
                    split at h
                    · rename_i hcond
                      simp only [Bool.and_eq_true, beq_iff_eq] at hcond
                      simp only [pure, Except.pure, Except.ok.injEq] at h
                      subst h
                      have hy := (hys y List.mem_cons_self).1
                      refine ⟨_, _, rfl, hs2.push _, STy.cons ?_ (by simp [Val.typeOf, hy]) hty2⟩
                      rw [hy]
                      exact mapWT_iff.mpr ⟨hcond.1.symm, wf.nodup, wf.ktys, hys⟩
                    · cases h
              · cases ht
          · cases ht
        | failwith => simp [simple] at hsi
        | exec => simp [tyInstr, tySimple] at ht
        | lambda _ _ _ => simp [simple] at hsi
        | apply => simp [simple] at hsi
        | left _ => simp [simple] at hsi
        | right _ => simp [simple] at hsi
        | emptySet _ => simp [simple] at hsi
        | mem => simp [simple] at hsi
        | ticket => simp [simple] at hsi
        | readTicket => simp [simple] at hsi
        | splitTicket => simp [simple] at hsi
        | joinTickets => simp [simple] at hsi
        | pair => simp [simple] at hsi
        | unpair => simp [simple] at hsi
        | car => simp [simple] at hsi
        | cdr => simp [simple] at hsi
        | some => simp [simple] at hsi
        | none _ => simp [simple] at hsi
        | nil _ => simp [simple] at hsi
        | cons => simp [simple] at hsi
        | swap => simp [simple] at hsi
        | drop => simp [simple] at hsi
        | push _ _ => simp [simple] at hsi
        | emptyMap _ _ => simp [simple] at hsi
        | emptyBigMap _ _ => simp [simple] at hsi
        | get => simp [simple] at hsi
        | getAndUpdate => simp [simple] at hsi
        | update => simp [simple] at hsi
  theorem execSeq_typed {c : Cfg} (ok2 : CfgOk2 c) : ∀ (f : Nat) (is : List Instr) (pre act : List Val) (s s' : State)
      (Γ : List Ty) (r : TyRes), tySeq c is Γ = some r → Shape pre act s → STy act Γ → execSeq c f is s = .ok s' → ResOk pre r s'
    | 0, _, _, _, _, _, _, _, _, _, _, h => by simp [execSeq] at h
    | f + 1, [], pre, act, s, s', Γ, r, ht, hs, hty, h => by
      simp only [execSeq, Except.ok.injEq] at h; subst h
      simp only [tySeq, Option.some.injEq] at ht; subst ht
      exact ⟨_, _, rfl, hs, hty⟩
    | f + 1, i :: is, pre, act, s, s', Γ, r, ht, hs, hty, h => by
      simp only [execSeq, bind, Except.bind] at h
      cases h1 : exec c f i s with
      | error e => simp [h1] at h
      | ok s1 =>
        simp only [h1] at h
        simp only [tySeq] at ht
        cases hti : tyInstr c i Γ with
        | none => simp [hti] at ht
        | some ri =>
          obtain ⟨Γ1, act1, rfl, hs1, hty1⟩ := exec_typed ok2 f i pre act s s1 Γ ri hti hs hty h1
          simp only [hti] at ht
          exact execSeq_typed ok2 f is pre act1 s1 s' Γ1 r ht hs1 hty1 h
  theorem iterLoop_typed {c : Cfg} (ok2 : CfgOk2 c) : ∀ (f : Nat) (body : List Instr) (xs : List Val) (pre act : List Val)
      (s s' : State) (a : Ty) (Δ : List Ty) (rb : TyRes), tySeq c body (a :: Δ) = some rb → loopOk rb Δ = true → TypedAs a xs →
      Shape pre act s → STy act Δ → iterLoop c f body xs s = .ok s' → ∃ act', Shape pre act' s' ∧ STy act' Δ
    | 0, _, _, _, _, _, _, _, _, _, _, _, _, _, _, h => by simp [iterLoop] at h
    | f + 1, _, [], pre, act, s, s', a, Δ, rb, _, _, _, hs, hty, h => by
      simp only [iterLoop, Except.ok.injEq] at h; subst h
      exact ⟨_, hs, hty⟩
    | f + 1, body, x :: xs, pre, act, s, s', a, Δ, rb, hts, hl, hxs, hs, hty, h => by
      simp only [iterLoop, bind, Except.bind] at h
      cases hb : execSeq c f body (s.push x) with
      | error e => simp [hb] at h
      | ok sb =>
        simp only [hb] at h
        obtain ⟨hx1, hx2⟩ := hxs x List.mem_cons_self
        obtain ⟨Γ1, act1, rfl, hs1, hty1⟩ := execSeq_typed ok2 f body pre _ _ sb (a :: Δ) rb hts (hs.push x) (STy.cons hx2 hx1 hty) hb
        obtain rfl := loopOk_some hl
        exact iterLoop_typed ok2 f body xs pre act1 sb s' a Γ1 _ hts hl (fun y hy => hxs y (List.mem_cons_of_mem _ hy)) hs1 hty1 h
  theorem mapLoop_typed {c : Cfg} (ok2 : CfgOk2 c) : ∀ (f : Nat) (body : List Instr) (xs acc : List Val) (pre act : List Val)
      (s : State) (ys : List Val) (s' : State) (a b : Ty) (Δ : List Ty) (rb : TyRes), tySeq c body (a :: Δ) = some rb →
      loopOk rb (b :: Δ) = true → TypedAs a xs → TypedAs b acc → Shape pre act s → STy act Δ →
      mapLoop c f body xs acc s = .ok (ys, s') → ∃ act', Shape pre act' s' ∧ STy act' Δ ∧ TypedAs b ys
    | 0, _, _, _, _, _, _, _, _, _, _, _, _, _, _, _, _, _, _, h => by simp [mapLoop] at h
    | f + 1, _, [], acc, pre, act, s, ys, s', a, b, Δ, rb, _, _, _, hacc, hs, hty, h => by
      simp only [mapLoop, Except.ok.injEq, Prod.mk.injEq] at h
      obtain ⟨rfl, rfl⟩ := h
      exact ⟨_, hs, hty, fun y hy => hacc y (List.mem_reverse.mp hy)⟩
    | f + 1, body, x :: xs, acc, pre, act, s, ys, s', a, b, Δ, rb, hts, hl, hxs, hacc, hs, hty, h => by
      simp only [mapLoop, bind, Except.bind] at h
      cases hb : execSeq c f body (s.push x) with
      | error e => simp [hb] at h
      | ok sb =>
        simp only [hb] at h
        obtain ⟨hx1, hx2⟩ := hxs x List.mem_cons_self
        obtain ⟨Γ1, act1, rfl, hs1, hty1⟩ := execSeq_typed ok2 f body pre _ _ sb (a :: Δ) rb hts (hs.push x) (STy.cons hx2 hx1 hty) hb
        obtain rfl := loopOk_some hl
        obtain ⟨y, rest, rfl, hy1, hy2, hrest⟩ := hty1.cons_inv
        obtain ⟨hpop, hs2⟩ := hs1.pop1
        simp only [hpop] at h
        refine mapLoop_typed ok2 f body xs (y :: acc) pre rest _ ys s' a b Δ _ hts hl
          (fun z hz => hxs z (List.mem_cons_of_mem _ hz)) ?_ hs2 hrest h
        intro z hz
        rcases List.mem_cons.mp hz with rfl | hz
        · exact ⟨hy2, hy1⟩
        · exact hacc z hz
end

/-- the start state of a run over a well typed stack -/
theorem start_typed (items : List Val) (self : String) (hw : items.all Val.wt = true) :
    Shape [] items (State.start items self) ∧ STy items (items.map Val.typeOf) :=
  ⟨⟨rfl, rfl, rfl⟩, fun v hv => List.all_eq_true.mp hw v hv, rfl⟩

end Impl.Tickets
