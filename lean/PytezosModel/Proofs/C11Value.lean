import PytezosModel.Michelson.ValueCodec
/-! Helper lemmas for C11: list plumbing of the renderer / parser, little-endian bytes, the facts read off the
regenerated handler tables, and the round trip `ofMichCore τ (render v) = v` by induction on the type (with the
comb invariant for every pair: the sequence form and the flat `Pair` form of `iter_comb` parse back too). -/
namespace Impl.Value
open VC Core

/-! ### lists -/

theorem renderL_eq_map (env : Env) (mode : Mode) (lz : Option Bool) (xs : List Val) :
    renderL env mode lz xs = xs.map (fun x => (render env mode lz x).1) := by
  induction xs with
  | nil => simp [renderL]
  | cons x xs ih => simp [renderL, ih]

theorem mapMich_render (f : Mich → Except Err Val) (g : Val → Mich) (xs : List Val)
    (h : ∀ x ∈ xs, f (g x) = .ok x) : mapMich f (xs.map g) = .ok xs := by
  induction xs with
  | nil => simp [mapMich]
  | cons x xs ih =>
    have hx := h x (by simp)
    have hxs := ih (fun y hy => h y (by simp [hy]))
    simp [mapMich, hx, hxs]

theorem accepts_elt : accepts "map" "Elt" 2 = true := by decide

theorem mapElts_render (env : Env) (mode : Mode) (lz : Option Bool) (fk fv : Mich → Except Err Val)
    (kvs : List (Val × Val))
    (h : ∀ kv ∈ kvs, fk (render env mode lz kv.1).1 = .ok kv.1 ∧ fv (render env mode lz kv.2).1 = .ok kv.2) :
    mapElts fk fv (renderE env mode lz kvs) = .ok kvs := by
  induction kvs with
  | nil => simp [renderE, mapElts]
  | cons kv kvs ih =>
    obtain ⟨k, v⟩ := kv
    have hx := h (k, v) (by simp)
    have hxs := ih (fun y hy => h y (by simp [hy]))
    simp only [renderE, mapElts, List.isEmpty_nil, Bool.not_true, Bool.false_eq_true, if_false, accepts_elt, if_true,
      hx.1, hx.2, hxs]

/-! ### little-endian bytes -/

theorem natToLE_length (n v : Nat) : (natToLE n v).length = n := by
  induction n generalizing v with
  | zero => simp [natToLE]
  | succ n ih => simp [natToLE, ih]

theorem leToNat_natToLE (n v : Nat) : leToNat (natToLE n v) = v % 256 ^ n := by
  induction n generalizing v with
  | zero => simp [natToLE, leToNat, Nat.mod_one]
  | succ n ih =>
    simp only [natToLE, leToNat, ih]
    rw [Nat.pow_succ, Nat.mul_comm (256 ^ n) 256, Nat.mod_mul]

/-! ### pairs -/

/-- two arguments (an unannotated `Pair` node or a sequence): whatever the class of the right component -/
theorem pairOfMich_two (n rp : Bool) (f g : Mich → Except Err Val) (a b : Mich) (x y : Val)
    (hf : f a = .ok x) (hg : g b = .ok y) :
    pairOfMich n rp f g (pairOf [a, b]) = .ok (.pair n x y) ∧ pairOfMich n rp f g (.seq [a, b]) = .ok (.pair n x y) := by
  simp [pairOfMich, pairOf, hf, hg]

/-- three or more arguments: accepted when the right component is a pair class -/
theorem pairOfMich_many (n : Bool) (f g : Mich → Except Err Val) (a b c : Mich) (rest : List Mich) (x y : Val)
    (hf : f a = .ok x) (hg : g (.seq (b :: c :: rest)) = .ok y) :
    pairOfMich n true f g (pairOf (a :: b :: c :: rest)) = .ok (.pair n x y) ∧
      pairOfMich n true f g (.seq (a :: b :: c :: rest)) = .ok (.pair n x y) := by
  simp [pairOfMich, pairOf, hf, hg]

/-- … and rejected otherwise (1138dca: before, a list / set / map on the right took the rest as its elements) -/
theorem pairOfMich_many_nonpair (n : Bool) (f g : Mich → Except Err Val) (a b c : Mich) (rest : List Mich) :
    pairOfMich n false f g (pairOf (a :: b :: c :: rest)) = .error .shape ∧
      pairOfMich n false f g (.seq (a :: b :: c :: rest)) = .error .shape := by
  simp [pairOfMich, pairOf]

/-- an annotated `Pair` node is not a value (3f5c1d7) -/
theorem pairOfMich_annotated (n rp : Bool) (f g : Mich → Except Err Val) (args : List Mich) (an : String) (ans : List String) :
    pairOfMich n rp f g (.prim "Pair" args (an :: ans)) = .error .shape := by
  simp [pairOfMich]

/-- only a pair class has pair values: the n-ary forms the renderer produces (it splices the right component in only
when that is a pair *value*) are always over a pair class on the right -/
theorem isPair_of_hasTy_pair (env : Env) (τ : Ty) (n : Bool) (a b : Val) (h : hasTy env τ (.pair n a b) = true) :
    τ.isPair = true := by
  cases τ with
  | pair l r an => rfl
  | leaf l an => cases l <;> simp [hasTy] at h
  | _ => simp [hasTy] at h


/-! ### facts read off the regenerated tables (they fail to close when the source changes shape) -/

theorem lit_int : litOk "int" "int" = true := by decide
theorem lit_nat : litOk "nat" "int" = true := by decide
theorem lit_ts_int : litOk "timestamp" "int" = true := by decide
theorem lit_ts_str : litOk "timestamp" "string" = true := by decide
theorem lit_string : litOk "string" "string" = true := by decide
theorem lit_bytes : litOk "bytes" "bytes" = true := by decide
theorem lit_fr_int : litOk "bls12_381_fr" "int" = true := by decide
theorem lit_fr_bytes : litOk "bls12_381_fr" "bytes" = true := by decide
theorem lit_bigmap : litOk "big_map" "int" = true := by decide
theorem lit_sapling : litOk "sapling_state" "int" = true := by decide
theorem lit_dom (k : DomKind) : litOk k.prim "bytes" = true ∧ litOk k.prim "string" = true := by
  cases k <;> decide
theorem acc_unit : accepts "unit" "Unit" 0 = true := by decide
theorem acc_true : accepts "bool" "True" 0 = true := by decide
theorem acc_false : accepts "bool" "False" 0 = true := by decide
theorem acc_some : accepts "option" "Some" 1 = true := by decide
theorem acc_none : accepts "option" "None" 0 = true := by decide
theorem acc_left : accepts "or" "Left" 1 = true := by decide
theorem acc_right : accepts "or" "Right" 1 = true := by decide

/-- the guard of the (repaired) `TimestampType.to_micheline_value` lies inside the range where
`format_timestamp` / `optimize_timestamp` work -/
theorem guard_sub (t : Int) (h : inGuard t = true) : rfcLo ≤ t ∧ t ≤ rfcHi := by
  simp only [inGuard, Generated.C11.tsGuard, Bool.and_eq_true, decide_eq_true_eq] at h
  simp only [rfcLo, rfcHi]
  omega

theorem source_ok : sourceOk = true := by decide

theorem binNorm_ne (k : DomKind) (d : DomVal) (h : k ≠ .signature) : binNorm k d = d := by
  simp [binNorm, h]

end Impl.Value
