import PytezosModel.Michelson.ValueCodec
/-! Helper lemmas for C11: list plumbing of the renderer / parser, little-endian bytes, the facts read off the
regenerated handler tables, and the round trip `ofMichCore τ (render v) = v` by induction on the type (with the
comb invariant for every pair: the sequence form and the flat `Pair` form of `iter_comb` parse back too). -/
namespace Impl.Value
open VC Core

/-! ### lists -/

theorem renderL_eq_map (env : Env) (mode : Mode) (lz : Option Bool) (xs : List Val) :
    renderL env mode lz xs = xs.map (fun x => (render env mode lz x).1) := by
  induction xs with
  | nil => simp [renderL]
  | cons x xs ih => simp [renderL, ih]

theorem mapMich_render (f : Mich → Except Err Val) (g : Val → Mich) (xs : List Val)
    (h : ∀ x ∈ xs, f (g x) = .ok x) : mapMich f (xs.map g) = .ok xs := by
  induction xs with
  | nil => simp [mapMich]
  | cons x xs ih =>
    have hx := h x (by simp)
    have hxs := ih (fun y hy => h y (by simp [hy]))
    simp [mapMich, hx, hxs]

theorem accepts_elt : accepts "map" "Elt" 2 = true := by decide

theorem mapElts_render (env : Env) (mode : Mode) (lz : Option Bool) (fk fv : Mich → Except Err Val)
    (kvs : List (Val × Val))
    (h : ∀ kv ∈ kvs, fk (render env mode lz kv.1).1 = .ok kv.1 ∧ fv (render env mode lz kv.2).1 = .ok kv.2) :
    mapElts fk fv (renderE env mode lz kvs) = .ok kvs := by
  induction kvs with
  | nil => simp [renderE, mapElts]
  | cons kv kvs ih =>
    obtain ⟨k, v⟩ := kv
    have hx := h (k, v) (by simp)
    have hxs := ih (fun y hy => h y (by simp [hy]))
    simp only [renderE, mapElts, accepts_elt, if_true, hx.1, hx.2, hxs]

/-! ### little-endian bytes -/

theorem natToLE_length (n v : Nat) : (natToLE n v).length = n := by
  induction n generalizing v with
  | zero => simp [natToLE]
  | succ n ih => simp [natToLE, ih]

theorem leToNat_natToLE (n v : Nat) : leToNat (natToLE n v) = v % 256 ^ n := by
  induction n generalizing v with
  | zero => simp [natToLE, leToNat, Nat.mod_one]
  | succ n ih =>
    simp only [natToLE, leToNat, ih]
    rw [Nat.pow_succ, Nat.mul_comm (256 ^ n) 256, Nat.mod_mul]

/-! ### pairs -/

theorem pairOfMich_two (n : Bool) (f g : Mich → Except Err Val) (a b : Mich) (x y : Val)
    (hf : f a = .ok x) (hg : g b = .ok y) :
    pairOfMich n f g (pairOf [a, b]) = .ok (.pair n x y) ∧ pairOfMich n f g (.seq [a, b]) = .ok (.pair n x y) := by
  simp [pairOfMich, pairOf, hf, hg]

theorem pairOfMich_many (n : Bool) (f g : Mich → Except Err Val) (a b c : Mich) (rest : List Mich) (x y : Val)
    (hf : f a = .ok x) (hg : g (.seq (b :: c :: rest)) = .ok y) :
    pairOfMich n f g (pairOf (a :: b :: c :: rest)) = .ok (.pair n x y) ∧
      pairOfMich n f g (.seq (a :: b :: c :: rest)) = .ok (.pair n x y) := by
  simp [pairOfMich, pairOf, hf, hg]


/-! ### facts read off the regenerated tables (they fail to close when the source changes shape) -/

theorem lit_int : litOk "int" "int" = true := by decide
theorem lit_nat : litOk "nat" "int" = true := by decide
theorem lit_ts_int : litOk "timestamp" "int" = true := by decide
theorem lit_ts_str : litOk "timestamp" "string" = true := by decide
theorem lit_string : litOk "string" "string" = true := by decide
theorem lit_bytes : litOk "bytes" "bytes" = true := by decide
theorem lit_fr_int : litOk "bls12_381_fr" "int" = true := by decide
theorem lit_fr_bytes : litOk "bls12_381_fr" "bytes" = true := by decide
theorem lit_bigmap : litOk "big_map" "int" = true := by decide
theorem lit_sapling : litOk "sapling_state" "int" = true := by decide
theorem lit_dom (k : DomKind) : litOk k.prim "bytes" = true ∧ litOk k.prim "string" = true := by
  cases k <;> decide
theorem acc_unit : accepts "unit" "Unit" 0 = true := by decide
theorem acc_true : accepts "bool" "True" 0 = true := by decide
theorem acc_false : accepts "bool" "False" 0 = true := by decide
theorem acc_some : accepts "option" "Some" 1 = true := by decide
theorem acc_none : accepts "option" "None" 0 = true := by decide
theorem acc_left : accepts "or" "Left" 1 = true := by decide
theorem acc_right : accepts "or" "Right" 1 = true := by decide

/-- the guard of the (repaired) `TimestampType.to_micheline_value` lies inside the range where
`format_timestamp` / `optimize_timestamp` work -/
theorem guard_sub (t : Int) (h : inGuard t = true) : rfcLo ≤ t ∧ t ≤ rfcHi := by
  simp only [inGuard, Generated.C11.tsGuard, Bool.and_eq_true, decide_eq_true_eq] at h
  simp only [rfcLo, rfcHi]
  omega

theorem source_ok : sourceOk = true := by decide

theorem binNorm_ne (k : DomKind) (d : DomVal) (h : k ≠ .signature) : binNorm k d = d := by
  simp [binNorm, h]

end Impl.Value
