import PytezosModel.Proofs.C20TyBasic
/-! C20 — type preservation: inversion of value typing, and every "pop k, push the results" instruction -/
namespace Impl.Tickets

structure MapWT (kt vt : Ty) (keys : List Atom) (vals : List Val) : Prop where
  len : keys.length = vals.length
  nodup : keys.Nodup
  ktys : ∀ a ∈ keys, a.ty = kt
  vtys : ∀ v ∈ vals, v.typeOf = vt ∧ v.wt = true

theorem mapWT_iff {big : Bool} {kt vt : Ty} {keys : List Atom} {vals : List Val} {rm : List Atom} :
    (Val.map big kt vt keys vals rm).wt = true ↔ MapWT kt vt keys vals := by
  simp only [Val.wt, Bool.and_eq_true, beq_iff_eq, wtList_iff, List.all_eq_true, nodupB_iff]
  constructor
  · rintro ⟨⟨⟨h1, h2⟩, h3⟩, h4⟩; exact ⟨h1, h2, h3, h4⟩
  · rintro ⟨h1, h2, h3, h4⟩; exact ⟨⟨⟨h1, h2⟩, h3⟩, h4⟩

theorem inv_atom_ty {v : Val} {t : Ty} (hw : v.wt = true) (h : v.typeOf = t) (ha : t.isAtomTy = true) : ∃ a, v = .atom a ∧ a.ty = t := by
  cases v with
  | atom a => exact ⟨a, rfl, h⟩
  | ticket cls _ ct _ => simp only [Val.wt, beq_iff_eq] at hw; subst hw; simp only [Val.typeOf] at h; subst h; simp [Ty.isAtomTy] at ha
  | pair _ _ => simp only [Val.typeOf] at h; subst h; simp [Ty.isAtomTy] at ha
  | none _ => simp only [Val.typeOf] at h; subst h; simp [Ty.isAtomTy] at ha
  | some _ => simp only [Val.typeOf] at h; subst h; simp [Ty.isAtomTy] at ha
  | list _ _ => simp only [Val.typeOf] at h; subst h; simp [Ty.isAtomTy] at ha
  | map big _ _ _ _ _ => simp only [Val.typeOf] at h; subst h; cases big <;> simp [Ty.isAtomTy] at ha
  | left _ _ => simp only [Val.typeOf] at h; subst h; simp [Ty.isAtomTy] at ha
  | right _ _ => simp only [Val.typeOf] at h; subst h; simp [Ty.isAtomTy] at ha
  | set _ _ => simp only [Val.typeOf] at h; subst h; simp [Ty.isAtomTy] at ha
  | lam _ _ _ => simp [Val.wt] at hw

theorem inv_bool {v : Val} (hw : v.wt = true) (h : v.typeOf = .bool) : ∃ b, v = .atom (.bool b) := by
  obtain ⟨a, rfl, ha⟩ := inv_atom_ty hw h rfl
  cases a <;> simp [Atom.ty] at ha
  exact ⟨_, rfl⟩

theorem inv_or {v : Val} {a b : Ty} (hw : v.wt = true) (h : v.typeOf = .or a b) :
    (∃ x, v = .left x b ∧ x.wt = true ∧ x.typeOf = a) ∨ (∃ x, v = .right a x ∧ x.wt = true ∧ x.typeOf = b) := by
  cases v with
  | atom x => cases x <;> simp [Val.typeOf, Atom.ty] at h
  | ticket cls _ ct _ => simp only [Val.wt, beq_iff_eq] at hw; subst hw; simp [Val.typeOf] at h
  | pair _ _ => simp [Val.typeOf] at h
  | none _ => simp [Val.typeOf] at h
  | some _ => simp [Val.typeOf] at h
  | list _ _ => simp [Val.typeOf] at h
  | map big _ _ _ _ _ => cases big <;> simp [Val.typeOf] at h
  | left x rt =>
    simp only [Val.typeOf, Ty.or.injEq] at h; simp only [Val.wt] at hw
    obtain ⟨h1, rfl⟩ := h
    exact Or.inl ⟨x, rfl, hw, h1⟩
  | right lt x =>
    simp only [Val.typeOf, Ty.or.injEq] at h; simp only [Val.wt] at hw
    obtain ⟨rfl, h2⟩ := h
    exact Or.inr ⟨x, rfl, hw, h2⟩
  | set _ _ => simp [Val.typeOf] at h
  | lam _ _ _ => simp [Val.wt] at hw

theorem inv_set {v : Val} {t : Ty} (hw : v.wt = true) (h : v.typeOf = .set t) :
    ∃ xs, v = .set t xs ∧ xs.Nodup ∧ ∀ a ∈ xs, a.ty = t := by
  cases v with
  | atom x => cases x <;> simp [Val.typeOf, Atom.ty] at h
  | ticket cls _ ct _ => simp only [Val.wt, beq_iff_eq] at hw; subst hw; simp [Val.typeOf] at h
  | pair _ _ => simp [Val.typeOf] at h
  | none _ => simp [Val.typeOf] at h
  | some _ => simp [Val.typeOf] at h
  | list _ _ => simp [Val.typeOf] at h
  | map big _ _ _ _ _ => cases big <;> simp [Val.typeOf] at h
  | left _ _ => simp [Val.typeOf] at h
  | right _ _ => simp [Val.typeOf] at h
  | lam _ _ _ => simp [Val.wt] at hw
  | set t' xs =>
    simp only [Val.typeOf, Ty.set.injEq] at h; subst h
    simp only [Val.wt, Bool.and_eq_true, nodupB_iff, List.all_eq_true, beq_iff_eq] at hw
    exact ⟨xs, rfl, hw.1, hw.2⟩

theorem inv_nat {v : Val} (hw : v.wt = true) (h : v.typeOf = .nat) : ∃ n, v = .atom (.nat n) := by
  obtain ⟨a, rfl, ha⟩ := inv_atom_ty hw h rfl
  cases a <;> simp [Atom.ty] at ha
  exact ⟨_, rfl⟩

theorem inv_pair {v : Val} {a b : Ty} (hw : v.wt = true) (h : v.typeOf = .pair a b) :
    ∃ l r, v = .pair l r ∧ l.wt = true ∧ r.wt = true ∧ l.typeOf = a ∧ r.typeOf = b := by
  cases v with
  | atom x => cases x <;> simp [Val.typeOf, Atom.ty] at h
  | ticket cls _ ct _ => simp only [Val.wt, beq_iff_eq] at hw; subst hw; simp [Val.typeOf] at h
  | pair l r =>
    simp only [Val.wt, Bool.and_eq_true] at hw
    simp only [Val.typeOf, Ty.pair.injEq] at h
    exact ⟨l, r, rfl, hw.1, hw.2, h.1, h.2⟩
  | none _ => simp [Val.typeOf] at h
  | some _ => simp [Val.typeOf] at h
  | list _ _ => simp [Val.typeOf] at h
  | map big _ _ _ _ _ => cases big <;> simp [Val.typeOf] at h
  | left _ _ => simp [Val.typeOf] at h
  | right _ _ => simp [Val.typeOf] at h
  | set _ _ => simp [Val.typeOf] at h
  | lam _ _ _ => simp [Val.wt] at hw

theorem inv_option {v : Val} {t : Ty} (hw : v.wt = true) (h : v.typeOf = .option t) :
    v = .none t ∨ ∃ x, v = .some x ∧ x.wt = true ∧ x.typeOf = t := by
  cases v with
  | atom x => cases x <;> simp [Val.typeOf, Atom.ty] at h
  | ticket cls _ ct _ => simp only [Val.wt, beq_iff_eq] at hw; subst hw; simp [Val.typeOf] at h
  | pair _ _ => simp [Val.typeOf] at h
  | none _ => simp only [Val.typeOf, Ty.option.injEq] at h; subst h; exact Or.inl rfl
  | some x => simp only [Val.typeOf, Ty.option.injEq] at h; simp only [Val.wt] at hw; exact Or.inr ⟨x, rfl, hw, h⟩
  | list _ _ => simp [Val.typeOf] at h
  | map big _ _ _ _ _ => cases big <;> simp [Val.typeOf] at h
  | left _ _ => simp [Val.typeOf] at h
  | right _ _ => simp [Val.typeOf] at h
  | set _ _ => simp [Val.typeOf] at h
  | lam _ _ _ => simp [Val.wt] at hw

theorem inv_list {v : Val} {t : Ty} (hw : v.wt = true) (h : v.typeOf = .list t) :
    ∃ xs, v = .list t xs ∧ ∀ x ∈ xs, x.typeOf = t ∧ x.wt = true := by
  cases v with
  | atom x => cases x <;> simp [Val.typeOf, Atom.ty] at h
  | ticket cls _ ct _ => simp only [Val.wt, beq_iff_eq] at hw; subst hw; simp [Val.typeOf] at h
  | pair _ _ => simp [Val.typeOf] at h
  | none _ => simp [Val.typeOf] at h
  | some _ => simp [Val.typeOf] at h
  | list t' xs =>
    simp only [Val.typeOf, Ty.list.injEq] at h; subst h
    simp only [Val.wt] at hw
    exact ⟨xs, rfl, (wtList_iff _ _).mp hw⟩
  | map big _ _ _ _ _ => cases big <;> simp [Val.typeOf] at h
  | left _ _ => simp [Val.typeOf] at h
  | right _ _ => simp [Val.typeOf] at h
  | set _ _ => simp [Val.typeOf] at h
  | lam _ _ _ => simp [Val.wt] at hw

theorem inv_ticket {v : Val} {t : Ty} (hw : v.wt = true) (h : v.typeOf = .ticket t) :
    ∃ tk ct a, v = .ticket (.ticket t) tk ct a ∧ ct.ty = t := by
  cases v with
  | atom x => cases x <;> simp [Val.typeOf, Atom.ty] at h
  | ticket cls tk ct a =>
    simp only [Val.wt, beq_iff_eq] at hw; subst hw
    simp only [Val.typeOf, Ty.ticket.injEq] at h
    exact ⟨tk, ct, a, by rw [h], h⟩
  | pair _ _ => simp [Val.typeOf] at h
  | none _ => simp [Val.typeOf] at h
  | some _ => simp [Val.typeOf] at h
  | list _ _ => simp [Val.typeOf] at h
  | map big _ _ _ _ _ => cases big <;> simp [Val.typeOf] at h
  | left _ _ => simp [Val.typeOf] at h
  | right _ _ => simp [Val.typeOf] at h
  | set _ _ => simp [Val.typeOf] at h
  | lam _ _ _ => simp [Val.wt] at hw

theorem inv_map {v : Val} {k t : Ty} (big : Bool) (hw : v.wt = true)
    (h : v.typeOf = (if big then .bigMap k t else .map k t)) :
    ∃ keys vals rm, v = .map big k t keys vals rm ∧ MapWT k t keys vals := by
  cases v with
  | atom x => cases x <;> cases big <;> simp [Val.typeOf, Atom.ty] at h
  | ticket cls _ ct _ => simp only [Val.wt, beq_iff_eq] at hw; subst hw; cases big <;> simp [Val.typeOf] at h
  | pair _ _ => cases big <;> simp [Val.typeOf] at h
  | none _ => cases big <;> simp [Val.typeOf] at h
  | some _ => cases big <;> simp [Val.typeOf] at h
  | list _ _ => cases big <;> simp [Val.typeOf] at h
  | left _ _ => cases big <;> simp [Val.typeOf] at h
  | right _ _ => cases big <;> simp [Val.typeOf] at h
  | set _ _ => cases big <;> simp [Val.typeOf] at h
  | lam _ _ _ => simp [Val.wt] at hw
  | map big' k' t' keys vals rm =>
    have : big' = big ∧ k' = k ∧ t' = t := by
      cases big <;> cases big' <;> simp [Val.typeOf] at h <;> simp [h]
    obtain ⟨rfl, rfl, rfl⟩ := this
    exact ⟨keys, vals, rm, rfl, mapWT_iff.mp hw⟩


theorem cmp_toVal_typeOf : ∀ c : Cmp, c.toVal.typeOf = c.ty
  | .atom _ => rfl
  | .pair l r => by simp [Cmp.toVal, Val.typeOf, Cmp.ty, cmp_toVal_typeOf l, cmp_toVal_typeOf r]

theorem cmp_toVal_wt : ∀ c : Cmp, c.toVal.wt = true
  | .atom _ => rfl
  | .pair l r => by simp [Cmp.toVal, Val.wt, cmp_toVal_wt l, cmp_toVal_wt r]

theorem Shape.withMinted {pre act : List Val} {s : State} (h : Shape pre act s) (m : List (String × Cmp × Nat)) :
    Shape pre act { s with minted := m } := ⟨h.1, h.2.1, h.2.2⟩

theorem Shape.withTyped {pre act : List Val} {s : State} (h : Shape pre act s) :
    Shape pre act { s with typedStores := s.typedStores && true } := ⟨by simp [h.1], h.2.1, h.2.2⟩

theorem ty_ticket {c : Cfg} {pre act : List Val} {s s' : State} {Γ Γ' : List Ty}
    (ht : tySimple c .ticket Γ = some Γ') (hs : Shape pre act s) (hty : STy act Γ) (h : simple c s .ticket = some (.ok s')) :
    ∃ act', Shape pre act' s' ∧ STy act' Γ' := by
  simp only [tySimple] at ht
  split at ht
  · rename_i a Δ
    split at ht
    · rename_i hcmp
      simp only [Option.some.injEq] at ht; subst ht
      obtain ⟨item, r1, rfl, hx1, hx2, h1⟩ := hty.cons_inv
      obtain ⟨amt, r2, rfl, hy1, hy2, h2⟩ := h1.cons_inv
      obtain ⟨n, rfl⟩ := inv_nat hy1 hy2
      obtain ⟨hp, hs1⟩ := hs.pop2
      simp only [simple, hp, bind, Except.bind, Option.some.injEq] at h
      split at h
      · cases h
      · cases hc : item.toCmp with
        | none => simp [hc] at h
        | some ct =>
          simp only [hc] at h
          have hty' := toCmp_ty item ct hc
          split at h
          · simp only [pure, Except.pure, Except.ok.injEq] at h
            subst h
            exact ⟨_, (hs1.push _).withMinted _, STy.cons (by simp [Val.wt, hty']) (by simp [Val.typeOf, hx2]) h2⟩
          · simp only [pure, Except.pure, Except.ok.injEq] at h
            subst h
            exact ⟨_, hs1.push _, STy.cons rfl (by simp [Val.typeOf, hx2]) h2⟩
    · cases ht
  · cases ht

theorem ty_readTicket {c : Cfg} {pre act : List Val} {s s' : State} {Γ Γ' : List Ty}
    (ht : tySimple c .readTicket Γ = some Γ') (hs : Shape pre act s) (hty : STy act Γ) (h : simple c s .readTicket = some (.ok s')) :
    ∃ act', Shape pre act' s' ∧ STy act' Γ' := by
  simp only [tySimple] at ht
  split at ht
  · rename_i a Δ
    simp only [Option.some.injEq] at ht; subst ht
    obtain ⟨t, r1, rfl, hx1, hx2, h1⟩ := hty.cons_inv
    obtain ⟨tk, ct, n, rfl, hct⟩ := inv_ticket hx1 hx2
    obtain ⟨hp, hs1⟩ := hs.pop1
    simp only [simple, hp, bind, Except.bind, pure, Except.pure, Option.some.injEq, Except.ok.injEq] at h
    subst h
    refine ⟨_, (hs1.push _).push _, STy.cons ?_ ?_ (STy.cons hx1 hx2 h1)⟩
    · simp [Val.wt, cmp_toVal_wt]
    · simp [Val.typeOf, cmp_toVal_typeOf, hct, Atom.ty]
  · cases ht

theorem ty_splitTicket {c : Cfg} (ok2 : CfgOk2 c) {pre act : List Val} {s s' : State} {Γ Γ' : List Ty}
    (ht : tySimple c .splitTicket Γ = some Γ') (hs : Shape pre act s) (hty : STy act Γ) (h : simple c s .splitTicket = some (.ok s')) :
    ∃ act', Shape pre act' s' ∧ STy act' Γ' := by
  simp only [tySimple] at ht
  split at ht
  · rename_i a Δ
    simp only [Option.some.injEq] at ht; subst ht
    obtain ⟨t, r1, rfl, hx1, hx2, h1⟩ := hty.cons_inv
    obtain ⟨am, r2, rfl, hy1, hy2, h2⟩ := h1.cons_inv
    obtain ⟨tk, ct, A, rfl, hct⟩ := inv_ticket hx1 hx2
    obtain ⟨l, r, rfl, hl1, hr1, hl2, hr2⟩ := inv_pair hy1 hy2
    obtain ⟨x, rfl⟩ := inv_nat hl1 hl2
    obtain ⟨y, rfl⟩ := inv_nat hr1 hr2
    obtain ⟨hp, hs1⟩ := hs.pop2
    simp only [simple, hp, bind, Except.bind, Option.some.injEq] at h
    cases hsp : split c (.ticket a) tk ct A x y with
    | none =>
      simp only [hsp, pure, Except.pure, Except.ok.injEq] at h
      subst h
      exact ⟨_, hs1.push _, STy.cons rfl (by simp [Val.typeOf]) h2⟩
    | some lr =>
      obtain ⟨l, r⟩ := lr
      simp only [hsp, pure, Except.pure, Except.ok.injEq] at h
      subst h
      obtain ⟨_, _, rfl, rfl⟩ := split_some hsp
      refine ⟨_, hs1.push _, STy.cons ?_ ?_ h2⟩
      · simp [Val.wt, ok2.splitKeeps, hct]
      · simp [Val.typeOf, ok2.splitKeeps]
  · cases ht

theorem ty_joinTickets {c : Cfg} (ok2 : CfgOk2 c) {pre act : List Val} {s s' : State} {Γ Γ' : List Ty}
    (ht : tySimple c .joinTickets Γ = some Γ') (hs : Shape pre act s) (hty : STy act Γ) (h : simple c s .joinTickets = some (.ok s')) :
    ∃ act', Shape pre act' s' ∧ STy act' Γ' := by
  simp only [tySimple] at ht
  split at ht
  · rename_i a b Δ
    split at ht
    · rename_i hab
      have hab' : a = b := by simpa using hab
      subst hab'
      simp only [Option.some.injEq] at ht; subst ht
      obtain ⟨p, r1, rfl, hx1, hx2, h1⟩ := hty.cons_inv
      obtain ⟨l, r, rfl, hl1, hr1, hl2, hr2⟩ := inv_pair hx1 hx2
      obtain ⟨tk1, c1, a1, rfl, hc1⟩ := inv_ticket hl1 hl2
      obtain ⟨tk2, c2, a2, rfl, hc2⟩ := inv_ticket hr1 hr2
      obtain ⟨hp, hs1⟩ := hs.pop1
      simp only [simple, hp, bind, Except.bind, Option.some.injEq, bne_self_eq_false, Bool.false_eq_true, if_false] at h
      cases hj : join c (.ticket a) tk1 c1 a1 tk2 c2 a2 with
      | none =>
        simp only [hj, pure, Except.pure, Except.ok.injEq] at h
        subst h
        exact ⟨_, hs1.push _, STy.cons rfl (by simp [Val.typeOf]) h1⟩
      | some r =>
        simp only [hj] at h
        obtain ⟨_, _, rfl⟩ := join_some hj
        simp only [Val.typeOf, ok2.joinKeeps, if_true, pure, Except.pure] at h
        split at h
        · cases h
        · simp only [Except.ok.injEq] at h
          subst h
          refine ⟨_, hs1.push _, STy.cons ?_ ?_ h1⟩
          · simp [Val.wt, hc1]
          · simp [Val.typeOf]
    · cases ht
  · cases ht

theorem ty_pair {c : Cfg} {pre act : List Val} {s s' : State} {Γ Γ' : List Ty}
    (ht : tySimple c .pair Γ = some Γ') (hs : Shape pre act s) (hty : STy act Γ) (h : simple c s .pair = some (.ok s')) :
    ∃ act', Shape pre act' s' ∧ STy act' Γ' := by
  simp only [tySimple] at ht
  split at ht
  · simp only [Option.some.injEq] at ht; subst ht
    obtain ⟨x, r1, rfl, hx1, hx2, h1⟩ := hty.cons_inv
    obtain ⟨y, r2, rfl, hy1, hy2, h2⟩ := h1.cons_inv
    obtain ⟨hp, hs1⟩ := hs.pop2
    simp only [simple, hp, bind, Except.bind, pure, Except.pure, Option.some.injEq, Except.ok.injEq] at h
    subst h
    exact ⟨_, hs1.push _, STy.cons (by simp [Val.wt, hx1, hy1]) (by simp [Val.typeOf, hx2, hy2]) h2⟩
  · cases ht

theorem ty_unpair {c : Cfg} {pre act : List Val} {s s' : State} {Γ Γ' : List Ty}
    (ht : tySimple c .unpair Γ = some Γ') (hs : Shape pre act s) (hty : STy act Γ) (h : simple c s .unpair = some (.ok s')) :
    ∃ act', Shape pre act' s' ∧ STy act' Γ' := by
  simp only [tySimple] at ht
  split at ht
  · simp only [Option.some.injEq] at ht; subst ht
    obtain ⟨x, r1, rfl, hx1, hx2, h1⟩ := hty.cons_inv
    obtain ⟨l, r, rfl, hl1, hr1, hl2, hr2⟩ := inv_pair hx1 hx2
    obtain ⟨hp, hs1⟩ := hs.pop1
    simp only [simple, hp, bind, Except.bind, pure, Except.pure, Option.some.injEq, Except.ok.injEq] at h
    subst h
    exact ⟨_, (hs1.push _).push _, STy.cons hl1 hl2 (STy.cons hr1 hr2 h1)⟩
  · cases ht

theorem ty_car {c : Cfg} {pre act : List Val} {s s' : State} {Γ Γ' : List Ty}
    (ht : tySimple c .car Γ = some Γ') (hs : Shape pre act s) (hty : STy act Γ) (h : simple c s .car = some (.ok s')) :
    ∃ act', Shape pre act' s' ∧ STy act' Γ' := by
  simp only [tySimple] at ht
  split at ht
  · simp only [Option.some.injEq] at ht; subst ht
    obtain ⟨x, r1, rfl, hx1, hx2, h1⟩ := hty.cons_inv
    obtain ⟨l, r, rfl, hl1, hr1, hl2, hr2⟩ := inv_pair hx1 hx2
    obtain ⟨hp, hs1⟩ := hs.pop1
    simp only [simple, hp, bind, Except.bind, pure, Except.pure, Option.some.injEq, Except.ok.injEq] at h
    subst h
    exact ⟨_, hs1.push _, STy.cons hl1 hl2 h1⟩
  · cases ht

theorem ty_cdr {c : Cfg} {pre act : List Val} {s s' : State} {Γ Γ' : List Ty}
    (ht : tySimple c .cdr Γ = some Γ') (hs : Shape pre act s) (hty : STy act Γ) (h : simple c s .cdr = some (.ok s')) :
    ∃ act', Shape pre act' s' ∧ STy act' Γ' := by
  simp only [tySimple] at ht
  split at ht
  · simp only [Option.some.injEq] at ht; subst ht
    obtain ⟨x, r1, rfl, hx1, hx2, h1⟩ := hty.cons_inv
    obtain ⟨l, r, rfl, hl1, hr1, hl2, hr2⟩ := inv_pair hx1 hx2
    obtain ⟨hp, hs1⟩ := hs.pop1
    simp only [simple, hp, bind, Except.bind, pure, Except.pure, Option.some.injEq, Except.ok.injEq] at h
    subst h
    exact ⟨_, hs1.push _, STy.cons hr1 hr2 h1⟩
  · cases ht

theorem ty_some {c : Cfg} {pre act : List Val} {s s' : State} {Γ Γ' : List Ty}
    (ht : tySimple c .some Γ = some Γ') (hs : Shape pre act s) (hty : STy act Γ) (h : simple c s .some = some (.ok s')) :
    ∃ act', Shape pre act' s' ∧ STy act' Γ' := by
  simp only [tySimple] at ht
  split at ht
  · simp only [Option.some.injEq] at ht; subst ht
    obtain ⟨x, r1, rfl, hx1, hx2, h1⟩ := hty.cons_inv
    obtain ⟨hp, hs1⟩ := hs.pop1
    simp only [simple, hp, bind, Except.bind, pure, Except.pure, Option.some.injEq, Except.ok.injEq] at h
    subst h
    exact ⟨_, hs1.push _, STy.cons (by simp [Val.wt, hx1]) (by simp [Val.typeOf, hx2]) h1⟩
  · cases ht

theorem ty_none {c : Cfg} {t : Ty} {pre act : List Val} {s s' : State} {Γ Γ' : List Ty}
    (ht : tySimple c (.none t) Γ = some Γ') (hs : Shape pre act s) (hty : STy act Γ) (h : simple c s (.none t) = some (.ok s')) :
    ∃ act', Shape pre act' s' ∧ STy act' Γ' := by
  simp only [tySimple] at ht
  simp only [Option.some.injEq] at ht; subst ht
  simp only [simple, pure, Except.pure, Option.some.injEq, Except.ok.injEq] at h
  subst h
  exact ⟨_, hs.push _, STy.cons rfl rfl hty⟩

theorem ty_nil {c : Cfg} {t : Ty} {pre act : List Val} {s s' : State} {Γ Γ' : List Ty}
    (ht : tySimple c (.nil t) Γ = some Γ') (hs : Shape pre act s) (hty : STy act Γ) (h : simple c s (.nil t) = some (.ok s')) :
    ∃ act', Shape pre act' s' ∧ STy act' Γ' := by
  simp only [tySimple] at ht
  simp only [Option.some.injEq] at ht; subst ht
  simp only [simple, pure, Except.pure, Option.some.injEq, Except.ok.injEq] at h
  subst h
  exact ⟨_, hs.push _, STy.cons rfl rfl hty⟩

theorem ty_cons {c : Cfg} {pre act : List Val} {s s' : State} {Γ Γ' : List Ty}
    (ht : tySimple c .cons Γ = some Γ') (hs : Shape pre act s) (hty : STy act Γ) (h : simple c s .cons = some (.ok s')) :
    ∃ act', Shape pre act' s' ∧ STy act' Γ' := by
  simp only [tySimple] at ht
  split at ht
  · rename_i a b Δ
    split at ht
    · rename_i hab
      have hab' : a = b := by simpa using hab
      subst hab'
      simp only [Option.some.injEq] at ht; subst ht
      obtain ⟨x, r1, rfl, hx1, hx2, h1⟩ := hty.cons_inv
      obtain ⟨l, r2, rfl, hy1, hy2, h2⟩ := h1.cons_inv
      obtain ⟨xs, rfl, hxs⟩ := inv_list hy1 hy2
      obtain ⟨hp, hs1⟩ := hs.pop2
      simp only [simple, hp, bind, Except.bind, Option.some.injEq] at h
      split at h
      · cases h
      · simp only [pure, Except.pure, Except.ok.injEq] at h
        subst h
        refine ⟨_, hs1.push _, STy.cons ?_ rfl h2⟩
        simp only [Val.wt, Val.wtList, Bool.and_eq_true, beq_iff_eq]
        exact ⟨⟨hx2, hx1⟩, (wtList_iff _ _).mpr hxs⟩
    · cases ht
  · cases ht

theorem ty_swap {c : Cfg} {pre act : List Val} {s s' : State} {Γ Γ' : List Ty}
    (ht : tySimple c .swap Γ = some Γ') (hs : Shape pre act s) (hty : STy act Γ) (h : simple c s .swap = some (.ok s')) :
    ∃ act', Shape pre act' s' ∧ STy act' Γ' := by
  simp only [tySimple] at ht
  split at ht
  · simp only [Option.some.injEq] at ht; subst ht
    obtain ⟨x, r1, rfl, hx1, hx2, h1⟩ := hty.cons_inv
    obtain ⟨y, r2, rfl, hy1, hy2, h2⟩ := h1.cons_inv
    obtain ⟨hp, hs1⟩ := hs.pop2
    simp only [simple, hp, bind, Except.bind, pure, Except.pure, Option.some.injEq, Except.ok.injEq] at h
    subst h
    exact ⟨_, (hs1.push _).push _, STy.cons hy1 hy2 (STy.cons hx1 hx2 h2)⟩
  · cases ht

theorem ty_drop {c : Cfg} {pre act : List Val} {s s' : State} {Γ Γ' : List Ty}
    (ht : tySimple c .drop Γ = some Γ') (hs : Shape pre act s) (hty : STy act Γ) (h : simple c s .drop = some (.ok s')) :
    ∃ act', Shape pre act' s' ∧ STy act' Γ' := by
  simp only [tySimple] at ht
  split at ht
  · simp only [Option.some.injEq] at ht; subst ht
    obtain ⟨x, r1, rfl, hx1, hx2, h1⟩ := hty.cons_inv
    obtain ⟨hp, hs1⟩ := hs.pop1
    simp only [simple, hp, bind, Except.bind, pure, Except.pure, Option.some.injEq, Except.ok.injEq] at h
    subst h
    exact ⟨_, hs1, h1⟩
  · cases ht

theorem ty_push {c : Cfg} {t : Ty} {v : Val} {pre act : List Val} {s s' : State} {Γ Γ' : List Ty}
    (ht : tySimple c (.push t v) Γ = some Γ') (hs : Shape pre act s) (hty : STy act Γ) (h : simple c s (.push t v) = some (.ok s')) :
    ∃ act', Shape pre act' s' ∧ STy act' Γ' := by
  simp only [tySimple] at ht
  split at ht
  · rename_i hv
    simp only [Bool.and_eq_true, beq_iff_eq] at hv
    simp only [Option.some.injEq] at ht; subst ht
    simp only [simple, Option.some.injEq] at h
    split at h
    · cases h
    · split at h
      · simp only [pure, Except.pure, Except.ok.injEq] at h
        subst h
        exact ⟨_, hs.push _, STy.cons hv.1 hv.2 hty⟩
      · cases h
  · cases ht

theorem ty_emptyMap {c : Cfg} {k v : Ty} {pre act : List Val} {s s' : State} {Γ Γ' : List Ty}
    (ht : tySimple c (.emptyMap k v) Γ = some Γ') (hs : Shape pre act s) (hty : STy act Γ) (h : simple c s (.emptyMap k v) = some (.ok s')) :
    ∃ act', Shape pre act' s' ∧ STy act' Γ' := by
  simp only [tySimple] at ht
  simp only [Option.some.injEq] at ht; subst ht
  simp only [simple, Option.some.injEq] at h
  split at h
  · simp only [pure, Except.pure, Except.ok.injEq] at h
    subst h
    exact ⟨_, hs.push _, STy.cons (by simp [Val.wt, Val.wtList, nodupB]) (by simp [Val.typeOf]) hty⟩
  · cases h

theorem ty_emptyBigMap {c : Cfg} {k v : Ty} {pre act : List Val} {s s' : State} {Γ Γ' : List Ty}
    (ht : tySimple c (.emptyBigMap k v) Γ = some Γ') (hs : Shape pre act s) (hty : STy act Γ) (h : simple c s (.emptyBigMap k v) = some (.ok s')) :
    ∃ act', Shape pre act' s' ∧ STy act' Γ' := by
  simp only [tySimple] at ht
  simp only [Option.some.injEq] at ht; subst ht
  simp only [simple, Option.some.injEq] at h
  split at h
  · simp only [pure, Except.pure, Except.ok.injEq] at h
    subst h
    exact ⟨_, hs.push _, STy.cons (by simp [Val.wt, Val.wtList, nodupB]) (by simp [Val.typeOf]) hty⟩
  · cases h

theorem ty_left {c : Cfg} {t : Ty} {pre act : List Val} {s s' : State} {Γ Γ' : List Ty}
    (ht : tySimple c (.left t) Γ = some Γ') (hs : Shape pre act s) (hty : STy act Γ) (h : simple c s (.left t) = some (.ok s')) :
    ∃ act', Shape pre act' s' ∧ STy act' Γ' := by
  simp only [tySimple] at ht
  split at ht
  · simp only [Option.some.injEq] at ht; subst ht
    obtain ⟨x, r1, rfl, hx1, hx2, h1⟩ := hty.cons_inv
    obtain ⟨hp, hs1⟩ := hs.pop1
    simp only [simple, hp, bind, Except.bind, pure, Except.pure, Option.some.injEq, Except.ok.injEq] at h
    subst h
    exact ⟨_, hs1.push _, STy.cons (by simp [Val.wt, hx1]) (by simp [Val.typeOf, hx2]) h1⟩
  · cases ht

theorem ty_right {c : Cfg} {t : Ty} {pre act : List Val} {s s' : State} {Γ Γ' : List Ty}
    (ht : tySimple c (.right t) Γ = some Γ') (hs : Shape pre act s) (hty : STy act Γ) (h : simple c s (.right t) = some (.ok s')) :
    ∃ act', Shape pre act' s' ∧ STy act' Γ' := by
  simp only [tySimple] at ht
  split at ht
  · simp only [Option.some.injEq] at ht; subst ht
    obtain ⟨x, r1, rfl, hx1, hx2, h1⟩ := hty.cons_inv
    obtain ⟨hp, hs1⟩ := hs.pop1
    simp only [simple, hp, bind, Except.bind, pure, Except.pure, Option.some.injEq, Except.ok.injEq] at h
    subst h
    exact ⟨_, hs1.push _, STy.cons (by simp [Val.wt, hx1]) (by simp [Val.typeOf, hx2]) h1⟩
  · cases ht

theorem ty_emptySet {c : Cfg} {t : Ty} {pre act : List Val} {s s' : State} {Γ Γ' : List Ty}
    (ht : tySimple c (.emptySet t) Γ = some Γ') (hs : Shape pre act s) (hty : STy act Γ)
    (h : simple c s (.emptySet t) = some (.ok s')) : ∃ act', Shape pre act' s' ∧ STy act' Γ' := by
  simp only [tySimple] at ht
  simp only [Option.some.injEq] at ht; subst ht
  simp only [simple, Option.some.injEq] at h
  split at h
  · simp only [pure, Except.pure, Except.ok.injEq] at h
    subst h
    exact ⟨_, hs.push _, STy.cons (by simp [Val.wt, nodupB]) (by simp [Val.typeOf]) hty⟩
  · cases h

end Impl.Tickets
