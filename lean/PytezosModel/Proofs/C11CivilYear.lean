import PytezosModel.Michelson.CivilDate
/-! C11 — the one non-linear-looking step of Hinnant's `civil_from_days`: the quotient
`(doe - doe/1460 + doe/36524 - doe/146096) / 365` is the year of the era.  The arithmetic is linear with division by
literals; `omega` decides each of the 400 years of the era separately (core tactics only). -/
namespace Civil

/-- the March-based year-of-era `yoe` ends with a 29 February -/
def longYoe (yoe : Int) : Prop := yoe % 4 = 3 ∧ (yoe % 100 ≠ 99 ∨ yoe = 399)

/-! ### the year of the era -/

theorem yoe_range (doe : Int) (h0 : 0 ≤ doe) (h1 : doe ≤ 146096) : 0 ≤ yoeOfDoe doe ∧ yoeOfDoe doe ≤ 399 := by
  unfold yoeOfDoe; omega

/-- what has to hold of the day of the year, given that Hinnant's quotient is `y` -/
def DoySpec (doe y : Int) : Prop :=
  0 ≤ doe - yearStart y ∧ doe - yearStart y ≤ 365 ∧ (doe - yearStart y = 365 → longYoe y)

theorem doy_c0 (doe : Int) (j : Nat) (hj : j < 100) (hy : yoeOfDoe doe = j) (h0 : 0 ≤ doe) (h1 : doe ≤ 146096) :
    DoySpec doe j := by
  unfold DoySpec yearStart longYoe
  unfold yoeOfDoe at hy
  iterate 100 (rcases j with _ | j; · omega)
  omega

theorem doy_c1 (doe : Int) (j : Nat) (hj : j < 100) (hy : yoeOfDoe doe = 100 + j) (h0 : 0 ≤ doe) (h1 : doe ≤ 146096) :
    DoySpec doe (100 + j) := by
  unfold DoySpec yearStart longYoe
  unfold yoeOfDoe at hy
  iterate 100 (rcases j with _ | j; · omega)
  omega

theorem doy_c2 (doe : Int) (j : Nat) (hj : j < 100) (hy : yoeOfDoe doe = 200 + j) (h0 : 0 ≤ doe) (h1 : doe ≤ 146096) :
    DoySpec doe (200 + j) := by
  unfold DoySpec yearStart longYoe
  unfold yoeOfDoe at hy
  iterate 100 (rcases j with _ | j; · omega)
  omega

theorem doy_c3 (doe : Int) (j : Nat) (hj : j < 100) (hy : yoeOfDoe doe = 300 + j) (h0 : 0 ≤ doe) (h1 : doe ≤ 146096) :
    DoySpec doe (300 + j) := by
  unfold DoySpec yearStart longYoe
  unfold yoeOfDoe at hy
  iterate 100 (rcases j with _ | j; · omega)
  omega

/-- **Hinnant's quotient is the year**: the day of the era falls inside the year it computes -/
theorem doy_spec (doe : Int) (h0 : 0 ≤ doe) (h1 : doe ≤ 146096) : DoySpec doe (yoeOfDoe doe) := by
  obtain ⟨hy0, hy1⟩ := yoe_range doe h0 h1
  obtain ⟨n, hn⟩ : ∃ n : Nat, yoeOfDoe doe = n := ⟨(yoeOfDoe doe).toNat, by omega⟩
  rw [hn]
  by_cases c0 : n < 100
  · exact doy_c0 doe n c0 hn h0 h1
  by_cases c1 : n < 200
  · have := doy_c1 doe (n - 100) (by omega) (by omega) h0 h1
    have e : (100 : Int) + ((n - 100 : Nat) : Int) = n := by omega
    rwa [e] at this
  by_cases c2 : n < 300
  · have := doy_c2 doe (n - 200) (by omega) (by omega) h0 h1
    have e : (200 : Int) + ((n - 200 : Nat) : Int) = n := by omega
    rwa [e] at this
  · have := doy_c3 doe (n - 300) (by omega) (by omega) h0 h1
    have e : (300 : Int) + ((n - 300 : Nat) : Int) = n := by omega
    rwa [e] at this

end Civil
