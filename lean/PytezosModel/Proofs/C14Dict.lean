import PytezosModel.Proofs.C14Coll
/-! The reference structure of C14 is a dictionary: lookup after ordered insertion / deletion (on strictly sorted lists). -/
namespace Coll
open Impl.Coll Spec.Coll List

section
variable {κ ν : Type} {eq lt : κ → κ → Bool}

theorem findKV_none_of_lt (h : StrictTotal eq lt) {k' : κ} {e : κ × ν} {es : List (κ × ν)}
    (hlt : lt k' e.1 = true) : findKV lt k' (e :: es) = none := by
  unfold findKV
  rw [if_neg (by rw [h.asymm hlt]; simp), if_pos hlt]

theorem find_insertKV_same (h : StrictTotal eq lt) (k : κ) (v : ν) : ∀ m : List (κ × ν), StrictSorted lt (keys m) →
    findKV lt k (insertKV lt k v m) = some v
  | [], _ => by simp [insertKV, findKV, h.irrefl]
  | e :: es, hs => by
    have hs' : StrictSorted lt (e.1 :: keys es) := hs
    have hc := strict_cons hs'
    unfold insertKV
    by_cases h1 : lt k e.1 = true
    · rw [if_pos h1]; simp [findKV, h.irrefl]
    · rw [if_neg h1]
      by_cases h2 : lt e.1 k = true
      · rw [if_pos h2]
        unfold findKV
        rw [if_pos h2]
        exact find_insertKV_same h k v es hc.2
      · rw [if_neg h2]
        rcases h.total k e.1 with e0 | e1 | e1
        · subst e0; simp [findKV, h.irrefl]
        · exact absurd e1 h1
        · exact absurd e1 h2

theorem find_insertKV_other (h : StrictTotal eq lt) (k k' : κ) (v : ν) (hne : k' ≠ k) : ∀ m : List (κ × ν),
    StrictSorted lt (keys m) → findKV lt k' (insertKV lt k v m) = findKV lt k' m
  | [], _ => by
    rcases h.total k' k with e0 | e1 | e1
    · exact absurd e0 hne
    · simp [insertKV, findKV, h.asymm e1, e1]
    · simp [insertKV, findKV, e1]
  | e :: es, hs => by
    have hs' : StrictSorted lt (e.1 :: keys es) := hs
    have hc := strict_cons hs'
    unfold insertKV
    by_cases h1 : lt k e.1 = true
    · rw [if_pos h1]
      rcases h.total k' k with e0 | e1 | e1
      · exact absurd e0 hne
      · -- k' < k < e.1
        have h3 : lt k' e.1 = true := h.trans _ _ _ e1 h1
        rw [findKV_none_of_lt h (e := (k, v)) e1, findKV_none_of_lt h h3]
      · conv => lhs; unfold findKV
        rw [if_pos e1]
    · rw [if_neg h1]
      by_cases h2 : lt e.1 k = true
      · rw [if_pos h2]
        conv => lhs; unfold findKV
        conv => rhs; unfold findKV
        by_cases h3 : lt e.1 k' = true
        · rw [if_pos h3, if_pos h3]; exact find_insertKV_other h k k' v hne es hc.2
        · rw [if_neg h3, if_neg h3]
      · rw [if_neg h2]
        have hk : k = e.1 := by
          rcases h.total k e.1 with e0 | e1 | e1
          · exact e0
          · exact absurd e1 h1
          · exact absurd e1 h2
        conv => lhs; unfold findKV
        conv => rhs; unfold findKV
        simp only
        by_cases h3 : lt e.1 k' = true
        · rw [if_pos h3, if_pos h3]
        · rw [if_neg h3, if_neg h3]
          by_cases h4 : lt k' e.1 = true
          · rw [if_pos h4, if_pos h4]
          · rcases h.total k' e.1 with e0 | e1 | e1
            · exact absurd (e0.trans hk.symm) hne
            · exact absurd e1 h4
            · exact absurd e1 h3

theorem find_eraseKV_same (h : StrictTotal eq lt) (k : κ) : ∀ m : List (κ × ν), StrictSorted lt (keys m) →
    findKV lt k (eraseKV lt k m) = none
  | [], _ => rfl
  | e :: es, hs => by
    have hs' : StrictSorted lt (e.1 :: keys es) := hs
    have hc := strict_cons hs'
    unfold eraseKV
    by_cases h1 : lt e.1 k = true
    · rw [if_pos h1]
      unfold findKV
      rw [if_pos h1]
      exact find_eraseKV_same h k es hc.2
    · rw [if_neg h1]
      by_cases h2 : lt k e.1 = true
      · rw [if_pos h2]; exact findKV_none_of_lt h h2
      · rw [if_neg h2]
        have hk : k = e.1 := by
          rcases h.total k e.1 with e0 | e1 | e1
          · exact e0
          · exact absurd e1 h2
          · exact absurd e1 h1
        cases es with
        | nil => rfl
        | cons e' es' =>
          have : lt k e'.1 = true := hk ▸ hc.1 e'.1 (by simp [keys])
          exact findKV_none_of_lt h this

theorem find_eraseKV_other (h : StrictTotal eq lt) (k k' : κ) (hne : k' ≠ k) : ∀ m : List (κ × ν),
    StrictSorted lt (keys m) → findKV lt k' (eraseKV lt k m) = findKV lt k' m
  | [], _ => rfl
  | e :: es, hs => by
    have hs' : StrictSorted lt (e.1 :: keys es) := hs
    have hc := strict_cons hs'
    unfold eraseKV
    by_cases h1 : lt e.1 k = true
    · rw [if_pos h1]
      conv => lhs; unfold findKV
      conv => rhs; unfold findKV
      by_cases h3 : lt e.1 k' = true
      · rw [if_pos h3, if_pos h3]; exact find_eraseKV_other h k k' hne es hc.2
      · rw [if_neg h3, if_neg h3]
    · rw [if_neg h1]
      by_cases h2 : lt k e.1 = true
      · rw [if_pos h2]
      · rw [if_neg h2]
        have hk : k = e.1 := by
          rcases h.total k e.1 with e0 | e1 | e1
          · exact e0
          · exact absurd e1 h2
          · exact absurd e1 h1
        conv => rhs; unfold findKV
        rcases h.total k' e.1 with e0 | e1 | e1
        · exact absurd (e0.trans hk.symm) hne
        · -- k' < e.1 < everything in es
          rw [if_neg (by rw [h.asymm e1]; simp), if_pos e1]
          cases es with
          | nil => rfl
          | cons e' es' =>
            have : lt k' e'.1 = true := h.trans _ _ _ e1 (hc.1 e'.1 (by simp [keys]))
            exact findKV_none_of_lt h this
        · rw [if_pos e1]

end
end Coll
