import PytezosModel.Proofs.C20Loop
/-! C20: every successful evaluation is a `Good` step — induction on the fuel, mutually over instructions, sequences,
the ITER loop and the MAP loop -/
namespace Impl.Tickets

theorem withExtra_fields (s : State) (xs : List Val) :
    (s.withExtra xs).self = s.self ∧ (s.withExtra xs).typedStores = s.typedStores ∧ (s.withExtra xs).minted = s.minted
      ∧ (s.withExtra xs).items = xs ++ s.items := ⟨rfl, rfl, rfl, rfl⟩

theorem good_unload {s s1 : State} (src : Val) (els : List Val)
    (hpop : s.items.Perm (src :: s1.items) ∧ s1.self = s.self ∧ s1.typedStores = s.typedStores ∧ s1.minted = s.minted)
    (hv : src.consistent = true → LC els ∧ (∀ k, LS k els ≤ ticketSum k src) ∧ (noZero src = true → LN els)) :
    Good s (s1.withExtra els) := by
  refine Good.popPush [src] els [] true hpop (List.Perm.refl _) rfl (by simp [State.withExtra]) rfl ?_
  intro _ hc
  obtain ⟨v1, v2, v3⟩ := hv (LC_cons.mp hc).1
  refine ⟨v1, fun k => ?_, fun hz => v3 (LN_cons.mp hz).1⟩
  have := v2 k
  simp only [LS_cons, LS_nil, mintedSum]; omega

theorem good_load {s2 : State} (ys : List Val) (v : Val)
    (hv : LC ys → v.consistent = true ∧ (∀ k, ticketSum k v ≤ LS k ys) ∧ (LN ys → noZero v = true)) :
    Good (s2.withExtra ys) (s2.push v) := by
  refine Good.frame ys [v] s2.items [] true (List.Perm.refl _) (push_perm _ _) rfl (by simp [State.withExtra, push_typed]) rfl ?_
  intro _ hc
  obtain ⟨v1, v2, v3⟩ := hv hc
  refine ⟨LC_cons.mpr ⟨v1, LC_nil⟩, fun k => ?_, fun hz => LN_cons.mpr ⟨v3 hz, LN_nil⟩⟩
  have := v2 k
  simp only [LS_cons, LS_nil, mintedSum]; omega

/-- close a chain with a last step whose justification may use the consistency of the *initial* stack -/
theorem good_close {s m t : State} (G : Good s m) (hs : t.self = m.self) (ht : t.typedStores = m.typedStores)
    (hmn : t.minted = m.minted)
    (hfin : LC s.items → LC m.items → LC t.items ∧ (∀ k, t.sum k ≤ m.sum k) ∧ (LN m.items → LN t.items)) : Good s t := by
  refine ⟨hs.trans G.self_eq, fun h => G.typed_mono (ht ▸ h), ?_, fun ht' hc => ?_⟩
  · obtain ⟨n, hn⟩ := G.minted_ext; exact ⟨n, by rw [hmn, hn]⟩
  · obtain ⟨c1, m1, z1⟩ := G.inv (ht ▸ ht') hc
    obtain ⟨c2, m2, z2⟩ := hfin hc c1
    refine ⟨c2, fun k => ?_, fun hz => z2 (z1 hz)⟩
    have := m1 k; have := m2 k
    rw [hmn]; omega

mutual
  theorem exec_good {c : Cfg} (ok : CfgOk c) : ∀ (f : Nat) (i : Instr) (s s' : State), exec c f i s = .ok s' → Good s s'
    | 0, _, _, _, h => by simp [exec] at h
    | f + 1, i, s, s', h => by
      cases hs : simple c s i with
      | some r =>
        simp only [exec, hs] at h
        exact simple_good ok i (by rw [hs, h])
      | none =>
        cases i with
        | dup =>
          simp only [exec, hs, bind, Except.bind] at h
          cases hpk : s.peek with
          | error e => simp [hpk] at h
          | ok top =>
            simp only [hpk] at h
            cases hd : duplicate c top with
            | error e => simp [hd] at h
            | ok r =>
              simp only [hd, pure, Except.pure, Except.ok.injEq] at h
              subst h
              exact good_dupLike ok ⟨rfl, rfl, rfl, rfl⟩ hpk hd (push_perm _ _) rfl rfl rfl
        | dupN n =>
          simp only [exec, hs] at h
          split at h
          · cases h
          · simp only [bind, Except.bind] at h
            cases hp : s.protect (n - 1) with
            | error e => simp [hp] at h
            | ok s1 =>
              simp only [hp] at h
              cases hpk : s1.peek with
              | error e => simp [hpk] at h
              | ok top =>
                simp only [hpk] at h
                cases hd : duplicate c top with
                | error e => simp [hd] at h
                | ok r =>
                  simp only [hd] at h
                  cases hr : s1.restore (n - 1) with
                  | error e => simp [hr] at h
                  | ok s2 =>
                    simp only [hr, pure, Except.pure, Except.ok.injEq] at h
                    subst h
                    have c1 := protect_sameCore hp
                    have c2 := restore_sameCore hr
                    refine good_dupLike ok c1 hpk hd ?_ ?_ ?_ ?_
                    · have := push_perm s2 r; rw [c2.1, c1.1] at this; exact this
                    · rw [push_self, c2.2.1, c1.2.1]
                    · rw [push_typed, c2.2.2.1, c1.2.2.1]
                    · rw [push_minted, c2.2.2.2, c1.2.2.2]
        | dig n =>
          simp only [exec, hs, bind, Except.bind] at h
          cases hp : s.protect n with
          | error e => simp [hp] at h
          | ok s1 =>
            simp only [hp] at h
            cases hpop : s1.pop1 with
            | error e => simp [hpop] at h
            | ok rs =>
              obtain ⟨r, s2⟩ := rs
              simp only [hpop] at h
              cases hr : s2.restore n with
              | error e => simp [hr] at h
              | ok s3 =>
                simp only [hr, pure, Except.pure, Except.ok.injEq] at h
                subst h
                have c1 := protect_sameCore hp
                have c2 := restore_sameCore hr
                obtain ⟨p1, p2, p3, p4⟩ := pop1_spec hpop
                refine Good.perm ?_ ?_ ?_ ?_
                · have := push_perm s3 r
                  rw [c2.1] at this
                  rw [← c1.1]
                  exact (p1.trans this.symm)
                · rw [push_self, c2.2.1, p2, c1.2.1]
                · rw [push_typed, c2.2.2.1, p3, c1.2.2.1]
                · rw [push_minted, c2.2.2.2, p4, c1.2.2.2]
        | dug n =>
          simp only [exec, hs, bind, Except.bind] at h
          cases hpop : s.pop1 with
          | error e => simp [hpop] at h
          | ok rs =>
            obtain ⟨r, s1⟩ := rs
            simp only [hpop] at h
            cases hp : s1.protect n with
            | error e => simp [hp] at h
            | ok s2 =>
              simp only [hp] at h
              have c1 := protect_sameCore hp
              have c2 := restore_sameCore h
              obtain ⟨p1, p2, p3, p4⟩ := pop1_spec hpop
              refine Good.perm ?_ ?_ ?_ ?_
              · rw [c2.1]
                have := push_perm s2 r
                rw [c1.1] at this
                exact p1.trans this.symm
              · rw [c2.2.1, push_self, c1.2.1, p2]
              · rw [c2.2.2.1, push_typed, c1.2.2.1, p3]
              · rw [c2.2.2.2, push_minted, c1.2.2.2, p4]
        | dip body =>
          simp only [exec, hs, bind, Except.bind] at h
          cases hp : s.protect 1 with
          | error e => simp [hp] at h
          | ok s1 =>
            simp only [hp] at h
            cases hb : execSeq c f body s1 with
            | error e => simp [hb] at h
            | ok s2 =>
              simp only [hb] at h
              exact (Good.of_sameCore (protect_sameCore hp)).trans
                ((execSeq_good ok f body s1 s2 hb).trans (Good.of_sameCore (restore_sameCore h)))
        | dipN n body =>
          simp only [exec, hs, bind, Except.bind] at h
          cases hp : s.protect n with
          | error e => simp [hp] at h
          | ok s1 =>
            simp only [hp] at h
            cases hb : execSeq c f body s1 with
            | error e => simp [hb] at h
            | ok s2 =>
              simp only [hb] at h
              exact (Good.of_sameCore (protect_sameCore hp)).trans
                ((execSeq_good ok f body s1 s2 hb).trans (Good.of_sameCore (restore_sameCore h)))
        | seq body =>
          simp only [exec, hs] at h
          exact execSeq_good ok f body s s' h
        | ifNone bt bf =>
          simp only [exec, hs, bind, Except.bind] at h
          cases hpop : s.pop1 with
          | error e => simp [hpop] at h
          | ok rs =>
            obtain ⟨o, s1⟩ := rs
            simp only [hpop] at h
            cases o with
            | none t =>
              have g1 : Good s s1 := by
                refine Good.popPush [.none t] [] [] true (pop1_spec hpop) (List.Perm.refl _) rfl (by simp) rfl ?_
                intro _ _; exact ⟨LC_nil, fun k => by simp [LS_nil], fun _ => LN_nil⟩
              exact g1.trans (execSeq_good ok f bt s1 s' h)
            | some v =>
              have g1 : Good s (s1.push v) := by
                refine Good.popPush [.some v] [v] [] true (pop1_spec hpop) (push_perm _ _) rfl (by simp [push_typed]) rfl ?_
                vals_tac
              exact g1.trans (execSeq_good ok f bf (s1.push v) s' h)
            | atom _ => simp at h
            | ticket _ _ _ _ => simp at h
            | pair _ _ => simp at h
            | list _ _ => simp at h
            | map _ _ _ _ _ _ => simp at h
            | left _ _ => simp at h
            | right _ _ => simp at h
            | set _ _ => simp at h
            | lam _ _ _ => simp at h
        | exec =>
          simp only [exec, hs, bind, Except.bind] at h
          cases hpop : s.pop2 with
          | error e => simp [hpop] at h
          | ok rs =>
            obtain ⟨param, lam, s1⟩ := rs
            simp only [hpop] at h
            cases lam with
            | lam a b body =>
              simp only at h
              split at h
              · cases h
              · cases hb : execSeq c f body { s1 with items := [param], prot := 0 } with
                | error e => simp [hb] at h
                | ok ls =>
                  simp only [hb] at h
                  cases hp1 : ls.pop1 with
                  | error e => simp [hp1] at h
                  | ok rl =>
                    obtain ⟨res, ls'⟩ := rl
                    simp only [hp1] at h
                    split at h
                    · cases h
                    · split at h
                      · cases h
                      · rename_i _ hempty
                        simp only [pure, Except.pure, Except.ok.injEq] at h
                        subst h
                        obtain ⟨p1, p2, p3, p4⟩ := pop2_spec hpop
                        obtain ⟨q1, q2, q3, q4⟩ := pop1_spec hp1
                        have hnil : ls'.items = [] := by
                          cases hi : ls'.items with
                          | nil => rfl
                          | cons x xs => simp [hi] at hempty
                        have gb := execSeq_good ok f body _ ls hb
                        have g0 : Good s (State.withExtra { s1 with items := [param], prot := 0 } s1.items) := by
                          refine Good.frame [param, Val.lam a b body] [param] s1.items [] true p1 ?_ p2 (by simp [State.withExtra, p3]) (by simp [State.withExtra, p4]) ?_
                          · show (s1.items ++ [param]).Perm ([param] ++ s1.items)
                            exact List.perm_append_comm
                          · intro _ hc
                            refine ⟨LC_cons.mpr ⟨(LC_cons.mp hc).1, LC_nil⟩, fun k => by simp [LS_cons, LS_nil, mintedSum],
                              fun hz => LN_cons.mpr ⟨(LN_cons.mp hz).1, LN_nil⟩⟩
                        have g1 := gb.lift s1.items
                        refine g0.trans (g1.trans (Good.perm ?_ ?_ ?_ ?_))
                        · show (s1.items ++ ls.items).Perm _
                          refine List.Perm.trans ?_ (push_perm _ res).symm
                          show (s1.items ++ ls.items).Perm (res :: s1.items)
                          have : ls.items.Perm [res] := by rw [hnil] at q1; exact q1
                          exact (List.Perm.append_left s1.items this).trans List.perm_append_comm
                        · show s1.self = ls.self
                          exact gb.self_eq.symm
                        · show ls'.typedStores = ls.typedStores
                          exact q3
                        · show ls'.minted = ls.minted
                          exact q4
            | atom _ => simp at h
            | ticket _ _ _ _ => simp at h
            | pair _ _ => simp at h
            | none _ => simp at h
            | some _ => simp at h
            | list _ _ => simp at h
            | map _ _ _ _ _ _ => simp at h
            | left _ _ => simp at h
            | right _ _ => simp at h
            | set _ _ => simp at h
        | ifLeft bt bf =>
          simp only [exec, hs, bind, Except.bind] at h
          cases hpop : s.pop1 with
          | error e => simp [hpop] at h
          | ok rs =>
            obtain ⟨o, s1⟩ := rs
            simp only [hpop] at h
            cases o with
            | left v rt =>
              have g1 : Good s (s1.push v) := by
                refine Good.popPush [.left v rt] [v] [] true (pop1_spec hpop) (push_perm _ _) rfl (by simp [push_typed]) rfl ?_
                vals_tac
              exact g1.trans (execSeq_good ok f bt (s1.push v) s' h)
            | right lt v =>
              have g1 : Good s (s1.push v) := by
                refine Good.popPush [.right lt v] [v] [] true (pop1_spec hpop) (push_perm _ _) rfl (by simp [push_typed]) rfl ?_
                vals_tac
              exact g1.trans (execSeq_good ok f bf (s1.push v) s' h)
            | atom _ => simp at h
            | ticket _ _ _ _ => simp at h
            | pair _ _ => simp at h
            | list _ _ => simp at h
            | map _ _ _ _ _ _ => simp at h
            | none _ => simp at h
            | some _ => simp at h
            | set _ _ => simp at h
            | lam _ _ _ => simp at h
        | iter body =>
          simp only [exec, hs, bind, Except.bind] at h
          cases hpop : s.pop1 with
          | error e => simp [hpop] at h
          | ok rs =>
            obtain ⟨src, s1⟩ := rs
            simp only [hpop] at h
            cases he : elements src with
            | error e => simp [he] at h
            | ok els =>
              simp only [he] at h
              exact (good_unload src els (pop1_spec hpop) (elements_vals he)).trans (iterLoop_good ok f body els s1 s' h)
        | map body =>
          simp only [exec, hs, bind, Except.bind] at h
          cases hpop : s.pop1 with
          | error e => simp [hpop] at h
          | ok rs =>
            obtain ⟨src, s1⟩ := rs
            simp only [hpop] at h
            cases src with
            | list t xs =>
              simp only at h
              cases hm : mapLoop c f body xs [] s1 with
              | error e => simp [hm] at h
              | ok r =>
                obtain ⟨ys, s2⟩ := r
                simp only [hm] at h
                have hlen := mapLoop_length f body xs [] s1 ys s2 hm
                have g1 : Good s (s1.withExtra xs) :=
                  good_unload (.list t xs) xs (pop1_spec hpop) (elements_vals (src := .list t xs) rfl)
                have g2 : Good (s1.withExtra xs) (s2.withExtra ys) := mapLoop_good ok f body xs [] s1 ys s2 hm
                cases ys with
                | nil =>
                  simp only [pure, Except.pure, Except.ok.injEq] at h
                  subst h
                  have hx : xs = [] := by cases xs with
                    | nil => rfl
                    | cons _ _ => simp at hlen
                  subst hx
                  refine g1.trans (g2.trans (good_load [] (.list t []) ?_))
                  intro _
                  exact ⟨by simp [Val.consistent, Val.consistentList], fun k => by simp [ticketSum, ticketSumList],
                    fun _ => by simp [noZero, noZeroList]⟩
                | cons y ys' =>
                  simp only at h
                  split at h
                  · rename_i hst
                    simp only [pure, Except.pure, Except.ok.injEq] at h
                    subst h
                    refine g1.trans (g2.trans (good_load (y :: ys') (.list y.typeOf (y :: ys')) ?_))
                    intro hc
                    refine ⟨?_, fun k => by simp [ticketSum, LS], fun hz => ?_⟩
                    · simp only [Val.consistent]
                      exact (consistentList_iff _ _).mpr ⟨(sameTypes_iff _ _).mp hst, hc⟩
                    · simp only [noZero]; exact (noZeroList_iff _).mpr hz
                  · cases h
            | map big kt vt keys vals removed =>
              cases big with
              | false =>
                simp only at h
                cases he : elements (.map false kt vt keys vals removed) with
                | error e => simp [he] at h
                | ok els =>
                  simp only [he] at h
                  cases hm : mapLoop c f body els [] s1 with
                  | error e => simp [hm] at h
                  | ok r =>
                    obtain ⟨ys, s2⟩ := r
                    simp only [hm] at h
                    have g1 : Good s (s1.withExtra els) := good_unload _ els (pop1_spec hpop) (elements_vals he)
                    have g2 : Good (s1.withExtra els) (s2.withExtra ys) := mapLoop_good ok f body els [] s1 ys s2 hm
                    cases ys with
                    | nil =>
                      simp only [pure, Except.pure, Except.ok.injEq] at h
                      subst h
                      -- nothing came back: the source map is pushed again; it held nothing that is not accounted for
                      have hlen := mapLoop_length f body els [] s1 [] s2 hm
                      have hels : els = [] := by cases els with
                        | nil => rfl
                        | cons _ _ => simp at hlen
                      subst hels
                      obtain ⟨p1, p2, p3, p4⟩ := pop1_spec hpop
                      have ga : Good s ((s1.withExtra []).withExtra [.map false kt vt keys vals removed]) :=
                        Good.perm p1 p2 p3 p4
                      have gb := g2.lift [.map false kt vt keys vals removed]
                      have gc : Good ((s2.withExtra []).withExtra [.map false kt vt keys vals removed])
                          (s2.push (.map false kt vt keys vals removed)) :=
                        Good.perm (push_perm _ _).symm rfl rfl rfl
                      exact ga.trans (gb.trans gc)
                    | cons y ys' =>
                      simp only at h
                      split at h
                      · rename_i hst
                        simp only [pure, Except.pure, Except.ok.injEq] at h
                        subst h
                        simp only [Bool.and_eq_true, beq_iff_eq] at hst
                        obtain ⟨p1, _, _, _⟩ := pop1_spec hpop
                        refine good_close (g1.trans g2) rfl rfl rfl ?_
                        intro hc0 hcm
                        have wf := mapWF_of_consistent (LC_cons.mp ((LC_perm p1).mp hc0)).1
                        have hcm' := LC_append.mp hcm
                        have hnew : (Val.map false kt y.typeOf keys (y :: ys') removed).consistent = true :=
                          consistent_of_mapWF ⟨hst.1.symm, wf.nodup, (sameTypes_iff _ _).mp hst.2, hcm'.1⟩
                        have hperm := push_perm s2 (Val.map false kt y.typeOf keys (y :: ys') removed)
                        refine ⟨(LC_perm hperm).mpr (LC_cons.mpr ⟨hnew, hcm'.2⟩), fun k => ?_, fun hz => ?_⟩
                        · have e1 : (s2.push (Val.map false kt y.typeOf keys (y :: ys') removed)).sum k
                              = ticketSum k (Val.map false kt y.typeOf keys (y :: ys') removed) + s2.sum k :=
                            LS_perm k hperm
                          have e2 : (s2.withExtra (y :: ys')).sum k = LS k (y :: ys') + s2.sum k := LS_append k _ _
                          rw [e1, e2]; simp [ticketSum, LS]
                        · have hz' := LN_append.mp hz
                          refine (LN_perm hperm).mpr (LN_cons.mpr ⟨?_, hz'.2⟩)
                          simp only [noZero]; exact (noZeroList_iff _).mpr hz'.1
                      · cases h
              | true =>
                simp only at h
                split at h
                · rename_i hempty
                  simp only [pure, Except.pure, Except.ok.injEq] at h
                  subst h
                  refine Good.popPush [.map true kt vt keys vals removed] [.map true kt vt keys vals removed] [] true
                    (pop1_spec hpop) (push_perm _ _) rfl (by simp [push_typed]) rfl ?_
                  intro _ hc
                  exact ⟨hc, fun k => by simp [mintedSum], fun hz => hz⟩
                · cases h
            | set t xs =>
              simp only at h
              split at h
              · simp only [pure, Except.pure, Except.ok.injEq] at h
                subst h
                refine Good.popPush [.set t xs] [.set t xs] [] true
                  (pop1_spec hpop) (push_perm _ _) rfl (by simp [push_typed]) rfl ?_
                intro _ hc
                exact ⟨hc, fun k => by simp [mintedSum], fun hz => hz⟩
              · cases h
            | atom _ => simp at h
            | ticket _ _ _ _ => simp at h
            | pair _ _ => simp at h
            | none _ => simp at h
            | some _ => simp at h
            | left _ _ => simp at h
            | right _ _ => simp at h
            | lam _ _ _ => simp at h
        | lambda _ _ _ => simp [simple] at hs
        | apply => simp [simple] at hs
        | left _ => simp [simple] at hs
        | right _ => simp [simple] at hs
        | emptySet _ => simp [simple] at hs
        | mem => simp [simple] at hs
        | ticket => simp [simple] at hs
        | readTicket => simp [simple] at hs
        | splitTicket => simp [simple] at hs
        | joinTickets => simp [simple] at hs
        | pair => simp [simple] at hs
        | unpair => simp [simple] at hs
        | car => simp [simple] at hs
        | cdr => simp [simple] at hs
        | some => simp [simple] at hs
        | none _ => simp [simple] at hs
        | nil _ => simp [simple] at hs
        | cons => simp [simple] at hs
        | swap => simp [simple] at hs
        | drop => simp [simple] at hs
        | push _ _ => simp [simple] at hs
        | emptyMap _ _ => simp [simple] at hs
        | emptyBigMap _ _ => simp [simple] at hs
        | get => simp [simple] at hs
        | getAndUpdate => simp [simple] at hs
        | update => simp [simple] at hs
        | failwith => simp [simple] at hs
  theorem execSeq_good {c : Cfg} (ok : CfgOk c) : ∀ (f : Nat) (is : List Instr) (s s' : State),
      execSeq c f is s = .ok s' → Good s s'
    | 0, _, _, _, h => by simp [execSeq] at h
    | f + 1, [], s, s', h => by
      simp only [execSeq, Except.ok.injEq] at h; subst h; exact Good.refl _
    | f + 1, i :: is, s, s', h => by
      simp only [execSeq, bind, Except.bind] at h
      cases h1 : exec c f i s with
      | error e => simp [h1] at h
      | ok s1 =>
        simp only [h1] at h
        exact (exec_good ok f i s s1 h1).trans (execSeq_good ok f is s1 s' h)
  theorem iterLoop_good {c : Cfg} (ok : CfgOk c) : ∀ (f : Nat) (body : List Instr) (xs : List Val) (s s' : State),
      iterLoop c f body xs s = .ok s' → Good (s.withExtra xs) s'
    | 0, _, _, _, _, h => by simp [iterLoop] at h
    | f + 1, _, [], s, s', h => by
      simp only [iterLoop, Except.ok.injEq] at h; subst h
      exact Good.perm (List.Perm.refl _) rfl rfl rfl
    | f + 1, body, x :: xs, s, s', h => by
      simp only [iterLoop, bind, Except.bind] at h
      cases hb : execSeq c f body (s.push x) with
      | error e => simp [hb] at h
      | ok sb =>
        simp only [hb] at h
        have g0 : Good (s.withExtra (x :: xs)) ((s.push x).withExtra xs) := by
          refine Good.perm ?_ rfl rfl rfl
          show (x :: xs ++ s.items).Perm (xs ++ (s.push x).items)
          exact (List.perm_middle.symm).trans (List.Perm.append_left xs (push_perm s x).symm)
        exact g0.trans (((execSeq_good ok f body (s.push x) sb hb).lift xs).trans (iterLoop_good ok f body xs sb s' h))
  theorem mapLoop_good {c : Cfg} (ok : CfgOk c) : ∀ (f : Nat) (body : List Instr) (xs acc : List Val) (s : State)
      (ys : List Val) (s' : State), mapLoop c f body xs acc s = .ok (ys, s') →
      Good ((s.withExtra xs).withExtra acc) (s'.withExtra ys)
    | 0, _, _, _, _, _, _, h => by simp [mapLoop] at h
    | f + 1, _, [], acc, s, ys, s', h => by
      simp only [mapLoop, Except.ok.injEq, Prod.mk.injEq] at h
      obtain ⟨rfl, rfl⟩ := h
      refine Good.perm ?_ rfl rfl rfl
      show (acc ++ ([] ++ s.items)).Perm (acc.reverse ++ s.items)
      exact List.Perm.append_right _ (List.reverse_perm acc).symm
    | f + 1, body, x :: xs, acc, s, ys, s', h => by
      simp only [mapLoop, bind, Except.bind] at h
      cases hb : execSeq c f body (s.push x) with
      | error e => simp [hb] at h
      | ok sb =>
        simp only [hb] at h
        cases hp : sb.pop1 with
        | error e => simp [hp] at h
        | ok r =>
          obtain ⟨y, sc⟩ := r
          simp only [hp] at h
          obtain ⟨p1, p2, p3, p4⟩ := pop1_spec hp
          have g0 : Good ((s.withExtra (x :: xs)).withExtra acc) (((s.push x).withExtra xs).withExtra acc) := by
            refine Good.perm ?_ rfl rfl rfl
            show (acc ++ (x :: xs ++ s.items)).Perm (acc ++ (xs ++ (s.push x).items))
            exact List.Perm.append_left acc ((List.perm_middle.symm).trans (List.Perm.append_left xs (push_perm s x).symm))
          have g1 := ((execSeq_good ok f body (s.push x) sb hb).lift xs).lift acc
          have g2 : Good ((sb.withExtra xs).withExtra acc) ((sc.withExtra xs).withExtra (y :: acc)) := by
            refine Good.perm ?_ p2 p3 p4
            show (acc ++ (xs ++ sb.items)).Perm (y :: acc ++ (xs ++ sc.items))
            have e1 : (acc ++ (xs ++ sb.items)).Perm (acc ++ (xs ++ (y :: sc.items))) :=
              List.Perm.append_left acc (List.Perm.append_left xs p1)
            refine e1.trans ?_
            have e2 : (xs ++ (y :: sc.items)).Perm (y :: (xs ++ sc.items)) := List.perm_middle
            exact (List.Perm.append_left acc e2).trans List.perm_middle
          exact g0.trans (g1.trans (g2.trans (mapLoop_good ok f body xs (y :: acc) sc ys s' h)))
end

end Impl.Tickets
