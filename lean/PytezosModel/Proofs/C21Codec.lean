import PytezosModel.Michelson.Bls
import PytezosModel.Proofs.Bytes
/-! C21 helper lemmas: the source description the theorems are proved for, the 48-byte big-endian field codec,
and the `from_point` / `to_point` round trip for any layout that is `LayoutGood`. -/
namespace Bls
open Core Generated.C21

/-- `POW_2_382`: the infinity flag (bit 6 of the first byte of a 48-byte big-endian field) -/
def flag382 : Nat := 0x400000000000000000000000000000000000000000000000000000000000000000000000000000000000000000000000

/-- the G1 layout of the (repaired) source -/
def L1 : PointLayout :=
  { width := 48, write := [0, 1], infCoords := [flag382, 0], assertLen := some 96,
    read := [(0, some 48), (48, none)], decodeInf := some [flag382, 0] }

/-- the G2 layout of the (repaired) source: imaginary coefficient first on the wire -/
def L2 : PointLayout :=
  { width := 48, write := [1, 0, 3, 2], infCoords := [0, flag382, 0, 0], assertLen := none,
    read := [(48, some 96), (0, some 48), (144, some 192), (96, some 144)], decodeInf := some [0, flag382, 0, 0] }

/-- what the translator must have read for the theorems of `Props/C21.lean` to apply -/
def expectedSrc : Src :=
  { modulus := r, reduces := true, frMaxLen := 32, frOutLen := 32, L1 := L1, L2 := L2,
    intSub := [.nat, .int, .mutez, .timestamp, .fr],
    addRows := [([.nat, .nat], .nat), ([.nat, .int], .int), ([.int, .nat], .int), ([.int, .int], .int),
      ([.timestamp, .int], .timestamp), ([.int, .timestamp], .timestamp), ([.mutez, .mutez], .mutez),
      ([.fr, .fr], .fr), ([.g1, .g1], .g1), ([.g2, .g2], .g2)],
    mulRows := [([.nat, .nat], .nat), ([.nat, .int], .int), ([.int, .nat], .int), ([.int, .int], .int),
      ([.mutez, .nat], .mutez), ([.nat, .mutez], .mutez), ([.nat, .fr], .fr), ([.int, .fr], .fr), ([.fr, .nat], .fr),
      ([.fr, .int], .fr), ([.fr, .fr], .fr), ([.g1, .fr], .g1), ([.g2, .fr], .g2)],
    negRows := [([.int], .int), ([.nat], .int), ([.fr], .fr), ([.g1], .g1), ([.g2], .g2)],
    negUsesResType := true }

theorem q_lt_flag : q < flag382 := by decide
theorem q_lt_pow : q < 256 ^ 48 := by decide
theorem r_lt_pow : r < 256 ^ 32 := by decide
theorem r_pos : 0 < r := by decide

theorem natToBE_some (n v : Nat) (h : v < 256 ^ n) : ∃ bs, natToBE n v = some bs := by
  induction n generalizing v with
  | zero => exact ⟨[], by simp [natToBE]; omega⟩
  | succ n ih =>
    have : v / 256 < 256 ^ n := by
      rw [Nat.pow_succ] at h
      exact Nat.div_lt_of_lt_mul (by omega)
    obtain ⟨bs, hbs⟩ := ih _ this
    exact ⟨bs ++ [v % 256], by simp [natToBE, hbs]⟩

/-- a reduced field element has a 48-byte big-endian form that reads back as itself -/
theorem field48 (v : Nat) (h : v < q) : ∃ bs, natToBE 48 v = some bs ∧ bs.length = 48 ∧ beToNat bs = v := by
  obtain ⟨bs, hbs⟩ := natToBE_some 48 v (Nat.lt_trans h q_lt_pow)
  obtain ⟨h1, h2, _⟩ := natToBE_spec 48 v bs hbs
  exact ⟨bs, hbs, h1, h2⟩

theorem slice2 (l1 l2 : Bytes) (h1 : l1.length = 48) :
    slice (l1 ++ l2) 0 (some 48) = l1 ∧ slice (l1 ++ l2) 48 none = l2 := by
  simp (disch := omega) [slice]

theorem slice4 (l1 l2 l3 l4 : Bytes) (h1 : l1.length = 48) (h2 : l2.length = 48) (h3 : l3.length = 48) (h4 : l4.length = 48) :
    slice (l1 ++ (l2 ++ (l3 ++ l4))) 0 (some 48) = l1 ∧
    slice (l1 ++ (l2 ++ (l3 ++ l4))) 48 (some 96) = l2 ∧
    slice (l1 ++ (l2 ++ (l3 ++ l4))) 96 (some 144) = l3 ∧
    slice (l1 ++ (l2 ++ (l3 ++ l4))) 144 (some 192) = l4 := by
  simp (disch := omega) [slice, List.take_append, List.drop_append, h1, h2, h3, List.take_of_length_le,
    List.drop_eq_nil_of_le]

/-- what the round trip needs from a layout with `n` coordinates -/
structure LayoutGood (L : PointLayout) (n : Nat) (total : Nat) : Prop where
  /-- reduced coordinates are written without error as `total` bytes, pass the length assertion, and are read
  back unchanged -/
  coords : ∀ cs, okCoords n cs → ∃ bs, coordsToBytes L cs = some bs ∧ bs.length = total ∧
    (L.assertLen = none ∨ L.assertLen = some bs.length) ∧ readCoords L bs = cs
  /-- so are the coordinates standing for infinity -/
  inf : ∃ bs, coordsToBytes L L.infCoords = some bs ∧ bs.length = total ∧
    (L.assertLen = none ∨ L.assertLen = some bs.length) ∧ readCoords L bs = L.infCoords
  /-- `to_point` recognises exactly what `from_point` writes for infinity -/
  decodes : L.decodeInf = some L.infCoords
  /-- no real point has the infinity coordinates (the flag bit lies above the field modulus) -/
  flag : ¬ okCoords n L.infCoords

theorem L1_good : LayoutGood L1 2 96 where
  coords := by
    intro cs ⟨hl, hq⟩
    match cs, hl with
    | [x, y], _ =>
      obtain ⟨bx, ex, lx, vx⟩ := field48 x (hq x (by simp))
      obtain ⟨by', ey, ly, vy⟩ := field48 y (hq y (by simp))
      refine ⟨bx ++ by', ?_, by simp [lx, ly], ?_, ?_⟩
      · simp [coordsToBytes, L1, optAll, ex, ey]
      · right; simp [L1, lx, ly]
      · obtain ⟨s1, s2⟩ := slice2 bx by' lx
        simp [readCoords, L1, s1, s2, vx, vy]
  inf := ⟨64 :: List.replicate 95 0, by decide +kernel, by decide +kernel, by decide +kernel, by decide +kernel⟩
  decodes := rfl
  flag := by
    intro ⟨_, h⟩
    have := h flag382 (by simp [L1])
    exact absurd this (by have := q_lt_flag; omega)

theorem L2_good : LayoutGood L2 4 192 where
  coords := by
    intro cs ⟨hl, hq⟩
    match cs, hl with
    | [a, b, c, d], _ =>
      obtain ⟨ba, ea, la, va⟩ := field48 a (hq a (by simp))
      obtain ⟨bb, eb, lb, vb⟩ := field48 b (hq b (by simp))
      obtain ⟨bc, ec, lc, vc⟩ := field48 c (hq c (by simp))
      obtain ⟨bd, ed, ld, vd⟩ := field48 d (hq d (by simp))
      refine ⟨bb ++ (ba ++ (bd ++ bc)), ?_, by simp [la, lb, lc, ld], ?_, ?_⟩
      · simp [coordsToBytes, L2, optAll, ea, eb, ec, ed]
      · left; rfl
      · obtain ⟨s1, s2, s3, s4⟩ := slice4 bb ba bd bc lb la ld lc
        simp [readCoords, L2, s1, s2, s3, s4, va, vb, vc, vd]
  inf := ⟨64 :: List.replicate 191 0, by decide +kernel, by decide +kernel, by decide +kernel, by decide +kernel⟩
  decodes := rfl
  flag := by
    intro ⟨_, h⟩
    have := h flag382 (by simp [L2])
    exact absurd this (by have := q_lt_flag; omega)

/-- `from_point` never fails on a point of the group, and `to_point` gives the point back — infinity included -/
theorem fromPoint_toPoint (K : CurveOps) (n : Nat) (hK : CurveLaws K n) (L : PointLayout) {total : Nat}
    (hL : LayoutGood L n total) (P : K.G) : ∃ bs, fromPoint K L P = some bs ∧ toPoint K L bs = P ∧ bs.length = total := by
  cases hi : K.isInf P with
  | true =>
    have hP : P = K.zero := (hK.isInf_iff P).1 hi
    obtain ⟨bs, e, htot, hlen, rd⟩ := hL.inf
    refine ⟨bs, ?_, ?_, htot⟩
    · rcases hlen with h | h <;> simp [fromPoint, hi, e, h]
    · simp [toPoint, rd, hL.decodes, hP]
  | false =>
    have hP : P ≠ K.zero := fun h => by rw [(hK.isInf_iff P).2 h] at hi; cases hi
    obtain ⟨bs, e, htot, hlen, rd⟩ := hL.coords _ (hK.normalize_ok P hP)
    refine ⟨bs, ?_, ?_, htot⟩
    · rcases hlen with h | h <;> simp [fromPoint, hi, e, h]
    · have hne : K.normalize P ≠ L.infCoords := fun h => hL.flag (h ▸ hK.normalize_ok P hP)
      simp [toPoint, rd, hL.decodes, hne, hK.ofAffine_normalize P hP]

/-- the encoding of the neutral element is the flag byte 0x40 followed by zeros -/
theorem fromPoint_zero1 (K : CurveOps) (n : Nat) (hK : CurveLaws K n) :
    fromPoint K L1 K.zero = some (64 :: List.replicate 95 0) := by
  have hi : K.isInf K.zero = true := (hK.isInf_iff _).2 rfl
  have e : coordsToBytes L1 L1.infCoords = some (64 :: List.replicate 95 0) := by decide +kernel
  simp only [fromPoint, hi, if_true, e]
  decide +kernel

theorem fromPoint_zero2 (K : CurveOps) (n : Nat) (hK : CurveLaws K n) :
    fromPoint K L2 K.zero = some (64 :: List.replicate 191 0) := by
  have hi : K.isInf K.zero = true := (hK.isInf_iff _).2 rfl
  have e : coordsToBytes L2 L2.infCoords = some (64 :: List.replicate 191 0) := by decide +kernel
  simp only [fromPoint, hi, if_true, e]
  decide +kernel

end Bls
