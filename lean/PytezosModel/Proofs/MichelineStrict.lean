import PytezosModel.Micheline.Binary
import PytezosModel.Proofs.Zarith
import PytezosModel.Proofs.Bytes
/-! Strictness: whatever the mirror of `unforge_micheline` accepts (with the strict integer reader) is
accepted, with the same result, by the independent length-delimited decoder `Spec.Micheline.decode`. -/
namespace Core

theorem unforgeNatStrict_local (s : Bool) (d : Bytes) (v : Nat) (r : Bytes)
    (h : unforgeInt.unforgeNatStrict s d = some (v, r)) :
    ∃ c, d = c ++ r ∧ ∀ tail, unforgeInt.unforgeNatStrict s (c ++ tail) = some (v, tail) := by
  induction d generalizing v r with
  | nil => simp [unforgeInt.unforgeNatStrict] at h
  | cons b t ih =>
    simp only [unforgeInt.unforgeNatStrict] at h
    by_cases hlt : b < 128
    · simp only [hlt, if_true] at h
      split at h
      · simp at h
      · rename_i hz
        simp only [Option.some.injEq, Prod.mk.injEq] at h
        obtain ⟨rfl, rfl⟩ := h
        exact ⟨[b], rfl, fun tail => by simp [unforgeInt.unforgeNatStrict, hlt, hz]⟩
    · simp only [hlt, if_false, Option.map_eq_some_iff] at h
      obtain ⟨⟨v', r'⟩, hrec, heq⟩ := h
      simp only [Prod.mk.injEq] at heq
      obtain ⟨rfl, rfl⟩ := heq
      obtain ⟨c, rfl, hc⟩ := ih v' r' hrec
      exact ⟨b :: c, rfl, fun tail => by simp [unforgeInt.unforgeNatStrict, hlt, hc tail]⟩

theorem unforgeInt_local (s : Bool) (d : Bytes) (v : Int) (r : Bytes) (h : unforgeInt s d = some (v, r)) :
    ∃ c, d = c ++ r ∧ 0 < c.length ∧ ∀ tail, unforgeInt s (c ++ tail) = some (v, tail) := by
  cases d with
  | nil => simp [unforgeInt] at h
  | cons b0 t =>
    simp only [unforgeInt] at h
    by_cases hlt : b0 < 128
    · simp only [hlt, if_true, Option.some.injEq, Prod.mk.injEq] at h
      obtain ⟨rfl, rfl⟩ := h
      exact ⟨[b0], rfl, by simp, fun tail => by simp [unforgeInt, hlt]⟩
    · simp only [hlt, if_false] at h
      cases hrec : unforgeInt.unforgeNatStrict s t with
      | none => simp [hrec] at h
      | some p =>
        obtain ⟨v', r'⟩ := p
        simp only [hrec, Option.some.injEq, Prod.mk.injEq] at h
        obtain ⟨rfl, rfl⟩ := h
        obtain ⟨c, rfl, hc⟩ := unforgeNatStrict_local s t v' r' hrec
        exact ⟨b0 :: c, rfl, by simp, fun tail => by simp [unforgeInt, hlt, hc tail]⟩

/-- `unforgeArray` in "consumed ++ rest" form -/
theorem unforgeArray_local' (k : Nat) (d data r : Bytes) (h : unforgeArray k d = some (data, r)) :
    ∃ c, d = c ++ r ∧ c = d.take k ++ data ∧ ∀ tail, unforgeArray k (c ++ tail) = some (data, tail) := by
  obtain ⟨hd, _, _⟩ := unforgeArray_split k d data r h
  exact ⟨d.take k ++ data, hd, rfl, unforgeArray_local k d data r h⟩

end Core

namespace Impl.Forge
open Core BMich Spec.Micheline

def NodeOK (known : Nat → Bool) (f : Nat) : Prop :=
  ∀ d e r, unforgeNode known true f d = some (e, r) →
    ∃ c, d = c ++ r ∧ 0 < c.length ∧ ∀ tail, decodeNode known f (c ++ tail) = some (e, tail)

def LoopOK (known : Nat → Bool) (f : Nat) : Prop :=
  ∀ rem cur xs r, seqLoop known true f rem cur = some (xs, r) →
    ∃ c, cur = c ++ r ∧ c.length = rem ∧ decodeAll known f c = some xs

theorem loop_zero (known : Nat → Bool) : LoopOK known 0 := by
  intro rem cur xs r h
  unfold seqLoop at h
  by_cases h0 : rem = 0
  · simp only [h0, if_true, Option.some.injEq, Prod.mk.injEq] at h
    obtain ⟨rfl, rfl⟩ := h
    exact ⟨[], by simp, by simp [h0], by unfold decodeAll; simp⟩
  · simp [h0] at h

theorem loop_succ (known : Nat → Bool) (f : Nat) (hn : NodeOK known f) (hl : LoopOK known f) : LoopOK known (f + 1) := by
  intro rem cur xs r h
  unfold seqLoop at h
  by_cases h0 : rem = 0
  · simp only [h0, if_true, Option.some.injEq, Prod.mk.injEq] at h
    obtain ⟨rfl, rfl⟩ := h
    exact ⟨[], by simp, by simp [h0], by unfold decodeAll; simp⟩
  · simp only [h0, if_false] at h
    cases hx : unforgeNode known true f cur with
    | none => simp [hx] at h
    | some p =>
      obtain ⟨x, rest⟩ := p
      simp only [hx] at h
      obtain ⟨c1, rfl, hc1, hd1⟩ := hn cur x rest hx
      by_cases hu : (c1 ++ rest).length - rest.length > rem
      · exfalso; simp only [hu, if_true] at h; exact absurd h (by simp)
      · simp only [hu, if_false, Option.map_eq_some_iff] at h
        obtain ⟨⟨xs', r'⟩, hrec, heq⟩ := h
        simp only [Prod.mk.injEq] at heq
        obtain ⟨rfl, rfl⟩ := heq
        obtain ⟨c2, rfl, hc2, hd2⟩ := hl _ rest xs' r' hrec
        refine ⟨c1 ++ c2, by simp, ?_, ?_⟩
        · simp only [List.length_append] at hu hc2 ⊢; omega
        · unfold decodeAll
          have : ¬ ((c1 ++ c2).length = 0) := by simp only [List.length_append]; omega
          simp only [this, if_false, hd1 c2, hd2, Option.map_some]

/-- the sequence reader of the mirror against the length-delimited one -/
theorem seq_ok (known : Nat → Bool) (f : Nat) (hl : LoopOK known f) (d : Bytes) (xs : List BMich) (r : Bytes)
    (h : unforgeSeq known true f d = some (xs, r)) :
    ∃ body, d = (d.take 4 ++ body) ++ r ∧ decodeAll known f body = some xs ∧
      ∀ tail, unforgeArray 4 ((d.take 4 ++ body) ++ tail) = some (body, tail) := by
  unfold unforgeSeq at h
  cases ha : unforgeArray 4 d with
  | none => simp [ha] at h
  | some p =>
    obtain ⟨body, rest0⟩ := p
    simp only [ha] at h
    obtain ⟨c, hc, hlen, hdec⟩ := hl _ _ xs r h
    obtain ⟨hd, hk, _⟩ := unforgeArray_split 4 d body rest0 ha
    -- body = take body.length (drop 4 d) = c
    have hbody : body = c := by
      have h1 : d.drop 4 = body ++ rest0 := by
        have := congrArg (List.drop 4) hd
        rw [List.append_assoc, List.drop_append] at this
        have hl4 : (d.take 4).length = 4 := by rw [List.length_take]; omega
        simpa [hl4] using this
      rw [hc] at h1
      have := congrArg (List.take c.length) h1
      rw [List.take_left, hlen, List.take_left] at this
      exact this.symm
    subst hbody
    refine ⟨body, ?_, hdec, unforgeArray_local 4 d body rest0 ha⟩
    rw [List.append_assoc, ← hc, List.take_append_drop]

end Impl.Forge

namespace Impl.Forge
open Core BMich Spec.Micheline

/-- annotation tail shared by both readers -/
theorem annot_local (r : Bytes) (mk : Option Bytes → BMich) (e : BMich) (r' : Bytes)
    (h : (unforgeArray 4 r).map (fun (p : Bytes × Bytes) => (mk (optAnnot p.1), p.2)) = some (e, r')) :
    ∃ c, r = c ++ r' ∧ ∀ tail, (unforgeArray 4 (c ++ tail)).map (fun (p : Bytes × Bytes) => (mk (optAnnot p.1), p.2)) = some (e, tail) := by
  simp only [Option.map_eq_some_iff] at h
  obtain ⟨⟨v, r''⟩, ha, heq⟩ := h
  simp only [Prod.mk.injEq] at heq
  obtain ⟨rfl, rfl⟩ := heq
  obtain ⟨c, hc, _, hloc⟩ := unforgeArray_local' 4 r v r'' ha
  exact ⟨c, hc, fun tail => by simp [hloc tail]⟩

theorem node_succ (known : Nat → Bool) (f : Nat) (hn : NodeOK known f) (hl : LoopOK known f) : NodeOK known (f + 1) := by
  intro d e r h
  cases d with
  | nil => simp [unforgeNode] at h
  | cons tag d1 =>
    simp only [unforgeNode] at h
    by_cases t0 : tag = 0
    · subst t0
      simp only [if_true, Option.map_eq_some_iff] at h
      obtain ⟨⟨v, r'⟩, hi, heq⟩ := h
      simp only [Prod.mk.injEq] at heq
      obtain ⟨rfl, rfl⟩ := heq
      obtain ⟨c, rfl, _, hloc⟩ := unforgeInt_local true d1 v r' hi
      exact ⟨0 :: c, rfl, by simp, fun tail => by simp [decodeNode, hloc tail]⟩
    simp only [t0, if_false] at h
    by_cases t1 : tag = 1
    · subst t1
      simp only [if_true, Option.map_eq_some_iff] at h
      obtain ⟨⟨v, r'⟩, hi, heq⟩ := h
      simp only [Prod.mk.injEq] at heq
      obtain ⟨rfl, rfl⟩ := heq
      obtain ⟨c, rfl, _, hloc⟩ := unforgeArray_local' 4 d1 v r' hi
      exact ⟨1 :: c, rfl, by simp, fun tail => by simp [decodeNode, hloc tail]⟩
    simp only [t1, if_false] at h
    by_cases t2 : tag = 2
    · subst t2
      simp only [if_true, Option.map_eq_some_iff] at h
      obtain ⟨⟨xs, r'⟩, hs, heq⟩ := h
      simp only [Prod.mk.injEq] at heq
      obtain ⟨rfl, rfl⟩ := heq
      obtain ⟨body, hd, hdec, hloc⟩ := seq_ok known f hl d1 xs r' hs
      refine ⟨2 :: (d1.take 4 ++ body), by rw [List.cons_append, ← hd], by simp, fun tail => ?_⟩
      have hl' := hloc tail
      simp only [List.append_assoc] at hl'
      simp [decodeNode, hl', hdec]
    simp only [t2, if_false] at h
    by_cases t10 : tag < 10
    · simp only [t10, if_true] at h
      cases d1 with
      | nil => simp at h
      | cons pt d2 =>
        simp only at h
        by_cases hk : known pt = true
        · simp only [hk, Bool.not_true, Bool.false_eq_true, if_false] at h
          have hcases : tag = 3 ∨ tag = 4 ∨ tag = 5 ∨ tag = 6 ∨ tag = 7 ∨ tag = 8 ∨ tag = 9 := by omega
          rcases hcases with rfl | rfl | rfl | rfl | rfl | rfl | rfl
          · -- tag 3: no args, no annots
            simp at h
            obtain ⟨rfl, rfl⟩ := h
            exact ⟨[3, pt], rfl, by simp, fun tail => by simp [decodeNode, hk]⟩
          · -- tag 4: no args, annots
            simp at h
            obtain ⟨v, ha, rfl⟩ := h
            obtain ⟨c, rfl, _, hloc⟩ := unforgeArray_local' 4 d2 v r ha
            exact ⟨4 :: pt :: c, rfl, by simp, fun tail => by simp [decodeNode, hk, hloc tail]⟩
          · -- tag 5: one arg
            simp at h
            cases hq : unforgeNode known true f d2 with
            | none => simp [hq] at h
            | some p =>
              obtain ⟨a, r1⟩ := p
              simp [hq] at h
              obtain ⟨rfl, rfl⟩ := h
              obtain ⟨c, rfl, _, hloc⟩ := hn d2 a r1 hq
              exact ⟨5 :: pt :: c, rfl, by simp, fun tail => by simp [decodeNode, hk, hloc tail]⟩
          · -- tag 6: one arg, annots
            simp at h
            cases hq : unforgeNode known true f d2 with
            | none => simp [hq] at h
            | some p =>
              obtain ⟨a, r1⟩ := p
              simp [hq] at h
              obtain ⟨v, hv, rfl⟩ := h
              obtain ⟨c, rfl, _, hloc⟩ := hn d2 a r1 hq
              obtain ⟨c', rfl, _, hloc'⟩ := unforgeArray_local' 4 r1 v r hv
              refine ⟨6 :: pt :: (c ++ c'), by simp, by simp, fun tail => ?_⟩
              have := hloc (c' ++ tail)
              simp [decodeNode, hk, this, hloc' tail]
          · -- tag 7: two args
            simp at h
            cases hq : unforgeNode known true f d2 with
            | none => simp [hq] at h
            | some p =>
              obtain ⟨a, r1⟩ := p
              simp only [hq] at h
              cases hq2 : unforgeNode known true f r1 with
              | none => simp [hq2] at h
              | some p2 =>
                obtain ⟨b, r2⟩ := p2
                simp [hq2] at h
                obtain ⟨rfl, rfl⟩ := h
                obtain ⟨c, rfl, _, hloc⟩ := hn d2 a r1 hq
                obtain ⟨c', rfl, _, hloc'⟩ := hn r1 b r2 hq2
                refine ⟨7 :: pt :: (c ++ c'), by simp, by simp, fun tail => ?_⟩
                have := hloc (c' ++ tail)
                simp [decodeNode, hk, this, hloc' tail]
          · -- tag 8: two args, annots
            simp at h
            cases hq : unforgeNode known true f d2 with
            | none => simp [hq] at h
            | some p =>
              obtain ⟨a, r1⟩ := p
              simp only [hq] at h
              cases hq2 : unforgeNode known true f r1 with
              | none => simp [hq2] at h
              | some p2 =>
                obtain ⟨b, r2⟩ := p2
                simp [hq2] at h
                obtain ⟨v, hv, rfl⟩ := h
                obtain ⟨c, rfl, _, hloc⟩ := hn d2 a r1 hq
                obtain ⟨c', rfl, _, hloc'⟩ := hn r1 b r2 hq2
                obtain ⟨c'', rfl, _, hloc''⟩ := unforgeArray_local' 4 r2 v r hv
                refine ⟨8 :: pt :: (c ++ (c' ++ c'')), by simp, by simp, fun tail => ?_⟩
                have h1 := hloc (c' ++ (c'' ++ tail))
                have h2 := hloc' (c'' ++ tail)
                simp [decodeNode, hk, h1, h2, hloc'' tail]
          · -- tag 9: generic
            simp at h
            cases hq : unforgeSeq known true f d2 with
            | none => simp [hq] at h
            | some p =>
              obtain ⟨args, r1⟩ := p
              simp [hq] at h
              obtain ⟨v, hv, rfl⟩ := h
              obtain ⟨body, hd, hdec, hloc⟩ := seq_ok known f hl d2 args r1 hq
              obtain ⟨c'', rfl, _, hloc''⟩ := unforgeArray_local' 4 r1 v r hv
              refine ⟨9 :: pt :: ((d2.take 4 ++ body) ++ c''), ?_, by simp, fun tail => ?_⟩
              · rw [List.cons_append, List.cons_append, List.append_assoc, ← hd]
              · have h1 := hloc (c'' ++ tail)
                simp only [List.append_assoc] at h1 ⊢
                simp [decodeNode, hk, h1, hdec, hloc'' tail]
        · simp [hk] at h
    · simp only [t10, if_false] at h
      by_cases t10' : tag = 10
      · subst t10'
        simp only [if_true, Option.map_eq_some_iff] at h
        obtain ⟨⟨v, r'⟩, hi, heq⟩ := h
        simp only [Prod.mk.injEq] at heq
        obtain ⟨rfl, rfl⟩ := heq
        obtain ⟨c, rfl, _, hloc⟩ := unforgeArray_local' 4 d1 v r' hi
        exact ⟨10 :: c, rfl, by simp, fun tail => by simp [decodeNode, hloc tail]⟩
      · simp [t10'] at h

theorem node_loop_ok (known : Nat → Bool) : ∀ f, NodeOK known f ∧ LoopOK known f
  | 0 => ⟨fun d e r h => by simp [unforgeNode] at h, loop_zero known⟩
  | f + 1 =>
    have ⟨hn, hl⟩ := node_loop_ok known f
    ⟨node_succ known f hn hl, loop_succ known f hn hl⟩

/-- **strict decoding**: anything the mirror of `unforge_micheline` accepts is accepted with the same result by
the length-delimited strict decoder -/
theorem unforge_refines_spec (known : Nat → Bool) (bs : Bytes) (e : BMich)
    (h : unforge known true bs = some e) : Spec.Micheline.decode known bs = some e := by
  unfold unforge at h
  split at h
  · rename_i e' heq
    simp only [Option.some.injEq] at h
    subst h
    obtain ⟨c, hc, _, hloc⟩ := (node_loop_ok known _).1 bs e' [] heq
    have := hloc []
    simp only [List.append_nil] at hc this
    subst hc
    simp [Spec.Micheline.decode, this]
  · simp at h

end Impl.Forge
