import PytezosModel.Proofs.C20Values
/-! C20: the step relation `Good s s'` (what every successful execution step preserves) and its frame rule -/
namespace Impl.Tickets

theorem mintedSum_append (k : TKey) : ∀ (a b : List (String × Cmp × Nat)), mintedSum k (a ++ b) = mintedSum k a + mintedSum k b
  | [], b => by simp [mintedSum]
  | (tk, ct, n) :: a, b => by simp only [List.cons_append, mintedSum, mintedSum_append k a b]; omega

/-- what a successful step guarantees.  `typedStores` is the ghost flag "every UPDATE / GET_AND_UPDATE so far stored a value
of the map's declared value type"; as long as it holds, consistency, conservation and no-zero are preserved. -/
structure Good (s s' : State) : Prop where
  self_eq : s'.self = s.self
  typed_mono : s'.typedStores = true → s.typedStores = true
  minted_ext : ∃ new, s'.minted = new ++ s.minted
  inv : s'.typedStores = true → LC s.items →
    LC s'.items ∧ (∀ k, s'.sum k + mintedSum k s.minted ≤ s.sum k + mintedSum k s'.minted) ∧ (LN s.items → LN s'.items)

theorem Good.refl (s : State) : Good s s :=
  ⟨rfl, id, ⟨[], rfl⟩, fun _ hc => ⟨hc, fun _ => Nat.le_refl _, id⟩⟩

theorem Good.trans {s s1 s2 : State} (g1 : Good s s1) (g2 : Good s1 s2) : Good s s2 := by
  refine ⟨g2.self_eq.trans g1.self_eq, fun h => g1.typed_mono (g2.typed_mono h), ?_, ?_⟩
  · obtain ⟨n1, h1⟩ := g1.minted_ext
    obtain ⟨n2, h2⟩ := g2.minted_ext
    exact ⟨n2 ++ n1, by rw [h2, h1, List.append_assoc]⟩
  · intro ht hc
    obtain ⟨c1, m1, z1⟩ := g1.inv (g2.typed_mono ht) hc
    obtain ⟨c2, m2, z2⟩ := g2.inv ht c1
    refine ⟨c2, fun k => ?_, fun hz => z2 (z1 hz)⟩
    have := m1 k; have := m2 k; omega

/-- same items and ghost fields (only `prot` may differ) -/
def SameCore (s s' : State) : Prop :=
  s'.items = s.items ∧ s'.self = s.self ∧ s'.typedStores = s.typedStores ∧ s'.minted = s.minted

theorem Good.of_sameCore {s s' : State} (h : SameCore s s') : Good s s' := by
  obtain ⟨hi, hs, ht, hm⟩ := h
  refine ⟨hs, fun h => by rw [← ht]; exact h, ⟨[], by simp [hm]⟩, fun _ hc => ?_⟩
  unfold State.sum
  rw [hi, hm]
  exact ⟨hc, fun _ => Nat.le_refl _, id⟩

theorem protect_sameCore {s s1 : State} {n : Nat} (h : s.protect n = .ok s1) : SameCore s s1 := by
  unfold State.protect at h
  split at h
  · cases h
  · simp only [Except.ok.injEq] at h; subst h; exact ⟨rfl, rfl, rfl, rfl⟩

theorem restore_sameCore {s s1 : State} {n : Nat} (h : s.restore n = .ok s1) : SameCore s s1 := by
  unfold State.restore at h
  split at h
  · cases h
  · simp only [Except.ok.injEq] at h; subst h; exact ⟨rfl, rfl, rfl, rfl⟩

/-- the frame rule: a step that consumes `ops`, produces `res`, leaves the rest of the stack alone (in any order), logs
`new` mints and and-s `flag` into the ghost flag -/
theorem Good.frame {s s' : State} (ops res rest : List Val) (new : List (String × Cmp × Nat)) (flag : Bool)
    (h1 : s.items.Perm (ops ++ rest)) (h2 : s'.items.Perm (res ++ rest))
    (hself : s'.self = s.self) (htyped : s'.typedStores = (s.typedStores && flag)) (hmint : s'.minted = new ++ s.minted)
    (hv : flag = true → LC ops → LC res ∧ (∀ k, LS k res ≤ LS k ops + mintedSum k new) ∧ (LN ops → LN res)) :
    Good s s' := by
  refine ⟨hself, fun h => ?_, ⟨new, hmint⟩, fun ht hc => ?_⟩
  · rw [htyped] at h; simp only [Bool.and_eq_true] at h; exact h.1
  · rw [htyped] at ht
    simp only [Bool.and_eq_true] at ht
    have hc' := LC_append.mp ((LC_perm h1).mp hc)
    obtain ⟨r1, r2, r3⟩ := hv ht.2 hc'.1
    refine ⟨(LC_perm h2).mpr (LC_append.mpr ⟨r1, hc'.2⟩), fun k => ?_, fun hz => ?_⟩
    · have e1 : s.sum k = LS k ops + LS k rest := (LS_perm k h1).trans (LS_append k ops rest)
      have e2 : s'.sum k = LS k res + LS k rest := (LS_perm k h2).trans (LS_append k res rest)
      rw [e1, e2, hmint, mintedSum_append]
      have := r2 k; omega
    · have hz' := LN_append.mp ((LN_perm h1).mp hz)
      exact (LN_perm h2).mpr (LN_append.mpr ⟨r3 hz'.1, hz'.2⟩)

/-- pop `ops`, then reach `s'` whose items are `res` on top of what was left -/
theorem Good.popPush {s s1 s' : State} (ops res : List Val) (new : List (String × Cmp × Nat)) (flag : Bool)
    (hpop : s.items.Perm (ops ++ s1.items) ∧ s1.self = s.self ∧ s1.typedStores = s.typedStores ∧ s1.minted = s.minted)
    (hpush : s'.items.Perm (res ++ s1.items)) (hself : s'.self = s1.self)
    (htyped : s'.typedStores = (s1.typedStores && flag)) (hmint : s'.minted = new ++ s1.minted)
    (hv : flag = true → LC ops → LC res ∧ (∀ k, LS k res ≤ LS k ops + mintedSum k new) ∧ (LN ops → LN res)) :
    Good s s' :=
  Good.frame ops res s1.items new flag hpop.1 hpush (hself.trans hpop.2.1) (by rw [htyped, hpop.2.2.1])
    (by rw [hmint, hpop.2.2.2]) hv

theorem push2_perm (s : State) (a b : Val) : ((s.push a).push b).items.Perm (b :: a :: s.items) :=
  (push_perm _ _).trans (List.Perm.cons _ (push_perm _ _))

end Impl.Tickets
