import PytezosModel.Proofs.Encoding
import PytezosModel.Crypto.RealHash
/-! C09 — Base58Check typed encodings are unambiguous and invertible.

`Impl.Encoding.base58Encode / base58Decode / validate` mirror `base58_encode / base58_decode / _validate` of
`src/pytezos/crypto/encoding.py` over the table regenerated from the source.  `cks` is the checksum function
(first four bytes of double SHA-256), about which only `CksOk` (it returns four bytes) is assumed; the section
"the real checksum" instantiates it with the executable SHA-256 (`RealHash.cks`), which is what the driver runs.
All statements quantify over every row of the regenerated table, every payload of the row's length and every
string; the only finite evaluations are the closed per-row / per-pair facts about the table. -/
namespace C09
open Base58 Impl.Encoding

/-! ### closed facts about the regenerated table (kernel evaluation) -/

/-- every function the model depends on was recognised by the translator -/
theorem source_recognised :
    (Generated.C09.tableRecognised && Generated.C09.encodeRecognised && Generated.C09.decodeRecognised
      && Generated.C09.validateRecognised) = true := by decide

/-- `base58_decode` validates the decoded bytes against the row it selected, `_validate` matches the
prefix list against that row -/
theorem decode_validates_row :
    (Generated.C09.decodeChecksBinPrefix && Generated.C09.decodeChecksPayloadLen
      && Generated.C09.validateChecksKind) = true := by decide

/-- per row: the numeral interval of `bin ++ (dataLen + 4 bytes)` lies inside the interval of
`human ++ (encLen - |human| digits)` (numbers up to 2^830) -/
theorem table_rows_ok : ∀ r ∈ table, rowOk r = true := by decide +kernel

/-- per pair: no two rows share an encoded length with comparable human prefixes -/
theorem table_rows_disjoint : ∀ a ∈ table, ∀ b ∈ table, rowsDisjoint a b = true := by decide +kernel

/-- per pair: (human prefix, payload length) identifies the row -/
theorem table_rows_encode_distinct : ∀ a ∈ table, ∀ b ∈ table, rowsEncodeDistinct a b = true := by
  decide +kernel

/-- the prefixes handed to `_validate` by the `is_*` functions are human prefixes of table rows -/
theorem validator_prefixes_are_kinds :
    ∀ v ∈ Generated.C09.validators, ∀ p ∈ v.2, ∃ r ∈ table, r.human = p := by decide +kernel

/-! ### Base58 -/

/-- decode ∘ encode = id on every byte string (leading zero bytes and the empty string included) -/
theorem b58_roundtrip (bs : List Nat) (h : IsBytes bs) : b58dec (b58enc bs) = some bs :=
  b58dec_b58enc bs h

theorem b58_injective (xs ys : List Nat) (hx : IsBytes xs) (hy : IsBytes ys)
    (h : b58enc xs = b58enc ys) : xs = ys := b58enc_injective xs ys hx hy h

/-- the only string that decodes to `bs` is `b58enc bs` -/
theorem b58_decode_unique (s bs : List Nat) (h : b58dec s = some bs) : s = b58enc bs :=
  (b58enc_of_b58dec s bs h).symm

/-! ### typed encodings -/

section
variable (cks : List Nat → List Nat) (hck : CksOk cks)

theorem base58Encode_eq (v pfx : List Nat) : base58Encode cks v pfx = encodeWith table cks v pfx := by
  unfold base58Encode; simp [Generated.C09.tableRecognised, Generated.C09.encodeRecognised]

theorem base58Decode_eq (s : List Nat) : base58Decode cks s = decodeWith table true true cks s := by
  unfold base58Decode
  simp [Generated.C09.tableRecognised, Generated.C09.decodeRecognised,
    Generated.C09.decodeChecksBinPrefix, Generated.C09.decodeChecksPayloadLen]

theorem validate_eq (ps : List (List Nat)) (s : List Nat) :
    validate cks ps s = validateWith table true true true cks ps s := by
  unfold validate
  simp [Generated.C09.tableRecognised, Generated.C09.decodeRecognised, Generated.C09.validateRecognised,
    Generated.C09.decodeChecksBinPrefix, Generated.C09.decodeChecksPayloadLen, Generated.C09.validateChecksKind]

include hck in
/-- for every kind and **every** payload of the kind's length, `base58_encode` succeeds and the string has
the kind's documented length and human-readable prefix -/
theorem kind_prefix_and_length (r : Row) (hr : r ∈ table) (v : List Nat) (hl : v.length = r.dataLen)
    (hv : IsBytes v) :
    ∃ s, base58Encode cks v r.human = .ok s ∧ s.length = r.encLen ∧ r.human <+: s := by
  refine ⟨encOf cks r v, ?_, ?_⟩
  · rw [base58Encode_eq, encodeWith_row table cks table_rows_encode_distinct r hr v hl]
  · have := encOf_shape cks hck r (table_rows_ok r hr) v hl hv
    exact ⟨this.1, this.2.1⟩

include hck in
/-- decoding the encoding returns the payload -/
theorem decode_encode (r : Row) (hr : r ∈ table) (v : List Nat) (hl : v.length = r.dataLen) (hv : IsBytes v)
    (s : List Nat) (hs : base58Encode cks v r.human = .ok s) : base58Decode cks s = .ok v := by
  rw [base58Encode_eq, encodeWith_row table cks table_rows_encode_distinct r hr v hl] at hs
  have : s = encOf cks r v := by injection hs with h; exact h.symm
  subst this
  rw [base58Decode_eq]
  exact decodeWith_enc table cks hck table_rows_disjoint true true r hr (table_rows_ok r hr) v hl hv

include hck in
/-- `base58_decode` accepts nothing but canonical encodings: whenever it returns `v`, there is a kind of the
table for which `v` has the right length and `s` is exactly what `base58_encode` produces for it.
(So a string with a wrong checksum, an unknown prefix, a wrong length or a foreign binary prefix is rejected.) -/
theorem decode_sound (s v : List Nat) (h : base58Decode cks s = .ok v) :
    ∃ r ∈ table, v.length = r.dataLen ∧ IsBytes v ∧ base58Encode cks v r.human = .ok s := by
  rw [base58Decode_eq] at h
  obtain ⟨r, hr, hl, hv, hs⟩ := decodeWith_sound table cks hck table_rows_ok s v h
  refine ⟨r, hr, hl, hv, ?_⟩
  rw [base58Encode_eq, encodeWith_row table cks table_rows_encode_distinct r hr v hl, hs]

/-- unknown prefix or wrong length: no row matches the string, and it is rejected -/
theorem decode_rejects_unknown_prefix_or_length (s : List Nat)
    (h : ∀ r ∈ table, ¬ (s.length = r.encLen ∧ r.human <+: s)) : base58Decode cks s = .error .noRow := by
  rw [base58Decode_eq]
  unfold decodeWith
  have : findDecodeRow table s = none := by
    unfold findDecodeRow
    apply List.find?_eq_none.mpr
    intro r hr
    have := h r hr
    simp only [Bool.and_eq_true, beq_iff_eq, List.isPrefixOf_iff_prefix]
    exact this
  rw [this]

include hck in
/-- wrong checksum: the Base58 form of `body ++ c` with `c` different from the checksum of `body` is rejected,
whatever `body` is -/
theorem decode_rejects_wrong_checksum (body c : List Nat) (hb : IsBytes body) (hcb : IsBytes c)
    (hc : c.length = 4) (hne : c ≠ cks body) : ∀ v, base58Decode cks (b58enc (body ++ c)) ≠ .ok v := by
  intro v h
  obtain ⟨r, hr, hl, hv, hs⟩ := decode_sound cks hck _ v h
  rw [base58Encode_eq, encodeWith_row table cks table_rows_encode_distinct r hr v hl] at hs
  have hs' : encOf cks r v = b58enc (body ++ c) := by injection hs
  unfold encOf b58encCheck at hs'
  have hbin := rowOk_bin_bytes r (table_rows_ok r hr)
  have := b58enc_injective _ _ ((hbin.append hv).append (hck.bytes _)) (hb.append hcb) hs'
  have hlen : (r.bin ++ v).length = body.length := by
    have := congrArg List.length this
    simp only [List.length_append, hck.len, hc] at this ⊢
    omega
  obtain ⟨h1, h2⟩ := List.append_inj this hlen
  exact hne (by rw [← h2, h1])

include hck in
/-- no string is valid for two kinds, and a valid string has one payload -/
theorem kinds_disjoint (r r' : Row) (hr : r ∈ table) (hr' : r' ∈ table) (v v' : List Nat)
    (hl : v.length = r.dataLen) (hv : IsBytes v) (hl' : v'.length = r'.dataLen) (hv' : IsBytes v')
    (s : List Nat) (h : base58Encode cks v r.human = .ok s) (h' : base58Encode cks v' r'.human = .ok s) :
    r = r' ∧ v = v' := by
  rw [base58Encode_eq, encodeWith_row table cks table_rows_encode_distinct r hr v hl] at h
  rw [base58Encode_eq, encodeWith_row table cks table_rows_encode_distinct r' hr' v' hl'] at h'
  have e : encOf cks r v = encOf cks r' v' := by
    injection h with h; injection h' with h'; rw [h, h']
  exact encOf_inj table cks hck table_rows_ok table_rows_disjoint r r' hr hr' v v' hl hv hl' hv' e

include hck in
/-- the kind validators (`is_pkh`, `is_bh`, … = `_validate` with their prefix list does not raise) accept
exactly the encodings of the kinds whose human prefix is in the list -/
theorem validators_exact (prefixes : List (List Nat)) (s : List Nat) :
    validate cks prefixes s = .ok () ↔
      ∃ r ∈ table, r.human ∈ prefixes ∧ ∃ v, v.length = r.dataLen ∧ IsBytes v ∧
        base58Encode cks v r.human = .ok s := by
  rw [validate_eq, validateWith_iff table cks hck table_rows_ok table_rows_disjoint]
  constructor
  · rintro ⟨r, hr, hm, v, hl, hv, hs⟩
    exact ⟨r, hr, hm, v, hl, hv, by
      rw [base58Encode_eq, encodeWith_row table cks table_rows_encode_distinct r hr v hl, hs]⟩
  · rintro ⟨r, hr, hm, v, hl, hv, hs⟩
    rw [base58Encode_eq, encodeWith_row table cks table_rows_encode_distinct r hr v hl] at hs
    exact ⟨r, hr, hm, v, hl, hv, by injection hs with h; exact h.symm⟩

include hck in
/-- two validators that both accept a string share a kind: no string is valid for two kinds at the level of
the `is_*` predicates either (e.g. block hash vs. BLS public key) -/
theorem validators_same_kind (ps ps' : List (List Nat)) (s : List Nat)
    (h : validate cks ps s = .ok ()) (h' : validate cks ps' s = .ok ()) :
    ∃ r ∈ table, r.human ∈ ps ∧ r.human ∈ ps' := by
  obtain ⟨r, hr, hm, v, hl, hv, hs⟩ := (validators_exact cks hck ps s).mp h
  obtain ⟨r', hr', hm', v', hl', hv', hs'⟩ := (validators_exact cks hck ps' s).mp h'
  obtain ⟨e, _⟩ := kinds_disjoint cks hck r r' hr hr' v v' hl hv hl' hv' s hs hs'
  subst e
  exact ⟨r, hr, hm, hm'⟩

end

/-! ### non-vacuity -/

/-- a checksum function for the examples (not SHA-256: any four bytes will do) -/
def exCks (v : List Nat) : List Nat := [v.length % 256, 1, 2, 3]

theorem exCks_ok : CksOk exCks :=
  ⟨fun _ => rfl, fun v b hb => by
    simp only [exCks, List.mem_cons, List.not_mem_nil, or_false] at hb
    rcases hb with h | h | h | h <;> omega⟩

-- the table has the 43 registered kinds; tz1 is one of them
example : table.length = 43 := by decide
example : (⟨[116, 122, 49], 36, [6, 161, 159], 20⟩ : Row) ∈ table := by decide
-- an all-zero tz1 payload: 36 characters starting with "tz1"
example : ((base58Encode exCks (List.replicate 20 0) [116, 122, 49]).toOption.map
    fun s => (s.length, s.take 3)) = some (36, [116, 122, 49]) := by decide +kernel
-- a Base58 string with a leading zero byte round-trips
example : b58dec (b58enc [0, 0, 255, 1]) = some [0, 0, 255, 1] := by decide +kernel
-- bytes `06 a1 9e ff…` (the kind below tz1) encode to 36 characters starting with "tz1K": the row search
-- accepts the string and only the binary-prefix validation rejects it
example : (match base58Decode exCks (b58encCheck exCks ([6, 161, 158] ++ List.replicate 20 255)) with
    | .error e => some e | .ok _ => none) = some Err.rowMismatch := by decide +kernel
example : (b58encCheck exCks ([6, 161, 158] ++ List.replicate 20 255)).take 4 = [116, 122, 49, 75] := by
  decide +kernel
-- `is_bh` no longer accepts a BLS public key, `is_public_key` does
example : (isKind exCks "is_bh" (b58encCheck exCks ([6, 149, 135, 204] ++ List.replicate 48 7)),
    isKind exCks "is_public_key" (b58encCheck exCks ([6, 149, 135, 204] ++ List.replicate 48 7)))
    = (some false, some true) := by decide +kernel

/-! ### the real checksum: first four bytes of SHA-256 (SHA-256 v), executable (`Core/HashSha2.lean`)

The statements above hold for every 4-byte checksum function; here they are instantiated with the function the driver
runs and the `base58` library computes, so that they speak about the very strings pytezos returns.  The known-answer
examples (kernel evaluation of the Lean SHA-256 inside the proof assistant) use the FIPS 180-4 `"abc"` vector, the
mainnet chain id and the addresses of tests/unit_tests/test_crypto/test_encoding.py. -/

/-- the executable double-SHA-256 checksum returns four bytes, whatever the input -/
theorem sha256d4_ok : CksOk RealHash.cks := ⟨RealHash.cks_length, RealHash.cks_bytes⟩

/-- with the real checksum: every payload of every kind encodes to a string of the documented length and prefix -/
theorem kind_prefix_and_length_sha256 (r : Row) (hr : r ∈ table) (v : List Nat) (hl : v.length = r.dataLen)
    (hv : IsBytes v) :
    ∃ s, base58Encode RealHash.cks v r.human = .ok s ∧ s.length = r.encLen ∧ r.human <+: s :=
  kind_prefix_and_length RealHash.cks sha256d4_ok r hr v hl hv

/-- with the real checksum: `base58_decode(base58_encode(v, prefix)) = v` -/
theorem roundtrip_sha256 (r : Row) (hr : r ∈ table) (v : List Nat) (hl : v.length = r.dataLen) (hv : IsBytes v)
    (s : List Nat) (hs : base58Encode RealHash.cks v r.human = .ok s) : base58Decode RealHash.cks s = .ok v :=
  decode_encode RealHash.cks sha256d4_ok r hr v hl hv s hs

/-- with the real checksum: `base58_decode` accepts nothing but the canonical encodings of registered kinds -/
theorem decode_sound_sha256 (s v : List Nat) (h : base58Decode RealHash.cks s = .ok v) :
    ∃ r ∈ table, v.length = r.dataLen ∧ IsBytes v ∧ base58Encode RealHash.cks v r.human = .ok s :=
  decode_sound RealHash.cks sha256d4_ok s v h

/-- with the real checksum: a Base58Check text belongs to one kind and has one payload -/
theorem kinds_disjoint_sha256 (r r' : Row) (hr : r ∈ table) (hr' : r' ∈ table) (v v' : List Nat)
    (hl : v.length = r.dataLen) (hv : IsBytes v) (hl' : v'.length = r'.dataLen) (hv' : IsBytes v')
    (s : List Nat) (h : base58Encode RealHash.cks v r.human = .ok s) (h' : base58Encode RealHash.cks v' r'.human = .ok s) :
    r = r' ∧ v = v' :=
  kinds_disjoint RealHash.cks sha256d4_ok r r' hr hr' v v' hl hv hl' hv' s h h'

/-- with the real checksum: the `is_*` predicates accept exactly the encodings of their kinds -/
theorem validators_exact_sha256 (prefixes : List (List Nat)) (s : List Nat) :
    validate RealHash.cks prefixes s = .ok () ↔
      ∃ r ∈ table, r.human ∈ prefixes ∧ ∃ v, v.length = r.dataLen ∧ IsBytes v ∧
        base58Encode RealHash.cks v r.human = .ok s :=
  validators_exact RealHash.cks sha256d4_ok prefixes s

-- FIPS 180-4, SHA-256("abc") = ba7816bf 8f01cfea 414140de 5dae2223 b00361a3 96177a9c b410ff61 f20015ad
example : Core.Hash.sha256 [97, 98, 99] =
    [0xba, 0x78, 0x16, 0xbf, 0x8f, 0x01, 0xcf, 0xea, 0x41, 0x41, 0x40, 0xde, 0x5d, 0xae, 0x22, 0x23,
     0xb0, 0x03, 0x61, 0xa3, 0x96, 0x17, 0x7a, 0x9c, 0xb4, 0x10, 0xff, 0x61, 0xf2, 0x00, 0x15, 0xad] := by decide +kernel
-- two-block message (56 bytes "abcdbcde…nopq" of FIPS 180-4): 248d6a61 d20638b8 …
example : (Core.Hash.sha256 [97,98,99,100,98,99,100,101,99,100,101,102,100,101,102,103,101,102,103,104,102,103,104,105,
    103,104,105,106,104,105,106,107,105,106,107,108,106,107,108,109,107,108,109,110,108,109,110,111,109,110,111,112,
    110,111,112,113]).take 8 = [0x24, 0x8d, 0x6a, 0x61, 0xd2, 0x06, 0x38, 0xb8] := by decide +kernel
-- the mainnet chain id `NetXdQprcVkpaWU` = Base58Check of 57 52 00 ‖ 7a06a770, computed by the model itself
example : (base58Encode RealHash.cks [0x7a, 0x06, 0xa7, 0x70] [78, 101, 116]).toOption =
    some [78, 101, 116, 88, 100, 81, 112, 114, 99, 86, 107, 112, 97, 87, 85] := by decide +kernel
-- `tz1eKkWU5hGtfLUiqNpucHrXymm83z3DG9Sq` (test_encoding.py) decodes to its 20-byte hash and encodes back to itself
example : (base58Decode RealHash.cks [116, 122, 49, 101, 75, 107, 87, 85, 53, 104, 71, 116, 102, 76, 85, 105, 113, 78, 112,
    117, 99, 72, 114, 88, 121, 109, 109, 56, 51, 122, 51, 68, 71, 57, 83, 113]).toOption =
    some [204, 245, 100, 165, 160, 189, 177, 92, 61, 189, 248, 77, 104, 218, 202, 195, 225, 249, 104, 163] := by decide +kernel
example : (base58Encode RealHash.cks [204, 245, 100, 165, 160, 189, 177, 92, 61, 189, 248, 77, 104, 218, 202, 195, 225, 249,
    104, 163] [116, 122, 49]).toOption = some [116, 122, 49, 101, 75, 107, 87, 85, 53, 104, 71, 116, 102, 76, 85, 105, 113, 78, 112,
    117, 99, 72, 114, 88, 121, 109, 109, 56, 51, 122, 51, 68, 71, 57, 83, 113] := by decide +kernel
-- the same text with its last character changed (`q` → `r`) fails the real checksum
example : (match base58Decode RealHash.cks [116, 122, 49, 101, 75, 107, 87, 85, 53, 104, 71, 116, 102, 76, 85, 105, 113, 78, 112,
    117, 99, 72, 114, 88, 121, 109, 109, 56, 51, 122, 51, 68, 71, 57, 83, 114] with
    | .error e => some e | .ok _ => none) = some Err.invalidChecksum := by decide +kernel
-- `KT1ExvG3EjTrvDcAU7EqLNb77agPa5u6KvnY` (test_encoding.py): `is_kt` accepts, `is_pkh` rejects
example : (isKind RealHash.cks "is_kt" [75, 84, 49, 69, 120, 118, 71, 51, 69, 106, 84, 114, 118, 68, 99, 65, 85, 55, 69, 113,
      76, 78, 98, 55, 55, 97, 103, 80, 97, 53, 117, 54, 75, 118, 110, 89],
    isKind RealHash.cks "is_pkh" [75, 84, 49, 69, 120, 118, 71, 51, 69, 106, 84, 114, 118, 68, 99, 65, 85, 55, 69, 113,
      76, 78, 98, 55, 55, 97, 103, 80, 97, 53, 117, 54, 75, 118, 110, 89]) = (some true, some false) := by decide +kernel

end C09
