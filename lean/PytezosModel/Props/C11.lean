import PytezosModel.Proofs.C11Comb
import PytezosModel.Proofs.C11Clock
/-! C11 — typed values round-trip through readable / optimized / legacy-optimized Micheline.

`Impl.Value.toMich env mode lz v` mirrors `v.to_micheline_value(mode, lazy_diff = lz)`, `Impl.Value.ofMich env τ m`
mirrors `τ.from_micheline_value(m)` (src/pytezos/michelson/types/*.py), instantiated with what the translator reads
from the source now.  `env : Env` carries what other properties / libraries own, with their laws as the hypothesis
`env.Lawful`: base58 text and optimized bytes of structured domain values (C09 / C10), RFC 3339 formatting and
parsing on 0001-01-01 … 9999-12-31 (`datetime`, `strict_rfc3339`), `check_constraints` (C03's order) and the
normalisation of lambda bodies by `Micheline.match`.

The RFC 3339 part is no longer only a hypothesis: `Civil.fmtTimestamp` / `Civil.parseTimestamp`
(`Michelson/CivilDate.lean`) mirror `format_timestamp` and `strict_rfc3339.rfc3339_to_timestamp` over an executable
proleptic-Gregorian date algorithm, and the law is PROVED for them for every `t` of the range (section "the concrete
clock" below: `clock_parse_fmt`, `clock_days_civil_days`, `clock_civil_days_civil`, `rfc3339_law_concrete`,
`timestamp_roundtrip_concrete`, `ofMich_toMich_concrete`).  The abstract statements are kept.

Full statement (properties.jsonl): for every type and value, rendering in any of the three modes and parsing back at
the same type yields an equal value, including every timestamp (outside years 1000–9999 too; Tezos renders those as
integers).  Proved at full strength for all types and values (induction on the type; no bound on depth, comb
length, collection size or integer magnitude).  The only side conditions are the ones under which the *call* keeps
the information (`faithful`): `lazy_diff` must select the part of a big_map / sapling_state that is present, and a
typed 64-byte signature comes back with the generic `sig` prefix from the optimized forms (same bytes; separate
theorem `signature_optimized`). -/
namespace C11
open VC Impl.Value Spec.Value

/-- the source has the repaired timestamp rendering: a range guard equal to the range on which `datetime` and
`strict_rfc3339` agree, and a zero-padded year -/
theorem source_repaired :
    Generated.C11.tsGuard = some (some (rfcLo, rfcHi)) ∧ Generated.C11.yearPadded = some true ∧ sourceOk = true := by
  decide

/-- **round trip**, all types, all values, each mode, each `lazy_diff` argument -/
theorem ofMich_toMich (env : Env) (hl : env.Lawful) (τ : Ty) (v : Val) (mode : Mode) (lz : Option Bool)
    (hty : hasTy env τ v = true) (hf : faithful mode lz τ v = true) :
    ∃ m, toMich env mode lz v = .ok m ∧ ofMich env τ m = .ok v := by
  refine ⟨(render env mode lz v).1, ?_, ?_⟩
  · simp [toMich, source_ok, no_raise env mode τ lz v hty hf]
  · simp [ofMich, source_ok, (rt env hl mode τ).1 lz v hty hf]

/-- for types without signature / big_map / sapling_state there is no side condition at all:
`HasTy v τ → ∀ mode, ofMich τ (toMich mode v) = ok v` -/
theorem ofMich_toMich_plain (env : Env) (hl : env.Lawful) (τ : Ty) (v : Val) (hp : plainTy τ = true)
    (hty : hasTy env τ v = true) (mode : Mode) (lz : Option Bool) :
    ∃ m, toMich env mode lz v = .ok m ∧ ofMich env τ m = .ok v :=
  ofMich_toMich env hl τ v mode lz hty (faithful_of_plain mode τ lz v hp)

/-- **combs, Impl = Spec**: the comb of `a, b, rest…` (any length ≥ 2) renders as the reference layout of its rendered
components: readable = flat `Pair`, optimized = `Pair a b` / `Pair a (Pair b c)` / sequence from length 4,
legacy optimized = right-nested pairs.  (Inner pair classes unannotated — with the annotation test in `iter_comb`
an annotated inner pair is a *component*, which is DESIGN §5 C17's defect and not repaired here.) -/
theorem comb_layout (env : Env) (mode : Mode) (lz : Option Bool) (named : Bool) (a b : Val) (rest : List Val)
    (h : lastNotFlat b rest = true) :
    (render env mode lz (combVal named a b rest)).1 =
      combLayout mode (render env mode lz a).1 (render env mode lz b).1 (rest.map fun x => (render env mode lz x).1) := by
  rw [render_comb env mode lz rest named a b h]

/-- **`fromComb_toComb`**: every comb length, each of the three layouts parses back to the comb -/
theorem fromComb_toComb (env : Env) (hl : env.Lawful) (τ : Ty) (mode : Mode) (lz : Option Bool)
    (named : Bool) (a b : Val) (rest : List Val) (h : lastNotFlat b rest = true)
    (hty : hasTy env τ (combVal named a b rest) = true) (hf : faithful mode lz τ (combVal named a b rest) = true) :
    ofMich env τ (combLayout mode (render env mode lz a).1 (render env mode lz b).1
        (rest.map fun x => (render env mode lz x).1)) = .ok (combVal named a b rest) := by
  rw [← comb_layout env mode lz named a b rest h]
  simp [ofMich, source_ok, (rt env hl mode τ).1 lz _ hty hf]

/-- the sequence form and the flat `Pair` form of a pair's `iter_comb` items are accepted in *every* mode
(what Tezos' typed parser accepts as well) -/
theorem comb_forms_accepted (env : Env) (hl : env.Lawful) (τ : Ty) (mode : Mode) (lz : Option Bool) (n : Bool) (a b : Val)
    (hty : hasTy env τ (.pair n a b) = true) (hf : faithful mode lz τ (.pair n a b) = true) :
    ofMich env τ (.seq (render env mode lz (.pair n a b)).2) = .ok (.pair n a b) ∧
    ofMich env τ (pairOf (render env mode lz (.pair n a b)).2) = .ok (.pair n a b) := by
  have := (rt env hl mode τ).2 lz n a b hty hf
  simp [ofMich, source_ok, this.1, this.2.1]

/-- every timestamp (`t : Int`, no range restriction) round-trips in every mode … -/
theorem timestamp_roundtrip (env : Env) (hl : env.Lawful) (t : Int) (a : Annot) (mode : Mode) (lz : Option Bool) :
    ∃ m, toMich env mode lz (.timestamp t) = .ok m ∧ ofMich env (.leaf .timestamp a) m = .ok (.timestamp t) :=
  ofMich_toMich_plain env hl _ _ (by simp [plainTy]) (by simp [hasTy]) mode lz

/-- … and outside 0001-01-01 … 9999-12-31 the readable form is the integer, as in Tezos -/
theorem timestamp_int_outside (env : Env) (t : Int) (lz : Option Bool) (h : t < rfcLo ∨ rfcHi < t) :
    toMich env .readable lz (.timestamp t) = .ok (.int t) := by
  have hg : inGuard t = false := by
    simp only [inGuard, Generated.C11.tsGuard, rfcLo, rfcHi] at *
    rcases h with h | h <;> simp <;> omega
  simp [toMich, source_ok, raises, render, tsToMich, hg]

/-- inside that range it is the RFC 3339 string -/
theorem timestamp_string_inside (env : Env) (t : Int) (lz : Option Bool) (h1 : rfcLo ≤ t) (h2 : t ≤ rfcHi) :
    toMich env .readable lz (.timestamp t) = .ok (.str (env.fmtTs t)) := by
  have hg : inGuard t = true := by
    simp only [inGuard, Generated.C11.tsGuard, rfcLo, rfcHi] at *
    simp; omega
  simp [toMich, source_ok, raises, render, tsToMich, hg, h1, h2]

/-- optimized forms name a signature by its length only: the value that comes back carries the generic prefix
(`sig`, or `BLsig` for 96 bytes) and the same payload -/
theorem signature_optimized (env : Env) (hl : env.Lawful) (d : DomVal) (a : Annot) (mode : Mode) (lz : Option Bool)
    (hv : env.valid .signature d = true) (hm : mode ≠ .readable) :
    ∃ m, toMich env mode lz (.dom .signature d) = .ok m ∧
      ofMich env (.leaf (.dom .signature) a) m = .ok (.dom .signature (binNorm .signature d)) := by
  refine ⟨.bytes (env.bin .signature d), ?_, ?_⟩
  · simp [toMich, source_ok, raises, render, domToMich, hm]
  · simp [ofMich, source_ok, ofMichCore, leafOfMich, domOfMich, (lit_dom .signature).1, hl.bin_rt _ d hv]

/-- a big_map literal rendered with the default `lazy_diff=False` raises (`Big_map id is not defined`): the error
branch of the mirror, not totalised away -/
theorem bigmap_literal_default_raises (env : Env) (mode : Mode) (kvs : List (Val × Val)) :
    toMich env mode (some false) (.bigMap none kvs) = .error .noId := by
  simp [toMich, source_ok, raises, bigMapLazy]

/-! ### what is NOT a value: the error branches of the reader (repairs 3f5c1d7, 1138dca, 45078c3) -/

/-- a node `prim args` that carries an annotation is a value of NO type: `Unit %a`, `Right :t 5`, `Pair %x 1 2`,
`Some @v 1` … (the classes with constructors go through `parse_micheline_value` / `PairType.from_micheline_value`,
which assert `not annots`; every other class wants a literal or a sequence) -/
theorem annotated_constructor_rejected (env : Env) (τ : Ty) (p : String) (args : List Mich) (an : String) (ans : List String) :
    ∃ e, ofMich env τ (.prim p args (an :: ans)) = .error e := by
  simp only [ofMich, source_ok, Bool.not_true, Bool.false_eq_true, if_false]
  cases τ with
  | leaf l a =>
    cases l <;> simp [ofMichCore, leafOfMich, intLit, domOfMich, Except.map]
  | option t a => rcases args with _ | ⟨x, _ | ⟨y, rest⟩⟩ <;> simp [ofMichCore]
  | or l r a => rcases args with _ | ⟨x, _ | ⟨y, rest⟩⟩ <;> simp [ofMichCore]
  | pair l r a => simp [ofMichCore, pairOfMich]
  | list t a => simp [ofMichCore]
  | set t a => simp [ofMichCore]
  | map k v a => simp [ofMichCore]
  | bigMap k v a => simp [ofMichCore, intLit, Except.map]
  | lambda x y a => simp [ofMichCore]
  | contract t a => simp [ofMichCore, domOfMich]
  | ticket t a => simp [ofMichCore, pairOfMich]
  | saplingState n a => simp [ofMichCore, intLit, Except.map]

/-- … nor is a map / big_map literal with an annotated `Elt` anywhere in it a value (here: at the head; `mapElts`
walks the items in order and stops at the first failure) -/
theorem annotated_elt_rejected (env : Env) (k v : Ty) (a : Annot) (p : String) (mk mv : Mich) (an : String)
    (ans : List String) (xs : List Mich) :
    ofMich env (.map k v a) (.seq (.prim p [mk, mv] (an :: ans) :: xs)) = .error .shape ∧
    ofMich env (.bigMap k v a) (.seq (.prim p [mk, mv] (an :: ans) :: xs)) = .error .shape := by
  simp [ofMich, source_ok, ofMichCore, mapElts]

/-- `Pair x1 x2 x3 …` / `{x1; x2; x3; …}` is a value of `pair a b` only when `b` is a pair type: over a list, set,
map, option, … on the right it is rejected (before 1138dca the right component took the remaining arguments as its
own elements: `Pair 1 2 3 : pair int (list int)` was read as `(1, [2; 3])`) -/
theorem nary_over_nonpair_rejected (env : Env) (l r : Ty) (a : Annot) (x y z : Mich) (rest : List Mich)
    (h : r.isPair = false) :
    ofMich env (.pair l r a) (pairOf (x :: y :: z :: rest)) = .error .shape ∧
    ofMich env (.pair l r a) (.seq (x :: y :: z :: rest)) = .error .shape := by
  have := pairOfMich_many_nonpair a.named (ofMichCore env l) (ofMichCore env r) x y z rest
  simp [ofMich, source_ok, ofMichCore, h, this.1, this.2]

/-- a string with a character other than printable ASCII and newline is not a value of `string` (45078c3) -/
theorem nonprintable_string_rejected (env : Env) (a : Annot) (s : String) (h : asciiOnly s = false) :
    ofMich env (.leaf .string a) (.str s) = .error .value := by
  simp [ofMich, source_ok, ofMichCore, leafOfMich, lit_string, h]

/-- tab, 0x01, DEL and `é` are refused; a newline, a space and `~` are fine -/
example : asciiOnly "a\tb" = false ∧ asciiOnly "\x01" = false ∧ asciiOnly "\x7f" = false ∧ asciiOnly "é" = false ∧
    asciiOnly "a\nb" = true ∧ asciiOnly " ~" = true ∧ asciiOnly "" = true := by decide

/-! ### the concrete clock: the RFC 3339 contract as a theorem -/

/-- **days → date → days**, every integer day number (no bound) -/
theorem clock_days_civil_days (z : Int) :
    Civil.daysFromCivil (Civil.civilFromDays z).1 (Civil.civilFromDays z).2.1 (Civil.civilFromDays z).2.2 = z :=
  Civil.daysFromCivil_civilFromDays z

/-- the date computed for a day number is a date of the proleptic Gregorian calendar
(`1 ≤ m ≤ 12`, `1 ≤ d ≤ monthLen y m` with the 4 / 100 / 400 leap rule) -/
theorem clock_civil_valid (z : Int) :
    Civil.validDate (Civil.civilFromDays z).1 (Civil.civilFromDays z).2.1 (Civil.civilFromDays z).2.2 :=
  Civil.civilFromDays_valid z

/-- **date → days → date**, every date of the calendar in any year (no bound) -/
theorem clock_civil_days_civil (y m d : Int) (h : Civil.validDate y m d) :
    Civil.civilFromDays (Civil.daysFromCivil y m d) = (y, m, d) :=
  Civil.civilFromDays_daysFromCivil y m d h

/-- the supported instants are exactly the years 1 … 9999 -/
theorem clock_year_range (t : Int) (h0 : rfcLo ≤ t) (h1 : t ≤ rfcHi) :
    1 ≤ (Civil.civilFromDays (t / 86400)).1 ∧ (Civil.civilFromDays (t / 86400)).1 ≤ 9999 :=
  Civil.civilFromDays_year_range _ (by unfold Civil.dayMin; unfold rfcLo at h0; omega)
    (by unfold Civil.dayMax; unfold rfcHi at h1; omega)

/-- **headline**: the mirror of `strict_rfc3339.rfc3339_to_timestamp` applied to the mirror of `format_timestamp`
gives the instant back, for EVERY `t` with 0001-01-01T00:00:00Z ≤ t ≤ 9999-12-31T23:59:59Z (no other bound) -/
theorem clock_parse_fmt (t : Int) (h0 : rfcLo ≤ t) (h1 : t ≤ rfcHi) :
    ∃ s, Civil.fmtTimestamp true t = some s ∧ Civil.parseTimestamp s = some t :=
  Civil.parse_fmt t h0 h1

/-- … and outside that range `format_timestamp` raises (the error branch, not totalised away) -/
theorem clock_fmt_raises_outside (padded : Bool) (t : Int) :
    Civil.fmtTimestamp padded t = none ↔ t < rfcLo ∨ rfcHi < t :=
  Civil.fmtTimestamp_eq_none_iff padded t

/-- the `ts_rt` component of `Env.Lawful` for the driver's environment — a theorem, no hypothesis -/
theorem rfc3339_law_concrete (t : Int) (h0 : rfcLo ≤ t) (h1 : t ≤ rfcHi) :
    Inst.env.parseTs (Inst.env.fmtTs t) = some t :=
  Inst.clock_rt t h0 h1

/-- **timestamps, concretely**: every `t : Int`, every mode, any environment carrying the concrete clock (in
particular the driver's, `Inst.env`) — no RFC 3339 hypothesis, no `Lawful` hypothesis at all.  In readable mode the
rendering is the 20-character text `YYYY-MM-DDTHH:MM:SSZ` inside the range and the integer outside (as in Tezos) -/
theorem timestamp_roundtrip_concrete (env : Env) (t : Int) (a : Annot) (mode : Mode) (lz : Option Bool) :
    ∃ m, toMich (Inst.withCivilClock env) mode lz (.timestamp t) = .ok m ∧
      ofMich (Inst.withCivilClock env) (.leaf .timestamp a) m = .ok (.timestamp t) ∧
      (mode = .readable →
        (rfcLo ≤ t ∧ t ≤ rfcHi → ∃ cs, Civil.fmtTimestamp true t = some cs ∧ cs.length = 20 ∧ m = .str (String.ofList cs)) ∧
        (t < rfcLo ∨ rfcHi < t → m = .int t)) ∧
      (mode ≠ .readable → m = .int t) := by
  by_cases hm : mode = .readable
  · by_cases hr : rfcLo ≤ t ∧ t ≤ rfcHi
    · have hg : inGuard t = true := by
        simp only [inGuard, Generated.C11.tsGuard, rfcLo, rfcHi] at *
        simp; omega
      obtain ⟨cs, hcs, _⟩ := Civil.parse_fmt t hr.1 hr.2
      refine ⟨.str (Inst.fmtTs t), ?_, ?_, ?_, ?_⟩
      · simp [toMich, source_ok, raises, render, tsToMich, hg, hr.1, hr.2, hm, Inst.withCivilClock]
      · simp [ofMich, source_ok, ofMichCore, leafOfMich, lit_ts_str, Inst.withCivilClock, Inst.clock_rt t hr.1 hr.2]
      · intro _
        refine ⟨fun _ => ⟨cs, hcs, Civil.fmtTimestamp_length t cs hcs, by rw [Inst.fmtTs_eq t cs hcs]⟩, ?_⟩
        intro h; omega
      · intro h; exact absurd hm h
    · have hg : inGuard t = false := by
        simp only [inGuard, Generated.C11.tsGuard, rfcLo, rfcHi] at *
        simp; omega
      refine ⟨.int t, ?_, ?_, ?_, ?_⟩
      · simp [toMich, source_ok, raises, render, tsToMich, hg, hm]
      · simp [ofMich, source_ok, ofMichCore, leafOfMich, lit_ts_int]
      · intro _; exact ⟨fun h => absurd h hr, fun _ => rfl⟩
      · intro _; rfl
  · refine ⟨.int t, ?_, ?_, ?_, ?_⟩
    · simp [toMich, source_ok, raises, render, tsToMich, hm]
    · simp [ofMich, source_ok, ofMichCore, leafOfMich, lit_ts_int]
    · intro h; exact absurd h hm
    · intro _; rfl

/-- `timestamp_roundtrip_concrete` for the environment the correspondence runs (`lean/Driver/C11.lean`) -/
theorem timestamp_roundtrip_driver (t : Int) (a : Annot) (mode : Mode) (lz : Option Bool) :
    ∃ m, toMich Inst.env mode lz (.timestamp t) = .ok m ∧ ofMich Inst.env (.leaf .timestamp a) m = .ok (.timestamp t) := by
  obtain ⟨m, h1, h2, _⟩ := timestamp_roundtrip_concrete Inst.env t a mode lz
  exact ⟨m, h1, h2⟩

/-- **`ofMich_toMich` with the concrete clock**: all types, all values, each mode, each `lazy_diff`; the hypothesis is
`env.LawfulCodecs` — base58 text / optimized bytes (C09, C10) and lambda normalisation only, NO RFC 3339 contract -/
theorem ofMich_toMich_concrete (env : Env) (hc : env.LawfulCodecs) (τ : Ty) (v : Val) (mode : Mode) (lz : Option Bool)
    (hty : hasTy (Inst.withCivilClock env) τ v = true) (hf : faithful mode lz τ v = true) :
    ∃ m, toMich (Inst.withCivilClock env) mode lz v = .ok m ∧ ofMich (Inst.withCivilClock env) τ m = .ok v :=
  ofMich_toMich _ (Inst.withCivilClock_lawful env hc) τ v mode lz hty hf

/-- … specialised to the driver's environment -/
theorem ofMich_toMich_driver (hc : Inst.env.LawfulCodecs) (τ : Ty) (v : Val) (mode : Mode) (lz : Option Bool)
    (hty : hasTy Inst.env τ v = true) (hf : faithful mode lz τ v = true) :
    ∃ m, toMich Inst.env mode lz v = .ok m ∧ ofMich Inst.env τ m = .ok v :=
  ofMich_toMich_concrete Inst.env hc τ v mode lz hty hf

/-! ### non-vacuity -/

/-- a lawful environment exists (toy codecs; the real ones are the subject of C09 / C10 / `datetime`) -/
def toyEnv : Env where
  valid := fun _ _ => false
  text := fun _ _ => ""
  ofText := fun _ _ => none
  bin := fun _ _ => []
  ofBin := fun _ _ => none
  fmtTs := fun t => String.ofList (List.replicate (t - rfcLo).toNat 'x')
  parseTs := fun s => some (rfcLo + (s.length : Int))
  keysOk := fun _ _ => true
  normLambda := fun c => some c
  lambdaOk := fun _ => true

theorem toyEnv_lawful : toyEnv.Lawful where
  text_rt := by intro k d h; simp [toyEnv] at h
  bin_rt := by intro k d h; simp [toyEnv] at h
  ts_rt := by
    intro t h1 h2
    simp only [toyEnv, String.length_ofList, List.length_replicate, Option.some.injEq]
    omega
  lambda_rt := by intro c _; rfl

/-- `Pair 1 2 3` at `pair int (list int)` is rejected, `Pair 1 {2; 3}` is the value, and at `pair int (pair int int)`
the flat form is accepted; `Unit %a` is not a value of `unit`, `Unit` is -/
example :
    ofMich toyEnv (.pair (.leaf .int {}) (.list (.leaf .int {}) {}) {}) (pairOf [.int 1, .int 2, .int 3]) = .error .shape ∧
    ofMich toyEnv (.pair (.leaf .int {}) (.list (.leaf .int {}) {}) {}) (pairOf [.int 1, .seq [.int 2, .int 3]])
      = .ok (.pair false (.int 1) (.list [.int 2, .int 3])) ∧
    ofMich toyEnv (.pair (.leaf .int {}) (.pair (.leaf .int {}) (.leaf .int {}) {}) {}) (pairOf [.int 1, .int 2, .int 3])
      = .ok (.pair false (.int 1) (.pair false (.int 2) (.int 3))) ∧
    ofMich toyEnv (.leaf .unit {}) (.prim "Unit" [] ["%a"]) = .error .shape ∧
    ofMich toyEnv (.leaf .unit {}) (.prim "Unit" [] []) = .ok .unit := by
  refine ⟨(nary_over_nonpair_rejected toyEnv _ _ _ _ _ _ _ rfl).1, ?_, ?_, ?_, ?_⟩ <;>
    simp [ofMich, source_ok, ofMichCore, pairOfMich, pairOf, Ty.isPair, leafOfMich, intLit, lit_int, mapMich, Except.map,
      Annot.named, acc_unit]

/-- a 5-comb with an annotated outer pair, a list, an option and a map inside, all three modes at once -/
example (env : Env) (hl : env.Lawful) (mode : Mode) :
    let τ : Ty := .pair (.leaf .nat {}) (.pair (.list (.leaf .int {}) {}) (.pair (.option (.leaf .string {}) {})
      (.pair (.leaf .timestamp {}) (.leaf .bool {}) {}) {}) {}) { field := some "store" }
    let v : Val := combVal true (.int 7) (.list [.int (-3), .int (2 ^ 4096)]) [.some (.str "abc"), .timestamp (-99999999999), .bool true]
    hasTy env τ v = true ∧ ∃ m, toMich env mode none v = .ok m ∧ ofMich env τ m = .ok v := by
  intro τ v
  have hty : hasTy env τ v = true := by
    simp [τ, v, hasTy, combVal, Annot.named, asciiOnly]
    decide
  exact ⟨hty, ofMich_toMich_plain env hl τ v (by simp [τ, plainTy]) hty mode none⟩

example : ∃ m, toMich toyEnv .readable none (.timestamp (-62135596801)) = .ok m ∧ m.beq (.int (-62135596801)) = true :=
  ⟨_, timestamp_int_outside toyEnv _ none (by simp [rfcLo]), by decide⟩

/-- the concrete clock on boundary instants (kernel-evaluated): first and last supported second, the last second of
a leap-century February, the second before the epoch -/
example : Civil.fmtTimestamp true (-62135596800) = some "0001-01-01T00:00:00Z".toList ∧
    Civil.fmtTimestamp true 253402300799 = some "9999-12-31T23:59:59Z".toList ∧
    Civil.fmtTimestamp true 951868799 = some "2000-02-29T23:59:59Z".toList ∧
    Civil.fmtTimestamp true (-2203891201) = some "1900-02-28T23:59:59Z".toList ∧
    Civil.fmtTimestamp true (-1) = some "1969-12-31T23:59:59Z".toList ∧
    Civil.fmtTimestamp true (-62135596801) = none ∧ Civil.fmtTimestamp true 253402300800 = none := by decide

example : Civil.parseTimestamp "1969-12-31T23:59:59Z".toList = some (-1) ∧
    Civil.parseTimestamp "2000-02-29T00:00:00+01:00".toList = some 951778800 ∧
    Civil.parseTimestamp "1900-02-29T00:00:00Z".toList = none ∧
    Civil.parseTimestamp "0000-12-31T23:59:59Z".toList = none ∧
    Civil.parseTimestamp "1970-01-01t00:00:00z".toList = none ∧
    Civil.parseTimestamp "1969-12-31T23:59:59.5Z".toList = some 0 ∧
    Civil.parseTimestamp "1970-01-01T00:00:00Z\n".toList = some 0 := by decide

/-- the codec-only hypothesis is satisfiable, and the concrete theorem applies to a value with timestamps on both
sides of both range ends -/
theorem toyEnv_lawfulCodecs : toyEnv.LawfulCodecs where
  text_rt := toyEnv_lawful.text_rt
  bin_rt := toyEnv_lawful.bin_rt
  lambda_rt := toyEnv_lawful.lambda_rt

example (mode : Mode) :
    let τ : Ty := .list (.leaf .timestamp {}) {}
    let v : Val := .list [.timestamp (-62135596801), .timestamp (-62135596800), .timestamp (-1), .timestamp 253402300799,
      .timestamp 253402300800]
    ∃ m, toMich (Inst.withCivilClock toyEnv) mode none v = .ok m ∧ ofMich (Inst.withCivilClock toyEnv) τ m = .ok v := by
  intro τ v
  exact ofMich_toMich_concrete toyEnv toyEnv_lawfulCodecs τ v mode none (by simp [τ, v, hasTy]) (by simp [τ, v, faithful])

end C11
