import PytezosModel.Proofs.C14Coll
import PytezosModel.Proofs.C14Dict
/-!
# C14 — sets and maps behave like sorted dictionaries under any update history

`Impl.Coll.*` mirrors `SetType` / `MapType` and the UPDATE / GET_AND_UPDATE / GET / MEM / SIZE / MAP / ITER instructions
(src/pytezos/michelson/types/set.py, map.py, instructions/struct.py, control.py); `Spec.Coll.*` is the reference sorted
dictionary (ordered insertion / deletion / search).  Everything is generic in the key type `κ` with its runtime `eq` / `lt`
under the hypothesis `StrictTotal eq lt` — which `C03.tval_strictTotal` proves for the values of every comparable
Michelson type — and is instantiated for `Int` keys below (non-vacuity).
Histories are arbitrary operation lists (induction over the list: every reachable state, no length bound).
-/
namespace C14
open Coll Impl.Coll Spec.Coll

/-- the source still has the shape the mirror was written from -/
theorem source_shapes_recognised : Impl.Coll.shapesOk = true := by decide

variable {κ ν : Type} {eq lt : κ → κ → Bool}

/-- the invariant: keys strictly ascending (sorted, no duplicates) -/
def InvSet (lt : κ → κ → Bool) (s : List κ) : Prop := StrictSorted lt s
def InvMap (lt : κ → κ → Bool) (m : List (κ × ν)) : Prop := StrictSorted lt (keys m)

/-- a literal is accepted iff its keys are strictly ascending; unsorted or duplicate keys are rejected -/
theorem literal_accept_iff (h : StrictTotal eq lt) (ks : List κ) :
    checkConstraints eq lt ks = .ok () ↔ StrictSorted lt ks := checkConstraints_ok_iff h ks

theorem literal_reject_duplicates (h : StrictTotal eq lt) (ks : List κ) :
    checkConstraints eq lt ks = .error .duplicate ↔ ¬ ks.Nodup := checkConstraints_dup_iff h ks

theorem set_literal_inv (h : StrictTotal eq lt) (items s : List κ) (hl : Set.literal eq lt items = .ok s) :
    s = items ∧ InvSet lt s := by
  unfold Set.literal at hl
  cases hc : checkConstraints eq lt items with
  | ok u =>
    rw [hc] at hl
    cases u
    have : items = s := by simpa using hl
    subst this
    exact ⟨rfl, (checkConstraints_ok_iff h _).1 hc⟩
  | error e => rw [hc] at hl; cases hl

theorem map_literal_inv (h : StrictTotal eq lt) (items m : List (κ × ν)) (hl : Map.literal eq lt items = .ok m) :
    m = items ∧ InvMap lt m := by
  unfold Map.literal at hl
  cases hc : checkConstraints eq lt (items.map (·.1)) with
  | ok u =>
    rw [hc] at hl
    cases u
    have : items = m := by simpa using hl
    subst this
    exact ⟨rfl, (checkConstraints_ok_iff h _).1 hc⟩
  | error e => rw [hc] at hl; cases hl

theorem map_literal_accept_iff (h : StrictTotal eq lt) (items : List (κ × ν)) :
    Map.literal eq lt items = .ok items ↔ InvMap lt items := literal_ok_iff h items

/-! ### one step: the invariant is kept, and the step is the reference dictionary's step -/
/-- UPDATE on a set (insert / remove) -/
theorem set_step_inv (h : StrictTotal eq lt) {s : List κ} (hs : InvSet lt s) (op : SetOp κ) :
    InvSet lt (Set.step eq lt s op) := by
  rw [setStep_refines h hs op]; exact setStep_inv h hs op

theorem set_step_refines (h : StrictTotal eq lt) {s : List κ} (hs : InvSet lt s) (op : SetOp κ) :
    Set.step eq lt s op = setStep lt s op := setStep_refines h hs op

/-- UPDATE (insert / replace / remove), GET_AND_UPDATE, MAP f, ITER on a map: never fails from a sorted state,
and the new state is the reference dictionary's -/
theorem step_refines_dict (h : StrictTotal eq lt) {m : List (κ × ν)} (hm : InvMap lt m) (op : MapOp κ ν) :
    Map.step eq lt m op = .ok (dictStep lt m op) := step_refines h hm op

theorem step_inv (h : StrictTotal eq lt) {m m' : List (κ × ν)} (hm : InvMap lt m) (op : MapOp κ ν)
    (hs : Map.step eq lt m op = .ok m') : InvMap lt m' := by
  rw [step_refines h hm op] at hs
  have : dictStep lt m op = m' := by simpa using hs
  rw [← this]; exact dictStep_inv h hm op

/-! ### histories -/
/-- every state reachable from a sorted set by UPDATEs is sorted and equals the reference's -/
theorem set_history (h : StrictTotal eq lt) (ops : List (SetOp κ)) {s₀ : List κ} (hs : InvSet lt s₀) :
    InvSet lt (ops.foldl (Set.step eq lt) s₀) ∧ ops.foldl (Set.step eq lt) s₀ = ops.foldl (setStep lt) s₀ := by
  have := setRun_refines h ops s₀ hs
  exact ⟨this.1 ▸ this.2, this.1⟩

/-- every history of map operations from a sorted map runs without error, ends in a sorted map, and that map is the
one the reference dictionary computes -/
theorem history_inv (h : StrictTotal eq lt) (ops : List (MapOp κ ν)) {m₀ : List (κ × ν)} (hm : InvMap lt m₀) :
    ∃ m, Map.run eq lt m₀ ops = .ok m ∧ InvMap lt m ∧ m = ops.foldl (dictStep lt) m₀ :=
  ⟨_, (run_refines h ops m₀ hm).1, (run_refines h ops m₀ hm).2, rfl⟩

/-- … in particular starting from the empty collection or from any accepted literal -/
theorem history_from_literal (h : StrictTotal eq lt) (items : List (κ × ν)) (ops : List (MapOp κ ν)) {m₀ : List (κ × ν)}
    (hl : Map.literal eq lt items = .ok m₀) :
    ∃ m, Map.run eq lt m₀ ops = .ok m ∧ InvMap lt m :=
  let ⟨m, h1, h2, _⟩ := history_inv h ops (map_literal_inv h items m₀ hl).2
  ⟨m, h1, h2⟩

/-! ### observations agree with the reference -/
/-- MEM on a set -/
theorem obs_set_mem (h : StrictTotal eq lt) {s : List κ} (hs : InvSet lt s) (x : κ) :
    Set.contains eq s x = memKey lt x s := (memKey_eq h x s hs).symm

/-- GET -/
theorem obs_get (h : StrictTotal eq lt) {m : List (κ × ν)} (hm : InvMap lt m) (k : κ) :
    Map.get eq m k = findKV lt k m := get_eq h k m hm

/-- MEM on a map -/
theorem obs_map_mem (h : StrictTotal eq lt) {m : List (κ × ν)} (hm : InvMap lt m) (k : κ) :
    Map.contains eq m k = (findKV lt k m).isSome := by
  unfold Map.contains; rw [get_eq h k m hm]

/-- GET_AND_UPDATE returns the old binding -/
theorem obs_get_and_update (h : StrictTotal eq lt) {m : List (κ × ν)} (hm : InvMap lt m) (k : κ) (v : Option ν) :
    (Map.update eq lt m k v).1 = findKV lt k m := by
  rw [update_eq h hm]

/-- SIZE and the ITER order: the state IS the reference's sorted association list, so its length and order are the
reference's (iteration in strictly ascending key order) -/
theorem obs_size_iter (h : StrictTotal eq lt) (ops : List (MapOp κ ν)) {m₀ m : List (κ × ν)} (hm : InvMap lt m₀)
    (hr : Map.run eq lt m₀ ops = .ok m) :
    size m = (ops.foldl (dictStep lt) m₀).length ∧ iter m = ops.foldl (dictStep lt) m₀ ∧ StrictSorted lt (keys (iter m)) := by
  have ⟨h1, h2⟩ := run_refines h ops m₀ hm
  rw [h1] at hr
  have : ops.foldl (dictStep lt) m₀ = m := by simpa using hr
  subst this
  exact ⟨rfl, rfl, h2⟩

/-- membership after a history = membership in the reference, element-wise characterisation for sets -/
theorem obs_set_members (h : StrictTotal eq lt) {s : List κ} (hs : InvSet lt s) (x z : κ) :
    (z ∈ Set.add eq lt s x ↔ z = x ∨ z ∈ s) ∧ (z ∈ Set.remove eq s x ↔ z ∈ s ∧ z ≠ x) := by
  rw [add_eq h hs, remove_eq h hs]
  exact ⟨mem_insertKey_iff h x hs z, mem_eraseKey h x hs z⟩

/-- the dictionary laws, on the implementation: after UPDATE (insert / replace with `some v`, delete with `none`) GET of the
same key gives the new binding, GET of any other key is unchanged -/
theorem get_update_same (h : StrictTotal eq lt) {m : List (κ × ν)} (hm : InvMap lt m) (k : κ) (v : Option ν) :
    Map.get eq (Map.update eq lt m k v).2 k = v := by
  have hs : InvMap lt (Map.update eq lt m k v).2 := by
    rw [update_eq h hm]; cases v
    · simp only [InvMap, eraseKV_keys]; exact eraseKey_strict h k hm
    · simp only [InvMap, insertKV_keys]; exact insertKey_strict h k _ hm
  rw [get_eq h k _ hs, update_eq h hm]
  cases v with
  | none => exact find_eraseKV_same h k m hm
  | some x => exact find_insertKV_same h k x m hm

theorem get_update_other (h : StrictTotal eq lt) {m : List (κ × ν)} (hm : InvMap lt m) (k k' : κ) (v : Option ν)
    (hne : k' ≠ k) : Map.get eq (Map.update eq lt m k v).2 k' = Map.get eq m k' := by
  have hs : InvMap lt (Map.update eq lt m k v).2 := by
    rw [update_eq h hm]; cases v
    · simp only [InvMap, eraseKV_keys]; exact eraseKey_strict h k hm
    · simp only [InvMap, insertKV_keys]; exact insertKey_strict h k _ hm
  rw [get_eq h k' _ hs, get_eq h k' m hm, update_eq h hm]
  cases v with
  | none => exact find_eraseKV_other h k k' hne m hm
  | some x => exact find_insertKV_other h k k' x hne m hm

/-! ### instance: `int` keys (Python ints with `==` and `<`) -/
def intEq (a b : Int) : Bool := a == b
def intLt (a b : Int) : Bool := decide (a < b)

theorem int_strictTotal : StrictTotal intEq intLt where
  eq_iff := by intro a b; simp [intEq]
  irrefl := by intro a; simp [intLt]
  trans := by intro a b c; simp only [intLt, decide_eq_true_eq]; omega
  total := by intro a b; simp only [intLt, decide_eq_true_eq]; omega

/-- for `map int ν`: every history from the empty map is error free and ends sorted -/
theorem int_history (ops : List (MapOp Int ν)) :
    ∃ m, Map.run intEq intLt ([] : List (Int × ν)) ops = .ok m ∧ InvMap intLt m :=
  let ⟨m, h1, h2, _⟩ := history_inv int_strictTotal ops (m₀ := []) List.Pairwise.nil
  ⟨m, h1, h2⟩

-- non-vacuity: concrete histories
example : Map.run intEq intLt ([] : List (Int × Int))
    [.update 3 (some 30), .update 1 (some 10), .update 2 (some 20), .update 1 none, .mapv (fun k v => v + k), .update 3 (some 0)]
    = .ok [(2, 22), (3, 0)] := by rfl
example : [SetOp.add 3, .add 1, .add 2, .add 1, .remove 3].foldl (Set.step intEq intLt) [] = [1, 2] := by decide
example : checkConstraints intEq intLt [1, 3, 2] = .error .unsorted := by rfl
example : checkConstraints intEq intLt [1, 2, 2] = .error .duplicate := by rfl
example : checkConstraints intEq intLt [1, 2, 5] = .ok () := by rfl

end C14
