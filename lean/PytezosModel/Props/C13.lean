import PytezosModel.Proofs.C13
/-! C13 — entrypoint resolution and parameter decoding are mutual inverses.

Mirror: `Impl.Entrypoints` (`ParameterSection.create_type` root name, `list_entrypoints`, `from_parameters`,
`to_parameters`, `OrType.iter_type_args(entrypoints=True)`, `get_type_layout(entrypoints=True)`, `wrap_parameters`),
instantiated with the configuration `cfg?` the translator reads from the source *now*.  Every theorem is stated for
"the configuration read from the source" (`cfg? = some c`); `source_shape` pins what that configuration has to be for
the round-trip theorems to hold (the pinned tree has `deepest = false`: `to_parameters` looks the *leaf* path up and
raises on an unannotated leaf — then `source_shape` does not close and the check searches a failing input).

Statement (properties.jsonl): for every parameter type the listed entrypoints are exactly the annotated union
branches plus the root entrypoint; every full value converts to (entrypoint, argument) and back to the same value;
for every listed entrypoint and argument, building the full value and converting it back also round-trips.

Domain: all `or` trees with any placement of annotations (inner nodes, leaves, root, `default`, `root`, empty
annotation), all values; no depth bound.  Types in which two branches carry the same name are ill-formed in Tezos;
`ill_formed_rejected` shows the listing refuses them. -/
namespace C13
open Impl.Entrypoints Spec.Entrypoints

deriving instance DecidableEq for Except

/-- what the translator has to find in the source: the deepest-annotated-node walk that skips names shadowed by the
root name, and the two reserved names -/
theorem source_shape : cfg? = some ⟨true, true, "default", "root"⟩ := by decide

theorem cfg_deepest {c : Cfg} (hc : cfg? = some c) : c.deepest = true ∧ c.skipShadowed = true := by
  rw [source_shape] at hc; cases hc; exact ⟨rfl, rfl⟩

/-- 1. `list_entrypoints` = Tezos' entrypoints: same entries (as a dict: up to order, names unique); it raises exactly
on the ill-formed types. -/
theorem listEntrypoints_eq_spec (c : Cfg) (_hc : cfg? = some c) (p : PTy) :
    match listEntrypoints c p, entrypoints c.dflt c.root p with
    | .ok d, some s => d.Perm s ∧ (d.map (·.1)).Nodup
    | .error e, none => e = .duplicateKey
    | _, _ => False := by
  by_cases h : WellFormed p
  · rw [listEntrypoints_wf c h]
    simp only [entrypoints, if_pos h]
    have hp := dset_perm (xs := properBranches p) (k := rootName c.dflt c.root p) (v := p) h
    refine ⟨hp, ?_⟩
    rw [(hp.map (·.1)).nodup_iff]
    simp only [List.map_append, List.map_cons, List.map_nil]
    rw [List.nodup_append]
    refine ⟨(List.filter_sublist.map _).nodup h, by simp, ?_⟩
    intro a ha b hb
    simp only [List.mem_singleton] at hb
    subst hb
    obtain ⟨e, he, rfl⟩ := List.mem_map.mp ha
    simpa using (List.mem_filter.mp he).2
  · rw [listEntrypoints_not_wf c h]
    simp [entrypoints, if_neg h]

/-- … and literally the same list (same order) unless a branch is shadowed by the root name -/
theorem listEntrypoints_eq_spec_exact (c : Cfg) (_hc : cfg? = some c) (p : PTy)
    (hsh : rootName c.dflt c.root p ∉ (properBranches p).map (·.1)) :
    (listEntrypoints c p).toOption = entrypoints c.dflt c.root p := by
  by_cases h : WellFormed p
  · rw [listEntrypoints_wf c h, dset_of_not_mem hsh]
    simp only [entrypoints, if_pos h, Except.toOption]
    congr 2
    symm
    apply List.filter_eq_self.mpr
    intro e he
    have : e.1 ≠ rootName c.dflt c.root p := fun hh => hsh (List.mem_map.mpr ⟨e, he, hh⟩)
    simpa using this
  · rw [listEntrypoints_not_wf c h]
    simp [entrypoints, if_neg h, Except.toOption]

theorem ill_formed_rejected (c : Cfg) (_hc : cfg? = some c) (p : PTy) (h : ¬ WellFormed p) :
    listEntrypoints c p = .error .duplicateKey :=
  listEntrypoints_not_wf c h

/-- 2. full value → (entrypoint, argument) → full value, for every well-formed type and every value of it -/
theorem toParams_fromParams (c : Cfg) (hc : cfg? = some c) (p : PTy) (v : PVal)
    (hwf : WellFormed p) (hty : hasTy v p = true) :
    (toParameters c p v).bind (fun ea => fromParameters c p ea.1 ea.2) = .ok v := by
  obtain ⟨e, a, hto, hfrom⟩ := toParams_fromParams_core c (cfg_deepest hc).1 (cfg_deepest hc).2 hwf hty
  rw [hto]; exact hfrom

/-- 3. (entrypoint, argument) → full value → (entrypoint', argument') → the same full value, for every listed
entrypoint `e : τ` and every argument of type `τ`.  The full value is the one Tezos builds (the argument injected at
the path of the branch called `e`; the whole parameter for the root name).  `(e', a')` need not be `(e, a)`: Tezos
lets several entrypoints denote the same full value (an argument of a union-typed entrypoint may itself pass
through a deeper annotated branch) and `to_parameters` always answers with the deepest one — the normalisation
allowed here is exactly "denotes the same full value". -/
theorem fromParams_toParams_value (c : Cfg) (hc : cfg? = some c) (p : PTy) (hwf : WellFormed p)
    (d : List (String × PTy)) (hl : listEntrypoints c p = .ok d) (e : String) (τ : PTy) (hm : (e, τ) ∈ d)
    (a : PVal) (ha : hasTy a τ = true) :
    ∃ v e' a', fromParameters c p e a = .ok v ∧ hasTy v p = true
      ∧ (∃ q node, nodeAt p q = some node ∧ node.anon = τ.anon ∧ v = inject a q ∧ (q = [] ↔ e = rootName c.dflt c.root p))
      ∧ toParameters c p v = .ok (e', a') ∧ fromParameters c p e' a' = .ok v := by
  obtain ⟨q, node, hn, han, hfrom, hty, hq⟩ := fromParameters_listed c hwf hl hm ha
  obtain ⟨e', a', hto, hback⟩ := toParams_fromParams_core c (cfg_deepest hc).1 (cfg_deepest hc).2 hwf hty
  exact ⟨inject a q, e', a', hfrom, hty, ⟨q, node, hn, han, rfl, hq⟩, hto, hback⟩

/-- … and for an entrypoint of non-union type (other than the root name) the pair itself comes back -/
theorem fromParams_toParams_leaf_exact (c : Cfg) (hc : cfg? = some c) (p : PTy) (hwf : WellFormed p)
    (d : List (String × PTy)) (hl : listEntrypoints c p = .ok d) (e : String) (ann : Option String) (t x : Nat)
    (hm : (e, .leaf ann t) ∈ d) (hne : e ≠ rootName c.dflt c.root p) :
    ∃ v, fromParameters c p e (.leaf t x) = .ok v ∧ toParameters c p v = .ok (e, .leaf t x) :=
  toParameters_fromParameters_leaf c (cfg_deepest hc).1 (cfg_deepest hc).2 hwf hl hm hne

/-! non-vacuity: the two recorded inputs (annotated inner node over unannotated leaves; unannotated leaf next to
annotated ones), the `default`/`root` clash, and what the pinned-tree configuration does on them -/
def cfgNow : Cfg := ⟨true, true, "default", "root"⟩
def tyA : PTy := .or none (.or (some "A") (.leaf none 1) (.leaf none 2)) (.leaf (some "B") 1)
def tyB : PTy := .or none (.leaf (some "a") 1) (.or none (.leaf (some "b") 2) (.leaf none 0))
def tyC : PTy := .or none (.leaf (some "default") 1) (.leaf (some "root") 2)

example : WellFormed tyA ∧ WellFormed tyB ∧ WellFormed tyC := by decide
example : toParameters cfgNow tyA (.left (.left (.leaf 1 7))) = .ok ("A", .left (.leaf 1 7)) := by decide
example : fromParameters cfgNow tyA "A" (.left (.leaf 1 7)) = .ok (.left (.left (.leaf 1 7))) := by decide
example : toParameters cfgNow tyB (.right (.right (.leaf 0 0))) = .ok ("default", .right (.right (.leaf 0 0))) := by decide
example : toParameters cfgNow tyC (.right (.leaf 2 5)) = .ok ("root", .right (.leaf 2 5)) := by decide
example : listEntrypoints cfgNow tyA
    = .ok [("A", .or none (.leaf none 1) (.leaf none 2)), ("B", .leaf none 1), ("default", tyA)] := by decide
-- the pinned tree (`deepest = false`) raises on the first two and returns an undecodable pair on the third
example : toParameters ⟨false, false, "default", "root"⟩ tyA (.left (.left (.leaf 1 7))) = .error .keyError := by decide
example : toParameters ⟨false, false, "default", "root"⟩ tyB (.right (.right (.leaf 0 0))) = .error .keyError := by decide
example : (toParameters ⟨true, false, "default", "root"⟩ tyC (.right (.leaf 2 5))).bind
    (fun ea => fromParameters ⟨true, false, "default", "root"⟩ tyC ea.1 ea.2) = .error .badValue := by decide

end C13
