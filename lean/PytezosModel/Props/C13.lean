import PytezosModel.Proofs.C13
import PytezosModel.Proofs.C13Py
/-! C13 — entrypoint resolution and parameter decoding are mutual inverses.

Mirror: `Impl.Entrypoints` (`ParameterSection.create_type` root name, `list_entrypoints`, `from_parameters`,
`to_parameters`, `OrType.iter_type_args(entrypoints=True)`, `get_type_layout(entrypoints=True)`, `wrap_parameters`),
instantiated with the configuration `cfg?` the translator reads from the source *now*.  Every theorem is stated for
"the configuration read from the source" (`cfg? = some c`); `source_shape` pins what that configuration has to be for
the round-trip theorems to hold (the pinned tree has `deepest = false`: `to_parameters` looks the *leaf* path up and
raises on an unannotated leaf — then `source_shape` does not close and the check searches a failing input).

Statement (properties.jsonl): for every parameter type the listed entrypoints are exactly the annotated union
branches plus the root entrypoint; every full value converts to (entrypoint, argument) and back to the same value;
for every listed entrypoint and argument, building the full value and converting it back also round-trips.

Domain: all `or` trees with any placement of annotations (inner nodes, leaves, root, `default`, `root`, empty
annotation), all values; no depth bound.  Types in which two branches carry the same name are ill-formed in Tezos;
`ill_formed_rejected` shows the listing refuses them.

Extension (sections 4–6 below; theorems 1–3 are unchanged): `:type` annotations, several annotations on one node, unions
below non-union nodes, and the Python-object form of a call (`Michelson/EntrypointsPy.lean`).  `QTy` is the matched type
with `field_name` and `type_name` on every node, `q.erase : PTy` what the entrypoint functions read of it; `RTy` is the
type expression as written (raw annotation lists, `pair` / `option` / `list` nodes with unions below them). -/
namespace C13
open Impl.Entrypoints Spec.Entrypoints

deriving instance DecidableEq for Except

/-- what the translator has to find in the source: the deepest-annotated-node walk that skips names shadowed by the
root name, and the two reserved names -/
theorem source_shape : cfg? = some ⟨true, true, "default", "root"⟩ := by decide

theorem cfg_deepest {c : Cfg} (hc : cfg? = some c) : c.deepest = true ∧ c.skipShadowed = true := by
  rw [source_shape] at hc; cases hc; exact ⟨rfl, rfl⟩

/-- 1. `list_entrypoints` = Tezos' entrypoints: same entries (as a dict: up to order, names unique); it raises exactly
on the ill-formed types. -/
theorem listEntrypoints_eq_spec (c : Cfg) (_hc : cfg? = some c) (p : PTy) :
    match listEntrypoints c p, entrypoints c.dflt c.root p with
    | .ok d, some s => d.Perm s ∧ (d.map (·.1)).Nodup
    | .error e, none => e = .duplicateKey
    | _, _ => False := by
  by_cases h : WellFormed p
  · rw [listEntrypoints_wf c h]
    simp only [entrypoints, if_pos h]
    have hp := dset_perm (xs := properBranches p) (k := rootName c.dflt c.root p) (v := p) h
    refine ⟨hp, ?_⟩
    rw [(hp.map (·.1)).nodup_iff]
    simp only [List.map_append, List.map_cons, List.map_nil]
    rw [List.nodup_append]
    refine ⟨(List.filter_sublist.map _).nodup h, by simp, ?_⟩
    intro a ha b hb
    simp only [List.mem_singleton] at hb
    subst hb
    obtain ⟨e, he, rfl⟩ := List.mem_map.mp ha
    simpa using (List.mem_filter.mp he).2
  · rw [listEntrypoints_not_wf c h]
    simp [entrypoints, if_neg h]

/-- … and literally the same list (same order) unless a branch is shadowed by the root name -/
theorem listEntrypoints_eq_spec_exact (c : Cfg) (_hc : cfg? = some c) (p : PTy)
    (hsh : rootName c.dflt c.root p ∉ (properBranches p).map (·.1)) :
    (listEntrypoints c p).toOption = entrypoints c.dflt c.root p := by
  by_cases h : WellFormed p
  · rw [listEntrypoints_wf c h, dset_of_not_mem hsh]
    simp only [entrypoints, if_pos h, Except.toOption]
    congr 2
    symm
    apply List.filter_eq_self.mpr
    intro e he
    have : e.1 ≠ rootName c.dflt c.root p := fun hh => hsh (List.mem_map.mpr ⟨e, he, hh⟩)
    simpa using this
  · rw [listEntrypoints_not_wf c h]
    simp [entrypoints, if_neg h, Except.toOption]

theorem ill_formed_rejected (c : Cfg) (_hc : cfg? = some c) (p : PTy) (h : ¬ WellFormed p) :
    listEntrypoints c p = .error .duplicateKey :=
  listEntrypoints_not_wf c h

/-- 2. full value → (entrypoint, argument) → full value, for every well-formed type and every value of it -/
theorem toParams_fromParams (c : Cfg) (hc : cfg? = some c) (p : PTy) (v : PVal)
    (hwf : WellFormed p) (hty : hasTy v p = true) :
    (toParameters c p v).bind (fun ea => fromParameters c p ea.1 ea.2) = .ok v := by
  obtain ⟨e, a, hto, hfrom⟩ := toParams_fromParams_core c (cfg_deepest hc).1 (cfg_deepest hc).2 hwf hty
  rw [hto]; exact hfrom

/-- 3. (entrypoint, argument) → full value → (entrypoint', argument') → the same full value, for every listed
entrypoint `e : τ` and every argument of type `τ`.  The full value is the one Tezos builds (the argument injected at
the path of the branch called `e`; the whole parameter for the root name).  `(e', a')` need not be `(e, a)`: Tezos
lets several entrypoints denote the same full value (an argument of a union-typed entrypoint may itself pass
through a deeper annotated branch) and `to_parameters` always answers with the deepest one — the normalisation
allowed here is exactly "denotes the same full value". -/
theorem fromParams_toParams_value (c : Cfg) (hc : cfg? = some c) (p : PTy) (hwf : WellFormed p)
    (d : List (String × PTy)) (hl : listEntrypoints c p = .ok d) (e : String) (τ : PTy) (hm : (e, τ) ∈ d)
    (a : PVal) (ha : hasTy a τ = true) :
    ∃ v e' a', fromParameters c p e a = .ok v ∧ hasTy v p = true
      ∧ (∃ q node, nodeAt p q = some node ∧ node.anon = τ.anon ∧ v = inject a q ∧ (q = [] ↔ e = rootName c.dflt c.root p))
      ∧ toParameters c p v = .ok (e', a') ∧ fromParameters c p e' a' = .ok v := by
  obtain ⟨q, node, hn, han, hfrom, hty, hq⟩ := fromParameters_listed c hwf hl hm ha
  obtain ⟨e', a', hto, hback⟩ := toParams_fromParams_core c (cfg_deepest hc).1 (cfg_deepest hc).2 hwf hty
  exact ⟨inject a q, e', a', hfrom, hty, ⟨q, node, hn, han, rfl, hq⟩, hto, hback⟩

/-- … and for an entrypoint of non-union type (other than the root name) the pair itself comes back -/
theorem fromParams_toParams_leaf_exact (c : Cfg) (hc : cfg? = some c) (p : PTy) (hwf : WellFormed p)
    (d : List (String × PTy)) (hl : listEntrypoints c p = .ok d) (e : String) (ann : Option String) (t x : Nat)
    (hm : (e, .leaf ann t) ∈ d) (hne : e ≠ rootName c.dflt c.root p) :
    ∃ v, fromParameters c p e (.leaf t x) = .ok v ∧ toParameters c p v = .ok (e, .leaf t x) :=
  toParameters_fromParameters_leaf c (cfg_deepest hc).1 (cfg_deepest hc).2 hwf hl hm hne

/-! ### 4. the Python-object form of a call (`ParameterSection.from_python_object`, what `contract.<entrypoint>(arg)` uses) -/

/-- For every listed entrypoint `e : τ` the call `{e: obj}` is decoded as: read `obj` with the Python-object reader of the
branch called `e` (a node `qn` of the parameter type whose type is `τ`; `fromPy`, for non-union types the subject of
C12), then `from_parameters(e, ·)` — for EVERY object (errors of the reader included), whatever `:type` names the
nodes carry: `e` is resolved among the entrypoint names only, never among the display names of the union's leaves
(`%field`, else `:type`, else generated), even when a `:type` name equals an entrypoint name. -/
theorem fromPythonObject_eq_fromParameters (c : Cfg) (_hc : cfg? = some c) (q : QTy) (hwf : WellFormed q.erase)
    (d : List (String × PTy)) (hl : listEntrypoints c q.erase = .ok d) (e : String) (τ : PTy) (hm : (e, τ) ∈ d) :
    ∃ path qn, nodeAtQ q path = some qn ∧ qn.erase.anon = τ.anon ∧
      ∀ o, fromPythonObject c q (.dict1 e o) = (fromPy qn o).bind (fun a => fromParameters c q.erase e a) := by
  rcases mem_listEntrypoints c hwf hl hm with ⟨he, hτ⟩ | ⟨hne, path, arg, hq, he, hτ⟩
  · subst hτ he
    exact ⟨[], q, by cases q <;> rfl, rfl, fun o => fromPythonObject_root c hwf o⟩
  · subst he
    obtain ⟨qn, hqn, hqe, hcall⟩ := fromPythonObject_branch c hwf hq hne
    refine ⟨path, qn, hqn, ?_, hcall⟩
    rw [hqe, hτ]; cases arg <;> rfl

/-- … in the form of the brief: an object that reads as the argument `a` gives the full value `from_parameters(e, a)`
gives; and `a` is an argument of the listed type -/
theorem fromPythonObject_call (c : Cfg) (hc : cfg? = some c) (q : QTy) (hwf : WellFormed q.erase)
    (d : List (String × PTy)) (hl : listEntrypoints c q.erase = .ok d) (e : String) (τ : PTy) (hm : (e, τ) ∈ d) :
    ∃ path qn, nodeAtQ q path = some qn ∧ qn.erase.anon = τ.anon ∧
      ∀ o a, fromPy qn o = .ok a →
        hasTy a τ = true ∧ fromPythonObject c q (.dict1 e o) = fromParameters c q.erase e a := by
  obtain ⟨path, qn, hn, han, hcall⟩ := fromPythonObject_eq_fromParameters c hc q hwf d hl e τ hm
  refine ⟨path, qn, hn, han, fun o a ho => ⟨?_, ?_⟩⟩
  · have := fromPy_hasTy ho
    rw [← hasTy_anon, han, hasTy_anon] at this; exact this
  · rw [hcall o, ho]; rfl

/-- for an entrypoint of non-union type the object of the argument is the argument's own (opaque) Python object: the
call `{e: obj(a)}` and `from_parameters(e, a)` agree outright -/
theorem fromPythonObject_leaf (c : Cfg) (hc : cfg? = some c) (q : QTy) (hwf : WellFormed q.erase)
    (d : List (String × PTy)) (hl : listEntrypoints c q.erase = .ok d) (e : String) (ann : Option String) (t x : Nat)
    (hm : (e, .leaf ann t) ∈ d) :
    fromPythonObject c q (.dict1 e (.leaf t x)) = fromParameters c q.erase e (.leaf t x) := by
  obtain ⟨path, qn, _, han, hcall⟩ := fromPythonObject_call c hc q hwf d hl e _ hm
  cases qn with
  | or f tn l r => simp [QTy.erase, PTy.anon] at han
  | leaf f tn p ty =>
    simp only [QTy.erase, PTy.anon, PTy.leaf.injEq, true_and] at han
    subst han
    exact (hcall (.leaf ty x) (.leaf ty x) (by simp [fromPy])).2

/-- so on these calls nothing depends on the `:type` names (nor on the `prim` the generated display names are made of) -/
theorem fromPythonObject_typeNames_irrelevant (c : Cfg) (hc : cfg? = some c) (q q' : QTy) (hq : q.erase = q'.erase)
    (hwf : WellFormed q.erase) (d : List (String × PTy)) (hl : listEntrypoints c q.erase = .ok d) (e : String)
    (ann : Option String) (t x : Nat) (hm : (e, .leaf ann t) ∈ d) :
    fromPythonObject c q (.dict1 e (.leaf t x)) = fromPythonObject c q' (.dict1 e (.leaf t x)) := by
  rw [fromPythonObject_leaf c hc q hwf d hl e ann t x hm,
    fromPythonObject_leaf c hc q' (hq ▸ hwf) d (hq ▸ hl) e ann t x hm, hq]

/-- `contract.<entrypoint>()` with no argument: the string form is the call with `Unit` -/
theorem fromPythonObject_str (c : Cfg) (q : QTy) (e : String) :
    fromPythonObject c q (.str e) = fromPythonObject c q (.dict1 e .unit) := rfl

/-! ### 5. several annotations on one node (`Micheline.match` → `create_type` → `parse_name`) -/

/-- `Micheline.match` accepts a type expression exactly when every node has at most one `%` and at most one `:`
annotation and no argument of `option` / `list` has a `%` annotation (`RawOk`; Tezos rejects the others too); what the
entrypoint functions then see is `view r`: the unions down to the first non-union node, every node under its single
`%` name — `:type`, `@var` and the position of the `%` annotation in the list play no role. -/
theorem matchTy_eq_spec (r : RTy) :
    match matchTy r with
    | .ok q => RawOk r = true ∧ q.erase = view r
    | .error e => RawOk r = false ∧ e = .rejectedType := by
  have := matchTy_spec r
  cases h : matchTy r with
  | ok q => rw [h] at this; exact ⟨this.1, this.2.1⟩
  | error e => rw [h] at this; exact this

/-- the order of the annotations on a node and annotations that are neither `%field` nor `:type` do not matter -/
theorem matchTy_annotation_order (r r' : RTy) (h : SameUpToAnnotOrder r r') : matchTy r = matchTy r' :=
  matchTy_sameUpToAnnotOrder h

/-- theorems 1–3 transported to type expressions as written: on an accepted expression the three API functions are
those of `view r` (so every statement above holds with `p := view r`), on a rejected one all three refuse -/
theorem raw_api_eq_view (c : Cfg) (r : RTy) :
    (RawOk r = true → listEntrypointsRaw c r = listEntrypoints c (view r)
      ∧ (∀ e v, fromParametersRaw c r e v = fromParameters c (view r) e v)
      ∧ (∀ v, toParametersRaw c r v = toParameters c (view r) v))
    ∧ (RawOk r = false → listEntrypointsRaw c r = .error .rejectedType
      ∧ (∀ e v, fromParametersRaw c r e v = .error .rejectedType)
      ∧ (∀ v, toParametersRaw c r v = .error .rejectedType)) := by
  have := matchTy_eq_spec r
  unfold listEntrypointsRaw fromParametersRaw toParametersRaw
  cases h : matchTy r with
  | ok q =>
    rw [h] at this
    obtain ⟨h1, h2⟩ := this
    refine ⟨fun _ => ?_, fun hh => (by rw [h1] at hh; cases hh)⟩
    simp [bind, Except.bind, h2]
  | error e =>
    rw [h] at this
    obtain ⟨h1, h2⟩ := this
    refine ⟨fun hh => (by rw [h1] at hh; cases hh), fun _ => ?_⟩
    simp [bind, Except.bind, h2]

/-- 1. for type expressions as written -/
theorem listEntrypointsRaw_eq_spec (c : Cfg) (hc : cfg? = some c) (r : RTy) (hr : RawOk r = true) :
    match listEntrypointsRaw c r, entrypoints c.dflt c.root (view r) with
    | .ok d, some s => d.Perm s ∧ (d.map (·.1)).Nodup
    | .error e, none => e = .duplicateKey
    | _, _ => False := by
  rw [((raw_api_eq_view c r).1 hr).1]
  exact listEntrypoints_eq_spec c hc (view r)

/-! ### 6. unions below non-union nodes: their annotated branches are not entrypoints -/

/-- the entrypoint names of a type expression, stated on the expression itself: the `%` names of the nodes reached from
the root through `or` nodes only (the root excluded) -/
def rawBranchNames : RTy → List String
  | .or as l r => (match named (fieldAnnots as).head? with | some n => [n] | none => []) ++ (rawBranchNames l ++ rawBranchNames r)
  | .prim as _ _ => match named (fieldAnnots as).head? with | some n => [n] | none => []
  | .pair as _ _ _ => match named (fieldAnnots as).head? with | some n => [n] | none => []
  | .option as _ _ => match named (fieldAnnots as).head? with | some n => [n] | none => []
  | .list as _ _ => match named (fieldAnnots as).head? with | some n => [n] | none => []

theorem branches_view (r : RTy) : (branches (view r)).map (·.1) = rawBranchNames r := by
  induction r with
  | or as l r ihl ihr =>
    simp only [view, branches, rawBranchNames, List.map_append, ihl, ihr]
    cases named (fieldAnnots as).head? <;> rfl
  | prim as p ty => simp only [view, branches, rawBranchNames]; cases named (fieldAnnots as).head? <;> rfl
  | pair as ty l r => simp only [view, branches, rawBranchNames]; cases named (fieldAnnots as).head? <;> rfl
  | option as ty a => simp only [view, branches, rawBranchNames]; cases named (fieldAnnots as).head? <;> rfl
  | list as ty a => simp only [view, branches, rawBranchNames]; cases named (fieldAnnots as).head? <;> rfl

/-- every listed name is the root name or the `%` name of a node reached through unions only — a name annotated below
a `pair` / `option` / `list` is listed only if it is also one of those -/
theorem listed_names_stop_at_non_union (c : Cfg) (hc : cfg? = some c) (l r : RTy) (as : List String)
    (hr : RawOk (.or as l r) = true) (d : List (String × PTy)) (hl : listEntrypointsRaw c (.or as l r) = .ok d)
    (e : String) (he : e ∈ d.map (·.1)) :
    e = rootName c.dflt c.root (view (.or as l r)) ∨ e ∈ rawBranchNames l ++ rawBranchNames r := by
  have h1 := listEntrypointsRaw_eq_spec c hc (.or as l r) hr
  rw [hl] at h1
  cases hs : entrypoints c.dflt c.root (view (.or as l r)) with
  | none => rw [hs] at h1; exact absurd h1 (by simp)
  | some s =>
    rw [hs] at h1
    have hmem : e ∈ s.map (·.1) := (h1.1.map (·.1)).mem_iff.mp he
    unfold entrypoints at hs
    split at hs
    · cases hs
      simp only [List.map_append, List.map_cons, List.map_nil, List.mem_append, List.mem_singleton] at hmem
      rcases hmem with hm | hm
      · right
        have : e ∈ (properBranches (view (.or as l r))).map (·.1) :=
          (List.filter_sublist.map _).subset hm
        simpa [view, properBranches, List.map_append, branches_view] using this
      · left; exact hm
    · cases hs

/-! non-vacuity: the two recorded inputs (annotated inner node over unannotated leaves; unannotated leaf next to
annotated ones), the `default`/`root` clash, and what the pinned-tree configuration does on them -/
def cfgNow : Cfg := ⟨true, true, "default", "root"⟩
def tyA : PTy := .or none (.or (some "A") (.leaf none 1) (.leaf none 2)) (.leaf (some "B") 1)
def tyB : PTy := .or none (.leaf (some "a") 1) (.or none (.leaf (some "b") 2) (.leaf none 0))
def tyC : PTy := .or none (.leaf (some "default") 1) (.leaf (some "root") 2)

example : WellFormed tyA ∧ WellFormed tyB ∧ WellFormed tyC := by decide
example : toParameters cfgNow tyA (.left (.left (.leaf 1 7))) = .ok ("A", .left (.leaf 1 7)) := by decide
example : fromParameters cfgNow tyA "A" (.left (.leaf 1 7)) = .ok (.left (.left (.leaf 1 7))) := by decide
example : toParameters cfgNow tyB (.right (.right (.leaf 0 0))) = .ok ("default", .right (.right (.leaf 0 0))) := by decide
example : toParameters cfgNow tyC (.right (.leaf 2 5)) = .ok ("root", .right (.leaf 2 5)) := by decide
example : listEntrypoints cfgNow tyA
    = .ok [("A", .or none (.leaf none 1) (.leaf none 2)), ("B", .leaf none 1), ("default", tyA)] := by decide
-- the pinned tree (`deepest = false`) raises on the first two and returns an undecodable pair on the third
example : toParameters ⟨false, false, "default", "root"⟩ tyA (.left (.left (.leaf 1 7))) = .error .keyError := by decide
example : toParameters ⟨false, false, "default", "root"⟩ tyB (.right (.right (.leaf 0 0))) = .error .keyError := by decide
example : (toParameters ⟨true, false, "default", "root"⟩ tyC (.right (.leaf 2 5))).bind
    (fun ea => fromParameters ⟨true, false, "default", "root"⟩ tyC ea.1 ea.2) = .error .badValue := by decide

/-! non-vacuity of the extension: `:type` names equal to entrypoint names, several annotations on a node, unions below
a `pair` -/
/-- `or (nat %a) (or %b (string :a) (unit :b))`: the display names of the leaves are `a`, `string_1` (`:a` is taken), `b` -/
def qA : QTy := .or none none (.leaf (some "a") none "nat" 1)
  (.or (some "b") none (.leaf none (some "a") "string" 2) (.leaf none (some "b") "unit" 0))

example : WellFormed qA.erase := by decide
example : listEntrypoints cfgNow qA.erase = .ok [("a", .leaf none 1), ("b", .or none (.leaf none 2) (.leaf none 0)),
    ("default", qA.erase)] := by decide
example : displayPathToKey qA = [([false], "a"), ([true, false], "string_1"), ([true, true], "b")] := by decide
-- the call `{'b': {'b': Unit}}`: the outer `b` is the entrypoint (the union), the inner `b` the display name of its unit leaf
example : fromPythonObject cfgNow qA (.dict1 "b" (.dict1 "b" .unit)) = .ok (.right (.right (.leaf 0 0))) := by decide
example : fromParameters cfgNow qA.erase "b" (.right (.leaf 0 0)) = .ok (.right (.right (.leaf 0 0))) := by decide
-- `{'a': 5}` is the entrypoint `a` (the nat leaf), not the leaf whose `:type` name is `a`
example : fromPythonObject cfgNow qA (.dict1 "a" (.leaf 1 5)) = .ok (.left (.leaf 1 5)) := by decide
-- a display name that is no entrypoint is refused
example : fromPythonObject cfgNow qA (.dict1 "string_1" (.leaf 2 5)) = .error .keyError := by decide
-- the whole parameter under the root name, read by the union's own reader (display names)
example : fromPythonObject cfgNow qA (.dict1 "default" (.dict1 "string_1" (.leaf 2 5))) = .ok (.right (.left (.leaf 2 5))) := by decide
example : toPythonObject cfgNow qA (.right (.left (.leaf 2 5))) = .ok (.dict1 "string_1" (.leaf 2 5)) := by decide

/-- `or (pair %p (or (nat %default) (string %x)) nat) (nat :t %q @v)`: the names below the pair are no entrypoints (and
`%default` there does not make the root entrypoint `root`) -/
def rA : RTy := .or [] (.pair ["%p"] 5 (.or [] (.prim ["%default"] "nat" 1) (.prim ["%x"] "string" 2)) (.prim [] "nat" 1))
  (.prim [":t", "%q", "@v"] "nat" 1)

example : RawOk rA = true := by decide
example : view rA = .or none (.leaf (some "p") 5) (.leaf (some "q") 1) := by decide
example : listEntrypointsRaw cfgNow rA
    = .ok [("p", .leaf none 5), ("q", .leaf none 1), ("default", .or none (.leaf (some "p") 5) (.leaf (some "q") 1))] := by decide
example : SameUpToAnnotOrder rA (.or ["@x"] (.pair ["%p"] 5 (.or [] (.prim ["%default"] "nat" 1) (.prim ["%x"] "string" 2)) (.prim [] "nat" 1))
    (.prim ["%q", ":t"] "nat" 1)) := by
  refine .or ?_ (.pair ?_ (.or ?_ (.prim ?_) (.prim ?_)) (.prim ?_)) (.prim ?_) <;> decide
-- two `%` annotations, two `:` annotations, a `%` annotation on the argument of `option`: refused
example : matchTy (.or [] (.prim ["%a", "%b"] "nat" 1) (.prim [] "nat" 1)) = .error .rejectedType := by decide
example : matchTy (.prim [":s", "@v", ":s"] "nat" 1) = .error .rejectedType := by decide
example : matchTy (.option [] 8 (.prim ["%x"] "nat" 1)) = .error .rejectedType := by decide
example : RawOk (.or [] (.prim ["%a", "%b"] "nat" 1) (.prim [] "nat" 1)) = false := by decide

end C13
