import PytezosModel.Proofs.C19Pair
import PytezosModel.Proofs.C19Values
import PytezosModel.Proofs.C19Grammar
/-! C19 — macro expansions have their specified Michelson meaning.

`Impl.Macros.expandMacro` mirrors `expand_macro` of `src/pytezos/michelson/macros.py` (regex table, `prim_tags`,
constants and function shapes re-extracted from the source on every run).  `Sem.eval ext` is the reference semantics
of the instructions expansions are made of, for an arbitrary semantics `ext` of all other instructions (so user code
passed to a macro is arbitrary).  `Spec.*` are the definitions of the Michelson reference.  Every theorem is about the
expansion the mirror produces, for all stacks (equality of stack transformers), all annotations the code accepts, and
all names of the family. -/
namespace C19
open Impl.Macros Generated.C19 Spec Sem C19.Dispatch C19.Expand C19.Pair C19.Values C19.Grammar

/-! ### comparison, conditional and assertion macros -/

theorem eval_op (ext : Ext) (op : List Char) (hop : op ∈ ops) (an : List String) :
    eval ext (.prim (String.ofList op) [] an) = eval ext (prim0 (String.ofList op)) := by
  simp only [ops, List.mem_cons, List.not_mem_nil, or_false] at hop
  funext S
  rcases hop with rfl | rfl | rfl | rfl | rfl | rfl <;> simp [eval, op0, prim0]

theorem eval_COMPARE (ext : Ext) (an : List String) : eval ext (.prim "COMPARE" [] an) = compareStep := by
  funext S; simp [eval, op0]

/-- `CMP{EQ,…}` = `COMPARE ; {EQ,…}` -/
theorem cmpx (op : List Char) (hop : op ∈ ops) (an : List String) (ext : Ext) :
    ∃ m, expandMacro ("CMP".toList ++ op) an [] = .ok m ∧ eval ext m = eval ext (Spec.cmpx (String.ofList op)) := by
  refine ⟨.seq [.prim "COMPARE" [] [], .prim (String.ofList op) [] an], ?_, ?_⟩
  · simp only [ops, List.mem_cons, List.not_mem_nil, or_false] at hop
    rcases hop with rfl | rfl | rfl | rfl | rfl | rfl <;> rfl
  · simp only [Spec.cmpx, eval_seq, evalSeq_cons', eval_op ext op hop an]
    rfl


/-- a code argument makes `CMP{…}` an error (`assert not args`) -/
theorem cmpx_rejects_args (op : List Char) (hop : op ∈ ops) (an : List String) (a : Mich) (args : List Mich) :
    expandMacro ("CMP".toList ++ op) an (a :: args) = .error .assertion := by
  simp only [ops, List.mem_cons, List.not_mem_nil, or_false] at hop
  rcases hop with rfl | rfl | rfl | rfl | rfl | rfl <;> rfl

/-- `IF{EQ,…} bt bf` = `{EQ,…} ; IF bt bf` -/
theorem ifx (op : List Char) (hop : op ∈ ops) (an : List String) (bt bf : Mich) (ext : Ext) :
    ∃ m, expandMacro ("IF".toList ++ op) an [bt, bf] = .ok m ∧
      eval ext m = eval ext (Spec.ifx (String.ofList op) bt bf) := by
  refine ⟨.seq [.prim (String.ofList op) [] an, .prim "IF" [bt, bf] []], ?_, ?_⟩
  · simp only [ops, List.mem_cons, List.not_mem_nil, or_false] at hop
    rcases hop with rfl | rfl | rfl | rfl | rfl | rfl <;> rfl
  · simp only [Spec.ifx, eval_seq, evalSeq_cons', eval_op ext op hop an]

/-- `IFCMP{EQ,…} bt bf` = `COMPARE ; {EQ,…} ; IF bt bf` -/
theorem ifcmpx (op : List Char) (hop : op ∈ ops) (an : List String) (bt bf : Mich) (ext : Ext) :
    ∃ m, expandMacro ("IFCMP".toList ++ op) an [bt, bf] = .ok m ∧
      eval ext m = eval ext (Spec.ifcmpx (String.ofList op) bt bf) := by
  refine ⟨.seq [.seq [.prim "COMPARE" [] [], .prim (String.ofList op) [] an], .prim "IF" [bt, bf] []], ?_, ?_⟩
  · simp only [ops, List.mem_cons, List.not_mem_nil, or_false] at hop
    rcases hop with rfl | rfl | rfl | rfl | rfl | rfl <;> rfl
  · simp only [Spec.ifcmpx, eval_seq, evalSeq_cons', evalSeq_nil', seqF_ok_right, seqF_assoc, eval_op ext op hop an]
    rfl

/-- a wrong number of branches makes `IF{…}` an error (`assert len(args) == 2`) -/
theorem ifx_rejects_one_branch (op : List Char) (hop : op ∈ ops) (an : List String) (a : Mich) :
    expandMacro ("IF".toList ++ op) an [a] = .error .assertion := by
  simp only [ops, List.mem_cons, List.not_mem_nil, or_false] at hop
  rcases hop with rfl | rfl | rfl | rfl | rfl | rfl <;> rfl

/-- `FAIL` = `UNIT ; FAILWITH` -/
theorem fail (ext : Ext) :
    ∃ m, expandMacro "FAIL".toList [] [] = .ok m ∧ eval ext m = eval ext Spec.FAIL := ⟨Spec.FAIL, rfl, rfl⟩

/-- so `FAIL` fails with `Unit` on every stack -/
theorem fail_meaning (ext : Ext) (S : Stack) : eval ext Spec.FAIL S = .failed .unit := by
  simp [Spec.FAIL, prim0, eval, evalSeq, op0, unitStep, failwithStep]

theorem fail_rejects_annots (a : String) (an : List String) :
    expandMacro "FAIL".toList (a :: an) [] = .error .assertion := rfl

/-- `ASSERT` = `IF {} {FAIL}` -/
theorem assert_ (ext : Ext) :
    ∃ m, expandMacro "ASSERT".toList [] [] = .ok m ∧ eval ext m = eval ext Spec.assert := ⟨.seq [Spec.assert], by rfl, by rw [eval_seq, evalSeq_one]⟩

/-- `ASSERT_{EQ,…}` = `IF{EQ,…} {} {FAIL}` -/
theorem assert_x (op : List Char) (hop : op ∈ ops) (ext : Ext) :
    ∃ m, expandMacro ("ASSERT_".toList ++ op) [] [] = .ok m ∧ eval ext m = eval ext (Spec.assertX (String.ofList op)) := by
  refine ⟨Spec.assertX (String.ofList op), ?_, rfl⟩
  simp only [ops, List.mem_cons, List.not_mem_nil, or_false] at hop
  rcases hop with rfl | rfl | rfl | rfl | rfl | rfl <;> rfl

/-- `ASSERT_CMP{EQ,…}` = `IFCMP{EQ,…} {} {FAIL}` -/
theorem assert_cmpx (op : List Char) (hop : op ∈ ops) (ext : Ext) :
    ∃ m, expandMacro ("ASSERT_CMP".toList ++ op) [] [] = .ok m ∧
      eval ext m = eval ext (Spec.assertCmpx (String.ofList op)) := by
  refine ⟨.seq [.seq [.prim "COMPARE" [] [], .prim (String.ofList op) [] []],
    .prim "IF" [.seq [], .seq [Spec.FAIL]] []], ?_, ?_⟩
  · simp only [ops, List.mem_cons, List.not_mem_nil, or_false] at hop
    rcases hop with rfl | rfl | rfl | rfl | rfl | rfl <;> rfl
  · simp only [Spec.assertCmpx, Spec.ifcmpx, prim0, eval_seq, evalSeq_cons', evalSeq_nil', seqF_ok_right, seqF_assoc]

/-- `ASSERT_NONE` = `IF_NONE {} {FAIL}` -/
theorem assert_none (ext : Ext) :
    ∃ m, expandMacro "ASSERT_NONE".toList [] [] = .ok m ∧ eval ext m = eval ext Spec.assertNone :=
  ⟨.seq [Spec.assertNone], by rfl, by rw [eval_seq, evalSeq_one]⟩

/-- `ASSERT_SOME @x` = `IF_NONE {FAIL} {RENAME @x}` -/
theorem assert_some (an : List String) (ext : Ext) :
    ∃ m, expandMacro "ASSERT_SOME".toList an [] = .ok m ∧ eval ext m = eval ext (Spec.assertSome an) :=
  ⟨.seq [Spec.assertSome an], by rfl, by rw [eval_seq, evalSeq_one]⟩

/-- `ASSERT_LEFT @x` = `IF_LEFT {RENAME @x} {FAIL}` -/
theorem assert_left (an : List String) (ext : Ext) :
    ∃ m, expandMacro "ASSERT_LEFT".toList an [] = .ok m ∧ eval ext m = eval ext (Spec.assertLeft an) :=
  ⟨.seq [Spec.assertLeft an], by rfl, by rw [eval_seq, evalSeq_one]⟩

/-- `ASSERT_RIGHT @x` = `IF_LEFT {FAIL} {RENAME @x}` -/
theorem assert_right (an : List String) (ext : Ext) :
    ∃ m, expandMacro "ASSERT_RIGHT".toList an [] = .ok m ∧ eval ext m = eval ext (Spec.assertRight an) :=
  ⟨.seq [Spec.assertRight an], by rfl, by rw [eval_seq, evalSeq_one]⟩

/-- `IF_SOME bt bf` = `IF_NONE bf bt` -/
theorem if_some (bt bf : Mich) (ext : Ext) :
    ∃ m, expandMacro "IF_SOME".toList [] [bt, bf] = .ok m ∧ eval ext m = eval ext (Spec.ifSome bt bf) :=
  ⟨.seq [Spec.ifSome bt bf], by rfl, by rw [eval_seq, evalSeq_one]⟩

/-- `IF_RIGHT bt bf` = `IF_LEFT bf bt` -/
theorem if_right (bt bf : Mich) (ext : Ext) :
    ∃ m, expandMacro "IF_RIGHT".toList [] [bt, bf] = .ok m ∧ eval ext m = eval ext (Spec.ifRight bt bf) :=
  ⟨.seq [Spec.ifRight bt bf], by rfl, by rw [eval_seq, evalSeq_one]⟩

/-- what that means: the first branch runs on `v : S` for `Some v`, the second on `S` for `None` -/
theorem if_some_meaning (bt bf : Mich) (ext : Ext) :
    eval ext (Spec.ifSome bt bf) = ifNone (eval ext bf) (eval ext bt) := by
  funext S; simp [Spec.ifSome, eval]

-- non-vacuity: the expansions are the ones test_macros.py lists, and they compute
example : expandMacro "CMPLE".toList ["@c"] [] = .ok (.seq [.prim "COMPARE" [] [], .prim "LE" [] ["@c"]]) := rfl
example : eval (fun _ _ _ _ => .err) (Spec.cmpx "LE") [.int 3, .int 5, .atom "x"] = .ok [.bool true, .atom "x"] := by
  decide
example : eval (fun _ _ _ _ => .err) Spec.assert [.bool false, .atom "x"] = .failed .unit := by decide
example : eval (fun _ _ _ _ => .err) Spec.assertNone [.some (.atom "a"), .atom "x"] = .failed .unit := by decide
example : eval (fun _ _ _ _ => .err) (Spec.assertSome ["@a"]) [.some (.atom "a"), .atom "x"] = .ok [.atom "a", .atom "x"] := by
  decide


/-! ### `DI…IP`, `DU…UP` -/

theorem runHandler_dixp (recur : Recur) (g : List Char) (code : Mich) :
    runHandler recur "expand_dixp" g [] [code] = .ok (dipN (.seq [code]) g.length) := rfl

theorem runHandler_duxp (recur : Recur) (g : List Char) (an : List String) :
    runHandler recur "expand_duxp" g an [] = .ok (.prim "DUP" [.int g.length] an) := rfl

/-- `D I^n P code` (n ≥ 2) is `n` nested `DIP`s — the reference definition `DII+P code > DIP (DI+P code)` — and the
same as the instruction `DIP n code` -/
theorem dixp (n : Nat) (hn : 2 ≤ n) (code : Mich) (ext : Ext) :
    ∃ m, expandMacro (dipName n) [] [code] = .ok m ∧ eval ext m = Spec.dixp n (eval ext code) ∧
      eval ext m = eval ext (.prim "DIP" [.int n, code] []) := by
  refine ⟨seqM (dipN (.seq [code]) n), ?_, ?_, ?_⟩
  · rw [expandMacro, expand_step _ _ _ _ _ _ _ (dispatch_dip n hn) H11.2, H11.1, runHandler_dixp]
    simp [Except.map]
  · rw [eval_seqM, eval_dipN, eval_seq, evalSeq_one, dixp_eq_under]
  · rw [eval_seqM, eval_dipN, eval_seq, evalSeq_one, eval_DIPn]

theorem dixp_rejects_annots (n : Nat) (hn : 2 ≤ n) (a : String) (an : List String) (args : List Mich) :
    expandMacro (dipName n) (a :: an) args = .error .assertion := by
  rw [expandMacro, expand_step _ _ _ _ _ _ _ (dispatch_dip n hn) H11.2, H11.1]
  rfl

/-- `D U^n P` (n ≥ 2) follows the reference definition `DUU+P > DIP (DU+P) ; SWAP` and is the instruction `DUP n` -/
theorem duxp (n : Nat) (hn : 2 ≤ n) (an : List String) (ext : Ext) :
    ∃ m, expandMacro (dupName n) an [] = .ok m ∧ eval ext m = Spec.duxp n ∧
      eval ext m = eval ext (.prim "DUP" [.int n] []) := by
  refine ⟨.seq [.prim "DUP" [.int n] an], ?_, ?_, ?_⟩
  · rw [expandMacro, expand_step _ _ _ _ _ _ _ (dispatch_dup n hn) H12.2, H12.1, runHandler_duxp]
    simp [Except.map, seqM]
  · rw [eval_seq, evalSeq_one, eval_DUPn, duxp_eq_dupN n (by omega)]
  · rw [eval_seq, evalSeq_one, eval_DUPn, eval_DUPn]

/-- value reading: the `n`-th element (1 = top) is copied to the top; shorter stacks are an error -/
theorem duxp_value (n : Nat) (hn : 1 ≤ n) (S : Stack) :
    Spec.duxp n S = match S[n - 1]? with
      | some v => .ok (v :: S)
      | none => .err := by
  rw [duxp_eq_dupN n hn]
  obtain ⟨k, rfl⟩ : ∃ k, n = k + 1 := ⟨n - 1, by omega⟩
  cases h : S[k]? <;> simp [dupN, h]

example : expandMacro (dipName 3) [] [.seq [.prim "DROP" [] []]] =
    .ok (.seq [.prim "DIP" [.int 3, .seq [.seq [.prim "DROP" [] []]]] []]) := by rfl
example : Spec.dixp 3 dropStep [.atom "a", .atom "b", .atom "c", .atom "d", .atom "e"] =
    .ok [.atom "a", .atom "b", .atom "c", .atom "e"] := by decide
example : Spec.duxp 3 [.atom "a", .atom "b", .atom "c", .atom "d"] =
    .ok [.atom "c", .atom "a", .atom "b", .atom "c", .atom "d"] := by decide

/-! ### `C[AD]+R`, `SET_C[AD]+R`, `MAP_C[AD]+R` -/

/-- `C[AD]+R` with at least two letters (`CAR`/`CDR` are instructions) = `CAR`/`CDR` along the path, the reference
definition `CA(rest)R > CAR ; C(rest)R`, `CD(rest)R > CDR ; C(rest)R` -/
theorem cxr (p : Path) (hp : 2 ≤ p.length) (an : List String) (ext : Ext) :
    ∃ m, expandMacro (cadrName p) an [] = .ok m ∧ eval ext m = Spec.cxr p := by
  match p, hp with
  | d :: e :: q, _ =>
    obtain ⟨r, hr, hev⟩ := cxr_internal ext an (e :: q) (by simp) (cadrName (d :: e :: q)).length
      (by simp [cadrName, pathChars])
    have hr' : expand (cadrName (d :: e :: q)).length ('C' :: pathChars (e :: q) ++ ['R']) an [] true = .ok r := hr
    cases d
    · refine ⟨.seq (.prim "CAR" [] [] :: seqList r), ?_, ?_⟩
      · rw [expandMacro, expand_step _ _ _ _ _ _ _ (dispatch_cadr_A (e :: q) (by simp)) H15.2, H15.1,
          runHandler_caxr, hr']
        rfl
      · rw [eval_seq, evalSeq_cons', eval_CAR, hev]; rfl
    · refine ⟨.seq (.prim "CDR" [] [] :: seqList r), ?_, ?_⟩
      · rw [expandMacro, expand_step _ _ _ _ _ _ _ (dispatch_cadr_D (e :: q) (by simp)) H16.2, H16.1,
          runHandler_cdxr, hr']
        rfl
      · rw [eval_seq, evalSeq_cons', eval_CDR, hev]; rfl

/-- value reading: the component of the top element at the path; anything else is an error -/
theorem cxr_value (p : Path) (hp : p ≠ []) (S : Stack) :
    Spec.cxr p S = match S with
      | v :: S' => (match getPath p v with
        | some w => .ok (w :: S')
        | none => .err)
      | [] => .err := by
  cases S with
  | nil => exact cxr_nil p hp
  | cons v S' => cases h : getPath p v <;> simp [Values.cxr_value, pushVal, h]

example : expandMacro (cadrName [.A, .D, .D]) [] [] =
    .ok (.seq [.prim "CAR" [] [], .prim "CDR" [] [], .prim "CDR" [] []]) := by rfl
example : Spec.cxr [.A, .D] [.pair (.pair (.atom "x") (.atom "y")) (.atom "z"), .atom "s"] = .ok [.atom "y", .atom "s"] := by
  decide

/-- `SET_C[AD]+R` follows the reference definition (`SET_CAR > CDR ; SWAP ; PAIR`, `SET_CDR > CAR ; PAIR`,
`SET_CA(rest)R > { DUP ; DIP { CAR ; SET_C(rest)R } ; CDR ; SWAP ; PAIR }`, …) -/
theorem set_cxr (p : Path) (hp : 1 ≤ p.length) (an : List String) (ext : Ext) :
    ∃ m, expandMacro (setName p) an [] = .ok m ∧ eval ext m = Spec.setCxr p := by
  obtain ⟨m, hm, hev⟩ := set_internal ext p hp an ((setName p).length + 1) (by simp [setName, pathChars]; omega)
  refine ⟨seqM m, ?_, by rw [eval_seqM, hev]⟩
  -- internal and external calls differ only by the final `seq(res)`
  obtain ⟨d, q, rfl⟩ : ∃ d q, p = d :: q := by cases p with | nil => simp at hp | cons d q => exact ⟨d, q, rfl⟩
  have key : ∀ (h : Handler) (g : List Char), dispatch handlers (setName (d :: q)) = .ok (some (h, g)) →
      h.shape = some 0 → expandMacro (setName (d :: q)) an [] = .ok (seqM m) := by
    intro h g hd hs
    rw [expand_step _ _ _ _ _ _ _ hd hs] at hm
    rw [expandMacro, expand_step _ _ _ _ _ _ _ hd hs]
    cases hrun : runHandler (fun p a r => expand (setName (d :: q)).length p a r true) h.func g an [] with
    | error e => rw [hrun] at hm; cases hm
    | ok res => rw [hrun] at hm; simp only [Except.map, if_true] at hm; cases hm; rfl
  cases q with
  | nil => cases d
           · exact key _ _ dispatch_SET_CAR H19.2
           · exact key _ _ dispatch_SET_CDR H20.2
  | cons e q => cases d
                · exact key _ _ (dispatch_set_A (e :: q) (by simp)) H21.2
                · exact key _ _ (dispatch_set_D (e :: q) (by simp)) H22.2

/-- value reading: exactly the addressed component of the top element is replaced by the second element -/
theorem set_cxr_value (p : Path) (S : Stack) :
    Spec.setCxr p S = match S with
      | v :: x :: S' => (match setPath p v x with
        | some v' => .ok (v' :: S')
        | none => .err)
      | _ => .err := by
  match S with
  | [] => exact setCxr_nil p
  | [v] => exact setCxr_one p v
  | v :: x :: S' => cases h : setPath p v x <;> simp [setCxr_value, pushVal, h]

example : Spec.setCxr [.A, .D] [.pair (.pair (.atom "x") (.atom "y")) (.atom "z"), .atom "new", .atom "s"] =
    .ok [.pair (.pair (.atom "x") (.atom "new")) (.atom "z"), .atom "s"] := by decide

/-- `MAP_C[AD]+R code` follows the reference definition; in particular `MAP_CAR`'s code runs on `a : S` (the pair is
not below it) while `MAP_CDR`'s code runs on `b : Pair a b : S`.  At most one field annotation is accepted. -/
theorem map_cxr (p : Path) (hp : 1 ≤ p.length) (an : List String) (hA : (fieldAnnots an).length ≤ 1) (code : Mich)
    (ext : Ext) :
    ∃ m, expandMacro (mapName p) an [code] = .ok m ∧ eval ext m = Spec.mapCxr p (eval ext code) := by
  obtain ⟨m, hm, hev⟩ := map_internal ext code p hp an hA ((mapName p).length + 1)
    (by simp [mapName, pathChars]; omega)
  refine ⟨seqM m, ?_, by rw [eval_seqM, hev]⟩
  obtain ⟨d, q, rfl⟩ : ∃ d q, p = d :: q := by cases p with | nil => simp at hp | cons d q => exact ⟨d, q, rfl⟩
  have key : ∀ (h : Handler) (g : List Char), dispatch handlers (mapName (d :: q)) = .ok (some (h, g)) →
      h.shape = some 0 → expandMacro (mapName (d :: q)) an [code] = .ok (seqM m) := by
    intro h g hd hs
    rw [expand_step _ _ _ _ _ _ _ hd hs] at hm
    rw [expandMacro, expand_step _ _ _ _ _ _ _ hd hs]
    cases hrun : runHandler (fun p a r => expand (mapName (d :: q)).length p a r true) h.func g an [code] with
    | error e => rw [hrun] at hm; cases hm
    | ok res => rw [hrun] at hm; simp only [Except.map, if_true] at hm; cases hm; rfl
  cases q with
  | nil => cases d
           · exact key _ _ dispatch_MAP_CAR H23.2
           · exact key _ _ dispatch_MAP_CDR H24.2
  | cons e q => cases d
                · exact key _ _ (dispatch_map_A (e :: q) (by simp)) H25.2
                · exact key _ _ (dispatch_map_D (e :: q) (by simp)) H26.2

/-- two field annotations: `get_map_cxr_annots` asserts -/
theorem map_car_rejects_two_field_annots (an : List String) (hA : 2 ≤ (fieldAnnots an).length) (args : List Mich) :
    expandMacro (mapName [.A]) an args = .error .assertion := by
  rw [expandMacro, expand_step _ _ _ _ _ _ _ dispatch_MAP_CAR H23.2, H23.1, runHandler_map_car, mapCxrAnnots_err an hA]
  rfl

/-- value reading for code that only rewrites the element it is given (`code (x : T) = f x : T` for every `T`):
exactly the addressed component is replaced by its image -/
theorem map_cxr_value (p : Path) (c : F) (f : Val → Val) (hc : Local c f) (v : Val) (S : Stack) :
    Spec.mapCxr p c (v :: S) = match mapPath p f v with
      | some v' => .ok (v' :: S)
      | none => .err := by
  rw [mapCxr_value p c f hc]; cases mapPath p f v <;> rfl

/-- what the code sees: `MAP_CAR` gives it the component on top of the rest of the stack … -/
theorem map_car_sees (c : F) (a b : Val) (S : Stack) :
    Spec.mapCxr [.A] c (.pair a b :: S) = (c (a :: S)).bind fun T => pairStep (match T with
      | a' :: T' => a' :: b :: T'
      | [] => []) := by
  simp only [mapCxr, seqF, dupStep, cdrStep, bind_ok, under, under_zero, carStep]
  cases c (a :: S) with
  | ok T => cases T <;> simp [swapStep, pairStep]
  | failed v => rfl
  | err => rfl

/-- … while `MAP_CDR` gives it the component on top of the *original pair* -/
theorem map_cdr_sees (c : F) (a b : Val) (S : Stack) :
    Spec.mapCxr [.D] c (.pair a b :: S) = (c (b :: .pair a b :: S)).bind (swapStep ⨾ carStep ⨾ pairStep) := by
  simp only [mapCxr, seqF, dupStep, cdrStep, bind_ok, bind_assoc]
  congr 1
  funext T
  show _ = ((swapStep T).bind carStep).bind pairStep
  rw [bind_assoc]

example : Spec.mapCxr [.A, .D] (fun S => match S with | x :: T => .ok (.some x :: T) | [] => .err)
    [.pair (.pair (.atom "x") (.atom "y")) (.atom "z"), .atom "s"] =
    .ok [.pair (.pair (.atom "x") (.some (.atom "y"))) (.atom "z"), .atom "s"] := by decide


/-! ### `P…R` / `UNP…R` trees -/

theorem runHandler_pxr (recur : Recur) (g : List Char) (an : List String) :
    runHandler recur "expand_pxr" g an [] =
      (buildPxrTree g (fieldAnnots an)).bind fun t => .ok (.seq (pxrWalk (pairProduce an) t).reverse) := by
  show (do let res ← traversePxr g (fieldAnnots an) (pairProduce an); pure (Mich.seq res) : M Mich) = _
  unfold traversePxr
  cases buildPxrTree g (fieldAnnots an) <;> rfl

theorem runHandler_unpxr (recur : Recur) (g : List Char) (an : List String) :
    runHandler recur "expand_unpxr" g an [] =
      (buildPxrTree g an).bind fun t => .ok (.seq (pxrWalk unpairProduce t).reverse.reverse) := by
  show (do let res ← traversePxr g an unpairProduce; pure (Mich.seq res.reverse) : M Mich) = _
  unfold traversePxr
  cases buildPxrTree g an <;> rfl

/-- for EVERY tree with at least three leaves (`PAIR` itself is an instruction): the expansion of the `P…R` name of the
tree computes the reference meaning `P(left)(right)R > (left)R ; DIP ((right)R) ; PAIR` — on all stacks, with any
annotations.  This is where the DIP-depth / `insert(0, …)` scheme of `traverse_pxr_tree` is justified (`Kp_eq`). -/
theorem pair_tree (l r : PairTree) (h3 : 3 ≤ (PairTree.node l r).leaves) (an : List String) (ext : Ext) :
    ∃ m, expandMacro (pairName (.node l r)) an [] = .ok m ∧ eval ext m = Spec.build (.node l r) := by
  refine ⟨.seq (pxrWalk (pairProduce an) (pxrOf (.node l r) 'A' (fieldAnnots an) 0 true).1).reverse, ?_, ?_⟩
  · rw [expandMacro, expand_step _ _ _ _ _ _ _ (dispatch_pair l r h3) H13.2, H13.1, runHandler_pxr,
      buildPxrTree_node]
    rfl
  · rw [eval_seq, walk_pair, Kp_eq, Up, under_zero]

/-- value reading of `P…R`: the leaves are taken from the top of the stack, left to right, and replaced by the nested
pair; a stack with fewer elements than leaves is an error -/
theorem pair_tree_value (l r : PairTree) (S : Stack) :
    Spec.build (.node l r) S = match treeVal? (.node l r) S with
      | some (v, S') => .ok (v :: S')
      | none => .err := by
  rw [build_value (.node l r) S (by intro h; cases h)]
  cases treeVal? (.node l r) S with
  | none => rfl
  | some x => rfl

/-- the same for `UNP…R`: `UNP(left)(right)R > UNPAIR ; DIP (UN(right)R) ; UN(left)R` -/
theorem unpair_tree (l r : PairTree) (h3 : 3 ≤ (PairTree.node l r).leaves) (an : List String) (ext : Ext) :
    ∃ m, expandMacro (unpairName (.node l r)) an [] = .ok m ∧ eval ext m = Spec.unbuild (.node l r) := by
  refine ⟨.seq (pxrWalk unpairProduce (pxrOf (.node l r) 'A' an 0 true).1).reverse.reverse, ?_, ?_⟩
  · rw [expandMacro, expand_step _ _ _ _ _ _ _ (dispatch_unpair l r h3) H14.2, H14.1, runHandler_unpxr,
      buildPxrTree_node]
    rfl
  · rw [eval_seq, List.reverse_reverse, walk_unpair, Ku_eq, Uu, under_zero]

/-- value reading of `UNP…R`: the top element must be a nested pair of that shape and is replaced by its leaves -/
theorem unpair_tree_value (l r : PairTree) (S : Stack) :
    Spec.unbuild (.node l r) S = match S with
      | v :: S' => (match flatten? (.node l r) v with
        | some ls => .ok (ls ++ S')
        | none => .err)
      | [] => .err := by
  cases S with
  | nil => rfl
  | cons v S' => cases h : flatten? (.node l r) v <;> simp [unbuild_value, pushList, h]

/-- each `UNP…R` undoes the matching `P…R`: running the expansion of `UNP…R` after the expansion of `P…R` restores the
stack, for every tree and every stack on which `P…R` succeeds -/
theorem unpair_undoes_pair (l r : PairTree) (h3 : 3 ≤ (PairTree.node l r).leaves) (an an' : List String) (ext : Ext) :
    ∃ mp mu, expandMacro (pairName (.node l r)) an [] = .ok mp ∧
      expandMacro (unpairName (.node l r)) an' [] = .ok mu ∧
      ∀ S S' : Stack, eval ext mp S = .ok S' → eval ext mu S' = .ok S := by
  obtain ⟨mp, hp, hep⟩ := pair_tree l r h3 an ext
  obtain ⟨mu, hu, heu⟩ := unpair_tree l r h3 an' ext
  refine ⟨mp, mu, hp, hu, ?_⟩
  intro S S' h
  rw [hep, pair_tree_value] at h
  rw [heu]
  cases ht : treeVal? (.node l r) S with
  | none => rw [ht] at h; cases h
  | some x =>
    obtain ⟨v, S1⟩ := x
    rw [ht] at h
    simp only [Result.ok.injEq] at h
    subst h
    obtain ⟨ls, hf, hls⟩ := flatten_treeVal _ _ _ _ ht
    rw [unpair_tree_value]
    simp only [hf, hls]

example : expandMacro (pairName (.node .leaf (.node (.node .leaf .leaf) .leaf))) [] [] =
    .ok (.seq [.prim "DIP" [.seq [.prim "PAIR" [] []]] [], .prim "DIP" [.seq [.prim "PAIR" [] []]] [],
      .prim "PAIR" [] []]) := by rfl        -- PAPPAIIR
example : Spec.build (.node .leaf (.node (.node .leaf .leaf) .leaf)) [.atom "a", .atom "b", .atom "c", .atom "d", .atom "s"] =
    .ok [.pair (.atom "a") (.pair (.pair (.atom "b") (.atom "c")) (.atom "d")), .atom "s"] := by decide
example : Spec.unbuild (.node .leaf (.node (.node .leaf .leaf) .leaf))
    [.pair (.atom "a") (.pair (.pair (.atom "b") (.atom "c")) (.atom "d")), .atom "s"] =
    .ok [.atom "a", .atom "b", .atom "c", .atom "d", .atom "s"] := by decide
/-- an ill-formed tree name is an error, not a silent `PAIR` -/
example : expandMacro "PAAIR".toList [] [] = .error .assertion := by rfl
example : expandMacro "PAIAIR".toList [] [] = .error .assertion := by rfl
example : expandMacro "PPPPR".toList [] [] = .error .assertion := by rfl


/-! ### the name grammar -/

theorem pxr_run_inv (recur : Recur) (g : List Char) (an : List String) (args : List Mich) (res : Mich)
    (h : runHandler recur "expand_pxr" g an args = .ok res) : ∃ px, buildPxrTree g (fieldAnnots an) = .ok px := by
  cases args with
  | cons a as => exact absurd h (by show Except.error Err.assertion ≠ _; simp)
  | nil =>
    rw [runHandler_pxr] at h
    cases hb : buildPxrTree g (fieldAnnots an) with
    | ok px => exact ⟨px, rfl⟩
    | error e => rw [hb] at h; cases h

theorem unpxr_run_inv (recur : Recur) (g : List Char) (an : List String) (args : List Mich) (res : Mich)
    (h : runHandler recur "expand_unpxr" g an args = .ok res) : ∃ px, buildPxrTree g an = .ok px := by
  cases args with
  | cons a as => exact absurd h (by show Except.error Err.assertion ≠ _; simp)
  | nil =>
    rw [runHandler_unpxr] at h
    cases hb : buildPxrTree g an with
    | ok px => exact ⟨px, rfl⟩
    | error e => rw [hb] at h; cases h

/-- a successful `expand` of a non-primitive went through a table entry whose regex matched and whose handler
succeeded -/
theorem expand_ok_inv (fuel : Nat) (s : List Char) (an : List String) (args : List Mich) (internal : Bool) (m : Mich)
    (ht : tags.contains s = false) (h : expand (fuel + 1) s an args internal = .ok m) :
    ∃ hd g res, dispatch handlers s = .ok (some (hd, g)) ∧
      runHandler (fun p a r => expand fuel p a r true) hd.func g an args = .ok res := by
  have hc : coreOk = true := rfl
  rw [expand, primTags_eq] at h
  simp only [hc, ht, Bool.not_true, Bool.false_eq_true, if_false, bind, Except.bind] at h
  cases hd : dispatch handlers s with
  | error e => rw [hd] at h; cases h
  | ok o =>
    rw [hd] at h
    cases o with
    | none => cases h
    | some x =>
      obtain ⟨hh, g⟩ := x
      simp only at h
      split at h
      · cases h
      · cases hr : runHandler (fun p a r => expand fuel p a r true) hh.func g an args with
        | error e => rw [hr] at h; cases h
        | ok res => exact ⟨hh, g, res, rfl, hr⟩

theorem macroName_of_accepts (s : List Char) (hnl : '\n' ∉ s) (ht : tags.contains s = false) (args : List Mich)
    (m : Mich) (h : expandMacro s [] args = .ok m) : MacroName s := by
  obtain ⟨hd, g, res, hdisp, hrun⟩ := expand_ok_inv _ _ _ _ _ _ ht h
  obtain ⟨p, hmem, hp, hf⟩ := dispatch_inv _ _ _ _ hdisp
  simp only [handlers, List.mem_cons, List.not_mem_nil, or_false] at hmem
  rcases hmem with rfl | rfl | rfl | rfl | rfl | rfl | rfl | rfl | rfl | rfl | rfl | rfl | rfl | rfl | rfl | rfl | rfl | rfl | rfl | rfl | rfl | rfl | rfl | rfl | rfl | rfl | rfl
  all_goals (simp only [Option.some.injEq] at hp; subst hp)
  · -- handler 0
    obtain ⟨hs', hg⟩ := shape_alts _ _ _ _ hnl hf
    have hop : g ∈ ops := by
      simp only [List.mem_cons, List.not_mem_nil, or_false] at hg
      rcases hg with h | h | h | h | h | h <;> simp [ops, h]
    exact Or.inl ⟨g, hop, Or.inl (by rw [hs']; rfl)⟩
  · -- handler 1
    obtain ⟨hs', hg⟩ := shape_alts _ _ _ _ hnl hf
    have hop : g ∈ ops := by
      simp only [List.mem_cons, List.not_mem_nil, or_false] at hg
      rcases hg with h | h | h | h | h | h <;> simp [ops, h]
    exact Or.inl ⟨g, hop, Or.inr <| Or.inl (by rw [hs']; rfl)⟩
  · -- handler 2
    obtain ⟨hs', hg⟩ := shape_alts _ _ _ _ hnl hf
    have hop : g ∈ ops := by
      simp only [List.mem_cons, List.not_mem_nil, or_false] at hg
      rcases hg with h | h | h | h | h | h <;> simp [ops, h]
    exact Or.inl ⟨g, hop, Or.inr <| Or.inr <| Or.inl (by rw [hs']; rfl)⟩
  · -- handler 3
    obtain ⟨hs', _⟩ := shape_lit _ _ _ hnl hf
    exact Or.inr (Or.inl (by rw [hs']; decide))
  · -- handler 4
    obtain ⟨hs', _⟩ := shape_lit _ _ _ hnl hf
    exact Or.inr (Or.inl (by rw [hs']; decide))
  · -- handler 5
    obtain ⟨hs', hg⟩ := shape_alts _ _ _ _ hnl hf
    have hop : g ∈ ops := by
      simp only [List.mem_cons, List.not_mem_nil, or_false] at hg
      rcases hg with h | h | h | h | h | h <;> simp [ops, h]
    exact Or.inl ⟨g, hop, Or.inr <| Or.inr <| Or.inr <| Or.inl (by rw [hs']; rfl)⟩
  · -- handler 6
    obtain ⟨hs', hg⟩ := shape_alts _ _ _ _ hnl hf
    have hop : g ∈ ops := by
      simp only [List.mem_cons, List.not_mem_nil, or_false] at hg
      rcases hg with h | h | h | h | h | h <;> simp [ops, h]
    exact Or.inl ⟨g, hop, Or.inr <| Or.inr <| Or.inr <| Or.inr (by rw [hs']; rfl)⟩
  · -- handler 7
    obtain ⟨hs', _⟩ := shape_lit _ _ _ hnl hf
    exact Or.inr (Or.inl (by rw [hs']; decide))
  · -- handler 8
    obtain ⟨hs', _⟩ := shape_lit _ _ _ hnl hf
    exact Or.inr (Or.inl (by rw [hs']; decide))
  · -- handler 9
    obtain ⟨hs', _⟩ := shape_lit _ _ _ hnl hf
    exact Or.inr (Or.inl (by rw [hs']; decide))
  · -- handler 10
    obtain ⟨hs', _⟩ := shape_lit _ _ _ hnl hf
    exact Or.inr (Or.inl (by rw [hs']; decide))
  · -- handler 11
    obtain ⟨p, _, hs', hlen, hall⟩ := shape_two _ _ _ _ _ _ _ hnl hf
    have hp := chars_rep 'I' p hall
    refine Or.inr (Or.inr (Or.inl ⟨p.length + 1, by omega, Or.inl ?_⟩))
    rw [hs', hp]
    simp [dipName, List.replicate_succ]
  · -- handler 12
    obtain ⟨p, _, hs', hlen, hall⟩ := shape_two _ _ _ _ _ _ _ hnl hf
    have hp := chars_rep 'U' p hall
    refine Or.inr (Or.inr (Or.inl ⟨p.length + 1, by omega, Or.inr ?_⟩))
    rw [hs', hp]
    simp [dupName, List.replicate_succ]
  · -- handler 13
    obtain ⟨hg, p, hs', hlen, _⟩ := shape_many_whole _ _ _ _ _ _ hnl hf
    rw [hg] at hrun
    obtain ⟨px, hpx⟩ := pxr_run_inv _ _ _ _ _ hrun
    obtain ⟨l, r, hname⟩ := buildPxrTree_sound _ _ _ hpx
    refine Or.inr (Or.inr (Or.inr (Or.inl ⟨.node l r, ?_, Or.inl hname⟩)))
    have h1 : s.length = 2 * (PairTree.node l r).leaves := by
      rw [hname, pairName, List.length_append, List.length_singleton]; exact body_length _ _
    have h2 : s.length = p.length + 2 := by rw [hs']; simp; omega
    omega
  · -- handler 14
    obtain ⟨p, hg, hs', hlen, _⟩ := shape_three _ _ _ _ _ _ _ hnl hf
    obtain ⟨px, hpx⟩ := unpxr_run_inv _ _ _ _ _ hrun
    obtain ⟨l, r, hname⟩ := buildPxrTree_sound _ _ _ hpx
    refine Or.inr (Or.inr (Or.inr (Or.inl ⟨.node l r, ?_, Or.inr (by rw [hs', hname])⟩)))
    have h1 : g.length = 2 * (PairTree.node l r).leaves := by
      rw [hname, pairName, List.length_append, List.length_singleton]; exact body_length _ _
    have h2 : g.length = p.length + 2 := by rw [hg]; simp; omega
    omega
  · -- handler 15
    obtain ⟨hs', hlen, hall⟩ := shape_many _ _ _ _ _ _ hnl hf
    obtain ⟨q, hq, hql⟩ := chars_path g hall
    refine Or.inr (Or.inr (Or.inr (Or.inr (Or.inl ⟨.A :: q, by simp; omega, ?_⟩))))
    rw [hs', hq]
    simp [cadrName, pathChars, Dir.char]
  · -- handler 16
    obtain ⟨hs', hlen, hall⟩ := shape_many _ _ _ _ _ _ hnl hf
    obtain ⟨q, hq, hql⟩ := chars_path g hall
    refine Or.inr (Or.inr (Or.inr (Or.inr (Or.inl ⟨.D :: q, by simp; omega, ?_⟩))))
    rw [hs', hq]
    simp [cadrName, pathChars, Dir.char]
  · -- handler 17
    obtain ⟨hs', _⟩ := shape_lit _ _ _ hnl hf
    exact Or.inr (Or.inl (by rw [hs']; decide))
  · -- handler 18
    obtain ⟨hs', _⟩ := shape_lit _ _ _ hnl hf
    exact Or.inr (Or.inl (by rw [hs']; decide))
  · -- handler 19
    obtain ⟨hs', _⟩ := shape_lit _ _ _ hnl hf
    exact Or.inr (Or.inr (Or.inr (Or.inr (Or.inr ⟨[.A], by simp, Or.inl (by rw [hs']; rfl)⟩))))
  · -- handler 20
    obtain ⟨hs', _⟩ := shape_lit _ _ _ hnl hf
    exact Or.inr (Or.inr (Or.inr (Or.inr (Or.inr ⟨[.D], by simp, Or.inl (by rw [hs']; rfl)⟩))))
  · -- handler 21
    obtain ⟨hs', hlen, hall⟩ := shape_many _ _ _ _ _ _ hnl hf
    obtain ⟨q, hq, hql⟩ := chars_path g hall
    refine Or.inr (Or.inr (Or.inr (Or.inr (Or.inr ⟨.A :: q, by simp, Or.inl ?_⟩))))
    rw [hs', hq]
    simp [setName, pathChars, Dir.char]
  · -- handler 22
    obtain ⟨hs', hlen, hall⟩ := shape_many _ _ _ _ _ _ hnl hf
    obtain ⟨q, hq, hql⟩ := chars_path g hall
    refine Or.inr (Or.inr (Or.inr (Or.inr (Or.inr ⟨.D :: q, by simp, Or.inl ?_⟩))))
    rw [hs', hq]
    simp [setName, pathChars, Dir.char]
  · -- handler 23
    obtain ⟨hs', _⟩ := shape_lit _ _ _ hnl hf
    exact Or.inr (Or.inr (Or.inr (Or.inr (Or.inr ⟨[.A], by simp, Or.inr (by rw [hs']; rfl)⟩))))
  · -- handler 24
    obtain ⟨hs', _⟩ := shape_lit _ _ _ hnl hf
    exact Or.inr (Or.inr (Or.inr (Or.inr (Or.inr ⟨[.D], by simp, Or.inr (by rw [hs']; rfl)⟩))))
  · -- handler 25
    obtain ⟨hs', hlen, hall⟩ := shape_many _ _ _ _ _ _ hnl hf
    obtain ⟨q, hq, hql⟩ := chars_path g hall
    refine Or.inr (Or.inr (Or.inr (Or.inr (Or.inr ⟨.A :: q, by simp, Or.inr ?_⟩))))
    rw [hs', hq]
    simp [mapName, pathChars, Dir.char]
  · -- handler 26
    obtain ⟨hs', hlen, hall⟩ := shape_many _ _ _ _ _ _ hnl hf
    obtain ⟨q, hq, hql⟩ := chars_path g hall
    refine Or.inr (Or.inr (Or.inr (Or.inr (Or.inr ⟨.D :: q, by simp, Or.inr ?_⟩))))
    rw [hs', hq]
    simp [mapName, pathChars, Dir.char]

theorem accepts_of (s : List Char) (ht : tags.contains s = false) (k : Nat) (hk : k ∈ [0, 1, 2]) (m : Mich)
    (h : expandMacro s [] (List.replicate k (.seq [])) = .ok m) : acceptsName s = true := by
  unfold acceptsName
  rw [primTags_eq]
  simp only [ht, Bool.not_false, Bool.true_and, List.any_eq_true]
  exact ⟨k, hk, by rw [h]⟩

/-- the dispatch accepts exactly the names of the reference macro set: for every string without a newline,
`expand_macro` accepts it as a macro (it is not a primitive, and the expansion succeeds without annotations for 0, 1 or
2 code arguments) iff it is a name of the reference grammar — `CMP/IF/IFCMP/ASSERT_/ASSERT_CMP{op}`, the fixed names,
`DII+P`, `DUU+P`, a well-formed `P…R`/`UNP…R` tree with ≥ 3 leaves, `C[AD]{2,}R`, `SET_C[AD]+R`, `MAP_C[AD]+R`.
(Python's `$` also matches before one final newline; the lexer never produces such a name.) -/
theorem macro_name_grammar (s : List Char) (hnl : '\n' ∉ s) : acceptsName s = true ↔ MacroName s := by
  constructor
  · intro h
    unfold acceptsName at h
    rw [primTags_eq] at h
    simp only [Bool.and_eq_true, Bool.not_eq_true', List.any_eq_true] at h
    obtain ⟨ht, k, _, hk⟩ := h
    cases he : expandMacro s [] (List.replicate k (.seq [])) with
    | error e => rw [he] at hk; cases hk
    | ok m => exact macroName_of_accepts s hnl ht _ m he
  · intro h
    rcases h with ⟨op, hop, h⟩ | h | ⟨n, hn, h⟩ | ⟨t, h3, h⟩ | ⟨p, hp, h⟩ | ⟨p, hp, h⟩
    · simp only [ops, List.mem_cons, List.not_mem_nil, or_false] at hop
      rcases h with h | h | h | h | h <;> subst h <;>
        rcases hop with rfl | rfl | rfl | rfl | rfl | rfl <;> rfl
    · simp only [fixedNames, List.mem_cons, List.not_mem_nil, or_false] at h
      rcases h with rfl | rfl | rfl | rfl | rfl | rfl | rfl | rfl <;> rfl
    · rcases h with rfl | rfl
      · obtain ⟨m, hm, _⟩ := dixp n hn (.seq []) (fun _ _ _ _ => .err)
        exact accepts_of _ (not_tag_of_dispatch (dispatch_dip n hn)) 1 (by simp) m hm
      · obtain ⟨m, hm, _⟩ := duxp n hn [] (fun _ _ _ _ => .err)
        exact accepts_of _ (not_tag_of_dispatch (dispatch_dup n hn)) 0 (by simp) m hm
    · cases t with
      | leaf => simp [PairTree.leaves] at h3
      | node l r =>
        rcases h with rfl | rfl
        · obtain ⟨m, hm, _⟩ := pair_tree l r h3 [] (fun _ _ _ _ => .err)
          exact accepts_of _ (not_tag_of_dispatch (dispatch_pair l r h3)) 0 (by simp) m hm
        · obtain ⟨m, hm, _⟩ := unpair_tree l r h3 [] (fun _ _ _ _ => .err)
          exact accepts_of _ (not_tag_of_dispatch (dispatch_unpair l r h3)) 0 (by simp) m hm
    · subst h
      obtain ⟨m, hm, _⟩ := cxr p hp [] (fun _ _ _ _ => .err)
      match p, hp with
      | .A :: e :: q, _ => exact accepts_of _ (not_tag_of_dispatch (dispatch_cadr_A (e :: q) (by simp))) 0 (by simp) m hm
      | .D :: e :: q, _ => exact accepts_of _ (not_tag_of_dispatch (dispatch_cadr_D (e :: q) (by simp))) 0 (by simp) m hm
    · rcases h with rfl | rfl
      · obtain ⟨m, hm, _⟩ := set_cxr p hp [] (fun _ _ _ _ => .err)
        match p, hp with
        | [.A], _ => exact accepts_of _ (not_tag_of_dispatch dispatch_SET_CAR) 0 (by simp) m hm
        | [.D], _ => exact accepts_of _ (not_tag_of_dispatch dispatch_SET_CDR) 0 (by simp) m hm
        | .A :: e :: q, _ => exact accepts_of _ (not_tag_of_dispatch (dispatch_set_A (e :: q) (by simp))) 0 (by simp) m hm
        | .D :: e :: q, _ => exact accepts_of _ (not_tag_of_dispatch (dispatch_set_D (e :: q) (by simp))) 0 (by simp) m hm
      · obtain ⟨m, hm, _⟩ := map_cxr p hp [] (by simp [fieldAnnots]) (.seq []) (fun _ _ _ _ => .err)
        match p, hp with
        | [.A], _ => exact accepts_of _ (not_tag_of_dispatch dispatch_MAP_CAR) 1 (by simp) m hm
        | [.D], _ => exact accepts_of _ (not_tag_of_dispatch dispatch_MAP_CDR) 1 (by simp) m hm
        | .A :: e :: q, _ => exact accepts_of _ (not_tag_of_dispatch (dispatch_map_A (e :: q) (by simp))) 1 (by simp) m hm
        | .D :: e :: q, _ => exact accepts_of _ (not_tag_of_dispatch (dispatch_map_D (e :: q) (by simp))) 1 (by simp) m hm

/-- in particular the ill-formed tree names the pinned code expanded to a bare `PAIR` are not accepted -/
example : acceptsName "PAAIR".toList = false := by rfl
example : acceptsName "PAPAIR".toList = true := by rfl
example : ¬ MacroName "PAIAIR".toList := by
  rw [← macro_name_grammar _ (by decide)]
  decide

end C19
