import PytezosModel.Michelson.Macros
import PytezosModel.Michelson.MacroSem
namespace C19
theorem placeholder : True := trivial
end C19
