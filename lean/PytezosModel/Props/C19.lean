import PytezosModel.Proofs.C19Pair
import PytezosModel.Proofs.C19Values
/-! C19 — macro expansions have their specified Michelson meaning.

`Impl.Macros.expandMacro` mirrors `expand_macro` of `src/pytezos/michelson/macros.py` (regex table, `prim_tags`,
constants and function shapes re-extracted from the source on every run).  `Sem.eval ext` is the reference semantics
of the instructions expansions are made of, for an arbitrary semantics `ext` of all other instructions (so user code
passed to a macro is arbitrary).  `Spec.*` are the definitions of the Michelson reference.  Every theorem is about the
expansion the mirror produces, for all stacks (equality of stack transformers), all annotations the code accepts, and
all names of the family. -/
namespace C19
open Impl.Macros Generated.C19 Spec Sem C19.Dispatch C19.Expand C19.Pair C19.Values

/-! ### comparison, conditional and assertion macros -/

theorem eval_op (ext : Ext) (op : List Char) (hop : op ∈ ops) (an : List String) :
    eval ext (.prim (String.ofList op) [] an) = eval ext (prim0 (String.ofList op)) := by
  simp only [ops, List.mem_cons, List.not_mem_nil, or_false] at hop
  funext S
  rcases hop with rfl | rfl | rfl | rfl | rfl | rfl <;> simp [eval, op0, prim0]

theorem eval_COMPARE (ext : Ext) (an : List String) : eval ext (.prim "COMPARE" [] an) = compareStep := by
  funext S; simp [eval, op0]

/-- `CMP{EQ,…}` = `COMPARE ; {EQ,…}` -/
theorem cmpx (op : List Char) (hop : op ∈ ops) (an : List String) (ext : Ext) :
    ∃ m, expandMacro ("CMP".toList ++ op) an [] = .ok m ∧ eval ext m = eval ext (Spec.cmpx (String.ofList op)) := by
  refine ⟨.seq [.prim "COMPARE" [] [], .prim (String.ofList op) [] an], ?_, ?_⟩
  · simp only [ops, List.mem_cons, List.not_mem_nil, or_false] at hop
    rcases hop with rfl | rfl | rfl | rfl | rfl | rfl <;> rfl
  · simp only [Spec.cmpx, eval_seq, evalSeq_cons', eval_op ext op hop an]
    rfl


/-- a code argument makes `CMP{…}` an error (`assert not args`) -/
theorem cmpx_rejects_args (op : List Char) (hop : op ∈ ops) (an : List String) (a : Mich) (args : List Mich) :
    expandMacro ("CMP".toList ++ op) an (a :: args) = .error .assertion := by
  simp only [ops, List.mem_cons, List.not_mem_nil, or_false] at hop
  rcases hop with rfl | rfl | rfl | rfl | rfl | rfl <;> rfl

/-- `IF{EQ,…} bt bf` = `{EQ,…} ; IF bt bf` -/
theorem ifx (op : List Char) (hop : op ∈ ops) (an : List String) (bt bf : Mich) (ext : Ext) :
    ∃ m, expandMacro ("IF".toList ++ op) an [bt, bf] = .ok m ∧
      eval ext m = eval ext (Spec.ifx (String.ofList op) bt bf) := by
  refine ⟨.seq [.prim (String.ofList op) [] an, .prim "IF" [bt, bf] []], ?_, ?_⟩
  · simp only [ops, List.mem_cons, List.not_mem_nil, or_false] at hop
    rcases hop with rfl | rfl | rfl | rfl | rfl | rfl <;> rfl
  · simp only [Spec.ifx, eval_seq, evalSeq_cons', eval_op ext op hop an]

/-- `IFCMP{EQ,…} bt bf` = `COMPARE ; {EQ,…} ; IF bt bf` -/
theorem ifcmpx (op : List Char) (hop : op ∈ ops) (an : List String) (bt bf : Mich) (ext : Ext) :
    ∃ m, expandMacro ("IFCMP".toList ++ op) an [bt, bf] = .ok m ∧
      eval ext m = eval ext (Spec.ifcmpx (String.ofList op) bt bf) := by
  refine ⟨.seq [.seq [.prim "COMPARE" [] [], .prim (String.ofList op) [] an], .prim "IF" [bt, bf] []], ?_, ?_⟩
  · simp only [ops, List.mem_cons, List.not_mem_nil, or_false] at hop
    rcases hop with rfl | rfl | rfl | rfl | rfl | rfl <;> rfl
  · simp only [Spec.ifcmpx, eval_seq, evalSeq_cons', evalSeq_nil', seqF_ok_right, seqF_assoc, eval_op ext op hop an]
    rfl

/-- a wrong number of branches makes `IF{…}` an error (`assert len(args) == 2`) -/
theorem ifx_rejects_one_branch (op : List Char) (hop : op ∈ ops) (an : List String) (a : Mich) :
    expandMacro ("IF".toList ++ op) an [a] = .error .assertion := by
  simp only [ops, List.mem_cons, List.not_mem_nil, or_false] at hop
  rcases hop with rfl | rfl | rfl | rfl | rfl | rfl <;> rfl

/-- `FAIL` = `UNIT ; FAILWITH` -/
theorem fail (ext : Ext) :
    ∃ m, expandMacro "FAIL".toList [] [] = .ok m ∧ eval ext m = eval ext Spec.FAIL := ⟨Spec.FAIL, rfl, rfl⟩

/-- so `FAIL` fails with `Unit` on every stack -/
theorem fail_meaning (ext : Ext) (S : Stack) : eval ext Spec.FAIL S = .failed .unit := by
  simp [Spec.FAIL, prim0, eval, evalSeq, op0, unitStep, failwithStep]

theorem fail_rejects_annots (a : String) (an : List String) :
    expandMacro "FAIL".toList (a :: an) [] = .error .assertion := rfl

/-- `ASSERT` = `IF {} {FAIL}` -/
theorem assert_ (ext : Ext) :
    ∃ m, expandMacro "ASSERT".toList [] [] = .ok m ∧ eval ext m = eval ext Spec.assert := ⟨.seq [Spec.assert], by rfl, by rw [eval_seq, evalSeq_one]⟩

/-- `ASSERT_{EQ,…}` = `IF{EQ,…} {} {FAIL}` -/
theorem assert_x (op : List Char) (hop : op ∈ ops) (ext : Ext) :
    ∃ m, expandMacro ("ASSERT_".toList ++ op) [] [] = .ok m ∧ eval ext m = eval ext (Spec.assertX (String.ofList op)) := by
  refine ⟨Spec.assertX (String.ofList op), ?_, rfl⟩
  simp only [ops, List.mem_cons, List.not_mem_nil, or_false] at hop
  rcases hop with rfl | rfl | rfl | rfl | rfl | rfl <;> rfl

/-- `ASSERT_CMP{EQ,…}` = `IFCMP{EQ,…} {} {FAIL}` -/
theorem assert_cmpx (op : List Char) (hop : op ∈ ops) (ext : Ext) :
    ∃ m, expandMacro ("ASSERT_CMP".toList ++ op) [] [] = .ok m ∧
      eval ext m = eval ext (Spec.assertCmpx (String.ofList op)) := by
  refine ⟨.seq [.seq [.prim "COMPARE" [] [], .prim (String.ofList op) [] []],
    .prim "IF" [.seq [], .seq [Spec.FAIL]] []], ?_, ?_⟩
  · simp only [ops, List.mem_cons, List.not_mem_nil, or_false] at hop
    rcases hop with rfl | rfl | rfl | rfl | rfl | rfl <;> rfl
  · simp only [Spec.assertCmpx, Spec.ifcmpx, prim0, eval_seq, evalSeq_cons', evalSeq_nil', seqF_ok_right, seqF_assoc]

/-- `ASSERT_NONE` = `IF_NONE {} {FAIL}` -/
theorem assert_none (ext : Ext) :
    ∃ m, expandMacro "ASSERT_NONE".toList [] [] = .ok m ∧ eval ext m = eval ext Spec.assertNone :=
  ⟨.seq [Spec.assertNone], by rfl, by rw [eval_seq, evalSeq_one]⟩

/-- `ASSERT_SOME @x` = `IF_NONE {FAIL} {RENAME @x}` -/
theorem assert_some (an : List String) (ext : Ext) :
    ∃ m, expandMacro "ASSERT_SOME".toList an [] = .ok m ∧ eval ext m = eval ext (Spec.assertSome an) :=
  ⟨.seq [Spec.assertSome an], by rfl, by rw [eval_seq, evalSeq_one]⟩

/-- `ASSERT_LEFT @x` = `IF_LEFT {RENAME @x} {FAIL}` -/
theorem assert_left (an : List String) (ext : Ext) :
    ∃ m, expandMacro "ASSERT_LEFT".toList an [] = .ok m ∧ eval ext m = eval ext (Spec.assertLeft an) :=
  ⟨.seq [Spec.assertLeft an], by rfl, by rw [eval_seq, evalSeq_one]⟩

/-- `ASSERT_RIGHT @x` = `IF_LEFT {FAIL} {RENAME @x}` -/
theorem assert_right (an : List String) (ext : Ext) :
    ∃ m, expandMacro "ASSERT_RIGHT".toList an [] = .ok m ∧ eval ext m = eval ext (Spec.assertRight an) :=
  ⟨.seq [Spec.assertRight an], by rfl, by rw [eval_seq, evalSeq_one]⟩

/-- `IF_SOME bt bf` = `IF_NONE bf bt` -/
theorem if_some (bt bf : Mich) (ext : Ext) :
    ∃ m, expandMacro "IF_SOME".toList [] [bt, bf] = .ok m ∧ eval ext m = eval ext (Spec.ifSome bt bf) :=
  ⟨.seq [Spec.ifSome bt bf], by rfl, by rw [eval_seq, evalSeq_one]⟩

/-- `IF_RIGHT bt bf` = `IF_LEFT bf bt` -/
theorem if_right (bt bf : Mich) (ext : Ext) :
    ∃ m, expandMacro "IF_RIGHT".toList [] [bt, bf] = .ok m ∧ eval ext m = eval ext (Spec.ifRight bt bf) :=
  ⟨.seq [Spec.ifRight bt bf], by rfl, by rw [eval_seq, evalSeq_one]⟩

/-- what that means: the first branch runs on `v : S` for `Some v`, the second on `S` for `None` -/
theorem if_some_meaning (bt bf : Mich) (ext : Ext) :
    eval ext (Spec.ifSome bt bf) = ifNone (eval ext bf) (eval ext bt) := by
  funext S; simp [Spec.ifSome, eval]

-- non-vacuity: the expansions are the ones test_macros.py lists, and they compute
example : expandMacro "CMPLE".toList ["@c"] [] = .ok (.seq [.prim "COMPARE" [] [], .prim "LE" [] ["@c"]]) := rfl
example : eval (fun _ _ _ _ => .err) (Spec.cmpx "LE") [.int 3, .int 5, .atom "x"] = .ok [.bool true, .atom "x"] := by
  decide
example : eval (fun _ _ _ _ => .err) Spec.assert [.bool false, .atom "x"] = .failed .unit := by decide
example : eval (fun _ _ _ _ => .err) Spec.assertNone [.some (.atom "a"), .atom "x"] = .failed .unit := by decide
example : eval (fun _ _ _ _ => .err) (Spec.assertSome ["@a"]) [.some (.atom "a"), .atom "x"] = .ok [.atom "a", .atom "x"] := by
  decide


/-! ### `DI…IP`, `DU…UP` -/

theorem runHandler_dixp (recur : Recur) (g : List Char) (code : Mich) :
    runHandler recur "expand_dixp" g [] [code] = .ok (dipN (.seq [code]) g.length) := rfl

theorem runHandler_duxp (recur : Recur) (g : List Char) (an : List String) :
    runHandler recur "expand_duxp" g an [] = .ok (.prim "DUP" [.int g.length] an) := rfl

/-- `D I^n P code` (n ≥ 2) is `n` nested `DIP`s — the reference definition `DII+P code > DIP (DI+P code)` — and the
same as the instruction `DIP n code` -/
theorem dixp (n : Nat) (hn : 2 ≤ n) (code : Mich) (ext : Ext) :
    ∃ m, expandMacro (dipName n) [] [code] = .ok m ∧ eval ext m = Spec.dixp n (eval ext code) ∧
      eval ext m = eval ext (.prim "DIP" [.int n, code] []) := by
  refine ⟨seqM (dipN (.seq [code]) n), ?_, ?_, ?_⟩
  · rw [expandMacro, expand_step _ _ _ _ _ _ _ (dispatch_dip n hn) H11.2, H11.1, runHandler_dixp]
    simp [Except.map]
  · rw [eval_seqM, eval_dipN, eval_seq, evalSeq_one, dixp_eq_under]
  · rw [eval_seqM, eval_dipN, eval_seq, evalSeq_one, eval_DIPn]

theorem dixp_rejects_annots (n : Nat) (hn : 2 ≤ n) (a : String) (an : List String) (args : List Mich) :
    expandMacro (dipName n) (a :: an) args = .error .assertion := by
  rw [expandMacro, expand_step _ _ _ _ _ _ _ (dispatch_dip n hn) H11.2, H11.1]
  rfl

/-- `D U^n P` (n ≥ 2) follows the reference definition `DUU+P > DIP (DU+P) ; SWAP` and is the instruction `DUP n` -/
theorem duxp (n : Nat) (hn : 2 ≤ n) (an : List String) (ext : Ext) :
    ∃ m, expandMacro (dupName n) an [] = .ok m ∧ eval ext m = Spec.duxp n ∧
      eval ext m = eval ext (.prim "DUP" [.int n] []) := by
  refine ⟨.seq [.prim "DUP" [.int n] an], ?_, ?_, ?_⟩
  · rw [expandMacro, expand_step _ _ _ _ _ _ _ (dispatch_dup n hn) H12.2, H12.1, runHandler_duxp]
    simp [Except.map, seqM]
  · rw [eval_seq, evalSeq_one, eval_DUPn, duxp_eq_dupN n (by omega)]
  · rw [eval_seq, evalSeq_one, eval_DUPn, eval_DUPn]

/-- value reading: the `n`-th element (1 = top) is copied to the top; shorter stacks are an error -/
theorem duxp_value (n : Nat) (hn : 1 ≤ n) (S : Stack) :
    Spec.duxp n S = match S[n - 1]? with
      | some v => .ok (v :: S)
      | none => .err := by
  rw [duxp_eq_dupN n hn]
  obtain ⟨k, rfl⟩ : ∃ k, n = k + 1 := ⟨n - 1, by omega⟩
  cases h : S[k]? <;> simp [dupN, h]

example : expandMacro (dipName 3) [] [.seq [.prim "DROP" [] []]] =
    .ok (.seq [.prim "DIP" [.int 3, .seq [.seq [.prim "DROP" [] []]]] []]) := by rfl
example : Spec.dixp 3 dropStep [.atom "a", .atom "b", .atom "c", .atom "d", .atom "e"] =
    .ok [.atom "a", .atom "b", .atom "c", .atom "e"] := by decide
example : Spec.duxp 3 [.atom "a", .atom "b", .atom "c", .atom "d"] =
    .ok [.atom "c", .atom "a", .atom "b", .atom "c", .atom "d"] := by decide

/-! ### `C[AD]+R`, `SET_C[AD]+R`, `MAP_C[AD]+R` -/

/-- `C[AD]+R` with at least two letters (`CAR`/`CDR` are instructions) = `CAR`/`CDR` along the path, the reference
definition `CA(rest)R > CAR ; C(rest)R`, `CD(rest)R > CDR ; C(rest)R` -/
theorem cxr (p : Path) (hp : 2 ≤ p.length) (an : List String) (ext : Ext) :
    ∃ m, expandMacro (cadrName p) an [] = .ok m ∧ eval ext m = Spec.cxr p := by
  match p, hp with
  | d :: e :: q, _ =>
    obtain ⟨r, hr, hev⟩ := cxr_internal ext an (e :: q) (by simp) (cadrName (d :: e :: q)).length
      (by simp [cadrName, pathChars])
    have hr' : expand (cadrName (d :: e :: q)).length ('C' :: pathChars (e :: q) ++ ['R']) an [] true = .ok r := hr
    cases d
    · refine ⟨.seq (.prim "CAR" [] [] :: seqList r), ?_, ?_⟩
      · rw [expandMacro, expand_step _ _ _ _ _ _ _ (dispatch_cadr_A (e :: q) (by simp)) H15.2, H15.1,
          runHandler_caxr, hr']
        rfl
      · rw [eval_seq, evalSeq_cons', eval_CAR, hev]; rfl
    · refine ⟨.seq (.prim "CDR" [] [] :: seqList r), ?_, ?_⟩
      · rw [expandMacro, expand_step _ _ _ _ _ _ _ (dispatch_cadr_D (e :: q) (by simp)) H16.2, H16.1,
          runHandler_cdxr, hr']
        rfl
      · rw [eval_seq, evalSeq_cons', eval_CDR, hev]; rfl

/-- value reading: the component of the top element at the path; anything else is an error -/
theorem cxr_value (p : Path) (hp : p ≠ []) (S : Stack) :
    Spec.cxr p S = match S with
      | v :: S' => (match getPath p v with
        | some w => .ok (w :: S')
        | none => .err)
      | [] => .err := by
  cases S with
  | nil => exact cxr_nil p hp
  | cons v S' => cases h : getPath p v <;> simp [Values.cxr_value, pushVal, h]

example : expandMacro (cadrName [.A, .D, .D]) [] [] =
    .ok (.seq [.prim "CAR" [] [], .prim "CDR" [] [], .prim "CDR" [] []]) := by rfl
example : Spec.cxr [.A, .D] [.pair (.pair (.atom "x") (.atom "y")) (.atom "z"), .atom "s"] = .ok [.atom "y", .atom "s"] := by
  decide

/-- `SET_C[AD]+R` follows the reference definition (`SET_CAR > CDR ; SWAP ; PAIR`, `SET_CDR > CAR ; PAIR`,
`SET_CA(rest)R > { DUP ; DIP { CAR ; SET_C(rest)R } ; CDR ; SWAP ; PAIR }`, …) -/
theorem set_cxr (p : Path) (hp : 1 ≤ p.length) (an : List String) (ext : Ext) :
    ∃ m, expandMacro (setName p) an [] = .ok m ∧ eval ext m = Spec.setCxr p := by
  obtain ⟨m, hm, hev⟩ := set_internal ext p hp an ((setName p).length + 1) (by simp [setName, pathChars]; omega)
  refine ⟨seqM m, ?_, by rw [eval_seqM, hev]⟩
  -- internal and external calls differ only by the final `seq(res)`
  obtain ⟨d, q, rfl⟩ : ∃ d q, p = d :: q := by cases p with | nil => simp at hp | cons d q => exact ⟨d, q, rfl⟩
  have key : ∀ (h : Handler) (g : List Char), dispatch handlers (setName (d :: q)) = .ok (some (h, g)) →
      h.shape = some 0 → expandMacro (setName (d :: q)) an [] = .ok (seqM m) := by
    intro h g hd hs
    rw [expand_step _ _ _ _ _ _ _ hd hs] at hm
    rw [expandMacro, expand_step _ _ _ _ _ _ _ hd hs]
    cases hrun : runHandler (fun p a r => expand (setName (d :: q)).length p a r true) h.func g an [] with
    | error e => rw [hrun] at hm; cases hm
    | ok res => rw [hrun] at hm; simp only [Except.map, if_true] at hm; cases hm; rfl
  cases q with
  | nil => cases d
           · exact key _ _ dispatch_SET_CAR H19.2
           · exact key _ _ dispatch_SET_CDR H20.2
  | cons e q => cases d
                · exact key _ _ (dispatch_set_A (e :: q) (by simp)) H21.2
                · exact key _ _ (dispatch_set_D (e :: q) (by simp)) H22.2

/-- value reading: exactly the addressed component of the top element is replaced by the second element -/
theorem set_cxr_value (p : Path) (S : Stack) :
    Spec.setCxr p S = match S with
      | v :: x :: S' => (match setPath p v x with
        | some v' => .ok (v' :: S')
        | none => .err)
      | _ => .err := by
  match S with
  | [] => exact setCxr_nil p
  | [v] => exact setCxr_one p v
  | v :: x :: S' => cases h : setPath p v x <;> simp [setCxr_value, pushVal, h]

example : Spec.setCxr [.A, .D] [.pair (.pair (.atom "x") (.atom "y")) (.atom "z"), .atom "new", .atom "s"] =
    .ok [.pair (.pair (.atom "x") (.atom "new")) (.atom "z"), .atom "s"] := by decide

/-- `MAP_C[AD]+R code` follows the reference definition; in particular `MAP_CAR`'s code runs on `a : S` (the pair is
not below it) while `MAP_CDR`'s code runs on `b : Pair a b : S`.  At most one field annotation is accepted. -/
theorem map_cxr (p : Path) (hp : 1 ≤ p.length) (an : List String) (hA : (fieldAnnots an).length ≤ 1) (code : Mich)
    (ext : Ext) :
    ∃ m, expandMacro (mapName p) an [code] = .ok m ∧ eval ext m = Spec.mapCxr p (eval ext code) := by
  obtain ⟨m, hm, hev⟩ := map_internal ext code p hp an hA ((mapName p).length + 1)
    (by simp [mapName, pathChars]; omega)
  refine ⟨seqM m, ?_, by rw [eval_seqM, hev]⟩
  obtain ⟨d, q, rfl⟩ : ∃ d q, p = d :: q := by cases p with | nil => simp at hp | cons d q => exact ⟨d, q, rfl⟩
  have key : ∀ (h : Handler) (g : List Char), dispatch handlers (mapName (d :: q)) = .ok (some (h, g)) →
      h.shape = some 0 → expandMacro (mapName (d :: q)) an [code] = .ok (seqM m) := by
    intro h g hd hs
    rw [expand_step _ _ _ _ _ _ _ hd hs] at hm
    rw [expandMacro, expand_step _ _ _ _ _ _ _ hd hs]
    cases hrun : runHandler (fun p a r => expand (mapName (d :: q)).length p a r true) h.func g an [code] with
    | error e => rw [hrun] at hm; cases hm
    | ok res => rw [hrun] at hm; simp only [Except.map, if_true] at hm; cases hm; rfl
  cases q with
  | nil => cases d
           · exact key _ _ dispatch_MAP_CAR H23.2
           · exact key _ _ dispatch_MAP_CDR H24.2
  | cons e q => cases d
                · exact key _ _ (dispatch_map_A (e :: q) (by simp)) H25.2
                · exact key _ _ (dispatch_map_D (e :: q) (by simp)) H26.2

/-- two field annotations: `get_map_cxr_annots` asserts -/
theorem map_car_rejects_two_field_annots (an : List String) (hA : 2 ≤ (fieldAnnots an).length) (args : List Mich) :
    expandMacro (mapName [.A]) an args = .error .assertion := by
  rw [expandMacro, expand_step _ _ _ _ _ _ _ dispatch_MAP_CAR H23.2, H23.1, runHandler_map_car, mapCxrAnnots_err an hA]
  rfl

/-- value reading for code that only rewrites the element it is given (`code (x : T) = f x : T` for every `T`):
exactly the addressed component is replaced by its image -/
theorem map_cxr_value (p : Path) (c : F) (f : Val → Val) (hc : Local c f) (v : Val) (S : Stack) :
    Spec.mapCxr p c (v :: S) = match mapPath p f v with
      | some v' => .ok (v' :: S)
      | none => .err := by
  rw [mapCxr_value p c f hc]; cases mapPath p f v <;> rfl

/-- what the code sees: `MAP_CAR` gives it the component on top of the rest of the stack … -/
theorem map_car_sees (c : F) (a b : Val) (S : Stack) :
    Spec.mapCxr [.A] c (.pair a b :: S) = (c (a :: S)).bind fun T => pairStep (match T with
      | a' :: T' => a' :: b :: T'
      | [] => []) := by
  simp only [mapCxr, seqF, dupStep, cdrStep, bind_ok, under, under_zero, carStep]
  cases c (a :: S) with
  | ok T => cases T <;> simp [swapStep, pairStep]
  | failed v => rfl
  | err => rfl

/-- … while `MAP_CDR` gives it the component on top of the *original pair* -/
theorem map_cdr_sees (c : F) (a b : Val) (S : Stack) :
    Spec.mapCxr [.D] c (.pair a b :: S) = (c (b :: .pair a b :: S)).bind (swapStep ⨾ carStep ⨾ pairStep) := by
  simp only [mapCxr, seqF, dupStep, cdrStep, bind_ok, bind_assoc]

example : Spec.mapCxr [.A, .D] (fun S => match S with | x :: T => .ok (.some x :: T) | [] => .err)
    [.pair (.pair (.atom "x") (.atom "y")) (.atom "z"), .atom "s"] =
    .ok [.pair (.pair (.atom "x") (.some (.atom "y"))) (.atom "z"), .atom "s"] := by decide

end C19
