import PytezosModel.Proofs.C19Names
/-! C19 — macro expansions have their specified Michelson meaning.

`Impl.Macros.expandMacro` mirrors `expand_macro` of `src/pytezos/michelson/macros.py` (regex table, `prim_tags`,
constants and function shapes re-extracted from the source on every run).  `Sem.eval ext` is the reference semantics
of the instructions expansions are made of, for an arbitrary semantics `ext` of all other instructions (so user code
passed to a macro is arbitrary).  `Spec.*` are the definitions of the Michelson reference.  Every theorem is about the
expansion the mirror produces, for all stacks (equality of stack transformers), all annotations the code accepts, and
all names of the family. -/
set_option linter.unusedSimpArgs false
namespace C19
open Impl.Macros Generated.C19 Spec Sem C19.Dispatch C19.Expand C19.Pair C19.Values C19.Grammar C19.Names

/-! ### comparison, conditional and assertion macros -/

/-- `CMP{EQ,…}` = `COMPARE ; {EQ,…}` -/
theorem cmpx (op : List Char) (hop : op ∈ ops) (an : List String) (ext : Ext) :
    ∃ m, expandMacro ("CMP".toList ++ op) an [] = .ok m ∧ eval ext m = eval ext (Spec.cmpx (String.ofList op)) := by
  refine ⟨.seq [.prim "COMPARE" [] [], .prim (String.ofList op) [] an], ?_, ?_⟩
  · simp only [ops, List.mem_cons, List.not_mem_nil, or_false] at hop
    rcases hop with rfl | rfl | rfl | rfl | rfl | rfl <;> rfl
  · simp only [Spec.cmpx, eval_seq, evalSeq_cons', eval_op ext op hop an]
    rfl

/-- a code argument makes `CMP{…}` an error (`assert not args`) -/
theorem cmpx_rejects_args (op : List Char) (hop : op ∈ ops) (an : List String) (a : Mich) (args : List Mich) :
    expandMacro ("CMP".toList ++ op) an (a :: args) = .error .assertion := by
  simp only [ops, List.mem_cons, List.not_mem_nil, or_false] at hop
  rcases hop with rfl | rfl | rfl | rfl | rfl | rfl <;> rfl

/-- `IF{EQ,…} bt bf` = `{EQ,…} ; IF bt bf` -/
theorem ifx (op : List Char) (hop : op ∈ ops) (an : List String) (bt bf : Mich) (ext : Ext) :
    ∃ m, expandMacro ("IF".toList ++ op) an [bt, bf] = .ok m ∧
      eval ext m = eval ext (Spec.ifx (String.ofList op) bt bf) := by
  refine ⟨.seq [.prim (String.ofList op) [] an, .prim "IF" [bt, bf] []], ?_, ?_⟩
  · simp only [ops, List.mem_cons, List.not_mem_nil, or_false] at hop
    rcases hop with rfl | rfl | rfl | rfl | rfl | rfl <;> rfl
  · simp only [Spec.ifx, eval_seq, evalSeq_cons', eval_op ext op hop an]

/-- `IFCMP{EQ,…} bt bf` = `COMPARE ; {EQ,…} ; IF bt bf` -/
theorem ifcmpx (op : List Char) (hop : op ∈ ops) (an : List String) (bt bf : Mich) (ext : Ext) :
    ∃ m, expandMacro ("IFCMP".toList ++ op) an [bt, bf] = .ok m ∧
      eval ext m = eval ext (Spec.ifcmpx (String.ofList op) bt bf) := by
  refine ⟨.seq [.seq [.prim "COMPARE" [] [], .prim (String.ofList op) [] an], .prim "IF" [bt, bf] []], ?_, ?_⟩
  · simp only [ops, List.mem_cons, List.not_mem_nil, or_false] at hop
    rcases hop with rfl | rfl | rfl | rfl | rfl | rfl <;> rfl
  · simp only [Spec.ifcmpx, eval_seq, evalSeq_cons', evalSeq_nil', seqF_ok_right, seqF_assoc, eval_op ext op hop an]
    rfl

/-- a wrong number of branches makes `IF{…}` an error (`assert len(args) == 2`) -/
theorem ifx_rejects_one_branch (op : List Char) (hop : op ∈ ops) (an : List String) (a : Mich) :
    expandMacro ("IF".toList ++ op) an [a] = .error .assertion := by
  simp only [ops, List.mem_cons, List.not_mem_nil, or_false] at hop
  rcases hop with rfl | rfl | rfl | rfl | rfl | rfl <;> rfl

/-- `FAIL` = `UNIT ; FAILWITH` -/
theorem fail (ext : Ext) :
    ∃ m, expandMacro "FAIL".toList [] [] = .ok m ∧ eval ext m = eval ext Spec.FAIL := ⟨Spec.FAIL, rfl, rfl⟩

theorem fail_rejects_annots (a : String) (an : List String) :
    expandMacro "FAIL".toList (a :: an) [] = .error .assertion := rfl

/-- `ASSERT` = `IF {} {FAIL}` -/
theorem assert_ (ext : Ext) :
    ∃ m, expandMacro "ASSERT".toList [] [] = .ok m ∧ eval ext m = eval ext Spec.assert := ⟨.seq [Spec.assert], by rfl, by rw [eval_seq, evalSeq_one]⟩

/-- `ASSERT_{EQ,…}` = `IF{EQ,…} {} {FAIL}` -/
theorem assert_x (op : List Char) (hop : op ∈ ops) (ext : Ext) :
    ∃ m, expandMacro ("ASSERT_".toList ++ op) [] [] = .ok m ∧ eval ext m = eval ext (Spec.assertX (String.ofList op)) := by
  refine ⟨Spec.assertX (String.ofList op), ?_, rfl⟩
  simp only [ops, List.mem_cons, List.not_mem_nil, or_false] at hop
  rcases hop with rfl | rfl | rfl | rfl | rfl | rfl <;> rfl

/-- `ASSERT_CMP{EQ,…}` = `IFCMP{EQ,…} {} {FAIL}` -/
theorem assert_cmpx (op : List Char) (hop : op ∈ ops) (ext : Ext) :
    ∃ m, expandMacro ("ASSERT_CMP".toList ++ op) [] [] = .ok m ∧
      eval ext m = eval ext (Spec.assertCmpx (String.ofList op)) := by
  refine ⟨.seq [.seq [.prim "COMPARE" [] [], .prim (String.ofList op) [] []],
    .prim "IF" [.seq [], .seq [Spec.FAIL]] []], ?_, ?_⟩
  · simp only [ops, List.mem_cons, List.not_mem_nil, or_false] at hop
    rcases hop with rfl | rfl | rfl | rfl | rfl | rfl <;> rfl
  · simp only [Spec.assertCmpx, Spec.ifcmpx, prim0, eval_seq, evalSeq_cons', evalSeq_nil', seqF_ok_right, seqF_assoc]

/-- `ASSERT_NONE` = `IF_NONE {} {FAIL}` -/
theorem assert_none (ext : Ext) :
    ∃ m, expandMacro "ASSERT_NONE".toList [] [] = .ok m ∧ eval ext m = eval ext Spec.assertNone :=
  ⟨.seq [Spec.assertNone], by rfl, by rw [eval_seq, evalSeq_one]⟩

/-- `ASSERT_SOME @x` = `IF_NONE {FAIL} {RENAME @x}` -/
theorem assert_some (an : List String) (ext : Ext) :
    ∃ m, expandMacro "ASSERT_SOME".toList an [] = .ok m ∧ eval ext m = eval ext (Spec.assertSome an) :=
  ⟨.seq [Spec.assertSome an], by rfl, by rw [eval_seq, evalSeq_one]⟩

/-- `ASSERT_LEFT @x` = `IF_LEFT {RENAME @x} {FAIL}` -/
theorem assert_left (an : List String) (ext : Ext) :
    ∃ m, expandMacro "ASSERT_LEFT".toList an [] = .ok m ∧ eval ext m = eval ext (Spec.assertLeft an) :=
  ⟨.seq [Spec.assertLeft an], by rfl, by rw [eval_seq, evalSeq_one]⟩

/-- `ASSERT_RIGHT @x` = `IF_LEFT {FAIL} {RENAME @x}` -/
theorem assert_right (an : List String) (ext : Ext) :
    ∃ m, expandMacro "ASSERT_RIGHT".toList an [] = .ok m ∧ eval ext m = eval ext (Spec.assertRight an) :=
  ⟨.seq [Spec.assertRight an], by rfl, by rw [eval_seq, evalSeq_one]⟩

/-- `IF_SOME bt bf` = `IF_NONE bf bt` -/
theorem if_some (bt bf : Mich) (ext : Ext) :
    ∃ m, expandMacro "IF_SOME".toList [] [bt, bf] = .ok m ∧ eval ext m = eval ext (Spec.ifSome bt bf) :=
  ⟨.seq [Spec.ifSome bt bf], by rfl, by rw [eval_seq, evalSeq_one]⟩

/-- `IF_RIGHT bt bf` = `IF_LEFT bf bt` -/
theorem if_right (bt bf : Mich) (ext : Ext) :
    ∃ m, expandMacro "IF_RIGHT".toList [] [bt, bf] = .ok m ∧ eval ext m = eval ext (Spec.ifRight bt bf) :=
  ⟨.seq [Spec.ifRight bt bf], by rfl, by rw [eval_seq, evalSeq_one]⟩

/-- `CMP{op}` on two ints leaves the boolean `a op b` -/
theorem cmpx_value (op : List Char) (hop : op ∈ ops) (an : List String) (ext : Ext) (a b : Int) (S : Stack) :
    ∃ m, expandMacro ("CMP".toList ++ op) an [] = .ok m ∧
      eval ext m (.int a :: .int b :: S) = .ok (.bool (opTest op (cmpInt a b)) :: S) := by
  obtain ⟨m, hm, he⟩ := cmpx op hop an ext
  refine ⟨m, hm, ?_⟩
  rw [he, ← test_value op hop ext _ (cmpInt_cases a b) S]
  simp only [Spec.cmpx, eval_seq, evalSeq_cons', evalSeq_nil', seqF_ok_right]
  rfl

/-- `ASSERT_CMP{op}` on two ints: continues without them if `a op b`, fails with `Unit` otherwise -/
theorem assert_cmpx_value (op : List Char) (hop : op ∈ ops) (ext : Ext) (a b : Int) (S : Stack) :
    ∃ m, expandMacro ("ASSERT_CMP".toList ++ op) [] [] = .ok m ∧
      eval ext m (.int a :: .int b :: S) = if opTest op (cmpInt a b) then .ok S else .failed .unit := by
  obtain ⟨m, hm, he⟩ := assert_cmpx op hop ext
  refine ⟨m, hm, ?_⟩
  rw [he]
  have h1 : eval ext (Spec.assertCmpx (String.ofList op)) (.int a :: .int b :: S) =
      (eval ext (prim0 (String.ofList op)) (.int (cmpInt a b) :: S)).bind
        (eval ext (.prim "IF" [.seq [], .seq [Spec.FAIL]] [])) := by
    simp only [Spec.assertCmpx, Spec.ifcmpx, eval_seq, evalSeq_cons', evalSeq_nil', seqF_ok_right]
    rfl
  rw [h1, test_value op hop ext _ (cmpInt_cases a b) S]
  cases opTest op (cmpInt a b) <;>
    simp [Spec.FAIL, prim0, eval, evalSeq, op0, ifBool, unitStep, failwithStep]

/-- `ASSERT`: `True` is consumed, `False` fails with `Unit` -/
theorem assert_value (ext : Ext) (S : Stack) :
    ∃ m, expandMacro "ASSERT".toList [] [] = .ok m ∧
      eval ext m (.bool true :: S) = .ok S ∧ eval ext m (.bool false :: S) = .failed .unit := by
  obtain ⟨m, hm, he⟩ := assert_ ext
  refine ⟨m, hm, ?_, ?_⟩ <;> rw [he] <;>
    simp [Spec.assert, Spec.FAIL, prim0, eval, evalSeq, op0, ifBool, unitStep, failwithStep]

/-- `ASSERT_SOME`: `Some v` is replaced by `v`, `None` fails with `Unit` -/
theorem assert_some_value (an : List String) (ext : Ext) (v : Val) (S : Stack) :
    ∃ m, expandMacro "ASSERT_SOME".toList an [] = .ok m ∧
      eval ext m (.some v :: S) = .ok (v :: S) ∧ eval ext m (.none :: S) = .failed .unit := by
  obtain ⟨m, hm, he⟩ := assert_some an ext
  refine ⟨m, hm, ?_, ?_⟩ <;> rw [he] <;>
    simp [Spec.assertSome, Spec.FAIL, prim0, eval, evalSeq, op0, ifNone, unitStep, failwithStep, renameStep]

/-- `ASSERT_LEFT`: `Left v` is replaced by `v`, `Right v` fails with `Unit`; `ASSERT_RIGHT` the other way round -/
theorem assert_left_right_value (an : List String) (ext : Ext) (v : Val) (S : Stack) :
    (∃ m, expandMacro "ASSERT_LEFT".toList an [] = .ok m ∧
      eval ext m (.left v :: S) = .ok (v :: S) ∧ eval ext m (.right v :: S) = .failed .unit) ∧
    (∃ m, expandMacro "ASSERT_RIGHT".toList an [] = .ok m ∧
      eval ext m (.right v :: S) = .ok (v :: S) ∧ eval ext m (.left v :: S) = .failed .unit) := by
  obtain ⟨m, hm, he⟩ := assert_left an ext
  obtain ⟨m', hm', he'⟩ := assert_right an ext
  refine ⟨⟨m, hm, ?_, ?_⟩, ⟨m', hm', ?_, ?_⟩⟩ <;> (first | rw [he] | rw [he']) <;>
    simp [Spec.assertLeft, Spec.assertRight, Spec.FAIL, prim0, eval, evalSeq, op0, ifLeft, unitStep, failwithStep,
      renameStep]

-- non-vacuity: the expansions are the ones test_macros.py lists, and they compute
example : expandMacro "CMPLE".toList ["@c"] [] = .ok (.seq [.prim "COMPARE" [] [], .prim "LE" [] ["@c"]]) := rfl
example : eval (fun _ _ _ _ => .err) (Spec.cmpx "LE") [.int 3, .int 5, .atom "x"] = .ok [.bool true, .atom "x"] := by
  decide
example : eval (fun _ _ _ _ => .err) Spec.assert [.bool false, .atom "x"] = .failed .unit := by decide
example : eval (fun _ _ _ _ => .err) Spec.assertNone [.some (.atom "a"), .atom "x"] = .failed .unit := by decide
example : eval (fun _ _ _ _ => .err) (Spec.assertSome ["@a"]) [.some (.atom "a"), .atom "x"] = .ok [.atom "a", .atom "x"] := by
  decide
example : expandMacro "IFCMPGE".toList [] [.seq [.prim "UNIT" [] []], .seq []] =
    .ok (.seq [.seq [.prim "COMPARE" [] [], .prim "GE" [] []], .prim "IF" [.seq [.prim "UNIT" [] []], .seq []] []]) := rfl
example : eval (fun _ _ _ _ => .err) (Spec.ifcmpx "GE" (.seq [.prim "UNIT" [] []]) (.seq [])) [.int 5, .int 3, .atom "x"] =
    .ok [.unit, .atom "x"] := by decide
example : eval (fun _ _ _ _ => .err) (Spec.ifRight (.seq [.prim "DROP" [] []]) (.seq [])) [.right (.atom "r"), .atom "x"] =
    .ok [.atom "x"] := by decide
example : opTest ['L', 'E'] (cmpInt 3 5) = true := by decide

/-! ### `DI…IP`, `DU…UP` -/

/-- `D I^n P code` (n ≥ 2) is `n` nested `DIP`s — the reference definition `DII+P code > DIP (DI+P code)` — and the
same as the instruction `DIP n code` -/
theorem dixp (n : Nat) (hn : 2 ≤ n) (code : Mich) (ext : Ext) :
    ∃ m, expandMacro (dipName n) [] [code] = .ok m ∧ eval ext m = Spec.dixp n (eval ext code) ∧
      eval ext m = eval ext (.prim "DIP" [.int n, code] []) := by
  refine ⟨seqM (dipN (.seq [code]) n), ?_, ?_, ?_⟩
  · rw [expandMacro, expand_step _ _ _ _ _ _ _ (dispatch_dip n hn) H11.2, H11.1, runHandler_dixp]
    simp [Except.map]
  · rw [eval_seqM, eval_dipN, eval_seq, evalSeq_one, dixp_eq_under]
  · rw [eval_seqM, eval_dipN, eval_seq, evalSeq_one, eval_DIPn]

theorem dixp_rejects_annots (n : Nat) (hn : 2 ≤ n) (a : String) (an : List String) (args : List Mich) :
    expandMacro (dipName n) (a :: an) args = .error .assertion := by
  rw [expandMacro, expand_step _ _ _ _ _ _ _ (dispatch_dip n hn) H11.2, H11.1]
  rfl

/-- `D U^n P` (n ≥ 2) follows the reference definition `DUU+P > DIP (DU+P) ; SWAP` and is the instruction `DUP n` -/
theorem duxp (n : Nat) (hn : 2 ≤ n) (an : List String) (ext : Ext) :
    ∃ m, expandMacro (dupName n) an [] = .ok m ∧ eval ext m = Spec.duxp n ∧
      eval ext m = eval ext (.prim "DUP" [.int n] []) := by
  refine ⟨.seq [.prim "DUP" [.int n] an], ?_, ?_, ?_⟩
  · rw [expandMacro, expand_step _ _ _ _ _ _ _ (dispatch_dup n hn) H12.2, H12.1, runHandler_duxp]
    simp [Except.map, seqM]
  · rw [eval_seq, evalSeq_one, eval_DUPn, duxp_eq_dupN n (by omega)]
  · rw [eval_seq, evalSeq_one, eval_DUPn, eval_DUPn]

example : expandMacro (dipName 3) [] [.seq [.prim "DROP" [] []]] =
    .ok (.seq [.prim "DIP" [.int 3, .seq [.seq [.prim "DROP" [] []]]] []]) := by rfl
example : Spec.dixp 3 dropStep [.atom "a", .atom "b", .atom "c", .atom "d", .atom "e"] =
    .ok [.atom "a", .atom "b", .atom "c", .atom "e"] := by decide
example : Spec.duxp 3 [.atom "a", .atom "b", .atom "c", .atom "d"] =
    .ok [.atom "c", .atom "a", .atom "b", .atom "c", .atom "d"] := by decide

/-! ### `C[AD]+R`, `SET_C[AD]+R`, `MAP_C[AD]+R` -/

/-- `C[AD]+R` with at least two letters (`CAR`/`CDR` are instructions) = `CAR`/`CDR` along the path, the reference
definition `CA(rest)R > CAR ; C(rest)R`, `CD(rest)R > CDR ; C(rest)R` -/
theorem cxr (p : Path) (hp : 2 ≤ p.length) (an : List String) (ext : Ext) :
    ∃ m, expandMacro (cadrName p) an [] = .ok m ∧ eval ext m = Spec.cxr p := by
  match p, hp with
  | d :: e :: q, _ =>
    obtain ⟨r, hr, hev⟩ := cxr_internal ext an (e :: q) (by simp) (cadrName (d :: e :: q)).length
      (by simp [cadrName, pathChars])
    have hr' : expand (cadrName (d :: e :: q)).length ('C' :: pathChars (e :: q) ++ ['R']) an [] true = .ok r := hr
    cases d
    · refine ⟨.seq (.prim "CAR" [] [] :: seqList r), ?_, ?_⟩
      · rw [expandMacro, expand_step _ _ _ _ _ _ _ (dispatch_cadr_A (e :: q) (by simp)) H15.2, H15.1,
          runHandler_caxr, hr']
        rfl
      · rw [eval_seq, evalSeq_cons', eval_CAR, hev]; rfl
    · refine ⟨.seq (.prim "CDR" [] [] :: seqList r), ?_, ?_⟩
      · rw [expandMacro, expand_step _ _ _ _ _ _ _ (dispatch_cadr_D (e :: q) (by simp)) H16.2, H16.1,
          runHandler_cdxr, hr']
        rfl
      · rw [eval_seq, evalSeq_cons', eval_CDR, hev]; rfl

example : expandMacro (cadrName [.A, .D, .D]) [] [] =
    .ok (.seq [.prim "CAR" [] [], .prim "CDR" [] [], .prim "CDR" [] []]) := by rfl
example : Spec.cxr [.A, .D] [.pair (.pair (.atom "x") (.atom "y")) (.atom "z"), .atom "s"] = .ok [.atom "y", .atom "s"] := by
  decide

/-- `SET_C[AD]+R` follows the reference definition (`SET_CAR > CDR ; SWAP ; PAIR`, `SET_CDR > CAR ; PAIR`,
`SET_CA(rest)R > { DUP ; DIP { CAR ; SET_C(rest)R } ; CDR ; SWAP ; PAIR }`, …) -/
theorem set_cxr (p : Path) (hp : 1 ≤ p.length) (an : List String) (ext : Ext) :
    ∃ m, expandMacro (setName p) an [] = .ok m ∧ eval ext m = Spec.setCxr p := by
  obtain ⟨m, hm, hev⟩ := set_internal ext p hp an ((setName p).length + 1) (by simp [setName, pathChars]; omega)
  refine ⟨seqM m, ?_, by rw [eval_seqM, hev]⟩
  -- internal and external calls differ only by the final `seq(res)`
  obtain ⟨d, q, rfl⟩ : ∃ d q, p = d :: q := by cases p with | nil => simp at hp | cons d q => exact ⟨d, q, rfl⟩
  have key : ∀ (h : Handler) (g : List Char), dispatch handlers (setName (d :: q)) = .ok (some (h, g)) →
      h.shape = some 0 → expandMacro (setName (d :: q)) an [] = .ok (seqM m) := by
    intro h g hd hs
    rw [expand_step _ _ _ _ _ _ _ hd hs] at hm
    rw [expandMacro, expand_step _ _ _ _ _ _ _ hd hs]
    cases hrun : runHandler (fun p a r => expand (setName (d :: q)).length p a r true) h.func g an [] with
    | error e => rw [hrun] at hm; cases hm
    | ok res => rw [hrun] at hm; simp only [Except.map, if_true] at hm; cases hm; rfl
  cases q with
  | nil => cases d
           · exact key _ _ dispatch_SET_CAR H19.2
           · exact key _ _ dispatch_SET_CDR H20.2
  | cons e q => cases d
                · exact key _ _ (dispatch_set_A (e :: q) (by simp)) H21.2
                · exact key _ _ (dispatch_set_D (e :: q) (by simp)) H22.2

example : Spec.setCxr [.A, .D] [.pair (.pair (.atom "x") (.atom "y")) (.atom "z"), .atom "new", .atom "s"] =
    .ok [.pair (.pair (.atom "x") (.atom "new")) (.atom "z"), .atom "s"] := by decide

/-- `MAP_C[AD]+R code` follows the reference definition; in particular `MAP_CAR`'s code runs on `a : S` (the pair is
not below it) while `MAP_CDR`'s code runs on `b : Pair a b : S`.  At most one field annotation is accepted. -/
theorem map_cxr (p : Path) (hp : 1 ≤ p.length) (an : List String) (hA : (fieldAnnots an).length ≤ 1) (code : Mich)
    (ext : Ext) :
    ∃ m, expandMacro (mapName p) an [code] = .ok m ∧ eval ext m = Spec.mapCxr p (eval ext code) := by
  obtain ⟨m, hm, hev⟩ := map_internal ext code p hp an hA ((mapName p).length + 1)
    (by simp [mapName, pathChars]; omega)
  refine ⟨seqM m, ?_, by rw [eval_seqM, hev]⟩
  obtain ⟨d, q, rfl⟩ : ∃ d q, p = d :: q := by cases p with | nil => simp at hp | cons d q => exact ⟨d, q, rfl⟩
  have key : ∀ (h : Handler) (g : List Char), dispatch handlers (mapName (d :: q)) = .ok (some (h, g)) →
      h.shape = some 0 → expandMacro (mapName (d :: q)) an [code] = .ok (seqM m) := by
    intro h g hd hs
    rw [expand_step _ _ _ _ _ _ _ hd hs] at hm
    rw [expandMacro, expand_step _ _ _ _ _ _ _ hd hs]
    cases hrun : runHandler (fun p a r => expand (mapName (d :: q)).length p a r true) h.func g an [code] with
    | error e => rw [hrun] at hm; cases hm
    | ok res => rw [hrun] at hm; simp only [Except.map, if_true] at hm; cases hm; rfl
  cases q with
  | nil => cases d
           · exact key _ _ dispatch_MAP_CAR H23.2
           · exact key _ _ dispatch_MAP_CDR H24.2
  | cons e q => cases d
                · exact key _ _ (dispatch_map_A (e :: q) (by simp)) H25.2
                · exact key _ _ (dispatch_map_D (e :: q) (by simp)) H26.2

/-- two field annotations: `get_map_cxr_annots` asserts -/
theorem map_car_rejects_two_field_annots (an : List String) (hA : 2 ≤ (fieldAnnots an).length) (args : List Mich) :
    expandMacro (mapName [.A]) an args = .error .assertion := by
  rw [expandMacro, expand_step _ _ _ _ _ _ _ dispatch_MAP_CAR H23.2, H23.1, runHandler_map_car, mapCxrAnnots_err an hA]
  rfl

example : Spec.mapCxr [.A, .D] (fun S => match S with | x :: T => .ok (.some x :: T) | [] => .err)
    [.pair (.pair (.atom "x") (.atom "y")) (.atom "z"), .atom "s"] =
    .ok [.pair (.pair (.atom "x") (.some (.atom "y"))) (.atom "z"), .atom "s"] := by decide

/-! ### `P…R` / `UNP…R` trees -/

/-- for EVERY tree with at least three leaves (`PAIR` itself is an instruction): the expansion of the `P…R` name of the
tree computes the reference meaning `P(left)(right)R > (left)R ; DIP ((right)R) ; PAIR` — on all stacks, with any
annotations.  This is where the DIP-depth / `insert(0, …)` scheme of `traverse_pxr_tree` is justified (`Kp_eq`). -/
theorem pair_tree (l r : PairTree) (h3 : 3 ≤ (PairTree.node l r).leaves) (an : List String) (ext : Ext) :
    ∃ m, expandMacro (pairName (.node l r)) an [] = .ok m ∧ eval ext m = Spec.build (.node l r) := by
  refine ⟨.seq (pxrWalk (pairProduce an) (pxrOf (.node l r) 'A' (fieldAnnots an) 0 true).1).reverse, ?_, ?_⟩
  · rw [expandMacro, expand_step _ _ _ _ _ _ _ (dispatch_pair l r h3) H13.2, H13.1, runHandler_pxr,
      buildPxrTree_node]
    rfl
  · rw [eval_seq, walk_pair, Kp_eq, Up, under_zero]

/-- the same for `UNP…R`: `UNP(left)(right)R > UNPAIR ; DIP (UN(right)R) ; UN(left)R` -/
theorem unpair_tree (l r : PairTree) (h3 : 3 ≤ (PairTree.node l r).leaves) (an : List String) (ext : Ext) :
    ∃ m, expandMacro (unpairName (.node l r)) an [] = .ok m ∧ eval ext m = Spec.unbuild (.node l r) := by
  refine ⟨.seq (pxrWalk unpairProduce (pxrOf (.node l r) 'A' an 0 true).1).reverse.reverse, ?_, ?_⟩
  · rw [expandMacro, expand_step _ _ _ _ _ _ _ (dispatch_unpair l r h3) H14.2, H14.1, runHandler_unpxr,
      buildPxrTree_node]
    rfl
  · rw [eval_seq, List.reverse_reverse, walk_unpair, Ku_eq, Uu, under_zero]

/-- each `UNP…R` undoes the matching `P…R`: running the expansion of `UNP…R` after the expansion of `P…R` restores the
stack, for every tree and every stack on which `P…R` succeeds -/
theorem unpair_undoes_pair (l r : PairTree) (h3 : 3 ≤ (PairTree.node l r).leaves) (an an' : List String) (ext : Ext) :
    ∃ mp mu, expandMacro (pairName (.node l r)) an [] = .ok mp ∧
      expandMacro (unpairName (.node l r)) an' [] = .ok mu ∧
      ∀ S S' : Stack, eval ext mp S = .ok S' → eval ext mu S' = .ok S := by
  obtain ⟨mp, hp, hep⟩ := pair_tree l r h3 an ext
  obtain ⟨mu, hu, heu⟩ := unpair_tree l r h3 an' ext
  refine ⟨mp, mu, hp, hu, ?_⟩
  intro S S' h
  rw [hep, spec_pair_tree_value] at h
  rw [heu]
  cases ht : treeVal? (.node l r) S with
  | none => rw [ht] at h; cases h
  | some x =>
    obtain ⟨v, S1⟩ := x
    rw [ht] at h
    simp only [Result.ok.injEq] at h
    subst h
    obtain ⟨ls, hf, hls⟩ := flatten_treeVal _ _ _ _ ht
    rw [spec_unpair_tree_value]
    simp only [hf, hls]

example : expandMacro (pairName (.node .leaf (.node (.node .leaf .leaf) .leaf))) [] [] =
    .ok (.seq [.prim "DIP" [.seq [.prim "PAIR" [] []]] [], .prim "DIP" [.seq [.prim "PAIR" [] []]] [],
      .prim "PAIR" [] []]) := by rfl        -- PAPPAIIR
example : Spec.build (.node .leaf (.node (.node .leaf .leaf) .leaf)) [.atom "a", .atom "b", .atom "c", .atom "d", .atom "s"] =
    .ok [.pair (.atom "a") (.pair (.pair (.atom "b") (.atom "c")) (.atom "d")), .atom "s"] := by decide
example : Spec.unbuild (.node .leaf (.node (.node .leaf .leaf) .leaf))
    [.pair (.atom "a") (.pair (.pair (.atom "b") (.atom "c")) (.atom "d")), .atom "s"] =
    .ok [.atom "a", .atom "b", .atom "c", .atom "d", .atom "s"] := by decide
/-- an ill-formed tree name is an error, not a silent `PAIR` -/
example : expandMacro "PAAIR".toList [] [] = .error .assertion := by rfl
example : expandMacro "PAIAIR".toList [] [] = .error .assertion := by rfl
example : expandMacro "PPPPR".toList [] [] = .error .assertion := by rfl

/-! ### value-level readings of the expansions (what the reference meanings say about stacks and values) -/

/-- `FAIL` fails with `Unit` on every stack -/
theorem fail_value (ext : Ext) (S : Stack) :
    ∃ m, expandMacro "FAIL".toList [] [] = .ok m ∧ eval ext m S = .failed .unit :=
  ⟨Spec.FAIL, rfl, spec_fail_meaning ext S⟩

/-- `IF_SOME bt bf`: `bt` runs on `v : S` for `Some v`, `bf` on `S` for `None` -/
theorem if_some_value (bt bf : Mich) (ext : Ext) :
    ∃ m, expandMacro "IF_SOME".toList [] [bt, bf] = .ok m ∧ eval ext m = ifNone (eval ext bf) (eval ext bt) := by
  obtain ⟨m, hm, he⟩ := if_some bt bf ext
  exact ⟨m, hm, by rw [he, spec_if_some_meaning]⟩

/-- `D U^n P` copies the `n`-th element (1 = top) to the top; shorter stacks are an error -/
theorem duxp_value (n : Nat) (hn : 2 ≤ n) (an : List String) (ext : Ext) :
    ∃ m, expandMacro (dupName n) an [] = .ok m ∧ ∀ S : Stack, eval ext m S = match S[n - 1]? with
      | some v => .ok (v :: S)
      | none => .err := by
  obtain ⟨m, hm, he, _⟩ := duxp n hn an ext
  exact ⟨m, hm, fun S => by rw [he]; exact spec_duxp_value n (by omega) S⟩

/-- `C[AD]+R` replaces the top element by its component at the path; anything else is an error (path projection, for
every path) -/
theorem cxr_value (p : Path) (hp : 2 ≤ p.length) (an : List String) (ext : Ext) :
    ∃ m, expandMacro (cadrName p) an [] = .ok m ∧ ∀ S : Stack, eval ext m S = match S with
      | v :: S' => (match getPath p v with
        | some w => .ok (w :: S')
        | none => .err)
      | [] => .err := by
  obtain ⟨m, hm, he⟩ := cxr p hp an ext
  exact ⟨m, hm, fun S => by rw [he]; exact spec_cxr_value p (by intro h; subst h; simp at hp) S⟩

/-- `SET_C[AD]+R` replaces exactly the addressed component of the top element by the second element -/
theorem set_cxr_value (p : Path) (hp : 1 ≤ p.length) (an : List String) (ext : Ext) :
    ∃ m, expandMacro (setName p) an [] = .ok m ∧ ∀ S : Stack, eval ext m S = match S with
      | v :: x :: S' => (match setPath p v x with
        | some v' => .ok (v' :: S')
        | none => .err)
      | _ => .err := by
  obtain ⟨m, hm, he⟩ := set_cxr p hp an ext
  exact ⟨m, hm, fun S => by rw [he]; exact spec_set_cxr_value p S⟩

/-- `MAP_C[AD]+R code`, for code that only rewrites the element it is given (`code (x : T) = f x : T` for every `T`):
exactly the addressed component of the top element is replaced by its image -/
theorem map_cxr_value (p : Path) (hp : 1 ≤ p.length) (an : List String) (hA : (fieldAnnots an).length ≤ 1)
    (code : Mich) (ext : Ext) (f : Val → Val) (hc : Local (eval ext code) f) :
    ∃ m, expandMacro (mapName p) an [code] = .ok m ∧ ∀ (v : Val) (S : Stack), eval ext m (v :: S) =
      match mapPath p f v with
      | some v' => .ok (v' :: S)
      | none => .err := by
  obtain ⟨m, hm, he⟩ := map_cxr p hp an hA code ext
  exact ⟨m, hm, fun v S => by rw [he]; exact spec_map_cxr_value p _ f hc v S⟩

/-- what the code passed to `MAP_CAR` sees: the component on top of the rest of the stack (the pair is not below) -/
theorem map_car_sees (an : List String) (hA : (fieldAnnots an).length ≤ 1) (code : Mich) (ext : Ext) :
    ∃ m, expandMacro (mapName [.A]) an [code] = .ok m ∧ ∀ (a b : Val) (S : Stack),
      eval ext m (.pair a b :: S) = (eval ext code (a :: S)).bind fun T => pairStep (match T with
        | a' :: T' => a' :: b :: T'
        | [] => []) := by
  obtain ⟨m, hm, he⟩ := map_cxr [.A] (by simp) an hA code ext
  exact ⟨m, hm, fun a b S => by rw [he]; exact spec_map_car_sees _ a b S⟩

/-- what the code passed to `MAP_CDR` sees: the component on top of the *original pair* -/
theorem map_cdr_sees (an : List String) (hA : (fieldAnnots an).length ≤ 1) (code : Mich) (ext : Ext) :
    ∃ m, expandMacro (mapName [.D]) an [code] = .ok m ∧ ∀ (a b : Val) (S : Stack),
      eval ext m (.pair a b :: S) = (eval ext code (b :: .pair a b :: S)).bind (swapStep ⨾ carStep ⨾ pairStep) := by
  obtain ⟨m, hm, he⟩ := map_cxr [.D] (by simp) an hA code ext
  exact ⟨m, hm, fun a b S => by rw [he]; exact spec_map_cdr_sees _ a b S⟩

/-- `P…R`: the leaves are taken from the top of the stack, left to right, and replaced by the nested pair of the
tree's shape; a stack with fewer elements than leaves is an error -/
theorem pair_tree_value (l r : PairTree) (h3 : 3 ≤ (PairTree.node l r).leaves) (an : List String) (ext : Ext) :
    ∃ m, expandMacro (pairName (.node l r)) an [] = .ok m ∧ ∀ S : Stack, eval ext m S =
      match treeVal? (.node l r) S with
      | some (v, S') => .ok (v :: S')
      | none => .err := by
  obtain ⟨m, hm, he⟩ := pair_tree l r h3 an ext
  exact ⟨m, hm, fun S => by rw [he]; exact spec_pair_tree_value l r S⟩

/-- `UNP…R`: the top element must be a nested pair of the tree's shape and is replaced by its leaves -/
theorem unpair_tree_value (l r : PairTree) (h3 : 3 ≤ (PairTree.node l r).leaves) (an : List String) (ext : Ext) :
    ∃ m, expandMacro (unpairName (.node l r)) an [] = .ok m ∧ ∀ S : Stack, eval ext m S = match S with
      | v :: S' => (match flatten? (.node l r) v with
        | some ls => .ok (ls ++ S')
        | none => .err)
      | [] => .err := by
  obtain ⟨m, hm, he⟩ := unpair_tree l r h3 an ext
  exact ⟨m, hm, fun S => by rw [he]; exact spec_unpair_tree_value l r S⟩

/-! ### the name grammar -/

/-- the dispatch accepts exactly the names of the reference macro set: for every string without a newline,
`expand_macro` accepts it as a macro (it is not a primitive, and the expansion succeeds without annotations for 0, 1 or
2 code arguments) iff it is a name of the reference grammar — `CMP/IF/IFCMP/ASSERT_/ASSERT_CMP{op}`, the fixed names,
`DII+P`, `DUU+P`, a well-formed `P…R`/`UNP…R` tree with ≥ 3 leaves, `C[AD]{2,}R`, `SET_C[AD]+R`, `MAP_C[AD]+R`.
(Python's `$` also matches before one final newline; the lexer never produces such a name.) -/
theorem macro_name_grammar (s : List Char) (hnl : '\n' ∉ s) : acceptsName s = true ↔ MacroName s := by
  constructor
  · intro h
    unfold acceptsName at h
    rw [primTags_eq] at h
    simp only [Bool.and_eq_true, Bool.not_eq_true', List.any_eq_true] at h
    obtain ⟨ht, k, _, hk⟩ := h
    cases he : expandMacro s [] (List.replicate k (.seq [])) with
    | error e => rw [he] at hk; cases hk
    | ok m => exact macroName_of_accepts s hnl ht _ m he
  · intro h
    rcases h with ⟨op, hop, h⟩ | h | ⟨n, hn, h⟩ | ⟨t, h3, h⟩ | ⟨p, hp, h⟩ | ⟨p, hp, h⟩
    · simp only [ops, List.mem_cons, List.not_mem_nil, or_false] at hop
      rcases h with h | h | h | h | h <;> subst h <;>
        rcases hop with rfl | rfl | rfl | rfl | rfl | rfl <;> rfl
    · simp only [fixedNames, List.mem_cons, List.not_mem_nil, or_false] at h
      rcases h with rfl | rfl | rfl | rfl | rfl | rfl | rfl | rfl <;> rfl
    · rcases h with rfl | rfl
      · obtain ⟨m, hm, _⟩ := dixp n hn (.seq []) (fun _ _ _ _ => .err)
        exact accepts_of _ (not_tag_of_dispatch (dispatch_dip n hn)) 1 (by simp) m hm
      · obtain ⟨m, hm, _⟩ := duxp n hn [] (fun _ _ _ _ => .err)
        exact accepts_of _ (not_tag_of_dispatch (dispatch_dup n hn)) 0 (by simp) m hm
    · cases t with
      | leaf => simp [PairTree.leaves] at h3
      | node l r =>
        rcases h with rfl | rfl
        · obtain ⟨m, hm, _⟩ := pair_tree l r h3 [] (fun _ _ _ _ => .err)
          exact accepts_of _ (not_tag_of_dispatch (dispatch_pair l r h3)) 0 (by simp) m hm
        · obtain ⟨m, hm, _⟩ := unpair_tree l r h3 [] (fun _ _ _ _ => .err)
          exact accepts_of _ (not_tag_of_dispatch (dispatch_unpair l r h3)) 0 (by simp) m hm
    · subst h
      obtain ⟨m, hm, _⟩ := cxr p hp [] (fun _ _ _ _ => .err)
      match p, hp with
      | .A :: e :: q, _ => exact accepts_of _ (not_tag_of_dispatch (dispatch_cadr_A (e :: q) (by simp))) 0 (by simp) m hm
      | .D :: e :: q, _ => exact accepts_of _ (not_tag_of_dispatch (dispatch_cadr_D (e :: q) (by simp))) 0 (by simp) m hm
    · rcases h with rfl | rfl
      · obtain ⟨m, hm, _⟩ := set_cxr p hp [] (fun _ _ _ _ => .err)
        match p, hp with
        | [.A], _ => exact accepts_of _ (not_tag_of_dispatch dispatch_SET_CAR) 0 (by simp) m hm
        | [.D], _ => exact accepts_of _ (not_tag_of_dispatch dispatch_SET_CDR) 0 (by simp) m hm
        | .A :: e :: q, _ => exact accepts_of _ (not_tag_of_dispatch (dispatch_set_A (e :: q) (by simp))) 0 (by simp) m hm
        | .D :: e :: q, _ => exact accepts_of _ (not_tag_of_dispatch (dispatch_set_D (e :: q) (by simp))) 0 (by simp) m hm
      · obtain ⟨m, hm, _⟩ := map_cxr p hp [] (by simp [fieldAnnots]) (.seq []) (fun _ _ _ _ => .err)
        match p, hp with
        | [.A], _ => exact accepts_of _ (not_tag_of_dispatch dispatch_MAP_CAR) 1 (by simp) m hm
        | [.D], _ => exact accepts_of _ (not_tag_of_dispatch dispatch_MAP_CDR) 1 (by simp) m hm
        | .A :: e :: q, _ => exact accepts_of _ (not_tag_of_dispatch (dispatch_map_A (e :: q) (by simp))) 1 (by simp) m hm
        | .D :: e :: q, _ => exact accepts_of _ (not_tag_of_dispatch (dispatch_map_D (e :: q) (by simp))) 1 (by simp) m hm

/-- the family the pinned tree got wrong, as a recogniser equality: a name starting with `P` is accepted as a macro iff
it is the name of a pair tree with at least three leaves (left leaves `A`, right leaves `I`, nothing but the final `R`
after the tree) -/
theorem pair_names (t : List Char) (hnl : '\n' ∉ ('P' :: t)) :
    acceptsName ('P' :: t) = true ↔ ∃ tr : PairTree, 3 ≤ tr.leaves ∧ 'P' :: t = pairName tr := by
  rw [macro_name_grammar _ hnl]
  constructor
  · intro h
    rcases h with ⟨op, _, h⟩ | h | ⟨n, _, h⟩ | ⟨tr, h3, h⟩ | ⟨p, _, h⟩ | ⟨p, _, h⟩
    · rcases h with h | h | h | h | h <;> simp at h
    · simp [fixedNames] at h
    · rcases h with h | h <;> simp [dipName, dupName] at h
    · rcases h with h | h
      · exact ⟨tr, h3, h⟩
      · simp [unpairName] at h
    · simp [cadrName] at h
    · rcases h with h | h <;> simp [setName, mapName] at h
  · rintro ⟨tr, h3, h⟩
    exact Or.inr (Or.inr (Or.inr (Or.inl ⟨tr, h3, Or.inl h⟩)))

/-- in particular the ill-formed tree names the pinned code expanded to a bare `PAIR` are not accepted -/
example : acceptsName "PAAIR".toList = false := by rfl
example : acceptsName "PAPAIR".toList = true := by rfl
example : ¬ MacroName "PAIAIR".toList := by
  rw [← macro_name_grammar _ (by decide)]
  decide

end C19
