import PytezosModel.Michelson.PyObj
/-! C12 — Python-object conversion of contract data round-trips (work in progress: counter-examples first). -/
namespace C12
open Impl.PyConv Spec.PyConv

def natT : Ty := .scalar {} .nat
def cfgNow : Cfg := ⟨true, true⟩

/-- `option (option nat)`: `Some None` and `None` have the same Python object, so `Some None` comes back as `None` -/
theorem option_option_counterexample :
    okPy (toPy cfgNow false (.option {} (.option {} natT)) (.some .none)) .none = true
    ∧ okVal (ofPy cfgNow (.option {} (.option {} natT)) .none) .none = true := by
  decide +kernel

/-- `pair (nat %nat_1) nat`: the generated name of the second component is `nat_1` too -/
theorem name_collision_counterexample :
    (pairLayout (.pair {} (.scalar { field := some "nat_1" } .nat) natT)).pathToKey = some [([false], "nat_1"), ([true], "nat_1")]
    ∧ okPy (toPy cfgNow false (.pair {} (.scalar { field := some "nat_1" } .nat) natT) (.pair (.int 1) (.int 2)))
        (.record [("nat_1", .int 2)]) = true
    ∧ isErr (ofPy cfgNow (.pair {} (.scalar { field := some "nat_1" } .nat) natT) (.record [("nat_1", .int 2)])) .key = true := by
  decide +kernel

end C12
