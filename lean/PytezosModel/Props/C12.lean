import PytezosModel.Proofs.C12
import PytezosModel.Proofs.C11Civil
/-! C12 — Python-object conversion of contract data round-trips.

Mirror: `Impl.PyConv` (`get_type_layout`, `wrap_pair`, `wrap_or`, `iter_type_args`, `iter_values`, every
`to_python_object` / `from_python_object` of the modelled types, `ContractData.decode` / `encode`), instantiated with
the configuration `cfg?` the translator reads from the source now (is the `Unit` sentinel hashable, is
`PairType.__lt__` lexicographic; there is a configuration only if the name generator of `get_type_layout` has the
repaired shape the mirror follows).

FULL statement (properties.jsonl): for every storage or parameter type τ and every value v of it
`from_python_object(to_python_object(v)) = v`; the contract-level encode and decode are mutual inverses; the field
names used in Python objects are unique and stable for a given type.

The full statement is FALSE on the code in one class only — see `option_option_counterexample` (inherent to the
documented mapping: `Some None` and `None` are both Python `None`).  What is proved is the round trip under the
decidable guard `PyInvertible c τ` (`Spec.PyConv.inv`), which excludes exactly:
* `option (option _)` anywhere in the type (the counter-example above; open finding, not repairable without changing
  the documented mapping);
* a list / set / map / big_map in key position (set element, map / big_map key) — not a type at all: Michelson
  rejects it, `to_python_object(comparable=True)` asserts;
* only while the source has the corresponding defect (both vacuous for the configuration `source_shape` pins): key /
  element types whose object contains `Unit` (no `__hash__`) and sets of pairs (`PairType.__lt__` not lexicographic).
Field names are NOT part of the guard any more: `get_type_layout` (repaired, fixes/C12-1) makes every generated
`prim_i` name different from all declared names, so `field_names_unique` holds for EVERY type with no hypothesis, and
the former counter-examples `pair (nat %nat_1) nat`, `or (nat %string_1) string` now convert back
(`name_collision_repaired`, `name_collision_or_repaired`).  `source_shape` does not close when the name generator has
the old shape again (`Generated.C12.generatedNamesFresh = some false`).  No depth bound anywhere: the proofs are by
induction over the type (and over the lists inside values).

Extension (leaves of the domain): the type universe of every theorem below now has `address`, `key_hash`, `key`,
`signature`, `chain_id`, `contract p`, `bls12_381_fr / g1 / g2` and `never` as leaves, anywhere (also as set elements /
map keys where Michelson allows it).  The statements are unchanged; `c : Cfg` is now the source flags (`c.toFlags`,
pinned by `hc`) PLUS the parameters this property does not own — `c.valid` (`is_address`, `is_pkh`, `is_public_key`,
`is_sig`, `is_chain_id`: base58, C09), `c.raw` (`base58_decode`), `c.originated0` — which are universally
quantified and need NO law: a value of a base58 leaf is by definition (`HasTy`) a text `from_value` keeps unchanged,
and `to_python_object` returns that text.  The guard grows by one genuine clause: `contract` and the three bls12_381
types in key position (not Michelson types there; `to_python_object(comparable=True)` asserts).  No information is lost
on any new leaf (a signature keeps its text: the prefix only disappears in the optimized MICHELINE form, which is
C11's `binNorm`, not this conversion).  The alternative INPUT forms (`from_python_object` only; they are not in the
image of `to_python_object`) have their own theorems: `timestamp_text_meaning`, `address_default_stripped`,
`mutez_decimal_exact`, and kernel-evaluated examples for hex text and the 28-digit context rounding.

Extensions 2 and 3 add two hypotheses to the round-trip theorems, and nothing else: `ht : c.tryUnpack = false` — the
call the property is about is `to_python_object()`; with `try_unpack=True` the conversion is a display mode that is
inherently not invertible (`try_unpack_counterexample`) — and `hl : CodeLaw c` — the Michelson source text of a lambda
body reads back as that body, C18's property, taken as a parameter with its law (the only law assumed).  `ticket t`
(↔ `(ticketer, contents, amount)`) and `lambda` (↔ source text) are ordinary cases of the induction. -/
namespace C12
open Impl.PyConv Spec.PyConv

/-- `BLS12_381_FrType.modulus` as the mirror was made for -/
def frModulus : Nat := 0x73EDA753299D7D483339D80809A1D80553BDA402FFFE5BFEFFFFFFFF00000001

/-- what the translator has to find in the source for the theorems below to apply -/
theorem source_shape : cfg? = some ⟨true, true, frModulus⟩ := by decide

/-- `c : Cfg` is the flags read from the source (`c.toFlags`, tied to the source by `hc` in every theorem) plus the
parameters `valid` / `raw` / `originated0`, which are universally quantified and need no law -/
theorem cfg_unit {c : Cfg} (hc : cfg? = some c.toFlags) : c.unitHashable = true := by
  rw [source_shape] at hc
  have := congrArg (fun o => o.map Flags.unitHashable) hc
  simpa using this.symm

/-- the round trip, all invertible types, all values; `…_partial`: the full statement (no guard) is false, see the
counter-examples below -/
theorem ofPy_toPy_partial (c : Cfg) (hc : cfg? = some c.toFlags) (ht : c.tryUnpack = false)
    (hl : CodeLaw c) (τ : Ty) (v : Val)
    (hτ : PyInvertible c τ) (hv : HasTy c τ v) :
    (toPy c false τ v).bind (ofPy c τ) = .ok v := by
  obtain ⟨py, h1, h2, _, _⟩ := (roundtrip_all c (cfg_unit hc) ht hl τ).1 false v hτ hv
  rw [h1]; exact h2

/-- the same for the rendering of map keys / set elements (`comparable=True`: pairs as tuples, unions as
`(name, value)`), and the object is hashable -/
theorem ofPy_toPy_key_partial (c : Cfg) (hc : cfg? = some c.toFlags) (ht : c.tryUnpack = false)
    (hl : CodeLaw c) (τ : Ty) (v : Val)
    (hτ : inv c true τ = true) (hv : HasTy c τ v) :
    ∃ py, toPy c true τ v = .ok py ∧ ofPy c τ py = .ok v ∧ py.hashable c = true := by
  obtain ⟨py, h1, h2, h3, _⟩ := (roundtrip_all c (cfg_unit hc) ht hl τ).1 true v hτ hv
  exact ⟨py, h1, h2, h3 rfl⟩

/-- different values have different Python objects -/
theorem toPy_injective_partial (c : Cfg) (hc : cfg? = some c.toFlags) (ht : c.tryUnpack = false)
    (hl : CodeLaw c) (τ : Ty) (u v : Val)
    (hτ : PyInvertible c τ) (hu : HasTy c τ u) (hv : HasTy c τ v) (h : toPy c false τ u = toPy c false τ v) : u = v := by
  have h1 := ofPy_toPy_partial c hc ht hl τ u hτ hu
  have h2 := ofPy_toPy_partial c hc ht hl τ v hτ hv
  rw [h] at h1
  rw [h1] at h2
  exact Except.ok.inj h2

/-- field names are unique: in the layout of ANY pair / union node no name occurs twice — no guard: declared names that
look like generated ones (`pair (nat %nat_1) nat`), duplicates, empty names, `:type` names, any nesting -/
theorem field_names_unique (τ : Ty) :
    match τ with
    | .pair a l r => ∀ p2k, (pairLayout (.pair a l r)).pathToKey = some p2k → (p2k.map (·.2)).Nodup
    | .or a l r => ∀ p2k, (orLayout (.or a l r)).pathToKey = some p2k → (p2k.map (·.2)).Nodup
    | _ => True := by
  cases τ with
  | pair a l r => exact fun p2k hp => getTypeLayout_names_nodup _ _ p2k hp
  | or a l r => exact fun p2k hp => getTypeLayout_names_nodup _ _ p2k hp
  | _ => trivial

/-- the same for `get_type_layout` itself, whatever the list of flattened arguments is -/
theorem layout_names_unique (flat : List (Path × Ty)) (inferNames : Bool) (p2k : List (Path × String))
    (h : (getTypeLayout flat inferNames).pathToKey = some p2k) : (p2k.map (·.2)).Nodup :=
  getTypeLayout_names_nodup flat inferNames p2k h

/-- the repair changes no name that was usable: when the names of the first loop (declared name at its first occurrence,
else `prim_i` — the names of the pinned tree) are already pairwise different, they are the names of the layout -/
theorem field_names_unchanged_without_collision (flat : List (Path × Ty)) (inferNames : Bool)
    (p2k : List (Path × String)) (h : (getTypeLayout flat inferNames).pathToKey = some p2k)
    (hn : ((layoutGo flat 0 []).map (·.2.1)).Nodup) :
    p2k = (layoutGo flat 0 []).map fun e => (e.1, e.2.1) := by
  rw [getTypeLayout_p2k flat inferNames p2k h]; exact layout_unchanged_of_nodup flat hn

/-- field names are stable: the layout is a function of the type alone (`pairLayout τ`), and the record every value
of a named pair converts to has exactly the layout's names as keys, in the layout's order -/
theorem layout_stable (c : Cfg) (hc : cfg? = some c.toFlags) (ht : c.tryUnpack = false)
    (hl : CodeLaw c) (a : Ann) (l r : Ty) (v : Val)
    (hτ : PyInvertible c (.pair a l r)) (hv : HasTy c (.pair a l r) v)
    (p2k : List (Path × String)) (hm : (pairLayout (.pair a l r)).pathToKey = some p2k) :
    ∃ fields, toPy c false (.pair a l r) v = .ok (.record fields) ∧ fields.map (·.1) = p2k.map (·.2) :=
  pair_record_keys c (cfg_unit hc) ht hl a l r v hτ hv p2k hm

/-- `ContractData.decode` / `encode` are mutual inverses (given that the Micheline coding of values round-trips,
which is C11): decoding the Micheline form of `v` gives an object whose encoding is that Micheline form again, and
decoding that gives the same object -/
theorem encode_decode_inverse {M : Type} (k : Codec M) (c : Cfg) (hc : cfg? = some c.toFlags) (ht : c.tryUnpack = false)
    (hl : CodeLaw c) (τ : Ty) (v : Val)
    (hk : k.ofMich τ (k.toMich τ v) = .ok v) (hτ : PyInvertible c τ) (hv : HasTy c τ v) :
    ∃ py, decode k c τ (k.toMich τ v) = .ok py
      ∧ encode k c τ py = .ok (k.toMich τ v)
      ∧ (encode k c τ py).bind (decode k c τ) = .ok py := by
  obtain ⟨py, h1, h2, _, _⟩ := (roundtrip_all c (cfg_unit hc) ht hl τ).1 false v hτ hv
  refine ⟨py, by simp [decode, hk, Except.bind, h1], by simp [encode, h2, Except.map], ?_⟩
  simp [encode, decode, h2, Except.map, Except.bind, hk, h1]

def natT : Ty := .scalar {} .nat
/-- the flags of the source as it is now; no text is a valid base58 value (the examples below that need one say so) -/
def cfgNow : Cfg := { unitHashable := true, pairLtLex := true, frModulus := frModulus }
def cfgNoHash : Cfg := { unitHashable := false, pairLtLex := true, frModulus := frModulus }

/-! ### the alternative input forms of the leaves (`from_python_object` only) -/

/-- a timestamp given as the RFC 3339 text of `t` (`format_timestamp`, any `t` of 0001-01-01 … 9999-12-31) is `t`:
`optimize_timestamp` is C11's proved `Civil.parseTimestamp` -/
theorem timestamp_text_meaning (c : Cfg) (a : Ann) (t : Int) (h0 : Civil.tsMin ≤ t) (h1 : t ≤ Civil.tsMax) :
    ∃ cs, Civil.fmtTimestamp true t = some cs
      ∧ ofPy c (.scalar a .timestamp) (.str (String.ofList cs)) = .ok (.int t) := by
  obtain ⟨cs, hs, hp⟩ := Civil.parse_fmt t h0 h1
  exact ⟨cs, hs, by simp [ofPy, scalarOfPy, optimizeTimestamp, String.toList_ofList, hp, Except.map]⟩

/-- `'<address>%default'` stands for `<address>` (whenever that is an address), for `address` and `contract p` -/
theorem address_default_stripped (c : Cfg) (a : Ann) (p : Ty) (addr : List Char) (hp : '%' ∉ addr)
    (hv : c.valid .address (String.ofList addr) = true) :
    ofPy c (.scalar a .address) (.str (String.ofList (addr ++ "%default".toList))) = .ok (.str (String.ofList addr))
    ∧ ofPy c (.contract a p) (.str (String.ofList (addr ++ "%default".toList))) = .ok (.str (String.ofList addr)) := by
  have hne : ∀ x ∈ addr, decide (x ≠ '%') = true := fun x hx => by
    simp only [ne_eq, decide_eq_true_eq]; rintro rfl; exact hp hx
  have h1 : (addr ++ "%default".toList).dropWhile (fun x => decide (x ≠ '%')) = "%default".toList := by
    rw [List.dropWhile_append_of_pos hne]; rfl
  have h2 : (addr ++ "%default".toList).takeWhile (fun x => decide (x ≠ '%')) = addr := by
    rw [List.takeWhile_append_of_pos hne]; simp [List.takeWhile]
  have hpart : partitionPct (String.ofList (addr ++ "%default".toList)) = (String.ofList addr, some "default") := by
    simp only [partitionPct, String.toList_ofList]
    rw [h1, h2]
    rfl
  have hfv : addressFromValue c (String.ofList (addr ++ "%default".toList)) = .ok (String.ofList addr) := by
    unfold addressFromValue
    rw [hpart]
    simp only [hv, if_true]
  constructor <;> simp only [ofPy, scalarOfPy, hfv, Except.map]

/-- an amount given as a `Decimal` with at most 22 significant digits (every amount below 2^63 mutez written with at
most 6 decimals has at most 19) is its exact value in mutez, truncated toward zero — the 28-digit context plays no
role there -/
theorem mutez_decimal_exact (neg : Bool) (coef : Nat) (exp : Int) (h : coef < 10 ^ 22) :
    mutezOfDec (.fin neg coef exp) = .ok (decToInt neg (coef * 1000000) exp) := by
  have hd : numDigits (coef * 1000000) ≤ 28 := by
    unfold numDigits
    have : coef * 1000000 < 10 ^ 28 := by omega
    exact (Nat.length_toDigits_le_iff (b := 10) (by omega) (by omega)).mpr this
  simp [mutezOfDec, ctxRound, hd]

/-- text and `Decimal` forms of mutez, hex text of bytes / bls12_381_fr, kernel-evaluated; among them the one place
where the 28-digit context of `decimal` shows: 31 nines after the point are rounded UP to one tez before `int(·)` -/
theorem input_forms_examples :
    okVal (ofPy cfgNow (.scalar {} .mutez) (.str "1.5")) (.int 1500000) = true
    ∧ okVal (ofPy cfgNow (.scalar {} .mutez) (.str " 1e3 ")) (.int 1000000000) = true
    ∧ okVal (ofPy cfgNow (.scalar {} .mutez) (.decimal false 19 (-7))) (.int 1) = true
    ∧ okVal (ofPy cfgNow (.scalar {} .mutez) (.str "9223372036854.775807")) (.int 9223372036854775807) = true
    ∧ isErr (ofPy cfgNow (.scalar {} .mutez) (.str "9223372036854.775808")) .overflow = true
    ∧ isErr (ofPy cfgNow (.scalar {} .mutez) (.str "-1")) .assertion = true
    ∧ isErr (ofPy cfgNow (.scalar {} .mutez) (.str "NaN")) .assertion = true
    ∧ isErr (ofPy cfgNow (.scalar {} .mutez) (.str "Infinity")) .overflow = true
    ∧ okVal (ofPy cfgNow (.scalar {} .mutez) (.str "0.9999999999999999999999999999999")) (.int 1000000) = true
    ∧ okVal (ofPy cfgNow (.scalar {} .bytes) (.str "0x0aFF")) (.bytes [10, 255]) = true
    ∧ okVal (ofPy cfgNow (.scalar {} .bytes) (.str "0a ff")) (.bytes [10, 255]) = true
    ∧ isErr (ofPy cfgNow (.scalar {} .bytes) (.str "0X0a")) .assertion = true
    ∧ okVal (ofPy cfgNow (.scalar {} .blsFr) (.str "0x0100")) (.int 1) = true
    ∧ okVal (ofPy cfgNow (.scalar {} .blsFr) (.int (-1))) (.int (frModulus - 1)) = true
    ∧ okVal (ofPy cfgNow (.scalar {} .timestamp) (.str "1970-01-01T00:00:01Z")) (.int 1) = true
    ∧ okVal (ofPy cfgNow (.scalar {} .timestamp) (.str " 12 ")) (.int 12) = true := by
  decide +kernel

/-! ### `try_unpack=True`: a display mode, outside the round trip

`ht : c.tryUnpack = false` in the theorems above says which call they are about (`to_python_object()` as
`ContractData.decode` makes it).  With `try_unpack=True` every `bytes` leaf is shown as `blind_unpack(value)`; the
mirror `blindUnpack` has the whole decision (seven readings tried in order, by length and tag bytes) and takes the
base58 texts and the content of PACKed data as parameters. -/

/-- a configuration with `try_unpack=True` in which PACK "a" (`0x05 01 00000001 61`) unpacks to `'a'` -/
def cfgUnpack : Cfg :=
  { unitHashable := true, pairLtLex := true, frModulus := frModulus, tryUnpack := true
    b58 := fun pre pl => pre ++ ":" ++ toString pl.length
    unpackMich := fun d => if d = [1, 0, 0, 0, 1, 97] then some (.str "a") else none }

/-- the mode is neither invertible nor injective — inherent: the bytes `0x61` and the bytes of PACK "a" are both shown
as `'a'`, which `from_python_object` of `bytes` does not take back; a map with these two keys is shown with one -/
theorem try_unpack_counterexample :
    okPy (toPy cfgUnpack false (.scalar {} .bytes) (.bytes [97])) (.str "a") = true
    ∧ okPy (toPy cfgUnpack false (.scalar {} .bytes) (.bytes [5, 1, 0, 0, 0, 1, 97])) (.str "a") = true
    ∧ isErr (ofPy cfgUnpack (.scalar {} .bytes) (.str "a")) .assertion = true
    ∧ okPy (toPy cfgUnpack false (.map {} (.scalar {} .bytes) natT)
        (.map [(.bytes [5, 1, 0, 0, 0, 1, 97], .int 1), (.bytes [97], .int 2)])) (.dict [(.str "a", .int 2)]) = true := by
  decide +kernel

/-- every 4-byte value is shown as a chain id -/
theorem blindUnpack_four_bytes (c : Cfg) (d : List Nat) (h : d.length = 4) : blindUnpack c d = .str (c.b58 "Net" d) := by
  simp [blindUnpack, h]

/-- the bytes that stay bytes: no base58 reading fits, the value is not readable PACKed data and is not UTF-8 -/
theorem blindUnpack_stays_bytes (c : Cfg) (d : List Nat) (h4 : d.length ≠ 4) (ha : unforgeAddressPlan d = none)
    (hk : unforgeKeyPlan d = none) (h96 : d.length ≠ 96) (h64 : d.length ≠ 64)
    (hp : ∀ body, d = 5 :: body → c.unpackMich body = none) (hu : utf8Decode d = none) :
    blindUnpack c d = .bytes d := by
  unfold blindUnpack
  simp only [h4, ha, hk, h96, h64, if_false, hu]
  split
  · rename_i o ho
    split at ho
    · rename_i body; rw [hp body rfl] at ho; cases ho
    · cases ho
  · rfl

/-- the order of the readings, kernel-evaluated: 21 bytes with tag 0 → tz1 key hash; 22 bytes `01…00` → KT1; 33 bytes
with tag 0 → edpk; 64 bytes → sig; `0x05` alone (not readable) and `0xff` (not UTF-8) stay bytes; `0xc3a9` is `'é'` -/
theorem blindUnpack_examples :
    PyObj.beq (blindUnpack cfgUnpack (0 :: List.replicate 20 7)) (.str "tz1:20") = true
    ∧ PyObj.beq (blindUnpack cfgUnpack (1 :: List.replicate 20 7 ++ [0])) (.str "KT1:20") = true
    ∧ PyObj.beq (blindUnpack cfgUnpack (0 :: List.replicate 32 7)) (.str "edpk:32") = true
    ∧ PyObj.beq (blindUnpack cfgUnpack (List.replicate 64 7)) (.str "sig:64") = true
    ∧ PyObj.beq (blindUnpack cfgUnpack (List.replicate 96 200)) (.str "BLsig:96") = true
    ∧ PyObj.beq (blindUnpack cfgUnpack [5]) (.str "\x05") = true
    ∧ PyObj.beq (blindUnpack cfgUnpack [5, 3, 175]) (.bytes [5, 3, 175]) = true
    ∧ PyObj.beq (blindUnpack cfgUnpack [255]) (.bytes [255]) = true
    ∧ PyObj.beq (blindUnpack cfgUnpack [195, 169]) (.str "é") = true
    ∧ PyObj.beq (blindUnpack cfgUnpack [237, 160, 128]) (.bytes [237, 160, 128]) = true := by
  decide +kernel

/-! ### the excluded classes really fail (kernel-evaluated on the mirror; replayed on the real code by the check) -/


/-- `option (option nat)`: `Some None` and `None` have the same Python object, so `Some None` comes back as `None` -/
theorem option_option_counterexample :
    okPy (toPy cfgNow false (.option {} (.option {} natT)) (.some .none)) .none = true
    ∧ okVal (ofPy cfgNow (.option {} (.option {} natT)) .none) .none = true
    ∧ inv cfgNow false (.option {} (.option {} natT)) = false := by
  decide +kernel

/-! ### the former name-collision class: unique names and a round trip now -/

/-- `pair (nat %nat_1) nat` (pinned tree: names `nat_1`, `nat_1`, record `{'nat_1': 2}`, KeyError on the way back) -/
theorem name_collision_repaired :
    (pairLayout (.pair {} (.scalar { field := some "nat_1" } .nat) natT)).pathToKey = some [([false], "nat_1"), ([true], "nat_1_")]
    ∧ okPy (toPy cfgNow false (.pair {} (.scalar { field := some "nat_1" } .nat) natT) (.pair (.int 1) (.int 2)))
        (.record [("nat_1", .int 1), ("nat_1_", .int 2)]) = true
    ∧ okVal (ofPy cfgNow (.pair {} (.scalar { field := some "nat_1" } .nat) natT) (.record [("nat_1", .int 1), ("nat_1_", .int 2)]))
        (.pair (.int 1) (.int 2)) = true
    ∧ inv cfgNow false (.pair {} (.scalar { field := some "nat_1" } .nat) natT) = true := by
  decide +kernel

/-- the declared name comes AFTER the argument whose generated name it equals: `pair nat (nat %nat_0)`; and a declared
name that equals the first way out as well: `pair (nat %nat_1) (pair nat (nat %nat_1_))` -/
theorem name_collision_later_repaired :
    (pairLayout (.pair {} natT (.scalar { field := some "nat_0" } .nat))).pathToKey = some [([false], "nat_0_"), ([true], "nat_0")]
    ∧ (pairLayout (.pair {} (.scalar { field := some "nat_1" } .nat)
        (.pair {} natT (.scalar { field := some "nat_1_" } .nat)))).pathToKey
        = some [([false], "nat_1"), ([true, false], "nat_1__"), ([true, true], "nat_1_")] := by
  decide +kernel

/-- `or (nat %string_1) string` (pinned tree: `Left 1` rendered as `{'string_1': 1}` and decoded against the right branch) -/
theorem name_collision_or_repaired :
    (orLayout (.or {} (.scalar { field := some "string_1" } .nat) (.scalar {} .string))).pathToKey
        = some [([false], "string_1"), ([true], "string_1_")]
    ∧ okPy (toPy cfgNow false (.or {} (.scalar { field := some "string_1" } .nat) (.scalar {} .string)) (.left (.int 1)))
        (.record [("string_1", .int 1)]) = true
    ∧ okVal (ofPy cfgNow (.or {} (.scalar { field := some "string_1" } .nat) (.scalar {} .string)) (.record [("string_1", .int 1)]))
        (.left (.int 1)) = true
    ∧ okPy (toPy cfgNow false (.or {} (.scalar { field := some "string_1" } .nat) (.scalar {} .string)) (.right (.str "a")))
        (.record [("string_1_", .str "a")]) = true
    ∧ inv cfgNow false (.or {} (.scalar { field := some "string_1" } .nat) (.scalar {} .string)) = true := by
  decide +kernel

/-- what the source-dependent exclusions guard against: without `unit.__hash__` a set of units does not convert back -/
theorem unhashable_unit_counterexample :
    okPy (toPy cfgNoHash false (.set {} (.scalar {} .unit)) (.set [.unit])) (.list [.unit]) = true
    ∧ isErr (ofPy cfgNoHash (.set {} (.scalar {} .unit)) (.list [.unit])) .type = true
    ∧ inv cfgNoHash false (.set {} (.scalar {} .unit)) = false := by
  decide +kernel

/-- the one new clause of the guard: a `contract` / bls12_381 value in key position is refused on the way out -/
theorem not_comparable_counterexample :
    isErr (toPy cfgNow true (.scalar {} .blsFr) (.int 1)) .assertion = true
    ∧ inv cfgNow true (.scalar {} .blsFr) = false
    ∧ inv cfgNow false (.set {} (.contract {} natT)) = false
    ∧ inv cfgNow false (.map {} (.scalar {} .blsG1) natT) = false
    ∧ inv cfgNow false (.list {} (.contract {} natT)) = true := by
  decide +kernel

/-! ### ticket and lambda

`ticket t` ↔ `(ticketer, contents, amount)` with the contents in the key rendering (`comparable=True`); `lambda` ↔ its
Michelson source text.  Formatting / parsing source text is C18's: `c.codeText` / `c.codeOfText` are parameters and
the law `CodeLaw c` (the text of a body reads back as that body) is the hypothesis `hl` of the theorems above. -/

/-- a configuration in which `KT1A` is an address and the body `[{"prim":"DUP"}]` has the text `{ DUP }` -/
def cfgCode : Cfg :=
  { unitHashable := true, pairLtLex := true, frModulus := frModulus
    valid := fun d s => d == .address && (partitionPct s).1 == "KT1A"
    codeText := fun code => if code == "[{\"prim\":\"DUP\"}]" then "{ DUP }" else "{}"
    codeOfText := fun s => if s == "{ DUP }" then some "[{\"prim\":\"DUP\"}]" else if s == "{}" then some "[]" else none
    codeOk := fun code => code == "[{\"prim\":\"DUP\"}]" || code == "[]" }

example : CodeLaw cfgCode := by
  intro code h
  simp only [cfgCode, Bool.or_eq_true, beq_iff_eq] at h ⊢
  rcases h with rfl | rfl <;> decide

/-- the shape the pinned `TicketType.from_python_object` could not take back (it read the object as a value of
`pair address (pair t nat)`, whose layout flattens an unnamed pair `t`): `ticket (pair nat nat)` round-trips in the
repaired shape the mirror follows; a ticket is refused as a key -/
theorem ticket_of_pair_roundtrip :
    okPy (toPy cfgCode false (.ticket {} (.pair {} natT natT)) (.ticket "KT1A" (.pair (.int 1) (.int 2)) 10))
        (.tuple [.str "KT1A", .tuple [.int 1, .int 2], .int 10]) = true
    ∧ okVal (ofPy cfgCode (.ticket {} (.pair {} natT natT)) (.tuple [.str "KT1A", .tuple [.int 1, .int 2], .int 10]))
        (.ticket "KT1A" (.pair (.int 1) (.int 2)) 10) = true
    ∧ inv cfgCode false (.ticket {} (.pair {} natT natT)) = true
    ∧ inv cfgCode true (.ticket {} natT) = false
    ∧ isErr (ofPy cfgCode (.ticket {} natT) (.tuple [.str "KT1A", .int 1, .int (-1)])) .assertion = true
    ∧ isErr (ofPy cfgCode (.ticket {} natT) (.tuple [.str "tz1B", .int 1, .int 1])) .assertion = true
    ∧ isErr (ofPy cfgCode (.ticket {} natT) (.tuple [.str "KT1A", .int 1])) .assertion = true := by
  decide +kernel

def vaultT : Ty :=
  .pair {} (.list { field := some "tickets" } (.ticket {} (.or {} (.scalar { field := some "ft" } .nat) (.scalar { field := some "nft" } .bytes))))
    (.lambda { field := some "hook" } natT natT)
def vaultV : Val := .pair (.list [.ticket "KT1A%mint" (.left (.int 7)) 3, .ticket "KT1A" (.right (.bytes [1])) 0]) (.lambda "[{\"prim\":\"DUP\"}]")

example : PyInvertible cfgCode vaultT := by decide +kernel
example : okPy (toPy cfgCode false vaultT vaultV)
    (.record [("tickets", .list [.tuple [.str "KT1A%mint", .tuple [.str "ft", .int 7], .int 3],
                                 .tuple [.str "KT1A", .tuple [.str "nft", .bytes [1]], .int 0]]),
              ("hook", .str "{ DUP }")]) = true := by decide +kernel
example : okVal ((toPy cfgCode false vaultT vaultV).bind (ofPy cfgCode vaultT)) vaultV = true := by decide +kernel

/-! ### non-vacuity for the base58 leaves: a configuration in which some texts are valid -/

/-- `KT1A` is an address (with any entrypoint), `tz1B` an address and a key hash, `edpkC` a key, `sigD` a signature,
`NetE` a chain id; `KT1A` is `get_originated_address(0)` -/
def cfgDemo : Cfg :=
  { unitHashable := true, pairLtLex := true, frModulus := frModulus
    valid := fun d s => match d with
      | .address => (partitionPct s).1 == "KT1A" || (partitionPct s).1 == "tz1B"
      | .keyHash => s == "tz1B"
      | .key => s == "edpkC"
      | .signature => s == "sigD"
      | .chainId => s == "NetE"
    raw := fun s => s.toList.map Char.toNat
    originated0 := "KT1A" }

def walletT : Ty :=
  .pair {} (.map { field := some "allow" } (.scalar {} .address) (.contract {} natT))
    (.pair {} (.set { field := some "keys" } (.pair {} (.scalar {} .key) (.scalar {} .keyHash)))
      (.pair {} (.option { field := some "sig" } (.scalar {} .signature))
        (.pair {} (.scalar { field := some "chain" } .chainId) (.scalar { field := some "r" } .blsFr))))

def walletV : Val :=
  .pair (.map [(.str "tz1B", .str "KT1A%mint"), (.str "KT1A", .str "KT1A"), (.str "KT1A%x", .str "tz1B")])
    (.pair (.set [.pair (.str "edpkC") (.str "tz1B")]) (.pair (.some (.str "sigD")) (.pair (.str "NetE") (.int 5))))

example : PyInvertible cfgDemo walletT := by decide +kernel
example : okPy (toPy cfgDemo false walletT walletV)
    (.record [("allow", .dict [(.str "tz1B", .str "KT1A%mint"), (.str "KT1A", .str "KT1A"), (.str "KT1A%x", .str "tz1B")]),
              ("keys", .list [.tuple [.str "edpkC", .str "tz1B"]]), ("sig", .str "sigD"), ("chain", .str "NetE"),
              ("r", .int 5)]) = true := by decide +kernel
example : okVal ((toPy cfgDemo false walletT walletV).bind (ofPy cfgDemo walletT)) walletV = true := by decide +kernel
-- the values above are values (`HasTy`): `from_value` keeps each text
example : okVal (ofPy cfgDemo (.scalar {} .address) (.str "KT1A%mint")) (.str "KT1A%mint") = true
    ∧ okVal (ofPy cfgDemo (.scalar {} .address) (.str "KT1A%default")) (.str "KT1A") = true
    ∧ isErr (ofPy cfgDemo (.scalar {} .keyHash) (.str "KT1A")) .assertion = true
    ∧ okVal (ofPy cfgDemo (.contract {} natT) .none) (.str "KT1A") = true
    ∧ isErr (ofPy cfgDemo (.scalar {} .address) (.bytes [75])) .type = true := by decide +kernel
-- a map given in another order comes back in `AddressType.__lt__`'s order (implicit < originated; then text, entrypoint)
example : okVal (ofPy cfgDemo (.map {} (.scalar {} .address) natT)
      (.dict [(.str "KT1A%x", .int 1), (.str "KT1A", .int 2), (.str "tz1B", .int 3)]))
    (.map [(.str "tz1B", .int 3), (.str "KT1A", .int 2), (.str "KT1A%x", .int 1)]) = true := by decide +kernel

/-! ### non-vacuity: an FA2-like storage with a named inner pair, a big_map literal, an enum and a composite map key -/
def storageT : Ty :=
  .pair {} (.bigMap { field := some "ledger" } (.pair {} (.scalar { field := some "owner" } .string) (.scalar {} .nat)) (.scalar {} .nat))
    (.pair {} (.pair { field := some "admin" } (.scalar { field := some "current" } .string) (.option { field := some "pending" } (.scalar {} .string)))
      (.or { field := some "state" } (.scalar { field := some "active" } .unit) (.scalar { field := some "paused" } .unit)))

def storageV : Val :=
  .pair (.bigMap [(.pair (.str "alice") (.int 0), .int 10), (.pair (.str "bob") (.int 1), .int 5)])
    (.pair (.pair (.str "alice") .none) (.right .unit))

example : PyInvertible cfgNow storageT := by decide +kernel
-- `field_names_unique` / `field_names_unchanged_without_collision`: a layout with names exists, the no-collision
-- hypothesis holds for the storage above (its names are the old ones) and fails for `pair (nat %nat_1) nat`
example : (pairLayout storageT).pathToKey = some [([false], "ledger"), ([true, false], "admin"), ([true, true], "state")] := by
  decide +kernel
example : ((layoutGo (pairArgs storageT) 0 []).map (·.2.1)).Nodup := by decide +kernel
example : ¬ ((layoutGo (pairArgs (.pair {} (.scalar { field := some "nat_1" } .nat) natT)) 0 []).map (·.2.1)).Nodup := by
  decide +kernel
example : okPy (toPy cfgNow false storageT storageV)
    (.record [("ledger", .dict [(.tuple [.str "alice", .int 0], .int 10), (.tuple [.str "bob", .int 1], .int 5)]),
              ("admin", .record [("current", .str "alice"), ("pending", .none)]), ("state", .str "paused")]) = true := by
  decide +kernel
example : okVal ((toPy cfgNow false storageT storageV).bind (ofPy cfgNow storageT)) storageV = true := by decide +kernel

end C12
