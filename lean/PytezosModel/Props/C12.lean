import PytezosModel.Proofs.C12
/-! C12 — Python-object conversion of contract data round-trips.

Mirror: `Impl.PyConv` (`get_type_layout`, `wrap_pair`, `wrap_or`, `iter_type_args`, `iter_values`, every
`to_python_object` / `from_python_object` of the modelled types, `ContractData.decode` / `encode`), instantiated with
the configuration `cfg?` the translator reads from the source now (is the `Unit` sentinel hashable, is
`PairType.__lt__` lexicographic; there is a configuration only if the name generator of `get_type_layout` has the
repaired shape the mirror follows).

FULL statement (properties.jsonl): for every storage or parameter type τ and every value v of it
`from_python_object(to_python_object(v)) = v`; the contract-level encode and decode are mutual inverses; the field
names used in Python objects are unique and stable for a given type.

The full statement is FALSE on the code in one class only — see `option_option_counterexample` (inherent to the
documented mapping: `Some None` and `None` are both Python `None`).  What is proved is the round trip under the
decidable guard `PyInvertible c τ` (`Spec.PyConv.inv`), which excludes exactly:
* `option (option _)` anywhere in the type (the counter-example above; open finding, not repairable without changing
  the documented mapping);
* a list / set / map / big_map in key position (set element, map / big_map key) — not a type at all: Michelson
  rejects it, `to_python_object(comparable=True)` asserts;
* only while the source has the corresponding defect (both vacuous for the configuration `source_shape` pins): key /
  element types whose object contains `Unit` (no `__hash__`) and sets of pairs (`PairType.__lt__` not lexicographic).
Field names are NOT part of the guard any more: `get_type_layout` (repaired, fixes/C12-1) makes every generated
`prim_i` name different from all declared names, so `field_names_unique` holds for EVERY type with no hypothesis, and
the former counter-examples `pair (nat %nat_1) nat`, `or (nat %string_1) string` now convert back
(`name_collision_repaired`, `name_collision_or_repaired`).  `source_shape` does not close when the name generator has
the old shape again (`Generated.C12.generatedNamesFresh = some false`).  No depth bound anywhere: the proofs are by
induction over the type (and over the lists inside values). -/
namespace C12
open Impl.PyConv Spec.PyConv

/-- what the translator has to find in the source for the theorems below to apply -/
theorem source_shape : cfg? = some ⟨true, true⟩ := by decide

theorem cfg_unit {c : Cfg} (hc : cfg? = some c) : c.unitHashable = true := by
  rw [source_shape] at hc; cases hc; rfl

/-- the round trip, all invertible types, all values; `…_partial`: the full statement (no guard) is false, see the
counter-examples below -/
theorem ofPy_toPy_partial (c : Cfg) (hc : cfg? = some c) (τ : Ty) (v : Val)
    (hτ : PyInvertible c τ) (hv : HasTy c τ v) :
    (toPy c false τ v).bind (ofPy c τ) = .ok v := by
  obtain ⟨py, h1, h2, _, _⟩ := (roundtrip_all c (cfg_unit hc) τ).1 false v hτ hv
  rw [h1]; exact h2

/-- the same for the rendering of map keys / set elements (`comparable=True`: pairs as tuples, unions as
`(name, value)`), and the object is hashable -/
theorem ofPy_toPy_key_partial (c : Cfg) (hc : cfg? = some c) (τ : Ty) (v : Val)
    (hτ : inv c true τ = true) (hv : HasTy c τ v) :
    ∃ py, toPy c true τ v = .ok py ∧ ofPy c τ py = .ok v ∧ py.hashable c = true := by
  obtain ⟨py, h1, h2, h3, _⟩ := (roundtrip_all c (cfg_unit hc) τ).1 true v hτ hv
  exact ⟨py, h1, h2, h3 rfl⟩

/-- different values have different Python objects -/
theorem toPy_injective_partial (c : Cfg) (hc : cfg? = some c) (τ : Ty) (u v : Val)
    (hτ : PyInvertible c τ) (hu : HasTy c τ u) (hv : HasTy c τ v) (h : toPy c false τ u = toPy c false τ v) : u = v := by
  have h1 := ofPy_toPy_partial c hc τ u hτ hu
  have h2 := ofPy_toPy_partial c hc τ v hτ hv
  rw [h] at h1
  rw [h1] at h2
  exact Except.ok.inj h2

/-- field names are unique: in the layout of ANY pair / union node no name occurs twice — no guard: declared names that
look like generated ones (`pair (nat %nat_1) nat`), duplicates, empty names, `:type` names, any nesting -/
theorem field_names_unique (τ : Ty) :
    match τ with
    | .pair a l r => ∀ p2k, (pairLayout (.pair a l r)).pathToKey = some p2k → (p2k.map (·.2)).Nodup
    | .or a l r => ∀ p2k, (orLayout (.or a l r)).pathToKey = some p2k → (p2k.map (·.2)).Nodup
    | _ => True := by
  cases τ with
  | pair a l r => exact fun p2k hp => getTypeLayout_names_nodup _ _ p2k hp
  | or a l r => exact fun p2k hp => getTypeLayout_names_nodup _ _ p2k hp
  | _ => trivial

/-- the same for `get_type_layout` itself, whatever the list of flattened arguments is -/
theorem layout_names_unique (flat : List (Path × Ty)) (inferNames : Bool) (p2k : List (Path × String))
    (h : (getTypeLayout flat inferNames).pathToKey = some p2k) : (p2k.map (·.2)).Nodup :=
  getTypeLayout_names_nodup flat inferNames p2k h

/-- the repair changes no name that was usable: when the names of the first loop (declared name at its first occurrence,
else `prim_i` — the names of the pinned tree) are already pairwise different, they are the names of the layout -/
theorem field_names_unchanged_without_collision (flat : List (Path × Ty)) (inferNames : Bool)
    (p2k : List (Path × String)) (h : (getTypeLayout flat inferNames).pathToKey = some p2k)
    (hn : ((layoutGo flat 0 []).map (·.2.1)).Nodup) :
    p2k = (layoutGo flat 0 []).map fun e => (e.1, e.2.1) := by
  rw [getTypeLayout_p2k flat inferNames p2k h]; exact layout_unchanged_of_nodup flat hn

/-- field names are stable: the layout is a function of the type alone (`pairLayout τ`), and the record every value
of a named pair converts to has exactly the layout's names as keys, in the layout's order -/
theorem layout_stable (c : Cfg) (hc : cfg? = some c) (a : Ann) (l r : Ty) (v : Val)
    (hτ : PyInvertible c (.pair a l r)) (hv : HasTy c (.pair a l r) v)
    (p2k : List (Path × String)) (hm : (pairLayout (.pair a l r)).pathToKey = some p2k) :
    ∃ fields, toPy c false (.pair a l r) v = .ok (.record fields) ∧ fields.map (·.1) = p2k.map (·.2) :=
  pair_record_keys c (cfg_unit hc) a l r v hτ hv p2k hm

/-- `ContractData.decode` / `encode` are mutual inverses (given that the Micheline coding of values round-trips,
which is C11): decoding the Micheline form of `v` gives an object whose encoding is that Micheline form again, and
decoding that gives the same object -/
theorem encode_decode_inverse {M : Type} (k : Codec M) (c : Cfg) (hc : cfg? = some c) (τ : Ty) (v : Val)
    (hk : k.ofMich τ (k.toMich τ v) = .ok v) (hτ : PyInvertible c τ) (hv : HasTy c τ v) :
    ∃ py, decode k c τ (k.toMich τ v) = .ok py
      ∧ encode k c τ py = .ok (k.toMich τ v)
      ∧ (encode k c τ py).bind (decode k c τ) = .ok py := by
  obtain ⟨py, h1, h2, _, _⟩ := (roundtrip_all c (cfg_unit hc) τ).1 false v hτ hv
  refine ⟨py, by simp [decode, hk, Except.bind, h1], by simp [encode, h2, Except.map], ?_⟩
  simp [encode, decode, h2, Except.map, Except.bind, hk, h1]

/-! ### the excluded classes really fail (kernel-evaluated on the mirror; replayed on the real code by the check) -/

def natT : Ty := .scalar {} .nat
def cfgNow : Cfg := ⟨true, true⟩

/-- `option (option nat)`: `Some None` and `None` have the same Python object, so `Some None` comes back as `None` -/
theorem option_option_counterexample :
    okPy (toPy cfgNow false (.option {} (.option {} natT)) (.some .none)) .none = true
    ∧ okVal (ofPy cfgNow (.option {} (.option {} natT)) .none) .none = true
    ∧ inv cfgNow false (.option {} (.option {} natT)) = false := by
  decide +kernel

/-! ### the former name-collision class: unique names and a round trip now -/

/-- `pair (nat %nat_1) nat` (pinned tree: names `nat_1`, `nat_1`, record `{'nat_1': 2}`, KeyError on the way back) -/
theorem name_collision_repaired :
    (pairLayout (.pair {} (.scalar { field := some "nat_1" } .nat) natT)).pathToKey = some [([false], "nat_1"), ([true], "nat_1_")]
    ∧ okPy (toPy cfgNow false (.pair {} (.scalar { field := some "nat_1" } .nat) natT) (.pair (.int 1) (.int 2)))
        (.record [("nat_1", .int 1), ("nat_1_", .int 2)]) = true
    ∧ okVal (ofPy cfgNow (.pair {} (.scalar { field := some "nat_1" } .nat) natT) (.record [("nat_1", .int 1), ("nat_1_", .int 2)]))
        (.pair (.int 1) (.int 2)) = true
    ∧ inv cfgNow false (.pair {} (.scalar { field := some "nat_1" } .nat) natT) = true := by
  decide +kernel

/-- the declared name comes AFTER the argument whose generated name it equals: `pair nat (nat %nat_0)`; and a declared
name that equals the first way out as well: `pair (nat %nat_1) (pair nat (nat %nat_1_))` -/
theorem name_collision_later_repaired :
    (pairLayout (.pair {} natT (.scalar { field := some "nat_0" } .nat))).pathToKey = some [([false], "nat_0_"), ([true], "nat_0")]
    ∧ (pairLayout (.pair {} (.scalar { field := some "nat_1" } .nat)
        (.pair {} natT (.scalar { field := some "nat_1_" } .nat)))).pathToKey
        = some [([false], "nat_1"), ([true, false], "nat_1__"), ([true, true], "nat_1_")] := by
  decide +kernel

/-- `or (nat %string_1) string` (pinned tree: `Left 1` rendered as `{'string_1': 1}` and decoded against the right branch) -/
theorem name_collision_or_repaired :
    (orLayout (.or {} (.scalar { field := some "string_1" } .nat) (.scalar {} .string))).pathToKey
        = some [([false], "string_1"), ([true], "string_1_")]
    ∧ okPy (toPy cfgNow false (.or {} (.scalar { field := some "string_1" } .nat) (.scalar {} .string)) (.left (.int 1)))
        (.record [("string_1", .int 1)]) = true
    ∧ okVal (ofPy cfgNow (.or {} (.scalar { field := some "string_1" } .nat) (.scalar {} .string)) (.record [("string_1", .int 1)]))
        (.left (.int 1)) = true
    ∧ okPy (toPy cfgNow false (.or {} (.scalar { field := some "string_1" } .nat) (.scalar {} .string)) (.right (.str "a")))
        (.record [("string_1_", .str "a")]) = true
    ∧ inv cfgNow false (.or {} (.scalar { field := some "string_1" } .nat) (.scalar {} .string)) = true := by
  decide +kernel

/-- what the source-dependent exclusions guard against: without `unit.__hash__` a set of units does not convert back -/
theorem unhashable_unit_counterexample :
    okPy (toPy ⟨false, true⟩ false (.set {} (.scalar {} .unit)) (.set [.unit])) (.list [.unit]) = true
    ∧ isErr (ofPy ⟨false, true⟩ (.set {} (.scalar {} .unit)) (.list [.unit])) .type = true
    ∧ inv ⟨false, true⟩ false (.set {} (.scalar {} .unit)) = false := by
  decide +kernel

/-! ### non-vacuity: an FA2-like storage with a named inner pair, a big_map literal, an enum and a composite map key -/
def storageT : Ty :=
  .pair {} (.bigMap { field := some "ledger" } (.pair {} (.scalar { field := some "owner" } .string) (.scalar {} .nat)) (.scalar {} .nat))
    (.pair {} (.pair { field := some "admin" } (.scalar { field := some "current" } .string) (.option { field := some "pending" } (.scalar {} .string)))
      (.or { field := some "state" } (.scalar { field := some "active" } .unit) (.scalar { field := some "paused" } .unit)))

def storageV : Val :=
  .pair (.bigMap [(.pair (.str "alice") (.int 0), .int 10), (.pair (.str "bob") (.int 1), .int 5)])
    (.pair (.pair (.str "alice") .none) (.right .unit))

example : PyInvertible cfgNow storageT := by decide +kernel
-- `field_names_unique` / `field_names_unchanged_without_collision`: a layout with names exists, the no-collision
-- hypothesis holds for the storage above (its names are the old ones) and fails for `pair (nat %nat_1) nat`
example : (pairLayout storageT).pathToKey = some [([false], "ledger"), ([true, false], "admin"), ([true, true], "state")] := by
  decide +kernel
example : ((layoutGo (pairArgs storageT) 0 []).map (·.2.1)).Nodup := by decide +kernel
example : ¬ ((layoutGo (pairArgs (.pair {} (.scalar { field := some "nat_1" } .nat) natT)) 0 []).map (·.2.1)).Nodup := by
  decide +kernel
example : okPy (toPy cfgNow false storageT storageV)
    (.record [("ledger", .dict [(.tuple [.str "alice", .int 0], .int 10), (.tuple [.str "bob", .int 1], .int 5)]),
              ("admin", .record [("current", .str "alice"), ("pending", .none)]), ("state", .str "paused")]) = true := by
  decide +kernel
example : okVal ((toPy cfgNow false storageT storageV).bind (ofPy cfgNow storageT)) storageV = true := by decide +kernel

end C12
