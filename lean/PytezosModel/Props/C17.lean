import PytezosModel.Michelson.Comb
import PytezosModel.Proofs.C17Comb
/-! C17 — type annotations do not change execution or serialization.

Full statement (properties.jsonl): adding, removing or renaming field and type annotations in the types a program
uses leaves its execution results, its failures and its packed bytes unchanged; only entrypoint names and Python-object
field names may depend on annotations.

The interpreter consults annotations at run time in exactly one family of places — the right-comb helpers of `PairType`
(`iter_comb`, `unpairn_comb`, and through them `access_comb`, `update_comb`, `to_micheline_value`) — so the obligation
is discharged there: the mirror `Impl.Comb.*` is instantiated with the flags the translator reads from the source *now*
(`chkIter`, `chkUnpairn`: is the `field_name or type_name` test present in the descend condition?), and every theorem
below is stated for that instance.  `strip` forgets the annotations of a runtime value; "for every re-annotation" is
`strip v = strip v'`.  Each helper is (1) shown to be a function of the annotation-free value for ALL inputs, in or out
of the reference's domain, and (2) shown to agree with the Michelson reference (`Spec.Comb`, written over annotation-free
values) wherever the reference is defined.  No bound on the size of values, on `n`, or on program length.

Not a theorem here (checked metamorphically on the real interpreter by harness/props/c17.py): annotation-independence
of the instructions outside the comb fragment, which never read `field_name` / `type_name` (translator + grep). -/
namespace C17
open Impl.Comb Spec.Comb

/-- the source under test has the annotation-blind helpers, GET n / UPDATE n test the index before asserting a pair
(the shape after fixes 794044f / 18f9cf1), and the other mirrored bodies are the recognised ones -/
theorem source_is_annotation_blind :
    Generated.C17.iterCombAnnotTest = some false ∧ Generated.C17.unpairnCombAnnotTest = some false
      ∧ Generated.C17.getnZeroIdentity = some true ∧ Generated.C17.updatenZeroReplaces = some true
      ∧ Generated.C17.helpersRecognised = true := by decide

/-- hence the mirror is instantiated with both annotation flags off … -/
theorem hI : chkIter = false := by decide
theorem hU : chkUnpairn = false := by decide
/-- … and with the index-first shape of GET n / UPDATE n -/
theorem hG : zeroGet = true := by decide
theorem hZ : zeroUpd = true := by decide

/-! ### `iter_comb` -/

/-- the leaves `iter_comb` yields do not depend on annotations (any value, any re-annotation, with or without nodes) -/
theorem iterComb_annot_free (v v' : CVal) (nodes : Bool) (h : strip v = strip v') :
    (iterComb chkIter nodes v).map strip = (iterComb chkIter nodes v').map strip := by
  rw [hI]
  have e : ∀ w, (iterComb false nodes w).map strip = (iterComb false nodes (erase w)).map strip := fun w => by
    rw [← iterComb_erase, map_strip_erase]
  rw [e v, e v', erase_congr h]

/-- … and are the leaves of the maximal right comb -/
theorem iterComb_eq_flatten (v : CVal) (hv : v.isPair = true) :
    (iterComb chkIter false v).map strip = flatten (strip v) := by
  rw [hI]; exact iterComb_strip v hv

/-! ### GET n -/

/-- `access_comb` is `GET n` of the reference on every pair and every `n` (both fail for the same `n`) -/
theorem accessComb_eq_getn (v : CVal) (hv : v.isPair = true) (n : Nat) :
    (accessComb chkIter v n).map strip = getn n (strip v) := by
  rw [hI]; exact accessComb_getn v n hv

theorem accessComb_annot_free (v v' : CVal) (n : Nat) (h : strip v = strip v') :
    (accessComb chkIter v n).map strip = (accessComb chkIter v' n).map strip := by
  rw [hI]
  have e : ∀ w, (accessComb false w n).map strip = (accessComb false (erase w) n).map strip := fun w => by
    rw [← accessComb_erase, Option.map_map]; congr 1; funext x; exact (strip_erase x).symm
  rw [e v, e v', erase_congr h]

/-! ### UPDATE n -/

/-- wherever `UPDATE n` of the reference is defined, the helper `update_comb` returns the same value.  The side condition
concerns the helper alone: `update_comb(0, e)` rebuilds `e` with `from_comb`, which needs two leaves; the instruction
UPDATE n does not call the helper for n = 0 (see `step_update0`, `step_refines_spec`, which carry no such condition) -/
theorem updateComb_eq_updaten (v e : CVal) (n : Nat) (r : SVal) (hv : v.isPair = true)
    (h0 : n = 0 → e.isPair = true) (h : updaten n (strip e) (strip v) = some r) :
    (updateComb chkIter v n e).map strip = some r := by
  rw [hI]; exact updateComb_spec v e n r hv h0 h

/-- for ALL values, elements and `n` (also where the reference is undefined) the result is annotation-independent -/
theorem updateComb_annot_free (v v' e e' : CVal) (n : Nat) (hv : strip v = strip v') (he : strip e = strip e') :
    (updateComb chkIter v n e).map strip = (updateComb chkIter v' n e').map strip := by
  rw [hI]
  have k : ∀ w x, (updateComb false w n x).map strip = (updateComb false (erase w) n (erase x)).map strip := fun w x => by
    rw [← updateComb_erase, Option.map_map]; congr 1; funext y; exact (strip_erase y).symm
  rw [k v e, k v' e', erase_congr hv, erase_congr he]

/-! ### UNPAIR n / PAIR n -/

/-- `UNPAIR n` (the instruction calls `unpairn_comb(n - 2)`): the reference's components wherever it is defined -/
theorem unpairn_eq_spec (v : CVal) (n : Nat) (rs : List SVal) (h : unpairn (n + 2) (strip v) = some rs) :
    (unpairnComb chkUnpairn n v).map strip = rs := by
  rw [hU]; exact unpairnComb_spec n v rs h

theorem unpairn_annot_free (v v' : CVal) (n : Nat) (h : strip v = strip v') :
    (unpairnComb chkUnpairn n v).map strip = (unpairnComb chkUnpairn n v').map strip := by
  rw [hU]
  have e : ∀ w, (unpairnComb false n w).map strip = (unpairnComb false n (erase w)).map strip := fun w => by
    rw [← unpairnComb_erase, map_strip_erase]
  rw [e v, e v', erase_congr h]

/-- `from_comb` (PAIR, PAIR n, and the rebuild step of UPDATE n) is `PAIR n` of the reference, failures included -/
theorem pairn_eq_spec (xs : List CVal) : (fromComb xs).map strip = pairn (xs.map strip) :=
  fromComb_strip xs

/-! ### the instructions on a stack -/

def toInstr : CombInstr → Instr
  | .getN n => .getN n
  | .updateN n => .updateN n
  | .pairN n => .pairN n
  | .unpairN n => .unpairN n

/-- `GET 0` is the identity on a stack whose top has ANY type: same value, same annotations -/
theorem step_get0 (v : CVal) (st : List CVal) :
    Impl.Comb.step chkIter chkUnpairn zeroGet zeroUpd (.getN 0) (v :: st) = some (v :: st) := by
  rw [hG]; exact step_getN_zero _ _ _ v st

/-- `UPDATE 0` replaces the second item by the top one whatever the two types are; the element keeps its own annotations -/
theorem step_update0 (e v : CVal) (st : List CVal) :
    Impl.Comb.step chkIter chkUnpairn zeroGet zeroUpd (.updateN 0) (e :: v :: st) = some (e :: st) := by
  rw [hZ]; exact step_updateN_zero _ _ _ e v st

/-- GET n as executed on a stack IS the reference `GET n`: every n, every value (pair or not), same result and same failures -/
theorem step_getN_eq_spec (n : Nat) (st : List CVal) :
    (Impl.Comb.step chkIter chkUnpairn zeroGet zeroUpd (.getN n) st).map (List.map strip)
      = Spec.Comb.step (.getN n) (st.map strip) := by
  rw [hI, hU, hG]
  cases st with
  | nil => rfl
  | cons v st => simp only [List.map_cons, Spec.Comb.step]; exact step_getN_eq _ n v st

/-- GET n / UPDATE n / PAIR n / UNPAIR n as executed on a stack (mirror of adt.py) refine the reference semantics:
whenever Michelson defines the result, pytezos computes that result (modulo annotations).  ALL instructions, ALL stacks, no
domain hypothesis: the former guard (`GET 0` / `UPDATE 0` wanted pairs) is gone with fixes 794044f / 18f9cf1.
(`UPDATE n`, n ≥ 1, with a non-pair new element needs no care: `update_comb` appends a non-pair element as one leaf.) -/
theorem step_refines_spec (i : CombInstr) (st : List CVal) (r : List SVal)
    (h : Spec.Comb.step i (st.map strip) = some r) :
    (Impl.Comb.step chkIter chkUnpairn zeroGet zeroUpd (toInstr i) st).map (List.map strip) = some r := by
  rw [hI, hU, hG, hZ]
  cases i with
  | getN n =>
    match st, h with
    | v :: st, h =>
      simp only [List.map_cons, Spec.Comb.step, Option.map_eq_some_iff] at h
      obtain ⟨x, hx, rfl⟩ := h
      exact step_getN_spec _ n v st x hx
  | updateN n =>
    match st, h with
    | e :: v :: st, h =>
      simp only [List.map_cons, Spec.Comb.step, Option.map_eq_some_iff] at h
      obtain ⟨x, hx, rfl⟩ := h
      exact step_updateN_spec _ n e v st x hx
  | pairN n =>
    simp only [Spec.Comb.step, List.length_map] at h
    split at h
    · rename_i hn
      simp only [Option.map_eq_some_iff] at h
      obtain ⟨x, hx, rfl⟩ := h
      exact step_pairN_spec _ _ n st x hn hx
    · cases h
  | unpairN n =>
    match st, h with
    | v :: st, h =>
      simp only [List.map_cons, Spec.Comb.step, Option.map_eq_some_iff] at h
      obtain ⟨rs, hx, rfl⟩ := h
      exact step_unpairN_spec _ _ n v st rs hx

/-- any program over GET n / UPDATE n / PAIR n / UNPAIR n / PAIR / UNPAIR / CAR / CDR / SWAP / DUP / DROP / DIG / DUG:
final stack and failure depend only on the annotation-free initial stack (every program, every stack, every re-annotation,
well-typed or not) -/
theorem exec_annot_free (prog : List Instr) (st st' : List CVal) (h : st.map strip = st'.map strip) :
    (exec chkIter chkUnpairn zeroGet zeroUpd prog st).map (List.map strip)
      = (exec chkIter chkUnpairn zeroGet zeroUpd prog st').map (List.map strip) := by
  rw [hI, hU]
  exact blind_of_erase (exec false false zeroGet zeroUpd prog) (List.map erase) (exec_erase _ _ prog) (erase_list_congr h)

/-! ### PACK -/

/-- the optimized Micheline of every value is the reference layout (Octez `unparse_pair`: nested `Pair` up to three
leaves, a sequence from four on) of the annotation-free value — never `none`, never dependent on annotations -/
theorem pack_layout_annot_free (v : CVal) : toMich chkIter v = some (layout (strip v)) := by
  rw [hI]; exact toMich_layout v

theorem pack_reannotation (v v' : CVal) (h : strip v = strip v') : toMich chkIter v = toMich chkIter v' := by
  rw [pack_layout_annot_free, pack_layout_annot_free, h]

/-- `toMich`'s fused traversal is literally `[arg.to_micheline_value() for arg in self.iter_comb()]` (any flag) -/
theorem toMich_uses_iterComb (chk : Bool) (v : CVal) (hv : v.isPair = true) :
    combMich chk v = toMichList chk (iterComb chk false v) :=
  combMich_eq chk v hv

/-! ### non-vacuity and the recorded counter-examples of the annotation-testing variant -/

private def n (k : Int) : CVal := .atom {} (.int k)
private def nA (f : String) (k : Int) : CVal := .atom { field := some f } (.int k)
/-- `Pair 1 2 3 : pair (nat %a) (pair %x (nat %b) (nat %c))` -/
private def ex3 : CVal := .pair {} (nA "a" 1) (.pair { field := some "x" } (nA "b" 2) (nA "c" 3))
/-- `Pair 1 2 3 4 : pair nat (pair %x nat (pair nat nat))` -/
private def ex4 : CVal := .pair {} (n 1) (.pair { field := some "x" } (n 2) (.pair {} (n 3) (n 4)))

-- hypotheses of the theorems are satisfiable on annotated combs, and the conclusions are the expected values
example : (accessComb chkIter ex3 3).map strip = some (.atom (.int 2)) := by
  rw [accessComb_eq_getn ex3 rfl 3]; rfl
example : updaten 3 (strip (n 7)) (strip ex3) = some (.pair (.atom (.int 1)) (.pair (.atom (.int 7)) (.atom (.int 3)))) := rfl
example : unpairn 3 (strip ex3) = some [.atom (.int 1), .atom (.int 2), .atom (.int 3)] := rfl
example : layout (strip ex4) = .seq [.int 1, .int 2, .int 3, .int 4] := by
  simp [ex4, n, strip, layout, unparsePair, isPair, rightIsPair, Spec.Comb.mkPair]
example : layout (strip ex3) = .prim "Pair" [.int 1, .prim "Pair" [.int 2, .int 3] []] [] := by
  simp [ex3, nA, strip, layout, unparsePair, Spec.Comb.mkPair]
-- the defective variant (annotation test present) is really different: these are the pinned-tree defects
example : accessComb true ex3 3 = none := by decide
example : (unpairnComb true 1 ex3).length = 2 := by decide
example : (toMich true ex4).map (fun m => match m with | .seq _ => true | _ => false) = some false := by
  simp [ex4, n, toMich, combMich, descend, Annot.named, truthy, combArgs, Impl.Comb.mkPair]
example : Spec.Comb.step (.getN 3) [strip ex3] = some [.atom (.int 2)] := rfl
-- `step_refines_spec` is not vacuous at n = 0 on non-pairs: the reference is defined there, on annotated atoms too
example : Spec.Comb.step (.getN 0) [strip (nA "a" 5)] = some [.atom (.int 5)] := rfl
example : Spec.Comb.step (.updateN 0) [strip (nA "a" 7), strip (n 6)] = some [.atom (.int 7)] := rfl
example : Spec.Comb.step (.updateN 0) [strip (n 7), strip ex3] = some [.atom (.int 7)] := rfl
example : Spec.Comb.step (.updateN 2) [strip (n 7), strip ex3] = some [.pair (.atom (.int 1)) (.atom (.int 7))] := rfl
-- the shape before fixes 794044f / 18f9cf1 (pair assertion first, helper called for every n) really is different:
-- `PUSH int 5 ; GET 0`, `PUSH int 6 ; PUSH int 7 ; UPDATE 0` and `PUSH (pair …) … ; PUSH int 7 ; UPDATE 0` all failed
example : (Impl.Comb.step false false false true (.getN 0) [n 5]).isNone = true := rfl
example : (Impl.Comb.step false false true false (.updateN 0) [n 7, n 6]).isNone = true := rfl
example : (Impl.Comb.step false false true false (.updateN 0) [n 7, ex3]).isNone = true := rfl
example : (Impl.Comb.step false false true true (.updateN 0) [n 7, ex3]).isSome = true := rfl

end C17
