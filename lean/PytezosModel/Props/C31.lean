import PytezosModel.Proofs.C31
import PytezosModel.Proofs.C31Text
/-! C31 — operation list hash, operation list list hash and block payload hash are the Tezos Merkle root
(perfect binary tree over the hashed items, padded to a power of two with copies of the last leaf;
`H ""` for the empty list).  `H` (BLAKE2b-256 in the code) is an arbitrary function: the statements hold for
every hash, every list length and every item value.  The helper lemmas (loop invariant of `step`) are in
`Proofs/C31.lean`. -/
namespace C31
open Impl.Merkle Spec.Merkle Proofs.C31

/-- the index arithmetic read from the source is the one the proof was made for -/
theorem source_shape : Generated.C31.reduceShape = some P0 := by decide

/-- `_reduce_operation_hashes` on a non-empty list = root of the perfect tree over the padded leaves;
no bound on the length, no assumption on `H` -/
theorem reduce_eq_tree (H : Bytes → Bytes) (xs : List Bytes) (hxs : xs ≠ []) :
    reduce H xs = root H (padPow2 (xs.map H)) := by
  simp only [reduce, source_shape, Option.bind_some]
  exact reduceWith_spec H xs hxs

/-- the empty list hashes to the hash of the empty string -/
theorem reduce_nil (H : Bytes → Bytes) : reduce H [] = some (H []) := by
  simp [reduce, source_shape, reduceWith]

/-- both cases at once -/
theorem reduce_eq_merkle (H : Bytes → Bytes) (xs : List Bytes) : reduce H xs = merkle H xs := by
  unfold merkle
  split
  · next h => subst h; exact reduce_nil H
  · next h => exact reduce_eq_tree H xs h

/-- the in-place algorithm never reads or writes out of range and never runs out of recursion depth:
the result is always defined (and so is the reference root of the padded list) -/
theorem reduce_defined (H : Bytes → Bytes) (xs : List Bytes) : (reduce H xs).isSome = true := by
  by_cases h : xs = []
  · subst h; simp [reduce_nil]
  · have hL : xs.map H ≠ [] := by simpa using h
    rw [reduce_eq_tree H xs h, root_padPow2 H _ hL]; rfl

/-- `operation_list_hash` (between the base58 codecs) -/
theorem operation_list_hash (H : Bytes → Bytes) (ops : List Bytes) : opListHashRaw H ops = merkle H ops :=
  reduce_eq_merkle H ops

/-- `operation_list_list_hash`: Merkle root over the Merkle roots of the inner lists -/
theorem operation_list_list_hash (H : Bytes → Bytes) (opss : List (List Bytes)) :
    opListListHashRaw H opss = (opss.mapM (merkle H)).bind (merkle H) := by
  have e : opListHashRaw H = merkle H := funext (operation_list_hash H)
  have e2 : reduce H = merkle H := funext (reduce_eq_merkle H)
  simp only [opListListHashRaw, e, e2, Option.bind_eq_bind]

/-- big-endian 4-byte rendering of the round (`to_bytes(4, 'big')`), undefined from 2^32 on (OverflowError) -/
theorem round_bytes (v : Nat) : toBytesBE 4 v = if v < 4294967296 then some (be4 v) else none := by
  simp only [toBytesBE, be4]
  by_cases hv : v < 4294967296
  · have h0 : v / 256 / 256 / 256 / 256 = 0 := by omega
    have h1 : v / 256 / 256 / 256 % 256 = v / 16777216 % 256 := by omega
    have h2 : v / 256 / 256 % 256 = v / 65536 % 256 := by omega
    simp [h0, h1, h2, hv]
  · have h0 : ¬ v / 256 / 256 / 256 / 256 = 0 := by omega
    simp [h0, hv]

/-- `block_payload_hash`: hash of predecessor ‖ round (4 bytes, big endian) ‖ Merkle root of the operations -/
theorem block_payload_hash (H : Bytes → Bytes) (pred : Bytes) (round : Nat) (ops : List Bytes) (hr : round < 4294967296) :
    blockPayloadRaw H pred round ops = (merkle H ops).map fun r => H (pred ++ be4 round ++ r) := by
  simp only [blockPayloadRaw, Generated.C31.roundBytes, round_bytes, hr, if_true, reduce_eq_merkle, Option.bind_eq_bind,
    Option.bind_some]
  cases merkle H ops <;> rfl

/-! ### the public functions end to end: Base58Check strings in, `Lo…` / `LLo…` / `vh…` text out

`Impl.MerkleText` composes the array algorithm with the C09 mirror of `base58_decode` / `base58_encode`.  First for every
4-byte checksum function and every 32-byte hash function, then (`…_concrete`) for the executable double SHA-256 and
BLAKE2b-256 the driver runs, so that the statements are about the very text pytezos returns. -/
section Text
open Impl.MerkleText Impl.Encoding HashText

/-- closed facts (kernel evaluation over the regenerated C09 table) about the rows `Lo` / `LLo` / `vh` under which the
results are written: each is in the table, is the row `base58_encode` selects for 32 bytes and its prefix, satisfies its
numeral-range obligation and shares no (length, comparable prefix) with another row -/
theorem result_rows_ok : (rowFacts loRow && rowFacts lloRow && rowFacts vhRow) = true := by decide +kernel

/-- prefixes, digest size and round width as read from `hash.py` -/
theorem prefixes_read :
    (Generated.C31.opListPrefix, Generated.C31.opListListPrefix, Generated.C31.payloadPrefix, Generated.C31.digestSize,
      Generated.C31.roundBytes) = (some "Lo", some "LLo", some "vh", some 32, some 4) := by decide

theorem lo_facts : rowFacts loRow = true := by
  have := result_rows_ok; simp only [Bool.and_eq_true] at this; exact this.1.1
theorem llo_facts : rowFacts lloRow = true := by
  have := result_rows_ok; simp only [Bool.and_eq_true] at this; exact this.1.2
theorem vh_facts : rowFacts vhRow = true := by
  have := result_rows_ok; simp only [Bool.and_eq_true] at this; exact this.2

variable (cks : List Nat → List Nat) (hck : CksOk cks) (H : Bytes → Bytes) (hH : HashOk H)

include hck hH in
/-- `operation_list_hash`: when every item decodes, the call succeeds and returns the `Lo` text (52 characters) of the
Merkle root of the decoded items — the text that `base58_decode` maps back to that root -/
theorem operation_list_hash_text (ops : List (List Nat)) (raw : List Bytes) (hdec : decodeAll cks ops = .ok raw) :
    ∃ root s, merkle H raw = some root ∧ operationListHash cks H ops = .ok s ∧
      s.length = 52 ∧ [76, 111] <+: s ∧ base58Decode cks s = .ok root :=
  opListHash_text cks hck H hH lo_facts ops raw hdec

/-- … and when an item does not decode, the call raises that item's error -/
theorem operation_list_hash_error (ops : List (List Nat)) (e : Impl.MerkleText.Err) (hdec : decodeAll cks ops = .error e) :
    operationListHash cks H ops = .error e := by
  simp [operationListHash, Generated.C31.opListPrefix, withPrefix, hdec]

include hck hH in
/-- `operation_list_list_hash`: when every item of every group decodes, the call returns the `LLo` text (53 characters)
of the Merkle root over the Merkle roots of the groups (the inner `Lo` texts it builds and decodes again are transparent) -/
theorem operation_list_list_hash_text (opss : List (List (List Nat))) (rawss : List (List Bytes))
    (hdec : decodeGroups cks opss = some rawss) :
    ∃ root s, (rawss.mapM (merkle H)).bind (merkle H) = some root ∧ operationListListHash cks H opss = .ok s ∧
      s.length = 53 ∧ [76, 76, 111] <+: s ∧ base58Decode cks s = .ok root := by
  obtain ⟨los, roots, h1, h2, h3⟩ := listHashes_spec cks hck H hH lo_facts opss rawss hdec
  obtain ⟨root, s, hroot, hs, hl, hp, hd⟩ := root_text cks hck H hH lloRow llo_facts rfl roots
  refine ⟨root, s, by simp [h3, hroot], ?_, hl, hp, hd⟩
  have hs' : base58Encode cks root [76, 76, 111] = .ok s := hs
  simp [operationListListHash, Generated.C31.opListListPrefix, withPrefix, chars_LLo, h1, h2, reduceE,
    reduce_eq_merkle, hroot, liftB, hs']

include hck hH in
/-- `block_payload_hash`: predecessor and items decode, round below 2^32: the call returns the `vh` text (52 characters)
of `H (predecessor ‖ round on 4 bytes, big endian ‖ Merkle root of the items)` -/
theorem block_payload_hash_text (pred : List Nat) (p : Bytes) (round : Nat) (ops : List (List Nat)) (raw : List Bytes)
    (hp : base58Decode cks pred = .ok p) (hr : round < 4294967296) (hdec : decodeAll cks ops = .ok raw) :
    ∃ root s, merkle H raw = some root ∧ blockPayloadHash cks H pred round ops = .ok s ∧
      s.length = 52 ∧ [118, 104] <+: s ∧ base58Decode cks s = .ok (H (p ++ be4 round ++ root)) := by
  obtain ⟨root, hroot⟩ := merkle_defined H raw
  obtain ⟨s, hs, hl, hpre, hd⟩ := text_of_payload cks hck vhRow vh_facts (H (p ++ be4 round ++ root)) (hH.len _) (hH.bytes _)
  refine ⟨root, s, hroot, ?_, hl, hpre, hd⟩
  have hs' : base58Encode cks (H (p ++ (be4 round ++ root))) [118, 104] = .ok s := by
    rw [← List.append_assoc]; exact hs
  simp [blockPayloadHash, Generated.C31.payloadPrefix, Generated.C31.roundBytes, withPrefix, chars_vh, hp, round_bytes, hr,
    hdec, reduceE, reduce_eq_merkle, hroot, liftB, hs']

/-- … and a round of 2^32 or more raises OverflowError once the predecessor has been decoded -/
theorem block_payload_hash_overflow (pred : List Nat) (p : Bytes) (round : Nat) (ops : List (List Nat))
    (hp : base58Decode cks pred = .ok p) (hr : 4294967296 ≤ round) :
    blockPayloadHash cks H pred round ops = .error .overflow := by
  have : ¬ round < 4294967296 := by omega
  simp [blockPayloadHash, Generated.C31.payloadPrefix, Generated.C31.roundBytes, withPrefix, hp, round_bytes, this]

/-! #### with the executable hashes (what the driver runs and pytezos computes) -/

/-- `operation_list_hash` with double SHA-256 and BLAKE2b-256 -/
theorem list_hash_concrete (ops : List (List Nat)) (raw : List Bytes) (hdec : decodeAll RealHash.cks ops = .ok raw) :
    ∃ root s, merkle RealHash.blake raw = some root ∧ operationListHash RealHash.cks RealHash.blake ops = .ok s ∧
      s.length = 52 ∧ [76, 111] <+: s ∧ base58Decode RealHash.cks s = .ok root :=
  operation_list_hash_text RealHash.cks cks_ok RealHash.blake blake_ok ops raw hdec

/-- `operation_list_list_hash` with double SHA-256 and BLAKE2b-256 -/
theorem list_list_hash_concrete (opss : List (List (List Nat))) (rawss : List (List Bytes))
    (hdec : decodeGroups RealHash.cks opss = some rawss) :
    ∃ root s, (rawss.mapM (merkle RealHash.blake)).bind (merkle RealHash.blake) = some root ∧
      operationListListHash RealHash.cks RealHash.blake opss = .ok s ∧
      s.length = 53 ∧ [76, 76, 111] <+: s ∧ base58Decode RealHash.cks s = .ok root :=
  operation_list_list_hash_text RealHash.cks cks_ok RealHash.blake blake_ok opss rawss hdec

/-- `block_payload_hash` with double SHA-256 and BLAKE2b-256 -/
theorem payload_hash_concrete (pred : List Nat) (p : Bytes) (round : Nat) (ops : List (List Nat)) (raw : List Bytes)
    (hp : base58Decode RealHash.cks pred = .ok p) (hr : round < 4294967296) (hdec : decodeAll RealHash.cks ops = .ok raw) :
    ∃ root s, merkle RealHash.blake raw = some root ∧ blockPayloadHash RealHash.cks RealHash.blake pred round ops = .ok s ∧
      s.length = 52 ∧ [118, 104] <+: s ∧
      base58Decode RealHash.cks s = .ok (RealHash.blake (p ++ be4 round ++ root)) :=
  block_payload_hash_text RealHash.cks cks_ok RealHash.blake blake_ok pred p round ops raw hp hr hdec

end Text

-- non-vacuity: five items (padding to eight, the odd-count copy step is taken) with an injective toy "hash"
example : reduce (fun b => 7 :: b) [[1], [2], [3], [4], [5]] =
    some [7, 7, 7, 7, 1, 7, 2, 7, 7, 3, 7, 4, 7, 7, 7, 5, 7, 5, 7, 7, 5, 7, 5] := by
  rw [reduce_eq_tree _ _ (by simp)]; decide
-- the mirror also evaluates on its own (not through the theorem): three items, odd count at the leaf level
example : reduce (fun b => 7 :: b) [[1], [2], [3]] = some [7, 7, 7, 1, 7, 2, 7, 7, 3, 7, 3] := by decide
example : padPow2 [[1], [2], [3], [4], [5]] = [[1], [2], [3], [4], [5], [5], [5], [5]] := by decide
example : blockPayloadRaw (fun b => 7 :: b) [9] 258 [] = some [7, 9, 0, 0, 1, 2, 7] := by
  rw [block_payload_hash _ _ _ _ (by omega)]; decide

/-! known answers, evaluated by the kernel with the Lean BLAKE2b and SHA-256: the published RFC 7693 vector (digest
size 64), BLAKE2b-256 of the empty string, and recorded chain data of tests/unit_tests/test_crypto/test_hashes.py -/

-- RFC 7693 appendix A: BLAKE2b-512("abc") = ba80a53f 981c4d0d 6a2797b6 9f12f6e9 … d4009923 (same compression function, digest size 64)
set_option maxRecDepth 4000 in
example : Core.Hash.blake2b 64 [97, 98, 99] =
    [0xba, 0x80, 0xa5, 0x3f, 0x98, 0x1c, 0x4d, 0x0d, 0x6a, 0x27, 0x97, 0xb6, 0x9f, 0x12, 0xf6, 0xe9,
    0x4c, 0x21, 0x2f, 0x14, 0x68, 0x5a, 0xc4, 0xb7, 0x4b, 0x12, 0xbb, 0x6f, 0xdb, 0xff, 0xa2, 0xd1,
    0x7d, 0x87, 0xc5, 0x39, 0x2a, 0xab, 0x79, 0x2d, 0xc2, 0x52, 0xd5, 0xde, 0x45, 0x33, 0xcc, 0x95,
    0x18, 0xd3, 0x8a, 0xa8, 0xdb, 0xf1, 0x92, 0x5a, 0xb9, 0x23, 0x86, 0xed, 0xd4, 0x00, 0x99, 0x23] := by decide +kernel
-- BLAKE2b-256 of the empty string: 0e5751c026e543b2e8ab2eb06099daa1d1e5df47778f7787faab45cdf12fe3a8
set_option maxRecDepth 4000 in
example : RealHash.blake [] = [0x0e, 0x57, 0x51, 0xc0, 0x26, 0xe5, 0x43, 0xb2, 0xe8, 0xab, 0x2e, 0xb0, 0x60, 0x99, 0xda, 0xa1,
    0xd1, 0xe5, 0xdf, 0x47, 0x77, 0x8f, 0x77, 0x87, 0xfa, 0xab, 0x45, 0xcd, 0xf1, 0x2f, 0xe3, 0xa8] := by decide +kernel
-- ithacanet block 288671 (`test_payload_hash_tx`): predecessor `BL1whyhJA8fUF2ziNZj1MnHFQNLD6QTZTTHiG1oL8LSFwdJQ43z`,
-- round 0, one operation `ooa2pnEHguRveoV8WMYswpuSkyvxKTA9hyHDAsVgc9qnXtcDxd7`:
-- payload hash `vh29w4KZGVb3A9QyjzDetftoWiCfvRugwAiaQ5Z3FFScy7QzjmH9`
set_option maxRecDepth 4000 in
example : (Impl.MerkleText.blockPayloadHash RealHash.cks RealHash.blake
    [66, 76, 49, 119, 104, 121, 104, 74, 65, 56, 102, 85, 70, 50, 122, 105, 78, 90, 106, 49, 77, 110, 72, 70, 81,
    78, 76, 68, 54, 81, 84, 90, 84, 84, 72, 105, 71, 49, 111, 76, 56, 76, 83, 70, 119, 100, 74, 81, 52, 51, 122] 0
    [[111, 111, 97, 50, 112, 110, 69, 72, 103, 117, 82, 118, 101, 111, 86, 56, 87, 77, 89, 115, 119, 112, 117, 83,
    107, 121, 118, 120, 75, 84, 65, 57, 104, 121, 72, 68, 65, 115, 86, 103, 99, 57, 113, 110, 88, 116, 99, 68, 120,
    100, 55]]).toOption =
    some [118, 104, 50, 57, 119, 52, 75, 90, 71, 86, 98, 51, 65, 57, 81, 121, 106, 122, 68, 101, 116, 102, 116, 111, 87,
    105, 67, 102, 118, 82, 117, 103, 119, 65, 105, 97, 81, 53, 90, 51, 70, 70, 83, 99, 121, 55, 81, 122, 106, 109,
    72, 57] := by decide +kernel
-- a corrupted item makes the call fail with base58's checksum error (last character of the operation hash changed)
example : (match Impl.MerkleText.operationListHash RealHash.cks RealHash.blake
    [[111, 111, 97, 50, 112, 110, 69, 72, 103, 117, 82, 118, 101, 111, 86, 56, 87, 77, 89, 115, 119, 112, 117, 83,
    107, 121, 118, 120, 75, 84, 65, 57, 104, 121, 72, 68, 65, 115, 86, 103, 99, 57, 113, 110, 88, 116, 99, 68, 120,
    100, 56]] with
    | .error e => some e | .ok _ => none) = some (.b58 .invalidChecksum) := by decide +kernel

end C31
