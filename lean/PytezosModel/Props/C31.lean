import PytezosModel.Proofs.C31
/-! C31 — operation list hash, operation list list hash and block payload hash are the Tezos Merkle root
(perfect binary tree over the hashed items, padded to a power of two with copies of the last leaf;
`H ""` for the empty list).  `H` (BLAKE2b-256 in the code) is an arbitrary function: the statements hold for
every hash, every list length and every item value.  The helper lemmas (loop invariant of `step`) are in
`Proofs/C31.lean`. -/
namespace C31
open Impl.Merkle Spec.Merkle Proofs.C31

/-- the index arithmetic read from the source is the one the proof was made for -/
theorem source_shape : Generated.C31.reduceShape = some P0 := by decide

/-- `_reduce_operation_hashes` on a non-empty list = root of the perfect tree over the padded leaves;
no bound on the length, no assumption on `H` -/
theorem reduce_eq_tree (H : Bytes → Bytes) (xs : List Bytes) (hxs : xs ≠ []) :
    reduce H xs = root H (padPow2 (xs.map H)) := by
  simp only [reduce, source_shape, Option.bind_some]
  exact reduceWith_spec H xs hxs

/-- the empty list hashes to the hash of the empty string -/
theorem reduce_nil (H : Bytes → Bytes) : reduce H [] = some (H []) := by
  simp [reduce, source_shape, reduceWith]

/-- both cases at once -/
theorem reduce_eq_merkle (H : Bytes → Bytes) (xs : List Bytes) : reduce H xs = merkle H xs := by
  unfold merkle
  split
  · next h => subst h; exact reduce_nil H
  · next h => exact reduce_eq_tree H xs h

/-- the in-place algorithm never reads or writes out of range and never runs out of recursion depth:
the result is always defined (and so is the reference root of the padded list) -/
theorem reduce_defined (H : Bytes → Bytes) (xs : List Bytes) : (reduce H xs).isSome = true := by
  by_cases h : xs = []
  · subst h; simp [reduce_nil]
  · have hL : xs.map H ≠ [] := by simpa using h
    rw [reduce_eq_tree H xs h, root_padPow2 H _ hL]; rfl

/-- `operation_list_hash` (between the base58 codecs) -/
theorem operation_list_hash (H : Bytes → Bytes) (ops : List Bytes) : opListHashRaw H ops = merkle H ops :=
  reduce_eq_merkle H ops

/-- `operation_list_list_hash`: Merkle root over the Merkle roots of the inner lists -/
theorem operation_list_list_hash (H : Bytes → Bytes) (opss : List (List Bytes)) :
    opListListHashRaw H opss = (opss.mapM (merkle H)).bind (merkle H) := by
  have e : opListHashRaw H = merkle H := funext (operation_list_hash H)
  have e2 : reduce H = merkle H := funext (reduce_eq_merkle H)
  simp only [opListListHashRaw, e, e2, Option.bind_eq_bind]

/-- big-endian 4-byte rendering of the round (`to_bytes(4, 'big')`), undefined from 2^32 on (OverflowError) -/
theorem round_bytes (v : Nat) : toBytesBE 4 v = if v < 4294967296 then some (be4 v) else none := by
  simp only [toBytesBE, be4]
  by_cases hv : v < 4294967296
  · have h0 : v / 256 / 256 / 256 / 256 = 0 := by omega
    have h1 : v / 256 / 256 / 256 % 256 = v / 16777216 % 256 := by omega
    have h2 : v / 256 / 256 % 256 = v / 65536 % 256 := by omega
    simp [h0, h1, h2, hv]
  · have h0 : ¬ v / 256 / 256 / 256 / 256 = 0 := by omega
    simp [h0, hv]

/-- `block_payload_hash`: hash of predecessor ‖ round (4 bytes, big endian) ‖ Merkle root of the operations -/
theorem block_payload_hash (H : Bytes → Bytes) (pred : Bytes) (round : Nat) (ops : List Bytes) (hr : round < 4294967296) :
    blockPayloadRaw H pred round ops = (merkle H ops).map fun r => H (pred ++ be4 round ++ r) := by
  simp only [blockPayloadRaw, Generated.C31.roundBytes, round_bytes, hr, if_true, reduce_eq_merkle, Option.bind_eq_bind,
    Option.bind_some]
  cases merkle H ops <;> rfl

-- non-vacuity: five items (padding to eight, the odd-count copy step is taken) with an injective toy "hash"
example : reduce (fun b => 7 :: b) [[1], [2], [3], [4], [5]] =
    some [7, 7, 7, 7, 1, 7, 2, 7, 7, 3, 7, 4, 7, 7, 7, 5, 7, 5, 7, 7, 5, 7, 5] := by
  rw [reduce_eq_tree _ _ (by simp)]; decide
-- the mirror also evaluates on its own (not through the theorem): three items, odd count at the leaf level
example : reduce (fun b => 7 :: b) [[1], [2], [3]] = some [7, 7, 7, 1, 7, 2, 7, 7, 3, 7, 3] := by decide
example : padPow2 [[1], [2], [3], [4], [5]] = [[1], [2], [3], [4], [5], [5], [5], [5]] := by decide
example : blockPayloadRaw (fun b => 7 :: b) [9] 258 [] = some [7, 9, 0, 0, 1, 2, 7] := by
  rw [block_payload_hash _ _ _ _ (by omega)]; decide

end C31
