import PytezosModel.Michelson.Tickets
import PytezosModel.Proofs.C20Main
import PytezosModel.Proofs.C20TyMain
/-! C20 — tickets are never forged, duplicated, zeroed or merged incorrectly.

Full statement (properties.jsonl): in every execution the total ticket amount per (ticketer, contents) changes only
through TICKET, no ticket of amount zero is ever produced (TICKET with amount 0, SPLIT_TICKET with a zero part or with
parts not summing to the amount return None), JOIN_TICKETS succeeds exactly when ticketer and contents match, and
tickets are never duplicated.

The mini-interpreter `Impl.Tickets.run` mirrors how pytezos executes TICKET / READ_TICKET / SPLIT_TICKET / JOIN_TICKETS /
PAIR / UNPAIR / CAR / CDR / SOME / NONE / IF_NONE / LEFT / RIGHT / IF_LEFT / CONS / NIL / ITER / MAP / DUP / DUP n / SWAP /
DIG / DUG / DROP / DIP / DIP n / PUSH (incl. set and map literals) / EMPTY_MAP / EMPTY_BIG_MAP / EMPTY_SET / GET /
GET_AND_UPDATE / UPDATE (maps, big_maps, sets) / MEM / LAMBDA / EXEC / APPLY / FAILWITH and sequences, including every
dynamic check (`is_duplicable` on the runtime class, the `dup` argument of `get`, `is_pushable`, `is_comparable`,
`assert_type_equal`); `cfg` is the shape of the code under test as read by the translator on this run.

The theorems quantify over EVERY program of that instruction set — well typed or not —, every fuel and every start
state whose values are `consistent` (containers hold what their class says; e.g. the empty stack).

FULL conservation statement (not provable, because false for the real code):
  `run cfg fuel prog s = .ok s' → ∀ k, s'.sum k + mintedSum k s.minted ≤ s.sum k + mintedSum k s'.minted`.
pytezos does not check the type of the value UPDATE / GET_AND_UPDATE store into a map, so an ILL-TYPED program can hide
a ticket in a `map nat nat` and DUP it (`conservation_needs_typed_stores` below proves this about the mirror, by
evaluation).  The Michelson type checker rejects such programs.  Proved instead: `conservation_partial`, under the
decidable run-time guard `s'.typedStores = true` (a ghost flag computed by the interpreter: every executed UPDATE /
GET_AND_UPDATE stored a value of the map's declared value type).  Nothing else is assumed about typing: the dynamic
duplicability / pushability checks are what carries the proof.

`conservation` (below) replaces the ghost guard by a STATIC hypothesis: the program passes the type checker of
`Michelson/TicketsTyping.lean` (`wellTyped`: the Michelson typing rules of the fragment) against the classes of a well
typed start stack.  Type preservation (`Proofs/C20Ty*.lean`, induction on the evaluation) shows that such a run never
stores a value that has not the map's declared value type, so the flag is still true at the end and the dynamic-check
proof applies; no ghost field occurs in the statement.  The checker accepts MAP only with a body that gives back the
element type it received: pytezos returns the source collection unchanged when it is empty (open finding of C01 / C02),
so after a type-changing MAP the class of the result is not the static type (`typed_map_rule_is_restricted`).  The
checker does not cover LAMBDA / EXEC / APPLY (it rejects them: typing a lambda VALUE needs the checker inside the value
typing); programs with lambdas are covered by `conservation_partial`. -/
namespace C20
open Impl.Tickets

/-- what the translator read from the source: "ticket" makes a type non-duplicable / non-pushable / non-comparable,
split rejects a zero part, split and join keep the ticket's class, `BigMapType.get` honours `dup`, DUP / DUP n check the
duplicability of a big_map operand, and the mirrored bodies (incl. `BigMapType.update` as repaired for C15) are the
recognised ones -/
theorem source_shape :
    Generated.C20.nonDuplicablePrims = some ["ticket"]
      ∧ (Generated.C20.nonPushablePrims.getD []).contains "ticket" = true
      ∧ (Generated.C20.nonComparablePrims.getD []).contains "ticket" = true
      ∧ Generated.C20.splitRejectsZero = some true ∧ Generated.C20.splitKeepsClass = some true
      ∧ Generated.C20.joinKeepsClass = some true ∧ Generated.C20.bigMapGetHonoursDup = some true
      ∧ Generated.C20.dupChecksBigMap = some true ∧ Generated.C20.duplicateAsserts = true
      ∧ Generated.C20.mapBodiesRecognised = true ∧ Generated.C20.bigMapUpdateRecognised = true
      ∧ Generated.C20.ticketInstrsRecognised = true := by decide

theorem cfg_ok : CfgOk cfg := ⟨by decide, by decide, by decide, by decide⟩

theorem run_good (fuel : Nat) (prog : List Instr) (s s' : State) (h : run cfg fuel prog s = .ok s') : Good s s' := by
  unfold run at h
  split at h
  · exact execSeq_good cfg_ok fuel prog s s' h
  · cases h

/-- CONSERVATION: tickets only come from TICKET (the `minted` log); everything else can at most destroy them.
Every program, every fuel, every consistent start state; guard: no ill-typed store happened. -/
theorem conservation_partial (fuel : Nat) (prog : List Instr) (s s' : State) (hc : LC s.items)
    (h : run cfg fuel prog s = .ok s') (ht : s'.typedStores = true) :
    ∀ k, s'.sum k + mintedSum k s.minted ≤ s.sum k + mintedSum k s'.minted :=
  ((run_good fuel prog s s' h).inv ht hc).2.1

/-- the mint log only grows, and only TICKET writes to it (by definition of the mirror) -/
theorem minted_grows (fuel : Nat) (prog : List Instr) (s s' : State) (h : run cfg fuel prog s = .ok s') :
    ∃ new, s'.minted = new ++ s.minted :=
  (run_good fuel prog s s' h).minted_ext

/-- NO ZERO TICKET is ever produced -/
theorem no_zero_ticket (fuel : Nat) (prog : List Instr) (s s' : State) (hc : LC s.items) (hz : LN s.items)
    (h : run cfg fuel prog s = .ok s') (ht : s'.typedStores = true) : LN s'.items :=
  ((run_good fuel prog s s' h).inv ht hc).2.2 hz

/-- consistency of the stack is itself preserved (so the theorems compose over successive runs) -/
theorem consistency_preserved (fuel : Nat) (prog : List Instr) (s s' : State) (hc : LC s.items)
    (h : run cfg fuel prog s = .ok s') (ht : s'.typedStores = true) : LC s'.items :=
  ((run_good fuel prog s s' h).inv ht hc).1

/-- the guard is monotone: once an ill-typed store happened the flag stays false -/
theorem typed_stores_monotone (fuel : Nat) (prog : List Instr) (s s' : State) (h : run cfg fuel prog s = .ok s')
    (ht : s'.typedStores = true) : s.typedStores = true :=
  (run_good fuel prog s s' h).typed_mono ht


/-! ### the static guard: well-typed programs -/

theorem cfg_ok2 : CfgOk2 cfg := ⟨by decide, by decide⟩

/-- TYPE PRESERVATION of the mirror for checked programs: a successful run ends with the stack types the checker computed
(in particular the checker did not predict "always fails"), every value deeply well typed, nothing protected, and no
ill-typed store happened -/
theorem type_preservation (fuel : Nat) (prog : List Instr) (items : List Val) (self : String) (s' : State)
    (hw : wellTyped cfg prog items = true) (h : run cfg fuel prog (State.start items self) = .ok s') :
    ∃ Γ', tySeq cfg prog (items.map Val.typeOf) = some (some Γ') ∧ s'.items.map Val.typeOf = Γ'
      ∧ (∀ v ∈ s'.items, v.wt = true) ∧ s'.prot = 0 ∧ s'.typedStores = true := by
  simp only [wellTyped, Bool.and_eq_true] at hw
  obtain ⟨hs, hty⟩ := start_typed items self hw.1
  cases hr : tySeq cfg prog (items.map Val.typeOf) with
  | none => simp [hr] at hw
  | some r =>
    unfold run at h
    split at h
    · obtain ⟨Γ', act', rfl, ⟨t1, t2, t3⟩, ⟨a1, a2⟩⟩ := execSeq_typed cfg_ok2 fuel prog [] items _ s' _ r hr hs hty h
      simp only [List.nil_append] at t2
      exact ⟨Γ', rfl, by rw [t2]; exact a2, by rw [t2]; exact a1, t3, t1⟩
    · cases h

/-- CONSERVATION, statically guarded: for EVERY program accepted by the type checker, every fuel, every well typed start
stack and every self address — tickets only come from TICKET (the mint log of the run); everything else can at most
destroy them.  No ghost flag: well-typedness implies that every store has the declared value type. -/
theorem conservation (fuel : Nat) (prog : List Instr) (items : List Val) (self : String) (s' : State)
    (hw : wellTyped cfg prog items = true) (h : run cfg fuel prog (State.start items self) = .ok s') :
    ∀ k, s'.sum k ≤ ticketSumList k items + mintedSum k s'.minted := by
  obtain ⟨_, _, _, _, _, ht⟩ := type_preservation fuel prog items self s' hw h
  simp only [wellTyped, Bool.and_eq_true] at hw
  have hc : LC (State.start items self).items := (start_typed items self hw.1).2.lc
  intro k
  have := conservation_partial fuel prog (State.start items self) s' hc h ht k
  simpa [State.start, State.sum, mintedSum] using this

/-- NO ZERO TICKET, statically guarded -/
theorem no_zero_ticket_typed (fuel : Nat) (prog : List Instr) (items : List Val) (self : String) (s' : State)
    (hw : wellTyped cfg prog items = true) (hz : LN items) (h : run cfg fuel prog (State.start items self) = .ok s') :
    LN s'.items := by
  obtain ⟨_, _, _, _, _, ht⟩ := type_preservation fuel prog items self s' hw h
  simp only [wellTyped, Bool.and_eq_true] at hw
  exact no_zero_ticket fuel prog (State.start items self) s' (start_typed items self hw.1).2.lc hz h ht

/-- TICKET with amount 0 gives None (and mints nothing) -/
theorem ticket_zero_none (f : Nat) (s s1 s' : State) (item : Val)
    (hp : s.pop2 = .ok (item, .atom (.nat 0), s1)) (h : exec cfg (f + 1) .ticket s = .ok s') :
    s' = s1.push (.none (.ticket item.typeOf)) := by
  simp only [exec, simple, hp, bind, Except.bind] at h
  split at h
  · cases h
  · cases hc : item.toCmp with
    | none => simp [hc] at h
    | some ct => simpa [hc, pure, Except.pure] using h.symm

/-- TICKET with a positive amount gives `Some` of exactly that ticket, issued by `self`, and logs it -/
theorem ticket_positive (f n : Nat) (hn : 0 < n) (s s1 s' : State) (item : Val) (ct : Cmp)
    (hp : s.pop2 = .ok (item, .atom (.nat n), s1)) (hct : item.toCmp = some ct)
    (h : exec cfg (f + 1) .ticket s = .ok s') :
    s' = { (s1.push (.some (.ticket (.ticket item.typeOf) s1.self ct n))) with minted := (s1.self, ct, n) :: s1.minted } := by
  simp only [exec, simple, hp, bind, Except.bind] at h
  split at h
  · cases h
  · simp only [hct, pure, Except.pure, Except.ok.injEq] at h
    exact h.symm

/-- SPLIT: `Some` exactly when the parts add up and none is zero; the parts are the ticket with those amounts -/
theorem split_spec (cls : Ty) (tk : String) (ct : Cmp) (A a b : Nat) :
    (split cfg cls tk ct A a b = some (.ticket cls tk ct a, .ticket cls tk ct b) ↔ a + b = A ∧ 0 < a ∧ 0 < b)
      ∧ (split cfg cls tk ct A a b = none ↔ ¬ (a + b = A ∧ 0 < a ∧ 0 < b)) := by
  have hz : cfg.splitRejectsZero = true := by decide
  have hk : cfg.splitKeeps = true := by decide
  unfold split
  simp only [hz, hk, Bool.true_and, if_true]
  constructor
  · constructor
    · intro h
      split at h
      · cases h
      · rename_i hcond
        simp only [Bool.or_eq_true, bne_iff_ne, ne_eq, beq_iff_eq, not_or, Decidable.not_not] at hcond
        omega
    · intro h
      have : ¬ ((a + b != A || (a == 0 || b == 0)) = true) := by
        simp only [Bool.or_eq_true, bne_iff_ne, ne_eq, beq_iff_eq, not_or, Decidable.not_not]; omega
      simp [this]
  · constructor
    · intro h
      split at h
      · rename_i hcond
        simp only [Bool.or_eq_true, bne_iff_ne, ne_eq, beq_iff_eq] at hcond
        omega
      · cases h
    · intro h
      have : (a + b != A || (a == 0 || b == 0)) = true := by
        simp only [Bool.or_eq_true, bne_iff_ne, ne_eq, beq_iff_eq]; omega
      simp [this]

/-- JOIN: `Some` exactly when ticketer and contents coincide; the result carries the sum of the amounts -/
theorem join_spec (cls : Ty) (tk1 tk2 : String) (c1 c2 : Cmp) (a1 a2 : Nat) :
    (join cfg cls tk1 c1 a1 tk2 c2 a2 = some (.ticket cls tk1 c1 (a1 + a2)) ↔ tk1 = tk2 ∧ c1 = c2)
      ∧ (join cfg cls tk1 c1 a1 tk2 c2 a2 = none ↔ ¬ (tk1 = tk2 ∧ c1 = c2)) := by
  have hk : cfg.joinKeeps = true := by decide
  unfold join
  simp only [hk, if_true]
  constructor
  · constructor
    · intro h
      split at h
      · cases h
      · rename_i hcond
        simpa [not_or] using hcond
    · rintro ⟨rfl, rfl⟩; simp
  · constructor
    · intro h
      split at h
      · rename_i hcond
        simp only [Bool.or_eq_true, bne_iff_ne, ne_eq] at hcond
        intro hh; rcases hcond with h1 | h1
        · exact h1 hh.1
        · exact h1 hh.2
      · cases h
    · intro h
      have : (tk1 != tk2 || c1 != c2) = true := by
        simp only [Bool.or_eq_true, bne_iff_ne, ne_eq]
        by_cases e : tk1 = tk2
        · exact Or.inr (fun e2 => h ⟨e, e2⟩)
        · exact Or.inl e
      simp [this]

/-- JOIN_TICKETS on two tickets of one (proper) ticket type never fails: it pushes `Some` of the merged ticket or `None` -/
theorem join_tickets_total (f : Nat) (s s1 : State) (t : Ty) (tk1 tk2 : String) (c1 c2 : Cmp) (a1 a2 : Nat)
    (hp : s.pop1 = .ok (.pair (.ticket (.ticket t) tk1 c1 a1) (.ticket (.ticket t) tk2 c2 a2), s1)) :
    exec cfg (f + 1) .joinTickets s
      = .ok (s1.push (if tk1 = tk2 ∧ c1 = c2 then .some (.ticket (.ticket t) tk1 c1 (a1 + a2)) else .none (.ticket t))) := by
  have hk : cfg.joinKeeps = true := by decide
  simp only [exec, simple, hp, bind, Except.bind, bne_self_eq_false, Bool.false_eq_true, if_false]
  by_cases h : tk1 = tk2 ∧ c1 = c2
  · obtain ⟨rfl, rfl⟩ := h
    simp [join, hk, Val.typeOf, pure, Except.pure]
  · have : (tk1 != tk2 || c1 != c2) = true := by
      simp only [Bool.or_eq_true, bne_iff_ne, ne_eq]
      by_cases e : tk1 = tk2
      · exact Or.inr (fun e2 => h ⟨e, e2⟩)
      · exact Or.inl e
    simp [join, this, h, pure, Except.pure]

/-- NEVER DUPLICATED: DUP only succeeds on a value that holds no ticket -/
theorem dup_refuses_tickets (f : Nat) (s s' : State) (top : Val) (hc : LC s.items) (hpk : s.peek = .ok top)
    (h : exec cfg (f + 1) .dup s = .ok s') : ∀ k, ticketSum k top = 0 := by
  simp only [exec, simple, hpk, bind, Except.bind] at h
  cases hd : duplicate cfg top with
  | error e => simp [hd] at h
  | ok r =>
    obtain ⟨rest, hrest⟩ := peek_perm hpk
    exact (duplicate_spec cfg_ok hd).2 ((LC_cons.mp ((LC_perm hrest).mp hc)).1)

/-- … and so does DUP n -/
theorem dupN_refuses_tickets (f n : Nat) (s s1 s' : State) (top : Val) (hc : LC s.items)
    (hp : s.protect (n - 1) = .ok s1) (hpk : s1.peek = .ok top)
    (h : exec cfg (f + 1) (.dupN n) s = .ok s') : ∀ k, ticketSum k top = 0 := by
  simp only [exec, simple] at h
  split at h
  · cases h
  · simp only [hp, hpk, bind, Except.bind] at h
    cases hd : duplicate cfg top with
    | error e => simp [hd] at h
    | ok r =>
      obtain ⟨rest, hrest⟩ := peek_perm hpk
      rw [(protect_sameCore hp).1] at hrest
      exact (duplicate_spec cfg_ok hd).2 ((LC_cons.mp ((LC_perm hrest).mp hc)).1)

/-- … and GET (on a map and on a big_map alike) only reads maps whose value type is duplicable -/
theorem get_refuses_tickets (f : Nat) (s s1 s' : State) (key : Val) (big : Bool) (kt vt : Ty) (keys : List Atom)
    (vals : List Val) (removed : List Atom) (hp : s.pop2 = .ok (key, .map big kt vt keys vals removed, s1))
    (h : exec cfg (f + 1) .get s = .ok s') : vt.all cfg.nonDup = true := by
  have hb : cfg.bigGetDup = true := by decide
  simp only [exec, simple, hp, bind, Except.bind] at h
  cases hg : mapGet cfg big kt vt keys vals removed key true with
  | error e => simp [hg] at h
  | ok r =>
    unfold mapGet at hg
    split at hg
    · cases hg
    · split at hg
      · cases hg
      · rename_i hcond
        simp only [hb, Bool.or_true, Bool.true_and, Bool.and_true, Bool.not_eq_true', Bool.not_eq_false] at hcond
        exact hcond

/-! ### non-vacuity, and the counter-example behind the guard -/

private def init : State := { items := [], prot := 0, self := "KT1" }
private def mint (n : Nat) (c : String) : List Instr :=
  [.push .nat (.atom (.nat n)), .push .string (.atom (.str c)), .ticket, .ifNone [.failwith] []]
private def outTickets (r : M State) : Option (Bool × List (String × Cmp × Nat)) :=
  match r with
  | .ok s => some (s.typedStores, ticketsList s.items)
  | _ => none

-- a ticket of 5 split into 2 + 3, the parts stored in a list, joined back by ITER: one ticket of 5 again
example : outTickets (run cfg 200 (mint 5 "a" ++
      [.push (.pair .nat .nat) (.pair (.atom (.nat 2)) (.atom (.nat 3))), .swap, .splitTicket, .ifNone [.failwith] [], .unpair,
       .nil (.ticket .string), .swap, .cons, .iter [.pair, .joinTickets, .ifNone [.failwith] []]]) init)
    = some (true, [("KT1", .atom (.str "a"), 5)]) := by decide +kernel
-- a zero part, a ticket of amount 0, DUP of a ticket, DUP of a big_map of tickets, GET on a big_map of tickets: refused
example : outTickets (run cfg 200 (mint 5 "a" ++
      [.push (.pair .nat .nat) (.pair (.atom (.nat 0)) (.atom (.nat 5))), .swap, .splitTicket, .ifNone [] [.failwith]]) init)
    = some (true, []) := by decide +kernel
example : outTickets (run cfg 200 (mint 5 "a" ++ [.dup]) init) = none := by decide +kernel
example : outTickets (run cfg 200 (mint 5 "a" ++
      [.some, .emptyBigMap .nat (.ticket .string), .swap, .push .nat (.atom (.nat 1)), .update, .dup]) init) = none := by decide +kernel
example : outTickets (run cfg 200 (mint 5 "a" ++
      [.some, .emptyBigMap .nat (.ticket .string), .swap, .push .nat (.atom (.nat 1)), .update, .push .nat (.atom (.nat 1)), .get]) init)
    = none := by decide +kernel
-- GET_AND_UPDATE moves the ticket out of the big_map
example : outTickets (run cfg 200 (mint 5 "a" ++
      [.some, .emptyBigMap .nat (.ticket .string), .swap, .push .nat (.atom (.nat 1)), .update,
       .none (.ticket .string), .push .nat (.atom (.nat 1)), .getAndUpdate]) init)
    = some (true, [("KT1", .atom (.str "a"), 5)]) := by decide +kernel

-- or-types: a ticket on the right of an `or` comes back through IF_LEFT; DUP of the sum is refused
example : outTickets (run cfg 200 (mint 5 "a" ++ [.right .nat, .ifLeft [.failwith] []]) init)
    = some (true, [("KT1", .atom (.str "a"), 5)]) := by decide +kernel
example : outTickets (run cfg 200 (mint 5 "a" ++ [.right .nat, .dup]) init) = none := by decide +kernel
example : outTickets (run cfg 200 [.push .nat (.atom (.nat 1)), .left (.ticket .string), .dup] init) = none := by decide +kernel
-- option (pair nat (ticket string)): the ticket sits at the second type-argument position; DUP refused, CDR gives it back
example : outTickets (run cfg 200 (mint 5 "a" ++ [.push .nat (.atom (.nat 7)), .pair, .some, .dup]) init) = none := by decide +kernel
example : outTickets (run cfg 200 (mint 5 "a" ++ [.push .nat (.atom (.nat 7)), .pair, .some, .ifNone [.failwith] [], .cdr]) init)
    = some (true, [("KT1", .atom (.str "a"), 5)]) := by decide +kernel
-- lambdas: identity on a ticket; a lambda that tries to copy its argument fails; a lambda may mint; code is duplicable
example : outTickets (run cfg 200 (mint 5 "a" ++ [.lambda (.ticket .string) (.ticket .string) [], .dup, .drop, .swap, .exec]) init)
    = some (true, [("KT1", .atom (.str "a"), 5)]) := by decide +kernel
example : outTickets (run cfg 200 (mint 5 "a" ++
      [.lambda (.ticket .string) (.pair (.ticket .string) (.ticket .string)) [.dup, .pair], .swap, .exec]) init) = none := by
  decide +kernel
example : outTickets (run cfg 200
      [.lambda .nat (.option (.ticket .string)) [.push .string (.atom (.str "a")), .ticket], .push .nat (.atom (.nat 4)), .exec] init)
    = some (true, [("KT1", .atom (.str "a"), 4)]) := by decide +kernel
-- APPLY on a ticket captures it into code for good: the applied lambda can be copied, but running it is refused (PUSH of a
-- ticket type), so the 5 never come back — let alone twice
example : outTickets (run cfg 200 (mint 5 "a" ++
      [.lambda (.pair (.ticket .string) .nat) (.ticket .string) [.car], .swap, .apply, .dup]) init) = some (true, []) := by decide +kernel
example : outTickets (run cfg 200 (mint 5 "a" ++
      [.lambda (.pair (.ticket .string) .nat) (.ticket .string) [.car], .swap, .apply, .push .nat (.atom (.nat 1)), .exec]) init) = none := by
  decide +kernel
-- sets and map literals live next to tickets: a pair (map literal, ticket) is not duplicable, the literal alone is
example : outTickets (run cfg 200 (mint 5 "a" ++
      [.push (.map .nat .string) (.map false .nat .string [.nat 1] [.atom (.str "x")] []), .dup, .drop, .pair, .dup]) init) = none := by
  decide +kernel
example : outTickets (run cfg 200
      [.push (.map .nat .string) (.map false .nat .string [.nat 2, .nat 1] [.atom (.str "x"), .atom (.str "y")] [])] init) = none := by
  decide +kernel
example : outTickets (run cfg 200 (mint 5 "a" ++
      [.emptySet .nat, .push .bool (.atom (.bool true)), .push .nat (.atom (.nat 3)), .update, .dup, .push .nat (.atom (.nat 3)), .mem]) init)
    = some (true, [("KT1", .atom (.str "a"), 5)]) := by decide +kernel

/-- why the guard is there: this ILL-TYPED program (a ticket stored into a `map nat nat`) runs to the end in the mirror —
as it does in pytezos — with TWO tickets of 5 although 5 were minted; the ghost flag is false at the end -/
theorem conservation_needs_typed_stores :
    outTickets (run cfg 200 (mint 5 "a" ++
      [.some, .emptyMap .nat .nat, .swap, .push .nat (.atom (.nat 1)), .update, .dup]) init)
    = some (false, [("KT1", .atom (.str "a"), 5), ("KT1", .atom (.str "a"), 5)]) := by decide +kernel

/-! ### non-vacuity of the static guard -/

private def fail : List Instr := [.push .string (.atom (.str "none")), .failwith]
/-- `mint` with a well typed failing branch (FAILWITH needs an operand) -/
private def mintT (n : Nat) (c : String) : List Instr :=
  [.push .nat (.atom (.nat n)), .push .string (.atom (.str c)), .ticket, .ifNone fail []]


-- the split / store-in-a-list / join-back program is accepted by the checker (so `conservation` applies to it) …
example : wellTyped cfg (mintT 5 "a" ++
      [.push (.pair .nat .nat) (.pair (.atom (.nat 2)) (.atom (.nat 3))), .swap, .splitTicket, .ifNone fail [], .unpair,
       .nil (.ticket .string), .swap, .cons, .iter [.pair, .joinTickets, .ifNone fail []]]) [] = true := by decide +kernel
-- … with the final stack type `[ticket string]`
example : tySeq cfg (mintT 5 "a" ++
      [.push (.pair .nat .nat) (.pair (.atom (.nat 2)) (.atom (.nat 3))), .swap, .splitTicket, .ifNone fail [], .unpair,
       .nil (.ticket .string), .swap, .cons, .iter [.pair, .joinTickets, .ifNone fail []]]) []
    = some (some [.ticket .string]) := by decide +kernel
-- tickets moved through a big_map with GET_AND_UPDATE, and a MAP over a list of tickets: accepted
example : wellTyped cfg (mintT 5 "a" ++
      [.some, .emptyBigMap .nat (.ticket .string), .swap, .push .nat (.atom (.nat 1)), .update,
       .none (.ticket .string), .push .nat (.atom (.nat 1)), .getAndUpdate]) [] = true := by decide +kernel
example : wellTyped cfg (mintT 5 "a" ++ [.nil (.ticket .string), .swap, .cons, .map [.readTicket, .drop]]) [] = true := by
  decide +kernel
-- a start stack that already holds a ticket
example : wellTyped cfg [.readTicket, .drop] [.ticket (.ticket .string) "KT1" (.atom (.str "a")) 7] = true := by decide +kernel
-- or-types, sets and literals are covered by the checker
example : wellTyped cfg (mintT 5 "a" ++ [.right .nat, .ifLeft fail [], .readTicket, .drop,
      .emptySet .nat, .push .bool (.atom (.bool true)), .push .nat (.atom (.nat 3)), .update, .push .nat (.atom (.nat 3)), .mem]) [] = true := by
  decide +kernel
example : wellTyped cfg (mintT 5 "a" ++ [.right .nat, .dup]) [] = false := by decide +kernel
-- rejected: DUP of a ticket, DUP of a big_map of tickets, GET on a map of tickets are fine for the checker's map rules
-- but DUP is refused statically; the ill-typed store of `conservation_needs_typed_stores` is refused as well
example : wellTyped cfg (mintT 5 "a" ++ [.dup]) [] = false := by decide +kernel
example : wellTyped cfg (mintT 5 "a" ++
      [.some, .emptyMap .nat .nat, .swap, .push .nat (.atom (.nat 1)), .update, .dup]) [] = false := by decide +kernel

/-- why the checker restricts MAP to bodies that give back the element type: this program is well typed for Michelson
(`MAP { SOME }` turns the `list nat` into a `list (option nat)`, which is then stored in a `map nat (list (option nat))`),
but pytezos — and the mirror — return the EMPTY source list unchanged, of class `list nat`; the store is ill typed by
class and the ghost flag is false at the end.  The checker rejects the program. -/
theorem typed_map_rule_is_restricted :
    outTickets (run cfg 200
      [.nil .nat, .map [.some], .some, .emptyMap .nat (.list (.option .nat)), .swap, .push .nat (.atom (.nat 1)), .update] init)
      = some (false, [])
    ∧ wellTyped cfg
      [.nil .nat, .map [.some], .some, .emptyMap .nat (.list (.option .nat)), .swap, .push .nat (.atom (.nat 1)), .update] [] = false := by
  constructor <;> decide +kernel

end C20
