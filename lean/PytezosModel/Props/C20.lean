import PytezosModel.Michelson.Tickets
import PytezosModel.Proofs.C20Main
/-! C20 — tickets are never forged, duplicated, zeroed or merged incorrectly.

Full statement (properties.jsonl): in every execution the total ticket amount per (ticketer, contents) changes only
through TICKET, no ticket of amount zero is ever produced (TICKET with amount 0, SPLIT_TICKET with a zero part or with
parts not summing to the amount return None), JOIN_TICKETS succeeds exactly when ticketer and contents match, and
tickets are never duplicated.

The mini-interpreter `Impl.Tickets.run` mirrors how pytezos executes TICKET / READ_TICKET / SPLIT_TICKET / JOIN_TICKETS /
PAIR / UNPAIR / CAR / CDR / SOME / NONE / IF_NONE / CONS / NIL / ITER / MAP / DUP / DUP n / SWAP / DIG / DUG / DROP / DIP /
DIP n / PUSH / EMPTY_MAP / EMPTY_BIG_MAP / GET / GET_AND_UPDATE / UPDATE / FAILWITH and sequences, including every
dynamic check (`is_duplicable` on the runtime class, the `dup` argument of `get`, `is_pushable`, `is_comparable`,
`assert_type_equal`); `cfg` is the shape of the code under test as read by the translator on this run.

The theorems quantify over EVERY program of that instruction set — well typed or not —, every fuel and every start
state whose values are `consistent` (containers hold what their class says; e.g. the empty stack).

FULL conservation statement (not provable, because false for the real code):
  `run cfg fuel prog s = .ok s' → ∀ k, s'.sum k + mintedSum k s.minted ≤ s.sum k + mintedSum k s'.minted`.
pytezos does not check the type of the value UPDATE / GET_AND_UPDATE store into a map, so an ILL-TYPED program can hide
a ticket in a `map nat nat` and DUP it (`conservation_needs_typed_stores` below proves this about the mirror, by
evaluation).  The Michelson type checker rejects such programs.  Proved instead: `conservation_partial`, under the
decidable run-time guard `s'.typedStores = true` (a ghost flag computed by the interpreter: every executed UPDATE /
GET_AND_UPDATE stored a value of the map's declared value type).  Nothing else is assumed about typing: the dynamic
duplicability / pushability checks are what carries the proof. -/
namespace C20
open Impl.Tickets

/-- what the translator read from the source: "ticket" makes a type non-duplicable / non-pushable / non-comparable,
split rejects a zero part, split and join keep the ticket's class, `BigMapType.get` honours `dup`, DUP / DUP n check the
duplicability of a big_map operand, and the mirrored bodies (incl. `BigMapType.update` as repaired for C15) are the
recognised ones -/
theorem source_shape :
    Generated.C20.nonDuplicablePrims = some ["ticket"]
      ∧ (Generated.C20.nonPushablePrims.getD []).contains "ticket" = true
      ∧ (Generated.C20.nonComparablePrims.getD []).contains "ticket" = true
      ∧ Generated.C20.splitRejectsZero = some true ∧ Generated.C20.splitKeepsClass = some true
      ∧ Generated.C20.joinKeepsClass = some true ∧ Generated.C20.bigMapGetHonoursDup = some true
      ∧ Generated.C20.dupChecksBigMap = some true ∧ Generated.C20.duplicateAsserts = true
      ∧ Generated.C20.mapBodiesRecognised = true ∧ Generated.C20.bigMapUpdateRecognised = true
      ∧ Generated.C20.ticketInstrsRecognised = true := by decide

theorem cfg_ok : CfgOk cfg := ⟨by decide, by decide, by decide, by decide⟩

theorem run_good (fuel : Nat) (prog : List Instr) (s s' : State) (h : run cfg fuel prog s = .ok s') : Good s s' := by
  unfold run at h
  split at h
  · exact execSeq_good cfg_ok fuel prog s s' h
  · cases h

/-- CONSERVATION: tickets only come from TICKET (the `minted` log); everything else can at most destroy them.
Every program, every fuel, every consistent start state; guard: no ill-typed store happened. -/
theorem conservation_partial (fuel : Nat) (prog : List Instr) (s s' : State) (hc : LC s.items)
    (h : run cfg fuel prog s = .ok s') (ht : s'.typedStores = true) :
    ∀ k, s'.sum k + mintedSum k s.minted ≤ s.sum k + mintedSum k s'.minted :=
  ((run_good fuel prog s s' h).inv ht hc).2.1

/-- the mint log only grows, and only TICKET writes to it (by definition of the mirror) -/
theorem minted_grows (fuel : Nat) (prog : List Instr) (s s' : State) (h : run cfg fuel prog s = .ok s') :
    ∃ new, s'.minted = new ++ s.minted :=
  (run_good fuel prog s s' h).minted_ext

/-- NO ZERO TICKET is ever produced -/
theorem no_zero_ticket (fuel : Nat) (prog : List Instr) (s s' : State) (hc : LC s.items) (hz : LN s.items)
    (h : run cfg fuel prog s = .ok s') (ht : s'.typedStores = true) : LN s'.items :=
  ((run_good fuel prog s s' h).inv ht hc).2.2 hz

/-- consistency of the stack is itself preserved (so the theorems compose over successive runs) -/
theorem consistency_preserved (fuel : Nat) (prog : List Instr) (s s' : State) (hc : LC s.items)
    (h : run cfg fuel prog s = .ok s') (ht : s'.typedStores = true) : LC s'.items :=
  ((run_good fuel prog s s' h).inv ht hc).1

/-- the guard is monotone: once an ill-typed store happened the flag stays false -/
theorem typed_stores_monotone (fuel : Nat) (prog : List Instr) (s s' : State) (h : run cfg fuel prog s = .ok s')
    (ht : s'.typedStores = true) : s.typedStores = true :=
  (run_good fuel prog s s' h).typed_mono ht

/-- TICKET with amount 0 gives None (and mints nothing) -/
theorem ticket_zero_none (f : Nat) (s s1 s' : State) (item : Val)
    (hp : s.pop2 = .ok (item, .atom (.nat 0), s1)) (h : exec cfg (f + 1) .ticket s = .ok s') :
    s' = s1.push (.none (.ticket item.typeOf)) := by
  simp only [exec, simple, hp, bind, Except.bind] at h
  split at h
  · cases h
  · cases hc : item.toCmp with
    | none => simp [hc] at h
    | some ct => simpa [hc, pure, Except.pure] using h.symm

/-- TICKET with a positive amount gives `Some` of exactly that ticket, issued by `self`, and logs it -/
theorem ticket_positive (f n : Nat) (hn : 0 < n) (s s1 s' : State) (item : Val) (ct : Cmp)
    (hp : s.pop2 = .ok (item, .atom (.nat n), s1)) (hct : item.toCmp = some ct)
    (h : exec cfg (f + 1) .ticket s = .ok s') :
    s' = { (s1.push (.some (.ticket (.ticket item.typeOf) s1.self ct n))) with minted := (s1.self, ct, n) :: s1.minted } := by
  simp only [exec, simple, hp, bind, Except.bind] at h
  split at h
  · cases h
  · simp only [hct, pure, Except.pure, Except.ok.injEq] at h
    exact h.symm

/-- SPLIT: `Some` exactly when the parts add up and none is zero; the parts are the ticket with those amounts -/
theorem split_spec (cls : Ty) (tk : String) (ct : Cmp) (A a b : Nat) :
    (split cfg cls tk ct A a b = some (.ticket cls tk ct a, .ticket cls tk ct b) ↔ a + b = A ∧ 0 < a ∧ 0 < b)
      ∧ (split cfg cls tk ct A a b = none ↔ ¬ (a + b = A ∧ 0 < a ∧ 0 < b)) := by
  have hz : cfg.splitRejectsZero = true := by decide
  have hk : cfg.splitKeeps = true := by decide
  unfold split
  simp only [hz, hk, Bool.true_and, if_true]
  constructor
  · constructor
    · intro h
      split at h
      · cases h
      · rename_i hcond
        simp only [Bool.or_eq_true, bne_iff_ne, ne_eq, beq_iff_eq, not_or, Decidable.not_not] at hcond
        omega
    · intro h
      have : ¬ ((a + b != A || (a == 0 || b == 0)) = true) := by
        simp only [Bool.or_eq_true, bne_iff_ne, ne_eq, beq_iff_eq, not_or, Decidable.not_not]; omega
      simp [this]
  · constructor
    · intro h
      split at h
      · rename_i hcond
        simp only [Bool.or_eq_true, bne_iff_ne, ne_eq, beq_iff_eq] at hcond
        omega
      · cases h
    · intro h
      have : (a + b != A || (a == 0 || b == 0)) = true := by
        simp only [Bool.or_eq_true, bne_iff_ne, ne_eq, beq_iff_eq]; omega
      simp [this]

/-- JOIN: `Some` exactly when ticketer and contents coincide; the result carries the sum of the amounts -/
theorem join_spec (cls : Ty) (tk1 tk2 : String) (c1 c2 : Cmp) (a1 a2 : Nat) :
    (join cfg cls tk1 c1 a1 tk2 c2 a2 = some (.ticket cls tk1 c1 (a1 + a2)) ↔ tk1 = tk2 ∧ c1 = c2)
      ∧ (join cfg cls tk1 c1 a1 tk2 c2 a2 = none ↔ ¬ (tk1 = tk2 ∧ c1 = c2)) := by
  have hk : cfg.joinKeeps = true := by decide
  unfold join
  simp only [hk, if_true]
  constructor
  · constructor
    · intro h
      split at h
      · cases h
      · rename_i hcond
        simpa [not_or] using hcond
    · rintro ⟨rfl, rfl⟩; simp
  · constructor
    · intro h
      split at h
      · rename_i hcond
        simp only [Bool.or_eq_true, bne_iff_ne, ne_eq] at hcond
        intro hh; rcases hcond with h1 | h1
        · exact h1 hh.1
        · exact h1 hh.2
      · cases h
    · intro h
      have : (tk1 != tk2 || c1 != c2) = true := by
        simp only [Bool.or_eq_true, bne_iff_ne, ne_eq]
        by_cases e : tk1 = tk2
        · exact Or.inr (fun e2 => h ⟨e, e2⟩)
        · exact Or.inl e
      simp [this]

/-- JOIN_TICKETS on two tickets of one (proper) ticket type never fails: it pushes `Some` of the merged ticket or `None` -/
theorem join_tickets_total (f : Nat) (s s1 : State) (t : Ty) (tk1 tk2 : String) (c1 c2 : Cmp) (a1 a2 : Nat)
    (hp : s.pop1 = .ok (.pair (.ticket (.ticket t) tk1 c1 a1) (.ticket (.ticket t) tk2 c2 a2), s1)) :
    exec cfg (f + 1) .joinTickets s
      = .ok (s1.push (if tk1 = tk2 ∧ c1 = c2 then .some (.ticket (.ticket t) tk1 c1 (a1 + a2)) else .none (.ticket t))) := by
  have hk : cfg.joinKeeps = true := by decide
  simp only [exec, simple, hp, bind, Except.bind, bne_self_eq_false, Bool.false_eq_true, if_false]
  by_cases h : tk1 = tk2 ∧ c1 = c2
  · obtain ⟨rfl, rfl⟩ := h
    simp [join, hk, Val.typeOf, pure, Except.pure]
  · have : (tk1 != tk2 || c1 != c2) = true := by
      simp only [Bool.or_eq_true, bne_iff_ne, ne_eq]
      by_cases e : tk1 = tk2
      · exact Or.inr (fun e2 => h ⟨e, e2⟩)
      · exact Or.inl e
    simp [join, this, h, pure, Except.pure]

/-- NEVER DUPLICATED: DUP only succeeds on a value that holds no ticket -/
theorem dup_refuses_tickets (f : Nat) (s s' : State) (top : Val) (hc : LC s.items) (hpk : s.peek = .ok top)
    (h : exec cfg (f + 1) .dup s = .ok s') : ∀ k, ticketSum k top = 0 := by
  simp only [exec, simple, hpk, bind, Except.bind] at h
  cases hd : duplicate cfg top with
  | error e => simp [hd] at h
  | ok r =>
    obtain ⟨rest, hrest⟩ := peek_perm hpk
    exact (duplicate_spec cfg_ok hd).2 ((LC_cons.mp ((LC_perm hrest).mp hc)).1)

/-- … and so does DUP n -/
theorem dupN_refuses_tickets (f n : Nat) (s s1 s' : State) (top : Val) (hc : LC s.items)
    (hp : s.protect (n - 1) = .ok s1) (hpk : s1.peek = .ok top)
    (h : exec cfg (f + 1) (.dupN n) s = .ok s') : ∀ k, ticketSum k top = 0 := by
  simp only [exec, simple] at h
  split at h
  · cases h
  · simp only [hp, hpk, bind, Except.bind] at h
    cases hd : duplicate cfg top with
    | error e => simp [hd] at h
    | ok r =>
      obtain ⟨rest, hrest⟩ := peek_perm hpk
      rw [(protect_sameCore hp).1] at hrest
      exact (duplicate_spec cfg_ok hd).2 ((LC_cons.mp ((LC_perm hrest).mp hc)).1)

/-- … and GET (on a map and on a big_map alike) only reads maps whose value type is duplicable -/
theorem get_refuses_tickets (f : Nat) (s s1 s' : State) (key : Val) (big : Bool) (kt vt : Ty) (keys : List Atom)
    (vals : List Val) (removed : List Atom) (hp : s.pop2 = .ok (key, .map big kt vt keys vals removed, s1))
    (h : exec cfg (f + 1) .get s = .ok s') : vt.all cfg.nonDup = true := by
  have hb : cfg.bigGetDup = true := by decide
  simp only [exec, simple, hp, bind, Except.bind] at h
  cases hg : mapGet cfg big kt vt keys vals removed key true with
  | error e => simp [hg] at h
  | ok r =>
    unfold mapGet at hg
    split at hg
    · cases hg
    · split at hg
      · cases hg
      · rename_i hcond
        simp only [hb, Bool.or_true, Bool.true_and, Bool.and_true, Bool.not_eq_true', Bool.not_eq_false] at hcond
        exact hcond

/-! ### non-vacuity, and the counter-example behind the guard -/

private def init : State := { items := [], prot := 0, self := "KT1" }
private def mint (n : Nat) (c : String) : List Instr :=
  [.push .nat (.atom (.nat n)), .push .string (.atom (.str c)), .ticket, .ifNone [.failwith] []]
private def outTickets (r : M State) : Option (Bool × List (String × Cmp × Nat)) :=
  match r with
  | .ok s => some (s.typedStores, ticketsList s.items)
  | _ => none

-- a ticket of 5 split into 2 + 3, the parts stored in a list, joined back by ITER: one ticket of 5 again
example : outTickets (run cfg 200 (mint 5 "a" ++
      [.push (.pair .nat .nat) (.pair (.atom (.nat 2)) (.atom (.nat 3))), .swap, .splitTicket, .ifNone [.failwith] [], .unpair,
       .nil (.ticket .string), .swap, .cons, .iter [.pair, .joinTickets, .ifNone [.failwith] []]]) init)
    = some (true, [("KT1", .atom (.str "a"), 5)]) := by decide +kernel
-- a zero part, a ticket of amount 0, DUP of a ticket, DUP of a big_map of tickets, GET on a big_map of tickets: refused
example : outTickets (run cfg 200 (mint 5 "a" ++
      [.push (.pair .nat .nat) (.pair (.atom (.nat 0)) (.atom (.nat 5))), .swap, .splitTicket, .ifNone [] [.failwith]]) init)
    = some (true, []) := by decide +kernel
example : outTickets (run cfg 200 (mint 5 "a" ++ [.dup]) init) = none := by decide +kernel
example : outTickets (run cfg 200 (mint 5 "a" ++
      [.some, .emptyBigMap .nat (.ticket .string), .swap, .push .nat (.atom (.nat 1)), .update, .dup]) init) = none := by decide +kernel
example : outTickets (run cfg 200 (mint 5 "a" ++
      [.some, .emptyBigMap .nat (.ticket .string), .swap, .push .nat (.atom (.nat 1)), .update, .push .nat (.atom (.nat 1)), .get]) init)
    = none := by decide +kernel
-- GET_AND_UPDATE moves the ticket out of the big_map
example : outTickets (run cfg 200 (mint 5 "a" ++
      [.some, .emptyBigMap .nat (.ticket .string), .swap, .push .nat (.atom (.nat 1)), .update,
       .none (.ticket .string), .push .nat (.atom (.nat 1)), .getAndUpdate]) init)
    = some (true, [("KT1", .atom (.str "a"), 5)]) := by decide +kernel

/-- why the guard is there: this ILL-TYPED program (a ticket stored into a `map nat nat`) runs to the end in the mirror —
as it does in pytezos — with TWO tickets of 5 although 5 were minted; the ghost flag is false at the end -/
theorem conservation_needs_typed_stores :
    outTickets (run cfg 200 (mint 5 "a" ++
      [.some, .emptyMap .nat .nat, .swap, .push .nat (.atom (.nat 1)), .update, .dup]) init)
    = some (false, [("KT1", .atom (.str "a"), 5), ("KT1", .atom (.str "a"), 5)]) := by decide +kernel

end C20
