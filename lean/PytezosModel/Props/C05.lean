import PytezosModel.Micheline.Lower
import PytezosModel.Proofs.MichelineRT
import PytezosModel.Proofs.MichelineStrict
import PytezosModel.Proofs.Annots
/-! C05 — Micheline binary encoding round-trips and decodes strictly.

The mirror (`Impl.Forge.forge` / `unforge`, `Core.forgeInt` / `unforgeInt`, the tables of `Impl.Lower`) is
instantiated with what the translator reads from the source *now*: `Impl.Lower.known` (the `prim_int`
table built from `prim_tags`), `Impl.Lower.strict` (does `unforge_int` reject trailing zeros).

Full statement (properties.jsonl): every expression of protocol primitives, integers of any size, strings,
bytes, sequences, annotated applications encodes to bytes that decode back to the same expression; different
(normalised) expressions encode differently; decoding rejects unknown tags, truncated / inconsistent length
prefixes, trailing bytes and non-minimal integers.  Normalisation of integer spelling and of `annots: []`
happens when JSON is read into the AST (`Mich`/`BMich` have one spelling), so it is exercised by the
correspondence, not stated here.  UTF-8 (str ↔ bytes) is outside the theorems. -/
namespace C05
open Core Impl.Forge Impl.Lower

/-- the source currently has the strict integer reader and a recognised `prim_int` construction -/
theorem source_is_strict : Generated.C05.unforgeIntStrict = some true ∧ Generated.C05.primIntExcluded = some [238] := by
  decide

/-- round trip, all expressions of any size and integers of any magnitude -/
theorem unforge_forge (e : BMich) (hw : BMich.WF known e = true) (bs : Bytes) (h : forge e = some bs) :
    unforge known strict bs = some e :=
  Impl.Forge.unforge_forge known strict e hw bs h

/-- different expressions never forge to the same bytes -/
theorem forge_injective (e₁ e₂ : BMich) (h₁ : BMich.WF known e₁ = true) (h₂ : BMich.WF known e₂ = true)
    (bs : Bytes) (f₁ : forge e₁ = some bs) (f₂ : forge e₂ = some bs) : e₁ = e₂ :=
  Impl.Forge.forge_injective known e₁ e₂ h₁ h₂ bs f₁ f₂

/-- strict decoding: the decoder accepts only what the length-delimited strict reference decoder accepts
(which rejects node tags > 10, unknown primitive tags, short buffers, over/under-running length prefixes,
trailing bytes and integers with a trailing zero group), and returns the same expression -/
theorem unforge_strict (bs : Bytes) (e : BMich) (h : unforge known strict bs = some e) :
    Spec.Micheline.decode known bs = some e := by
  have hs : strict = true := by decide
  rw [hs] at h
  exact unforge_refines_spec known bs e h

/-- integers: zarith round trip for every `Int` … -/
theorem int_roundtrip (z : Int) (rest : Bytes) : unforgeInt strict (forgeInt z ++ rest) = some (z, rest) :=
  unforgeInt_forgeInt strict z rest

/-- … and minimality: an accepted integer encoding is the canonical one (or negative zero `0x40`, the one
redundant code of the sign-magnitude format, which Tezos also reads as 0) -/
theorem int_canonical (bs : Bytes) (hwf : Bytes.WF bs) (z : Int) (rest : Bytes)
    (h : unforgeInt strict bs = some (z, rest)) : bs = forgeInt z ++ rest ∨ (z = 0 ∧ bs = 64 :: rest) := by
  have hs : strict = true := by decide
  rw [hs] at h
  exact unforgeInt_strict_canonical bs hwf z rest h

/-- the primitive tables are mutually inverse on the protocol primitives (every row of the regenerated
`prim_tags` whose tag is not the 0xee placeholder) -/
theorem prim_tables_inverse :
    ∀ row ∈ tagTable, row.2 ≠ 238 → primTag row.1 = some row.2 ∧ primOfTag row.2 = some row.1 := by
  decide +kernel

/-- exactly the tags 0x00–0x9e are decodable primitives -/
theorem known_tags : ∀ t, t < 256 → (known t = true ↔ t ≤ 158) := by
  decide +kernel

/-- annotations: joining with spaces and splitting again is the identity on non-empty lists of space-free annotations -/
theorem annots_roundtrip (as : List Bytes) (hne : as ≠ []) (h : ∀ a ∈ as, 32 ∉ a) : splitSp (joinSp as) = as :=
  splitSp_joinSp as hne h

-- non-vacuity: a concrete annotated application with a big negative integer, a sequence and ≥ 3 arguments
example : (forge (.prim 7 [.int (-1234567890123456789012345), .seq [.str [97], .bytes []], .prim 11 [] none, .int 0] (some [37, 97]))).isSome = true
    ∧ BMich.WF known (.prim 7 [.int (-1234567890123456789012345), .seq [.str [97], .bytes []], .prim 11 [] none, .int 0] (some [37, 97])) = true := by
  decide +kernel
example : (unforgeInt strict [129, 0]).isNone = true := by
  decide +kernel

end C05
