import PytezosModel.Proofs.C27
/-! C27 — node errors map to the most specific registered error class.

An identifier is a non-empty list of dot-free components (`IsId`); `Spec.Errors.fullId cs` is its text.  Every string is
the text of exactly one identifier (`ids_are_component_lists`, `components_unique`), so quantifying over identifiers
is quantifying over all strings `error['id']` can be — any number of components, registered or not.

`Spec.Errors.variants cs` lists the keys an identifier matches, most specific first: the full identifier, the
identifier without its `proto.<protocol>.` prefix, its final component, its category (the first component after the
prefix).  "The most specific registered class that matches" is made precise as `Spec.Errors.MostSpecific reg cs c`:
`c` is registered under the key of least rank in that order among the registered ones.

`Impl.Errors.classify ids` is the mirror of `RpcError.from_errors` (shape of `_gen_error_variants`, its literals
and the registry read from the source); theorems are about it, for every error list and every identifier. -/
namespace C27
open Impl.Errors Proofs.C27

/-- a well-formed identifier: at least one component, no component contains a dot -/
def IsId (cs : List Str) : Prop := cs ≠ [] ∧ ∀ c ∈ cs, Spec.Errors.dot ∉ c

/-- every string is the text of an identifier (its components are what `split('.')` yields) … -/
theorem ids_are_component_lists (s : Str) :
    IsId (split Spec.Errors.dot s) ∧ Spec.Errors.fullId (split Spec.Errors.dot s) = s :=
  ⟨⟨split_ne_nil _ s, split_sepfree _ s⟩, join_split _ s⟩

/-- … of exactly one -/
theorem components_unique (cs : List Str) (h : IsId cs) : split Spec.Errors.dot (Spec.Errors.fullId cs) = cs :=
  split_join _ cs h.1 h.2

/-- `_gen_error_variants` yields exactly the specified keys in the specified order, for every identifier -/
theorem variants_spec (cs : List Str) (h : IsId cs) :
    variants (Spec.Errors.fullId cs) = some (Spec.Errors.variants cs) := by
  have hv : variantsFn = some (.repaired Spec.Errors.dot Spec.Errors.proto) := rfl
  simp only [variants, hv, Option.map_some, Variants.apply, Spec.Errors.fullId]
  rw [variantsRepaired_spec cs h.1 h.2]

/-- the same for an arbitrary string -/
theorem variants_spec_string (s : Str) : variants s = some (Spec.Errors.variants (split Spec.Errors.dot s)) := by
  have h := ids_are_component_lists s
  have := variants_spec _ h.1
  rwa [h.2] at this

/-- the four ranks, spelled out: full id, id without protocol prefix, final component, category — always present -/
theorem variants_ranks (cs : List Str) (h : IsId cs) :
    ∃ fin cat, Spec.Errors.finalComponent cs = some fin ∧ Spec.Errors.category cs = some cat ∧
      Spec.Errors.variants cs = [Spec.Errors.fullId cs, Spec.Errors.withoutProto cs, fin, cat] := by
  have hs : Spec.Errors.stripProto cs ≠ [] := by
    obtain ⟨hne, _⟩ := h
    match cs, hne with
    | [a], _ => simp [Spec.Errors.stripProto]
    | [a, b], _ => simp [Spec.Errors.stripProto]
    | a :: b :: c :: rest, _ =>
      by_cases hp : a = Spec.Errors.proto <;> simp [Spec.Errors.stripProto, hp]
  cases hsp : Spec.Errors.stripProto cs with
  | nil => exact absurd hsp hs
  | cons x xs =>
    refine ⟨(x :: xs).getLast (by simp), x, ?_, ?_, ?_⟩
    · simp [Spec.Errors.finalComponent, hsp, List.getLast?_eq_some_getLast]
    · simp [Spec.Errors.category, hsp]
    · simp [Spec.Errors.variants, Spec.Errors.finalComponent, Spec.Errors.category, hsp, List.getLast?_eq_some_getLast]

/-- the model is total: the shape of `_gen_error_variants`, `from_errors` and the registry were recognised -/
theorem classify_defined (ids : List Str) : ∃ r, classify ids = some r := by
  obtain ⟨reg, hreg⟩ : ∃ reg, Generated.C27.registry = some reg := ⟨_, rfl⟩
  exact ⟨_, classify_eq reg hreg ids⟩

/-- an empty error list gives the generic "unspecified" error -/
theorem empty_unspecified : classify [] = some .unspecified := rfl

/-- `from_errors` looks only at the LAST error and returns the class of the first registered key of its variants,
the generic class when there is none -/
theorem fromErrors_spec (reg : List (Str × Generated.C27.Cls)) (hreg : Generated.C27.registry = some reg)
    (earlier : List Str) (cs : List Str) (h : IsId cs) :
    classify (earlier ++ [Spec.Errors.fullId cs]) =
      some (match firstRegistered reg (Spec.Errors.variants cs) with
            | some c => .handler c earlier.length
            | none => .generic earlier.length) := by
  rw [classify_eq reg hreg]
  simp only [fromErrors, List.getLast?_append, List.getLast?_singleton, Option.some_or, Variants.apply,
    List.length_append, List.length_singleton, Nat.add_sub_cancel, Spec.Errors.fullId]
  rw [variantsRepaired_spec cs h.1 h.2]
  cases firstRegistered reg (Spec.Errors.variants cs) <;> rfl

/-- the raised class is the most specific registered class matching the last error's identifier -/
theorem raised_is_most_specific (reg : List (Str × Generated.C27.Cls)) (hreg : Generated.C27.registry = some reg)
    (earlier : List Str) (cs : List Str) (h : IsId cs) (c : Generated.C27.Cls) :
    classify (earlier ++ [Spec.Errors.fullId cs]) = some (.handler c earlier.length) ↔
      Spec.Errors.MostSpecific reg cs c := by
  rw [fromErrors_spec reg hreg earlier cs h]
  unfold Spec.Errors.MostSpecific Spec.Errors.keyAt
  rw [← firstRegistered_some reg c (Spec.Errors.variants cs)]
  cases firstRegistered reg (Spec.Errors.variants cs) <;> simp

/-- the generic `RpcError` is raised exactly when no key of the identifier is registered -/
theorem generic_when_none (reg : List (Str × Generated.C27.Cls)) (hreg : Generated.C27.registry = some reg)
    (earlier : List Str) (cs : List Str) (h : IsId cs) :
    classify (earlier ++ [Spec.Errors.fullId cs]) = some (.generic earlier.length) ↔
      Spec.Errors.NoneRegistered reg cs := by
  rw [fromErrors_spec reg hreg earlier cs h]
  unfold Spec.Errors.NoneRegistered
  rw [← firstRegistered_none reg (Spec.Errors.variants cs)]
  cases firstRegistered reg (Spec.Errors.variants cs) <;> simp

/-- nothing else can come out: a handler class or the generic class, built from the last error -/
theorem raised_from_last (reg : List (Str × Generated.C27.Cls)) (hreg : Generated.C27.registry = some reg)
    (earlier : List Str) (cs : List Str) (h : IsId cs) :
    (∃ c, classify (earlier ++ [Spec.Errors.fullId cs]) = some (.handler c earlier.length)) ∨
      classify (earlier ++ [Spec.Errors.fullId cs]) = some (.generic earlier.length) := by
  rw [fromErrors_spec reg hreg earlier cs h]
  cases firstRegistered reg (Spec.Errors.variants cs) with
  | some c => exact Or.inl ⟨c, rfl⟩
  | none => exact Or.inr rfl

/-! non-vacuity: concrete identifiers against the registry of the tree -/
section examples
private def proto : Str := [112, 114, 111, 116, 111]
private def alpha : Str := [97, 108, 112, 104, 97]
private def michelson_v1 : Str := [109, 105, 99, 104, 101, 108, 115, 111, 110, 95, 118, 49]
private def script_rejected : Str := [115, 99, 114, 105, 112, 116, 95, 114, 101, 106, 101, 99, 116, 101, 100]
private def runtime_error : Str := [114, 117, 110, 116, 105, 109, 101, 95, 101, 114, 114, 111, 114]
private def bad_return : Str := [98, 97, 100, 95, 114, 101, 116, 117, 114, 110]
private def tez : Str := [116, 101, 122]
private def contract : Str := [99, 111, 110, 116, 114, 97, 99, 116]
open Spec.Errors (fullId)

example : IsId [proto, alpha, michelson_v1, script_rejected] := by unfold IsId; decide
-- FAILWITH: the final component is registered and more specific than the category
example : classify [fullId [proto, alpha, tez, runtime_error], fullId [proto, alpha, michelson_v1, script_rejected]] =
    some (.handler .MichelsonScriptRejected 1) := by decide
-- id without protocol prefix beats final component and category
example : classify [fullId [proto, alpha, michelson_v1, bad_return]] = some (.handler .MichelsonBadReturn 0) := by decide
-- only the category is registered
example : classify [fullId [proto, alpha, michelson_v1, runtime_error]] = some (.handler .MichelsonError 0) := by decide
example : classify [fullId [tez, runtime_error]] = some (.handler .TezArithmeticError 0) := by decide
-- a protocol named like a category is not a category
example : classify [fullId [proto, tez, contract]] = some (.generic 0) := by decide
-- five components: the category is still the first one after the prefix
example : classify [fullId [proto, alpha, michelson_v1, contract, runtime_error]] = some (.handler .MichelsonError 0) := by decide
example : classify [fullId [proto, alpha, contract, runtime_error]] = some (.generic 0) := by decide
end examples

end C27
