import PytezosModel.Proofs.C25
/-! C25 — injected operations carry the account's next counters.

State machine `Impl.Counters` (mirror of `get_counter` / `get_counter_offset` / `reset` and of
`OperationGroup.fill / autofill / sign / inject`, shape switches read from the source on every run) over a simulated
node `⟨c, p⟩` = ⟨counter of the account on chain, number of its contents pending in the mempool⟩.

`observe sh s es` lists, for a history `es` started in `s`, every payload that reached the injection RPC:
`sent` = the counters it carried, `expected` = `c+p+1 … c+p+k` at that moment, `fresh` = the group's counters were
computed (fill of the unfilled group, or a successful autofill) after the last accepted injection / baked block
(`Grp.stamp = State.epoch`; DESIGN §5 C25: a group filled before another injection cannot know about it, so this is
the strongest satisfiable reading; a `fill()` of an already filled group computes nothing and does not refresh).

FULL STATEMENT (what the property demands, for ALL histories):

    theorem inject_counters (c p : Nat) (es : List Event) (sh) (h : shape = some sh) :
        ∀ o ∈ observe sh (init c p) es, o.fresh = true → o.sent = o.expected

It is FALSE for the pinned code (`inject_counters_fails_…` below, replayed on the real code by the harness, recorded
in known_findings.jsonl): `fill()` continues from the counter cached by an earlier `fill()/autofill()` of the same
context, and `fill()` ignores the account's operations pending in the mempool.  What is proved instead:

* `inject_counters_partial` — all histories (induction, no length bound), all initial node states, in which every
  `fill()` of the unfilled group happens with an empty cache and nothing of the account pending (`clean`, decidable);
  `autofill`, `sign`, `inject ok|refused`, `bake`, re-fills and new groups are unrestricted;
* `inject_counters_autofill_only` — corollary: histories that never `fill()` the unfilled group directly (they use
  `autofill`) satisfy the full statement;
* `inject_counters_of_repaired_fill` — for a `fill` that would start from an empty cache and add the mempool offset
  (`Shape` flags both true) `clean` always holds, i.e. the full statement would follow. -/
namespace C25
open Impl.Counters

theorem observe_ok (sh : Shape) : ∀ (es : List Event) (s : State), Inv s → clean sh s es = true →
    ∀ o ∈ observe sh s es, o.fresh = true → o.sent = o.expected := by
  intro es
  induction es with
  | nil => intro s _ _ o ho; simp [observe] at ho
  | cons e es ih =>
    intro s hinv hclean o ho hf
    rw [clean_cons] at hclean
    simp only [Bool.and_eq_true] at hclean
    have ⟨hinv', hobs⟩ := step_ok sh s e hinv hclean.1
    simp only [observe] at ho
    split at ho
    · rename_i o' ho'
      simp only [List.mem_cons] at ho
      rcases ho with rfl | ho
      · exact hobs o ho' hf
      · exact ih _ hinv' hclean.2 o ho hf
    · exact ih _ hinv' hclean.2 o ho hf

theorem inv_init (c p : Nat) : Inv (init c p) := by
  intro g hg; simp [init] at hg

/-- **partial**: every fresh group that reaches the node carries `c+p+1 … c+p+k`, for every history whose direct
`fill()`s of the unfilled group start from an empty cache with nothing of the account pending -/
theorem inject_counters_partial (sh : Shape) (_h : shape = some sh) (c p : Nat) (es : List Event)
    (hclean : clean sh (init c p) es = true) :
    ∀ o ∈ observe sh (init c p) es, o.fresh = true → o.sent = o.expected :=
  observe_ok sh es (init c p) (inv_init c p) hclean

/-- no direct `fill()` of the unfilled group -/
def noDirectFill : List Event → Bool
  | [] => true
  | .fill .tmpl :: _ => false
  | _ :: es => noDirectFill es

theorem clean_of_noDirectFill (sh : Shape) : ∀ (es : List Event) (s : State), noDirectFill es = true → clean sh s es = true := by
  intro es
  induction es with
  | nil => intro s _; rfl
  | cons e es ih =>
    intro s h
    rw [clean_cons]
    cases e with
    | fill t => cases t with
      | tmpl => simp [noDirectFill] at h
      | cur => simp only [noDirectFill] at h; simp [supported, ih _ h]
    | _ => simp only [noDirectFill] at h; simp [supported, ih _ h]

/-- histories that obtain their counters through `autofill` only satisfy the full statement -/
theorem inject_counters_autofill_only (sh : Shape) (_h : shape = some sh) (c p : Nat) (es : List Event)
    (hes : noDirectFill es = true) :
    ∀ o ∈ observe sh (init c p) es, o.fresh = true → o.sent = o.expected :=
  observe_ok sh es (init c p) (inv_init c p) (clean_of_noDirectFill sh es _ hes)

/-- with a `fill` that starts from an empty cache and adds the mempool offset every history is clean -/
theorem inject_counters_of_repaired_fill (sh : Shape) (h1 : sh.fillResetsCache = true) (h2 : sh.fillUsesMempool = true)
    (c p : Nat) (es : List Event) :
    ∀ o ∈ observe sh (init c p) es, o.fresh = true → o.sent = o.expected := by
  have hc : ∀ (es : List Event) (s : State), clean sh s es = true := by
    intro es
    induction es with
    | nil => intro s; rfl
    | cons e es ih =>
      intro s
      rw [clean_cons, ih]
      cases e with
      | fill t => cases t <;> simp [supported, fillSupported, h1, h2]
      | _ => simp [supported]
  exact observe_ok sh es (init c p) (inv_init c p) (hc es _)

/-! counter-histories for the full statement on the pinned shape (node counter 100) -/

/-- `fill()` twice on the same unfilled group, then sign and inject: the group is fresh and carries 102, not 101 -/
theorem inject_counters_fails_fill_twice :
    shape.map (fun sh => observe sh (init 100 0) [.new 1, .fill .tmpl, .fill .tmpl, .sign, .inject true])
      = some [{ fresh := true, sent := [102], expected := [101] }] := by decide

/-- one own operation pending: `fill()` hands out 101 where the node wants 102 -/
theorem inject_counters_fails_fill_with_pending :
    shape.map (fun sh => observe sh (init 100 1) [.new 1, .fill .tmpl, .sign, .inject true])
      = some [{ fresh := true, sent := [101], expected := [102] }] := by decide

/-- both histories are outside `clean`; the same histories through `autofill` are inside and right -/
theorem counter_histories_not_clean :
    shape.map (fun sh => (clean sh (init 100 0) [.new 1, .fill .tmpl, .fill .tmpl, .sign, .inject true],
                          clean sh (init 100 1) [.new 1, .fill .tmpl, .sign, .inject true])) = some (false, false) := by decide

/-! non-vacuity: clean histories that do reach the node, including a refused injection, a bake and a batch -/
example : shape.map (fun sh => (clean sh (init 100 1) [.new 2, .autofill .tmpl, .sign, .inject false, .inject true, .bake,
      .new 1, .fill .tmpl, .sign, .inject true],
    observe sh (init 100 1) [.new 2, .autofill .tmpl, .sign, .inject false, .inject true, .bake,
      .new 1, .fill .tmpl, .sign, .inject true]))
    = some (true, [⟨true, [102, 103], [102, 103]⟩, ⟨true, [102, 103], [102, 103]⟩, ⟨true, [104], [104]⟩]) := by decide

end C25
