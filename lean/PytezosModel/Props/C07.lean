import PytezosModel.Proofs.KeyCheck
import PytezosModel.Proofs.KeyToy
/-! C07 — signing and verification are correct for every key kind.

Full statement (properties.jsonl): for every Ed25519, Secp256k1, P256 and BLS12-381 key and every message,
signing succeeds in both curve-specific and generic form, the signature verifies under that key, and an
independent implementation of the scheme accepts it over the Blake2b-256 digest of the message (BLS signs the
message itself).  Verification rejects any altered message, altered signature or different key, and
CHECK_SIGNATURE returns the same verdict.

What is proved here is the **wrapper logic** of `Key.sign` / `Key.verify` / `scrub_input` / CHECK_SIGNATURE
(`Impl.Key`, instantiated with the dispatch tables, prefix rule and signature kinds the translator reads from
the source now), for *all* keys, messages (bytes or str) and curves, over abstract primitives:

* `P : Prims` with `L : Laws P` — each signature scheme satisfies `verify pk m (sign sk m) = accept` for key
  pairs produced by key derivation, raw signatures are 64 (BLS: 96) bytes;
* `C : Codec` with `CodecLaws C sigRows` — Base58Check round trip / length / prefix for the signature kinds
  (property C09 for the mirror of `base58_encode` / `base58_decode`).

Not provable here and therefore **partial** (sampled by the harness against independent implementations):
that pysodium / coincurve / fastecdsa / py_ecc satisfy `Laws`, and that they reject altered inputs
(unforgeability / non-malleability are cryptographic assumptions).  `verify_true_iff` reduces "altered message /
signature / key is rejected" to exactly that statement about the primitive. -/
namespace C07
open Impl.Key

/-- **sign then verify**, all curves, bytes or str messages, curve-specific and generic form: signing succeeds,
the result is `sig…` or `<curve>sig…` (curve-specific when `generic = false`), and `Key.verify` returns True
on it for the same message. -/
theorem sign_verify (P : Prims) (C : Codec) (L : Laws P) (CL : CodecLaws C sigRows)
    (k : Key) (hk : ValidKey P k) (msg : PyIn) (m : Bytes) (hm : scrub msg = .ok m) (generic : Bool) :
    ∃ s pfx, sign P C k msg generic = .ok s ∧ verify P C k (.str s) msg = .ok true ∧
      pfx <+: s ∧ (pfx = sigTag ∨ pfx = k.curve.tag ++ sigTag) ∧ (generic = false → pfx = k.curve.tag ++ sigTag) := by
  obtain ⟨s, pfx, _, h1, h2, h3, h4, h5, _⟩ := sign_verify_core P C L CL k hk msg m hm generic
  exact ⟨s, pfx, h1, h2, h3, h4, h5⟩

/-- … and the primitive was given Blake2b-256 of the message (the message itself for BLS): the text decodes to
exactly the raw signature the curve's primitive makes for that payload under the key's secret — this is what an
independent implementation of the scheme is then asked to accept (sampled by the harness). -/
theorem sign_payload (P : Prims) (C : Codec) (L : Laws P) (CL : CodecLaws C sigRows)
    (k : Key) (hk : ValidKey P k) (msg : PyIn) (m : Bytes) (hm : scrub msg = .ok m) (generic : Bool) :
    ∃ s raw sk, sign P C k msg generic = .ok s ∧ C.decode s = some raw ∧ raw.length = sigLen k.curve ∧
      k.sec = some sk ∧ P.sign k.curve sk (if k.curve = .bl then m else P.blake2b 32 m) = some raw := by
  obtain ⟨s, _, raw, h1, _, _, _, _, _, hdec, hlen, sk, hsec, hsign⟩ := sign_verify_core P C L CL k hk msg m hm generic
  exact ⟨s, raw, sk, h1, hdec, hlen, hsec, hsign⟩

/-- **what acceptance means**: `Key.verify` returns True exactly when both inputs scrub, the signature text is
generic (`sig…`) or carries the key's own curve tag, it Base58-decodes, and the *primitive of the key's own
curve* accepts the decoded signature over Blake2b-256 of the message (the message itself for BLS) under the
key's public point.  Hence an altered message, signature or key is rejected whenever the primitive rejects it. -/
theorem verify_true_iff (P : Prims) (C : Codec) (k : Key) (sig msg : PyIn) :
    verify P C k sig msg = .ok true ↔
      ∃ es em raw, scrub sig = .ok es ∧ scrub msg = .ok em ∧ k.pub ≠ [] ∧
        (es.take 3 = sigTag ∨ es.take 2 = k.curve.tag) ∧ C.decode es = some raw ∧
        P.verify k.curve k.pub (if k.curve = .bl then em else P.blake2b 32 em) raw = .accept := by
  obtain ⟨dg, _, hvdg, hdgb⟩ := payloadKinds k.curve
  have hpay : ∀ em, payload P dg em = if k.curve = .bl then em else P.blake2b 32 em := by
    intro em
    by_cases hc : k.curve = .bl
    · have : dg = false := by cases dg with | false => rfl | true => exact absurd hc (hdgb.mp rfl)
      simp [payload, this, hc]
    · simp [payload, hdgb.mpr hc, hc]
  constructor
  · intro h
    obtain ⟨_, es, em, raw, dg', hs, hm, hpub, hpre, hdec, hdg', hacc⟩ := verify_true_inv P C k sig msg true h
    rw [hvdg] at hdg'; cases hdg'
    exact ⟨es, em, raw, hs, hm, hpub, hpre, hdec, by rw [← hpay]; exact hacc⟩
  · rintro ⟨es, em, raw, hs, hm, hpub, hpre, hdec, hacc⟩
    refine verify_accepts P C k sig msg es em raw dg hs hm hpub ?_ hdec hvdg (by rw [hpay]; exact hacc)
    rcases hpre with h | h
    · simp [h]
    · simp [h]

/-- `Key.verify` never returns False: it returns True or raises -/
theorem verify_ok_is_true (P : Prims) (C : Codec) (k : Key) (sig msg : PyIn) (b : Bool)
    (h : verify P C k sig msg = .ok b) : b = true :=
  (verify_true_inv P C k sig msg b h).1

/-- **soundness w.r.t. the primitive**: if the primitive does not accept `(digest of) message, decoded
signature` under the key's point, `Key.verify` raises. -/
theorem verify_rejects (P : Prims) (C : Codec) (k : Key) (sig msg : PyIn) (es em raw : Bytes)
    (hs : scrub sig = .ok es) (hm : scrub msg = .ok em) (hdec : C.decode es = some raw)
    (hrej : P.verify k.curve k.pub (if k.curve = .bl then em else P.blake2b 32 em) raw ≠ .accept) :
    ∃ e, verify P C k sig msg = .error e := by
  cases h : verify P C k sig msg with
  | error e => exact ⟨e, rfl⟩
  | ok b =>
    have hb := verify_ok_is_true P C k sig msg b h
    subst hb
    obtain ⟨es', em', raw', hs', hm', _, _, hdec', hacc⟩ := (verify_true_iff P C k sig msg).mp h
    rw [hs] at hs'; cases hs'
    rw [hm] at hm'; cases hm'
    rw [hdec] at hdec'; cases hdec'
    exact absurd hacc hrej

/-- a curve-specific signature made by a key of another curve is refused before any decoding, with
'Signature and public key curves mismatch.' -/
theorem curve_mismatch_rejected (P : Prims) (C : Codec) (L : Laws P) (CL : CodecLaws C sigRows)
    (k k' : Key) (hk' : ValidKey P k') (hne : k.curve ≠ k'.curve) (hpub : k.pub ≠ [])
    (msg msg' : PyIn) (m m' : Bytes) (hm : scrub msg = .ok m) (hm' : scrub msg' = .ok m') :
    ∃ s, sign P C k' msg' false = .ok s ∧ verify P C k (.str s) msg = .error (.valueError .curveMismatch) := by
  obtain ⟨s, pfx, _, hsig, _, hpre, _, hspec, hs, _⟩ := sign_verify_core P C L CL k' hk' msg' m' hm' false
  have hp := hspec rfl
  subst hp
  refine ⟨s, hsig, ?_⟩
  have hne0 : k.pub.isEmpty = false := by cases hkk : k.pub with | nil => exact absurd hkk hpub | cons _ _ => rfl
  simp [verify, hs, hm, hne0, precheck_fails k.curve k'.curve hne s hpre]

/-- **CHECK_SIGNATURE returns the verdict of `Key.verify`**: for a key text that imports, and a public point the
primitive can parse, the instruction pushes a boolean, and it is True exactly when `Key.verify` returns True
(False exactly when it raises).  Holds because every exception of `Key.verify` is a ValueError — on a tree where
the P256 branch lets `EcdsaError` escape, `catches_true` does not evaluate and this obligation is open. -/
theorem check_signature_eq_verify (P : Prims) (C : Codec) (pk sig : Str) (msg : Bytes) (k : Key)
    (hk : fromEncodedKey P C (.str pk) none = .ok k)
    (hparse : ∀ payload raw, P.verify k.curve k.pub payload raw ≠ .keyError) :
    ∃ b, checkSignature P C pk sig msg = .ok b ∧
      (b = true ↔ verify P C k (.str sig) (.bytes msg) = .ok true) ∧
      (b = false ↔ ∃ e, verify P C k (.str sig) (.bytes msg) = .error e) := by
  have hrec : Generated.C07.checkSignatureRecognised = true := by decide
  unfold checkSignature
  simp only [hrec, Bool.not_true, Bool.false_eq_true, if_false, hk]
  cases hv : verify P C k (.str sig) (.bytes msg) with
  | ok b =>
    have := verify_ok_is_true P C k _ _ b hv
    subst this
    exact ⟨true, rfl, by simp, by simp⟩
  | error e =>
    rcases verify_error_cases P C k _ _ e hv with ⟨s, rfl⟩ | ⟨_, _, em, raw, dg, _, _, _, _, hke⟩
    · exact ⟨false, rfl, by simp, by simp⟩
    · exact absurd hke (hparse _ _)

/-! ### non-vacuity: the hypotheses are satisfiable, and by a real Base58Check -/

/-- a toy instance of the primitives satisfies `Laws`, and the mirror of Base58Check (C09's `b58enc` with a
4-byte checksum) restricted to the signature kinds satisfies `CodecLaws` -/
theorem hypotheses_satisfiable : Laws Toy.prims ∧ CodecLaws Toy.codec sigRows ∧ ValidKey Toy.prims Toy.keyBl :=
  ⟨Toy.laws, Toy.codec_laws_sig, Toy.keyBl_valid⟩

-- generic signing with the toy BLS key of the str message `0xab` succeeds and verifies
example : ∃ s, sign Toy.prims Toy.codec Toy.keyBl (.str [48, 120, 97, 98]) true = .ok s ∧
    verify Toy.prims Toy.codec Toy.keyBl (.str s) (.str [48, 120, 97, 98]) = .ok true := by
  obtain ⟨s, _, h1, h2, _⟩ := sign_verify Toy.prims Toy.codec Toy.laws Toy.codec_laws_sig Toy.keyBl
    Toy.keyBl_valid (.str [48, 120, 97, 98]) [171] rfl true
  exact ⟨s, h1, h2⟩

-- a P256 signature is refused by an Ed25519 key with the curve-mismatch error
example : ∃ s, sign Toy.prims Toy.codec Toy.keyP2 (.bytes [1, 2]) false = .ok s ∧
    verify Toy.prims Toy.codec Toy.keyEd (.str s) (.bytes [1, 2]) = .error (.valueError .curveMismatch) :=
  curve_mismatch_rejected Toy.prims Toy.codec Toy.laws Toy.codec_laws_sig Toy.keyEd Toy.keyP2 Toy.keyP2_valid
    (by decide) (by decide) (.bytes [1, 2]) (.bytes [1, 2]) [1, 2] [1, 2] rfl rfl

end C07
