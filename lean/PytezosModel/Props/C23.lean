import PytezosModel.Proofs.KeySign
import PytezosModel.Proofs.KeyToy
/-! C23 — operation groups from any account kind are signed and hashed per protocol.

Full statement (properties.jsonl): for every operation group and every source key kind (tz1–tz4), signing
succeeds and produces a signature that verifies over the watermarked forged bytes: 0x03 for non-consensus
operations, 0x02 plus the chain id for consensus operations.  The group hash is the base58 "o" encoding of
Blake2b-256 over the forged bytes followed by the raw signature.

Proved here, for **all** groups, keys of the four curves and chain ids: the logic of `OperationGroup.sign`,
`binary_payload` and `hash` (`Impl.OpSign`, instantiated with `validation_passes` and the watermark bytes the
translator reads from the source now) composed with the mirror of `Key.sign(generic=True)` / `Key.verify`
(C07).  The forged bytes are an arbitrary byte string (forging is property C06); primitives and Base58Check are
parameters with the contracts `Laws` / `CodecLaws` exactly as in C07 — **partial** in the same sense: that the
libraries satisfy the contracts is sampled by the harness (independent verifier, hashlib), not proved. -/
namespace C23
open Impl.Key Impl.OpSign

/-- the consensus operations of the protocol table this client knows (validation pass 0) -/
def Spec.consensusKinds : List String := ["endorsement", "endorsement_with_slot"]

/-- the regenerated `validation_passes` puts exactly the consensus kinds in pass 0, and the two watermark
bytes are 0x02 / 0x03 -/
theorem pass_table :
    (∀ row ∈ (Generated.C23.validationPasses.getD []), (row.2 = 0 ↔ row.1 ∈ Spec.consensusKinds)) ∧
    (∀ k ∈ Spec.consensusKinds, pass k = some 0) ∧
    Generated.C23.signWatermarks = some (2, 3) := by
  decide

theorem anyOtherPass_same (p : Int) (ks : List String) (h : ∀ k ∈ ks, pass k = some p) :
    anyOtherPass p ks = .ok false := by
  induction ks with
  | nil => rfl
  | cons k ks ih =>
    have hk := h k (by simp)
    simp only [anyOtherPass, hk, bne_self_eq_false, Bool.false_eq_true, if_false]
    exact ih (fun k' hk' => h k' (by simp [hk']))

theorem anyOtherPass_mixed (p : Int) (ks : List String) (hknown : ∀ k ∈ ks, ∃ q, pass k = some q)
    (hmix : ∃ k ∈ ks, pass k ≠ some p) : anyOtherPass p ks = .ok true := by
  induction ks with
  | nil => obtain ⟨k, hk, _⟩ := hmix; cases hk
  | cons k ks ih =>
    obtain ⟨q, hq⟩ := hknown k (by simp)
    simp only [anyOtherPass, hq]
    by_cases hqp : q = p
    · subst hqp
      simp only [bne_self_eq_false, Bool.false_eq_true, if_false]
      apply ih (fun k' hk' => hknown k' (by simp [hk']))
      obtain ⟨k', hk', hne⟩ := hmix
      rcases List.mem_cons.mp hk' with rfl | h
      · exact absurd hq hne
      · exact ⟨k', h, hne⟩
    · have : (q != p) = true := by simpa using hqp
      simp [this]

/-- **watermark**: a group whose contents all have validation pass `p` is signed over `0x03 ++ forged bytes`
when `p ≠ 0`, and over `0x02 ++ chain id ++ forged bytes` when `p = 0` (consensus operations), the chain id
being the Base58-decoded `chain_id` (undefined chain id: 'Chain ID is undefined'). -/
theorem watermark_spec (C : Codec) (g : Group) (p : Int) (hne : g.kinds ≠ [])
    (hall : ∀ k ∈ g.kinds, pass k = some p) :
    watermark C g =
      if p = 0 then
        match g.chainId with
        | none => .error (.valueError .chainUndefined)
        | some cid =>
          match C.decode cid with
          | none => .error (.valueError .codec)
          | some raw => .ok (2 :: raw)
      else .ok [3] := by
  have hvp : ∃ t, Generated.C23.validationPasses = some t := ⟨_, rfl⟩
  obtain ⟨t, ht⟩ := hvp
  have hw : Generated.C23.signWatermarks = some (2, 3) := pass_table.2.2
  unfold watermark
  rw [ht, hw]
  cases hk : g.kinds with
  | nil => exact absurd hk hne
  | cons k0 ks =>
    have h0 : pass k0 = some p := hall k0 (by simp [hk])
    have hany := anyOtherPass_same p g.kinds hall
    rw [hk] at hany
    simp only [h0, hany]
    by_cases hp : p = 0
    · simp only [hp, if_true]
      cases g.chainId with
      | none => rfl
      | some cid => cases C.decode cid <;> rfl
    · simp only [hp, if_false]

/-- in particular: consensus kinds get `0x02 ++ chain id`, … -/
theorem watermark_consensus (C : Codec) (g : Group) (hne : g.kinds ≠ [])
    (hall : ∀ k ∈ g.kinds, k ∈ Spec.consensusKinds) (cid raw : Bytes) (hc : g.chainId = some cid)
    (hd : C.decode cid = some raw) : watermark C g = .ok (2 :: raw) := by
  rw [watermark_spec C g 0 hne (fun k hk => pass_table.2.1 k (hall k hk))]
  simp [hc, hd]

/-- … every other known kind gets `0x03` when the group is not mixed -/
theorem watermark_other (C : Codec) (g : Group) (p : Int) (hne : g.kinds ≠ []) (hp : p ≠ 0)
    (hall : ∀ k ∈ g.kinds, pass k = some p) : watermark C g = .ok [3] := by
  rw [watermark_spec C g p hne hall]; simp [hp]

/-- groups mixing validation passes are refused ('Mixed validation passes') -/
theorem watermark_mixed (C : Codec) (g : Group) (hknown : ∀ k ∈ g.kinds, ∃ q, pass k = some q)
    (k1 k2 : String) (h1 : k1 ∈ g.kinds) (h2 : k2 ∈ g.kinds) (hne : pass k1 ≠ pass k2) :
    watermark C g = .error (.valueError .mixedPasses) := by
  have hvp : ∃ t, Generated.C23.validationPasses = some t := ⟨_, rfl⟩
  obtain ⟨t, ht⟩ := hvp
  have hw : Generated.C23.signWatermarks = some (2, 3) := pass_table.2.2
  unfold watermark
  rw [ht, hw]
  cases hk : g.kinds with
  | nil => rw [hk] at h1; cases h1
  | cons k0 ks =>
    obtain ⟨p0, h0⟩ := hknown k0 (by simp [hk])
    have hmix : ∃ k ∈ g.kinds, pass k ≠ some p0 := by
      by_cases ha : pass k1 = some p0
      · exact ⟨k2, h2, fun hb => hne (ha.trans hb.symm)⟩
      · exact ⟨k1, h1, ha⟩
    have hany := anyOtherPass_mixed p0 g.kinds hknown hmix
    rw [hk] at hany
    simp only [h0, hany]

/-- **signing verifies**, all four curves: for a valid key of any curve and a group with watermark `w`,
`OperationGroup.sign` succeeds and `Key.verify` accepts the signature over `w ++ forged bytes`; the signature
text is `sig…` or `<curve>sig…` and decodes to the raw signature (64 bytes, 96 for BLS) the curve's primitive
makes over Blake2b-256 of that message (BLS: over the message). -/
theorem group_sign_verifies (P : Prims) (C : Codec) (L : Laws P) (CL : CodecLaws C sigRows)
    (k : Key) (hk : ValidKey P k) (g : Group) (w : Bytes) (hw : watermark C g = .ok w) :
    ∃ s raw, signGroup P C k g = .ok s ∧
      verify P C k (.str s) (.bytes (w ++ g.forged)) = .ok true ∧
      C.decode s = some raw ∧ raw.length = sigLen k.curve ∧
      (∃ sk, k.sec = some sk ∧
        P.sign k.curve sk (if k.curve = .bl then w ++ g.forged else P.blake2b 32 (w ++ g.forged)) = some raw) := by
  obtain ⟨s, _, raw, h1, h2, _, _, _, _, hdec, hlen, hsk⟩ :=
    sign_verify_core P C L CL k hk (.bytes (w ++ g.forged)) (w ++ g.forged) (scrub_bytes _) true
  refine ⟨s, raw, ?_, h2, hdec, hlen, hsk⟩
  simp [signGroup, message, hw, h1]

/-- **hash formula**: the hash of the signed group is the Base58 `o` encoding of Blake2b-256 over the forged
bytes followed by the raw signature (64 or 96 bytes) -/
theorem hash_formula (P : Prims) (C : Codec) (L : Laws P) (CL : CodecLaws C sigRows)
    (k : Key) (hk : ValidKey P k) (g : Group) (w : Bytes) (hw : watermark C g = .ok w) :
    ∃ s raw, signGroup P C k g = .ok s ∧ C.decode s = some raw ∧ raw.length = sigLen k.curve ∧
      binaryPayload C g (some s) = .ok (g.forged ++ raw) ∧
      opHash P C g (some s) = orErr (C.encode (P.blake2b 32 (g.forged ++ raw)) tagO) (.valueError .codec) := by
  obtain ⟨s, raw, h1, _, hdec, hlen, _⟩ := group_sign_verifies P C L CL k hk g w hw
  have hrec : Generated.C23.hashRecognised = true := by decide
  have hne : s.isEmpty = false := by
    cases s with
    | nil =>
      -- an empty text cannot decode to a 64/96-byte signature under the codec laws: use the length of `raw`
      obtain ⟨s', pfx, _, h1', _, hpre, hform, _⟩ :=
        sign_verify_core P C L CL k hk (.bytes (w ++ g.forged)) (w ++ g.forged) (scrub_bytes _) true
      have : signGroup P C k g = .ok s' := by simp [signGroup, message, hw, h1']
      rw [h1] at this; cases this
      rcases hform with h | h <;> subst h
      · simp [sigTag] at hpre
      · cases hc : k.curve <;> simp [hc, Curve.tag, sigTag] at hpre
    | cons _ _ => rfl
  have hbp : binaryPayload C g (some s) = .ok (g.forged ++ raw) := by
    simp [binaryPayload, hrec, hne, hdec]
  exact ⟨s, raw, h1, hdec, hlen, hbp, by simp [opHash, hbp]⟩

/-- with the codec law for the `o` kind the hash is a 51-character text starting with `o` that decodes back
to the 32-byte digest -/
theorem hash_is_operation_hash (P : Prims) (C : Codec) (L : Laws P) (CLo : CodecLaws C hashRows)
    (g : Group) (s : Str) (bp : Bytes) (hbp : binaryPayload C g (some s) = .ok bp) :
    ∃ h, opHash P C g (some s) = .ok h ∧ C.decode h = some (P.blake2b 32 bp) ∧ h.length = 51 ∧ tagO <+: h := by
  have hrow : (⟨[111], 51, [5, 116], 32⟩ : Row) ∈ hashRows := by decide
  obtain ⟨hl, hb⟩ := L.blake_len 32 bp
  obtain ⟨h, henc, hdec, hlen, hpre, _⟩ := CLo.enc_dec _ hrow (P.blake2b 32 bp) hl hb
  exact ⟨h, by simp [opHash, hbp, tagO, henc], hdec, hlen, hpre⟩

/-! ### non-vacuity -/

def exGroup : Group := ⟨["transaction", "reveal"], some [78], [1, 2, 3]⟩
def exConsensus : Group := ⟨["endorsement"], none, [9]⟩

example : watermark Toy.codec exGroup = .ok [3] :=
  watermark_other Toy.codec exGroup 3 (by decide) (by decide) (by decide)
example : watermark Toy.codec exConsensus = .error (.valueError .chainUndefined) := by
  rw [watermark_spec Toy.codec exConsensus 0 (by decide) (by decide)]; rfl
example : watermark Toy.codec ⟨["transaction", "ballot"], none, []⟩ = .error (.valueError .mixedPasses) :=
  watermark_mixed Toy.codec _ (by intro k hk; simp at hk; rcases hk with rfl | rfl <;> exact ⟨_, rfl⟩)
    "transaction" "ballot" (by decide) (by decide) (by decide)
-- a tz4 (BLS) source signs and the signature verifies
example : ∃ s, signGroup Toy.prims Toy.codec Toy.keyBl exGroup = .ok s ∧
    verify Toy.prims Toy.codec Toy.keyBl (.str s) (.bytes ([3] ++ exGroup.forged)) = .ok true := by
  obtain ⟨s, _, h1, h2, _⟩ := group_sign_verifies Toy.prims Toy.codec Toy.laws Toy.codec_laws_sig Toy.keyBl
    Toy.keyBl_valid exGroup [3] (watermark_other Toy.codec exGroup 3 (by decide) (by decide) (by decide))
  exact ⟨s, h1, h2⟩

end C23
