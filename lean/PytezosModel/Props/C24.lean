import PytezosModel.Proofs.C24Fees
/-! C24 — automatically chosen fees meet the node's default minimal fee.

`Spec.Fees.accepts fee size gas` is the node's default mempool filter
(`1000·fee ≥ 100000 + 1000·size + 100·gas` nanotez, i.e. fee ≥ ⌈100 + size + 0.1·gas⌉ mutez) over the *signed*
operation: `size = 32 (branch) + Σ |content_i| + 64 or 96 (signature; 96 for a tz4 / BLS source)` and
`gas = Σ gas_limit_i`.  `Impl.Fees.fill` / `Impl.Fees.autofill` mirror `OperationGroup.fill()` / `.autofill()`
with the constants, tables and shapes the translator reads from the source on every run.

Both theorems quantify over every batch (any number `n ≥ 1` of contents of any kind, any byte sizes), every node
constant, every account counter and mempool offset, every simulated consumption and all four source kinds.
Explicit guards, part of the statements:
* `… = some out` — the mirror is defined: the kinds / source prefix are in the limit tables, the group is not
  empty, and Python's float divisions `int(nanotez·gas / 1000)`, `ceil(milligas / 1000)` stay below `2^53`
  (`Impl.Fees.floatExact`), where they equal the exact floor / ceiling;
* the fee fits the node's int64 mutez (`< 2^63`): only then is the growth of the zarith `fee` field (≤ 9 bytes)
  covered by the reserve — a fee the node cannot even represent is outside the property. -/
namespace C24
open Impl.Fees

/-- the constants read from the (repaired) source satisfy what the proofs need: 100 mutez flat, ≥ 1 mutez per byte,
≥ 100 nanotez per gas unit, the batch fee shape `everyOwnGas`, 32 bytes of branch and 64 / 96 bytes of signature -/
theorem cfg_sound (k : Cfg) (h : cfg = some k) : k.Sound := by
  simp only [cfg, Generated.C24.minimalFees, Generated.C24.mutezPerByte, Generated.C24.nanotezPerGas,
    Generated.C24.feeDivisor, Generated.C24.reserve, Generated.C24.defaultHardGas, Generated.C24.defaultHardStorage,
    Generated.C24.gasTable, Generated.C24.storageTable, Generated.C24.feeBranch, Generated.C24.feeSigAllowance,
    Generated.C24.feeSlack, Generated.C24.fillFee, Generated.C24.fillKeyOrder, Generated.C24.autoBranch,
    Generated.C24.autoSigAllowance, Generated.C24.autoPlus, Generated.C24.gasReserve, Generated.C24.burnReserve,
    Generated.C24.reserveKinds, Generated.C24.milligasDivisor, Generated.C24.burnedPerAllocation,
    Option.bind_eq_bind, Option.bind_some, Option.some.injEq] at h
  subst h
  constructor <;> decide

/-- **autofill**: for every batch, whatever the simulation returned, the fee put on the first content is accepted
by the node's default filter for the signed operation (64-byte and 96-byte signatures alike). -/
theorem autofill_fee_ok (env : Env) (cs : List Content) (sims : List (List SimRes)) (out : List Filled)
    (h : autofill env cs sims = some out) (hrep : totalFee out < 2 ^ 63) :
    Spec.Fees.accepts (totalFee out) (Spec.Fees.signedSize env.src out) (totalGas out) := by
  unfold autofill at h
  cases hc : cfg with
  | none => simp [hc] at h
  | some k =>
    simp only [hc, Option.bind_some] at h
    exact autofillWith_accepts k (cfg_sound k hc) env cs sims out h hrep

/-- **fill** (default limits): the sum of the fees put on the contents is accepted by the node's default filter. -/
theorem fill_fee_ok (env : Env) (cs : List Content) (out : List Filled)
    (h : fill env cs = some out) (hrep : ∀ o ∈ out, o.fee < 2 ^ 63) :
    Spec.Fees.accepts (totalFee out) (Spec.Fees.signedSize env.src out) (totalGas out) := by
  unfold fill at h
  cases hc : cfg with
  | none => simp [hc] at h
  | some k =>
    simp only [hc, Option.bind_some] at h
    exact fillWith_accepts k (cfg_sound k hc) env cs out h hrep

/-- `fill` is undefined on an empty group (division by `len(self.contents)`) and keeps the number of contents -/
theorem fill_length (env : Env) (cs : List Content) (out : List Filled) (h : fill env cs = some out) :
    out.length = cs.length ∧ 0 < cs.length := by
  unfold fill at h
  cases hc : cfg with
  | none => simp [hc] at h
  | some k =>
    simp only [hc, Option.bind_some] at h
    exact fillWith_length k env cs out h

/-! non-vacuity: concrete batches on which the mirror is defined, with the fees the real code chooses -/
example : (fill ⟨"tz1", 1040000, 60000, 100, 0⟩ [⟨"transaction", false, 46⟩, ⟨"transaction", false, 46⟩]).map (·.map (·.fee))
    = some [571, 571] := by decide +kernel
example : (autofill ⟨"tz4", 1040000, 60000, 100, 1⟩ [⟨"transaction", false, 46⟩] [[⟨1000000, 0, false⟩]]).map
    (·.map fun o => (o.fee, o.counter, o.gas, o.storage)) = some [(400, 102, 1100, 100)] := by decide +kernel
example : autofill ⟨"tz1", 1040000, 60000, 100, 0⟩ [⟨"transaction", false, 46⟩] [[⟨2 ^ 53, 0, false⟩]] = none := by
  decide +kernel

/-! The defective shapes of the pinned tree (kept as theorems about the same mirror with the shape switched back,
so that the reason for the two repairs stays machine-checked). -/

/-- the pinned `fill`: fee on the first content only, computed from the default gas of that content -/
def pinnedFill (k : Cfg) : Cfg := { k with fillFee := .firstOnlyDefaultGas }
/-- the pinned signature allowance: 64 bytes whatever the source -/
def pinnedSig (k : Cfg) : Cfg := { k with feeSig := (64, 64), autoSig := (64, 64) }

def verdict (src : String) (r : Option (List Filled)) : Option (Nat × Nat × Nat × Bool) :=
  r.map fun out => (totalFee out, Spec.Fees.signedSize src out, totalGas out,
    decide (Spec.Fees.accepts (totalFee out) (Spec.Fees.signedSize src out) (totalGas out)))

/-- two plain transactions from a tz1 account: fee 571 for 201 bytes and 6080 gas, the node wants 909 -/
theorem pinned_fill_batch_underpays :
    cfg.bind (fun k => verdict "tz1" (fillWith (pinnedSig (pinnedFill k)) ⟨"tz1", 1040000, 60000, 100, 0⟩
      [⟨"transaction", false, 46⟩, ⟨"transaction", false, 46⟩])) = some (571, 201, 6080, false) := by decide +kernel

/-- one transaction from a tz4 account through `fill`: 571 < 585 -/
theorem pinned_fill_tz4_underpays :
    cfg.bind (fun k => verdict "tz4" (fillWith (pinnedSig k) ⟨"tz4", 1040000, 60000, 100, 0⟩
      [⟨"transaction", false, 46⟩])) = some (571, 181, 3040, false) := by decide +kernel

/-- one transaction from a tz4 account through `autofill` (1000 gas consumed): 368 < 390 -/
theorem pinned_autofill_tz4_underpays :
    cfg.bind (fun k => verdict "tz4" (autofillWith (pinnedSig k) ⟨"tz4", 1040000, 60000, 100, 0⟩
      [⟨"transaction", false, 46⟩] [[⟨1000000, 0, false⟩]])) = some (368, 180, 1100, false) := by decide +kernel

/-- the same three operations with the repaired shapes are accepted -/
theorem repaired_witnesses_accepted :
    (verdict "tz1" (fill ⟨"tz1", 1040000, 60000, 100, 0⟩ [⟨"transaction", false, 46⟩, ⟨"transaction", false, 46⟩])).map (·.2.2.2) = some true ∧
    (verdict "tz4" (fill ⟨"tz4", 1040000, 60000, 100, 0⟩ [⟨"transaction", false, 46⟩])).map (·.2.2.2) = some true ∧
    (verdict "tz4" (autofill ⟨"tz4", 1040000, 60000, 100, 0⟩ [⟨"transaction", false, 46⟩] [[⟨1000000, 0, false⟩]])).map (·.2.2.2) = some true := by
  decide +kernel

end C24
