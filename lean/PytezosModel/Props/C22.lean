import PytezosModel.Proofs.C22
/-! C22 — a failing REPL cell leaves the session as if it never ran.

`Impl.Session` mirrors `Interpreter.execute` over an explicit heap of context objects (a stacked big map holds a
context *reference*); how the backup is taken and what `BigMapType.__deepcopy__` does with the reference are read
from the source (`Generated.C22`, combined in `Impl.Session.config`: does the stack copy follow the context copy?).
`observe` follows references: the stack without addresses, the contents of every context reachable from a stacked
big map (id counters, registered big maps, declared types), and the interpreter's own context.
`WF`: the interpreter's context exists and every stacked big map points at it; it holds for `Interpreter()` and is
preserved by every cell (`cell_wf`), so it holds in every reachable state.
Failures are at ANY instruction position: a cell is an arbitrary instruction list and fails wherever one of its
instructions raises (FAILWITH, an ill-typed instruction, stack underflow, a rejected literal, a missing shell, a parse
error).  Sessions are arbitrary cell lists (induction, no length bound). -/
namespace C22
open Impl.Session Proofs.C22

/-- the source under test has the repaired shape: one memo, context copied first, `__deepcopy__` looks the memo up —
so the copied stack points at the copied context -/
theorem config_eq : config = some true := by decide

/-- `Interpreter()` is well-formed -/
theorem init_wf : WF State.init := rep_init.1

/-- every cell keeps the state well-formed -/
theorem cell_wf (σ : State) (hwf : WF σ) (cl : Cell) :
    ∃ σ' r, cell σ cl = some (σ', r) ∧ WF σ' := by
  obtain ⟨a, ha⟩ := exists_rep hwf
  exact ⟨(cellWith true σ cl).1, (cellWith true σ cl).2, by simp only [cell, config_eq, Option.map_some], (cell_rep ha cl).1.1⟩

/-- the property for one cell: if the cell fails — at whatever instruction — the state the interpreter is left in
cannot be told from the one before the cell, by any observation that follows references -/
theorem execute_atomic (σ : State) (hwf : WF σ) (cl : Cell) (σ' : State) (h : cell σ cl = some (σ', .failed)) :
    observe σ' = observe σ := by
  obtain ⟨a, ha⟩ := exists_rep hwf
  simp only [cell, config_eq, Option.map_some, Option.some.injEq] at h
  obtain ⟨h1, h2⟩ := cell_rep ha cl
  rw [h] at h1 h2
  have hf : (cellP a cl).2.isFailed = true := by rw [← h2]; rfl
  rw [cellP_failed a cl hf] at h1
  rw [observe_rep h1, observe_rep ha]

/-- a successful cell behaves exactly as on a session state without any aliasing (one context, no references):
same result, and the new state represents the new aliasing-free state -/
theorem cell_eq_alias_free (σ : State) (a : PState) (ha : Rep σ a) (cl : Cell) :
    ∃ σ' r, cell σ cl = some (σ', r) ∧ r = (cellP a cl).2 ∧ Rep σ' (cellP a cl).1 := by
  obtain ⟨h1, h2⟩ := cell_rep ha cl
  exact ⟨(cellWith true σ cl).1, (cellWith true σ cl).2, by simp only [cell, config_eq, Option.map_some], h2, h1⟩

/-- the property: for EVERY session (any cells, failing at any instruction position, any length) started in a
well-formed state, the session with the failing cells removed gives the same results for the remaining cells —
stack effects, big_map ids and lazy diffs of COMMIT / RUN / BIG_MAP_DIFF are part of the results — and ends in a
state with the same observation -/
theorem session_eq_filtered_from (σ : State) (hwf : WF σ) (cs : List Cell) :
    ∃ rs σf kept rs' σf', session σ cs = some (rs, σf) ∧ dropFailing σ cs = some kept ∧
      session σ kept = some (rs', σf') ∧
      rs' = rs.filter (fun r => !r.isFailed) ∧ observe σf' = observe σf := by
  obtain ⟨a, ha⟩ := exists_rep hwf
  obtain ⟨s1, s2⟩ := session_rep ha cs
  obtain ⟨t1, t2⟩ := session_rep ha (dropFailingWith true σ cs)
  obtain ⟨f1, f2⟩ := sessionP_filtered a cs
  refine ⟨(sessionWith true σ cs).1, (sessionWith true σ cs).2, dropFailingWith true σ cs,
    (sessionWith true σ (dropFailingWith true σ cs)).1, (sessionWith true σ (dropFailingWith true σ cs)).2,
    by simp only [session, config_eq, Option.map_some], by simp only [dropFailing, config_eq, Option.map_some],
    by simp only [session, config_eq, Option.map_some], ?_, ?_⟩
  · rw [t1, s1, dropFailing_rep ha, f1]
  · rw [observe_rep t2, observe_rep s2, dropFailing_rep ha, f2]

/-- … in particular for every session of a fresh interpreter -/
theorem session_eq_filtered (cs : List Cell) :
    ∃ rs σf kept rs' σf', session State.init cs = some (rs, σf) ∧ dropFailing State.init cs = some kept ∧
      session State.init kept = some (rs', σf') ∧
      rs' = rs.filter (fun r => !r.isFailed) ∧ observe σf' = observe σf :=
  session_eq_filtered_from State.init init_wf cs

/-- cell by cell: the result of every surviving cell and the observation right after it (stack, contexts reachable from
stacked big maps, interpreter context) are those of the session without the failing cells -/
theorem session_trace_eq_filtered_from (σ : State) (hwf : WF σ) (cs : List Cell) :
    ∃ tr kept tr', trace σ cs = some tr ∧ dropFailing σ cs = some kept ∧ trace σ kept = some tr' ∧
      tr' = tr.filter (fun r => !r.1.isFailed) := by
  obtain ⟨a, ha⟩ := exists_rep hwf
  refine ⟨traceWith true σ cs, dropFailingWith true σ cs, traceWith true σ (dropFailingWith true σ cs),
    by simp only [trace, config_eq, Option.map_some], by simp only [dropFailing, config_eq, Option.map_some],
    by simp only [trace, config_eq, Option.map_some], ?_⟩
  rw [trace_rep ha, trace_rep ha, dropFailing_rep ha, traceP_filtered]

theorem session_trace_eq_filtered (cs : List Cell) :
    ∃ tr kept tr', trace State.init cs = some tr ∧ dropFailing State.init cs = some kept ∧
      trace State.init kept = some tr' ∧ tr' = tr.filter (fun r => !r.1.isFailed) :=
  session_trace_eq_filtered_from State.init init_wf cs

/-- every state a session of a fresh interpreter reaches is well-formed -/
theorem session_wf (cs : List Cell) : ∃ rs σf, session State.init cs = some (rs, σf) ∧ WF σf := by
  obtain ⟨_, s2⟩ := session_rep rep_init cs
  exact ⟨(sessionWith true State.init cs).1, (sessionWith true State.init cs).2, by simp only [session, config_eq, Option.map_some], s2.1⟩

/-! ### non-vacuity, and the pinned shape (documentation: `cellWith false` is the backup that keeps the reference) -/

def declare : Cell := [.declStorage .bigmap, .declParam .unit]
def beginCell : Cell := [.begin_ .unit (.seq [(1, 1)])]
def body : Cell := [.basic .cdr, .basic .nilOp, .basic .pair]
/-- `CDR; BIG_MAP_DIFF; FAIL`: asks the stacked big map's context for an id, then fails -/
def failing : Cell := [.basic .cdr, .bigMapDiff, .basic .unit, .basic .failwith]
def commitCell : Cell := [.commit]

def diffIds : CellResult → List Int
  | .ok outs => outs.flatMap fun o => o.diff.map (·.id)
  | .failed => []

-- with the repaired backup the COMMIT after the failing cell still allocates big_map id 0 …
example : ((sessionWith true State.init [declare, beginCell, body, failing, commitCell]).1.map diffIds)
    = [[], [], [], [], [0]] := by decide
-- … and the failing cell really fails at its fourth instruction, after BIG_MAP_DIFF has run
example : (cellWith true (sessionWith true State.init [declare, beginCell, body]).2 failing).2 = .failed := by decide
example : (cellWith true (sessionWith true State.init [declare, beginCell, body]).2 [.basic .cdr, .bigMapDiff]).2
    = .ok [⟨"BIG_MAP_DIFF", [⟨0, .alloc, [(1, (), some 1)]⟩], none⟩] := by decide

/-- pinned shape (`__deepcopy__` keeps `context`, two separate deep copies): after the rollback the stacked big map
points at the discarded context, whose id counter BIG_MAP_DIFF has advanced — the later COMMIT allocates id 1, the
same session without the failing cell allocates id 0 -/
theorem pinned_shape_counterexample :
    ((sessionWith false State.init [declare, beginCell, body, failing, commitCell]).1.map diffIds) = [[], [], [], [], [1]] ∧
    ((sessionWith false State.init [declare, beginCell, body, commitCell]).1.map diffIds) = [[], [], [], [0]] ∧
    observe (cellWith false (sessionWith false State.init [declare, beginCell, body]).2 failing).1
      ≠ observe (sessionWith false State.init [declare, beginCell, body]).2 := by decide

end C22
