import PytezosModel.Proofs.C22
/-! C22 — a failing REPL cell leaves the session as if it never ran.

`Impl.Session` mirrors `Interpreter.execute` over an explicit heap of context objects (a stacked big map holds a
context *reference*) and over pytezos' `MichelsonStack` (`items` + the `protected` counter that DIP / DIP n / DIG / DUG /
DUP n raise and lower around their work, with no try/finally).  How the backup is taken, what
`BigMapType.__deepcopy__` does with the reference and how the handler puts the stack back are read from the source
(`Generated.C22`, combined in `Impl.Session.config`: does the stack copy follow the context copy?  is the stack object
replaced, or only its `items`?).
`observe` follows references: the stack without addresses, its `protected` counter (where the next push lands, how many
items the next pop reaches), the contents of every context reachable from a stacked big map (id counters, registered
big maps, declared types, the patched AMOUNT / BALANCE / NOW / SENDER / SOURCE / CHAIN_ID), and the interpreter's own
context.
`WF`: the interpreter's context exists and every stacked big map points at it; it holds for `Interpreter()` and is
preserved by every cell (`cell_wf`), so it holds in every reachable state.
Failures are at ANY instruction position, at any nesting depth: a cell is an arbitrary list of programs (leaves, DIP
{ … }, DIP n { … } around arbitrary bodies) and fails wherever one of its instructions raises (FAILWITH, an ill-typed
instruction, stack underflow, DIG / DUG / DUP n / DROP n / DIP n beyond the stack, a rejected literal or PATCH value, a
missing shell, a parse error) — in particular while `protected > 0`.  Sessions are arbitrary cell lists (induction, no
length bound). -/
namespace C22
open Impl.Session Proofs.C22

/-- the source under test has the repaired shape: one memo, context copied first, `__deepcopy__` looks the memo up —
so the copied stack points at the copied context — and the handler replaces the stack object (`self.stack =
stack_backup`), so the `protected` counter of the stack that was live when the cell raised is dropped with it -/
theorem config_eq : config = some ⟨true, .replaceStack⟩ := by decide

/-- `Interpreter()` is well-formed -/
theorem init_wf : WF State.init := rep_init.1

/-- every cell keeps the state well-formed -/
theorem cell_wf (σ : State) (hwf : WF σ) (cl : Cell) :
    ∃ σ' r, cell σ cl = some (σ', r) ∧ WF σ' := by
  obtain ⟨a, ha⟩ := exists_rep hwf
  exact ⟨(cellWith repaired σ cl).1, (cellWith repaired σ cl).2, by simp only [cell, config_eq, Option.map_some], (cell_rep ha cl).1.1⟩

/-- the property for one cell: if the cell fails — at whatever instruction, inside whatever DIP body — the state the
interpreter is left in cannot be told from the one before the cell, by any observation that follows references
(`protected` and the patched context fields included) -/
theorem execute_atomic (σ : State) (hwf : WF σ) (cl : Cell) (σ' : State) (h : cell σ cl = some (σ', .failed)) :
    observe σ' = observe σ := by
  obtain ⟨a, ha⟩ := exists_rep hwf
  simp only [cell, config_eq, Option.map_some, Option.some.injEq] at h
  obtain ⟨h1, h2⟩ := cell_rep ha cl
  rw [show (⟨true, .replaceStack⟩ : Cfg) = repaired from rfl] at h
  rw [h] at h1 h2
  have hf : (cellP a cl).2.isFailed = true := by rw [← h2]; rfl
  rw [cellP_failed a cl hf] at h1
  rw [observe_rep h1, observe_rep ha]

/-- a successful cell behaves exactly as on a session state without any aliasing (one context, no references):
same result, and the new state represents the new aliasing-free state -/
theorem cell_eq_alias_free (σ : State) (a : PState) (ha : Rep σ a) (cl : Cell) :
    ∃ σ' r, cell σ cl = some (σ', r) ∧ r = (cellP a cl).2 ∧ Rep σ' (cellP a cl).1 := by
  obtain ⟨h1, h2⟩ := cell_rep ha cl
  exact ⟨(cellWith repaired σ cl).1, (cellWith repaired σ cl).2, by simp only [cell, config_eq, Option.map_some], h2, h1⟩

/-- no protected prefix survives a cell: started with `protected = 0`, every cell — successful or failing anywhere,
e.g. inside nested DIP bodies or between the `protect` and the `restore` of DIG / DUP n — ends with `protected = 0`,
so the next push lands on top and the next pop reaches every item -/
theorem cell_protected_zero (σ : State) (h0 : σ.stack.prot = 0) (cl : Cell) :
    ∃ σ' r, cell σ cl = some (σ', r) ∧ σ'.stack.prot = 0 :=
  ⟨(cellWith repaired σ cl).1, (cellWith repaired σ cl).2, by simp only [cell, config_eq, Option.map_some], cellWith_prot_zero σ h0 cl⟩

/-- the property: for EVERY session (any cells, failing at any instruction position of any nesting depth, any length)
started in a well-formed state, the session with the failing cells removed gives the same results for the remaining
cells — stack effects, big_map ids and lazy diffs of COMMIT / RUN / BIG_MAP_DIFF are part of the results — and ends in
a state with the same observation (stack, `protected`, reachable contexts, the interpreter's context with its
patched fields) -/
theorem session_eq_filtered_from (σ : State) (hwf : WF σ) (cs : List Cell) :
    ∃ rs σf kept rs' σf', session σ cs = some (rs, σf) ∧ dropFailing σ cs = some kept ∧
      session σ kept = some (rs', σf') ∧
      rs' = rs.filter (fun r => !r.isFailed) ∧ observe σf' = observe σf := by
  obtain ⟨a, ha⟩ := exists_rep hwf
  obtain ⟨s1, s2⟩ := session_rep ha cs
  obtain ⟨t1, t2⟩ := session_rep ha (dropFailingWith repaired σ cs)
  obtain ⟨f1, f2⟩ := sessionP_filtered a cs
  refine ⟨(sessionWith repaired σ cs).1, (sessionWith repaired σ cs).2, dropFailingWith repaired σ cs,
    (sessionWith repaired σ (dropFailingWith repaired σ cs)).1, (sessionWith repaired σ (dropFailingWith repaired σ cs)).2,
    by simp only [session, config_eq, Option.map_some], by simp only [dropFailing, config_eq, Option.map_some],
    by simp only [session, config_eq, Option.map_some], ?_, ?_⟩
  · rw [t1, s1, dropFailing_rep ha, f1]
  · rw [observe_rep t2, observe_rep s2, dropFailing_rep ha, f2]

/-- … in particular for every session of a fresh interpreter -/
theorem session_eq_filtered (cs : List Cell) :
    ∃ rs σf kept rs' σf', session State.init cs = some (rs, σf) ∧ dropFailing State.init cs = some kept ∧
      session State.init kept = some (rs', σf') ∧
      rs' = rs.filter (fun r => !r.isFailed) ∧ observe σf' = observe σf :=
  session_eq_filtered_from State.init init_wf cs

/-- cell by cell: the result of every surviving cell and the observation right after it (stack, `protected`, contexts
reachable from stacked big maps, interpreter context) are those of the session without the failing cells -/
theorem session_trace_eq_filtered_from (σ : State) (hwf : WF σ) (cs : List Cell) :
    ∃ tr kept tr', trace σ cs = some tr ∧ dropFailing σ cs = some kept ∧ trace σ kept = some tr' ∧
      tr' = tr.filter (fun r => !r.1.isFailed) := by
  obtain ⟨a, ha⟩ := exists_rep hwf
  refine ⟨traceWith repaired σ cs, dropFailingWith repaired σ cs, traceWith repaired σ (dropFailingWith repaired σ cs),
    by simp only [trace, config_eq, Option.map_some], by simp only [dropFailing, config_eq, Option.map_some],
    by simp only [trace, config_eq, Option.map_some], ?_⟩
  rw [trace_rep ha, trace_rep ha, dropFailing_rep ha, traceP_filtered]

theorem session_trace_eq_filtered (cs : List Cell) :
    ∃ tr kept tr', trace State.init cs = some tr ∧ dropFailing State.init cs = some kept ∧
      trace State.init kept = some tr' ∧ tr' = tr.filter (fun r => !r.1.isFailed) :=
  session_trace_eq_filtered_from State.init init_wf cs

/-- every state a session of a fresh interpreter reaches is well-formed and has nothing protected -/
theorem session_wf (cs : List Cell) : ∃ rs σf, session State.init cs = some (rs, σf) ∧ WF σf ∧ σf.stack.prot = 0 := by
  obtain ⟨_, s2⟩ := session_rep rep_init cs
  exact ⟨(sessionWith repaired State.init cs).1, (sessionWith repaired State.init cs).2,
    by simp only [session, config_eq, Option.map_some], s2.1, sessionWith_prot_zero State.init rfl cs⟩

/-! ### non-vacuity, and the two defective shapes (documentation: `cellWith ⟨false, _⟩` is the backup that keeps the
reference, `cellWith ⟨_, .itemsOnly⟩` the restore that keeps the live stack object) -/

def declare : Cell := [.op (.declStorage .bigmap), .op (.declParam .unit)]
def beginCell : Cell := [.op (.begin_ .unit (.seq [(1, 1)]))]
def body : Cell := [.op (.basic .cdr), .op (.basic .nilOp), .op (.basic .pair)]
/-- `CDR; BIG_MAP_DIFF; FAIL`: asks the stacked big map's context for an id, then fails -/
def failing : Cell := [.op (.basic .cdr), .op .bigMapDiff, .op (.basic .unit), .op (.basic .failwith)]
def commitCell : Cell := [.op .commit]

def diffIds : CellResult → List Int
  | .ok outs => outs.flatMap fun o => o.diff.map (·.id)
  | .failed => []

-- with the repaired backup the COMMIT after the failing cell still allocates big_map id 0 …
example : ((sessionWith repaired State.init [declare, beginCell, body, failing, commitCell]).1.map diffIds)
    = [[], [], [], [], [0]] := by decide
-- … and the failing cell really fails at its fourth instruction, after BIG_MAP_DIFF has run
example : (cellWith repaired (sessionWith repaired State.init [declare, beginCell, body]).2 failing).2 = .failed := by decide
example : (cellWith repaired (sessionWith repaired State.init [declare, beginCell, body]).2 [.op (.basic .cdr), .op .bigMapDiff]).2
    = .ok [⟨"BIG_MAP_DIFF", [⟨0, .alloc, [(1, (), some 1)]⟩], none⟩] := by decide

/-- pinned shape (`__deepcopy__` keeps `context`, two separate deep copies): after the rollback the stacked big map
points at the discarded context, whose id counter BIG_MAP_DIFF has advanced — the later COMMIT allocates id 1, the
same session without the failing cell allocates id 0 -/
theorem pinned_shape_counterexample :
    ((sessionWith ⟨false, .replaceStack⟩ State.init [declare, beginCell, body, failing, commitCell]).1.map diffIds) = [[], [], [], [], [1]] ∧
    ((sessionWith ⟨false, .replaceStack⟩ State.init [declare, beginCell, body, commitCell]).1.map diffIds) = [[], [], [], [0]] ∧
    observe (cellWith ⟨false, .replaceStack⟩ (sessionWith ⟨false, .replaceStack⟩ State.init [declare, beginCell, body]).2 failing).1
      ≠ observe (sessionWith ⟨false, .replaceStack⟩ State.init [declare, beginCell, body]).2 := by decide

/-! failures with a protected prefix, and the patched environment -/

def push12 : Cell := [.op (.basic (.push 1)), .op (.basic (.push 2))]
/-- `DIP { UNIT ; FAILWITH }`: raises inside the body, while one item is protected -/
def failInDip : Cell := [.dip [.op (.basic .unit), .op (.basic .failwith)]]
/-- `PUSH nat 9 ; DIP 2 { DIP { DROP ; UNIT ; UNIT ; ADD } }`: raises two DIPs deep, three items protected -/
def failNested : Cell := [.op (.basic (.push 9)), .dipn 2 [.dip [.op (.basic .drop), .op (.basic .unit), .op (.basic .unit), .op (.basic .add)]]]
/-- `DIG 2` on two items: `protect(2)` succeeds, `pop1()` raises -/
def digAtDepth : Cell := [.op (.basic (.dig 2))]
/-- `DUP 3` on two items: `protect(2)` succeeds, `peek()` raises -/
def dupBeyond : Cell := [.op (.basic (.dupn 2))]
def push3 : Cell := [.op (.basic (.push 3))]

/-- `protected` of the live stack object at the moment the cell raises -/
def protAtFailure (σ : State) (cl : Cell) : Option Nat :=
  match runInstrs heapStore σ.cur cl σ.stack σ.heap with
  | (.error f, _) => some f.prot
  | (.ok _, _) => none

-- the four cells raise with 1, 3, 2 and 2 items protected …
example : [failInDip, failNested, digAtDepth, dupBeyond].map (protAtFailure (sessionWith repaired State.init [push12]).2)
    = [some 1, some 3, some 2, some 2] := by decide
-- … are reported as failed, and the PUSH after them lands on top
example : (sessionWith repaired State.init [push12, failInDip, failNested, digAtDepth, dupBeyond, push3]).1.map CellResult.isFailed
    = [false, true, true, true, true, false] := by decide
example : (observe (sessionWith repaired State.init [push12, failInDip, failNested, digAtDepth, dupBeyond, push3]).2).stack
    = [.nat 3, .nat 2, .nat 1] := by decide
-- a successful DIP works below the top: `DIP { PUSH nat 7 }` on [2, 1] gives [2, 7, 1]
example : (observe (sessionWith repaired State.init [push12, [.dip [.op (.basic (.push 7))]]]).2).stack = [.nat 2, .nat 7, .nat 1] := by decide

/-- the in-place restore (`self.stack.items = stack_backup.items`): the live stack object survives the rollback with
the `protected` counter it had when the cell raised, so the state after the failing cell differs from the one before
it (`protected` 1, resp. 2, instead of 0) and a later PUSH lands below the leaked prefix: `[2, 3, 1]`, `[2, 1, 3]`
instead of `[3, 2, 1]` -/
theorem items_only_counterexample :
    (observe (cellWith ⟨true, .itemsOnly⟩ (sessionWith ⟨true, .itemsOnly⟩ State.init [push12]).2 failInDip).1).protected_ = 1 ∧
    observe (cellWith ⟨true, .itemsOnly⟩ (sessionWith ⟨true, .itemsOnly⟩ State.init [push12]).2 failInDip).1
      ≠ observe (sessionWith ⟨true, .itemsOnly⟩ State.init [push12]).2 ∧
    (observe (sessionWith ⟨true, .itemsOnly⟩ State.init [push12, failInDip, push3]).2).stack = [.nat 2, .nat 3, .nat 1] ∧
    (observe (sessionWith ⟨true, .itemsOnly⟩ State.init [push12, digAtDepth, push3]).2).stack = [.nat 2, .nat 1, .nat 3] ∧
    (observe (sessionWith ⟨true, .itemsOnly⟩ State.init [push12, push3]).2).stack = [.nat 3, .nat 2, .nat 1] := by decide

/-- `PATCH AMOUNT 5` · `PATCH AMOUNT 9 ; PATCH SENDER a0 ; DIP { FAIL }` · `AMOUNT ; SENDER` -/
def patchSession : List Cell :=
  [[.op (.patch .amount (some (.int 5)))],
   [.op (.patch .amount (some (.int 9))), .op (.patch .sender (some (.str (.addr 0)))), .dipn 0 [.op (.basic .unit), .op (.basic .failwith)]],
   [.op (.basic .amount), .op (.basic .sender)]]

-- the patches of the failing cell are rolled back with the context: AMOUNT pushes 5 mutez, SENDER the dummy address
example : (sessionWith repaired State.init patchSession).1.map CellResult.isFailed = [false, true, false] := by decide
example : (observe (sessionWith repaired State.init patchSession).2).stack = [.address .dummy, .mutez 5] := by decide
example : ((observe (sessionWith repaired State.init patchSession).2).context.map fun c => (c.amount, c.sender)) = some (some 5, none) := by decide

end C22
