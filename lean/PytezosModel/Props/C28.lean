import PytezosModel.Client.MultiNode
/-! C28 — a multi-node client sends its i-th request to node `i % n`, whatever the earlier outcomes. -/
namespace C28
open Impl.MultiNode

theorem run_true (n : Nat) (hn : 0 < n) (os : List Bool) (k : Nat) :
    run true n (k % n) os = (List.range os.length).map (fun i => (k + i) % n) := by
  induction os generalizing k with
  | nil => simp [run]
  | cons o os ih =>
    have h : (k % n + 1) % n = (k + 1) % n := Nat.mod_add_mod k n 1
    simp only [run, step, Bool.or_true, if_true, h, ih (k + 1), List.length_cons, List.range_succ_eq_map,
      List.map_cons, List.map_map, Nat.add_zero]
    congr 1
    apply List.map_congr_left
    intro a _
    simp only [Function.comp]
    congr 1
    omega

/-- the property, for every node count and every outcome sequence (no length bound) -/
theorem rotation (n : Nat) (hn : 0 < n) (outcomes : List Bool) :
    nodesUsed n outcomes = some ((List.range outcomes.length).map (· % n)) := by
  have h := run_true n hn outcomes 0
  simp only [Nat.zero_mod, Nat.zero_add] at h
  simp [nodesUsed, Generated.C28.advanceOnError, h]

/-- the i-th request goes to node `i % n` -/
theorem rotation_ith (n : Nat) (hn : 0 < n) (outcomes : List Bool) (i : Nat) (hi : i < outcomes.length) :
    (nodesUsed n outcomes).map (·[i]?) = some (some (i % n)) := by
  simp [rotation n hn outcomes, hi]

-- non-vacuity: a concrete mixed success/failure history over three nodes
example : nodesUsed 3 [true, false, false, true, true] = some [0, 1, 2, 0, 1] := by
  simp [rotation 3 (by omega)]; decide

end C28
