import PytezosModel.Proofs.C04Spec
import PytezosModel.Props.C11
/-! C04 — PACK produces Tezos bytes and UNPACK inverts it for every packable type.

`Impl.Pack.pack` / `unpackRaw` / `unpack` mirror `MichelsonType.pack` / `MichelsonType.unpack` / the `UNPACK`
instruction (src/pytezos/michelson/types/base.py, instructions/generic.py) on top of C11's value codec
(`Impl.Value.toMich` / `ofMich`) and C05's binary Micheline codec (`Impl.Lower.forgeMich` / `unforgeMich`), all
instantiated with what the translators read from the source now.

Full statement (properties.jsonl): (1) PACK = `05` ++ optimized binary Micheline, combs of four or more components as
sequences; (2) UNPACK of those bytes at the same type gives an equal value; (3) UNPACK gives None on byte strings that
are not valid Tezos binary Micheline (non-minimal integers, truncation, …).
All three are proved at full strength for every packable type and value (no depth / size bound).  Side conditions:
`env.Lawful` (C09 / C10 / `datetime` contracts, as in C11), lambda bodies made of protocol primitives with space-free
annotations (`hcode`; C05's domain), and for (2) the signature normalisation of C11 (`faithful`: a typed 64-byte
signature comes back as generic `sig`).  (1) needs the annotation-blind `iter_comb` (C17's repair) — `source_shape`
fails to close on a tree where `iter_comb` still consults annotations. -/
namespace C04
open VC Core Impl.Value Impl.Pack

/-- what the proofs need from the source: `iter_comb` ignores annotations (C17), UNPACK catches every exception,
`pack` / `unpack` / `is_packable` have the mirrored shape, the integer reader is strict (C05) -/
theorem source_shape :
    Generated.C11.combConsultsAnnots = some false ∧ Generated.C04.unpackCatchesAll = some true ∧
      Impl.Pack.sourceOk = true ∧ Impl.Lower.strict = true ∧ VC.sourceOk = true := by
  decide

/-- **(1) PACK = 05 ++ canonical optimized binary Micheline** — the canonical form `Spec.Pack.optimized` is stated
without annotations (components = the whole right spine; `Pair a b`, `Pair a (Pair b c)`, sequence from 4 on) -/
theorem pack_eq_spec (env : Env) (τ : Ty) (v : Val) (hp : packable τ = true) (hty : hasTy env τ v = true) :
    pack env τ false v = Spec.Pack.pack env v := by
  have hr := no_raise_packable env .optimized τ (some false) v hp hty
  have hs := (render_eq_spec env consults_false τ (some false) v hp hty).1
  simp [pack, sourceOk_true, hp, packMode, toMich, source_ok, hr, hs, Spec.Pack.pack, Spec.Pack.optimized]

/-- the Micheline under the `05` is exactly `Spec.Pack.optimized`, e.g. for a 4-comb the sequence form -/
theorem pack_micheline (env : Env) (τ : Ty) (v : Val) (hp : packable τ = true) (hty : hasTy env τ v = true) :
    toMich env .optimized (some false) v = .ok (Spec.Pack.optimized env v) := by
  have hr := no_raise_packable env .optimized τ (some false) v hp hty
  have hs := (render_eq_spec env consults_false τ (some false) v hp hty).1
  simp [toMich, source_ok, hr, hs, Spec.Pack.optimized]

/-- **(2) UNPACK ∘ PACK = Some** (both `pack()` and `pack(legacy=True)`; composition of C11's round trip with C05's
`unforge_forge`) -/
theorem unpack_pack (env : Env) (hl : env.Lawful)
    (hcode : ∀ code, env.lambdaOk code = true → forgeableL code = true)
    (τ : Ty) (v : Val) (legacy : Bool) (hp : packable τ = true) (hty : hasTy env τ v = true)
    (hf : faithful (packMode legacy) (some false) τ v = true) (bs : Bytes) (h : pack env τ legacy v = some bs) :
    unpack env τ bs = .value v ∧ unpackRaw env τ bs = .ok v := by
  have hr := no_raise_packable env (packMode legacy) τ (some false) v hp hty
  simp only [pack, sourceOk_true, hp, toMich, source_ok, hr, Bool.not_true, Bool.false_eq_true, if_false,
    Option.map_eq_some_iff] at h
  obtain ⟨fb, hfb, rfl⟩ := h
  have hfg := (render_forgeable env (packMode legacy) hcode τ (some false) v hty).1
  have hun := unforgeMich_forgeMich _ hfg fb hfb
  have hof : ofMich env τ (render env (packMode legacy) (some false) v).1 = .ok v := by
    simp [ofMich, source_ok, (rt env hl (packMode legacy) τ).1 (some false) v hty hf]
  have hraw : unpackRaw env τ (5 :: fb) = .ok v := by
    simp [unpackRaw, sourceOk_true, hp, hun, hof]
  exact ⟨by simp [unpack, hraw], hraw⟩

/-- for types without signatures there is no side condition on the value -/
theorem unpack_pack_plain (env : Env) (hl : env.Lawful)
    (hcode : ∀ code, env.lambdaOk code = true → forgeableL code = true)
    (τ : Ty) (v : Val) (legacy : Bool) (hp : packable τ = true) (hplain : Spec.Value.plainTy τ = true)
    (hty : hasTy env τ v = true) (bs : Bytes) (h : pack env τ legacy v = some bs) :
    unpack env τ bs = .value v :=
  (unpack_pack env hl hcode τ v legacy hp hty (faithful_of_plain _ τ _ v hplain) bs h).1

/-- **(3) UNPACK gives None on anything the strict Tezos decoder rejects** (truncation, trailing bytes, non-minimal
zarith, unknown node or primitive tags, inconsistent length prefixes — `Spec.Micheline.decode`, C05): never a value,
never an exception -/
theorem unpack_none_of_invalid (env : Env) (τ : Ty) (bs : Bytes)
    (h : Spec.Micheline.decode Impl.Lower.known bs = none) : unpack env τ (5 :: bs) = .none := by
  have hu : Impl.Forge.unforge Impl.Lower.known Impl.Lower.strict bs = none := by
    cases hd : Impl.Forge.unforge Impl.Lower.known Impl.Lower.strict bs with
    | none => rfl
    | some e =>
      have hs : Impl.Lower.strict = true := by decide
      rw [hs] at hd
      have := Impl.Forge.unforge_refines_spec Impl.Lower.known bs e hd
      rw [h] at this
      exact absurd this (by simp)
  have hm : Impl.Lower.unforgeMich bs = none := by simp [Impl.Lower.unforgeMich, hu]
  have hc : Generated.C04.unpackCatchesAll = some true := by decide
  have hraw : ∃ e, unpackRaw env τ (5 :: bs) = .error e := by
    simp only [unpackRaw, hm]
    split
    · exact ⟨_, rfl⟩
    · split <;> exact ⟨_, rfl⟩
  obtain ⟨e, he⟩ := hraw
  simp [unpack, he, hc]

/-- a byte string that does not start with `05` unpacks to None -/
theorem unpack_none_of_bad_prefix (env : Env) (τ : Ty) (bs : Bytes) (h : bs.head? ≠ some 5) :
    unpack env τ bs = .none := by
  have hc : Generated.C04.unpackCatchesAll = some true := by decide
  have hraw : ∃ e, unpackRaw env τ bs = .error e := by
    simp only [unpackRaw]
    split
    · exact ⟨_, rfl⟩
    · split
      · exact ⟨_, rfl⟩
      · split
        · rename_i rest; simp at h
        · exact ⟨_, rfl⟩
  obtain ⟨e, he⟩ := hraw
  simp [unpack, he, hc]

/-- UNPACK never lets an exception escape: the outcome is a value or None -/
theorem unpack_total (env : Env) (τ : Ty) (bs : Bytes) :
    (∃ v, unpack env τ bs = .value v) ∨ unpack env τ bs = .none := by
  have hc : Generated.C04.unpackCatchesAll = some true := by decide
  cases h : unpackRaw env τ bs with
  | ok v => exact Or.inl ⟨v, by simp [unpack, h]⟩
  | error e => exact Or.inr (by simp [unpack, h, hc])

/-- a value UNPACK returns is what `from_micheline_value` makes of the strictly decoded Micheline -/
theorem unpack_value_strict (env : Env) (τ : Ty) (bs : Bytes) (v : Val) (h : unpack env τ bs = .value v) :
    ∃ rest m, bs = 5 :: rest ∧ Impl.Lower.specDecodeMich rest = some m ∧ ofMich env τ m = .ok v ∧ packable τ = true := by
  have hc : Generated.C04.unpackCatchesAll = some true := by decide
  cases hr : unpackRaw env τ bs with
  | error e => simp [unpack, hr, hc] at h
  | ok w =>
    simp only [unpack, hr, Outcome.value.injEq] at h
    subst h
    simp only [unpackRaw, sourceOk_true, Bool.not_true, Bool.false_eq_true, if_false] at hr
    by_cases hp : packable τ = true
    · simp only [hp, Bool.not_true, Bool.false_eq_true, if_false] at hr
      match bs, hr with
      | 5 :: rest, hr =>
        cases hm : Impl.Lower.unforgeMich rest with
        | none => simp [hm] at hr
        | some m =>
          simp only [hm] at hr
          refine ⟨rest, m, rfl, ?_, hr, hp⟩
          simp only [Impl.Lower.unforgeMich] at hm
          split at hm
          · exact absurd hm (by simp)
          · cases hu : Impl.Forge.unforge Impl.Lower.known Impl.Lower.strict rest with
            | none => simp [hu] at hm
            | some e =>
              have hs : Impl.Lower.strict = true := by decide
              have hu' := hu
              rw [hs] at hu'
              have := Impl.Forge.unforge_refines_spec Impl.Lower.known rest e hu'
              simp only [hu, Option.bind_some] at hm
              simp [Impl.Lower.specDecodeMich, this, hm]
    · simp [hp] at hr

/-- PACK of an unpackable type raises (`none`) -/
theorem pack_none_of_unpackable (env : Env) (τ : Ty) (legacy : Bool) (v : Val) (h : packable τ = false) :
    pack env τ legacy v = none := by
  simp [pack, h]

/-! ### non-vacuity -/

/-- an annotated 5-comb packs to the sequence form (`02…`), whatever the annotations of the inner pairs -/
example (env : Env) :
    let τ : Ty := .pair (.leaf .nat {}) (.pair (.leaf .nat {}) (.pair (.leaf .nat {}) (.pair (.leaf .nat {}) (.leaf .nat {}) { field := some "d" })
      { type := some "c" }) { field := some "b" }) { field := some "a" }
    let v : Val := .pair true (.int 1) (.pair true (.int 2) (.pair true (.int 3) (.pair true (.int 4) (.int 5))))
    packable τ = true ∧ hasTy env τ v = true ∧
      pack env τ false v = some [5, 2, 0, 0, 0, 10, 0, 1, 0, 2, 0, 3, 0, 4, 0, 5] := by
  intro τ v
  have hp : packable τ = true := by decide
  have hty : hasTy env τ v = true := by simp [τ, v, hasTy, Annot.named]
  refine ⟨hp, hty, ?_⟩
  rw [pack_eq_spec env τ v hp hty]
  simp only [v, Spec.Pack.pack, Spec.Pack.optimized, Spec.Pack.optBoth, Spec.Pack.one, Spec.Pack.layout,
    Spec.Value.combLayout]
  decide +kernel

/-- the non-minimal integer `05 00 81 00` (Tezos: not valid) unpacks to None -/
example (env : Env) (τ : Ty) : unpack env τ [5, 0, 129, 0] = .none :=
  unpack_none_of_invalid env τ [0, 129, 0] (by decide +kernel)

end C04
