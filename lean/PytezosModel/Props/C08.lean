import PytezosModel.Proofs.KeyImport
import PytezosModel.Proofs.Mnemonic
import PytezosModel.Proofs.KeyToy
/-! C08 — key import, export and address derivation are consistent.

Full statement (properties.jsonl): for every secret key of each curve, the derived public key matches an
independent implementation, and the public key hash is the base58 tz1/tz2/tz3/tz4 encoding of the Blake2b-160
digest of the public key.  Exporting the secret key, plain or encrypted with any passphrase, and importing it
again yields the same key.  A mnemonic is accepted exactly when its BIP-39 checksum is valid, and derivation
from the same mnemonic, email and passphrase is deterministic.

Proved here, for **all** keys / passphrases / salts / word sequences, about the mirror `Impl.Key` instantiated
with the constants and tables the translator reads from the source now:
`pkh_formula`, `hash_key_eq_pkh`, `export_import_*`, `public_key_roundtrip`, `prefix_dispatch_total`,
`mnemonic_accept_iff`.  Primitives are parameters with the contracts `Laws` (secretbox `open (seal m) = m`, box
length, digest lengths, ed25519 seed ↔ secret key) and `CodecLaws` (Base58Check, C09).
**Partial**: that a derived public key equals what an independent implementation derives, PBKDF2, secretbox and
SHA-256 themselves are *not* provable here; the harness samples them against `cryptography`, an own
XSalsa20-Poly1305 and hashlib.  Determinism of derivation is definitional: `fromMnemonic` and
`fromSecretExponent` are functions of their arguments (`derivation_deterministic` only records that); the
harness additionally derives every sampled key twice. -/
namespace C08
open Impl.Key

/-- **address formula**: the public key hash is the Base58 `tz1/tz2/tz3/tz4` encoding (by curve) of the 20-byte
Blake2b digest of the public point -/
theorem pkh_formula (P : Prims) (C : Codec) (k : Key) :
    publicKeyHash P C k = orErr (C.encode (P.blake2b 20 k.pub) (Spec.tz k.curve)) (.valueError .codec) :=
  publicKeyHash_eq P C k

/-- … it succeeds, is 36 characters starting with `tzN`, and decodes back to the digest -/
theorem pkh_wellformed (P : Prims) (C : Codec) (L : Laws P) (CL : CodecLaws C pkhRows) (k : Key) :
    ∃ s, publicKeyHash P C k = .ok s ∧ s.length = 36 ∧ Spec.tz k.curve <+: s ∧
      C.decode s = some (P.blake2b 20 k.pub) := by
  obtain ⟨r, hr, hh, hd, he⟩ := pkhRow k.curve
  obtain ⟨hl, hb⟩ := L.blake_len 20 k.pub
  obtain ⟨s, henc, hdec, hlen, hpre, _⟩ := CL.enc_dec r hr _ (by rw [hl, hd]) hb
  rw [hh] at henc hpre
  exact ⟨s, by rw [pkh_formula, henc]; rfl, by rw [hlen, he], hpre, hdec⟩

/-- HASH_KEY on a key text gives the public key hash of the key it imports to -/
theorem hash_key_eq_pkh (P : Prims) (C : Codec) (a : Str) (k : Key)
    (hk : fromEncodedKey P C (.str a) none = .ok k) : hashKey P C a = publicKeyHash P C k := by
  simp [hashKey, pkh_rec.2.1, hk]

/-- HASH_KEY of the exported public key of a key is that key's hash -/
theorem hash_key_of_public_key (P : Prims) (C : Codec) (L : Laws P) (CL : CodecLaws C keyRows)
    (k : Key) (sk : Bytes) (hkp : KeyPair P k.curve k.pub sk) :
    ∃ a, publicKey C k = .ok a ∧ hashKey P C a = publicKeyHash P C k := by
  obtain ⟨a, h1, h2⟩ := public_key_roundtrip P C L CL k sk hkp
  refine ⟨a, h1, ?_⟩
  rw [hash_key_eq_pkh P C a _ (h2 none), pkh_formula, pkh_formula]

/-- **export / import, unencrypted** (no passphrase or an empty one): the `xxsk` text imports to the same key,
whatever passphrase is offered on import -/
theorem export_import_plain (P : Prims) (C : Codec) (L : Laws P) (CL : CodecLaws C keyRows)
    (k : Key) (hk : WFKey P k) (pass : Option Bytes) (hp : pass.getD [] = []) (salt : Bytes) :
    ∃ s, secretKey P C k pass true salt = .ok s ∧ ∀ pass', fromEncodedKey P C (.str s) pass' = .ok k :=
  Impl.Key.export_import_plain P C L CL k hk pass hp salt

/-- **export / import, encrypted with any non-empty passphrase** and any 8-byte salt (what `randombytes(8)`
returns): the `xxesk` text imports to the same key with that passphrase -/
theorem export_import_encrypted (P : Prims) (C : Codec) (L : Laws P) (CL : CodecLaws C keyRows)
    (k : Key) (hk : WFKey P k) (pw : Bytes) (hpw : pw ≠ []) (salt : Bytes) (hsl : salt.length = 8)
    (hsb : IsBytes salt) :
    ∃ s, secretKey P C k (some pw) true salt = .ok s ∧ fromEncodedKey P C (.str s) (some pw) = .ok k :=
  Impl.Key.export_import_encrypted P C L CL k hk pw hpw salt hsl hsb

/-- **export / import with `ed25519_seed=False`** (64-byte ed25519 secret key) -/
theorem export_import_raw (P : Prims) (C : Codec) (L : Laws P) (CL : CodecLaws C keyRows)
    (k : Key) (hk : WFKey P k) (salt : Bytes) :
    ∃ s, secretKey P C k none false salt = .ok s ∧ ∀ pass', fromEncodedKey P C (.str s) pass' = .ok k :=
  Impl.Key.export_import_raw P C L CL k hk salt

/-- the exported public key imports to the same public point and curve -/
theorem public_key_roundtrip (P : Prims) (C : Codec) (L : Laws P) (CL : CodecLaws C keyRows)
    (k : Key) (sk : Bytes) (hkp : KeyPair P k.curve k.pub sk) :
    ∃ s, publicKey C k = .ok s ∧ ∀ pass, fromEncodedKey P C (.str s) pass = .ok ⟨k.pub, none, k.curve⟩ :=
  Impl.Key.public_key_roundtrip P C L CL k sk hkp

/-- keys built by `from_secret_exponent` from 32 bytes are the keys the theorems above speak about -/
theorem from_secret_exponent_wf (P : Prims) (c : Curve) (se : Bytes) (h32 : se.length = 32)
    (hb : IsBytes se) (k : Key) (h : fromSecretExponent P c se = .ok k) : WFKey P k ∧ k.curve = c :=
  fromSecretExponent_wf P c se h32 hb k h

/-- **prefix dispatch is total and right**: every key kind of the regenerated table (`xx(e)sk/pk`) is a kind of
the Tezos registry, and any text with that prefix and the kind's length is classified by `from_encoded_key`
with the registry's curve, encryption flag and secrecy; conversely every registry kind is in the table. -/
theorem prefix_dispatch_total :
    (∀ r ∈ keyRows, ∀ s : Str, r.human <+: s → s.length = r.encLen →
      ∃ spec, Spec.keyKind r.human = some spec ∧ classify s = .ok spec) ∧
    (∀ p ∈ Spec.keyKinds, ∃ r ∈ keyRows, r.human = p.1) :=
  ⟨fun r hr s hp hl => classify_row r hr s hp hl, by decide⟩

/-- **mnemonic validation = BIP-39 checksum**: for word sequences given by their word-list indices (`none` = not
in the list), `validate_mnemonic` returns exactly when all words are in the list, the count is 12/15/18/21/24
and the last `count/3` bits equal the first `count/3` bits of SHA-256 of the entropy bytes. -/
theorem mnemonic_accept_iff (P : Prims) (L : Laws P) (ws : List (Option Nat))
    (hlt : ∀ i, some i ∈ ws → i < 2048) :
    validateMnemonic P ws = .ok () ↔ ∃ idx, ws = idx.map some ∧ Spec.bip39Valid P.sha256 idx :=
  validateMnemonic_iff P L.sha_len ws hlt

/-- guard of the partial theorem below: the curve's derivation primitive accepts the first 32 seed bytes -/
def derivable (P : Prims) (c : Curve) (s32 : Bytes) : Bool :=
  match c with
  | .ed => (P.edSeedKeypair s32).isSome
  | c => (P.pub c s32).isSome

/- Full statement wanted at the level of `Key.from_mnemonic` ("a mnemonic is accepted exactly when its BIP-39
checksum is valid"):
    theorem from_mnemonic_accepts : Spec.bip39Valid P.sha256 idx → ∃ k, fromMnemonic P (idx.map some) … c = .ok k
It does NOT hold on this tree for BLS12-381: `seed[:32]` is handed to `G2.SkToPk` as a little-endian scalar and
py_ecc refuses scalars that are not below the group order — about half of all mnemonics (open finding
`mnemonic-derivation-raises:BL:seed-not-below-group-order`, replayed by the harness on the real code).  Proved:
the statement under the explicit guard `derivable`, the converse for invalid checksums, and a counter-example
inside the model (`from_mnemonic_counterexample`). -/
theorem from_mnemonic_accepts_partial (P : Prims) (L : Laws P) (idx : List Nat) (hlt : ∀ i ∈ idx, i < 2048)
    (hv : Spec.bip39Valid P.sha256 idx) (text pass email : Str) (validate : Bool) (c : Curve)
    (hg : derivable P c ((P.toSeed text (email ++ pass)).take 32) = true) :
    ∃ k, fromMnemonic P (idx.map some) text pass email validate c = .ok k ∧ k.curve = c := by
  have hrec : Generated.C08.fromMnemonicRecognised = true := by decide
  have hval : validateMnemonic P (idx.map some) = .ok () :=
    (mnemonic_accept_iff P L (idx.map some) (by
      intro i hi
      obtain ⟨j, hj, hji⟩ := List.mem_map.mp hi
      exact (Option.some.inj hji) ▸ hlt j hj)).mpr ⟨idx, rfl, hv⟩
  have hvv : (if validate = true then validateMnemonic P (idx.map some) else Except.ok ()) = .ok () := by
    cases validate <;> simp [hval]
  unfold fromMnemonic
  simp only [hrec, Bool.not_true, Bool.false_eq_true, if_false, hvv]
  cases c
  · simp only [derivable] at hg
    cases hkp : P.edSeedKeypair ((P.toSeed text (email ++ pass)).take 32) with
    | none => simp [hkp] at hg
    | some pksk =>
      obtain ⟨pk, sk⟩ := pksk
      obtain ⟨_, _, h64, _, hpk, _⟩ := L.ed_keypair _ pk sk hkp
      exact ⟨⟨pk, some sk, .ed⟩, by simp [fromSecretExponent, fse_rec, h64, hpk], rfl⟩
  · cases hp : P.pub .sp ((P.toSeed text (email ++ pass)).take 32) with
    | none => simp [derivable, hp] at hg
    | some pk => exact ⟨⟨pk, some ((P.toSeed text (email ++ pass)).take 32), .sp⟩, by simp [fromSecretExponent, fse_rec, hp], rfl⟩
  · cases hp : P.pub .p2 ((P.toSeed text (email ++ pass)).take 32) with
    | none => simp [derivable, hp] at hg
    | some pk => exact ⟨⟨pk, some ((P.toSeed text (email ++ pass)).take 32), .p2⟩, by simp [fromSecretExponent, fse_rec, hp], rfl⟩
  · cases hp : P.pub .bl ((P.toSeed text (email ++ pass)).take 32) with
    | none => simp [derivable, hp] at hg
    | some pk => exact ⟨⟨pk, some ((P.toSeed text (email ++ pass)).take 32), .bl⟩, by simp [fromSecretExponent, fse_rec, hp], rfl⟩

/-- with validation on, a word sequence that is not BIP-39 valid is refused before any derivation -/
theorem from_mnemonic_rejects_invalid (P : Prims) (L : Laws P) (ws : List (Option Nat))
    (hlt : ∀ i, some i ∈ ws → i < 2048) (hinv : ¬ ∃ idx, ws = idx.map some ∧ Spec.bip39Valid P.sha256 idx)
    (text pass email : Str) (c : Curve) :
    ∃ e, fromMnemonic P ws text pass email true c = .error e := by
  have hrec : Generated.C08.fromMnemonicRecognised = true := by decide
  cases hval : validateMnemonic P ws with
  | ok u => cases u; exact absurd ((mnemonic_accept_iff P L ws hlt).mp hval) hinv
  | error e => exact ⟨e, by simp [fromMnemonic, hrec, hval]⟩

/-- the toy primitives with a BLS derivation that, like py_ecc, refuses a little-endian scalar whose top byte
is 0x74 or more (the group order starts with 0x73ed…) -/
def Toy.primsStrict : Prims :=
  { Toy.prims with pub := fun c sk => if c = .bl && decide (116 ≤ sk.getLastD 0) then none else Toy.prims.pub c sk }

/-- counter-example inside the model: `abandon` x 12 is BIP-39 valid for the toy SHA, yet `from_mnemonic` with
curve BLS fails in the derivation primitive when the seed's scalar is out of range (here: passphrase byte 0xff
gives the all-0xff seed), while the same mnemonic derives an ed25519 key -/
theorem from_mnemonic_counterexample :
    (validateMnemonic Toy.primsStrict (List.replicate 12 (some 0))).toBool = true ∧
    (fromMnemonic Toy.primsStrict (List.replicate 12 (some 0)) [] [255] [] true .bl).toBool = false ∧
    (fromMnemonic Toy.primsStrict (List.replicate 12 (some 0)) [] [255] [] true .ed).toBool = true := by
  decide +kernel

/-- derivation is a function of (words, text, passphrase, email, curve): same inputs, same key -/
theorem derivation_deterministic (P : Prims) (ws ws' : List (Option Nat)) (text text' pass pass' email email' : Str)
    (v : Bool) (c : Curve) (h1 : ws = ws') (h2 : text = text') (h3 : pass = pass') (h4 : email = email') :
    fromMnemonic P ws text pass email v c = fromMnemonic P ws' text' pass' email' v c := by
  subst h1 h2 h3 h4; rfl

/-! ### non-vacuity -/

theorem hypotheses_satisfiable :
    Laws Toy.prims ∧ CodecLaws Toy.codec keyRows ∧ CodecLaws Toy.codec pkhRows ∧ WFKey Toy.prims Toy.keyBl ∧
      WFKey Toy.prims Toy.keyEd :=
  ⟨Toy.laws, Toy.codec_laws_key, Toy.codec_laws_pkh,
    ⟨List.range 32, rfl, rfl, fun _ => ⟨by decide, Toy.isBytes_of_all _ (by decide)⟩⟩,
    ⟨_, rfl, ⟨List.range 32, by decide +kernel⟩, fun h => absurd rfl h⟩⟩

-- an encrypted export of the toy ed25519 key with passphrase "pw" and salt 1..8 imports back
example : ∃ s, secretKey Toy.prims Toy.codec Toy.keyEd (some [112, 119]) true [1, 2, 3, 4, 5, 6, 7, 8] = .ok s ∧
    fromEncodedKey Toy.prims Toy.codec (.str s) (some [112, 119]) = .ok Toy.keyEd :=
  export_import_encrypted Toy.prims Toy.codec Toy.laws Toy.codec_laws_key Toy.keyEd hypotheses_satisfiable.2.2.2.2
    [112, 119] (by decide) [1, 2, 3, 4, 5, 6, 7, 8] rfl (Toy.isBytes_of_all _ (by decide))

-- `BLesk…` of 88 characters is an encrypted BLS secret key; `edpk…` of 54 a plain ed25519 public key
example : classify ([66, 76, 101, 115, 107] ++ List.replicate 83 49) = .ok (.bl, true, true) := rfl
example : classify ([101, 100, 112, 107] ++ List.replicate 50 49) = .ok (.ed, false, false) := rfl
-- thirteen words: rejected for their number; a word outside the list: rejected
example : validateMnemonic Toy.prims (List.replicate 13 (some 0)) = .error (.valueError .mnemonicLength) := rfl
example : validateMnemonic Toy.prims (none :: List.replicate 11 (some 0)) = .error (.valueError .mnemonicWord) := rfl
-- with the toy SHA (32 copies of the byte sum): 12 x word 0 has checksum bits 0000 = its last 4 bits: accepted;
-- changing the last word to index 1 breaks the checksum; 23 x word 2047 + word 2016 (= 111 ‖ 11100000) is accepted
example : (validateMnemonic Toy.prims (List.replicate 12 (some 0))).toBool = true := by decide +kernel
example : (validateMnemonic Toy.prims (List.replicate 11 (some 0) ++ [some 1])).toBool = false := by decide +kernel
example : (validateMnemonic Toy.prims (List.replicate 23 (some 2047) ++ [some 2016])).toBool = true := by
  decide +kernel

end C08
