import PytezosModel.Proofs.InterpSoundEval
import PytezosModel.Props.C01
/-! C02 — every value the interpreter leaves on the stack has exactly the type the Michelson typing rules
assign to that slot (annotations are not part of the modelled types).

`Typing.typeInstr` is the static type system of the modelled core (annotation-free typing rules written from
the reference); `typeOf` mirrors how pytezos builds the runtime type of a value (`from_items`, `from_some`,
`from_comb`, `create_type`: every `Val` carries the types its Python object carries); `HasTy v t` is deep
well-formedness (every element of a collection, every lambda body) and `StackTy` its pointwise lift.

FULL STATEMENT (properties.jsonl): for every well-typed program and input, every value left on the stack
(and hence the storage taken from it) has exactly the statically assigned type.

* `preservation` proves it at full strength for the reference semantics `Spec.eval`.
* `run_preserves_types` transports it to the mirror of pytezos' machine, `Impl.run`, for every execution
  inside the guard of C01 ("MAP is never applied to an *empty* collection with a type-changing body").
  Outside the guard pytezos really leaves a value of the wrong type (recorded open finding:
  `map_empty_type_counterexample`), so the unguarded statement is false of the code.
* `type_soundness` adds the progress half (C01's `progress`): a well-typed program on well-typed values is never
  stuck; `welltyped_run_preserves_types` is `run_preserves_types` with well-typedness as the hypothesis (no "the
  reference run is not stuck").
* `map_keeps_key_type` is the sentence "instructions that transform collections keep their key and element
  types" for MAP over a map with an arbitrary (composite) key type. -/
namespace C02
open Interp Typing

/- `HasTy` / `StackTy` / `WF` below are the judgements of the generic development (class `Interp.Mode`, Proofs/InterpTyping.lean)
at the Michelson typing rules: `HasTy v t` is `Typing.checkVal false v t = true` (`hasTy_is_checkVal`). -/
local instance : Mode := Mode.lax

/-- what `HasTy` means in this file -/
theorem hasTy_is_checkVal (v : Val) (t : Ty) : HasTy v t ↔ Typing.checkVal false v t = true := Iff.rfl

/-- **type preservation (reference semantics)**: a well-typed instruction run on a stack of the input type
ends with a stack whose every slot is a well-formed value of exactly the statically assigned type. -/
theorem preservation (env : Env) (fuel : Nat) (i : Instr) (st st' : List Val) (ts : List Ty) (tr : TRes)
    (hst : StackTy st ts) (hty : typeInstr false i ts = some tr) (hev : Spec.eval false env fuel i st = .ok st') :
    ∃ ts', tr = .ok ts' ∧ StackTy st' ts' :=
  Interp.preservation env fuel i st st' ts tr hst hty hev

/-- slot by slot: the runtime type pytezos attaches to each final value is the static type of the slot -/
theorem preservation_runtime_types (env : Env) (fuel : Nat) (i : Instr) (st st' : List Val) (ts ts' : List Ty)
    (hst : StackTy st ts) (hty : typeInstr false i ts = some (.ok ts')) (hev : Spec.eval false env fuel i st = .ok st') :
    st'.map typeOf = ts' := by
  obtain ⟨ts'', h1, h2⟩ := preservation env fuel i st st' ts _ hst hty hev
  cases h1
  exact h2.map_typeOf

/-- **the pytezos machine** (`Impl.run`, mirror of `Interpreter.execute` over the protected-prefix stack): for
every program, environment, fuel bound and well-typed input, if the run is inside the guard, its final stack has
exactly the statically assigned types — every slot, deep. -/
theorem run_preserves_types (env : Env) (fuel : Nat) (i : Instr) (st st' : List Val) (ts : List Ty) (tr : TRes)
    (hst : StackTy st ts) (hty : typeInstr false i ts = some tr)
    (hs : Spec.eval true env fuel i st ≠ .stuck) (hg : Spec.eval true env fuel i st ≠ .offguard) (hrun : Impl.run env fuel i st = .ok st') :
    ∃ ts', tr = .ok ts' ∧ StackTy st' ts' ∧ st'.map typeOf = ts' := by
  rw [C01.run_eq_reference env fuel i st hs hg] at hrun
  obtain ⟨ts', h1, h2⟩ := preservation env fuel i st st' ts tr hst hty hrun
  exact ⟨ts', h1, h2, h2.map_typeOf⟩

/-- **type soundness of the reference semantics** = progress + preservation: a well-typed program (typing rules,
well-formed set / map literals) on a stack of well-typed values (`StackTy`, strictly sorted sets / maps) never gets
stuck, and a stack it returns consists of well-typed values of exactly the statically assigned types. -/
theorem type_soundness (env : Env) (fuel : Nat) (i : Instr) (st : List Val) (ts : List Ty) (tr : TRes)
    (hst : StackTy st ts) (hgood : ∀ v ∈ st, litOk v = true) (hlit : literalsOk i = true)
    (hty : typeInstr false i ts = some tr) :
    Spec.eval false env fuel i st ≠ .stuck ∧
    ∀ st', Spec.eval false env fuel i st = .ok st' →
      ∃ ts', tr = .ok ts' ∧ StackTy st' ts' ∧ ∀ v ∈ st', litOk v = true := by
  obtain ⟨hw, hm⟩ := stackTy_iff.mp hst
  subst hm
  have hwf : ∀ v ∈ st, WellFormed v := fun v hv => ⟨hw v hv, hgood v hv⟩
  refine ⟨C01.progress env fuel i st tr hty hwf hlit, fun st' hev => ?_⟩
  obtain ⟨ts', h1, h2⟩ := preservation env fuel i st st' _ tr hst hty hev
  exact ⟨ts', h1, h2, fun v hv => (Interp.wellFormed_preserved env fuel i st st' tr hty hwf hlit hev v hv).2⟩

/-- **the pytezos machine, well-typed programs**: `run_preserves_types` with well-typedness in place of "the reference
run is not stuck" — the typing rules accept the program, the literals are well-formed, the input values are well-typed;
inside C01's guard every final slot of the machine has exactly the statically assigned type. -/
theorem welltyped_run_preserves_types (env : Env) (fuel : Nat) (i : Instr) (st st' : List Val) (ts : List Ty) (tr : TRes)
    (hst : StackTy st ts) (hgood : ∀ v ∈ st, litOk v = true) (hlit : literalsOk i = true)
    (hty : typeInstr false i ts = some tr)
    (hg : Spec.eval true env fuel i st ≠ .offguard) (hrun : Impl.run env fuel i st = .ok st') :
    ∃ ts', tr = .ok ts' ∧ StackTy st' ts' ∧ st'.map typeOf = ts' := by
  obtain ⟨hw, hm⟩ := stackTy_iff.mp hst
  subst hm
  have hwf : ∀ v ∈ st, WellFormed v := fun v hv => ⟨hw v hv, hgood v hv⟩
  rw [C01.welltyped_run_eq_reference env fuel i st tr hty hwf hlit hg] at hrun
  obtain ⟨ts', h1, h2⟩ := preservation env fuel i st st' _ tr hst hty hrun
  exact ⟨ts', h1, h2, h2.map_typeOf⟩

/-- **the pytezos machine, strictly typed programs — static hypotheses only**: for a program accepted by the strict
typing rules (`typeInstr true`: MAP bodies keep the element type; well-formed literals) on strictly well-typed input
values, every final slot of the machine has exactly the statically assigned type.  No guard: C01's
`strict_guard_never_fires`. -/
theorem strict_run_preserves_types (env : Env) (fuel : Nat) (i : Instr) (st st' : List Val) (tr : TRes)
    (hty : typeInstr true i (st.map typeOf) = some tr) (hwf : ∀ v ∈ st, C01.StrictWF v) (hlit : literalsOk i = true)
    (hrun : Impl.run env fuel i st = .ok st') :
    ∃ ts', tr = .ok ts' ∧ StackTy st' ts' ∧ st'.map typeOf = ts' := by
  rw [C01.strict_run_eq_reference env fuel i st tr hty hwf hlit] at hrun
  have hst : StackTy st (st.map typeOf) :=
    stackTy_iff.mpr ⟨fun v hv => (C01.strictWF_wellFormed v (hwf v hv)).1, rfl⟩
  obtain ⟨ts', h1, h2⟩ := preservation env fuel i st st' _ tr hst (C01.strict_typing_is_typing i _ tr hty) hrun
  exact ⟨ts', h1, h2, h2.map_typeOf⟩

/-- a program typed as always failing (FAILWITH in tail position) never returns a stack -/
theorem failing_type_never_returns (env : Env) (fuel : Nat) (i : Instr) (st st' : List Val) (ts : List Ty)
    (hst : StackTy st ts) (hty : typeInstr false i ts = some .failed)
    (hs : Spec.eval true env fuel i st ≠ .stuck) (hg : Spec.eval true env fuel i st ≠ .offguard) : Impl.run env fuel i st ≠ .ok st' := by
  intro hrun
  obtain ⟨ts', h1, _⟩ := run_preserves_types env fuel i st st' ts _ hst hty hs hg hrun
  cases h1

/-- the storage of a contract run: the final stack of a well-typed contract body is one
`pair (list operation) storage`; here, for any result type `pair a b`, both components are well-formed values
of the declared types -/
theorem storage_has_declared_type (env : Env) (fuel : Nat) (i : Instr) (st : List Val) (ts : List Ty) (r : Val) (a b : Ty)
    (hst : StackTy st ts) (hty : typeInstr false i ts = some (.ok [.pair a b]))
    (hs : Spec.eval true env fuel i st ≠ .stuck) (hg : Spec.eval true env fuel i st ≠ .offguard) (hrun : Impl.run env fuel i st = .ok [r]) :
    ∃ x y, r = .pair x y ∧ HasTy x a ∧ HasTy y b ∧ typeOf y = b := by
  obtain ⟨ts', h1, h2, _⟩ := run_preserves_types env fuel i st [r] ts _ hst hty hs hg hrun
  cases h1
  cases h2 with
  | cons hv _ =>
    obtain ⟨x, y, rfl, hx, hy⟩ := hasTy_pair hv
    exact ⟨x, y, rfl, hx, hy, hy.typeOf_eq⟩

/-- **collections keep their key type**: MAP over a `map k v` — for every key type `k`, composite or not —
yields a `map k v'` with the same `k`, `v'` being the type the body leaves on top. -/
theorem map_keeps_key_type (env : Env) (fuel : Nat) (body : Instr) (m : Val) (st st' : List Val)
    (k v v' : Ty) (ts : List Ty)
    (hst : StackTy (m :: st) (.map k v :: ts))
    (hbody : typeInstr false body (.pair k v :: ts) = some (.ok (v' :: ts)))
    (hs : Spec.eval true env fuel (.MAP body) (m :: st) ≠ .stuck)
    (hg : Spec.eval true env fuel (.MAP body) (m :: st) ≠ .offguard)
    (hrun : Impl.run env fuel (.MAP body) (m :: st) = .ok st') :
    ∃ r rest, st' = r :: rest ∧ typeOf r = .map k v' ∧ HasTy r (.map k v') ∧ StackTy rest ts := by
  have hty : typeInstr false (.MAP body) (.map k v :: ts) = some (.ok (.map k v' :: ts)) := by
    simp [typeInstr, hbody]
  obtain ⟨ts', h1, h2, _⟩ := run_preserves_types env fuel (.MAP body) (m :: st) st' _ _ hst hty hs hg hrun
  cases h1
  cases h2 with
  | cons hv hrest => exact ⟨_, _, rfl, hv.typeOf_eq, hv, hrest⟩

/-- the recorded finding on the mirror: the program is well-typed with result `[list int]`, the reference leaves
a `list int`, the pytezos machine a `list timestamp` — outside the guard the statement is false of the code -/
theorem map_empty_type_counterexample :
    typeInstr false (.seq [.NIL .timestamp, .MAP (.seq [.DROP, .PUSH .int (.num .int 0)])]) [] = some (.ok [.list .int]) ∧
    (∃ st', Impl.run C01.env0 5 (.seq [.NIL .timestamp, .MAP (.seq [.DROP, .PUSH .int (.num .int 0)])]) [] = .ok st' ∧
      st'.map typeOf = [.list .timestamp]) := by
  refine ⟨?_, [.list .timestamp []], C01.map_empty_counterexample.2.1, rfl⟩
  simp [typeInstr, typeSeq, Typing.step, checkVal, pushable]

-- non-vacuity: MAP { CDR } over `map (pair int int) int` (the shape named in the property) is inside the guard,
-- well-typed, and the hypotheses of `map_keeps_key_type` hold
def mPair : Val := .map (.pair .int .int) .int [.pair (.pair (.num .int 1) (.num .int 2)) (.num .int 3)]
example : StackTy [mPair] [.map (.pair .int .int) .int] :=
  .cons (by simp [HasTy, mPair, checkVal, checkVals]) .nil
example : typeInstr false .CDR [.pair (.pair .int .int) .int] = some (.ok [.int]) := by
  simp [typeInstr, Typing.step]
example : Spec.eval true C01.env0 5 (.MAP .CDR) [mPair] = .ok [mPair] := by
  simp [mPair, Spec.eval, Spec.evalMap, Spec.step, Spec.mapOf, Spec.mapOutTy, typeInstr, Typing.step, typeOf, Res.bind]

-- right combs: `UPDATE 3` changes the type of one component, `GET 0` / `UPDATE 0` are typed on every type
example : typeInstr false (.seq [.PUSH .string (.str [97]), .UPDATEN 3, .GETN 2]) [.pair .int (.pair .nat .unit)]
    = some (.ok [.pair .string .unit]) := by
  simp [typeInstr, typeSeq, Typing.step, checkVal, pushable, updateNTy, getNTy]
example : typeInstr false (.seq [.GETN 0, .UNIT, .UPDATEN 0, .UNIT, .UNIT, .PAIRN 3, .UNPAIRN 2]) [.int]
    = some (.ok [.unit, .pair .unit .unit]) := by
  simp [typeInstr, typeSeq, Typing.step, updateNTy, getNTy, pairNTy, unpairNTy]
example : StackTy [.pair (.num .int 1) (.pair (.num .nat 2) .unit)] [.pair .int (.pair .nat .unit)] :=
  .cons (by simp [HasTy, checkVal]) .nil

-- arithmetic: the result types of EDIV on mutez, AND on int × nat, SUB_MUTEZ
example : typeInstr false (.seq [.EDIV, .SWAP, .AND]) [.mutez, .mutez, .int] = none := by
  simp [typeInstr, typeSeq, Typing.step, edivResTy, Typing.edivTy, andTy]
example : typeInstr false .EDIV [.mutez, .nat] = some (.ok [.option (.pair .mutez .mutez)]) := by
  simp [typeInstr, Typing.step, edivResTy, Typing.edivTy]
example : typeInstr false (.seq [.AND, .PUSH .nat (.num .nat 3), .LSL]) [.int, .nat] = some (.ok [.nat]) := by
  simp [typeInstr, typeSeq, Typing.step, andTy, shiftTy, checkVal, pushable]
example : typeInstr false .SUB_MUTEZ [.mutez, .mutez] = some (.ok [.option .mutez]) := by
  simp [typeInstr, Typing.step, subMutezTy]

-- sets and maps
example : typeInstr false (.seq [.EMPTY_SET .nat, .PUSH .bool (.bool true), .PUSH .nat (.num .nat 5), .UPDATE, .PUSH .nat (.num .nat 1), .MEM]) []
    = some (.ok [.bool]) := by rfl
example : typeInstr false .GET_AND_UPDATE [.string, .option .nat, .map .string .nat] = some (.ok [.option .nat, .map .string .nat]) := by rfl
example : typeInstr false .GET [.string, .map .int .nat] = none := by rfl
example : StackTy [C01.mapAB, C01.set13] [.map .string .nat, .set .int] :=
  .cons (by rfl) (.cons (by rfl) .nil)

-- hashing and the remaining environment readers
example : typeInstr false (.seq [.SHA512, .SHA3, .CAST .bytes, .TOTAL_VOTING_POWER, .MIN_BLOCK_TIME, .RENAME]) [.bytes]
    = some (.ok [.nat, .nat, .bytes]) := by rfl
example : typeInstr false (.CAST .int) [.nat] = none := by rfl

-- extension 2, phase A: conversions, NEVER (typed like FAILWITH: only in tail position), VOTING_POWER, HASH_KEY
example : typeInstr false (.seq [.BYTES, .DUP, .NAT, .SWAP, .INT, .BYTES]) [.int] = some (.ok [.bytes, .nat]) := by rfl
example : typeInstr false (.seq [.HASH_KEY, .VOTING_POWER]) [.key] = some (.ok [.nat]) := by rfl
example : typeInstr false .NEVER [.never, .int] = some .failed := by rfl
example : typeInstr false (.seq [.NEVER, .UNIT]) [.never] = none := by rfl
example : typeInstr false .BYTES [.mutez] = none := by rfl
-- phase C: contracts and operations
example : typeInstr false (.seq [.SELF [97] .nat, .DUP, .ADDRESS, .CONTRACT .string [98], .SWAP, .PUSH .mutez (.num .mutez 1),
      .PUSH .nat (.num .nat 2), .TRANSFER_TOKENS]) [] = some (.ok [.operation, .option (.contract .string)]) := by rfl
example : typeInstr false (.seq [.IMPLICIT_ACCOUNT, .PUSH .mutez (.num .mutez 1), .PUSH .nat (.num .nat 2), .TRANSFER_TOKENS]) [.keyHash]
    = none := by rfl      -- the parameter has to be `unit`
example : typeInstr false (.seq [.SET_DELEGATE, .SWAP, .EMIT [] .int, .NIL .operation, .SWAP, .CONS, .SWAP, .CONS]) [.option .keyHash, .int]
    = some (.ok [.list .operation]) := by rfl
example : StackTy [.opTransfer [75] [76] [97] 5 (.num .nat 7) .nat, .contract .unit [116]] [.operation, .contract .unit] :=
  .cons (by rfl) (.cons (by rfl) .nil)

-- non-vacuity of `type_soundness` / `welltyped_run_preserves_types`: the hypotheses hold for MAP { CDR } over the map above
example : ∀ v ∈ [mPair], litOk v = true := by simp [mPair, litOk, litOks, simpleComparable]
example : literalsOk (.MAP .CDR) = true := by rfl
example : typeInstr false (.MAP .CDR) [.map (.pair .int .int) .int] = some (.ok [.map (.pair .int .int) .int]) := by rfl

-- non-vacuity of `strict_run_preserves_types`: MAP { CDR } over `map (pair int int) int` keeps the element type, so it is
-- strictly typed; the program of the open finding (a MAP body that turns timestamps into ints) is typed but not strictly
example : typeInstr true (.MAP .CDR) [.map (.pair .int .int) .int] = some (.ok [.map (.pair .int .int) .int]) := by rfl
example : ∀ v ∈ [mPair], C01.StrictWF v := by simp [mPair, C01.StrictWF, checkVal, checkVals, typeOf, litOk, litOks, simpleComparable]
example : typeInstr true (.seq [.NIL .timestamp, .MAP (.seq [.DROP, .PUSH .int (.num .int 0)])]) [] = none := by rfl

end C02
