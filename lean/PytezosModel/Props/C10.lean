import PytezosModel.Proofs.AddrForge
import PytezosModel.Crypto.RealHash
/-! C10 — addresses, keys, key hashes, signatures and chain ids survive the optimized binary form.

`Impl.AddrForge.*` mirror `forge_address / unforge_address / forge_contract / unforge_contract /
forge_public_key / unforge_public_key / unforge_chain_id / unforge_signature / forge_base58` of
`src/pytezos/michelson/forge.py`, on top of the Base58Check mirror of C09.  The dispatch tables (if/elif
chains, dict literals) and the shapes of `unforge_address`, `forge_contract`, `unforge_signature` are
regenerated from the source.  Values are the Base58 strings the functions exchange; a value of kind `p`
with payload `h` is *the* string `base58_encode(h, p)` (`base58Encode cks h p = .ok s`).  `cks` is the
checksum function, only assumed to return four bytes (the last section instantiates it with the executable
double SHA-256 the driver runs).  All theorems quantify over every entry of the
regenerated tables, every payload and every entrypoint name; the finite evaluations are closed facts about
the tables (that the prefix ↔ tag maps are mutually inverse is part of `entryOk` / `keyOk` / `readTablesOk`). -/
namespace C10
open Base58 Impl.Encoding Impl.AddrForge

/-! ### closed facts about the regenerated tables -/

theorem source_recognised : (Generated.C10.forgeAddressRecognised && Generated.C10.unforgeAddressRecognised
    && Generated.C10.forgeContractRecognised && Generated.C10.unforgeContractRecognised
    && Generated.C10.publicKeyRecognised && Generated.C10.chainIdRecognised
    && Generated.C10.signatureRecognised && Generated.C10.forgeBase58Recognised) = true := by decide

/-- `unforge_address` recognises the 21-byte key-hash form by its length; `forge_contract` splits at the
first `%` only -/
theorem repaired_shapes : (Generated.C10.unforgeLengthFirst && Generated.C10.splitFirstOnly) = true := by decide

/-- every entry of the `forge_address` chain: its base58 row (20-byte payload, numeral-range obligation,
binary prefix as long as the textual one), the textual-prefix rule, and the entry's image under the tables of
`unforge_address` (prefix → tag → prefix is the identity) -/
theorem address_entries_ok : ∀ e ∈ Generated.C10.forgeAddressChain, entryOk e = true := by decide +kernel

/-- tag → prefix → tag is the identity: every entry of `tz_prefixes` and of the originated chain comes from an
entry of the `forge_address` chain; all address rows carry 20-byte payloads -/
theorem read_tables_ok : readTablesOk = true := by decide +kernel

/-- the two public-key maps are mutually inverse and every public-key row is in order -/
theorem key_entries_ok : ∀ e ∈ Generated.C10.keyTagOfPrefix, keyOk e = true := by decide +kernel
theorem key_maps_inverse :
    Generated.C10.keyPrefixOfTag.all (fun x => Generated.C10.keyTagOfPrefix.contains (x.2, x.1)) = true := by
  decide

theorem chain_id_ok : chainIdOk = true := by decide +kernel
/-- 64-byte and 96-byte signatures both have a prefix and a row -/
theorem signature_lengths_ok : sigLenOk 64 = true ∧ sigLenOk 96 = true := by decide +kernel
/-- every kind `is_sig` accepts has a row in order with a 64- or 96-byte payload -/
theorem signature_rows_ok : ∀ r ∈ table, r.human ∈ (validatorPrefixes "is_sig").getD [] →
    rowOk r = true ∧ (r.dataLen = 64 ∨ r.dataLen = 96) := by decide +kernel
theorem signature_kinds_nonempty : ((validatorPrefixes "is_sig").getD []).length = 5 := by decide

section
variable (cks : List Nat → List Nat) (hck : CksOk cks)

include hck in
/-- **addresses** (tz1–tz4, KT1, txr1, sr1 — every entry of the chain) and **all** 20-byte hashes:
the 22-byte form is read back as the same address -/
theorem address_roundtrip (e : Entry) (he : e ∈ Generated.C10.forgeAddressChain) (h : List Nat)
    (hl : h.length = 20) (hb : IsBytes h) :
    ∃ s, base58Encode cks h e.1 = .ok s ∧
      forgeAddress cks s false = .ok (e.2.1 ++ h ++ e.2.2) ∧
      unforgeAddress cks (e.2.1 ++ h ++ e.2.2) = .ok s := by
  have hok := address_entries_ok e he
  obtain ⟨s, hs, hf⟩ := forgeAddress_entry cks hck e hok h hl hb false
  have hu := (unforgeAddress_entry cks (by decide) e hok h hl s hs).1
  exact ⟨s, hs, by simpa using hf, hu⟩

include hck in
/-- **key hashes**: the 21-byte `tz_only` form (tag byte + digest) of every implicit-account kind is read
back as the same key hash, for all digests — including those starting with 00..03 or ending with 00 -/
theorem keyhash_roundtrip (e : Entry) (he : e ∈ Generated.C10.forgeAddressChain) (h2 : e.2.1.length = 2)
    (h : List Nat) (hl : h.length = 20) (hb : IsBytes h) :
    ∃ s, base58Encode cks h e.1 = .ok s ∧
      forgeAddress cks s true = .ok ((e.2.1 ++ h ++ e.2.2).drop 1) ∧
      unforgeAddress cks ((e.2.1 ++ h ++ e.2.2).drop 1) = .ok s ∧
      ((e.2.1 ++ h ++ e.2.2).drop 1).length = 21 := by
  have hok := address_entries_ok e he
  obtain ⟨s, hs, hf⟩ := forgeAddress_entry cks hck e hok h hl hb true
  have hu := (unforgeAddress_entry cks (by decide) e hok h hl s hs).2 h2
  refine ⟨s, hs, by simpa using hf, hu, ?_⟩
  have hz : e.2.2 = [] := by
    have := hok
    unfold entryOk at this
    simp only [Bool.and_eq_true] at this
    have hshape := this.1.2
    split at hshape
    · assumption
    next hp _ => rw [hp] at h2; simp at h2
    · simp at hshape
  simp [hz, hl, h2]

/-- **no kind confusion**: whatever `unforge_address` accepts is the forged form — 22-byte, or 21-byte for an
implicit account — of exactly the address it returns; in particular the kind it reports is the kind whose tag
the bytes carry -/
theorem no_kind_confusion (data s : List Nat) (h : unforgeAddress cks data = .ok s) :
    ∃ e ∈ Generated.C10.forgeAddressChain, ∃ hash, hash.length = 20 ∧ base58Encode cks hash e.1 = .ok s ∧
      (data = e.2.1 ++ hash ++ e.2.2 ∨ (e.2.1.length = 2 ∧ data = (e.2.1 ++ hash ++ e.2.2).drop 1)) :=
  unforgeAddress_sound cks (by decide) read_tables_ok data s h

include hck in
/-- … and forging that address again gives the bytes back -/
theorem unforge_then_forge (data s : List Nat) (hb : IsBytes data) (h : unforgeAddress cks data = .ok s) :
    forgeAddress cks s false = .ok data ∨ forgeAddress cks s true = .ok data := by
  obtain ⟨e, he, hash, hl, hs, hd⟩ := no_kind_confusion cks data s h
  have hdrop : e.2.1.length = 2 → (e.2.1 ++ hash ++ e.2.2).drop 1 = e.2.1.drop 1 ++ hash ++ e.2.2 := by
    intro h2
    rw [List.append_assoc, List.drop_append_of_le_length (by omega), ← List.append_assoc]
  have hhb : IsBytes hash := by
    intro b hbm
    rcases hd with hd | ⟨h2, hd⟩
    · apply hb; rw [hd]; simp [hbm]
    · apply hb; rw [hd, hdrop h2]; simp [hbm]
  rcases hd with hd | ⟨_, hd⟩
  · obtain ⟨s', hs', hf⟩ := forgeAddress_entry cks hck e (address_entries_ok e he) hash hl hhb false
    rw [hs] at hs'
    injection hs' with hs'
    subst hs'
    exact Or.inl (by rw [hd]; simpa using hf)
  · obtain ⟨s', hs', hf⟩ := forgeAddress_entry cks hck e (address_entries_ok e he) hash hl hhb true
    rw [hs] at hs'
    injection hs' with hs'
    subst hs'
    exact Or.inr (by rw [hd]; simpa using hf)

include hck in
/-- **contracts**: address of any kind + any entrypoint name (ASCII, `%` allowed inside): forging and
reading back gives the same value, with the entrypoints `default` and `` normalised away -/
theorem contract_roundtrip (e : Entry) (he : e ∈ Generated.C10.forgeAddressChain) (h : List Nat)
    (hl : h.length = 20) (hb : IsBytes h) (ep : Option (List Nat)) (hascii : ∀ n, ep = some n → ∀ c ∈ n, c < 128) :
    ∃ s data, base58Encode cks h e.1 = .ok s ∧ forgeContract cks (withEp s ep) = .ok data ∧
      data = e.2.1 ++ h ++ e.2.2 ++ epBytes ep ∧
      unforgeContract cks data = .ok (if epBytes ep = [] then s else withEp s ep) := by
  obtain ⟨s, hs, hf, hu⟩ := address_roundtrip cks hck e he h hl hb
  have hp := percent_not_in_encoded cks h e.1 s hs
  refine ⟨s, _, hs, forgeContract_of cks (by decide) s _ hp hf ep, rfl, ?_⟩
  have hlen : (e.2.1 ++ h ++ e.2.2).length = 22 := by
    have := address_entries_ok e he
    unfold entryOk at this
    simp only [Bool.and_eq_true] at this
    have hshape := this.1.2
    split at hshape
    next hp1 hp2 => simp [hp1, hp2, hl]
    next hp1 hp2 => simp [hp1, hp2, hl]
    · simp at hshape
  have hasc : ∀ c ∈ epBytes ep, c < 128 := by
    intro c hc
    cases ep with
    | none => simp [epBytes] at hc
    | some n =>
      simp only [epBytes] at hc
      split at hc
      · simp at hc
      · exact hascii n rfl c hc
  rw [unforgeContract_of cks _ s _ hlen hu hasc]
  cases ep with
  | none => simp [epBytes]
  | some n =>
    simp only [epBytes, withEp]
    split <;> simp_all

include hck in
/-- **public keys**: every kind of the chain (edpk 32, sppk / p2pk 33, BLpk 48 bytes) and every key -/
theorem public_key_roundtrip (e : List Nat × Nat) (he : e ∈ Generated.C10.keyTagOfPrefix) (r : Row)
    (hr : r ∈ table) (hh : r.human = e.1) (k : List Nat) (hl : k.length = r.dataLen) (hk : IsBytes k) :
    ∃ s, base58Encode cks k e.1 = .ok s ∧ forgePublicKey cks s = .ok (e.2 :: k) ∧
      unforgePublicKey cks (e.2 :: k) = .ok s :=
  publicKey_entry cks hck e (key_entries_ok e he) r hr hh k hl hk

/-- reading a public key: the tag byte selects the kind `forge_public_key` would have written it for -/
theorem public_key_no_confusion (data s : List Nat) (h : unforgePublicKey cks data = .ok s) :
    ∃ e ∈ Generated.C10.keyTagOfPrefix, ∃ k, data = e.2 :: k ∧ base58Encode cks k e.1 = .ok s :=
  unforgePublicKey_sound cks key_maps_inverse data s h

include hck in
/-- **chain ids**: all 4-byte values -/
theorem chain_id_roundtrip (d : List Nat) (hd : IsBytes d) (hl : d.length = 4) :
    ∃ s, unforgeChainId cks d = .ok s ∧ forgeBase58 cks s = .ok d :=
  chainId_bytes cks hck chain_id_ok d hd hl

include hck in
/-- **signatures**, bytes → value → bytes: all 64-byte and all 96-byte signatures -/
theorem signature_roundtrip (d : List Nat) (hd : IsBytes d) (hl : d.length = 64 ∨ d.length = 96) :
    ∃ s, unforgeSignature cks d = .ok s ∧ forgeBase58 cks s = .ok d := by
  apply signature_bytes cks hck d hd
  rcases hl with h | h <;> rw [h]
  · exact signature_lengths_ok.1
  · exact signature_lengths_ok.2

include hck in
/-- **signatures**, value → bytes → value: a signature of any kind `is_sig` accepts (edsig, spsig, p2sig,
BLsig, sig) is forged to its raw bytes, and reading those bytes gives a signature string with the *same
bytes* (the curve-specific prefix is not recoverable from 64 bytes: the generic `sig`, or `BLsig` for 96) -/
theorem signature_value_roundtrip (r : Row) (hr : r ∈ table)
    (hk : r.human ∈ (validatorPrefixes "is_sig").getD []) (d : List Nat) (hl : d.length = r.dataLen)
    (hd : IsBytes d) :
    forgeBase58 cks (encOf cks r d) = .ok d ∧
      ∃ s', unforgeSignature cks d = .ok s' ∧ forgeBase58 cks s' = .ok d := by
  obtain ⟨hrow, hlen⟩ := signature_rows_ok r hr hk
  exact ⟨forgeBase58_enc cks hck r hr hrow d hl hd, signature_roundtrip cks hck d hd (by rw [hl]; exact hlen)⟩

end

/-! ### non-vacuity -/

def exCks (v : List Nat) : List Nat := [v.length % 256, 7, 8, 9]

theorem exCks_ok : CksOk exCks :=
  ⟨fun _ => rfl, fun v b hb => by
    simp only [exCks, List.mem_cons, List.not_mem_nil, or_false] at hb
    rcases hb with h | h | h | h <;> omega⟩

-- seven address kinds, four key kinds
example : Generated.C10.forgeAddressChain.length = 7 ∧ Generated.C10.keyTagOfPrefix.length = 4 := by decide
-- a tz1 key hash whose digest starts with 00 and ends with 00, in the 21-byte form
example : (unforgeAddress exCks (0 :: 0 :: List.replicate 18 5 ++ [0])).toOption =
    (base58Encode exCks (0 :: List.replicate 18 5 ++ [0]) [116, 122, 49]).toOption := by decide +kernel
example : ((unforgeAddress exCks (0 :: 0 :: List.replicate 18 5 ++ [0])).toOption.map (·.take 3)) =
    some [116, 122, 49] := by decide +kernel
-- a tz2 key hash whose digest ends with 00 is not read as KT1
example : ((unforgeAddress exCks (1 :: List.replicate 19 5 ++ [0])).toOption.map (·.take 3)) =
    some [116, 122, 50] := by decide +kernel
-- KT1 with entrypoint "a%b": 22 + 3 bytes
example : ((base58Encode exCks (List.replicate 20 9) [75, 84, 49]).toOption.bind fun s =>
    (forgeContract exCks (s ++ [37, 97, 37, 98])).toOption.map (·.length)) = some 25 := by decide +kernel
-- a 96-byte signature reads as BLsig
example : ((unforgeSignature exCks (List.replicate 96 1)).toOption.map (·.take 5)) =
    some [66, 76, 115, 105, 103] := by decide +kernel

/-! ### the real checksum (executable double SHA-256, what the driver runs)

`C09.sha256d4_ok`-style instance: the round trips hold for the very strings pytezos exchanges.  The known-answer
examples are the address / bytes pairs of tests/unit_tests/test_michelson/test_micheline.py (`test_get_key_hash`,
`test_regr_local_remote_diff`), evaluated by the kernel with the Lean SHA-256. -/

theorem sha256d4_ok : CksOk RealHash.cks := ⟨RealHash.cks_length, RealHash.cks_bytes⟩

/-- with the real checksum: every address kind and every 20-byte hash round-trips through the 22-byte form -/
theorem address_roundtrip_sha256 (e : Entry) (he : e ∈ Generated.C10.forgeAddressChain) (h : List Nat)
    (hl : h.length = 20) (hb : IsBytes h) :
    ∃ s, base58Encode RealHash.cks h e.1 = .ok s ∧
      forgeAddress RealHash.cks s false = .ok (e.2.1 ++ h ++ e.2.2) ∧
      unforgeAddress RealHash.cks (e.2.1 ++ h ++ e.2.2) = .ok s :=
  address_roundtrip RealHash.cks sha256d4_ok e he h hl hb

/-- with the real checksum: the 21-byte key-hash form round-trips for all digests -/
theorem keyhash_roundtrip_sha256 (e : Entry) (he : e ∈ Generated.C10.forgeAddressChain) (h2 : e.2.1.length = 2)
    (h : List Nat) (hl : h.length = 20) (hb : IsBytes h) :
    ∃ s, base58Encode RealHash.cks h e.1 = .ok s ∧
      forgeAddress RealHash.cks s true = .ok ((e.2.1 ++ h ++ e.2.2).drop 1) ∧
      unforgeAddress RealHash.cks ((e.2.1 ++ h ++ e.2.2).drop 1) = .ok s ∧
      ((e.2.1 ++ h ++ e.2.2).drop 1).length = 21 :=
  keyhash_roundtrip RealHash.cks sha256d4_ok e he h2 h hl hb

/-- with the real checksum: whatever `unforge_address` accepts forges back to the same bytes -/
theorem unforge_then_forge_sha256 (data s : List Nat) (hb : IsBytes data) (h : unforgeAddress RealHash.cks data = .ok s) :
    forgeAddress RealHash.cks s false = .ok data ∨ forgeAddress RealHash.cks s true = .ok data :=
  unforge_then_forge RealHash.cks sha256d4_ok data s hb h

/-- with the real checksum: public keys of every kind round-trip -/
theorem public_key_roundtrip_sha256 (e : List Nat × Nat) (he : e ∈ Generated.C10.keyTagOfPrefix) (r : Row)
    (hr : r ∈ table) (hh : r.human = e.1) (k : List Nat) (hl : k.length = r.dataLen) (hk : IsBytes k) :
    ∃ s, base58Encode RealHash.cks k e.1 = .ok s ∧ forgePublicKey RealHash.cks s = .ok (e.2 :: k) ∧
      unforgePublicKey RealHash.cks (e.2 :: k) = .ok s :=
  public_key_roundtrip RealHash.cks sha256d4_ok e he r hr hh k hl hk

/-- with the real checksum: chain ids and signatures, bytes → text → bytes -/
theorem chain_id_roundtrip_sha256 (d : List Nat) (hd : IsBytes d) (hl : d.length = 4) :
    ∃ s, unforgeChainId RealHash.cks d = .ok s ∧ forgeBase58 RealHash.cks s = .ok d :=
  chain_id_roundtrip RealHash.cks sha256d4_ok d hd hl

theorem signature_roundtrip_sha256 (d : List Nat) (hd : IsBytes d) (hl : d.length = 64 ∨ d.length = 96) :
    ∃ s, unforgeSignature RealHash.cks d = .ok s ∧ forgeBase58 RealHash.cks s = .ok d :=
  signature_roundtrip RealHash.cks sha256d4_ok d hd hl

-- `tz1MsmYzmqxHs9trE1qQugZxxcLPqAXdQaX9` ↔ 0000 18896fcfc6690baefa9aedc6d759f9bf05727e8c (test_get_key_hash)
example : (forgeAddress RealHash.cks [116, 122, 49, 77, 115, 109, 89, 122, 109, 113, 120, 72, 115, 57, 116, 114, 69, 49, 113, 81, 117, 103, 90, 120, 120, 99, 76,
    80, 113, 65, 88, 100, 81, 97, 88, 57] false).toOption =
    some [0, 0, 24, 137, 111, 207, 198, 105, 11, 174, 250, 154, 237, 198, 215, 89, 249, 191, 5, 114, 126, 140] := by decide +kernel
example : (unforgeAddress RealHash.cks [0, 0, 24, 137, 111, 207, 198, 105, 11, 174, 250, 154, 237, 198, 215, 89, 249, 191, 5, 114, 126, 140]).toOption =
    some [116, 122, 49, 77, 115, 109, 89, 122, 109, 113, 120, 72, 115, 57, 116, 114, 69, 49, 113, 81, 117, 103, 90, 120, 120, 99, 76,
    80, 113, 65, 88, 100, 81, 97, 88, 57] := by decide +kernel
-- … and its 21-byte key-hash form (digest starting with 0x18)
example : (unforgeAddress RealHash.cks [0, 24, 137, 111, 207, 198, 105, 11, 174, 250, 154, 237, 198, 215, 89, 249, 191, 5, 114, 126, 140]).toOption =
    some [116, 122, 49, 77, 115, 109, 89, 122, 109, 113, 120, 72, 115, 57, 116, 114, 69, 49, 113, 81, 117, 103, 90, 120, 120, 99, 76,
    80, 113, 65, 88, 100, 81, 97, 88, 57] := by decide +kernel
-- destination and source of the operation in `test_regr_local_remote_diff`, as they appear in the forged bytes
example : (forgeAddress RealHash.cks [75, 84, 49, 86, 89, 85, 120, 104, 76, 111, 83, 118, 111, 117, 111, 122, 67, 97, 68, 71, 76, 49, 88, 99, 115, 119, 110, 97,
    103, 78, 102, 119, 114, 51, 121, 105] false).toOption =
    some [1, 229, 235, 242, 220, 199, 220, 201, 209, 60, 44, 69, 205, 118, 130, 61, 214, 4, 116, 12, 127, 0] := by decide +kernel
example : (forgeAddress RealHash.cks [116, 122, 49, 103, 114, 83, 81, 68, 66, 121, 82, 112, 110, 86, 115, 55, 115, 80, 116, 97, 112, 114, 78, 90, 82, 112, 53,
    51, 49, 90, 75, 122, 54, 74, 109, 109] true).toOption =
    some [0, 232, 179, 108, 128, 239, 181, 30, 200, 90, 20, 86, 36, 38, 4, 154, 161, 130, 163, 206, 56] := by decide +kernel
-- the mainnet chain id: 7a06a770 reads as `NetXdQprcVkpaWU`
example : (unforgeChainId RealHash.cks [0x7a, 0x06, 0xa7, 0x70]).toOption =
    some [78, 101, 116, 88, 100, 81, 112, 114, 99, 86, 107, 112, 97, 87, 85] := by decide +kernel

end C10
