import PytezosModel.Proofs.C06Writer
/-! C06 — local operation forging matches the Tezos operation binary format.

`Impl.OpForge.forgeGroup` is the mirror of `forge_operation_group`: the bodies of the `forge_<kind>` functions are not
transcribed by hand but *run* generically over the field layouts the translator extracts from the source on every run
(`Generated.C06.opLayouts`), with the regenerated `operation_tags`, `reserved_entrypoints`, address and public-key
prefix tables.  `Spec.Op.tezosOps` / `Spec.Op.decodeGroup` is my transcription of the Tezos operation encoding (the
reader restricted to canonical encodings: minimal naturals, 0x00/0xff booleans, reserved entrypoints only by tag,
never an explicit (`default`, `Unit`) parameter).

Full statement (properties.jsonl): for every group of the ten current-protocol kinds with well-formed fields the
forged bytes are the canonical Tezos encoding: decoding them with the Tezos operation encoding returns the same branch
and contents, and different groups never forge to the same bytes.  Here: `forgeGroup_eq_canonical` (the bytes are the
ones the schema's canonical writer produces), `group_roundtrip` and `forgeGroup_injective`, for groups of any length and
naturals of any size.  Well-formedness (`Spec.Op.WFGroup`) = the widths the schema fixes
(20-byte hashes, 32-byte branch, key widths, 96-byte proof), known address / key prefixes, entrypoint names of 1…31
bytes, Micheline over known primitives, at least one content.  base58 (C09/C10), UTF-8 and JSON spelling are outside
(handled at the harness boundary); the Micheline sub-codec is C05's. -/
namespace C06
open Core OpLayout Impl.OpForge Spec.Op
open Generated.C06 (Codec Cond Field)

/-- the helper functions (`forge_tag`, `forge_bool`, `forge_array`, `forge_nat`, `forge_base58`, `forge_entrypoint`,
`forge_operation_group`) have the bodies the mirror was written for, and `has_parameters` recognises Unit structurally -/
theorem source_recognised :
    Generated.C06.helpersAsMirrored = true ∧ Generated.C06.unitTestStructural = some true := by
  decide

/-- **(1) the extracted layouts are the Tezos layouts**: for each of the ten kinds the body of `forge_<kind>` frames
exactly the fields of the Tezos schema, in that order (`eraseL` forgets the widths of fixed-size payloads, which the
Python code takes from its base58 / hex inputs); the tag is the Tezos tag; tags and kinds determine each other. -/
theorem layouts_eq_spec : ∀ row ∈ tezosOps,
    layoutOf row.kind = some (eraseL row.layout) ∧ tagOf row.kind = some row.tag ∧ row.tag < 256 ∧
      rowOfTag row.tag = some row ∧ rowOfKind row.kind = some row := by
  decide +kernel

/-- the regenerated `reserved_entrypoints` is the Tezos table (tags 0–9) -/
theorem reserved_entrypoints_eq_spec : Generated.C06.reservedEntrypoints = some reservedEntrypoints := by
  decide +kernel

/-- `validation_passes` agrees with the Tezos passes of the ten kinds -/
theorem validation_passes_eq_spec : ∀ row ∈ tezosOps,
    Generated.C06.validationPasses.bind (lookup · row.kind) = some row.pass := by
  decide +kernel

/-- the prefix chains of `forge_address` / `forge_public_key` contain the Tezos rows: tz1–tz4 ↦ 00 00…03, KT1 ↦ 01 … 00,
sr1 ↦ 03 … 00, edpk/sppk/p2pk/BLpk ↦ 00…03 -/
theorem address_tables_eq_spec :
    (∀ r ∈ pkhPrefixes, addrRow r.2 = some ([0, r.1], [])) ∧
    (∀ r ∈ originatedPrefixes, addrRow r.2 = some ([r.1], [0])) ∧
    (∀ r ∈ publicKeys, pkTag r.2.1 = some r.1) := by
  decide +kernel

/-- **generic layout round trip** (induction on the layout): whatever a straight-line `forge_<kind>` body writes for a
well-formed record is read back by the schema reader, which stops exactly where the body stopped -/
theorem layout_roundtrip (l : List SField) (r : Record) (hw : WFRecord l r = true) (bs : Bytes)
    (he : encodeL (eraseL l) r = some bs) (rest : Bytes) : decodeL l (bs ++ rest) = some (normL l r, rest) :=
  C06Proofs.rt_layout reserved_entrypoints_eq_spec l r hw bs he rest

/-- **(2) group round trip**: for every well-formed group (any number of contents, any kinds of the ten, naturals of
any size) the forged bytes decode, with the Tezos operation encoding, to the same branch and contents
(`normGroup`: an explicit (`default`, `Unit`) parameter is the absent parameter, as in Tezos) -/
theorem group_roundtrip (g : Group) (hw : WFGroup g = true) (bs : Bytes) (he : forgeGroup g = some bs) :
    decodeGroup bs = some (normGroup g) :=
  C06Proofs.rt_group reserved_entrypoints_eq_spec layouts_eq_spec g hw bs he

/-- **the forged bytes are the canonical bytes**: on every well-formed group the mirror of `forge_operation_group`
writes exactly what the canonical writer of the Tezos schema writes (`Spec.Op.writeGroup` uses the Tezos tables only —
address / key tags, the ten reserved entrypoints by tag, elision of (`default`, `Unit`) — nothing regenerated from the
source; the zarith, length-prefix and Micheline primitives are the shared ones of C05) -/
theorem forgeGroup_eq_canonical (g : Group) (hw : WFGroup g = true) : forgeGroup g = writeGroup g :=
  C06Proofs.eq_writeGroup reserved_entrypoints_eq_spec layouts_eq_spec source_recognised.1 g hw

/-- different groups never forge to the same bytes -/
theorem forgeGroup_injective (g₁ g₂ : Group) (h₁ : WFGroup g₁ = true) (h₂ : WFGroup g₂ = true) (bs : Bytes)
    (f₁ : forgeGroup g₁ = some bs) (f₂ : forgeGroup g₂ = some bs) : normGroup g₁ = normGroup g₂ :=
  C06Proofs.forgeGroup_inj reserved_entrypoints_eq_spec layouts_eq_spec g₁ g₂ h₁ h₂ bs f₁ f₂

/-- **(3) entrypoint codec**: every name of 1…31 bytes round-trips … -/
theorem entrypoint_roundtrip (n : Bytes) (h0 : 0 < n.length) (h31 : n.length ≤ 31) (bs : Bytes)
    (he : forgeEntrypoint n = some bs) (rest : Bytes) : decodeEntrypoint (bs ++ rest) = some (.ep n, rest) :=
  C06Proofs.rt_entrypoint reserved_entrypoints_eq_spec n (by simp [WFVal, h0, h31]) bs he rest

/-- … and each of the ten reserved names is forged as its single tag byte -/
theorem entrypoint_reserved_canonical : ∀ row ∈ reservedEntrypoints, forgeEntrypoint row.2.1 = some [row.2.2] := by
  decide +kernel

/-- an explicit (`default`, `Unit`) parameter is forged exactly like an absent one -/
theorem default_unit_elided (n : String) (fs : List (String × Codec)) :
    encodeF (.opt n .elideDefaultUnit fs) (.opt (some [.ep defaultName, .mich (.prim 11 [] none)])) =
      encodeF (.opt n .elideDefaultUnit fs) (.opt none) := by
  have h : elided [.ep defaultName, .mich (.prim 11 [] none)] = true := by decide +kernel
  simp [encodeF, h]

/-! non-vacuity: a concrete well-formed group (transaction to the reserved entrypoint `stake` with a 2^200 amount and a
2^64 counter, a tz4 delegation, a BLS reveal with proof) is forged and read back -/
def exampleGroup : Group :=
  ⟨List.replicate 32 1,
   [⟨"transaction", [.req (.addr "tz1" (List.replicate 20 7)), .req (.nat 1000), .req (.nat (2 ^ 64)), .req (.nat 10600),
      .req (.nat 300), .req (.nat (2 ^ 200)), .req (.addr "KT1" (List.replicate 20 9)),
      .opt (some [.ep [115, 116, 97, 107, 101], .mich (.prim 7 [.int (-5), .str [97]] (some [37, 120]))])]⟩,
    ⟨"delegation", [.req (.addr "tz4" (List.replicate 20 3)), .req (.nat 0), .req (.nat 127), .req (.nat 128), .req (.nat 0),
      .opt none]⟩,
    ⟨"reveal", [.req (.addr "tz4" (List.replicate 20 3)), .req (.nat 0), .req (.nat 1), .req (.nat 2), .req (.nat 3),
      .req (.pubkey "BLpk" (List.replicate 48 5)), .opt (some [.raw (List.replicate 96 6)])]⟩]⟩

example : WFGroup exampleGroup = true ∧ (forgeGroup exampleGroup).isSome = true
    ∧ ((forgeGroup exampleGroup).bind decodeGroup).isSome = true := by
  decide +kernel
example : forgeEntrypoint [115, 116, 97, 107, 101] = some [6] := by decide +kernel
-- the canonical reader rejects a reserved name written as a named entrypoint, and non-minimal naturals
example : (decodeEntrypoint [255, 5, 115, 116, 97, 107, 101]).isNone = true := by decide +kernel
example : (decodeN [128, 0]).isNone = true := by decide +kernel
example : WFRecord [.req "x" .entrypoint] [.req (.ep (List.replicate 31 97))] = true
    ∧ WFRecord [.req "x" .entrypoint] [.req (.ep (List.replicate 32 97))] = false := by decide +kernel

end C06
