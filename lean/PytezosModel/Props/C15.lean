import PytezosModel.Proofs.C15
import PytezosModel.Proofs.C15Keys
import PytezosModel.Props.C03
import PytezosModel.Michelson.BigMapKey
import PytezosModel.Michelson.BigMapKeyHash
import PytezosModel.Proofs.HashText
/-! C15 — big map operations and lazy diffs agree with a layered dictionary model.

`Impl.BigMap.*` mirrors `BigMapType.get / update`, `MapType.contains`, GET / MEM / UPDATE / GET_AND_UPDATE on a
big_map and the big_map part of `ExecutionContext`; the shape of `update` is read from the source by the translator
(`Generated.C15`, combined in `Impl.BigMap.config`).  `Spec.BigMap.*` is the reference: a dictionary `K → Option V`
layered over the on-chain contents `chain`.  The first part is generic: keys are any type with decidable equality and a
comparison that is a strict total order (hypothesis `StrictTotal`); values are abstract (any type: nothing in the mirrored
code looks at a value except `is None`).  The second part (`typed_*`) discharges the hypothesis for the keys of EVERY
comparable Michelson type `τ` — `Order.TVal τ` with the mirrors of the pytezos `__eq__` / `__lt__` methods, through
`C03.tval_strictTotal` — so that those theorems carry no hypothesis on the order at all; `nat` keys (Lean `Nat` with
`Nat.blt`) remain as a second, direct instance (`nat_*`).
All history theorems are by induction over the operation list — no bound on the length. -/
namespace C15
open Impl.BigMap Spec.BigMap Proofs.C15 Generated.C15
variable {K V : Type} [DecidableEq K] {lt : K → K → Bool}

/-- the source under test has the repaired shape: `update` iterates the stored items only and inserts a key that is
known from the context only; `__iter__`, `get`, `contains`, `aggregate_lazy_diff`, `attach_context`, the context
functions and the four instructions have the transcribed bodies -/
theorem config_eq : config = some shOK := by decide

/-- GET: the value `BigMapType.get` returns is the one of the layered dictionary -/
theorem get_eq_layered {b : BM K V} (hI : Inv lt b) (chain : K → Option V) (k : K) :
    Impl.BigMap.get chain b k = layered (overlay b) chain k := get_eq_dict hI chain k

/-- MEM -/
theorem mem_eq_layered {b : BM K V} (hI : Inv lt b) (chain : K → Option V) (k : K) :
    contains chain b k = (layered (overlay b) chain k).isSome := by
  simp only [contains, get_eq_layered hI]

/-- UPDATE / GET_AND_UPDATE: the returned previous value is the dictionary's, the invariant is preserved and the new
map stands for the dictionary with the key set (`Some v`: insert, `None`: erase) -/
theorem update_refines (hs : StrictTotal lt) {b : BM K V} (hI : Inv lt b) (chain : K → Option V) (k : K) (v : Option V) :
    ∃ b', update lt chain b k v = some (layered (overlay b) chain k, b') ∧ Inv lt b' ∧
      layered (overlay b') chain = (layered (overlay b) chain).set k v := by
  obtain ⟨h1, h2, h3⟩ := updateSh_ok hs hI chain k v
  refine ⟨(updateSh shOK lt chain b k v).2, ?_, h2, h3⟩
  simp only [update, config_eq, Option.map_some]
  rw [show layered (overlay b) chain k = dict chain b k from rfl, ← h1]

/-- `Inv` is preserved by every operation -/
theorem step_inv (hs : StrictTotal lt) {b : BM K V} (hI : Inv lt b) (chain : K → Option V) (op : Op K V) :
    Inv lt (stepSh shOK lt chain b op).2 := by
  cases op with
  | get k => exact hI
  | mem k => exact hI
  | update k v => exact (updateSh_ok hs hI chain k v).2.1
  | getAndUpdate k v => exact (updateSh_ok hs hI chain k v).2.1

/-- one operation: same observation as the dictionary, and the new map stands for the new dictionary -/
theorem step_refines (hs : StrictTotal lt) {b : BM K V} (hI : Inv lt b) (chain : K → Option V) (op : Op K V) :
    (stepSh shOK lt chain b op).1 = (step (dict chain b) op).1 ∧
    dict chain (stepSh shOK lt chain b op).2 = (step (dict chain b) op).2 := by
  cases op with
  | get k => exact ⟨by simp only [stepSh, step, get_eq_dict hI], rfl⟩
  | mem k => exact ⟨by simp only [stepSh, step, contains, get_eq_dict hI], rfl⟩
  | update k v => exact ⟨rfl, (updateSh_ok hs hI chain k v).2.2⟩
  | getAndUpdate k v =>
    obtain ⟨h1, _, h3⟩ := updateSh_ok hs hI chain k v
    exact ⟨by simp only [stepSh, step, h1], h3⟩

theorem runSh_refines (hs : StrictTotal lt) (chain : K → Option V) (ops : List (Op K V)) {b : BM K V} (hI : Inv lt b) :
    (runSh shOK lt chain b ops).1 = (Spec.BigMap.run (dict chain b) ops).1 ∧
    dict chain (runSh shOK lt chain b ops).2 = (Spec.BigMap.run (dict chain b) ops).2 ∧
    Inv lt (runSh shOK lt chain b ops).2 := by
  induction ops generalizing b with
  | nil => exact ⟨rfl, rfl, hI⟩
  | cons op ops ih =>
    obtain ⟨h1, h2⟩ := step_refines hs hI chain op
    obtain ⟨i1, i2, i3⟩ := ih (step_inv hs hI chain op)
    simp only [runSh, Spec.BigMap.run]
    rw [h2] at i1 i2
    exact ⟨by rw [h1, i1], i2, i3⟩

/-- the property, first half: for EVERY history of GET / MEM / UPDATE / GET_AND_UPDATE from a state satisfying the
invariant (in particular a fresh map or one backed by on-chain entries, see `fresh_inv`), every observation equals
that of the dictionary layered over the on-chain contents, the final state stands for the final dictionary and the
invariant holds in every reachable state -/
theorem history_obs_eq (hs : StrictTotal lt) (chain : K → Option V) (ops : List (Op K V)) {b : BM K V} (hI : Inv lt b) :
    ∃ obs b', Impl.BigMap.run lt chain b ops = some (obs, b') ∧
      obs = (Spec.BigMap.run (layered (overlay b) chain) ops).1 ∧
      layered (overlay b') chain = (Spec.BigMap.run (layered (overlay b) chain) ops).2 ∧ Inv lt b' := by
  obtain ⟨h1, h2, h3⟩ := runSh_refines hs chain ops hI
  exact ⟨_, _, by simp only [Impl.BigMap.run, config_eq, Option.map_some], h1, h2, h3⟩

/-- a map without local changes (an empty literal, or an id of an on-chain map) satisfies the invariant and stands
for the on-chain contents -/
theorem fresh_inv (p : Option Int) : Inv lt (⟨[], [], p⟩ : BM K V) :=
  ⟨List.Pairwise.nil, by simp, by simp, List.nodup_nil⟩

/-- a literal `{ Elt k v ; … }` accepted by `check_constraints` (no duplicate keys, keys equal to their sorted copy)
satisfies the invariant: the history theorems apply to fresh maps with initial elements -/
theorem literal_inv (hs : StrictTotal lt) (items : List (K × V)) (b : BM K V) (h : fromLiteral lt items = some b) :
    Inv lt b := fromLiteral_inv hs items b h

theorem fresh_dict (chain : K → Option V) (p : Option Int) : layered (overlay (⟨[], [], p⟩ : BM K V)) chain = chain := by
  funext k
  simp [layered, overlay]

/-- the updates of the emitted diff entry, applied in order to the on-chain contents, give the dictionary the map
stands for -/
theorem diff_applies (hs : StrictTotal lt) {b : BM K V} (hI : Inv lt b) (chain : K → Option V) :
    applyUpdates chain (diffUpdates b) = layered (overlay b) chain := by
  funext k
  have hd : (selfIter b).Pairwise (fun a c => a.1 ≠ c.1) := by
    refine List.pairwise_append.2 ⟨keys_ne_of_sorted hs hI.sorted, ?_, ?_⟩
    · exact (List.pairwise_map).2 hI.nodup
    · intro a ha c hc
      obtain ⟨r, hr, rfl⟩ := List.mem_map.1 hc
      exact hI.disjoint r hr a ha
  rw [diffUpdates, applyUpdates_eq _ _ hd]
  have := findLocal_eq_overlay hI k
  simp only [layered, ← this]
  rfl

/-- the property, second half: the diff emitted after ANY history, applied to the on-chain contents, gives exactly
the final dictionary of the reference run -/
theorem history_diff (hs : StrictTotal lt) (chain : K → Option V) (ops : List (Op K V)) (p : Option Int) :
    ∃ obs b', Impl.BigMap.run lt chain (⟨[], [], p⟩ : BM K V) ops = some (obs, b') ∧
      applyUpdates chain (diffUpdates b') = (Spec.BigMap.run chain ops).2 := by
  obtain ⟨obs, b', h, _, h2, h3⟩ := history_obs_eq hs chain ops (fresh_inv (lt := lt) (V := V) p)
  refine ⟨obs, b', h, ?_⟩
  rw [diff_applies hs h3, h2, fresh_dict]

/-- the same from any state satisfying the invariant (e.g. a literal with initial elements) -/
theorem history_diff_from (hs : StrictTotal lt) (chain : K → Option V) (ops : List (Op K V)) {b : BM K V} (hI : Inv lt b) :
    ∃ obs b', Impl.BigMap.run lt chain b ops = some (obs, b') ∧
      applyUpdates chain (diffUpdates b') = (Spec.BigMap.run (layered (overlay b) chain) ops).2 := by
  obtain ⟨obs, b', h, _, h2, h3⟩ := history_obs_eq hs chain ops hI
  exact ⟨obs, b', h, by rw [diff_applies hs h3, h2]⟩

/-! ### context side -/

/-- what `get` consults for a map with id `p`: the mirror of `get_big_map_value` over the on-chain family -/
def ctxChain (chains : Int → Dict K V) (c : Ctx) (p : Int) : Dict K V := fun k =>
  match c.lookup p with
  | none => none
  | some (src, _) => if src < 0 then none else chains src k

theorem getBigMapValue_eq (chains : Int → Dict K V) (c : Ctx) (p : Int) (k : K) :
    getBigMapValue (some chains) c p k = .ok (ctxChain chains c p k) := by
  simp only [getBigMapValue, ctxChain]
  cases c.lookup p with
  | none => rfl
  | some e =>
    obtain ⟨src, cp⟩ := e
    by_cases h : src < 0 <;> simp [h]

/-- id allocation: `update` keeps the registered source id and the context; `alloc` and `copy` take the next free id -/
theorem diff_ids (c : Ctx) (p : Int) :
    ((getBigMapDiff c p).1.2.2 = .update → (getBigMapDiff c p).1.1 = some (getBigMapDiff c p).1.2.1 ∧ (getBigMapDiff c p).2 = c) ∧
    ((getBigMapDiff c p).1.2.2 ≠ .update → (getBigMapDiff c p).1.2.1 = (c.allocIdx : Int) ∧
      (getBigMapDiff c p).2.allocIdx = c.allocIdx + 1) := by
  simp only [getBigMapDiff]
  cases c.lookup p with
  | none => simp
  | some e =>
    obtain ⟨src, cp⟩ := e
    cases cp <;> simp

/-- the emitted entry (id, action, updates), applied to the family of on-chain maps with the source id that
`get_big_map_diff` reports, leaves at the destination id exactly the dictionary the map stood for; the returned map
is empty at that id.  (`chains` is empty on negative = temporary ids.) -/
theorem entry_applies {H : Type} (hs : StrictTotal lt) (keyHash : K → H) (chains : Int → Dict K V)
    (hneg : ∀ p, p < 0 → chains p = fun _ => none) (c : Ctx) {b : BM K V} (hI : Inv lt b) (p : Int) (hp : b.ptr = some p) :
    ∃ e c', aggregateLazyDiff keyHash c b = some (e, ⟨[], [], some e.id⟩, c') ∧
      applyEntry chains (getBigMapDiff c p).1.1 e e.id = layered (overlay b) (ctxChain chains c p) ∧
      ∀ i, i ≠ e.id → applyEntry chains (getBigMapDiff c p).1.1 e i = chains i := by
  refine ⟨⟨(getBigMapDiff c p).1.2.1, (getBigMapDiff c p).1.2.2, (diffUpdates b).map fun e => (e.1, keyHash e.1, e.2)⟩,
    (getBigMapDiff c p).2, by simp only [aggregateLazyDiff, hp], ?_, ?_⟩
  · simp only [applyEntry, if_true, List.map_map]
    have hm : (List.map ((fun u : K × H × Option V => (u.1, u.2.2)) ∘ fun e : K × Option V => (e.1, keyHash e.1, e.2)) (diffUpdates b))
        = diffUpdates b := by
      simp [Function.comp_def]
    rw [hm, ← diff_applies hs hI]
    congr 1
    funext k
    simp only [getBigMapDiff, ctxChain]
    cases c.lookup p with
    | none => rfl
    | some e =>
      obtain ⟨src, cp⟩ := e
      cases cp <;> by_cases h : src < 0 <;> simp [h, hneg src]
  · intro i hi
    simp only [applyEntry, hi, if_false]

/-- every update of the entry carries the hash of its own key -/
theorem diff_key_hash {H : Type} (keyHash : K → H) (c : Ctx) (b : BM K V) (e : DiffEntry K V H) (b' : BM K V) (c' : Ctx)
    (h : aggregateLazyDiff keyHash c b = some (e, b', c')) : ∀ u ∈ e.updates, u.2.1 = keyHash u.1 := by
  cases hp : b.ptr with
  | none => simp [aggregateLazyDiff, hp] at h
  | some p =>
    simp only [aggregateLazyDiff, hp, Option.some.injEq, Prod.mk.injEq] at h
    intro u hu
    rw [← h.1] at hu
    obtain ⟨x, _, rfl⟩ := List.mem_map.1 hu
    rfl

/-- the expression hash is the base58 `expr` form of a 32-byte Blake2b digest (recomputed independently by the check) -/
theorem key_hash_format : keyHashPrefix = some "expr" ∧ keyHashDigestSize = some 32 := by decide

/-! ### DUP, and pytezos' own reading of the emitted diff -/

/-- DUP of a big map gives a value with the same id and the same local layer: it stands for the same dictionary and
satisfies the invariant, so every theorem above applies to each of the two copies separately as they diverge -/
theorem duplicate_same {b : BM K V} (hI : Inv lt b) (chain : K → Option V) :
    ∃ b', duplicate b = some b' ∧ b'.ptr = b.ptr ∧ Inv lt b' ∧ layered (overlay b') chain = layered (overlay b) chain := by
  refine ⟨⟨b.items, b.removed, b.ptr⟩, ?_, rfl, ⟨hI.sorted, hI.noNone, hI.disjoint, hI.nodup⟩, rfl⟩
  have : duplicateShape = some () := by decide
  simp only [duplicate, this, Option.map_some]

/-- `merge_lazy_diff` takes exactly the updates with a value for stored items -/
theorem merge_shape_ok : mergeShape = some .isNotNone := by decide

/-- reading the emitted updates back with `merge_lazy_diff` gives the local layer that was emitted — whatever the values
are (`falsy`: which values have a falsy Micheline form plays no role) -/
theorem merge_reads_emitted {b : BM K V} (hI : Inv lt b) (falsy : V → Bool) (p : Int) :
    mergeLazyDiff falsy p (diffUpdates b) = some ⟨b.items, b.removed, some p⟩ := by
  have h1 : b.items.filter (fun u => hasValue .isNotNone falsy u.2) = b.items := by
    refine List.filter_eq_self.2 ?_
    intro e he
    cases h : e.2 with
    | none => exact absurd h (hI.noNone e he)
    | some x => rfl
  have h2 : b.items.filter (fun u => !hasValue .isNotNone falsy u.2) = [] := by
    refine List.filter_eq_nil_iff.2 ?_
    intro e he
    cases h : e.2 with
    | none => exact absurd h (hI.noNone e he)
    | some x => simp [hasValue]
  have h3 : (b.removed.map fun k => (k, (none : Option V))).filter (fun u => hasValue .isNotNone falsy u.2) = [] := by
    refine List.filter_eq_nil_iff.2 ?_
    intro e he
    obtain ⟨k, _, rfl⟩ := List.mem_map.1 he
    simp [hasValue]
  have h4 : ((b.removed.map fun k => (k, (none : Option V))).filter (fun u => !hasValue .isNotNone falsy u.2)).map (·.1) = b.removed := by
    rw [List.filter_eq_self.2 (by intro e he; obtain ⟨k, _, rfl⟩ := List.mem_map.1 he; simp [hasValue])]
    simp [Function.comp_def]
  simp only [mergeLazyDiff, merge_shape_ok, Option.map_some, mergeWith, diffUpdates, selfIter, List.filter_append, h1, h2, h3,
    List.append_nil, List.nil_append, h4]

/-- pinned shape (truthiness test): an update whose value is falsy — an empty map, set or list — is read back as a removal -/
theorem truthy_merge_counterexample :
    mergeWith .truthy (fun v : Nat => v == 0) 5 [((1 : Nat), some 0), (2, some 7), (3, none)] = ⟨[(2, some 7)], [1, 3], some 5⟩ ∧
    mergeWith .isNotNone (fun v : Nat => v == 0) 5 [((1 : Nat), some 0), (2, some 7), (3, none)]
      = ⟨[(1, some 0), (2, some 7)], [3], some 5⟩ := by decide

/-! ### keys of every comparable Michelson type (no hypothesis on the order)

`TVal τ` = the runtime values of the comparable type `τ` (C03: unit, bool, int, nat, mutez, timestamp, string, bytes,
key_hash, address, key, signature, chain_id, option, or, pair — nested without bound).  `==` on such keys is computed by the
mirror of `__eq__` (`Proofs.C15Keys.tvalDecEq`), `<` is the mirror of `__lt__`. -/
section typed
open Order Proofs.C15Keys
variable {τ : CTy} {V : Type}

/-- the key equality the model uses IS the mirrored `__eq__` of the key's class -/
theorem key_eq_is_runtime_eq (a b : TVal τ) : (a == b) = Impl.Order.eq a.1 b.1 := tval_beq a b

/-- the key comparison the model uses IS the mirrored `__lt__` of the key's class, which never raises on two keys of one type -/
theorem key_lt_is_runtime_lt (a b : TVal τ) : Impl.Order.lt a.1 b.1 = some (TVal.lt a b) := C03.lt_defined a b

/-- `__lt__` of every comparable type is a strict total order on its values (C03), in the form used above -/
theorem key_order_strictTotal (τ : CTy) : StrictTotal (TVal.lt (τ := τ)) :=
  ⟨(C03.tval_strictTotal τ).irrefl, (C03.tval_strictTotal τ).trans,
   fun a b hne => ((C03.tval_strictTotal τ).total a b).resolve_left hne⟩

/-- UPDATE / GET_AND_UPDATE with a key of any comparable type -/
theorem typed_update_refines {b : BM (TVal τ) V} (hI : Inv TVal.lt b) (chain : TVal τ → Option V) (k : TVal τ) (v : Option V) :
    ∃ b', update TVal.lt chain b k v = some (layered (overlay b) chain k, b') ∧ Inv TVal.lt b' ∧
      layered (overlay b') chain = (layered (overlay b) chain).set k v :=
  update_refines (key_order_strictTotal τ) hI chain k v

/-- `Inv` is preserved by every operation, keys of any comparable type -/
theorem typed_step_inv {b : BM (TVal τ) V} (hI : Inv TVal.lt b) (chain : TVal τ → Option V) (op : Op (TVal τ) V) :
    Inv TVal.lt (stepSh shOK TVal.lt chain b op).2 := step_inv (key_order_strictTotal τ) hI chain op

/-- the property, first half, for keys of EVERY comparable Michelson type and values of any type: every history of
GET / MEM / UPDATE / GET_AND_UPDATE observes what the dictionary layered over the on-chain contents observes -/
theorem typed_history_obs_eq (chain : TVal τ → Option V) (ops : List (Op (TVal τ) V)) {b : BM (TVal τ) V} (hI : Inv TVal.lt b) :
    ∃ obs b', Impl.BigMap.run TVal.lt chain b ops = some (obs, b') ∧
      obs = (Spec.BigMap.run (layered (overlay b) chain) ops).1 ∧
      layered (overlay b') chain = (Spec.BigMap.run (layered (overlay b) chain) ops).2 ∧ Inv TVal.lt b' :=
  history_obs_eq (key_order_strictTotal τ) chain ops hI

/-- an accepted literal with keys of any comparable type satisfies the invariant -/
theorem typed_literal_inv (items : List (TVal τ × V)) (b : BM (TVal τ) V) (h : fromLiteral TVal.lt items = some b) :
    Inv TVal.lt b := literal_inv (key_order_strictTotal τ) items b h

/-- the emitted updates applied to the on-chain contents give the dictionary, keys of any comparable type -/
theorem typed_diff_applies {b : BM (TVal τ) V} (hI : Inv TVal.lt b) (chain : TVal τ → Option V) :
    applyUpdates chain (diffUpdates b) = layered (overlay b) chain := diff_applies (key_order_strictTotal τ) hI chain

/-- the property, second half, for keys of EVERY comparable Michelson type: the diff emitted after any history, applied to
the on-chain contents, gives exactly the final dictionary -/
theorem typed_history_diff (chain : TVal τ → Option V) (ops : List (Op (TVal τ) V)) (p : Option Int) :
    ∃ obs b', Impl.BigMap.run TVal.lt chain (⟨[], [], p⟩ : BM (TVal τ) V) ops = some (obs, b') ∧
      applyUpdates chain (diffUpdates b') = (Spec.BigMap.run chain ops).2 :=
  history_diff (key_order_strictTotal τ) chain ops p

theorem typed_history_diff_from (chain : TVal τ → Option V) (ops : List (Op (TVal τ) V)) {b : BM (TVal τ) V} (hI : Inv TVal.lt b) :
    ∃ obs b', Impl.BigMap.run TVal.lt chain b ops = some (obs, b') ∧
      applyUpdates chain (diffUpdates b') = (Spec.BigMap.run (layered (overlay b) chain) ops).2 :=
  history_diff_from (key_order_strictTotal τ) chain ops hI

/-- the whole emitted entry (id, action, updates with key hashes), keys of any comparable type -/
theorem typed_entry_applies {H : Type} (keyHash : TVal τ → H) (chains : Int → Dict (TVal τ) V)
    (hneg : ∀ p, p < 0 → chains p = fun _ => none) (c : Ctx) {b : BM (TVal τ) V} (hI : Inv TVal.lt b) (p : Int) (hp : b.ptr = some p) :
    ∃ e c', aggregateLazyDiff keyHash c b = some (e, ⟨[], [], some e.id⟩, c') ∧
      applyEntry chains (getBigMapDiff c p).1.1 e e.id = layered (overlay b) (ctxChain chains c p) ∧
      (∀ i, i ≠ e.id → applyEntry chains (getBigMapDiff c p).1.1 e i = chains i) ∧
      ∀ u ∈ e.updates, u.2.1 = keyHash u.1 := by
  obtain ⟨e, c', h1, h2, h3⟩ := entry_applies (key_order_strictTotal τ) keyHash chains hneg c hI p hp
  exact ⟨e, c', h1, h2, h3, diff_key_hash keyHash c b e _ c' h1⟩

/-- each update of the emitted entry carries the hash of the LEGACY PACK of its own key (`0x05 ‖` the binary Micheline of
the key with pairs nested and leaves optimized: `Impl.BigMap.packLegacy`), for any hash function `hash` (in the code:
base58 `expr` of Blake2b-256, `key_hash_format`) — keys of any comparable type -/
theorem typed_diff_key_hash {H : Type} (hash : Option (List Nat) → H) (c : Ctx) (b : BM (TVal τ) V)
    (e : DiffEntry (TVal τ) V H) (b' : BM (TVal τ) V) (c' : Ctx)
    (h : aggregateLazyDiff (fun k : TVal τ => hash (packLegacy k.1)) c b = some (e, b', c')) :
    ∀ u ∈ e.updates, u.2.1 = hash (packLegacy u.1.1) := diff_key_hash _ c b e b' c' h

/-- the source has the shape `packLegacy` was written from -/
theorem pack_shape_ok : packShape = some () := by decide

/-- the legacy form of a pair key is the two-argument `Pair` of its two components — a right comb is never flattened and
never written as a sequence (that is the `optimized`, non-legacy form) -/
theorem keyMich_pair (a b : CVal) : keyMich (.pair a b) = .prim "Pair" [keyMich a, keyMich b] [] := rfl

/-- a whole run in one statement — attach, history, aggregate — for keys of any comparable type: a big map that enters
with id `p` and no local changes (on-chain map in the storage, or copied parameter) runs any history with the
dictionary's observations and then emits an entry that, applied to the on-chain family, leaves exactly the final dictionary
at the destination id, every update carrying the hash of its own key -/
theorem typed_run_and_diff {H : Type} (keyHash : TVal τ → H) (chains : Int → Dict (TVal τ) V)
    (hneg : ∀ p, p < 0 → chains p = fun _ => none) (c : Ctx) (p : Int) (ops : List (Op (TVal τ) V)) :
    ∃ obs b' e c', Impl.BigMap.run TVal.lt (ctxChain chains c p) (⟨[], [], some p⟩ : BM (TVal τ) V) ops = some (obs, b') ∧
      obs = (Spec.BigMap.run (ctxChain chains c p) ops).1 ∧
      aggregateLazyDiff keyHash c b' = some (e, ⟨[], [], some e.id⟩, c') ∧
      applyEntry chains (getBigMapDiff c p).1.1 e e.id = (Spec.BigMap.run (ctxChain chains c p) ops).2 ∧
      ∀ u ∈ e.updates, u.2.1 = keyHash u.1 := by
  obtain ⟨obs, b', hr, ho, hd, hI⟩ := typed_history_obs_eq (ctxChain chains c p) ops (fresh_inv (lt := TVal.lt) (V := V) (some p))
  have hp : b'.ptr = some p := run_ptr (ctxChain chains c p) ops _ _ hr
  obtain ⟨e, c', h1, h2, _, h4⟩ := typed_entry_applies keyHash chains hneg c hI p hp
  rw [fresh_dict] at ho hd
  exact ⟨obs, b', e, c', hr, ho, h1, by rw [h2, hd], h4⟩

/-! non-vacuity: composite keys.  Keys of type `pair int string`; in the Tezos order `(1,"a") < (1,"b") < (2,"")`
(the first component decides, then the second) -/
abbrev τps : CTy := .pair (.num .int) .string
def kA : TVal τps := key τps (.pair (.num .int 1) (.str [97]))
def kB : TVal τps := key τps (.pair (.num .int 1) (.str [98]))
def kC : TVal τps := key τps (.pair (.num .int 2) (.str []))
/-- on-chain: `(1,"b") ↦ 100` -/
def chainPS : Dict (TVal τps) Nat := fun k => if k = kB then some 100 else none

-- inserted in the order C, A, B; the stored items end up in the Tezos order; value 0 (falsy in Python) is a value
example : Impl.BigMap.run TVal.lt chainPS (⟨[], [], some 5⟩ : BM (TVal τps) Nat)
    [.update kC (some 0), .get kB, .update kB none, .update kA (some 7), .getAndUpdate kB (some 8), .mem kC, .get kA, .get kC]
    = some ([.unit, .val (some 100), .unit, .unit, .val none, .bool true, .val (some 7), .val (some 0)],
            ⟨[(kA, some 7), (kB, some 8), (kC, some 0)], [], some 5⟩) := by decide
example : Inv TVal.lt (⟨[(kA, some 7), (kC, some 0)], [kB], some 5⟩ : BM (TVal τps) Nat) :=
  ⟨by decide, by decide, by decide, by decide⟩
example : fromLiteral TVal.lt [(kA, 1), (kC, 3)] = some (⟨[(kA, some 1), (kC, some 3)], [], none⟩ : BM (TVal τps) Nat) ∧
    fromLiteral TVal.lt [(kC, 3), (kA, 1)] = (none : Option (BM (TVal τps) Nat)) := by decide
-- keys of type `or (option address) key_hash`: an address with entrypoint vs without, `None`, a `Right`
abbrev τoa : CTy := .or (.option .address) .keyHash
def kN : TVal τoa := key τoa (.left .none)
def kKT : TVal τoa := key τoa (.left (.some (.address 4 (List.replicate 20 7) [])))
def kKTe : TVal τoa := key τoa (.left (.some (.address 4 (List.replicate 20 7) [97])))
def kTz : TVal τoa := key τoa (.right (.keyHash 0 (List.replicate 20 0)))
-- `Left None < Left (Some KT1…%a) < Left (Some KT1…)` (= `%default`) `< Right tz1…`
example : (Impl.BigMap.run TVal.lt (fun _ => none) (⟨[], [], none⟩ : BM (TVal τoa) Bool)
    [.update kTz (some false), .update kKT (some true), .update kN (some false), .update kKTe (some true), .update kKT none]).map (·.2)
    = some ⟨[(kN, some false), (kKTe, some true), (kTz, some false)], [kKT], none⟩ := by decide

-- what is hashed for the key `Pair 1 (Pair 2 (Pair 3 4))` of a 4-leaf right comb: nested `Pair`s (07 07 …), no sequence (02 …)
example : packLegacy (.pair (.num .nat 1) (.pair (.num .nat 2) (.pair (.num .nat 3) (.num .nat 4))))
    = some [5, 7, 7, 0, 1, 7, 7, 0, 2, 7, 7, 0, 3, 0, 4] := by decide +kernel
-- an address key with an entrypoint: `KT1…%a` = 01 ‖ hash ‖ 00 ‖ "a"
example : packLegacy (.some (.address 4 (List.replicate 20 7) [97]))
    = some ([5, 5, 9, 10, 0, 0, 0, 23, 1] ++ List.replicate 20 7 ++ [0, 97]) := by decide +kernel

end typed

/-! ### `nat` keys as Lean naturals: a second, direct instance -/
theorem nat_blt_irrefl (a : Nat) : Nat.blt a a = false := by
  cases h : Nat.blt a a
  · rfl
  · simp only [Nat.blt_eq] at h; omega

theorem nat_strictTotal : StrictTotal Nat.blt :=
  ⟨nat_blt_irrefl, fun a b c h1 h2 => by simp only [Nat.blt_eq] at *; omega,
   fun a b h => by simp only [Nat.blt_eq]; omega⟩

/-- the two halves of the property for `nat` keys -/
theorem nat_history_obs_eq {V : Type} (chain : Nat → Option V) (ops : List (Op Nat V)) {b : BM Nat V} (hI : Inv Nat.blt b) :
    ∃ obs b', Impl.BigMap.run Nat.blt chain b ops = some (obs, b') ∧
      obs = (Spec.BigMap.run (layered (overlay b) chain) ops).1 ∧
      layered (overlay b') chain = (Spec.BigMap.run (layered (overlay b) chain) ops).2 ∧ Inv Nat.blt b' :=
  history_obs_eq nat_strictTotal chain ops hI

theorem nat_history_diff {V : Type} (chain : Nat → Option V) (ops : List (Op Nat V)) (p : Option Int) :
    ∃ obs b', Impl.BigMap.run Nat.blt chain (⟨[], [], p⟩ : BM Nat V) ops = some (obs, b') ∧
      applyUpdates chain (diffUpdates b') = (Spec.BigMap.run chain ops).2 :=
  history_diff nat_strictTotal chain ops p

/-- … and this instance is the `nat` case of the typed one: on the runtime values of type `nat` the mirrored `__lt__` /
`__eq__` are `Nat.blt` / `==` of the numbers -/
def natKey (n : Nat) : Order.TVal (.num .nat) := ⟨.num .nat n, .num _ _ (by simp [Order.numOk])⟩

theorem natKey_lt (a b : Nat) : Order.TVal.lt (natKey a) (natKey b) = Nat.blt a b := by
  simp only [Order.TVal.lt, natKey, Impl.Order.lt]
  cases h : Nat.blt a b
  · have : ¬ a < b := by intro hlt; rw [← Nat.blt_eq] at hlt; rw [hlt] at h; cases h
    simp [this]
  · have : a < b := by simpa using h
    simp [this]

theorem natKey_eq (a b : Nat) : (natKey a == natKey b) = (a == b) := by
  rw [Proofs.C15Keys.tval_beq]
  simp only [Order.TVal.eq, natKey, Impl.Order.eq]
  cases h : (a == b)
  · have : a ≠ b := by simpa using h
    simp; omega
  · have : a = b := by simpa using h
    simp [this]


/-! ### non-vacuity and the defective shapes (documentation: these are about explicitly chosen shapes, not `config`) -/

/-- on-chain contents used below: key 1 ↦ 100, key 2 ↦ 200 -/
def chain12 : Dict Nat Nat := fun k => if k = 1 then some 100 else if k = 2 then some 200 else none

-- a concrete history on a map backed by on-chain entries: remove, re-insert, update of an on-chain-only key
example : Impl.BigMap.run Nat.blt chain12 (⟨[], [], some 5⟩ : BM Nat Nat)
    [.get 1, .update 1 none, .get 1, .update 3 (some 33), .update 3 (some 34), .update 1 (some 11), .get 1,
     .getAndUpdate 2 (some 7), .mem 2, .get 2]
    = some ([.val (some 100), .unit, .val none, .unit, .unit, .unit, .val (some 11), .val (some 200), .bool true, .val (some 7)],
            ⟨[(1, some 11), (2, some 7), (3, some 34)], [], some 5⟩) := by decide

example : Inv Nat.blt (⟨[(1, some 11), (3, some 34)], [2], some 5⟩ : BM Nat Nat) :=
  ⟨by decide, by decide, by decide, by decide⟩

/-- a map registered as on-chain map 5 with local changes (1 ↦ 11, key 2 removed) in a context with one temporary id used -/
def demoCtx : Ctx := ⟨1, 0, [(5, (5, false))]⟩
def demoMap : BM Nat Nat := ⟨[(1, some 11)], [2], some 5⟩

example : (aggregateLazyDiff (fun (_ : Nat) => ()) demoCtx demoMap).map (fun r => (r.1.id, r.1.action)) = some (5, .update) := by decide
example : (aggregateLazyDiff (fun (_ : Nat) => ()) demoCtx demoMap).map (fun r => r.1.updates) = some [(1, (), some 11), (2, (), none)] := by
  decide
example : (aggregateLazyDiff (fun (_ : Nat) => ()) demoCtx demoMap).map (fun r => r.2) = some (⟨[], [], some 5⟩, demoCtx) := by decide
example : (applyUpdates chain12 [(1, some 11), (2, none)] 1, applyUpdates chain12 [(1, some 11), (2, none)] 2,
    applyUpdates chain12 [(1, some 11), (2, none)] 3) = (some 11, none, none) := by decide
-- a fresh literal is allocated the next free id, a copied parameter as well
example : (getBigMapDiff ⟨2, 3, [(-1, (5, true))]⟩ (-2)).1 = (none, 3, .alloc) ∧
    (getBigMapDiff ⟨2, 3, [(-1, (5, true))]⟩ (-1)).1 = (some 5, 3, .copy) := by decide
example : fromLiteral Nat.blt [(1, 10), (3, 30)] = some (⟨[(1, some 10), (3, some 30)], [], none⟩ : BM Nat Nat) ∧
    fromLiteral Nat.blt [(3, 30), (1, 10)] = (none : Option (BM Nat Nat)) ∧
    fromLiteral Nat.blt [(1, 10), (1, 30)] = (none : Option (BM Nat Nat)) := by decide

/-- pinned shape (`update` iterates `self`): *insert 1; remove 1; insert 2; update 2; insert 1; GET 1* on a fresh map
answers `None` although the dictionary holds 11, and the stored items are `[(1, None), (1, 11), (2, 21)]` —
a `None` value and a duplicated key, so the diff lists key 1 twice -/
theorem pinned_shape_counterexample :
    runSh ⟨.self, false⟩ Nat.blt (fun _ => none) (⟨[], [], none⟩ : BM Nat Nat)
      [.update 1 (some 10), .update 1 none, .update 2 (some 20), .update 2 (some 21), .update 1 (some 11), .get 1]
    = ([.unit, .unit, .unit, .unit, .unit, .val none], ⟨[(1, none), (1, some 11), (2, some 21)], [], none⟩) ∧
    (Spec.BigMap.run (fun _ => none)
      [Op.update 1 (some 10), .update 1 none, .update 2 (some 20), .update 2 (some 21), .update 1 (some 11), .get (1 : Nat)]).1
    = [.unit, .unit, .unit, .unit, .unit, .val (some (11 : Nat))] := by decide

/-- pinned shape, second defect (the replace branch never inserts): on-chain `2 ↦ 200`, *UPDATE 2 (Some 7); GET 2*
still answers 200 and the diff is empty -/
theorem dropped_update_counterexample :
    runSh ⟨.items, false⟩ Nat.blt chain12 (⟨[], [], some 5⟩ : BM Nat Nat) [.update 2 (some 7), .get 2]
    = ([.unit, .val (some 200)], ⟨[], [], some 5⟩) ∧
    (Spec.BigMap.run chain12 [Op.update 2 (some 7), .get 2]).1 = [.unit, .val (some 7)] := by decide

/-! ### the key hash as text: `forge_script_expr(key.pack(legacy=True))`

`Impl.BigMap.keyHashChars cks H v` = Base58Check text, prefix `expr` (read from the source), of the hash of the legacy PACK
of the key.  First for every 4-byte checksum and 32-byte hash function, then for the executable double SHA-256 /
BLAKE2b-256 the driver runs (it prints this text for every update of every emitted diff, compared with pytezos' `key_hash`).
The known answers are the `test_get_key_hash` vectors of tests/unit_tests/test_michelson/test_micheline.py. -/
section KeyHash
open HashText Impl.Encoding Order

/-- the `expr` row of the regenerated `base58_encodings` table -/
def exprRow : Row := ⟨[101, 120, 112, 114], 54, [13, 44, 64, 27], 32⟩

/-- closed facts about that row (kernel evaluation over the regenerated C09 table), see `HashText.rowFacts` -/
theorem expr_row_ok : rowFacts exprRow = true := by decide +kernel

theorem chars_expr : Impl.BigMap.chars "expr" = [101, 120, 112, 114] := by decide

/-- every key whose legacy PACK `b` the model can write has a 54-character `expr…` key hash, which `base58_decode` maps
back to the hash of `b` — for every 4-byte checksum function and every 32-byte hash function -/
theorem key_hash_text (cks : List Nat → List Nat) (hck : CksOk cks) (H : List Nat → List Nat) (hH : HashOk H)
    (v : CVal) (b : List Nat) (hb : packLegacy v = some b) :
    ∃ s, keyHashChars cks H v = some s ∧ s.length = 54 ∧ [101, 120, 112, 114] <+: s ∧
      base58Decode cks s = .ok (H b) := by
  obtain ⟨s, hs, hl, hp, hd⟩ := text_of_payload cks hck exprRow expr_row_ok (H b) (hH.len b) (hH.bytes b)
  refine ⟨s, ?_, hl, hp, hd⟩
  have hs' : base58Encode cks (H b) [101, 120, 112, 114] = .ok s := hs
  simp [keyHashChars, scriptExpr, hb, (key_hash_format).1, chars_expr, hs', Except.toOption]

/-- with the executable double SHA-256 and BLAKE2b-256 -/
theorem key_hash_concrete (v : CVal) (b : List Nat) (hb : packLegacy v = some b) :
    ∃ s, keyHashChars RealHash.cks RealHash.blake v = some s ∧ s.length = 54 ∧ [101, 120, 112, 114] <+: s ∧
      base58Decode RealHash.cks s = .ok (RealHash.blake b) :=
  key_hash_text RealHash.cks cks_ok RealHash.blake blake_ok v b hb

/-- each update of the emitted entry carries the `expr…` text computed with the executable hashes from the legacy PACK
of its own key (`typed_diff_key_hash` with the hash function the driver runs) -/
theorem typed_diff_key_hash_concrete {τ : CTy} {V : Type} (c : Ctx) (b : BM (TVal τ) V)
    (e : DiffEntry (TVal τ) V (Option (List Nat))) (b' : BM (TVal τ) V) (c' : Ctx)
    (h : aggregateLazyDiff (fun k : TVal τ => keyHashChars RealHash.cks RealHash.blake k.1) c b = some (e, b', c')) :
    ∀ u ∈ e.updates, u.2.1 = keyHashChars RealHash.cks RealHash.blake u.1.1 := diff_key_hash _ c b e b' c' h

/-- the key-hash computation in three steps (legacy PACK, hash, Base58Check), so that a known answer can be evaluated by
the kernel one step at a time -/
theorem key_hash_steps (cks H : List Nat → List Nat) (v : CVal) (b d s : List Nat)
    (hp : packLegacy v = some b) (hh : H b = d)
    (he : (base58Encode cks d [101, 120, 112, 114]).toOption = some s) : keyHashChars cks H v = some s := by
  simp [keyHashChars, scriptExpr, hp, hh, (key_hash_format).1, chars_expr, he]

-- `Pair 1 1 1 1 : pair int int int int` (test_get_key_hash): the legacy PACK nests the pairs, 05 0707 0001 0707 0001 0707 0001 0001,
-- and the key hash is expruN32WETsB2Dx1AynDmMufVr1As9qdnjRxKQ82rk2qZ4uxuKVMK
set_option maxRecDepth 4000 in
example : keyHashChars RealHash.cks RealHash.blake
    (.pair (.num .int 1) (.pair (.num .int 1) (.pair (.num .int 1) (.num .int 1)))) =
    some [101, 120, 112, 114, 117, 78, 51, 50, 87, 69, 84, 115, 66, 50, 68, 120, 49, 65, 121, 110, 68, 109, 77, 117, 102, 86, 114,
      49, 65, 115, 57, 113, 100, 110, 106, 82, 120, 75, 81, 56, 50, 114, 107, 50, 113, 90, 52, 117, 120, 117, 75, 86, 77, 75] :=
  key_hash_steps RealHash.cks RealHash.blake _ [5, 7, 7, 0, 1, 7, 7, 0, 1, 7, 7, 0, 1, 0, 1]
    [111, 158, 41, 169, 196, 149, 22, 180, 169, 77, 73, 199, 100, 31, 210, 31, 94, 57, 34, 241, 78, 188, 115, 187, 137, 86, 126,
    191, 103, 167, 44, 118]
    _ (by decide +kernel) (by decide +kernel) (by decide +kernel)
-- the address `tz1MsmYzmqxHs9trE1qQugZxxcLPqAXdQaX9` (optimized leaf 0000 18896f…8c, test_get_key_hash):
-- expru2YV8AanTTUSV4K21P7X4DzbuWQFVk7NewDuP1A5uamffiiFA3
set_option maxRecDepth 4000 in
example : keyHashChars RealHash.cks RealHash.blake
    (.address 0 [24, 137, 111, 207, 198, 105, 11, 174, 250, 154, 237, 198, 215, 89, 249, 191, 5, 114, 126, 140] []) =
    some [101, 120, 112, 114, 117, 50, 89, 86, 56, 65, 97, 110, 84, 84, 85, 83, 86, 52, 75, 50, 49, 80, 55, 88, 52, 68, 122, 98, 117,
      87, 81, 70, 86, 107, 55, 78, 101, 119, 68, 117, 80, 49, 65, 53, 117, 97, 109, 102, 102, 105, 105, 70, 65, 51] :=
  key_hash_steps RealHash.cks RealHash.blake _ [5, 10, 0, 0, 0, 22, 0, 0, 24, 137, 111, 207, 198, 105, 11, 174, 250, 154, 237, 198, 215, 89, 249, 191, 5, 114, 126, 140]
    [67, 91, 208, 213, 143, 94, 239, 63, 51, 236, 101, 133, 225, 61, 89, 133, 12, 217, 196, 85, 255, 147, 117, 80, 141, 224, 126,
    19, 72, 147, 180, 24]
    _ (by decide +kernel) (by decide +kernel) (by decide +kernel)

end KeyHash

end C15
