import PytezosModel.Proofs.C32
/-! C32 — a view definition is accepted by `ViewSection.create_type` exactly when Tezos' view rules accept it:
name of at most 31 characters from letters, digits and `_.%@`; no SELF anywhere; TRANSFER_TOKENS / CREATE_CONTRACT /
SET_DELEGATE only inside a lambda body (LAMBDA, LAMBDA_REC, or the value of a PUSH whose type mentions `lambda`).
All names (lists of code points of any length) and all code trees (structural induction, the `lambda_` flag
generalised). -/
namespace C32
open Impl.View Spec.View Generated.C32 Proofs.C32

/-- the tables extracted from the source are these -/
theorem source_shape : codeShape = some S0 ∧ nameShape = some N0 := by decide

/-! ### names -/

/-- the name checks accept exactly the names of ≤ 31 allowed characters (any length, any code points) -/
theorem name_iff (name : List Nat) : checkName N0 name = .ok () ↔ nameOk name := by
  unfold checkName nameOk
  simp only [N0]
  by_cases hl : name.length ≥ 32
  · simp only [hl, if_true]
    constructor
    · intro h; cases h
    · intro h; omega
  · simp only [hl, if_false]
    have hall : name.all (inRanges [(37, 37), (46, 46), (48, 57), (64, 64), (65, 90), (95, 95), (97, 122)]) = true ↔
        ∀ c ∈ name, okCodePoint c := by
      rw [List.all_eq_true]
      constructor
      · intro h c hc; exact (inRanges_iff c).mp (h c hc)
      · intro h c hc; exact (inRanges_iff c).mpr (h c hc)
    by_cases ha : name.all (inRanges [(37, 37), (46, 46), (48, 57), (64, 64), (65, 90), (95, 95), (97, 122)]) = true
    · simp only [ha, if_true, true_iff]
      exact ⟨by omega, hall.mp ha⟩
    · simp only [ha]
      constructor
      · intro h; cases h
      · intro h; exact absurd (hall.mpr h.2) ha

/-! ### code -/

mutual
  /-- `check_code` accepts iff every primitive application is acceptable in its position; any tree, any flag -/
  theorem code_iff (lam : Bool) : (c : Mich) → pushHasType c = true →
      (checkCode S0 lam c = .ok () ↔ ∀ o ∈ occurrences lam c, occOk o)
    | .prim p args an => by
      intro hwf
      simp only [pushHasType, Bool.and_eq_true] at hwf
      have ih := args_iff (lam || opensLambdaBody p args) args hwf.2
      simp only [checkCode, occurrences, List.mem_cons, forall_eq_or_imp, flagForArgs_eq lam p args hwf.1]
      by_cases h1 : S0.always.contains p = true
      · have hp := (always_iff p).mp h1
        subst hp
        simp [S0, occOk]
      · have h1' : ¬ p = "SELF" := fun h => h1 ((always_iff p).mpr h)
        simp only [h1, Bool.false_eq_true, if_false]
        by_cases h2 : (S0.outside.contains p && !lam) = true
        · simp only [h2, if_true]
          simp only [Bool.and_eq_true, Bool.not_eq_true'] at h2
          have hr := (outside_iff p).mp h2.1
          constructor
          · intro h; cases h
          · intro h
            have := h.1.2 hr
            simp [h2.2] at this
        · simp only [h2, Bool.false_eq_true, if_false]
          rw [ih]
          have hocc : occOk (p, lam) := by
            refine ⟨h1', fun hr => ?_⟩
            have := (outside_iff p).mpr hr
            simp only [this, Bool.true_and, Bool.not_eq_true'] at h2
            simpa using h2
          constructor
          · intro h; exact ⟨hocc, h⟩
          · intro h; exact h.2
    | .seq xs => by
      intro hwf
      simp only [pushHasType] at hwf
      simp only [checkCode, occurrences]
      exact args_iff lam xs hwf
    | .int _ => by intro _; simp [checkCode, occurrences]
    | .str _ => by intro _; simp [checkCode, occurrences]
    | .bytes _ => by intro _; simp [checkCode, occurrences]
  theorem args_iff (lam : Bool) : (cs : List Mich) → pushHasTypeAll cs = true →
      (checkArgs S0 lam cs = .ok () ↔ ∀ o ∈ occurrencesList lam cs, occOk o)
    | [] => by intro _; simp [checkArgs, occurrencesList]
    | c :: cs => by
      intro hwf
      simp only [pushHasTypeAll, Bool.and_eq_true] at hwf
      have ih1 := code_iff lam c hwf.1
      have ih2 := args_iff lam cs hwf.2
      simp only [checkArgs, occurrencesList, List.mem_append]
      cases hc : checkCode S0 lam c with
      | error e =>
        rw [hc] at ih1
        simp only
        constructor
        · intro h; cases h
        · intro h
          have : ∀ o ∈ occurrences lam c, occOk o := fun o ho => h o (Or.inl ho)
          have := ih1.mpr this
          cases this
      | ok u =>
        cases u
        rw [hc] at ih1
        simp only
        rw [ih2]
        constructor
        · intro h o ho
          rcases ho with ho | ho
          · exact ih1.mp rfl o ho
          · exact h o ho
        · intro h o ho; exact h o (Or.inr ho)
end

/-- **the property**: a view is accepted iff name and code satisfy the Tezos rules — for every name and every code tree
in which each PUSH carries its type argument (guaranteed by `Micheline.match`, which runs before the check) -/
theorem view_accept_iff (name : List Nat) (code : Mich) (hwf : pushHasType code = true) :
    checkView name code = .ok () ↔ viewOk name code := by
  have hs := source_shape
  unfold checkView viewOk codeOk
  rw [hs.1, hs.2]
  simp only [checkViewWith]
  have hn := name_iff name
  have hc := code_iff false code hwf
  cases h1 : checkName N0 name with
  | error e =>
    rw [h1] at hn
    simp only
    constructor
    · intro h; cases h
    · intro h; have := hn.mpr h.1; cases this
  | ok u =>
    cases u
    rw [h1] at hn
    simp only
    cases h2 : checkCode S0 false code with
    | error e =>
      rw [h2] at hc
      simp only
      constructor
      · intro h; cases h
      · intro h; have := hc.mpr h.2; cases this
    | ok u =>
      cases u
      rw [h2] at hc
      simp only [true_iff]
      exact ⟨hn.mp rfl, hc.mp rfl⟩

/-- rejection side: some error is raised iff one of the four reasons of the property statement holds -/
theorem view_reject_iff (name : List Nat) (code : Mich) (hwf : pushHasType code = true) :
    (∃ e, checkView name code = .error e) ↔
      (name.length > 31 ∨ (∃ c ∈ name, ¬ okCodePoint c) ∨
        (∃ o ∈ occurrences false code, o.1 = "SELF" ∨ (o.1 ∈ restricted ∧ o.2 = false))) := by
  have h := view_accept_iff name code hwf
  have hdec : (∃ e, checkView name code = .error e) ↔ ¬ checkView name code = .ok () := by
    cases hv : checkView name code with
    | error e => simp
    | ok u => cases u; simp
  rw [hdec, h]
  unfold viewOk nameOk codeOk occOk
  constructor
  · intro hn
    by_cases h1 : name.length > 31
    · exact Or.inl h1
    · by_cases h2 : ∃ c ∈ name, ¬ okCodePoint c
      · exact Or.inr (Or.inl h2)
      · refine Or.inr (Or.inr ?_)
        apply Classical.byContradiction
        intro h3
        apply hn
        refine ⟨⟨by omega, fun c hc => Classical.byContradiction fun hx => h2 ⟨c, hc, hx⟩⟩, fun o ho => ?_⟩
        refine ⟨fun hs => h3 ⟨o, ho, Or.inl hs⟩, fun hr => ?_⟩
        cases hb : o.2 with
        | true => rfl
        | false => exact absurd ⟨o, ho, Or.inr ⟨hr, hb⟩⟩ h3
  · rintro (h1 | ⟨c, hc, hx⟩ | ⟨o, ho, hs | ⟨hr, hb⟩⟩) hok
    · omega
    · exact hx (hok.1.2 c hc)
    · exact (hok.2 o ho).1 hs
    · have := (hok.2 o ho).2 hr
      rw [hb] at this; cases this

/-- the error (if any) of a check, for the examples below -/
def errOf : Except String Unit → Option String
  | .ok _ => none
  | .error e => some e

-- non-vacuity: restricted instructions in the three kinds of lambda body are accepted, outside they are not
example : errOf (checkView [97, 46, 98] (.seq [.prim "LAMBDA_REC" [.prim "unit" [] [], .prim "unit" [] [],
    .seq [.prim "TRANSFER_TOKENS" [] []]] []])) = none := by decide
example : errOf (checkView [97] (.seq [.prim "PUSH" [.prim "pair" [.prim "nat" [] [], .prim "lambda" [.prim "unit" [] [], .prim "unit" [] []] []] [],
    .prim "Pair" [.int 1, .seq [.prim "SET_DELEGATE" [] []]] []] []])) = none := by decide
example : errOf (checkView [97] (.seq [.prim "DIP" [.seq [.prim "TRANSFER_TOKENS" [] []]] []])) = some "code:TRANSFER_TOKENS" := by decide
example : errOf (checkView [97] (.seq [.prim "PUSH" [.prim "nat" [] [], .seq [.prim "TRANSFER_TOKENS" [] []]] []])) =
    some "code:TRANSFER_TOKENS" := by decide
example : errOf (checkView [97] (.seq [.prim "LAMBDA" [.prim "unit" [] [], .prim "unit" [] [], .seq [.prim "SELF" [] []]] []])) =
    some "code:SELF" := by decide
example : errOf (checkView [97, 32, 98] (.seq [])) = some "name-char" := by decide
example : viewOk [97, 46, 98] (.seq [.prim "LAMBDA_REC" [.prim "unit" [] [], .prim "unit" [] [], .seq [.prim "TRANSFER_TOKENS" [] []]] []]) :=
  (view_accept_iff _ _ (by decide)).mp (by
    have : errOf (checkView [97, 46, 98] (.seq [.prim "LAMBDA_REC" [.prim "unit" [] [], .prim "unit" [] [],
      .seq [.prim "TRANSFER_TOKENS" [] []]] []])) = none := by decide
    revert this
    cases checkView [97, 46, 98] (.seq [.prim "LAMBDA_REC" [.prim "unit" [] [], .prim "unit" [] [],
      .seq [.prim "TRANSFER_TOKENS" [] []]] []]) with
    | ok u => intro _; rfl
    | error e => intro h; cases h)

end C32
