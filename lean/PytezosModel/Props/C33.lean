import PytezosModel.Proofs.C33
import PytezosModel.Proofs.HashText
import PytezosModel.Michelson.ConstantsKey
/-! C33 — `ExecutionContext.resolve_global_constants` replaces every reference `constant "h"` (also through other
constants) by the registered expression and leaves everything else, annotations included, unchanged; it fails on an
unknown hash.  All registries whose reference graph is acyclic (`Spec.Constants.Acyclic`: a topological numbering
below the registry size exists), all scripts (structural induction), all reference depths (induction on the rank).
The key under which `register_global_constant` files an expression (`expr…` text of the hash of the forged Micheline) is
modelled in `Michelson/ConstantsKey.lean` and treated in the last section (`register_key_text`, `register_key_concrete`). -/
namespace C33
open Impl.Constants Spec.Constants Proofs.C33

/-- the source has the shape the mirror was written after: references are prim `constant`, hash at `args[0]['string']` -/
theorem source_shape : Generated.C33.resolveShape = some S0 := by decide

/-- **expansion = fixpoint substitution**: acyclic registry, script that reaches only well-formed and registered
references ⇒ the mirror returns `Spec.subst reg e` (iterated one-step substitution) -/
theorem resolve_spec (reg : Registry) (e : Mich) (hA : Acyclic reg) (hW : WellFormed reg e) (hR : AllRegistered reg e) :
    resolve reg e = .ok (subst reg e) := by
  obtain ⟨rank, hrank⟩ := hA
  have hl := level reg rank (fun h v hl => (hrank h v hl).2) reg.length e hW.1 hW.2 (by
    intro h _ hne
    cases hl : reg.lookup h with
    | none => exact absurd hl hne
    | some v => exact (hrank h v hl).1)
  simp only [resolve, source_shape, subst, iter_eq_expandK]
  exact (hl.1 hR).1

/-- … and what it returns contains no `constant` node any more -/
theorem resolve_no_constant (reg : Registry) (e : Mich) (hA : Acyclic reg) (hW : WellFormed reg e) (hR : AllRegistered reg e)
    (r : Mich) (hr : resolve reg e = .ok r) : noConstant r = true := by
  obtain ⟨rank, hrank⟩ := hA
  have hl := level reg rank (fun h v hl => (hrank h v hl).2) reg.length e hW.1 hW.2 (by
    intro h _ hne
    cases hl : reg.lookup h with
    | none => exact absurd hl hne
    | some v => exact (hrank h v hl).1)
  simp only [resolve, source_shape] at hr
  rw [(hl.1 hR).1] at hr
  cases hr
  exact (hl.1 hR).2

/-- the result is a fixpoint of one-step substitution (so `Spec.subst` really is "substitute until nothing changes") -/
theorem resolve_fixpoint (reg : Registry) (e : Mich) (hA : Acyclic reg) (hW : WellFormed reg e) (hR : AllRegistered reg e)
    (r : Mich) (hr : resolve reg e = .ok r) : subst1 reg r = r :=
  substWith_noConstant _ r (resolve_no_constant reg e hA hW hR r hr)

/-- a script without references comes back unchanged (whatever the registry) -/
theorem resolve_no_refs (reg : Registry) (e : Mich) (hw : wf e = true) (hn : refs e = []) : resolve reg e = .ok e := by
  simp only [resolve, source_shape]
  have hno : ∀ h, h ∉ refs e := by intro h; rw [hn]; exact List.not_mem_nil
  cases hk : reg.length with
  | zero =>
    have := expand_ok (fun h => match reg.lookup h with
      | none => Except.error (Err.unknown h)
      | some _ => Except.error Err.recursion) (fun _ => none) e hw (fun h hh => absurd hh (hno h))
    rw [substWith_none] at this
    exact this.1
  | succ k =>
    have := expand_ok (fun h => match reg.lookup h with
      | none => Except.error (Err.unknown h)
      | some v => resolveFuel S0 reg k v) (fun _ => none) e hw (fun h hh => absurd hh (hno h))
    rw [substWith_none] at this
    exact this.1

/-- **unknown hashes**: if the script reaches (directly or through constants) a hash that is not registered, expansion
fails with `KeyError` naming such a hash -/
theorem resolve_unknown (reg : Registry) (e : Mich) (hA : Acyclic reg) (hW : WellFormed reg e)
    (hU : ∃ h, Reach reg e h ∧ reg.lookup h = none) :
    ∃ h, Reach reg e h ∧ reg.lookup h = none ∧ resolve reg e = .error (.unknown h) := by
  obtain ⟨rank, hrank⟩ := hA
  have hl := level reg rank (fun h v hl => (hrank h v hl).2) reg.length e hW.1 hW.2 (by
    intro h _ hne
    cases hl : reg.lookup h with
    | none => exact absurd hl hne
    | some v => exact (hrank h v hl).1)
  have hnall : ¬ AllRegistered reg e := by
    obtain ⟨h, hr, hn⟩ := hU
    exact fun ha => ha h hr hn
  obtain ⟨h', he, hr', hn'⟩ := hl.2 hnall
  exact ⟨h', hr', hn', by simp only [resolve, source_shape]; exact he⟩

/-- observed leniency of the code (outside the property's domain, Tezos rejects such nodes): extra arguments and
annotations of a `constant` node are ignored, the node is replaced all the same -/
theorem reference_leniency (reg : Registry) (h : String) (rest : List Mich) (an : List String) :
    resolve reg (.prim "constant" (.str h :: rest) an) = resolve reg (.prim "constant" [.str h] []) := by
  simp only [resolve, source_shape]
  cases reg.length <;> simp [resolveFuel, expandWith, S0, hashOf]

/-! non-vacuity: a two-level registry (`hB` refers to `hA`), references in a type position under an annotated parent -/

def isOkWith (x : Except Err Mich) (m : Mich) : Bool :=
  match x with
  | .ok r => r == m
  | .error _ => false

example : isOkWith (resolve regEx scriptEx)
    (.seq [.prim "storage" [.prim "or" [.prim "pair" [.prim "int" [] [], .prim "nat" [] ["%n"]] ["%p"], .prim "int" [] []] [":t"]] []]) = true := by
  decide

def errOf (x : Except Err Mich) : Option Err :=
  match x with
  | .ok _ => none
  | .error e => some e

example : errOf (resolve regEx (.seq [.prim "constant" [.str "hC"] []])) = some (.unknown "hC") := by decide

/-- the hypotheses of `resolve_spec` are satisfiable by a registry with a genuine reference between constants -/
example : Acyclic regEx := by
  refine ⟨fun h => if h = "hB" then 1 else 0, ?_⟩
  intro h v hl
  rcases regEx_lookup h v hl with ⟨rfl, rfl⟩ | ⟨rfl, rfl⟩
  · refine ⟨by decide, ?_⟩
    intro h' hh' _
    have : h' = "hA" := by simpa [refs, refsList, refOf] using hh'
    subst this; decide
  · refine ⟨by decide, ?_⟩
    intro h' hh' _
    simp [refs, refsList] at hh'

/-! ### the registration key: `expr…` text of the hash of the forged Micheline

`Impl.Constants.registerKeyChars cks H e` mirrors `forge_script_expr(forge_micheline(e))`.  First for every 4-byte
checksum function and every 32-byte hash function, then for the executable double SHA-256 / BLAKE2b-256 the driver runs.
The known answers are the Tezos documentation example (`999`) and the constants of
tests/unit_tests/test_michelson/test_repl/test_constants.py, evaluated by the kernel. -/
section Key
open HashText Impl.Encoding

/-- the `expr` row of the regenerated `base58_encodings` table -/
def exprRow : Row := ⟨[101, 120, 112, 114], 54, [13, 44, 64, 27], 32⟩

/-- closed facts about that row (kernel evaluation over the regenerated C09 table), see `HashText.rowFacts` -/
theorem expr_row_ok : rowFacts exprRow = true := by decide +kernel

/-- `register_global_constant` is `global_constants[forge_script_expr(forge_micheline(e))] = e`, prefix `expr` -/
theorem key_source : (Generated.C33.registerKeyIsScriptExprOfForged, Generated.C33.scriptExprPrefix) = (true, some "expr") := by
  decide

variable (cks : List Nat → List Nat) (hck : CksOk cks) (H : List Nat → List Nat) (hH : HashOk H)

include hck hH in
/-- every expression that `forge_micheline` can write is filed under a 54-character `expr…` text, which
`base58_decode` maps back to the hash of the forged bytes (no `0x05` prefix in front of them) -/
theorem register_key_text (e : Mich) (b : List Nat) (hb : forgeMich e = some b) :
    ∃ s, registerKeyChars cks H e = .ok s ∧ s.length = 54 ∧ [101, 120, 112, 114] <+: s ∧
      base58Decode cks s = .ok (H b) := by
  obtain ⟨s, hs, hl, hp, hd⟩ := text_of_payload cks hck exprRow expr_row_ok (H b) (hH.len b) (hH.bytes b)
  refine ⟨s, ?_, hl, hp, hd⟩
  have hs' : base58Encode cks (H b) [101, 120, 112, 114] = .ok s := hs
  have hc : chars "expr" = [101, 120, 112, 114] := by decide
  simp [registerKeyChars, Generated.C33.registerKeyIsScriptExprOfForged, Generated.C33.scriptExprPrefix, hb, hc, hs']

/-- an expression `forge_micheline` cannot write is not registered -/
theorem register_key_forge_error (e : Mich) (hb : forgeMich e = none) : registerKeyChars cks H e = .error .forge := by
  simp [registerKeyChars, Generated.C33.registerKeyIsScriptExprOfForged, Generated.C33.scriptExprPrefix, hb]

/-- `register_global_constant` then a lookup of the key finds the expression as registered -/
theorem register_then_lookup (reg reg' : Registry) (e : Mich) (h : register cks H reg e = .ok reg') :
    ∃ k, registerKey cks H e = .ok k ∧ reg'.lookup k = some e := by
  unfold register at h
  split at h
  next k hk =>
    injection h with h
    subst h
    exact ⟨k, hk, by simp [List.lookup]⟩
  · simp at h

/-- with the executable double SHA-256 and BLAKE2b-256 -/
theorem register_key_concrete (e : Mich) (b : List Nat) (hb : forgeMich e = some b) :
    ∃ s, registerKeyChars RealHash.cks RealHash.blake e = .ok s ∧ s.length = 54 ∧ [101, 120, 112, 114] <+: s ∧
      base58Decode RealHash.cks s = .ok (RealHash.blake b) :=
  register_key_text RealHash.cks cks_ok RealHash.blake blake_ok e b hb

end Key

/-- the key computation in three steps (forge, hash, Base58Check), so that a known answer can be evaluated by the
kernel one step at a time -/
theorem register_key_steps (cks : List Nat → List Nat) (H : List Nat → List Nat) (e : Mich) (b d s : List Nat)
    (hf : forgeMich e = some b) (hh : H b = d)
    (he : (Impl.Encoding.base58Encode cks d [101, 120, 112, 114]).toOption = some s) :
    (registerKeyChars cks H e).toOption = some s := by
  have hc : chars "expr" = [101, 120, 112, 114] := by decide
  simp only [registerKeyChars, Generated.C33.registerKeyIsScriptExprOfForged, Generated.C33.scriptExprPrefix, hf, hh, hc,
    Bool.not_true, Bool.false_eq_true, if_false]
  cases hb : Impl.Encoding.base58Encode cks d [101, 120, 112, 114] with
  | error err => rw [hb] at he; simp [Except.toOption] at he
  | ok s' => rw [hb] at he; simpa [Except.toOption] using he

-- Tezos documentation (global constants): `999`, forged 00 a7 0f (no PACK prefix), BLAKE2b-256 74e7b7c4…1fffcc, is registered
-- as expruQN5r2umbZVHy6WynYM8f71F8zS4AERz9bugF8UkPBEqrHLuU8
set_option maxRecDepth 4000 in
example : (registerKeyChars RealHash.cks RealHash.blake (.int 999)).toOption =
    some [101, 120, 112, 114, 117, 81, 78, 53, 114, 50, 117, 109, 98, 90, 86, 72, 121, 54, 87, 121, 110, 89, 77, 56, 102, 55, 49,
      70, 56, 122, 83, 52, 65, 69, 82, 122, 57, 98, 117, 103, 70, 56, 85, 107, 80, 66, 69, 113, 114, 72, 76, 117, 85, 56] :=
  register_key_steps RealHash.cks RealHash.blake (.int 999) [0, 167, 15]
    [116, 231, 183, 196, 107, 200, 76, 16, 171, 25, 31, 114, 104, 15, 14, 152, 189, 211, 117, 127, 4, 27, 241, 219, 178, 107,
      141, 90, 231, 31, 255, 204]
    _ (by decide +kernel) (by decide +kernel) (by decide +kernel)
-- test_constants.py: `unit` (forged 03 6c) is exprvKFFbc7SnPjkPZgyhaHewQhmrouNjNae3DpsQ8KuADn9i2WuJ8
set_option maxRecDepth 4000 in
example : (registerKeyChars RealHash.cks RealHash.blake (.prim "unit" [] [])).toOption =
    some [101, 120, 112, 114, 118, 75, 70, 70, 98, 99, 55, 83, 110, 80, 106, 107, 80, 90, 103, 121, 104, 97, 72, 101, 119, 81, 104,
      109, 114, 111, 117, 78, 106, 78, 97, 101, 51, 68, 112, 115, 81, 56, 75, 117, 65, 68, 110, 57, 105, 50, 87, 117, 74, 56] :=
  register_key_steps RealHash.cks RealHash.blake (.prim "unit" [] []) [3, 108]
    [236, 251, 13, 93, 219, 84, 54, 17, 49, 197, 27, 80, 159, 176, 248, 119, 138, 231, 74, 138, 125, 179, 48, 36, 53, 175,
      106, 135, 249, 27, 129, 176]
    _ (by decide +kernel) (by decide +kernel) (by decide +kernel)
-- an unknown primitive cannot be forged, hence not registered
example : (match registerKeyChars RealHash.cks RealHash.blake (.prim "no_such_prim" [] []) with
    | .error e => some e | .ok _ => none) = some KeyErr.forge := by decide +kernel

end C33
