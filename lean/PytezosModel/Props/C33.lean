import PytezosModel.Proofs.C33
/-! C33 — `ExecutionContext.resolve_global_constants` replaces every reference `constant "h"` (also through other
constants) by the registered expression and leaves everything else, annotations included, unchanged; it fails on an
unknown hash.  All registries whose reference graph is acyclic (`Spec.Constants.Acyclic`: a topological numbering
below the registry size exists), all scripts (structural induction), all reference depths (induction on the rank).
The key under which `register_global_constant` files an expression is recomputed independently by the harness. -/
namespace C33
open Impl.Constants Spec.Constants Proofs.C33

/-- the source has the shape the mirror was written after: references are prim `constant`, hash at `args[0]['string']` -/
theorem source_shape : Generated.C33.resolveShape = some S0 := by decide

/-- **expansion = fixpoint substitution**: acyclic registry, script that reaches only well-formed and registered
references ⇒ the mirror returns `Spec.subst reg e` (iterated one-step substitution) -/
theorem resolve_spec (reg : Registry) (e : Mich) (hA : Acyclic reg) (hW : WellFormed reg e) (hR : AllRegistered reg e) :
    resolve reg e = .ok (subst reg e) := by
  obtain ⟨rank, hrank⟩ := hA
  have hl := level reg rank (fun h v hl => (hrank h v hl).2) reg.length e hW.1 hW.2 (by
    intro h _ hne
    cases hl : reg.lookup h with
    | none => exact absurd hl hne
    | some v => exact (hrank h v hl).1)
  simp only [resolve, source_shape, subst, iter_eq_expandK]
  exact (hl.1 hR).1

/-- … and what it returns contains no `constant` node any more -/
theorem resolve_no_constant (reg : Registry) (e : Mich) (hA : Acyclic reg) (hW : WellFormed reg e) (hR : AllRegistered reg e)
    (r : Mich) (hr : resolve reg e = .ok r) : noConstant r = true := by
  obtain ⟨rank, hrank⟩ := hA
  have hl := level reg rank (fun h v hl => (hrank h v hl).2) reg.length e hW.1 hW.2 (by
    intro h _ hne
    cases hl : reg.lookup h with
    | none => exact absurd hl hne
    | some v => exact (hrank h v hl).1)
  simp only [resolve, source_shape] at hr
  rw [(hl.1 hR).1] at hr
  cases hr
  exact (hl.1 hR).2

/-- the result is a fixpoint of one-step substitution (so `Spec.subst` really is "substitute until nothing changes") -/
theorem resolve_fixpoint (reg : Registry) (e : Mich) (hA : Acyclic reg) (hW : WellFormed reg e) (hR : AllRegistered reg e)
    (r : Mich) (hr : resolve reg e = .ok r) : subst1 reg r = r :=
  substWith_noConstant _ r (resolve_no_constant reg e hA hW hR r hr)

/-- a script without references comes back unchanged (whatever the registry) -/
theorem resolve_no_refs (reg : Registry) (e : Mich) (hw : wf e = true) (hn : refs e = []) : resolve reg e = .ok e := by
  simp only [resolve, source_shape]
  have hno : ∀ h, h ∉ refs e := by intro h; rw [hn]; exact List.not_mem_nil
  cases hk : reg.length with
  | zero =>
    have := expand_ok (fun h => match reg.lookup h with
      | none => Except.error (Err.unknown h)
      | some _ => Except.error Err.recursion) (fun _ => none) e hw (fun h hh => absurd hh (hno h))
    rw [substWith_none] at this
    exact this.1
  | succ k =>
    have := expand_ok (fun h => match reg.lookup h with
      | none => Except.error (Err.unknown h)
      | some v => resolveFuel S0 reg k v) (fun _ => none) e hw (fun h hh => absurd hh (hno h))
    rw [substWith_none] at this
    exact this.1

/-- **unknown hashes**: if the script reaches (directly or through constants) a hash that is not registered, expansion
fails with `KeyError` naming such a hash -/
theorem resolve_unknown (reg : Registry) (e : Mich) (hA : Acyclic reg) (hW : WellFormed reg e)
    (hU : ∃ h, Reach reg e h ∧ reg.lookup h = none) :
    ∃ h, Reach reg e h ∧ reg.lookup h = none ∧ resolve reg e = .error (.unknown h) := by
  obtain ⟨rank, hrank⟩ := hA
  have hl := level reg rank (fun h v hl => (hrank h v hl).2) reg.length e hW.1 hW.2 (by
    intro h _ hne
    cases hl : reg.lookup h with
    | none => exact absurd hl hne
    | some v => exact (hrank h v hl).1)
  have hnall : ¬ AllRegistered reg e := by
    obtain ⟨h, hr, hn⟩ := hU
    exact fun ha => ha h hr hn
  obtain ⟨h', he, hr', hn'⟩ := hl.2 hnall
  exact ⟨h', hr', hn', by simp only [resolve, source_shape]; exact he⟩

/-- observed leniency of the code (outside the property's domain, Tezos rejects such nodes): extra arguments and
annotations of a `constant` node are ignored, the node is replaced all the same -/
theorem reference_leniency (reg : Registry) (h : String) (rest : List Mich) (an : List String) :
    resolve reg (.prim "constant" (.str h :: rest) an) = resolve reg (.prim "constant" [.str h] []) := by
  simp only [resolve, source_shape]
  cases reg.length <;> simp [resolveFuel, expandWith, S0, hashOf]

/-! non-vacuity: a two-level registry (`hB` refers to `hA`), references in a type position under an annotated parent -/

def isOkWith (x : Except Err Mich) (m : Mich) : Bool :=
  match x with
  | .ok r => r == m
  | .error _ => false

example : isOkWith (resolve regEx scriptEx)
    (.seq [.prim "storage" [.prim "or" [.prim "pair" [.prim "int" [] [], .prim "nat" [] ["%n"]] ["%p"], .prim "int" [] []] [":t"]] []]) = true := by
  decide

def errOf (x : Except Err Mich) : Option Err :=
  match x with
  | .ok _ => none
  | .error e => some e

example : errOf (resolve regEx (.seq [.prim "constant" [.str "hC"] []])) = some (.unknown "hC") := by decide

/-- the hypotheses of `resolve_spec` are satisfiable by a registry with a genuine reference between constants -/
example : Acyclic regEx := by
  refine ⟨fun h => if h = "hB" then 1 else 0, ?_⟩
  intro h v hl
  rcases regEx_lookup h v hl with ⟨rfl, rfl⟩ | ⟨rfl, rfl⟩
  · refine ⟨by decide, ?_⟩
    intro h' hh' _
    have : h' = "hA" := by simpa [refs, refsList, refOf] using hh'
    subst this; decide
  · refine ⟨by decide, ?_⟩
    intro h' hh' _
    simp [refs, refsList] at hh'

end C33
