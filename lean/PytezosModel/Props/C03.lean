import PytezosModel.Proofs.C03Impl
import PytezosModel.Proofs.C14Coll
import PytezosModel.Proofs.C03Bridge
/-!
# C03 — COMPARE and ordered collections follow the Tezos total order

`Impl.Order.compare` is the mirror of `compare()` (instructions/compare.py) over the mirrored `__eq__` / `__lt__` of every
comparable runtime type (shapes and tables re-extracted from the source on every run: `Generated.C03`);
`Spec.Order.cmp` is the structural Tezos order.  All statements quantify over ALL comparable types `τ` and ALL values
`HasTy · τ` (structural induction, no depth bound).
-/
namespace C03
open Order Impl.Order Spec.Order Coll

/-- COMPARE returns -1 / 0 / 1 exactly as the Tezos order says (and never raises) — every comparable type, every two values -/
theorem compare_eq_spec {a b : CVal} {τ : CTy} (ha : HasTy a τ) (hb : HasTy b τ) :
    Impl.Order.compare a b = some (toInt (cmp a b)) := by
  unfold Impl.Order.compare
  rw [shapesOk_true, eq_spec ha hb, lt_spec ha hb]
  cases cmp a b <;> rfl

/-! The relation COMPARE computes is a total order (laws of `Impl.Order.compare` itself). -/
theorem compare_refl {a : CVal} {τ : CTy} (ha : HasTy a τ) : Impl.Order.compare a a = some 0 := by
  rw [compare_eq_spec ha ha, (spec_lawful τ).refl a ha]; rfl

theorem compare_antisymm {a b : CVal} {τ : CTy} (ha : HasTy a τ) (hb : HasTy b τ)
    (h : Impl.Order.compare a b = some 0) : a = b := by
  rw [compare_eq_spec ha hb] at h
  refine (spec_lawful τ).eq_imp a b ha hb ?_
  cases hc : cmp a b <;> rw [hc] at h <;> simp [toInt] at h

/-- swapping the operands negates the result -/
theorem compare_swap {a b : CVal} {τ : CTy} (ha : HasTy a τ) (hb : HasTy b τ) :
    Impl.Order.compare b a = (Impl.Order.compare a b).map (fun r => -r) := by
  rw [compare_eq_spec ha hb, compare_eq_spec hb ha, (spec_lawful τ).swap a b ha hb]
  cases cmp a b <;> rfl

theorem compare_trans {a b c : CVal} {τ : CTy} (ha : HasTy a τ) (hb : HasTy b τ) (hc : HasTy c τ)
    (hab : Impl.Order.compare a b = some (-1)) (hbc : Impl.Order.compare b c = some (-1)) :
    Impl.Order.compare a c = some (-1) := by
  rw [compare_eq_spec ha hb] at hab
  rw [compare_eq_spec hb hc] at hbc
  rw [compare_eq_spec ha hc]
  have h1 : cmp a b = .lt := by cases h : cmp a b <;> rw [h] at hab <;> simp [toInt] at hab
  have h2 : cmp b c = .lt := by cases h : cmp b c <;> rw [h] at hbc <;> simp [toInt] at hbc
  rw [(spec_lawful τ).trans a b c ha hb hc h1 h2]; rfl

theorem compare_total {a b : CVal} {τ : CTy} (ha : HasTy a τ) (hb : HasTy b τ) :
    a = b ∨ Impl.Order.compare a b = some (-1) ∨ Impl.Order.compare b a = some (-1) := by
  rw [compare_eq_spec ha hb, compare_eq_spec hb ha, (spec_lawful τ).swap a b ha hb]
  cases h : cmp a b
  · exact .inr (.inl rfl)
  · exact .inl ((spec_lawful τ).eq_imp a b ha hb h)
  · exact .inr (.inr rfl)

/-- `__lt__` never raises on two values of one type, and is the strict part of the order -/
theorem lt_defined {τ : CTy} (a b : TVal τ) : Impl.Order.lt a.1 b.1 = some (TVal.lt a b) := by
  unfold TVal.lt
  rw [lt_spec a.2 b.2]
  cases (cmp a.1 b.1).isLT <;> rfl

theorem tval_lt_iff {τ : CTy} (a b : TVal τ) : TVal.lt a b = true ↔ cmp a.1 b.1 = .lt := by
  unfold TVal.lt
  rw [lt_spec a.2 b.2]
  cases cmp a.1 b.1 <;> simp [Ordering.isLT]

theorem tval_eq_iff {τ : CTy} (a b : TVal τ) : TVal.eq a b = true ↔ a = b := by
  unfold TVal.eq
  rw [eq_spec a.2 b.2]
  constructor
  · intro h
    exact Subtype.ext ((spec_lawful τ).eq_imp _ _ a.2 b.2 (by simpa using h))
  · intro h; subst h; simp [(spec_lawful τ).refl _ a.2]

/-- `__eq__` / `__lt__` of the values of any comparable type form a strict total order
(this is the hypothesis C14 is stated under) -/
theorem tval_strictTotal (τ : CTy) : StrictTotal (TVal.eq (τ := τ)) TVal.lt where
  eq_iff := tval_eq_iff
  irrefl := by
    intro a
    cases h : TVal.lt a a with
    | false => rfl
    | true => rw [tval_lt_iff, (spec_lawful τ).refl _ a.2] at h; cases h
  trans := by
    intro a b c hab hbc
    rw [tval_lt_iff] at *
    exact (spec_lawful τ).trans _ _ _ a.2 b.2 c.2 hab hbc
  total := by
    intro a b
    simp only [tval_lt_iff, (spec_lawful τ).swap a.1 b.1 a.2 b.2]
    cases h : cmp a.1 b.1
    · exact .inr (.inl rfl)
    · exact .inl (Subtype.ext ((spec_lawful τ).eq_imp _ _ a.2 b.2 h))
    · exact .inr (.inr rfl)

/-- the list sorted by the specification order (insertion sort on `Spec.Order.cmp`) -/
def specSort {τ : CTy} (xs : List (TVal τ)) : List (TVal τ) :=
  Impl.Coll.sortBy (fun a b => cmp a.1 b.1 == .lt) id xs

/-- ANY permutation of `xs` in which no later element is `__lt__` an earlier one — which is all CPython's `sorted`
promises — is THE list sorted by the specification order.  (Hence `sorted()` in `add` / `update` / `check_constraints`
yields Spec order whatever algorithm it uses.) -/
theorem sorted_unique {τ : CTy} (xs ys : List (TVal τ)) (hperm : ys.Perm xs)
    (hsorted : ys.Pairwise (fun a b => Impl.Order.lt b.1 a.1 = some false)) : ys = specSort xs := by
  have hlt : (fun a b : TVal τ => cmp a.1 b.1 == .lt) = TVal.lt := by
    funext a b
    cases h : TVal.lt a b with
    | true => rw [(tval_lt_iff a b).1 h]; rfl
    | false =>
      cases hc : cmp a.1 b.1
      · rw [(tval_lt_iff a b).2 hc] at h; cases h
      · rfl
      · rfl
  have hT := tval_strictTotal τ
  have h1 : SortedBy TVal.lt id ys := by
    refine hsorted.imp ?_
    intro a b h
    rw [lt_defined] at h
    simpa using h
  have h2 : SortedBy TVal.lt id (specSort xs) := by
    unfold specSort; rw [hlt]; exact sortBy_sorted hT id xs
  have hp : ys.Perm (specSort xs) := by
    unfold specSort; exact hperm.trans (sortBy_perm id xs).symm
  refine List.Perm.eq_of_pairwise (le := fun a b => TVal.lt b a = false) ?_ h1 h2 hp
  intro a b _ _ hab hba
  rcases hT.total a b with e | e | e
  · exact e
  · rw [e] at hba; cases hba
  · rw [e] at hab; cases hab

/-- a set / map literal is accepted by `check_constraints` iff its keys are strictly ascending in the Tezos order
(so duplicates and unsorted literals are rejected, by the same relation COMPARE uses) -/
theorem checkConstraints_iff_strictSorted {τ : CTy} (ks : List (TVal τ)) :
    Impl.Coll.checkConstraints TVal.eq TVal.lt ks = .ok () ↔ ks.Pairwise (fun a b => cmp a.1 b.1 = .lt) := by
  rw [checkConstraints_ok_iff (tval_strictTotal τ)]
  unfold StrictSorted
  constructor <;> intro h <;> refine h.imp ?_ <;> intro a b hab
  · exact (tval_lt_iff a b).1 hab
  · exact (tval_lt_iff a b).2 hab

/-- … and the duplicate check fires exactly on duplicates -/
theorem checkConstraints_duplicate_iff {τ : CTy} (ks : List (TVal τ)) :
    Impl.Coll.checkConstraints TVal.eq TVal.lt ks = .error .duplicate ↔ ¬ ks.Nodup :=
  checkConstraints_dup_iff (tval_strictTotal τ) ks

/-- every value of a comparable type can be hashed (so `len(set(keys))` in `check_constraints` does not raise) -/
theorem hashable_all (v : CVal) : hashable v = true := by
  induction v with
  | unit => decide
  | some v ih => simpa [hashable] using ih
  | left v ih => simpa [hashable] using ih
  | right v ih => simpa [hashable] using ih
  | pair a b iha ihb => simp [hashable, iha, ihb]
  | _ => rfl

/-- pytezos accepts every type of the modelled universe as comparable (set / map key type) -/
theorem cty_is_comparable (τ : CTy) : isComparableC τ = some true := by
  have hb : Generated.C03.nonComparable = some (Generated.C03.nonComparable.getD []) := by decide
  unfold isComparableC
  rw [hb]
  simp only [Option.map_some, Option.some.injEq]
  induction τ with
  | num t => cases t <;> decide
  | option t ih => simp only [toPrim, isComparable, isComparable.isComparableL, ih, Bool.and_true]; decide
  | or l r ihl ihr => simp only [toPrim, isComparable, isComparable.isComparableL, ihl, ihr, Bool.and_true]; decide
  | pair l r ihl ihr => simp only [toPrim, isComparable, isComparable.isComparableL, ihl, ihr, Bool.and_true]; decide
  | _ => decide

/-- **text ↔ structure bridge.**  pytezos keeps key_hash / address values as base58check text and compares the text;
the model compares (kind tag, payload).  For kinds `k₁ k₂` (tz1 tz2 tz3 tz4 KT1 sr1), payloads and checksums that are
byte strings of equal lengths, and texts of the same number of characters (all these kinds encode to 36 characters: C09),
`textLt` / `textEq` of the model ARE Python's `<` / `==` on the texts `b58enc (binary prefix ‖ payload ‖ checksum)`
(the checksum is a function of prefix ‖ payload: `hck`). -/
theorem text_bridge (k₁ k₂ : Nat) (p₁ p₂ ck₁ ck₂ : List Nat) (h₁ : k₁ < 6) (h₂ : k₂ < 6)
    (hp₁ : ∀ x ∈ p₁, x < 256) (hp₂ : ∀ x ∈ p₂, x < 256) (hc₁ : ∀ x ∈ ck₁, x < 256) (hc₂ : ∀ x ∈ ck₂, x < 256)
    (hl : p₁.length = p₂.length) (hcl : ck₁.length = ck₂.length) (hck : k₁ = k₂ → p₁ = p₂ → ck₁ = ck₂)
    (htl : (Base58.b58enc (binPrefix k₁ ++ p₁ ++ ck₁)).length = (Base58.b58enc (binPrefix k₂ ++ p₂ ++ ck₂)).length) :
    textLt (pfx k₁) p₁ (pfx k₂) p₂
      = (lexCmp (Base58.b58enc (binPrefix k₁ ++ p₁ ++ ck₁)) (Base58.b58enc (binPrefix k₂ ++ p₂ ++ ck₂))).isLT
    ∧ textEq (pfx k₁) p₁ (pfx k₂) p₂
      = (lexCmp (Base58.b58enc (binPrefix k₁ ++ p₁ ++ ck₁)) (Base58.b58enc (binPrefix k₂ ++ p₂ ++ ck₂)) == .eq) :=
  textLt_is_string_lt k₁ k₂ p₁ p₂ ck₁ ck₂ h₁ h₂ hp₁ hp₂ hc₁ hc₂ hl hcl hck htl

/-- same statement for one kind with an arbitrary non-empty binary prefix without leading zero byte (chain ids `Net…`,
and the reason `StringType.__lt__` is right for them): the payload bytes decide -/
theorem text_bridge_one_kind (pfx' p p' ck ck' : List Nat)
    (hb : ∀ x ∈ pfx' ++ p ++ ck, x < 256) (hb' : ∀ x ∈ pfx' ++ p' ++ ck', x < 256)
    (h0 : pfx'.head? ≠ some 0) (hne0 : pfx' ≠ []) (hl : p.length = p'.length) (hcl : ck.length = ck'.length)
    (htl : (Base58.b58enc (pfx' ++ p ++ ck)).length = (Base58.b58enc (pfx' ++ p' ++ ck')).length) (hne : p ≠ p') :
    lexCmp (Base58.b58enc (pfx' ++ p ++ ck)) (Base58.b58enc (pfx' ++ p' ++ ck')) = lexCmp p p' :=
  b58_text_order_same_kind pfx' p p' ck ck' hb hb' h0 hne0 hl hcl htl hne

/-! ### non-vacuity -/
-- the bridge hypotheses are satisfiable: two real tz1 / KT1 byte strings (prefix ‖ 20 bytes ‖ 4 bytes) of equal text length
example : (Base58.b58enc (binPrefix 0 ++ List.replicate 20 7 ++ [1, 2, 3, 4])).length
    = (Base58.b58enc (binPrefix 4 ++ List.replicate 20 200 ++ [9, 9, 9, 9])).length := by decide +kernel
-- the pinned counter-example: COMPARE (Pair 1 5) (Pair 2 3) is -1 (first components decide)
example : Impl.Order.compare (.pair (.num .int 1) (.num .int 5)) (.pair (.num .int 2) (.num .int 3)) = some (-1) := by decide
example : HasTy (.pair (.num .int 1) (.num .int 5)) (.pair (.num .int) (.num .int)) := .pair (.num _ _ rfl) (.num _ _ rfl)
-- a smart rollup address is greater than an originated one, which is greater than an implicit one
example : Impl.Order.compare (.address 5 (List.replicate 20 0) []) (.address 4 (List.replicate 20 255) []) = some 1 := by decide
example : Impl.Order.compare (.address 4 (List.replicate 20 0) []) (.address 3 (List.replicate 20 255) []) = some 1 := by decide
-- `KT1…` (= `%default`) is greater than `KT1…%abc`
example : Impl.Order.compare (.address 4 (List.replicate 20 0) []) (.address 4 (List.replicate 20 0) [97, 98, 99]) = some 1 := by decide
-- a BLS key compares (greater than a p256 key)
example : Impl.Order.compare (.key 3 (List.replicate 48 0)) (.key 2 (List.replicate 33 255)) = some 1 := by decide
-- Some Unit vs None
example : Impl.Order.compare (.some .unit) .none = some 1 := by decide
-- a three-element literal
example : Impl.Coll.checkConstraints Impl.Order.eq (fun a b => Impl.Order.lt a b == some true)
    [.pair (.num .int 1) (.num .int 5), .pair (.num .int 2) (.num .int 3), .pair (.num .int 2) (.num .int 4)] = .ok () := by rfl
example : Impl.Coll.checkConstraints Impl.Order.eq (fun a b => Impl.Order.lt a b == some true)
    [.pair (.num .int 2) (.num .int 3), .pair (.num .int 1) (.num .int 5)] = .error .unsorted := by rfl

end C03
