import PytezosModel.Proofs.C26
/-! C26 — RPC requests retry exactly the transient node failures.

`Impl.Retry.request rs` is the mirror of `RpcNode.request` run against a node that answers with the responses `rs`
(in this order); it yields the number of HTTP requests issued, the arguments of `sleep` (milliseconds) and the
outcome.  `Spec.Retry.transient` is the property's notion of a transient server error, `Spec.Retry.schedule` the
delays 0.25, 0.5, 1, 2, 2 s.  `WF rs` is the property's domain: error ids, where present, are strings and a 200
response carries JSON (the alphabet of the statement); theorems that do not need it are stated without it.
Every theorem holds for all response sequences (induction over the list). -/
namespace C26
open Impl.Retry Proofs.C26

/-- domain of the property, see `Spec.Retry.wellFormed` -/
def WF (rs : List Resp) : Prop := ∀ r ∈ rs, Spec.Retry.wellFormed r = true

/-- the model is total: the source was recognised -/
theorem request_defined (rs : List Resp) : ∃ t, request rs = some t := by
  obtain ⟨b, hb⟩ := request_eq rs
  exact ⟨_, hb⟩

/-- number of requests = 1 + length of the longest run of transient responses at the start of the first five -/
theorem attempts_closed_form (rs : List Resp) (hw : WF rs) (t : Trace) (ht : request rs = some t) :
    t.issued = 1 + ((rs.take Spec.Retry.maxRetries).takeWhile Spec.Retry.transient).length := by
  obtain ⟨b, hb⟩ := request_eq rs
  rw [hb] at ht
  cases ht
  rw [loop_issued b rs 0 250 (by omega) hw]
  simp [Spec.Retry.maxRetries]

/-- attempt `i+1` is made iff attempt `i` was made, `i < 5` and response `i` is a transient server error -/
theorem retry_iff_transient (rs : List Resp) (hw : WF rs) (t : Trace) (ht : request rs = some t)
    (i : Nat) (hi : i < rs.length) (hmade : i < t.issued) :
    i + 1 < t.issued ↔ (i < Spec.Retry.maxRetries ∧ Spec.Retry.transient rs[i] = true) := by
  have hc := attempts_closed_form rs hw t ht
  simp only [Spec.Retry.maxRetries] at hc ⊢
  have hL : ((rs.take 5).takeWhile Spec.Retry.transient).length ≤ 5 :=
    Nat.le_trans (List.takeWhile_sublist _).length_le (by rw [List.length_take]; omega)
  by_cases h5 : i < 5
  · have hi' : i < (rs.take 5).length := by simp; omega
    have key := lt_takeWhile_length_iff Spec.Retry.transient (rs.take 5) i hi' (by omega)
    rw [List.getElem_take] at key
    constructor
    · intro h; exact ⟨h5, key.mp (by omega)⟩
    · intro h; have := key.mpr h.2; omega
  · constructor
    · intro h; omega
    · intro h; exact absurd h.1 h5

/-- at least one, at most six requests — for every response sequence, well-formed or not -/
theorem attempts_le_six (rs : List Resp) (t : Trace) (ht : request rs = some t) : 1 ≤ t.issued ∧ t.issued ≤ 6 := by
  obtain ⟨b, hb⟩ := request_eq rs
  rw [hb] at ht
  cases ht
  exact ⟨loop_issued_gt _ rs 0 250, loop_issued_le (specConfig b) rs 0 250 (by simp)⟩

/-- the sleeps are exactly the first `issued - 1` entries of 0.25, 0.5, 1, 2, 2 s — for every response sequence -/
theorem delays_schedule (rs : List Resp) (t : Trace) (ht : request rs = some t) :
    t.sleeps = Spec.Retry.schedule.take (t.issued - 1) := by
  have h6 := attempts_le_six rs t ht
  obtain ⟨b, hb⟩ := request_eq rs
  rw [hb] at ht
  cases ht
  have hs := loop_sleeps (specConfig b) rs 0
  simp only [delayAt, specConfig_initialDelay, Nat.zero_add, Nat.sub_zero] at hs
  rw [hs]
  generalize (loop (specConfig b) 0 250 rs).issued = n at h6 ⊢
  have : n = 1 ∨ n = 2 ∨ n = 3 ∨ n = 4 ∨ n = 5 ∨ n = 6 := by omega
  rcases this with h | h | h | h | h | h <;> subst h <;>
    simp [List.range_succ, delayAt, Spec.Retry.schedule]

/-- non-decreasing delays, capped at two seconds -/
theorem delays_monotone_capped (rs : List Resp) (t : Trace) (ht : request rs = some t) :
    t.sleeps.Pairwise (· ≤ ·) ∧ ∀ d ∈ t.sleeps, d ≤ 2000 := by
  rw [delays_schedule rs t ht]
  constructor
  · exact List.Pairwise.sublist (List.take_sublist _ _) (by decide)
  · intro d hd
    have hm := List.mem_of_mem_take hd
    simp only [Spec.Retry.schedule, List.mem_cons, List.not_mem_nil, or_false] at hm
    omega

/-- the outcome is that of the first response that is not retried: returned when its status is 200, otherwise the
error made from *that* response (401 / 404 / `RpcError.from_response`) -/
theorem result_spec (rs : List Resp) (hw : WF rs) (t : Trace) (ht : request rs = some t) (hlen : t.issued ≤ rs.length) :
    ∃ r, rs[t.issued - 1]? = some r ∧ t.outcome = Spec.Retry.outcome r := by
  obtain ⟨b, hb⟩ := request_eq rs
  rw [hb] at ht
  cases ht
  simpa using loop_outcome b rs 0 250 hw (by simpa using hlen)

/-- a response is returned only if it is the first one that is not retried and its status is 200; all responses
before it were transient server errors -/
theorem first_success_returned (rs : List Resp) (hw : WF rs) (t : Trace) (ht : request rs = some t)
    (hret : t.outcome = .returned) :
    ∃ r, rs[t.issued - 1]? = some r ∧ r.status = 200 ∧
      ∀ j (hj : j < rs.length), j < t.issued - 1 → Spec.Retry.transient rs[j] = true ∧ 500 ≤ rs[j].status := by
  have h6 := attempts_le_six rs t ht
  have hlen : t.issued ≤ rs.length := by
    obtain ⟨b, hb⟩ := request_eq rs
    rw [hb] at ht
    cases ht
    apply Nat.le_of_not_lt
    intro h
    have := loop_exhausted (specConfig b) rs 0 250 (by simpa using h)
    rw [this] at hret
    cases hret
  obtain ⟨r, hr, ho⟩ := result_spec rs hw t ht hlen
  refine ⟨r, hr, ?_, ?_⟩
  · rw [hret] at ho
    unfold Spec.Retry.outcome at ho
    by_cases h2 : r.status = 200
    · exact h2
    · by_cases h401 : r.status = 401
      · simp [h401] at ho
      · by_cases h404 : r.status = 404
        · simp [h404] at ho
        · simp only [h2, h401, h404, if_false] at ho
          exact absurd ho.symm (fromResponse_ne_returned r)
  · intro j hj hlt
    have := (retry_iff_transient rs hw t ht j hj (by omega)).mp (by omega)
    refine ⟨this.2, ?_⟩
    have h := this.2
    simp only [Spec.Retry.transient, Bool.and_eq_true, decide_eq_true_eq] at h
    exact h.1

/-- a response sequence of six or more never runs out -/
theorem never_exhausted (rs : List Resp) (t : Trace) (ht : request rs = some t) (h : 6 ≤ rs.length) :
    t.issued ≤ rs.length := Nat.le_trans (attempts_le_six rs t ht).2 h

/-! non-vacuity: concrete well-formed sequences exercising every clause -/
section examples
/-- 500, json, `[{"id": "node.x", "kind": "temporary"}]` -/
private def tmp : Resp := ⟨500, true, .list [.dict (.str [110, 111, 100, 101, 46, 120]) (.str Spec.Retry.temporary)], []⟩
/-- 500, json, `[{"id": "proto.a", "kind": "temporary"}]` with the marker in the text -/
private def protoTmp : Resp :=
  ⟨500, true, .list [.dict (.str (Spec.Retry.protoPrefix ++ [97])) (.str Spec.Retry.temporary)], Spec.Retry.prevalidatorMarker⟩
/-- 502 plain text mentioning prevalidator.ml -/
private def preval : Resp := ⟨502, false, .invalid, [120] ++ Spec.Retry.prevalidatorMarker ++ [58, 49]⟩
private def ok : Resp := ⟨200, true, .nonList, []⟩
private def notFound : Resp := ⟨404, false, .invalid, []⟩

example : WF [tmp, preval, protoTmp, ok] := by unfold WF; decide
example : request [tmp, preval, ok] = some ⟨3, [250, 500], .returned⟩ := by decide
example : request [tmp, protoTmp, ok] = some ⟨2, [250], .rpcFromLast (Spec.Retry.protoPrefix ++ [97])⟩ := by decide
example : request [tmp, tmp, tmp, tmp, tmp, tmp, ok] = some ⟨6, [250, 500, 1000, 2000, 2000], .rpcFromLast [110, 111, 100, 101, 46, 120]⟩ := by
  decide
example : request [preval, notFound] = some ⟨2, [250], .rpcNotFound⟩ := by decide
example : Spec.Retry.transient tmp = true ∧ Spec.Retry.transient preval = true ∧ Spec.Retry.transient protoTmp = false := by decide
/-- outside the domain (an id that is not a string) the classifier itself raises -/
example : request [⟨500, true, .list [.dict .other .absent], []⟩, ok] = some ⟨1, [], .crash .attributeError⟩ := by decide
end examples

end C26
