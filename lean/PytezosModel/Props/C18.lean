import PytezosModel.Proofs.C18Top
/-! C18 — Michelson text formatting and parsing are inverse.

`Impl.Text.format` mirrors `micheline_to_michelson` (format.py), `Impl.Text.lex` the PLY lexer and `Impl.Text.parse`
the grammar actions (parse.py); all tables (`line_size`, the `is_framed` rule, the lexer classes and rule order,
`prim_tags`) are regenerated from the source.  For EVERY expression in the domain `WFText` (no size bound):

* `lex_format`  — the text, inline or multi-line, lexes to the token stream `toks e` (layout only inserts blanks/newlines);
* `parse_toks`  — the parser reads `toks e` back to `e`;
* `roundtrip`   — `michelson_to_micheline (micheline_to_michelson e inline) = e`.

`WFText e`: every primitive is a `prim_tags` name that lexes as one `PRIM` token, every annotation lexes as one
`ANNOT` token, bytes are bytes (< 256), and the root is not a one-element list holding just a
`parameter`/`storage`/`code` section (which `format_node` prints as that section alone).  No condition on strings
(any `Char` sequence — `json.dumps`/`json.loads` are modelled and proved inverse) nor on integers. -/
namespace C18
open Impl.Text Generated

theorem wfText_iff (e : Mich) : wfText e = true ↔ WFText e := by
  unfold wfText WFText
  constructor
  · intro h
    split at h
    · rename_i sp tags cfg h1 h2 h3
      simp only [Bool.and_eq_true] at h
      exact ⟨sp, tags, cfg, h1, h2, h3, h.1, h.2⟩
    · cases h
  · rintro ⟨sp, tags, cfg, h1, h2, h3, h4, h5⟩
    simp [h1, h2, h3, h4, h5]

instance (e : Mich) : Decidable (WFText e) := decidable_of_iff _ (wfText_iff e)

/-- Formatting then lexing gives the token stream of the expression, in both layouts. -/
theorem lex_format (inline : Bool) (e : Mich) (h : WFText e) :
    ∃ s ts, format inline e = some s ∧ toks e = some ts ∧ lex s = some ts := by
  obtain ⟨sp, tags, cfg, hsp, _, hcfg, hwf, _⟩ := h
  have ok := specOK_of hsp
  refine ⟨fmtNode cfg inline 0 true false e, toksNode cfg true false e, ?_, ?_, ?_⟩
  · simp [format, hcfg, wf_primsNonEmpty sp tags e hwf]
  · simp [toks, hcfg]
  · have := fmtNode_lx ok tags cfg inline e hwf 0 true false [] Delim.nil
    simpa [lex, hsp, lexWith] using this

/-- The multi-line layout differs from the inline one only in ignorable white space: same token stream. -/
theorem layout_irrelevant (e : Mich) (h : WFText e) :
    (format false e).bind lex = (format true e).bind lex := by
  obtain ⟨s1, ts1, h1, ht1, hl1⟩ := lex_format false e h
  obtain ⟨s2, ts2, h2, ht2, hl2⟩ := lex_format true e h
  rw [ht1] at ht2; cases ht2
  simp [h1, h2, hl1, hl2]

/-- The parser reads the token stream of an expression back to the expression. -/
theorem parse_toks (e : Mich) (h : WFText e) : ∃ ts, toks e = some ts ∧ parse ts = some e := by
  obtain ⟨sp, tags, cfg, _, htags, hcfg, hwf, hroot⟩ := h
  refine ⟨toksNode cfg true false e, by simp [toks, hcfg], ?_⟩
  obtain ⟨r, hr, hm⟩ := parseInstr_root tags cfg sp (framed_of hcfg) e hwf hroot
    (parseFuel (toksNode cfg true false e)) (by simp [parseFuel])
  have hg : C18.grammarRecognised = true := by decide
  simp only [parse, parseTop, htags, Option.bind_some, hg, if_true, hr]
  cases r with
  | none => simp [IRes.toMich?] at hm
  | one m => simpa [IRes.toMich?] using hm
  | many ms => simpa [IRes.toMich?] using hm

/-- The property: `michelson_to_micheline(micheline_to_michelson(e, inline)) == e`, both layouts, every
well-formed expression. -/
theorem roundtrip (inline : Bool) (e : Mich) (h : WFText e) : (format inline e).bind parseText = some e := by
  obtain ⟨s, ts, hs, hts, hl⟩ := lex_format inline e h
  obtain ⟨ts', hts', hp⟩ := parse_toks e h
  rw [hts] at hts'; cases hts'
  obtain ⟨sp, tags, cfg, hsp, _, hcfg, _, _⟩ := h
  have ok := specOK_of hsp
  have hts2 : ts = toksNode cfg true false e := by
    simp only [toks, hcfg, Option.map_some, Option.some.injEq] at hts; exact hts.symm
  obtain ⟨t, tl, htl, hne⟩ := toksNode_head_unframed cfg true false rfl e
  have hl' : lexWith sp s = some (t :: tl) := by
    simpa [lex, hsp, hts2, htl] using hl
  have hstrip := stripParens_of_lex ok s t tl hl' hne
  simp [hs, parseText, hstrip, hl, hp]

/-- every `prim_tags` name except the placeholder `__CREATE_ACCOUNT__` is in the domain -/
theorem prim_tags_lex :
    lexSpec.all (fun sp => C18.primTags.all (fun tags =>
      tags.all (fun p => p == "__CREATE_ACCOUNT__" || primLexes sp p.toList))) = true := by
  decide

-- non-vacuity: the defect shape of the pinned tree, annotations with inner markers, every kind of literal,
-- nested/empty sequences, a three-section script, a long string
example : WFText (.prim "pair" [.prim "chest" [] ["%a"], .prim "nat" [] []] []) := by decide
example : WFText (.prim "Pair" [.prim "Lambda_rec" [.seq [.prim "DROP" [] ["@x"]]] [], .int (-5), .str "a\"b\\c\nd\x01é𝄞",
    .bytes [], .bytes [0, 255], .seq [], .seq [.seq [], .seq [.seq []]]] []) := by decide
example : WFText (.seq [.prim "parameter" [.prim "unit" [] []] [], .prim "storage" [.prim "unit" [] []] [],
    .prim "code" [.seq [.prim "CDR" [] [], .prim "NIL" [.prim "operation" [] []] [], .prim "PAIR" [] []]] []]) := by decide
example : (format true (.prim "pair" [.prim "chest" [] ["%a"], .prim "nat" [] []] [])).bind parseText
    = some (.prim "pair" [.prim "chest" [] ["%a"], .prim "nat" [] []] []) := roundtrip _ _ (by decide)
-- outside the domain: a one-section "script" at the root, a macro name, a non-byte
example : ¬ WFText (.seq [.prim "code" [.seq []] []]) := by decide
example : ¬ WFText (.prim "DIIP" [.seq []] []) := by decide
example : ¬ WFText (.bytes [256]) := by decide

end C18
