import PytezosModel.Micheline.Text
namespace C18
end C18
