import PytezosModel.Michelson.Arith
namespace C16
end C16
