import PytezosModel.Proofs.C16Impl
/-! C16 — arithmetic and numeric conversions are exact.

Every theorem is about `Impl.Arith.*`, the mirror of `instructions/arithmetic.py` / `boolean.py` driven by the tables
regenerated from the source, for ALL operand values (unbounded `Int`s, byte strings of any length) and all operand
types of the model (int, nat, mutez, timestamp, bytes, bool).  `Except.toOption` forgets *which* error class a failure
has; the exact class is stated in the `…_exact` corollaries.

Not covered (stated in evidence): AND/OR/XOR/NOT/LSL/LSR on `bytes` operands — pytezos has no implementation
(dispatch assertion), so the theorems below prove that they FAIL there; BLS12-381 rows (C21). -/
set_option linter.unusedSimpArgs false
namespace C16
open Impl.Arith Generated.C16 PyNum
open Spec.Arith

/-- ADD: for every pair of operands the interpreter's result is the Michelson one — the exact sum with the result
type of the table, a failure when the table has no row, and for mutez a failure exactly when the sum is ≥ 2^63 -/
theorem add_spec (a b : Val) : (Impl.Arith.add a b).toOption = Spec.Arith.add a b := by
  rcases a with ⟨ta, x⟩ | bs | p <;> rcases b with ⟨tb, y⟩ | bs' | q
  · cases ta <;> cases tb <;>
      first
      | rfl
      | exact wrap_fromValue_spec .nat _
      | exact wrap_fromValue_spec .mutez _
  all_goals (first | rfl | (cases ta <;> rfl) | (cases tb <;> rfl))

theorem sub_spec (a b : Val) : (Impl.Arith.sub a b).toOption = Spec.Arith.sub a b := by
  rcases a with ⟨ta, x⟩ | bs | p <;> rcases b with ⟨tb, y⟩ | bs' | q
  · cases ta <;> cases tb <;>
      first
      | rfl
      | exact wrap_fromValue_spec .nat _
      | exact wrap_fromValue_spec .mutez _
  all_goals (first | rfl | (cases ta <;> rfl) | (cases tb <;> rfl))

theorem mul_spec (a b : Val) : (Impl.Arith.mul a b).toOption = Spec.Arith.mul a b := by
  rcases a with ⟨ta, x⟩ | bs | p <;> rcases b with ⟨tb, y⟩ | bs' | q
  · cases ta <;> cases tb <;>
      first
      | rfl
      | exact wrap_fromValue_spec .nat _
      | exact wrap_fromValue_spec .mutez _
  all_goals (first | rfl | (cases ta <;> rfl) | (cases tb <;> rfl))

theorem ediv_spec (a b : Val) : (Impl.Arith.ediv a b).toOption = Spec.Arith.ediv a b := by
  rcases a with ⟨ta, x⟩ | bs | p <;> rcases b with ⟨tb, y⟩ | bs' | q
  · cases ta <;> cases tb <;>
      first
      | rfl
      | exact edivNum_spec .nat .nat _ _
      | exact edivNum_spec .int .nat _ _
      | exact edivNum_spec .mutez .mutez _ _
      | exact edivNum_spec .nat .mutez _ _
  all_goals (first | rfl | (cases ta <;> rfl) | (cases tb <;> rfl))

theorem sub_mutez_spec (a b : Val) : (Impl.Arith.subMutez a b).toOption = Spec.Arith.subMutez a b := by
  rcases a with ⟨ta, x⟩ | bs | p <;> rcases b with ⟨tb, y⟩ | bs' | q
  · cases ta <;> cases tb <;> try rfl
    show (if x < y then Except.ok (Out.none1 .mutez) else
            match fromValue .mutez (x - y) with
            | .ok v => .ok (.some1 v)
            | .error e => .error e).toOption = _
    unfold Spec.Arith.subMutez
    by_cases h : x < y
    · have : x - y < 0 := by omega
      simp [h, this, Except.toOption]
    · have : ¬ (x - y < 0) := by omega
      simp only [h, this, if_false]
      have e : (fromValue .mutez (x - y)).toOption = mk .mutez (x - y) := fromValue_spec .mutez (x - y)
      rw [← e]
      generalize fromValue Prim.mutez (x - y) = r
      cases r <;> rfl
  all_goals (first | rfl | (cases ta <;> rfl) | (cases tb <;> rfl))

/-- SUB_MUTEZ on actual mutez amounts: `None` iff the difference is negative, never a failure -/
theorem sub_mutez_exact (x y : Int) (hx : (Val.num .mutez x).WF) (hy : (Val.num .mutez y).WF) :
    Impl.Arith.subMutez (.num .mutez x) (.num .mutez y) =
      .ok (if x < y then .none1 .mutez else .some1 (.num .mutez (x - y))) := by
  show (if x < y then Except.ok (Out.none1 .mutez) else
            match fromValue .mutez (x - y) with
            | .ok v => .ok (.some1 v)
            | .error e => .error e) = _
  simp only [Val.WF] at hx hy
  by_cases h : x < y
  · simp [h]
  · have h0 : ¬ (x - y < 0) := by omega
    have hb := bits63 (x - y) (by omega)
    have : ¬ (63 < bitLength (x - y)) := by omega
    simp [h, fromValue_mutez, h0, this]

theorem abs_spec (a : Val) : (Impl.Arith.abs a).toOption = Spec.Arith.abs a := by
  rcases a with ⟨ta, x⟩ | bs | p
  · cases ta <;> try rfl
    show (wrap (fromValue .nat (PyNum.abs x))).toOption = _
    rw [fromValue_nat]
    unfold PyNum.abs Spec.Arith.abs
    by_cases h : x < 0
    · have : ¬ (0 < x) := by omega
      have e : ((x.natAbs : Nat) : Int) = -x := by omega
      simp [h, this, wrap, Except.toOption, e]
    · have e : ((x.natAbs : Nat) : Int) = x := by omega
      simp [h, wrap, Except.toOption, e]
  all_goals rfl

theorem neg_spec (a : Val) : (Impl.Arith.neg a).toOption = Spec.Arith.neg a := by
  rcases a with ⟨ta, x⟩ | bs | p
  · cases ta <;> rfl
  all_goals rfl

theorem isnat_spec (a : Val) : (Impl.Arith.isnat a).toOption = Spec.Arith.isnat a := by
  rcases a with ⟨ta, x⟩ | bs | p
  · cases ta <;> try rfl
    show (if x ≥ 0 then
            match fromValue .nat x with
            | .ok v => Except.ok (Out.some1 v)
            | .error e => .error e
          else .ok (.none1 .nat)).toOption = _
    unfold Spec.Arith.isnat
    by_cases h : 0 ≤ x
    · have : ¬ x < 0 := by omega
      simp [h, fromValue_nat, this, Except.toOption]
    · simp [h, Except.toOption]
  all_goals rfl


theorem lsl_spec (a b : Val) : (Impl.Arith.lsl a b).toOption = Spec.Arith.lsl a b := by
  rcases a with ⟨ta, x⟩ | bs | p <;> rcases b with ⟨tb, y⟩ | bs' | q
  · cases ta <;> cases tb <;> try rfl
    show (executeShift lslBody PyNum.shl (.num .nat x) (.num .nat y)).toOption = _
    rw [shift_unfold _ rfl]
    unfold Spec.Arith.lsl
    by_cases h : y < 257
    · have : y ≤ 256 := by omega
      simp only [h, this, not_true_eq_false, if_false, if_true]
      exact wrap_fromValue_spec .nat _
    · have : ¬ y ≤ 256 := by omega
      simp [h, this, Except.toOption]
  all_goals (first | rfl | (cases ta <;> rfl) | (cases tb <;> rfl))


theorem lsr_spec (a b : Val) : (Impl.Arith.lsr a b).toOption = Spec.Arith.lsr a b := by
  rcases a with ⟨ta, x⟩ | bs | p <;> rcases b with ⟨tb, y⟩ | bs' | q
  · cases ta <;> cases tb <;> try rfl
    show (executeShift lsrBody PyNum.shr (.num .nat x) (.num .nat y)).toOption = _
    rw [shift_unfold _ rfl]
    unfold Spec.Arith.lsr
    by_cases h : y < 257
    · have : y ≤ 256 := by omega
      simp only [h, this, not_true_eq_false, if_false, if_true, shr_eq]
      exact wrap_fromValue_spec .nat _
    · have : ¬ y ≤ 256 := by omega
      simp [h, this, Except.toOption]
  all_goals (first | rfl | (cases ta <;> rfl) | (cases tb <;> rfl))

/-- on naturals: LSL/LSR fail iff the shift exceeds 256, otherwise they are `a * 2^s` and `⌊a / 2^s⌋` -/
theorem lsl_nat (a s : Nat) :
    Impl.Arith.lsl (.num .nat a) (.num .nat s) = if s ≤ 256 then .ok (.one (.num .nat ((a * 2 ^ s : Nat) : Int))) else .error .assertion := by
  show executeShift lslBody PyNum.shl (.num .nat a) (.num .nat s) = _
  rw [shift_unfold _ rfl]
  by_cases h : s ≤ 256
  · have h1 : (s : Int) < 257 := by omega
    have h2 : ¬ ((a : Int) * 2 ^ s < 0) := by
      have : (0 : Int) ≤ (a : Int) * 2 ^ s := Int.mul_nonneg (Int.natCast_nonneg _) (Int.le_of_lt (Int.pow_pos (by omega)))
      omega
    simp [h, h1, fromValue_nat, PyNum.shl, wrap, h2]
  · have h1 : ¬ ((s : Int) < 257) := by omega
    simp [h, h1]

theorem lsr_nat (a s : Nat) :
    Impl.Arith.lsr (.num .nat a) (.num .nat s) = if s ≤ 256 then .ok (.one (.num .nat ((a / 2 ^ s : Nat) : Int))) else .error .assertion := by
  show executeShift lsrBody PyNum.shr (.num .nat a) (.num .nat s) = _
  rw [shift_unfold _ rfl]
  by_cases h : s ≤ 256
  · have h1 : (s : Int) < 257 := by omega
    have e : (a : Int) / 2 ^ s = ((a / 2 ^ s : Nat) : Int) := by simp
    have h2 : ¬ ((a : Int) / 2 ^ s < 0) := by
      have : (0 : Int) ≤ ((a / 2 ^ s : Nat) : Int) := Int.natCast_nonneg _
      rw [e]; omega
    simp [h, h1, fromValue_nat, shr_eq, wrap, h2]
  · have h1 : ¬ ((s : Int) < 257) := by omega
    simp [h, h1]

theorem int_spec (a : Val) (h : a.WF) : (Impl.Arith.int a).toOption =
    match a with
    | .num .nat x => some (.one (.num .int x))
    | .num .mutez x => some (.one (.num .int x))      -- accepted by pytezos (MutezType is a NatType); not Michelson
    | .bytes bs => some (.one (.num .int (Spec.Arith.beSigned bs)))
    | _ => none := by
  rcases a with ⟨ta, x⟩ | bs | p
  · cases ta <;> rfl
  · show (wrap (fromValue .int (PyNum.fromBytes bs true))).toOption = _
    rw [fromBytes_signed_eq bs h]; rfl
  · rfl

theorem nat_spec (a : Val) : (Impl.Arith.nat a).toOption =
    match a with
    | .bytes bs => some (.one (.num .nat (Spec.Arith.beUnsigned bs)))
    | _ => none := by
  rcases a with ⟨ta, x⟩ | bs | p
  · cases ta <;> rfl
  · show (wrap (fromValue .nat (PyNum.fromBytes bs false))).toOption = _
    rw [fromBytes_unsigned_eq, fromValue_nat]
    have : ¬ ((Spec.Arith.beUnsigned bs : Int) < 0) := by omega
    simp [this, wrap, Except.toOption]
  · rfl

theorem and_spec (a b : Val) (ha : a.WF) (hb : b.WF) :
    match a, b with
    | .bool p, .bool q => Impl.Arith.and a b = .ok (.one (.bool (p && q)))
    | .num .nat x, .num .nat y => Impl.Arith.and a b = .ok (.one (.num .nat ((x.toNat &&& y.toNat : Nat))))
    | .num .int x, .num .nat y =>
        ∃ r : Nat, Impl.Arith.and a b = .ok (.one (.num .nat r)) ∧ ∀ i, r.testBit i = (bit x i && y.toNat.testBit i)
    | .num .nat x, .num .int y =>      -- row of the pytezos table that Michelson does not have (operands swapped)
        ∃ r : Nat, Impl.Arith.and a b = .ok (.one (.num .nat r)) ∧ ∀ i, r.testBit i = (x.toNat.testBit i && bit y i)
    | _, _ => Impl.Arith.and a b = .error .assertion := by
  rcases a with ⟨ta, x⟩ | bs | p <;> rcases b with ⟨tb, y⟩ | bs' | q
  · cases ta <;> cases tb <;> try rfl
    · -- int, nat
      simp only [Val.WF] at hb
      have h0 := and_nonneg_right x y hb
      refine ⟨(PyNum.and x y).toNat, ?_, fun i => ?_⟩
      · show wrap (fromValue .nat (PyNum.and x y)) = _
        have : ¬ (PyNum.and x y < 0) := by omega
        have e : (((PyNum.and x y).toNat : Nat) : Int) = PyNum.and x y := Int.toNat_of_nonneg h0
        simp [fromValue_nat, this, wrap, e]
      · rw [toNat_testBit _ h0, bit_and, toNat_testBit y hb]
    · -- nat, int
      simp only [Val.WF] at ha
      have h0 := and_nonneg_left x y ha
      refine ⟨(PyNum.and x y).toNat, ?_, fun i => ?_⟩
      · show wrap (fromValue .nat (PyNum.and x y)) = _
        have : ¬ (PyNum.and x y < 0) := by omega
        have e : (((PyNum.and x y).toNat : Nat) : Int) = PyNum.and x y := Int.toNat_of_nonneg h0
        simp [fromValue_nat, this, wrap, e]
      · rw [toNat_testBit _ h0, bit_and, toNat_testBit x ha]
    · -- nat, nat
      simp only [Val.WF] at ha hb
      show wrap (fromValue .nat (PyNum.and x y)) = _
      rw [and_nat x y ha hb, fromValue_nat]
      have : ¬ (((x.toNat &&& y.toNat : Nat) : Int) < 0) := by omega
      simp [this, wrap]
  all_goals (first | rfl | (cases ta <;> rfl) | (cases tb <;> rfl))

theorem or_spec (a b : Val) (ha : a.WF) (hb : b.WF) :
    match a, b with
    | .bool p, .bool q => Impl.Arith.or a b = .ok (.one (.bool (p || q)))
    | .num .nat x, .num .nat y => Impl.Arith.or a b = .ok (.one (.num .nat ((x.toNat ||| y.toNat : Nat))))
    | _, _ => Impl.Arith.or a b = .error .assertion := by
  rcases a with ⟨ta, x⟩ | bs | p <;> rcases b with ⟨tb, y⟩ | bs' | q
  · cases ta <;> cases tb <;> try rfl
    simp only [Val.WF] at ha hb
    show wrap (fromValue .nat (PyNum.or x y)) = _
    rw [or_nat x y ha hb, fromValue_nat]
    have : ¬ (((x.toNat ||| y.toNat : Nat) : Int) < 0) := by omega
    simp [this, wrap]
  all_goals (first | rfl | (cases ta <;> rfl) | (cases tb <;> rfl))

theorem xor_spec (a b : Val) (ha : a.WF) (hb : b.WF) :
    match a, b with
    | .bool p, .bool q => Impl.Arith.xor a b = .ok (.one (.bool (p != q)))
    | .num .nat x, .num .nat y => Impl.Arith.xor a b = .ok (.one (.num .nat ((x.toNat ^^^ y.toNat : Nat))))
    | _, _ => Impl.Arith.xor a b = .error .assertion := by
  rcases a with ⟨ta, x⟩ | bs | p <;> rcases b with ⟨tb, y⟩ | bs' | q
  · cases ta <;> cases tb <;> try rfl
    simp only [Val.WF] at ha hb
    show wrap (fromValue .nat (PyNum.xor x y)) = _
    rw [xor_nat x y ha hb, fromValue_nat]
    have : ¬ (((x.toNat ^^^ y.toNat : Nat) : Int) < 0) := by omega
    simp [this, wrap]
  all_goals (first | rfl | (cases ta <;> rfl) | (cases tb <;> rfl))

theorem not_spec (a : Val) :
    match a with
    | .bool p => Impl.Arith.not a = .ok (.one (.bool (!p)))
    | .num .nat x => Impl.Arith.not a = .ok (.one (.num .int (-x - 1))) ∧ ∀ i, bit (-x - 1) i = !bit x i
    | .num .int x => Impl.Arith.not a = .ok (.one (.num .int (-x - 1))) ∧ ∀ i, bit (-x - 1) i = !bit x i
    | _ => Impl.Arith.not a = .error .assertion := by
  have hinv (x : Int) : PyNum.invert x = -x - 1 := by unfold PyNum.invert; omega
  rcases a with ⟨ta, x⟩ | bs | p
  · cases ta <;> try rfl
    · refine ⟨?_, fun i => by rw [← hinv, bit_invert]⟩
      show wrap (fromValue .int (PyNum.invert x)) = _
      rw [hinv]; rfl
    · refine ⟨?_, fun i => by rw [← hinv, bit_invert]⟩
      show wrap (fromValue .int (PyNum.invert x)) = _
      rw [hinv]; rfl
  all_goals rfl


/-- `PUSH int z ; BYTES ; INT` leaves `z`, for every integer -/
theorem bytes_int_roundtrip (z : Int) : Impl.Arith.bytesInt (.num .int z) = .ok (.one (.num .int z)) := by
  unfold bytesInt
  rw [bytes_int_unfold, toBytes_int]
  show wrap (fromValue .int (PyNum.fromBytes _ true)) = _
  by_cases h : z = 0
  · subst h; rfl
  · rw [fromBytes_toBytes_signed z (intLen z) _ (intLen_pos z h) (toBytes_int z)]; rfl

/-- BYTES of an int is a two's-complement big-endian encoding of it, and no encoding is shorter; 0 ↦ empty -/
theorem bytes_int_shortest (z : Int) :
    ∃ bs, Impl.Arith.bytes (.num .int z) = .ok (.one (.bytes bs)) ∧ (Val.bytes bs).WF ∧ beSigned bs = z ∧
      ∀ bs' : List Nat, (Val.bytes bs').WF → beSigned bs' = z → bs.length ≤ bs'.length := by
  refine ⟨toBytesBE (intLen z) (z % 256 ^ intLen z).toNat, ?_, toBytesBE_wf _ _, ?_, ?_⟩
  · rw [bytes_int_unfold, toBytes_int]
  · rw [← fromBytes_signed_eq _ (toBytesBE_wf _ _)]
    by_cases h : z = 0
    · subst h; rfl
    · exact fromBytes_toBytes_signed z (intLen z) _ (intLen_pos z h) (toBytes_int z)
  · intro bs' hwf hdec
    rw [toBytesBE_length]
    rw [← fromBytes_signed_eq _ hwf] at hdec
    by_cases h : z = 0
    · subst h; simp [intLen]
    · apply Classical.byContradiction
      intro hlt
      have hlt' : bs'.length < signedLen z := by
        have : intLen z = signedLen z := by simp [intLen, h]
        omega
      by_cases hne : bs' = []
      · subst hne; exact h hdec.symm
      · have hr := fromBytes_signed_range bs' hwf hne
        rw [hdec] at hr
        exact signedLen_minimal z h bs'.length (List.length_pos_iff.2 hne) hlt' hr


/-- `PUSH nat n ; BYTES ; NAT` leaves `n` -/
theorem bytes_nat_roundtrip (n : Int) (h : (Val.num .nat n).WF) :
    Impl.Arith.bytesNat (.num .nat n) = .ok (.one (.num .nat n)) := by
  simp only [Val.WF] at h
  unfold bytesNat
  rw [bytes_nat_unfold, toBytes_nat n h]
  show wrap (fromValue .nat (PyNum.fromBytes _ false)) = _
  have : PyNum.fromBytes (toBytesBE (unsignedLen n) n.toNat) false = n := by
    unfold PyNum.fromBytes
    simp only [Bool.false_eq_true, false_and, if_false]
    rw [fromBytesBE_toBytesBE _ _ (nat_fits n h)]
    omega
  rw [this, fromValue_nat]
  have : ¬ n < 0 := by omega
  simp [this, wrap]

/-- BYTES of a nat is its shortest big-endian encoding (no leading zero byte; 0 ↦ empty) -/
theorem bytes_nat_shortest (n : Int) (h : (Val.num .nat n).WF) :
    ∃ bs, Impl.Arith.bytes (.num .nat n) = .ok (.one (.bytes bs)) ∧ (Val.bytes bs).WF ∧ (beUnsigned bs : Int) = n ∧
      ∀ bs' : List Nat, (Val.bytes bs').WF → (beUnsigned bs' : Int) = n → bs.length ≤ bs'.length := by
  simp only [Val.WF] at h
  refine ⟨toBytesBE (unsignedLen n) n.toNat, ?_, toBytesBE_wf _ _, ?_, ?_⟩
  · rw [bytes_nat_unfold, toBytes_nat n h]
  · rw [← fromBytesBE_eq_beUnsigned, fromBytesBE_toBytesBE _ _ (nat_fits n h)]; omega
  · intro bs' hwf hdec
    rw [toBytesBE_length]
    apply unsignedLen_minimal n h
    have := fromBytesBE_lt bs' hwf
    rw [fromBytesBE_eq_beUnsigned] at this
    have hc : ((256 ^ bs'.length : Nat) : Int) = (256 : Int) ^ bs'.length := by simp
    rw [← hdec, ← hc]
    exact Int.ofNat_lt.2 this


/-! ### mutez range: a mutez result exists iff `0 ≤ x < 2^63`; the failure is an overflow exactly above the range -/

theorem mutez_range (x : Int) : (∃ v, fromValue .mutez x = .ok v) ↔ (0 ≤ x ∧ x < 2 ^ 63) := by
  rw [fromValue_mutez]
  by_cases h : x < 0
  · simp [h]; omega
  · have hb := bits63 x (by omega)
    by_cases h2 : 63 < bitLength x
    · simp [h, h2]; omega
    · simp [h, h2]; omega

theorem mutez_overflow_exact (x : Int) (h : 0 ≤ x) : fromValue .mutez x = .error .overflow ↔ 2 ^ 63 ≤ x := by
  rw [fromValue_mutez]
  have hb := bits63 x h
  have h0 : ¬ x < 0 := by omega
  by_cases h2 : 63 < bitLength x
  · simp [h0, h2]; omega
  · simp [h0, h2]; omega

/-- every value built by a `from_value` constructor is in its type's range -/
theorem fromValue_wf (t : NTy) (x : Int) (v : Val) (h : fromValue t.prim x = .ok v) : v.WF := by
  have hs := fromValue_spec t x
  rw [h] at hs
  cases t <;> simp only [Except.toOption, Spec.Arith.mk] at hs
  · cases hs; trivial
  · split at hs
    · cases hs; assumption
    · cases hs
  · split at hs
    · cases hs; assumption
    · cases hs
  · cases hs; trivial

/-- ADD on mutez: the sum, or an OverflowError exactly when it does not fit 63 bits -/
theorem add_mutez_exact (x y : Int) (hx : (Val.num .mutez x).WF) (hy : (Val.num .mutez y).WF) :
    Impl.Arith.add (.num .mutez x) (.num .mutez y) =
      if x + y < 2 ^ 63 then .ok (.one (.num .mutez (x + y))) else .error .overflow := by
  show wrap (fromValue .mutez (x + y)) = _
  simp only [Val.WF] at hx hy
  have h0 : ¬ (x + y < 0) := by omega
  have hb := bits63 (x + y) (by omega)
  rw [fromValue_mutez]
  by_cases h : x + y < 2 ^ 63
  · have : ¬ 63 < bitLength (x + y) := by omega
    rw [if_neg h0, if_neg this, if_pos h]; rfl
  · have : 63 < bitLength (x + y) := by omega
    rw [if_neg h0, if_pos this, if_neg h]; rfl

/-- MUL mutez × nat likewise -/
theorem mul_mutez_exact (x y : Int) (hx : (Val.num .mutez x).WF) (hy : (Val.num .nat y).WF) :
    Impl.Arith.mul (.num .mutez x) (.num .nat y) =
      if x * y < 2 ^ 63 then .ok (.one (.num .mutez (x * y))) else .error .overflow := by
  show wrap (fromValue .mutez (x * y)) = _
  simp only [Val.WF] at hx hy
  have hm : 0 ≤ x * y := Int.mul_nonneg hx.1 hy
  have h0 : ¬ (x * y < 0) := by omega
  have hb := bits63 (x * y) hm
  rw [fromValue_mutez]
  by_cases h : x * y < 2 ^ 63
  · have : ¬ 63 < bitLength (x * y) := by omega
    rw [if_neg h0, if_neg this, if_pos h]; rfl
  · have : 63 < bitLength (x * y) := by omega
    rw [if_neg h0, if_pos this, if_neg h]; rfl

/-! ### EDIV is Euclidean for every sign combination, and total on pushed operands -/

theorem ediv_euclid (ta tb tq tr : NTy) (x y : Int) (hty : Spec.Arith.edivTy ta tb = some (tq, tr))
    (hx : (Val.num ta x).WF) (hy : (Val.num tb y).WF) (hy0 : y ≠ 0) :
    ∃ q r : Int, Impl.Arith.ediv (.num ta x) (.num tb y) = .ok (.some2 (.num tq q) (.num tr r)) ∧
      x = q * y + r ∧ 0 ≤ r ∧ r < y.natAbs := by
  refine ⟨x / y, x % y, ?_, ?_, Int.emod_nonneg x hy0, Int.emod_lt x hy0⟩
  · apply toOption_eq_some
    rw [ediv_spec]
    have hr0 := Int.emod_nonneg x hy0
    have hdecomp := Int.mul_ediv_add_emod x y
    cases ta <;> cases tb <;> simp only [Spec.Arith.edivTy, Option.some.injEq, Prod.mk.injEq, reduceCtorEq] at hty <;>
      obtain ⟨rfl, rfl⟩ := hty <;> simp only [Val.WF] at hx hy <;>
      simp only [Spec.Arith.ediv, Spec.Arith.edivTy, Spec.Arith.edivAt, hy0, if_false, Spec.Arith.mk, hr0, if_true]
    · -- nat / nat
      have : 0 ≤ x / y := Int.ediv_nonneg hx hy
      simp [this]
    · -- mutez / nat : quotient and remainder are mutez
      have hq0 : 0 ≤ x / y := Int.ediv_nonneg hx.1 hy
      have hmul : 0 ≤ y * (x / y) := Int.mul_nonneg hy hq0
      have hq1 : x / y ≤ x := Int.ediv_le_self y hx.1
      have hq : 0 ≤ x / y ∧ x / y < 2 ^ 63 := by omega
      have hr : 0 ≤ x % y ∧ x % y < 2 ^ 63 := by omega
      simp only [hq, hr, and_self, if_true]
    · -- mutez / mutez : nat quotient, mutez remainder
      have hq0 : 0 ≤ x / y := Int.ediv_nonneg hx.1 hy.1
      have hlt := Int.emod_lt_of_pos x (show 0 < y by omega)
      have hr : 0 ≤ x % y ∧ x % y < 2 ^ 63 := by omega
      simp only [hq0, hr, and_self, if_true]
  · have := Int.mul_ediv_add_emod x y
    rw [Int.mul_comm]; omega

theorem ediv_zero (ta tb tq tr : NTy) (x : Int) (hty : Spec.Arith.edivTy ta tb = some (tq, tr)) :
    Impl.Arith.ediv (.num ta x) (.num tb 0) = .ok (.none2 tq.prim tr.prim) := by
  apply toOption_eq_some
  rw [ediv_spec]
  simp [Spec.Arith.ediv, hty, Spec.Arith.edivAt]

/-! ### non-vacuity: concrete instances, evaluated by the kernel -/

example : Impl.Arith.add (.num .int (-5)) (.num .nat 3) = .ok (.one (.num .int (-2))) := by rfl
example : Impl.Arith.add (.num .mutez (2 ^ 63 - 1)) (.num .mutez 1) = .error .overflow := by
  rw [add_mutez_exact _ _ (by decide) (by decide)]; rfl
example : Impl.Arith.add (.num .nat 1) (.bytes [1]) = .error .assertion := by rfl
example : Impl.Arith.subMutez (.num .mutez 0) (.num .mutez 1) = .ok (.none1 .mutez) := by
  rw [sub_mutez_exact _ _ (by decide) (by decide)]; rfl
example : Impl.Arith.ediv (.num .int 7) (.num .int (-3)) = .ok (.some2 (.num .int (-2)) (.num .nat 1)) := by rfl
example : Impl.Arith.ediv (.num .int (-7)) (.num .int (-3)) = .ok (.some2 (.num .int 3) (.num .nat 2)) := by rfl
example : Impl.Arith.ediv (.num .mutez 7) (.num .nat 0) = .ok (.none2 .mutez .mutez) := by rfl
example : Impl.Arith.lsl (.num .nat 1) (.num .nat 257) = .error .assertion := by rfl
example : Impl.Arith.lsl (.num .nat 3) (.num .nat 256) = .ok (.one (.num .nat (3 * 2 ^ 256))) := by rfl
example : Impl.Arith.and (.num .int (-3)) (.num .nat 5) = .ok (.one (.num .nat 5)) := by rfl
example : Impl.Arith.not (.num .nat 5) = .ok (.one (.num .int (-6))) := by rfl
example : Impl.Arith.and (.bytes [255]) (.bytes [15]) = .error .assertion := by rfl   -- not implemented by pytezos
example : Impl.Arith.bytes (.num .int 128) = .ok (.one (.bytes [0, 128])) := by rfl
example : Impl.Arith.bytes (.num .int (-129)) = .ok (.one (.bytes [255, 127])) := by rfl
example : Impl.Arith.bytes (.num .int 0) = .ok (.one (.bytes [])) := by rfl
example : Impl.Arith.bytes (.num .nat 128) = .ok (.one (.bytes [128])) := by rfl
example : Impl.Arith.bytesInt (.num .int 128) = .ok (.one (.num .int 128)) := bytes_int_roundtrip 128
example : Impl.Arith.int (.bytes [255, 127]) = .ok (.one (.num .int (-129))) := by rfl

end C16
