import PytezosModel.Proofs.C30
/-! C30 — protocol source diffs apply and revert exactly.

Strings are `List Char`; `Impl.Diff.applyPatch` / `Impl.Diff.makePatch` mirror `apply_patch` and the part of `make_patch`
that follows `difflib.unified_diff` (src/pytezos/protocol/diff.py).  `difflib` itself is not modelled: a `Spec.Diff.Script`
is an edit script (unchanged stretches and hunks of context / deleted / added lines, with any amount of context),
`oldOf` / `newOf` its two texts as lines and `Spec.Diff.unifiedDiff fname s` the lines `unified_diff` yields for it.
The theorems quantify over ALL scripts — hence over every pair of texts, every context size, count-0 hunks, empty texts,
a missing final newline on either side — and the correspondence checks for every exercised pair that the real
`make_patch` output is the rendering of such a script. -/
deriving instance DecidableEq for Except

namespace C30
open Impl.Diff Spec.Diff Proofs.C30

/-- the marker, the `(midx, sign)` pairs and the header regex read from the source are the modelled ones -/
theorem config_eq : config = some ⟨['\\', ' ', 'N', 'o', ' ', 'n', 'e', 'w', 'l', 'i', 'n', 'e', ' ', 'a', 't', ' ', 'e', 'n', 'd', ' ',
    'o', 'f', ' ', 'f', 'i', 'l', 'e'], (1, '+'), (3, '-')⟩ := by decide

/-- the property, on scripts: for every file name without newline and every edit script whose two sides are texts split into
lines, the patch `make_patch` builds from the script applies to the old text giving the new one, and reverts the new text to
the old one -/
theorem apply_render (fname : List Char) (s : Script) (hfn : '\n' ∉ fname) (ho : LinesWF (oldOf s)) (hn : LinesWF (newOf s)) :
    ∃ p, makePatch (unifiedDiff fname s) = .ok p ∧
      applyPatch (join (oldOf s)) p false = .ok (join (newOf s)) ∧
      applyPatch (join (newOf s)) p true = .ok (join (oldOf s)) := by
  refine ⟨makePatchWith cfg0 (unifiedDiff fname s), ?_, ?_, ?_⟩
  · simp [makePatch, withConfig, config_eq, cfg0]
  · have := applyPatch_render cfg0 rfl rfl rfl cfg0_nl fname hfn s ho hn false
    simpa [applyPatch, withConfig, config_eq, cfg0, sideSrc, sideDst] using this
  · have := applyPatch_render cfg0 rfl rfl rfl cfg0_nl fname hfn s ho hn true
    simpa [applyPatch, withConfig, config_eq, cfg0, sideSrc, sideDst] using this

/-- the property, on texts: for ALL strings `old`, `new` and every script that edits the lines of `old` into the lines of
`new` (whatever its context size), applying the generated patch to `old` yields `new` and applying it in reverse to `new`
yields `old` -/
theorem roundtrip (old new fname : List Char) (s : Script) (hfn : '\n' ∉ fname)
    (hold : oldOf s = splitLines old) (hnew : newOf s = splitLines new) :
    ∃ p, makePatch (unifiedDiff fname s) = .ok p ∧ applyPatch old p false = .ok new ∧ applyPatch new p true = .ok old := by
  obtain ⟨p, h0, h1, h2⟩ := apply_render fname s hfn (hold ▸ linesWF_splitLines old) (hnew ▸ linesWF_splitLines new)
  refine ⟨p, h0, ?_, ?_⟩
  · simpa [hold, hnew, join_splitLines] using h1
  · simpa [hold, hnew, join_splitLines] using h2

/-- every pair of texts has an edit script (delete every old line, add every new line), so `roundtrip` is not vacuous for any pair -/
theorem script_exists (old new : List Char) : ∃ s : Script, oldOf s = splitLines old ∧ newOf s = splitLines new := by
  refine ⟨[.hunk ((splitLines old).map .del ++ (splitLines new).map .add)], ?_, ?_⟩
  · have h1 : ∀ ls : List Line, oldLines (ls.map .add) = [] := by
      intro ls; induction ls with
      | nil => rfl
      | cons l ls ih => simp [oldLines, ih]
    have h2 : ∀ (ls : List Line) (r : List Op), oldLines (ls.map .del ++ r) = ls ++ oldLines r := by
      intro ls r; induction ls with
      | nil => rfl
      | cons l ls ih => simp [oldLines, Op.line, ih]
    simp [oldOf, h1, h2]
  · have h1 : ∀ ls : List Line, newLines (ls.map .add) = ls := by
      intro ls; induction ls with
      | nil => rfl
      | cons l ls ih => simp [newLines, Op.line, ih]
    have h2 : ∀ (ls : List Line) (r : List Op), newLines (ls.map .del ++ r) = newLines r := by
      intro ls r; induction ls with
      | nil => rfl
      | cons l ls ih => simp [newLines, ih]
    simp [newOf, h1, h2]

/-- identical texts: the patch is the empty string (`Protocol.patch` then keeps the text as it is) -/
theorem no_hunks_empty_patch (fname : List Char) (s : Script) (h : hunkLines s 0 0 = []) :
    makePatch (unifiedDiff fname s) = .ok [] ∧ oldOf s = newOf s := by
  refine ⟨?_, hunkLines_nil_sides s 0 0 h⟩
  simp [makePatch, withConfig, config_eq, unifiedDiff, h, makePatchWith]

/-! error branches of `apply_patch` -/

/-- a first line after the file header that is not a hunk header: `ValueError('Regex mismatch …')` -/
theorem apply_rejects_non_header (source patch : List Char) (revert : Bool) (p : Line) (rest : List Line)
    (hp : (splitLines patch).dropWhile isFileHeader = p :: rest) (hh : parseHeader p = none) :
    applyPatch source patch revert = .error .regexMismatch := by
  simp only [applyPatch, withConfig, config_eq, applyPatchWith, applyLinesWith, hp]
  cases rest with
  | nil => rw [go.eq_2]; simp [hh]
  | cons q r => rw [go.eq_3]; simp [hh]

/-- a hunk that starts beyond the end of the text (or before the current position): `ValueError('Bad line num …')` -/
theorem apply_rejects_bad_line (source patch : List Char) (p : Line) (rest : List Line) (n1 n3 : Nat) (g2 g4 : Option (List Char))
    (hp : (splitLines patch).dropWhile isFileHeader = p :: rest) (hh : parseHeader p = some (n1, g2, n3, g4))
    (hbad : hunkStart n1 g2 < 0 ∨ hunkStart n1 g2 > ((splitLines source).length : Int)) :
    applyPatch source patch false = .error .badLineNum := by
  simp only [applyPatch, withConfig, config_eq, applyPatchWith, applyLinesWith, hp]
  cases rest with
  | nil => rw [go.eq_2]; simp [hh]; intro h1 h2; omega
  | cons q r => rw [go.eq_3]; simp [hh]; intro h1 h2; omega

/-! `Protocol.diff` / `Protocol.patch`, file-wise -/

/-- diffing `yours` against a protocol whose files are the new sides of the given scripts (each script starting from
`yours.get(filename, '')`) and patching `yours` with the result reproduces exactly those files -/
theorem protocol_roundtrip (yours : Files) (theirs : List (List Char × Script))
    (h : ∀ ns ∈ theirs, '\n' ∉ ns.1 ∧ oldOf ns.2 = splitLines (lookup yours ns.1) ∧ LinesWF (newOf ns.2)) :
    ∃ d, protocolDiff theirs = .ok d ∧
      protocolPatch yours d = .ok (theirs.map fun ns => (ns.1, join (newOf ns.2))) := by
  refine ⟨theirs.map fun ns => (ns.1, makePatchWith cfg0 (unifiedDiff ns.1 ns.2)), ?_, ?_⟩
  · have harg : protocolArg = .ok () := by decide
    simp only [protocolDiff, Generated.C30.protocolDiffShape, Bool.not_true, Bool.false_eq_true, if_false, harg]
    clear h
    induction theirs with
    | nil => rfl
    | cons ns r ih =>
      simp only [List.mapM_cons, List.map_cons] at ih ⊢
      rw [ih]
      simp [makePatch, withConfig, config_eq, cfg0, Except.map, bind, Except.bind, pure, Except.pure]
  · have harg : protocolArg = .ok () := by decide
    simp only [protocolPatch, Generated.C30.protocolPatchShape, Bool.not_true, Bool.false_eq_true, if_false, harg]
    induction theirs with
    | nil => rfl
    | cons ns r ih =>
      obtain ⟨h1, h2, h3⟩ := h ns (by simp)
      have ih' := ih (fun x hx => h x (by simp [hx]))
      have one := patch_one yours ns.1 ns.2 h1 h2 h3
      simp only [List.mapM_cons, List.map_cons] at ih' ⊢
      rw [ih']
      simp only [applyPatch, withConfig, config_eq]
      change (do let b ← (if (makePatchWith cfg0 (unifiedDiff ns.1 ns.2)).isEmpty then (.ok (ns.1, lookup yours ns.1) : Except Err _)
        else (applyPatchWith cfg0 (lookup yours ns.1) (makePatchWith cfg0 (unifiedDiff ns.1 ns.2)) false).map fun t => (ns.1, t)); _) = _
      rw [one]
      rfl

/-! non-vacuity: a concrete pair with a missing final newline on the old side, context 1 -/
private def exOld : List Char := ['a', '\n', 'b', '\n', 'c']
private def exNew : List Char := ['a', '\n', 'B', '\n', 'c', '\n']
private def exScript : Script := [.hunk [.ctx ['a', '\n'], .del ['b', '\n'], .del ['c'], .add ['B', '\n'], .add ['c', '\n']]]

example : ∃ p, makePatch (unifiedDiff ['f'] exScript) = .ok p ∧ applyPatch exOld p false = .ok exNew ∧ applyPatch exNew p true = .ok exOld :=
  roundtrip exOld exNew ['f'] exScript (by decide) (by decide) (by decide)

/-! the mirror itself, evaluated on a literal patch with the no-newline marker and a count-0 hunk; the two error branches -/
private def exPatch : List Char := ['-', '-', '-', ' ', 'f', '\n', '+', '+', '+', ' ', 'f', '\n', '@', '@', ' ', '-', '1', ',', '0', ' ', '+', '2', ' ', '@', '@', '\n', '+', 'x', '\n', '@', '@', ' ', '-', '2', ' ', '+', '3', ' ', '@', '@', '\n', '-', 'b', '\n', '\\', ' ', 'N', 'o', ' ', 'n', 'e', 'w', 'l', 'i', 'n', 'e', ' ', 'a', 't', ' ', 'e', 'n', 'd', ' ', 'o', 'f', ' ', 'f', 'i', 'l', 'e', '\n', '+', 'B', '\n']
example : applyPatch ['a', '\n', 'b'] exPatch false = .ok ['a', '\n', 'x', '\n', 'B', '\n'] := by decide +kernel
example : applyPatch ['a', '\n', 'x', '\n', 'B', '\n'] exPatch true = .ok ['a', '\n', 'b'] := by decide +kernel
example : applyPatch ['a', '\n'] ['-', '-', '-', ' ', 'f', '\n', '+', '+', '+', ' ', 'f', '\n', '@', '@', ' ', '-', '3', ' ', '+', '3', ' ', '@', '@', '\n', '-', 'b', '\n', '+', 'c', '\n'] false = .error .badLineNum := by decide +kernel
example : applyPatch ['a', '\n'] ['-', '-', '-', ' ', 'f', '\n', '+', '+', '+', ' ', 'f', '\n', '-', 'b', '\n'] false = .error .regexMismatch := by decide +kernel

end C30
