import PytezosModel.Client.Diff
namespace C30
end C30
