import PytezosModel.Proofs.C29
/-! C29 — chain-history search reports exactly the state changes.

`get : Nat → V` is the history (value at every level), `equals` is `==`.  `Spec.Search.NoReturn get lo hi`:
every value occupies one contiguous run of levels in `[lo, hi]` (the value never returns to an earlier one).
`Spec.Search.changes get lo hi` = the pairs `(ℓ, get ℓ)` for the levels `ℓ ∈ (lo, hi]` with `get ℓ ≠ get (ℓ-1)`,
in increasing order.  All theorems are about `Impl.Search.*`, the mirror of `src/pytezos/rpc/search.py`
configured by the facts the translator reads from the source (`Generated.C29`); the second component of every
result is the sequence of levels `get` was called on (compared with the real code, not specified here). -/
namespace C29
open Impl.Search Spec.Search Proofs.C29
variable {V : Type} [DecidableEq V]

/-- the source under test has the repaired shape: well-formed logging, last interval examined, ascending walk -/
theorem config_eq : config = some ⟨true, true, true⟩ := by decide

/-- single-change search: for every history, every `lo < hi` with `get lo = pred`, `get hi ≠ pred` and no return
in `[lo, hi]`, the bisection returns the least level above `lo` whose value differs from `pred`, with its value -/
theorem bisect_spec (get : Nat → V) (lo hi : Nat) (pred : V) (hlt : lo < hi) (hlo : get lo = pred) (hhi : get hi ≠ pred)
    (hnr : NoReturn get lo hi) :
    ∃ l t, findStateChange get hi lo pred = .ok ((l, get l), t) ∧ lo < l ∧ l ≤ hi ∧ get l ≠ pred ∧
      ∀ j, lo < j → j < l → get j = pred := by
  obtain ⟨l, t, he, h1, h2, h3, h4⟩ := bisect_ok get pred (hi - lo) lo hi hlt (Nat.le_refl _) hlo hhi
  refine ⟨l, t, ?_, h1, h2, h4, ?_⟩
  · simp [findStateChange, withConfig, config_eq, findStateChangeWith, he]
  · intro j hj1 hj2
    have := hnr lo j (l - 1) (Nat.le_refl _) (by omega) (by omega) (by omega) (by rw [h3, hlo])
    rw [this, hlo]

/-- without the no-return hypothesis the bisection still lands on *a* change point: the level below carries `pred`,
the returned level does not -/
theorem bisect_finds_change (get : Nat → V) (lo hi : Nat) (pred : V) (hlt : lo < hi) (hlo : get lo = pred) (hhi : get hi ≠ pred) :
    ∃ l t, findStateChange get hi lo pred = .ok ((l, get l), t) ∧ lo < l ∧ l ≤ hi ∧ get (l - 1) = pred ∧ get l ≠ pred := by
  obtain ⟨l, t, he, h1, h2, h3, h4⟩ := bisect_ok get pred (hi - lo) lo hi hlt (Nat.le_refl _) hlo hhi
  exact ⟨l, t, by simp [findStateChange, withConfig, config_eq, findStateChangeWith, he], h1, h2, h3, h4⟩

/-- error branch: an empty or inverted range makes `bisect` recurse without bound (`RecursionError`) -/
theorem bisect_degenerate_range (get : Nat → V) (lo hi : Nat) (pred : V) (h : hi ≤ lo) :
    findStateChange get hi lo pred = .error .recursion := by
  simp [findStateChange, withConfig, config_eq, findStateChangeWith, bisect_degenerate get pred h]

/-- one interval: walking from `last` (value `get last`) up to `head` (value `get head`) yields all changes of `(last, head]` -/
theorem walk_spec (get : Nat → V) (head last : Nat) (hle : last ≤ head) (hnr : NoReturn get last head) :
    ∃ t, walkStateChangeInterval get head last (get head) (get last) = .ok (changes get last head, t) := by
  obtain ⟨t, ht⟩ := walk_ok ⟨true, true, true⟩ rfl get head (head - last) last hle (Nat.le_refl _) hnr
  exact ⟨t, by simp [walkStateChangeInterval, withConfig, config_eq, walkIntervalWith, ht]⟩

/-- the property: for every history without return over `[last, head]`, every range and every step ≥ 1,
`find_state_changes` reports exactly the change levels of `(last, head]` with their new values, in increasing order -/
theorem changes_spec (get : Nat → V) (head last step : Nat) (hstep : 1 ≤ step) (hnr : NoReturn get last head) :
    ∃ t, findStateChanges get head last step = .ok (changes get last head, t) := by
  obtain ⟨t1, h1⟩ := scan_ok ⟨true, true, true⟩ rfl get last step hstep head hnr
  obtain ⟨t, ht⟩ := runEvents_probes ⟨true, true, true⟩ get (.probe head :: scan true get last step head (get head)) _ h1
  refine ⟨t, ?_⟩
  have hs : step ≠ 0 := by omega
  simp only [findStateChanges, withConfig, config_eq, findStateChangesWith, intervalEvents, Bool.not_true, Bool.false_eq_true,
    if_false, hs, if_true, intervalsOf]
  exact ht

/-- the same in elementary terms: whatever `find_state_changes` returns contains `(ℓ, v)` iff `ℓ` is a change level of
`(last, head]` and `v` its value ("nothing else"), and the levels are strictly increasing -/
theorem changes_exact (get : Nat → V) (head last step : Nat) (hstep : 1 ≤ step) (hnr : NoReturn get last head) :
    ∃ r t, findStateChanges get head last step = .ok (r, t) ∧
      (∀ l v, (l, v) ∈ r ↔ last < l ∧ l ≤ head ∧ get l ≠ get (l - 1) ∧ v = get l) ∧
      r.Pairwise (fun a b => a.1 < b.1) := by
  obtain ⟨t, ht⟩ := changes_spec get head last step hstep hnr
  refine ⟨_, t, ht, ?_, ?_⟩
  · intro l v
    simp only [changes, List.mem_map, List.mem_filter, List.mem_range'_1, isChange, decide_eq_true_eq, Prod.mk.injEq]
    constructor
    · rintro ⟨a, ⟨⟨h1, h2⟩, h3⟩, rfl, rfl⟩
      exact ⟨by omega, by omega, h3, rfl⟩
    · rintro ⟨h1, h2, h3, rfl⟩
      exact ⟨l, ⟨⟨by omega, by omega⟩, h3⟩, rfl, rfl⟩
  · simp only [changes, List.pairwise_map]
    exact (List.pairwise_lt_range' (s := last + 1) (n := head - last)).filter _

/-- the default sampling step is covered -/
theorem changes_default_spec (get : Nat → V) (head last : Nat) (hnr : NoReturn get last head) :
    ∃ t, findStateChangesDefault get head last = .ok (changes get last head, t) := by
  obtain ⟨t, ht⟩ := changes_spec get head last 60 (by omega) hnr
  exact ⟨t, by simpa [findStateChangesDefault, Generated.C29.stepDefault] using ht⟩

/-- error branch: `step = 0` is rejected (`range()` raises `ValueError`) -/
theorem changes_step_zero (get : Nat → V) (head last : Nat) :
    findStateChanges get head last 0 = .error .valueError := by
  simp [findStateChanges, withConfig, config_eq, findStateChangesWith, intervalEvents]

/-! non-vacuity: a history with three changes (`ℓ / 10` over levels 3…35), sampled with step 7 -/
theorem noReturn_div10 : NoReturn (fun l => l / 10) 3 35 := by
  intro i j k _ _ _ _ h
  simp only at h ⊢
  omega

example : ∃ t, findStateChanges (fun l => l / 10) 35 3 7 = .ok ([(10, 1), (20, 2), (30, 3)], t) := by
  obtain ⟨t, h⟩ := changes_spec (fun l => l / 10) 35 3 7 (by omega) noReturn_div10
  have e : changes (fun l => l / 10) 3 35 = [(10, 1), (20, 2), (30, 3)] := by decide
  exact ⟨t, by rw [h, e]⟩

example : ∃ l t, findStateChange (fun l => l / 10) 35 3 0 = .ok ((l, l / 10), t) ∧ l = 10 := by
  obtain ⟨l, t, h, h1, h2, h3, h4⟩ := bisect_spec (fun l => l / 10) 3 35 0 (by omega) (by decide) (by decide) noReturn_div10
  refine ⟨l, t, h, ?_⟩
  have h3' : l / 10 ≠ 0 := h3
  have a : 3 < l - 1 → l - 1 < l → (l - 1) / 10 = 0 := h4 (l - 1)
  omega

end C29
