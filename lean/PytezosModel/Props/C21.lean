import PytezosModel.Proofs.C21Scalar
import PytezosModel.Proofs.C21Toy
/-! C21 — BLS12-381 operations respect group and field laws.

Full statement (properties.jsonl): for all G1 and G2 points, including the point at infinity, and all Fr scalars,
ADD, NEG and MUL behave as the group and field operations (identity, inverses, associativity, scalar
distributivity); point encodings round-trip; PAIRING_CHECK is true exactly when the product of the pairings is one.

**This is a partial claim, and the statements say so in their hypotheses.**  The curve arithmetic is py_ecc's.  It
enters the model as the abstract interface `Bls.Env` (`CurveOps` for G1 and G2, `TargetOps`, `pairing`), and every
theorem below that speaks about points assumes `CurveLaws` (commutative group, `multiply` = iterated sum, `r • P = 0`,
`is_inf` ⇔ neutral element, `normalize` yields reduced coordinates that rebuild the point) and, for PAIRING_CHECK,
`PairingLaws` (bilinearity).  These are hypotheses (fields of `Prop`-valued structures), **not** Lean axioms, they are
not proved for py_ecc (that needs the Weierstrass group law over a 381-bit prime field), and `Bls.toy_laws1`,
`toy_laws2`, `toy_pairing_laws` show they are satisfiable — the `example`s below instantiate the theorems there.

What *is* proved, for every `Env` satisfying the laws, every point of it (infinity included) and every integer
scalar: the byte codec of pytezos (`from_point` / `to_point` with the constants and slices read from the source:
48-byte big-endian fields, G2 imaginary coefficient first, infinity = 0x40 ‖ 0…, and `to_point` recognising it),
that ADD / NEG / MUL are the images of the group operations under that codec, hence all group laws at the Michelson
level; that Fr literals, ADD / MUL / NEG / INT on Fr are arithmetic of ℤ modulo `r` (proved outright — no hypothesis);
and that PAIRING_CHECK computes "product of pairings = 1".

Programs: `pt1 E P` is `PUSH bls12_381_g1 <encoding of P>`, `pushFrInt z` is `PUSH bls12_381_fr z`, and
`add' E x y` runs `y ; x ; ADD` (so `x` is the top of the stack), `mul' E x y` runs `y ; x ; MUL`, `neg' E x` runs `x ; NEG`. -/
namespace C21
open Core Bls Generated.C21

/-! ### the source has the shape the theorems are proved for -/

/-- every anchored construct was recognised and has the repaired shape (re-opened by any change of the byte
layouts, the Fr class, the dispatch tables, the tails of ADD / MUL / NEG / INT or PAIRING_CHECK) -/
theorem source_shape : src = some expectedSrc := src_eq

/-- `BLS12_381_FrType.modulus` is the order of the groups -/
theorem modulus_is_group_order : frModulus = some r := by decide +kernel

/-- `to_point` of both classes decodes exactly the infinity pattern `from_point` writes (the pinned tree has
`decodeInf = none` here: `inf + G ≠ G`) -/
theorem to_point_decodes_infinity :
    (g1.bind fun L => L.decodeInf.map (· == L.infCoords)) = some true ∧
    (g2.bind fun L => L.decodeInf.map (· == L.infCoords)) = some true := by decide +kernel

/-- NEG builds its integer result with the operand's own class (the pinned tree has `some false`: NEG on Fr
returned a negative `int`) -/
theorem neg_keeps_operand_class : negUsesResType = some true := by decide

/-! ### programs -/

/-- `PUSH bls12_381_g1 <from_point P>` -/
def pt1 (E : Env) (P : E.K1.G) : R Val := (enc1 E P).map (.pt .g1)
/-- `PUSH bls12_381_g2 <from_point P>` -/
def pt2 (E : Env) (P : E.K2.G) : R Val := (enc2 E P).map (.pt .g2)
/-- `y ; x ; ADD` -/
def add' (E : Env) (x y : R Val) : R Val := x >>= fun a => y >>= fun b => ADD E a b
/-- `y ; x ; MUL` -/
def mul' (E : Env) (x y : R Val) : R Val := x >>= fun a => y >>= fun b => MUL E a b
/-- `x ; NEG` -/
def neg' (E : Env) (x : R Val) : R Val := x >>= NEG E
/-- `x ; INT` -/
def int' (x : R Val) : R Val := x >>= INT

/-- the encodings of a list of `(G1, G2)` pairs, as PAIRING_CHECK receives them -/
def encPairs (E : Env) : List (E.K1.G × E.K2.G) → R (List (Bytes × Bytes))
  | [] => .ok []
  | p :: ps => enc1 E p.1 >>= fun a => enc2 E p.2 >>= fun b => encPairs E ps >>= fun rest => .ok ((a, b) :: rest)

/-- `∏ e(Qᵢ, Pᵢ)` in the order PAIRING_CHECK multiplies -/
def pairingProduct (E : Env) (ps : List (E.K1.G × E.K2.G)) : E.T.GT :=
  ps.foldl (fun prod p => E.T.mul prod (E.pairing p.2 p.1)) E.T.one



/-! ### Fr: literals and instructions are arithmetic of ℤ modulo `r` (no hypothesis) -/

section fr
variable (E : Env)

/-- `PUSH bls12_381_fr z` leaves `z mod r`, which lies in `[0, r)` -/
theorem fr_literal_spec (z : Int) :
    pushFrInt z = .ok (.num .fr (z % (r : Int))) ∧ 0 ≤ z % (r : Int) ∧ z % (r : Int) < (r : Int) := by
  refine ⟨by rw [pushFrInt_eq, sc_cast], Int.emod_nonneg _ (by decide), Int.emod_lt_of_pos _ (by decide)⟩

/-- two literals give the same field element iff they are congruent modulo `r` -/
theorem fr_literal_eq_iff (z w : Int) : pushFrInt z = pushFrInt w ↔ z % (r : Int) = w % (r : Int) := by
  rw [(fr_literal_spec z).1, (fr_literal_spec w).1]
  simp only [Except.ok.injEq, Val.num.injEq, true_and]

theorem fr_add_spec (z w : Int) : add' E (pushFrInt z) (pushFrInt w) = pushFrInt (z + w) := by
  simp only [add', pushFrInt_eq, ok_bind, ADD_eq, impl_add_fr, sc_cast, ← Int.add_emod]

theorem fr_mul_spec (z w : Int) : mul' E (pushFrInt z) (pushFrInt w) = pushFrInt (z * w) := by
  simp only [mul', pushFrInt_eq, ok_bind, MUL_eq, impl_mul_fr, sc_cast, ← Int.mul_emod]

theorem fr_neg_spec (z : Int) : neg' E (pushFrInt z) = pushFrInt (-z) := by
  simp only [neg', pushFrInt_eq, ok_bind, NEG_eq, impl_neg_fr, sc_cast, neg_emod_emod']

/-- `INT` gives back the canonical representative -/
theorem fr_int_spec (z : Int) : int' (pushFrInt z) = .ok (.num .int (z % (r : Int))) := by
  simp only [int', pushFrInt_eq, ok_bind, INT_eq, Impl.int, sc_cast]

/-- MUL of an Fr by an `int` (possibly negative) or a `nat`, on either side -/
theorem fr_mul_int_spec (z w : Int) :
    mul' E (pushFrInt z) (.ok (.num .int w)) = pushFrInt (z * w) ∧
    mul' E (.ok (.num .int w)) (pushFrInt z) = pushFrInt (w * z) ∧
    mul' E (pushFrInt z) (.ok (.num .nat w)) = pushFrInt (z * w) ∧
    mul' E (.ok (.num .nat w)) (pushFrInt z) = pushFrInt (w * z) := by
  simp only [mul', pushFrInt_eq, ok_bind, MUL_eq, impl_mul_fr_int, impl_mul_int_fr, impl_mul_fr_nat,
    impl_mul_nat_fr, sc_cast, emod_mul_emod', mul_emod_emod', and_self]

/-- ring laws of the Fr instructions: consequences of the three homomorphism theorems and the ring laws of ℤ -/
theorem fr_ring_laws (a b c : Int) :
    add' E (add' E (pushFrInt a) (pushFrInt b)) (pushFrInt c) = add' E (pushFrInt a) (add' E (pushFrInt b) (pushFrInt c)) ∧
    add' E (pushFrInt a) (pushFrInt b) = add' E (pushFrInt b) (pushFrInt a) ∧
    add' E (pushFrInt 0) (pushFrInt a) = pushFrInt a ∧
    add' E (pushFrInt a) (neg' E (pushFrInt a)) = pushFrInt 0 ∧
    mul' E (mul' E (pushFrInt a) (pushFrInt b)) (pushFrInt c) = mul' E (pushFrInt a) (mul' E (pushFrInt b) (pushFrInt c)) ∧
    mul' E (pushFrInt a) (pushFrInt b) = mul' E (pushFrInt b) (pushFrInt a) ∧
    mul' E (pushFrInt 1) (pushFrInt a) = pushFrInt a ∧
    mul' E (add' E (pushFrInt a) (pushFrInt b)) (pushFrInt c)
      = add' E (mul' E (pushFrInt a) (pushFrInt c)) (mul' E (pushFrInt b) (pushFrInt c)) := by
  simp only [fr_add_spec, fr_mul_spec, fr_neg_spec]
  refine ⟨by rw [Int.add_assoc], by rw [Int.add_comm], by rw [Int.zero_add], by rw [Int.add_right_neg],
    by rw [Int.mul_assoc], by rw [Int.mul_comm], by rw [Int.one_mul], by rw [Int.add_mul]⟩

/-- the 32-byte little-endian literal codec round-trips: the optimized form of an Fr value reads back as itself -/
theorem fr_bytes_roundtrip (z : Int) :
    ∃ bs, (pushFrInt z >>= frBytes) = .ok bs ∧ bs.length = 32 ∧ pushFrBytes bs = pushFrInt z := by
  obtain ⟨bs, e, hl, hv⟩ := impl_frToBytes (sc z) (sc_lt z)
  refine ⟨bs, by simp only [pushFrInt_eq, ok_bind, frBytes_eq, e], hl, ?_⟩
  rw [pushFrBytes_eq bs (by omega), hv, (fr_literal_eq_iff _ z).2]
  rw [sc_cast, Int.emod_emod]

/-- byte literals: at most 32 bytes, read little-endian and reduced; longer ones are rejected -/
theorem fr_bytes_literal_spec (bs : Bytes) :
    (bs.length ≤ 32 → pushFrBytes bs = pushFrInt (leToNat bs : Int)) ∧
    (32 < bs.length → pushFrBytes bs = .error .value) :=
  ⟨pushFrBytes_eq bs, pushFrBytes_long bs⟩

end fr

section points
variable (E : Env) (h1 : CurveLaws E.K1 2) (h2 : CurveLaws E.K2 4)

/-! ### G1: codec -/

include h1 in
/-- `from_point` succeeds on every point and yields 96 bytes -/
theorem enc_total_g1 (P : E.K1.G) : ∃ bs, enc1 E P = .ok bs ∧ bs.length = 96 := by
  obtain ⟨bs, e, _, hl⟩ := fromPoint_toPoint E.K1 2 h1 L1 L1_good P
  exact ⟨bs, by simp [enc1_eq, e, ofOpt], hl⟩

include h1 in
/-- encodings round-trip: `to_point (from_point P) = P` for every point, infinity included -/
theorem dec_enc_g1 (P : E.K1.G) : (enc1 E P >>= dec1 E) = .ok P := by
  obtain ⟨bs, e, t, _⟩ := fromPoint_toPoint E.K1 2 h1 L1 L1_good P
  simp [enc1_eq, e, ofOpt, dec1_eq, t]

include h1 in
/-- different points have different encodings -/
theorem enc_injective_g1 (P Q : E.K1.G) (h : enc1 E P = enc1 E Q) : P = Q := by
  have hp := dec_enc_g1 E h1 P
  have hq := dec_enc_g1 E h1 Q
  rw [h, hq] at hp
  cases hp
  rfl

include h1 in
/-- the point at infinity is the flag byte 0x40 followed by zeros -/
theorem enc_zero_g1 : enc1 E E.K1.zero = .ok (64 :: List.replicate 95 0) := by
  simp [enc1_eq, fromPoint_zero1 E.K1 2 h1, ofOpt]

/-! ### G1: the instructions are the group operations -/

include h1 in
theorem add_spec_g1 (P Q : E.K1.G) : add' E (pt1 E P) (pt1 E Q) = pt1 E (E.K1.add P Q) := by
  obtain ⟨a, ha, _⟩ := fromPoint_toPoint E.K1 2 h1 L1 L1_good P
  obtain ⟨b, hb, _⟩ := fromPoint_toPoint E.K1 2 h1 L1 L1_good Q
  simp [add', pt1, enc1_eq, ha, hb, ofOpt, ADD_eq, impl_add_g1 E h1 P Q a b ha hb]

include h1 in
theorem neg_spec_g1 (P : E.K1.G) : neg' E (pt1 E P) = pt1 E (E.K1.neg P) := by
  obtain ⟨a, ha, _⟩ := fromPoint_toPoint E.K1 2 h1 L1 L1_good P
  simp [neg', pt1, enc1_eq, ha, ofOpt, NEG_eq, impl_neg_g1 E h1 P a ha]

include h1 in
/-- MUL by the Fr literal `z` (any integer, reduced by `PUSH`) is multiplication by its residue -/
theorem mul_spec_g1 (P : E.K1.G) (z : Int) : mul' E (pt1 E P) (pushFrInt z) = pt1 E (E.K1.mul P (sc z)) := by
  obtain ⟨a, ha, _⟩ := fromPoint_toPoint E.K1 2 h1 L1 L1_good P
  simp [mul', pt1, enc1_eq, ha, ofOpt, MUL_eq, pushFrInt_eq, impl_mul_g1 E h1 P a ha]

include h1 in
/-- … and for a natural literal of any size (`r`, `r + 1`, `2^256 − 1`, …) that is `k • P`, by the order law -/
theorem mul_spec_nat_g1 (P : E.K1.G) (k : Nat) : mul' E (pt1 E P) (pushFrInt k) = pt1 E (E.K1.mul P k) := by
  rw [mul_spec_g1 E h1, sc_nat, mul_mod' h1]

/-! ### G1: group laws at the Michelson level -/

include h1 in
theorem add_identity_g1 (P : E.K1.G) :
    add' E (pt1 E E.K1.zero) (pt1 E P) = pt1 E P ∧ add' E (pt1 E P) (pt1 E E.K1.zero) = pt1 E P := by
  rw [add_spec_g1 E h1, add_spec_g1 E h1, h1.zero_add, add_zero' h1]
  exact ⟨rfl, rfl⟩

include h1 in
theorem add_inverse_g1 (P : E.K1.G) : add' E (pt1 E P) (neg' E (pt1 E P)) = pt1 E E.K1.zero := by
  rw [neg_spec_g1 E h1, add_spec_g1 E h1, add_neg' h1]

include h1 in
theorem add_comm_g1 (P Q : E.K1.G) : add' E (pt1 E P) (pt1 E Q) = add' E (pt1 E Q) (pt1 E P) := by
  rw [add_spec_g1 E h1, add_spec_g1 E h1, h1.add_comm]

include h1 in
theorem add_assoc_g1 (P Q S : E.K1.G) :
    add' E (add' E (pt1 E P) (pt1 E Q)) (pt1 E S) = add' E (pt1 E P) (add' E (pt1 E Q) (pt1 E S)) := by
  rw [add_spec_g1 E h1, add_spec_g1 E h1, add_spec_g1 E h1, add_spec_g1 E h1, h1.add_assoc]

include h1 in
/-- `NEG inf = inf` -/
theorem neg_infinity_g1 : neg' E (pt1 E E.K1.zero) = pt1 E E.K1.zero := by
  rw [neg_spec_g1 E h1, neg_zero' h1]

include h1 in
/-- `MUL inf z = inf` -/
theorem mul_infinity_g1 (z : Int) : mul' E (pt1 E E.K1.zero) (pushFrInt z) = pt1 E E.K1.zero := by
  rw [mul_spec_g1 E h1, mul_zero_pt h1]

include h1 in
theorem mul_one_zero_g1 (P : E.K1.G) :
    mul' E (pt1 E P) (pushFrInt 1) = pt1 E P ∧ mul' E (pt1 E P) (pushFrInt 0) = pt1 E E.K1.zero := by
  have e1 := mul_spec_nat_g1 E h1 P 1
  have e0 := mul_spec_nat_g1 E h1 P 0
  rw [mul_one' h1] at e1
  rw [h1.mul_zero] at e0
  exact ⟨e1, e0⟩

include h1 in
/-- `MUL P (−1) = NEG P` (the literal `−1` is pushed as `r − 1`) -/
theorem mul_neg_one_g1 (P : E.K1.G) : mul' E (pt1 E P) (pushFrInt (-1)) = neg' E (pt1 E P) := by
  rw [mul_spec_g1 E h1, neg_spec_g1 E h1, sc_neg_one, mul_neg_one h1]

include h1 in
/-- scalar distributivity over point addition -/
theorem mul_distrib_point_g1 (P Q : E.K1.G) (z : Int) :
    mul' E (add' E (pt1 E P) (pt1 E Q)) (pushFrInt z)
      = add' E (mul' E (pt1 E P) (pushFrInt z)) (mul' E (pt1 E Q) (pushFrInt z)) := by
  rw [add_spec_g1 E h1, mul_spec_g1 E h1, mul_spec_g1 E h1, mul_spec_g1 E h1, add_spec_g1 E h1, mul_add_pt h1]

include h1 in
/-- scalar distributivity over Fr addition: `(z + w) • P = z • P + w • P` with the sum taken by `ADD` on Fr -/
theorem mul_distrib_scalar_g1 (P : E.K1.G) (z w : Int) :
    mul' E (pt1 E P) (add' E (pushFrInt z) (pushFrInt w))
      = add' E (mul' E (pt1 E P) (pushFrInt z)) (mul' E (pt1 E P) (pushFrInt w)) := by
  rw [fr_add_spec, mul_spec_g1 E h1, mul_spec_g1 E h1, mul_spec_g1 E h1, add_spec_g1 E h1, sc_add, mul_mod' h1,
    mul_add' h1]

include h1 in
/-- compatibility with Fr multiplication: `w • (z • P) = (z · w) • P` with the product taken by `MUL` on Fr -/
theorem mul_compat_g1 (P : E.K1.G) (z w : Int) :
    mul' E (mul' E (pt1 E P) (pushFrInt z)) (pushFrInt w)
      = mul' E (pt1 E P) (mul' E (pushFrInt z) (pushFrInt w)) := by
  rw [fr_mul_spec, mul_spec_g1 E h1, mul_spec_g1 E h1, mul_spec_g1 E h1, sc_mul, mul_mod' h1, mul_mul' h1]

/-! ### G2: codec -/

include h2 in
/-- `from_point` succeeds on every point and yields 96 bytes -/
theorem enc_total_g2 (P : E.K2.G) : ∃ bs, enc2 E P = .ok bs ∧ bs.length = 192 := by
  obtain ⟨bs, e, _, hl⟩ := fromPoint_toPoint E.K2 4 h2 L2 L2_good P
  exact ⟨bs, by simp [enc2_eq, e, ofOpt], hl⟩

include h2 in
/-- encodings round-trip: `to_point (from_point P) = P` for every point, infinity included -/
theorem dec_enc_g2 (P : E.K2.G) : (enc2 E P >>= dec2 E) = .ok P := by
  obtain ⟨bs, e, t, _⟩ := fromPoint_toPoint E.K2 4 h2 L2 L2_good P
  simp [enc2_eq, e, ofOpt, dec2_eq, t]

include h2 in
/-- different points have different encodings -/
theorem enc_injective_g2 (P Q : E.K2.G) (h : enc2 E P = enc2 E Q) : P = Q := by
  have hp := dec_enc_g2 E h2 P
  have hq := dec_enc_g2 E h2 Q
  rw [h, hq] at hp
  cases hp
  rfl

include h2 in
/-- the point at infinity is the flag byte 0x40 followed by zeros -/
theorem enc_zero_g2 : enc2 E E.K2.zero = .ok (64 :: List.replicate 191 0) := by
  simp [enc2_eq, fromPoint_zero2 E.K2 4 h2, ofOpt]

/-! ### G2: the instructions are the group operations -/

include h2 in
theorem add_spec_g2 (P Q : E.K2.G) : add' E (pt2 E P) (pt2 E Q) = pt2 E (E.K2.add P Q) := by
  obtain ⟨a, ha, _⟩ := fromPoint_toPoint E.K2 4 h2 L2 L2_good P
  obtain ⟨b, hb, _⟩ := fromPoint_toPoint E.K2 4 h2 L2 L2_good Q
  simp [add', pt2, enc2_eq, ha, hb, ofOpt, ADD_eq, impl_add_g2 E h2 P Q a b ha hb]

include h2 in
theorem neg_spec_g2 (P : E.K2.G) : neg' E (pt2 E P) = pt2 E (E.K2.neg P) := by
  obtain ⟨a, ha, _⟩ := fromPoint_toPoint E.K2 4 h2 L2 L2_good P
  simp [neg', pt2, enc2_eq, ha, ofOpt, NEG_eq, impl_neg_g2 E h2 P a ha]

include h2 in
/-- MUL by the Fr literal `z` (any integer, reduced by `PUSH`) is multiplication by its residue -/
theorem mul_spec_g2 (P : E.K2.G) (z : Int) : mul' E (pt2 E P) (pushFrInt z) = pt2 E (E.K2.mul P (sc z)) := by
  obtain ⟨a, ha, _⟩ := fromPoint_toPoint E.K2 4 h2 L2 L2_good P
  simp [mul', pt2, enc2_eq, ha, ofOpt, MUL_eq, pushFrInt_eq, impl_mul_g2 E h2 P a ha]

include h2 in
/-- … and for a natural literal of any size (`r`, `r + 1`, `2^256 − 1`, …) that is `k • P`, by the order law -/
theorem mul_spec_nat_g2 (P : E.K2.G) (k : Nat) : mul' E (pt2 E P) (pushFrInt k) = pt2 E (E.K2.mul P k) := by
  rw [mul_spec_g2 E h2, sc_nat, mul_mod' h2]

/-! ### G2: group laws at the Michelson level -/

include h2 in
theorem add_identity_g2 (P : E.K2.G) :
    add' E (pt2 E E.K2.zero) (pt2 E P) = pt2 E P ∧ add' E (pt2 E P) (pt2 E E.K2.zero) = pt2 E P := by
  rw [add_spec_g2 E h2, add_spec_g2 E h2, h2.zero_add, add_zero' h2]
  exact ⟨rfl, rfl⟩

include h2 in
theorem add_inverse_g2 (P : E.K2.G) : add' E (pt2 E P) (neg' E (pt2 E P)) = pt2 E E.K2.zero := by
  rw [neg_spec_g2 E h2, add_spec_g2 E h2, add_neg' h2]

include h2 in
theorem add_comm_g2 (P Q : E.K2.G) : add' E (pt2 E P) (pt2 E Q) = add' E (pt2 E Q) (pt2 E P) := by
  rw [add_spec_g2 E h2, add_spec_g2 E h2, h2.add_comm]

include h2 in
theorem add_assoc_g2 (P Q S : E.K2.G) :
    add' E (add' E (pt2 E P) (pt2 E Q)) (pt2 E S) = add' E (pt2 E P) (add' E (pt2 E Q) (pt2 E S)) := by
  rw [add_spec_g2 E h2, add_spec_g2 E h2, add_spec_g2 E h2, add_spec_g2 E h2, h2.add_assoc]

include h2 in
/-- `NEG inf = inf` -/
theorem neg_infinity_g2 : neg' E (pt2 E E.K2.zero) = pt2 E E.K2.zero := by
  rw [neg_spec_g2 E h2, neg_zero' h2]

include h2 in
/-- `MUL inf z = inf` -/
theorem mul_infinity_g2 (z : Int) : mul' E (pt2 E E.K2.zero) (pushFrInt z) = pt2 E E.K2.zero := by
  rw [mul_spec_g2 E h2, mul_zero_pt h2]

include h2 in
theorem mul_one_zero_g2 (P : E.K2.G) :
    mul' E (pt2 E P) (pushFrInt 1) = pt2 E P ∧ mul' E (pt2 E P) (pushFrInt 0) = pt2 E E.K2.zero := by
  have e1 := mul_spec_nat_g2 E h2 P 1
  have e0 := mul_spec_nat_g2 E h2 P 0
  rw [mul_one' h2] at e1
  rw [h2.mul_zero] at e0
  exact ⟨e1, e0⟩

include h2 in
/-- `MUL P (−1) = NEG P` (the literal `−1` is pushed as `r − 1`) -/
theorem mul_neg_one_g2 (P : E.K2.G) : mul' E (pt2 E P) (pushFrInt (-1)) = neg' E (pt2 E P) := by
  rw [mul_spec_g2 E h2, neg_spec_g2 E h2, sc_neg_one, mul_neg_one h2]

include h2 in
/-- scalar distributivity over point addition -/
theorem mul_distrib_point_g2 (P Q : E.K2.G) (z : Int) :
    mul' E (add' E (pt2 E P) (pt2 E Q)) (pushFrInt z)
      = add' E (mul' E (pt2 E P) (pushFrInt z)) (mul' E (pt2 E Q) (pushFrInt z)) := by
  rw [add_spec_g2 E h2, mul_spec_g2 E h2, mul_spec_g2 E h2, mul_spec_g2 E h2, add_spec_g2 E h2, mul_add_pt h2]

include h2 in
/-- scalar distributivity over Fr addition: `(z + w) • P = z • P + w • P` with the sum taken by `ADD` on Fr -/
theorem mul_distrib_scalar_g2 (P : E.K2.G) (z w : Int) :
    mul' E (pt2 E P) (add' E (pushFrInt z) (pushFrInt w))
      = add' E (mul' E (pt2 E P) (pushFrInt z)) (mul' E (pt2 E P) (pushFrInt w)) := by
  rw [fr_add_spec, mul_spec_g2 E h2, mul_spec_g2 E h2, mul_spec_g2 E h2, add_spec_g2 E h2, sc_add, mul_mod' h2,
    mul_add' h2]

include h2 in
/-- compatibility with Fr multiplication: `w • (z • P) = (z · w) • P` with the product taken by `MUL` on Fr -/
theorem mul_compat_g2 (P : E.K2.G) (z w : Int) :
    mul' E (mul' E (pt2 E P) (pushFrInt z)) (pushFrInt w)
      = mul' E (pt2 E P) (mul' E (pushFrInt z) (pushFrInt w)) := by
  rw [fr_mul_spec, mul_spec_g2 E h2, mul_spec_g2 E h2, mul_spec_g2 E h2, sc_mul, mul_mod' h2, mul_mul' h2]

end points

/-! ### PAIRING_CHECK -/

section pairing
variable (E : Env) (h1 : CurveLaws E.K1 2) (h2 : CurveLaws E.K2 4) (hE : PairingLaws E)

include h1 h2 in
theorem encPairs_encodes (ps : List (E.K1.G × E.K2.G)) : ∃ bs, encPairs E ps = .ok bs ∧ Encodes E ps bs := by
  induction ps with
  | nil => exact ⟨[], rfl, trivial⟩
  | cons p ps ih =>
    obtain ⟨bs, e, he⟩ := ih
    obtain ⟨a, ha, _⟩ := fromPoint_toPoint E.K1 2 h1 L1 L1_good p.1
    obtain ⟨b, hb, _⟩ := fromPoint_toPoint E.K2 4 h2 L2 L2_good p.2
    exact ⟨(a, b) :: bs, by simp [encPairs, enc1_eq, enc2_eq, ha, hb, ofOpt, e], ⟨ha, hb⟩, he⟩

include h1 h2 in
/-- PAIRING_CHECK on the encodings of any list of pairs (any length, infinity allowed) tests whether the product
of the pairings is one -/
theorem pairing_check_spec (ps : List (E.K1.G × E.K2.G)) :
    (encPairs E ps >>= PAIRING_CHECK E) = .ok (.bool (E.T.isOne (pairingProduct E ps))) := by
  obtain ⟨bs, e, he⟩ := encPairs_encodes E h1 h2 ps
  simp only [e, ok_bind, PAIRING_CHECK_eq, impl_pairing E h1 h2 ps bs he, pairingProduct]

include h1 h2 hE in
/-- … so it is `True` exactly when the product is one -/
theorem pairing_check_true_iff (ps : List (E.K1.G × E.K2.G)) :
    (encPairs E ps >>= PAIRING_CHECK E) = .ok (.bool true) ↔ pairingProduct E ps = E.T.one := by
  rw [pairing_check_spec E h1 h2, ← hE.isOne_iff]
  simp only [Except.ok.injEq, Val.bool.injEq]

include hE in
/-- the empty list passes -/
theorem pairing_check_nil : PAIRING_CHECK E [] = .ok (.bool true) := by
  have : E.T.isOne E.T.one = true := (hE.isOne_iff _).2 rfl
  simp only [PAIRING_CHECK_eq, Impl.pairingCheck, List.foldl_nil, this]

include h1 h2 hE in
/-- `e(aP, bQ) · e(−(ab)P, Q) = 1`: the check the harness replays on the real code -/
theorem pairing_check_bilinear (P : E.K1.G) (Q : E.K2.G) (a b : Nat) :
    (encPairs E [(E.K1.mul P a, E.K2.mul Q b), (E.K1.neg (E.K1.mul P (a * b)), Q)] >>= PAIRING_CHECK E)
      = .ok (.bool true) := by
  rw [pairing_check_true_iff E h1 h2 hE]
  simp only [pairingProduct, List.foldl_cons, List.foldl_nil, hE.one_mul]
  rw [pair_mul_swap hE h1 h2, ← mul_mul' h1, pair_neg_right hE h1]

end pairing

/-! ### non-vacuity: the theorems instantiated in `toyEnv` (integers modulo `r`), with concrete points and scalars -/

example : add' toyEnv (pt1 toyEnv toyZero) (pt1 toyEnv (toyOfNat 5)) = pt1 toyEnv (toyOfNat 5) :=
  (add_identity_g1 toyEnv toy_laws1 (toyOfNat 5)).1
example : (enc1 toyEnv (toyOfNat 7) >>= dec1 toyEnv) = .ok (toyOfNat 7) := dec_enc_g1 toyEnv toy_laws1 _
example : (enc2 toyEnv toyZero >>= dec2 toyEnv) = .ok toyZero := dec_enc_g2 toyEnv toy_laws2 _
example : enc1 toyEnv (toyOfNat 3) = .ok (List.replicate 47 0 ++ [3] ++ List.replicate 47 0 ++ [3]) := by decide +kernel
example : enc2 toyEnv toyZero = .ok (64 :: List.replicate 191 0) := enc_zero_g2 toyEnv toy_laws2
example : mul' toyEnv (pt2 toyEnv (toyOfNat 2)) (pushFrInt ((r : Int) + 1)) = pt2 toyEnv (toyOfNat 2) := by
  decide +kernel
example : mul' toyEnv (pt2 toyEnv (toyOfNat 2)) (pushFrInt ((r + 1 : Nat) : Int)) = pt2 toyEnv (toyEnv.K2.mul (toyOfNat 2) (r + 1)) :=
  mul_spec_nat_g2 toyEnv toy_laws2 (toyOfNat 2) (r + 1)
example : neg' toyEnv (pt1 toyEnv toyZero) = pt1 toyEnv toyZero := neg_infinity_g1 toyEnv toy_laws1
example : add' toyEnv (pushFrInt (-5)) (pushFrInt 7) = pushFrInt 2 := fr_add_spec toyEnv (-5) 7
example : pushFrInt (-5) = .ok (.num .fr ((r : Int) - 5)) := by decide +kernel
example : neg' toyEnv (pushFrInt 5) = .ok (.num .fr ((r : Int) - 5)) := by decide +kernel
example : (encPairs toyEnv [(toyOfNat 6, toyOfNat 5), (toyEnv.K1.neg (toyOfNat 30), toyOfNat 1)] >>= PAIRING_CHECK toyEnv)
    = .ok (.bool true) := by decide +kernel
example : (encPairs toyEnv [(toyOfNat 6, toyOfNat 5)] >>= PAIRING_CHECK toyEnv) = .ok (.bool false) := by decide +kernel

end C21
