import PytezosModel.Generated.C01Bodies
import PytezosModel.Proofs.InterpTables
import PytezosModel.Proofs.InterpRefine
import PytezosModel.Proofs.InterpGuard
import PytezosModel.Proofs.InterpProgress
import PytezosModel.Proofs.InterpUnpackPack
/-! C01 — the interpreter computes the Michelson result, or fails with the FAILWITH value, that the
reference semantics prescribes.

`Impl.exec` mirrors the `execute` methods and the protected-prefix `MichelsonStack` of pytezos (tied to the
code by the correspondence run); `Spec.eval` is the big-step reference semantics of the modelled core over a
plain list (values carry their types; outcomes: a stack, a FAILWITH value, a runtime failure `rtfail`, out of fuel
`oof`, `stuck` for ill-typed configurations, and — guard mode only — `offguard`).
The modelled core is exactly the constructors of `Interp.Instr`.

FULL STATEMENT (properties.jsonl): for every well-typed program … the interpreter ends with exactly the stack,
or FAILWITH value, of the reference semantics.

* `welltyped_run_eq_reference` is that statement, literally about WELL-TYPED programs: the program is accepted by the
  typing rules (`Typing.typeInstr`, with well-formed set / map literals `Typing.literalsOk`), every input value is a
  well-typed value (`WellFormed`: deep typing + strictly sorted sets / maps); then `Impl.run` returns exactly the
  outcome of the reference semantics — the stack, the FAILWITH value, the runtime failure (mutez overflow, shift by
  more than 256 bits), and it needs more fuel exactly when the reference does.  The only other hypothesis is the
  documented guard: MAP is never applied to an *empty* list / map with a body that changes the element type (the
  guarded reference run does not answer `offguard`).  There pytezos keeps the old element type on the (empty) result —
  its `MapInstruction` cannot know the new one — and a later EXEC/APPLY/CONS/COMPARE may fail its dynamic type
  assertion: a recorded open finding, exhibited on the mirror by `map_empty_counterexample`.
* It rests on `progress` (a well-typed program on well-typed values is never stuck: the progress half of type
  soundness; the preservation half is C02) and on `exec_refines_spec` (refinement for every execution that is not stuck
  and inside the guard, any protected prefix).
* **Tie to the source.**  `Impl` does not contain the `dispatch_types` tables, the shift / mutez / `count` bounds or the
  stack indices: it reads them from `Generated.C01`, which translator/c01.py regenerates from
  src/pytezos/michelson/instructions/*.py and stack.py on every run.  The theorems `*_tables_eq_reference`,
  `numeric_guards_eq_reference` and `stack_indices` below are the obligations that what was read agrees with the
  reference; `exec_refines_spec` is proved from them (Proofs/InterpTables.lean → InterpStack / InterpArith / InterpStep).
  `source_bodies_recognised` is the obligation that the body of every modelled `execute` (and of the helpers / stack /
  comb methods they call) is still the text the mirror was transcribed from. -/
namespace C01
open Interp

/-- **well-typed value** (Michelson typing): a well-formed value of its runtime type — deep, by `Typing.checkVal false`: the
elements of collections, the bodies of lambdas — in which every set and every map with simple comparable keys is
strictly sorted (`Typing.litOk`) -/
def WellFormed (v : Val) : Prop := Typing.checkVal false v (typeOf v) = true ∧ Typing.litOk v = true

/-- **strictly well-typed value**: the same with `Typing.checkVal true` — every lambda inside `v` has a *strictly* typed
body (its MAP bodies keep the element type) -/
def StrictWF (v : Val) : Prop := Typing.checkVal true v (typeOf v) = true ∧ Typing.litOk v = true

/-- **shape digests**: for each of the 102 instruction forms, the helpers (`execute_dip`, `execute_shift`, `dispatch_types`
…) and the `MichelsonStack` / `PairType` / `from_value` methods they call, the normalised statement list in the source
is the one the mirror `Impl` was written from (translator/c01.py, `SHAPES`) -/
theorem source_bodies_recognised : Generated.C01.bodyRecognised.all (·.2) = true := by decide

/-- the digest list covers all 102 instruction forms -/
theorem source_bodies_cover_all_forms : Generated.C01.modelledForms = 102 ∧ 102 ≤ Generated.C01.bodyRecognised.length := by
  decide +kernel

/-- the `dispatch_types` tables read from arithmetic.py are the reference tables -/
theorem arithmetic_tables_eq_reference :
    Impl.addTy = Spec.addTy ∧ Impl.subTy = Spec.subTy ∧ Impl.mulTy = Spec.mulTy ∧ Impl.edivTy = Spec.edivTy ∧
    (∀ a, Impl.negTy a = ruleTy1 .NEG [a]) :=
  ⟨addTy_eq, subTy_eq, mulTy_eq, edivTy_eq, negTy_eq⟩

/-- the tables of boolean.py: result classes of the typing rules, `bool` / `int` / `~int(x)` / `not bool(x)` converters -/
theorem boolean_tables_eq_reference :
    (∀ a b, Impl.convRow Generated.C01.andTable [a, b]
        = (Typing.andTy a b).map fun t => (t, if t = Ty.bool then Generated.C01.Conv.bool else .int)) ∧
    (∀ a b, Impl.convRow Generated.C01.boolAddTable [a, b]
        = (Typing.orTy a b).map fun t => (t, if t = Ty.bool then Generated.C01.Conv.bool else .int)) ∧
    (∀ a, Impl.convRow Generated.C01.notTable [a]
        = (ruleTy1 .NOT [a]).map fun t => (t, if t = Ty.bool then Generated.C01.Conv.not else .invert)) :=
  ⟨andRow_eq, orRow_eq, notRow_eq⟩

/-- the tables / operand classes of generic.py (CONCAT, SIZE, SLICE) -/
theorem generic_tables_eq_reference :
    (∀ t, Impl.convRow Generated.C01.concatListTable [t]
        = (ruleTy1 .CONCAT [.list t]).map fun r => (r, if r = Ty.string then Generated.C01.Conv.str else .bytes)) ∧
    (∀ a b, Impl.convRow Generated.C01.concatPairTable [a, b]
        = (match a with | .list _ => none | _ => ruleTy1 .CONCAT [a, b]).map
            fun r => (r, if r = Ty.string then Generated.C01.Conv.str else .bytes)) ∧
    (∀ t, Impl.classIn Generated.C01.sizeClasses t = (Typing.step .SIZE [t]).isSome) ∧
    (∀ t, Impl.classIn Generated.C01.sliceOffsetClass t = decide (t = .nat)) ∧
    (∀ t, Impl.classIn Generated.C01.sliceLengthClass t = decide (t = .nat)) ∧
    (∀ t, Impl.classIn Generated.C01.sliceClasses t = (Typing.step .SLICE [.nat, .nat, t]).isSome) :=
  ⟨concatListRow_eq, concatPairRow_eq, sizeClasses_eq, sliceOffsetClass_eq, sliceLengthClass_eq, sliceClasses_eq⟩

/-- the numbers read from the source: shifts by at most 256 bits, `nat` / `mutez` ranges (`value >= 0`, at most 63 bits),
`PAIR n` / `UNPAIR n` need `n ≥ 2`, `unpairn_comb(count - 2)` -/
theorem numeric_guards_eq_reference :
    Generated.C01.shiftLimit = some 257 ∧ Impl.numFromValue = Spec.numOk ∧ Generated.C01.pairnMin = some 2 ∧
    Generated.C01.unpairnMin = some 2 ∧ Generated.C01.unpairnCombOffset = some 2 :=
  ⟨shiftLimit_eq, numFromValue_eq, pairnMin_eq, unpairnMin_eq, unpairnCombOffset_eq⟩

/-- `MichelsonStack.push / pop / peek` work at index `self.protected` -/
theorem stack_indices :
    Generated.C01.pushIndex = some .atProtected ∧ Generated.C01.popIndex = some .atProtected ∧
    Generated.C01.peekIndex = some .atProtected :=
  ⟨pushIndex_eq, popIndex_eq, peekIndex_eq⟩

/-- **refinement, any protected prefix** (the form used inside DIP / DIG / DUG / DUP n):
for every program, fuel bound, environment, visible stack `st` and protected prefix `pre`, if the reference
semantics is not stuck and stays inside the guard, the pytezos machine started on `pre ++ st` with `pre` protected
has the reference outcome: the same stack under the same prefix, the same FAILWITH value, a runtime failure (mutez
overflow, shift by more than 256 bits) exactly where the reference fails, and it exhausts the fuel bound exactly when
the reference does. -/
theorem exec_refines_spec (env : Env) (fuel : Nat) (i : Instr) (pre st : List Val)
    (h : Spec.eval true env fuel i st ≠ .stuck) (hg : Spec.eval true env fuel i st ≠ .offguard) :
    Impl.exec env fuel i (stk pre st) = (Spec.eval true env fuel i st).map' (stk pre) :=
  Interp.exec_refines_spec env fuel i pre st h hg

/-- a REPL / contract run on the stack `st`: the guarded reference outcome, whatever it is -/
theorem run_eq_guarded (env : Env) (fuel : Nat) (i : Instr) (st : List Val)
    (h : Spec.eval true env fuel i st ≠ .stuck) (hg : Spec.eval true env fuel i st ≠ .offguard) :
    Impl.run env fuel i st = Spec.eval true env fuel i st := by
  have := Interp.exec_refines_spec env fuel i [] st h hg
  simp only [stk, List.nil_append, List.length_nil] at this
  rw [Impl.run, this]
  cases Spec.eval true env fuel i st <;> simp [Res.map', Res.bind, stk]

/-- a REPL / contract run: final stack -/
theorem run_ok (env : Env) (fuel : Nat) (i : Instr) (st st' : List Val)
    (h : Spec.eval true env fuel i st = .ok st') : Impl.run env fuel i st = .ok st' := by
  rw [run_eq_guarded env fuel i st (by rw [h]; intro e; cases e) (by rw [h]; intro e; cases e), h]

/-- a REPL / contract run: FAILWITH value -/
theorem run_failwith (env : Env) (fuel : Nat) (i : Instr) (st : List Val) (v : Val)
    (h : Spec.eval true env fuel i st = .failed v) : Impl.run env fuel i st = .failed v := by
  rw [run_eq_guarded env fuel i st (by rw [h]; intro e; cases e) (by rw [h]; intro e; cases e), h]

/-- a REPL / contract run: runtime failure (mutez overflow / underflow, shift by more than 256 bits) -/
theorem run_rtfail (env : Env) (fuel : Nat) (i : Instr) (st : List Val)
    (h : Spec.eval true env fuel i st = .rtfail) : Impl.run env fuel i st = .rtfail := by
  rw [run_eq_guarded env fuel i st (by rw [h]; intro e; cases e) (by rw [h]; intro e; cases e), h]

/-- the guard only removes behaviours: a reference execution that stays inside the guard is a reference execution -/
theorem guarded_is_reference (env : Env) (fuel : Nat) (i : Instr) (st : List Val)
    (hg : Spec.eval true env fuel i st ≠ .offguard) : Spec.eval false env fuel i st = Spec.eval true env fuel i st :=
  Interp.eval_guard env fuel i st hg

/-- corollary in terms of the unguarded reference semantics -/
theorem run_eq_reference (env : Env) (fuel : Nat) (i : Instr) (st : List Val)
    (h : Spec.eval true env fuel i st ≠ .stuck) (hg : Spec.eval true env fuel i st ≠ .offguard) :
    Impl.run env fuel i st = Spec.eval false env fuel i st := by
  rw [guarded_is_reference env fuel i st hg]
  exact run_eq_guarded env fuel i st h hg

section
/- the generic development (Proofs/InterpTyping … InterpProgress, class `Interp.Mode`) at the Michelson typing rules and the
plain reference semantics -/
local instance : Mode := Mode.lax

/-- **progress** (the half of type soundness C02 does not prove): a well-typed program — accepted by the typing rules,
all its set / map literals well-formed — run on well-typed values is never stuck: for every environment and fuel bound
the reference semantics yields a stack, a FAILWITH value, a runtime failure, or runs out of fuel. -/
theorem progress (env : Env) (fuel : Nat) (i : Instr) (st : List Val) (tr : TRes)
    (hty : Typing.typeInstr false i (st.map typeOf) = some tr) (hwf : ∀ v ∈ st, WellFormed v)
    (hlit : Typing.literalsOk i = true) : Spec.eval false env fuel i st ≠ .stuck :=
  Interp.progress env fuel i st tr hty hwf hlit

/-- the four outcomes of a well-typed program; a returned stack consists of well-typed values of the static types -/
theorem welltyped_outcomes (env : Env) (fuel : Nat) (i : Instr) (st : List Val) (tr : TRes)
    (hty : Typing.typeInstr false i (st.map typeOf) = some tr) (hwf : ∀ v ∈ st, WellFormed v)
    (hlit : Typing.literalsOk i = true) :
    (∃ st', Spec.eval false env fuel i st = .ok st' ∧ (∀ v ∈ st', WellFormed v) ∧ tr = .ok (st'.map typeOf)) ∨
    (∃ v, Spec.eval false env fuel i st = .failed v) ∨
    Spec.eval false env fuel i st = .rtfail ∨ Spec.eval false env fuel i st = .oof := by
  have h1 := Interp.progress env fuel i st tr hty hwf hlit
  have h2 := Interp.eval_ne_offguard env fuel i st tr hty hwf hlit
  cases hq : Spec.eval false env fuel i st with
  | ok st' =>
    refine Or.inl ⟨st', rfl, Interp.wellFormed_preserved env fuel i st st' tr hty hwf hlit hq, ?_⟩
    exact ((sound_all env fuel).1 i st st' tr (fun v hv => (hwf v hv).1) hq hty).2
  | failed v => exact Or.inr (Or.inl ⟨v, rfl⟩)
  | rtfail => exact Or.inr (Or.inr (Or.inl rfl))
  | oof => exact Or.inr (Or.inr (Or.inr rfl))
  | stuck => exact absurd hq h1
  | offguard => exact absurd hq h2

/-- **C01 for well-typed programs.**  For every program accepted by the typing rules (with well-formed literals), every
environment, fuel bound and input stack of well-typed values: if the run stays inside the documented guard (MAP is not
applied to an empty collection with a type-changing body), the pytezos machine returns exactly the outcome of the
reference semantics.  No hypothesis about the reference run being defined is left: well-typedness gives it. -/
theorem welltyped_run_eq_reference (env : Env) (fuel : Nat) (i : Instr) (st : List Val) (tr : TRes)
    (hty : Typing.typeInstr false i (st.map typeOf) = some tr) (hwf : ∀ v ∈ st, WellFormed v)
    (hlit : Typing.literalsOk i = true)
    (hguard : Spec.eval true env fuel i st ≠ .offguard) :
    Impl.run env fuel i st = Spec.eval false env fuel i st := by
  have hp : Spec.eval false env fuel i st ≠ .stuck := Interp.progress env fuel i st tr hty hwf hlit
  rw [guarded_is_reference env fuel i st hguard] at hp
  exact run_eq_reference env fuel i st hp hguard

/-- the same, spelled out for a run that terminates within the fuel bound: the machine ends with exactly the stack,
FAILWITH value or runtime failure of the reference semantics, and these are the only possibilities; a final stack
consists of well-typed values of the statically assigned types. -/
theorem welltyped_terminating_run (env : Env) (fuel : Nat) (i : Instr) (st : List Val) (tr : TRes)
    (hty : Typing.typeInstr false i (st.map typeOf) = some tr) (hwf : ∀ v ∈ st, WellFormed v)
    (hlit : Typing.literalsOk i = true)
    (hterm : Spec.eval false env fuel i st ≠ .oof)
    (hguard : Spec.eval true env fuel i st ≠ .offguard) :
    (∃ st', Spec.eval false env fuel i st = .ok st' ∧ Impl.run env fuel i st = .ok st' ∧
        (∀ v ∈ st', WellFormed v) ∧ tr = .ok (st'.map typeOf)) ∨
    (∃ v, Spec.eval false env fuel i st = .failed v ∧ Impl.run env fuel i st = .failed v) ∨
    (Spec.eval false env fuel i st = .rtfail ∧ Impl.run env fuel i st = .rtfail) := by
  have hrun := welltyped_run_eq_reference env fuel i st tr hty hwf hlit hguard
  rcases welltyped_outcomes env fuel i st tr hty hwf hlit with ⟨st', h, hw, ht⟩ | ⟨v, h⟩ | h | h
  · exact Or.inl ⟨st', h, by rw [hrun, h], hw, ht⟩
  · exact Or.inr (Or.inl ⟨v, h, by rw [hrun, h]⟩)
  · exact Or.inr (Or.inr ⟨h, by rw [hrun, h]⟩)
  · exact absurd h hterm

/-- a contract / REPL run starts on the empty stack: there the only hypotheses are the static ones and the guard -/
theorem welltyped_program_run (env : Env) (fuel : Nat) (i : Instr) (tr : TRes)
    (hty : Typing.typeInstr false i [] = some tr) (hlit : Typing.literalsOk i = true)
    (hguard : Spec.eval true env fuel i [] ≠ .offguard) :
    Impl.run env fuel i [] = Spec.eval false env fuel i [] ∧ Spec.eval false env fuel i [] ≠ .stuck :=
  ⟨welltyped_run_eq_reference env fuel i [] tr hty (by simp) hlit hguard,
   progress env fuel i [] tr hty (by simp) hlit⟩
end

/-! ### Strictly typed programs: the guard is a static property

`Typing.typeInstr true` is `Typing.typeInstr false` with one more requirement: the body of every MAP — in the program, in
the PUSHed lambda literals, in LAMBDA bodies — leaves an element of the type it was given.  For such programs, run on
strictly well-typed values (`StrictWF`: the lambdas on the input stack have strictly typed bodies too), the guard of
`welltyped_run_eq_reference` never fires, so C01's statement holds with static hypotheses only.  The invariant "every
lambda on the stack has a strictly typed body" is carried through all 102 instruction forms by the same preservation /
progress development as the non-strict one, instantiated at the mode `Mode.strictGuarded`. -/

/-- strict typing refines typing: same result -/
theorem strict_typing_is_typing (i : Instr) (s : List Ty) (tr : TRes)
    (h : Typing.typeInstr true i s = some tr) : Typing.typeInstr false i s = some tr :=
  Interp.strict_imp_lax.1 i s tr h

/-- a strictly well-typed value is a well-typed value -/
theorem strictWF_wellFormed (v : Val) (h : StrictWF v) : WellFormed v :=
  ⟨Interp.strict_imp_lax.2.1 v (typeOf v) h.1, h.2⟩

section
local instance : Mode := Mode.strictGuarded

/-- **the guard never fires on a strictly typed program**: for every environment and fuel bound, the *guarded* reference
semantics of a strictly typed program (well-formed literals) on strictly well-typed values does not answer `offguard` — MAP is
never applied to an empty collection with a type-changing body, because there is no type-changing body. -/
theorem strict_guard_never_fires (env : Env) (fuel : Nat) (i : Instr) (st : List Val) (tr : TRes)
    (hty : Typing.typeInstr true i (st.map typeOf) = some tr) (hwf : ∀ v ∈ st, StrictWF v)
    (hlit : Typing.literalsOk i = true) : Spec.eval true env fuel i st ≠ .offguard :=
  Interp.eval_ne_offguard env fuel i st tr hty hwf hlit

/-- the invariant behind it, preserved through every instruction form: a strictly typed program leaves strictly well-typed
values of the static types (in particular every lambda it leaves has a strictly typed body) -/
theorem strict_invariant_preserved (env : Env) (fuel : Nat) (i : Instr) (st st' : List Val) (tr : TRes)
    (hty : Typing.typeInstr true i (st.map typeOf) = some tr) (hwf : ∀ v ∈ st, StrictWF v)
    (hlit : Typing.literalsOk i = true) (hev : Spec.eval true env fuel i st = .ok st') :
    (∀ v ∈ st', StrictWF v) ∧ tr = .ok (st'.map typeOf) :=
  ⟨Interp.wellFormed_preserved env fuel i st st' tr hty hwf hlit hev,
   ((sound_all env fuel).1 i st st' tr (fun v hv => (hwf v hv).1) (Interp.eval_ok_plain hev) hty).2⟩
end

/-- **C01 for strictly typed programs — static hypotheses only.**  For every program accepted by the strict typing rules
(`Typing.typeInstr true`; set / map literals well-formed), every environment, every fuel bound and every input stack of
strictly well-typed values, the pytezos machine returns exactly the outcome of the (unguarded) reference semantics: the
same stack, the same FAILWITH value, the same runtime failure, out of fuel exactly when the reference is. -/
theorem strict_run_eq_reference (env : Env) (fuel : Nat) (i : Instr) (st : List Val) (tr : TRes)
    (hty : Typing.typeInstr true i (st.map typeOf) = some tr) (hwf : ∀ v ∈ st, StrictWF v)
    (hlit : Typing.literalsOk i = true) :
    Impl.run env fuel i st = Spec.eval false env fuel i st :=
  welltyped_run_eq_reference env fuel i st tr (strict_typing_is_typing i _ tr hty)
    (fun v hv => strictWF_wellFormed v (hwf v hv)) hlit (strict_guard_never_fires env fuel i st tr hty hwf hlit)

/-- spelled out for a terminating run: exactly the stack / FAILWITH value / runtime failure of the reference, nothing else;
a final stack consists of well-typed values of the static types -/
theorem strict_terminating_run (env : Env) (fuel : Nat) (i : Instr) (st : List Val) (tr : TRes)
    (hty : Typing.typeInstr true i (st.map typeOf) = some tr) (hwf : ∀ v ∈ st, StrictWF v)
    (hlit : Typing.literalsOk i = true) (hterm : Spec.eval false env fuel i st ≠ .oof) :
    (∃ st', Spec.eval false env fuel i st = .ok st' ∧ Impl.run env fuel i st = .ok st' ∧
        (∀ v ∈ st', WellFormed v) ∧ tr = .ok (st'.map typeOf)) ∨
    (∃ v, Spec.eval false env fuel i st = .failed v ∧ Impl.run env fuel i st = .failed v) ∨
    (Spec.eval false env fuel i st = .rtfail ∧ Impl.run env fuel i st = .rtfail) :=
  welltyped_terminating_run env fuel i st tr (strict_typing_is_typing i _ tr hty)
    (fun v hv => strictWF_wellFormed v (hwf v hv)) hlit hterm (strict_guard_never_fires env fuel i st tr hty hwf hlit)

/-- a contract / REPL run starts on the empty stack: the hypotheses are a check of the program text -/
theorem strict_program_run (env : Env) (fuel : Nat) (i : Instr) (tr : TRes)
    (hty : Typing.typeInstr true i [] = some tr) (hlit : Typing.literalsOk i = true) :
    Impl.run env fuel i [] = Spec.eval false env fuel i [] ∧ Spec.eval false env fuel i [] ≠ .stuck :=
  welltyped_program_run env fuel i tr (strict_typing_is_typing i _ tr hty) hlit
    (strict_guard_never_fires env fuel i [] tr hty (by simp) hlit)

/-- **`UNPACK t (PACK v) = Some v`** (extra theorem of extension 3).  For every type `t` UNPACK is modelled for (`Typing.unpackable`),
every well-typed value `v` of type `t` whose strings are Michelson strings (`Interp.strOk`: printable ASCII and newlines — the
typing of the model does not say it), and every environment: the bytes pytezos' PACK answers for `v` are turned back into
`Some v` by its UNPACK at `t`.  (The reference semantics has the same property: `Interp.unpackV_packV`.) -/
theorem unpack_pack (env : Env) (v : Val) (t : Ty) (bs : List Nat)
    (hu : Typing.unpackable t = true) (hwf : WellFormed v) (ht : typeOf v = t) (hs : Interp.strOk v = true)
    (hp : Impl.execPack v = .ok (.bytes bs)) : Impl.execUnpack env t (.bytes bs) = .ok (.some v) :=
  Interp.execUnpack_execPack env false v t bs hu (ht ▸ hwf.1) hwf.2 hs hp

/-- the same as a run of the machine: `PACK ; UNPACK t` on a stack with `v` on top leaves `Some v` on top — or fails at run time
when the serialization reaches 2^32 bytes -/
theorem pack_unpack_run (env : Env) (fuel : Nat) (v : Val) (t : Ty) (st : List Val)
    (hu : Typing.unpackable t = true) (hwf : WellFormed v) (ht : typeOf v = t) (hs : Interp.strOk v = true) :
    Impl.run env (fuel + 4) (.seq [.PACK, .UNPACK t]) (v :: st) = .ok (.some v :: st) ∨
    Impl.run env (fuel + 4) (.seq [.PACK, .UNPACK t]) (v :: st) = .rtfail := by
  have hev : Spec.eval true env (fuel + 4) (.seq [.PACK, .UNPACK t]) (v :: st)
      = (Spec.packV v).bind fun r => (Spec.unpackV env t r).bind fun o => .ok (o :: st) := by
    simp only [Spec.eval, Spec.evalSeq, Spec.step, Spec.stepMore, Spec.stepExt, Spec.unV, Res.bind]
    cases Spec.packV v <;> simp
    rename_i r
    cases Spec.unpackV env t r <;> simp
  cases hq : Spec.packV v with
  | ok r =>
    have hb : ∃ bs, r = .bytes bs := by
      unfold Spec.packV at hq
      split at hq
      · cases hq
      · split at hq
        · cases hq
        · split at hq
          · exact ⟨_, (Res.ok.inj hq).symm⟩
          · cases hq
    obtain ⟨bs, rfl⟩ := hb
    have hun := Interp.unpackV_packV env false v t bs hu (ht ▸ hwf.1) hwf.2 hs hq
    exact Or.inl (run_ok env (fuel + 4) _ _ _ (by rw [hev, hq]; simp [Res.bind, hun]))
  | rtfail => exact Or.inr (run_rtfail env (fuel + 4) _ _ (by rw [hev, hq]; rfl))
  | stuck =>
    exfalso
    have hsome := Interp.optBoth_some false v (typeOf v) hwf.1 (by
      have := hu; rw [← ht] at this
      exact Interp.unpackable_packable this)
    unfold Spec.packV at hq
    rw [show Typing.packable (typeOf v) = true from Interp.unpackable_packable (ht ▸ hu)] at hq
    cases hb : Spec.optBoth v with
    | none => simp [hb] at hsome
    | some y => simp only [Spec.optimized, hb, Option.map_some, Bool.not_true, Bool.false_eq_true, if_false] at hq; cases he : Spec.encodeM y.1 <;> simp [he] at hq
  | failed _ => unfold Spec.packV at hq; split at hq <;> (try split at hq) <;> (try split at hq) <;> cases hq
  | oof => unfold Spec.packV at hq; split at hq <;> (try split at hq) <;> (try split at hq) <;> cases hq
  | offguard => unfold Spec.packV at hq; split at hq <;> (try split at hq) <;> (try split at hq) <;> cases hq

/-- the stack discipline alone: DIP n / DIG n / DUG n / DUP n through `protect`/`restore` are `take`/`drop`
on the visible stack, for every depth, stack and prefix -/
theorem dip_n_spec (env : Env) (fuel n : Nat) (body : Instr) (pre st st' : List Val) (hn : n ≤ st.length)
    (h : Spec.eval true env fuel body (st.drop n) = .ok st') :
    Impl.exec env (fuel + 1) (.DIPN n body) (stk pre st) = .ok (stk pre (st.take n ++ st')) := by
  have hs : Spec.eval true env (fuel + 1) (.DIPN n body) st = .ok (st.take n ++ st') := by
    simp [Spec.eval, hn, h]
  rw [Interp.exec_refines_spec env (fuel + 1) (.DIPN n body) pre st (by rw [hs]; intro e; cases e) (by rw [hs]; intro e; cases e), hs]
  rfl

def env0 : Env := { amount := 0, balance := 0, sender := [], source := [], self := [], now := 0, level := 1, chainId := [] }

/-- the recorded finding on the mirror: `NIL timestamp ; MAP { DROP ; PUSH int 0 }` — the reference result is an
empty `list int`, the pytezos machine leaves an empty `list timestamp` -/
theorem map_empty_counterexample :
    Spec.eval false env0 5 (.seq [.NIL .timestamp, .MAP (.seq [.DROP, .PUSH .int (.num .int 0)])]) []
      = .ok [.list .int []] ∧
    Impl.run env0 5 (.seq [.NIL .timestamp, .MAP (.seq [.DROP, .PUSH .int (.num .int 0)])]) []
      = .ok [.list .timestamp []] ∧
    Spec.eval true env0 5 (.seq [.NIL .timestamp, .MAP (.seq [.DROP, .PUSH .int (.num .int 0)])]) [] = .offguard := by
  refine ⟨?_, ?_, ?_⟩ <;>
    simp [Spec.eval, Spec.evalSeq, Spec.evalMap, Spec.step, Spec.listOf, Spec.mapOutTy, Typing.typeInstr, Typing.typeSeq, Typing.pushable,
      Typing.step, Typing.checkVal, Impl.run, Impl.exec, Impl.execSeq, Impl.step, Impl.mapLoop, Stack.push, Stack.pop1,
      Stack.pop, Res.bind, typeOf]

-- non-vacuity: a loop, a DIP under a protected prefix, a lambda call and a FAILWITH, all within the guard
example : Spec.eval true env0 20
    (.seq [.PUSH .int (.num .int 3), .PUSH .int (.num .int 4), .DIP (.seq [.DUP, .ADD]), .PAIR,
           .LAMBDA (.pair .int .int) .int (.seq [.UNPAIR, .MUL]), .SWAP, .EXEC]) []
    = .ok [.num .int 24] := by
  simp [Spec.eval, Spec.evalSeq, Spec.step, Spec.addTy, Spec.mulTy, Spec.numOk, typeOf, Res.bind]
example : Spec.eval true env0 20 (.seq [.PUSH .string (.str [97]), .FAILWITH]) [] = .failed (.str [97]) := by
  simp [Spec.eval, Spec.evalSeq, Spec.step, Res.bind]

-- right combs: PAIR n, GET n (k CDRs), UPDATE n, UNPAIR n, and the identity cases `GET 0` / `UPDATE 0` on non-pairs
example : Spec.eval true env0 20
    (.seq [.PUSH .int (.num .int 3), .PUSH .nat (.num .nat 2), .UNIT, .PAIRN 3, .DUP, .GETN 4, .UPDATEN 1, .UNPAIRN 3]) []
    = .ok [.num .int 3, .num .nat 2, .num .int 3] := by
  simp [Spec.eval, Spec.evalSeq, Spec.step, Spec.pairN, Spec.getN, Spec.updateN, Spec.unpairN, Res.bind]
example : Spec.eval true env0 20 (.seq [.UNIT, .GETN 0, .PUSH .int (.num .int 1), .UPDATEN 0]) [] = .ok [.num .int 1] := by
  simp [Spec.eval, Spec.evalSeq, Spec.step, Spec.getN, Spec.updateN, Res.bind]
example : Impl.run env0 20 (.seq [.PUSH .int (.num .int 3), .PUSH .nat (.num .nat 2), .UNIT, .PAIRN 3, .UNPAIRN 2]) []
    = .ok [.unit, .pair (.num .nat 2) (.num .int 3)] :=
  run_ok env0 20 _ [] _ (by simp [Spec.eval, Spec.evalSeq, Spec.step, Spec.pairN, Spec.unpairN, Res.bind])

-- arithmetic: Euclidean division with a negative dividend and divisor (`-7 = 3 * (-3) + 2`), division by zero,
-- two's complement AND of a negative int with a nat, shifts at the bound, SUB_MUTEZ underflow
example : Spec.eval true env0 20 (.seq [.PUSH .int (.num .int (-3)), .PUSH .int (.num .int (-7)), .EDIV]) []
    = .ok [.some (.pair (.num .int 3) (.num .nat 2))] := by
  simp [Spec.eval, Spec.evalSeq, Spec.step, Spec.edivV, Spec.edivTy, Spec.numOk, Res.bind]
example : Spec.eval true env0 20 (.seq [.PUSH .nat (.num .nat 0), .PUSH .mutez (.num .mutez 5), .EDIV]) []
    = .ok [.none (.pair .mutez .mutez)] := by
  simp [Spec.eval, Spec.evalSeq, Spec.step, Spec.edivV, Spec.edivTy, Res.bind]
example : Spec.eval true env0 20 (.seq [.PUSH .nat (.num .nat 13), .PUSH .int (.num .int (-3)), .AND]) [] = .ok [.num .nat 13] := by
  simp [Spec.eval, Spec.evalSeq, Spec.step, Spec.andV, Res.bind]; decide
example : Spec.eval true env0 20 (.seq [.PUSH .nat (.num .nat 256), .PUSH .nat (.num .nat 1), .LSL, .PUSH .nat (.num .nat 256), .SWAP, .LSR]) []
    = .ok [.num .nat 1] := by
  simp [Spec.eval, Spec.evalSeq, Spec.step, Spec.lslV, Spec.lsrV, Spec.numOk, Res.bind]
example : Spec.eval true env0 20 (.seq [.PUSH .mutez (.num .mutez 2), .PUSH .mutez (.num .mutez 1), .SUB_MUTEZ]) [] = .ok [.none .mutez] := by
  simp [Spec.eval, Spec.evalSeq, Spec.step, Spec.subMutezV, Res.bind]
example : Impl.run env0 20 (.seq [.PUSH .int (.num .int (-3)), .PUSH .int (.num .int (-7)), .EDIV]) []
    = .ok [.some (.pair (.num .int 3) (.num .nat 2))] :=
  run_ok env0 20 _ [] _ (by simp [Spec.eval, Spec.evalSeq, Spec.step, Spec.edivV, Spec.edivTy, Spec.numOk, Res.bind])

-- sets and maps: ordered insertion in the middle, membership of the last element, removal, lookup of a bound and of an
-- unbound key, GET_AND_UPDATE returning the old binding
def set13 : Val := .set .int [.num .int 1, .num .int 3]
def mapAB : Val := .map .string .nat [.pair (.str [97]) (.num .nat 1), .pair (.str [98]) (.num .nat 2)]
example : Spec.eval true env0 20
    (.seq [.PUSH (.set .int) set13, .PUSH .bool (.bool true), .PUSH .int (.num .int 2), .UPDATE, .DUP, .PUSH .int (.num .int 3), .MEM]) []
    = .ok [.bool true, .set .int [.num .int 1, .num .int 2, .num .int 3]] := by rfl
example : Spec.eval true env0 20
    (.seq [.PUSH (.set .int) set13, .PUSH .bool (.bool false), .PUSH .int (.num .int 1), .UPDATE, .SIZE]) [] = .ok [.num .nat 1] := by rfl
example : Spec.eval true env0 20
    (.seq [.PUSH (.map .string .nat) mapAB, .DUP, .PUSH .string (.str [98]), .GET, .SWAP, .PUSH .string (.str [97, 97]), .GET]) []
    = .ok [.none .nat, .some (.num .nat 2)] := by rfl
example : Spec.eval true env0 20
    (.seq [.PUSH (.map .string .nat) mapAB, .PUSH (.option .nat) (.none .nat), .PUSH .string (.str [97]), .GET_AND_UPDATE]) []
    = .ok [.some (.num .nat 1), .map .string .nat [.pair (.str [98]) (.num .nat 2)]] := by rfl
example : Impl.run env0 20
    (.seq [.EMPTY_SET .nat, .PUSH .bool (.bool true), .PUSH .nat (.num .nat 5), .UPDATE, .PUSH .bool (.bool true), .PUSH .nat (.num .nat 2), .UPDATE]) []
    = .ok [.set .nat [.num .nat 2, .num .nat 5]] :=
  run_ok env0 20 _ [] _ (by rfl)
-- an ill-formed (unsorted) set is outside the reference rules, and its literal is not a well-formed literal
example : Spec.eval true env0 20 (.seq [.PUSH (.set .int) (.set .int [.num .int 3, .num .int 1]), .PUSH .int (.num .int 1), .MEM]) [] = .stuck := by rfl
example : Typing.literalsOk (.PUSH (.set .int) (.set .int [.num .int 3, .num .int 1])) = false := by rfl

-- hashing: for EVERY choice of the five hash functions the machine pushes the function's value (here an arbitrary `h`)
example (h : Hashes) (b : List Nat) :
    Impl.run { env0 with hashes := h } 20 (.seq [.PUSH .bytes (.bytes b), .SHA256, .BLAKE2B, .KECCAK]) []
      = .ok [.bytes (h.keccak (h.blake2b (h.sha256 b)))] :=
  run_ok _ 20 _ [] _ (by simp [Spec.eval, Spec.evalSeq, Spec.step, Spec.stepMore, Res.bind])
example : Spec.eval true { env0 with totalVotingPower := 7, minBlockTime := 15 } 20
    (.seq [.TOTAL_VOTING_POWER, .CAST .nat, .RENAME, .MIN_BLOCK_TIME]) [] = .ok [.num .nat 15, .num .nat 7] := by rfl

-- extension 2, phase A.  BYTES gives the shortest big-endian / two's complement encoding (0 ↦ empty, a sign byte only where
-- needed), NAT / INT read it back (leading zero bytes allowed, the empty string is 0)
example : Spec.eval true env0 20 (.seq [.PUSH .int (.num .int (-129)), .BYTES]) [] = .ok [.bytes [255, 127]] := by rfl
example : Spec.eval true env0 20 (.seq [.PUSH .int (.num .int 128), .BYTES, .PUSH .int (.num .int (-128)), .BYTES]) []
    = .ok [.bytes [128], .bytes [0, 128]] := by rfl
example : Spec.eval true env0 20 (.seq [.PUSH .int (.num .int 0), .BYTES, .PUSH .nat (.num .nat 0), .BYTES, .PUSH .nat (.num .nat 256), .BYTES]) []
    = .ok [.bytes [1, 0], .bytes [], .bytes []] := by rfl
example : Spec.eval true env0 20 (.seq [.PUSH .bytes (.bytes [255]), .INT, .PUSH .bytes (.bytes [0, 255]), .INT, .PUSH .bytes (.bytes []), .INT,
      .PUSH .bytes (.bytes [0, 1, 0]), .NAT]) []
    = .ok [.num .nat 256, .num .int 0, .num .int 255, .num .int (-1)] := by rfl
example : Impl.run env0 20 (.seq [.PUSH .int (.num .int (-32769)), .BYTES, .DUP, .INT]) []
    = .ok [.num .int (-32769), .bytes [255, 127, 255]] :=
  run_ok env0 20 _ [] _ (by rfl)
-- NEVER closes a branch that cannot be taken: the program is well-typed (the branch has every type) and runs
example : Typing.typeInstr false (.seq [.PUSH (.or .never .int) (.right .never (.num .int 5)), .IF_LEFT .NEVER (.seq [])]) []
    = some (.ok [.int]) := by rfl
example : Impl.run env0 20 (.seq [.PUSH (.or .never .int) (.right .never (.num .int 5)), .IF_LEFT .NEVER (.seq [])]) []
    = .ok [.num .int 5] :=
  run_ok env0 20 _ [] _ (by rfl)
-- VOTING_POWER / HASH_KEY: for EVERY voting-power table and key-hashing function of the environment
example (vp : List Nat → Int) (h : Hashes) (k : List Nat) (hv : 0 ≤ vp (h.hashKey k)) :
    Impl.run { env0 with votingPower := vp, hashes := h } 20 (.seq [.PUSH .key (.atom .key k), .HASH_KEY, .DUP, .VOTING_POWER]) []
      = .ok [.num .nat (vp (h.hashKey k)), .atom .keyHash (h.hashKey k)] :=
  run_ok _ 20 _ [] _ (by simp [Spec.eval, Spec.evalSeq, Spec.step, Spec.stepMore, Spec.stepExt, Spec.unV, Spec.hashKeyV,
    Spec.votingPowerV, Spec.numOk, Res.bind, hv])

-- phase C: contracts and operations (address texts as character codes: `KT1` = [75, 84, 49], `tz1` = [116, 122, 49], `%` = 37,
-- `a` = [97], `b` = [98]).  The address of a handle names its entrypoint, and CONTRACT finds the entrypoint again; an address
-- that names an entrypoint cannot be asked for another one; an implicit account is a `contract unit` only
def envC : Env := { env0 with self := [75, 84, 49] }
example : Spec.eval true envC 20 (.seq [.SELF [97] .nat, .ADDRESS, .DUP, .CONTRACT .nat defaultEp, .SWAP, .CONTRACT .nat [98]]) []
    = .ok [.none (.contract .nat), .some (.contract .nat [75, 84, 49, 37, 97])] := by rfl
example : Spec.eval true envC 20 (.seq [.PUSH .address (.atom .address [116, 122, 49]), .DUP, .CONTRACT .nat defaultEp, .SWAP,
      .CONTRACT .unit defaultEp]) []
    = .ok [.some (.contract .unit [116, 122, 49]), .none (.contract .nat)] := by rfl
-- TRANSFER_TOKENS records source, destination, entrypoint, amount and the parameter; SET_DELEGATE and EMIT likewise — and
-- the machine builds exactly these operations
example : Impl.run envC 20 (.seq [.PUSH .address (.atom .address [75, 84, 50, 37, 97]), .CONTRACT .nat defaultEp,
      .IF_NONE (.seq [.UNIT, .FAILWITH]) (.seq [.PUSH .mutez (.num .mutez 0), .PUSH .nat (.num .nat 7), .TRANSFER_TOKENS])]) []
    = .ok [.opTransfer [75, 84, 49] [75, 84, 50] [97] 0 (.num .nat 7) .nat] :=
  run_ok envC 20 _ [] _ (by rfl)
example : Impl.run envC 20 (.seq [.PUSH .keyHash (.atom .keyHash [116, 122, 49]), .DUP, .IMPLICIT_ACCOUNT, .ADDRESS, .SWAP, .SOME,
      .SET_DELEGATE, .UNIT, .EMIT [120] .unit]) []
    = .ok [.opEmit [75, 84, 49] [120] .unit .unit, .opDelegate [75, 84, 49] (some [116, 122, 49]), .atom .address [116, 122, 49]] :=
  run_ok envC 20 _ [] _ (by rfl)
example : Typing.typeInstr false (.seq [.PUSH .address (.atom .address [75, 84, 50, 37, 97]), .CONTRACT .nat defaultEp,
      .IF_NONE (.seq [.UNIT, .FAILWITH]) (.seq [.PUSH .mutez (.num .mutez 0), .PUSH .nat (.num .nat 7), .TRANSFER_TOKENS]),
      .NIL .operation, .SWAP, .CONS]) [] = some (.ok [.list .operation]) := by rfl

-- phase B (first half): PACK = `05` + binary Micheline of the canonical optimized form — a comb of two components is
-- `Pair a b` (`07 07 …`), of four the sequence of its components (`02 <length> …`), a map a sequence of `Elt`s
example : Spec.eval true env0 20 (.seq [.PUSH (.pair .int .nat) (.pair (.num .int 1) (.num .nat 2)), .PACK]) []
    = .ok [.bytes [5, 7, 7, 0, 1, 0, 2]] := by rfl
example : Spec.eval true env0 20 (.seq [.PUSH (.pair .int (.pair .nat (.pair .unit .string)))
      (.pair (.num .int (-1)) (.pair (.num .nat 5) (.pair .unit (.str [97])))), .PACK]) []
    = .ok [.bytes [5, 2, 0, 0, 0, 12, 0, 65, 0, 5, 3, 11, 1, 0, 0, 0, 1, 97]] := by rfl
example : Impl.run env0 20 (.seq [.PUSH (.map .string (.option .bool)) (.map .string (.option .bool) [.pair (.str [97]) (.some (.bool true))]), .PACK]) []
    = .ok [.bytes [5, 2, 0, 0, 0, 12, 7, 4, 1, 0, 0, 0, 1, 97, 5, 9, 3, 10]] :=
  run_ok env0 20 _ [] _ (by rfl)
-- a lambda or an address has a packed form too, but not in the model: not a packable type here
example : Typing.typeInstr false .PACK [.address] = none := by rfl

-- extension 3, phase 1: UNPACK reads the optimized form PACK writes, and the other spellings the protocol accepts — a comb as
-- `Pair x y z` (`09 07 <length> … <no annotations>`) or as a sequence —, and answers None on everything else: trailing bytes, a
-- missing `05`, a non-minimal integer (`00 80 00`), an annotated constructor (`04 0b … "%a"`), an unsorted set, a negative `nat`,
-- `Pair 1 2 3` where the right component is a list
def tIIN : Ty := .pair .int (.pair .int .nat)
example : Spec.eval true env0 20 (.seq [.PUSH tIIN (.pair (.num .int 1) (.pair (.num .int (-2)) (.num .nat 3))), .PACK, .UNPACK tIIN]) []
    = .ok [.some (.pair (.num .int 1) (.pair (.num .int (-2)) (.num .nat 3)))] := by rfl
example : Spec.eval true env0 20 (.seq [.PUSH .bytes (.bytes [5, 9, 7, 0, 0, 0, 6, 0, 1, 0, 66, 0, 3, 0, 0, 0, 0]), .UNPACK tIIN,
      .PUSH .bytes (.bytes [5, 2, 0, 0, 0, 6, 0, 1, 0, 66, 0, 3]), .UNPACK tIIN]) []
    = .ok [.some (.pair (.num .int 1) (.pair (.num .int (-2)) (.num .nat 3))), .some (.pair (.num .int 1) (.pair (.num .int (-2)) (.num .nat 3)))] := by rfl
example : Spec.eval true env0 20 (.seq [.PUSH .bytes (.bytes [5, 0, 1, 0]), .UNPACK .int, .PUSH .bytes (.bytes [0, 1]), .UNPACK .int,
      .PUSH .bytes (.bytes [5, 0, 128, 0]), .UNPACK .int, .PUSH .bytes (.bytes [5, 4, 11, 0, 0, 0, 2, 37, 97]), .UNPACK .unit]) []
    = .ok [.none .unit, .none .int, .none .int, .none .int] := by rfl
example : Spec.eval true env0 20 (.seq [.PUSH .bytes (.bytes [5, 2, 0, 0, 0, 4, 0, 2, 0, 1]), .UNPACK (.set .int),
      .PUSH .bytes (.bytes [5, 0, 65]), .UNPACK .nat,
      .PUSH .bytes (.bytes [5, 9, 7, 0, 0, 0, 6, 0, 1, 0, 2, 0, 3, 0, 0, 0, 0]), .UNPACK (.pair .int (.list .int))]) []
    = .ok [.none (.pair .int (.list .int)), .none .nat, .none (.set .int)] := by rfl
-- the machine answers the same, on these and on every other byte string (`exec_refines_spec`)
example : Impl.run env0 20 (.seq [.PUSH .bytes (.bytes [5, 2, 0, 0, 0, 6, 0, 1, 0, 66, 0, 3]), .UNPACK tIIN]) []
    = .ok [.some (.pair (.num .int 1) (.pair (.num .int (-2)) (.num .nat 3)))] :=
  run_ok env0 20 _ [] _ (by rfl)
-- a timestamp in its readable form is read by the environment's reader (a parameter: for EVERY such reader)
example (rt : List Nat → Option Int) : Impl.run { env0 with readTimestamp := rt } 20 (.seq [.PUSH .bytes (.bytes [5, 1, 0, 0, 0, 1, 48]), .UNPACK .timestamp]) []
    = .ok [match rt [48] with | some v => .some (.num .timestamp v) | none => .none .timestamp] :=
  run_ok _ 20 _ [] _ (by
    simp only [Spec.eval, Spec.evalSeq, Spec.step, Spec.stepMore, Spec.stepExt, Spec.unV, Spec.unpackV, Res.bind, Typing.unpackable]
    cases h : rt [48] <;> simp [show Spec.Micheline.decode Spec.knownPrim [1, 0, 0, 0, 1, 48] = some (.str [48]) from by rfl, Spec.readVal, h])
-- non-vacuity of `unpack_pack`: a comb with a set, a string and a negative number go through PACK and UNPACK unchanged
def vRT : Val := .pair (.set .nat [.num .nat 1, .num .nat 7]) (.pair (.str [104, 105]) (.num .int (-30)))
def tRT : Ty := .pair (.set .nat) (.pair .string .int)
example : Typing.unpackable tRT = true ∧ WellFormed vRT ∧ typeOf vRT = tRT ∧ Interp.strOk vRT = true := ⟨by rfl, ⟨by rfl, by rfl⟩, by rfl, by rfl⟩
example : Impl.run env0 5 (.seq [.PACK, .UNPACK tRT]) [vRT] = .ok [.some vRT] := run_ok env0 5 _ _ _ (by rfl)
example : Impl.run env0 5 (.seq [.PACK, .UNPACK (.pair .int (.pair .int (.pair .int .int)))])
      [.pair (.num .int 1) (.pair (.num .int 2) (.pair (.num .int 3) (.num .int 4)))]
    = .ok [.some (.pair (.num .int 1) (.pair (.num .int 2) (.pair (.num .int 3) (.num .int 4))))] := run_ok env0 5 _ _ _ (by rfl)
-- the hypothesis on strings is needed: a string with a control character is a value of the model's `string`, PACK serializes
-- it, and UNPACK (like the protocol) refuses to read it back
example : Impl.run env0 5 (.seq [.PACK, .UNPACK .string]) [.str [1]] = .ok [.none .string] := run_ok env0 5 _ _ _ (by rfl)
-- UNPACK at a type with composite set elements, at `address`, at a lambda type: not in the model (ill-typed there)
example : Typing.typeInstr false (.UNPACK (.set (.pair .int .int))) [.bytes] = none := by rfl
example : Typing.typeInstr false (.UNPACK .address) [.bytes] = none := by rfl
example : Typing.typeInstr false (.UNPACK (.map .string (.list (.option .mutez)))) [.bytes] = some (.ok [.option (.map .string (.list (.option .mutez)))]) := by rfl

-- extension 3, phase 3: CHECK_SIGNATURE pushes what the verification function of the environment answers — for EVERY such function
example (h : Hashes) (k s m : List Nat) :
    Impl.run { env0 with hashes := h } 20 (.seq [.PUSH .bytes (.bytes m), .PUSH .signature (.atom .signature s), .PUSH .key (.atom .key k),
      .CHECK_SIGNATURE, .IF (.seq [.UNIT]) (.seq [.UNIT, .FAILWITH])]) []
      = if h.checkSig k s m then .ok [.unit] else .failed .unit :=
  (run_eq_guarded _ 20 _ [] (by cases hc : h.checkSig k s m <;> simp [Spec.eval, Spec.evalSeq, Spec.step, Spec.stepMore, Spec.stepExt,
      Spec.checkSignatureV, Res.bind, hc])
    (by cases hc : h.checkSig k s m <;> simp [Spec.eval, Spec.evalSeq, Spec.step, Spec.stepMore, Spec.stepExt,
      Spec.checkSignatureV, Res.bind, hc])).trans
    (by cases hc : h.checkSig k s m <;> simp [Spec.eval, Spec.evalSeq, Spec.step, Spec.stepMore, Spec.stepExt,
      Spec.checkSignatureV, Res.bind, hc])
example : Typing.typeInstr false (.seq [.CHECK_SIGNATURE, .NOT]) [.key, .signature, .bytes] = some (.ok [.bool]) := by rfl
example : Typing.typeInstr false .CHECK_SIGNATURE [.signature, .key, .bytes] = none := by rfl

-- extension 3, phase 2: a big map created in the run — insertions in any order give the sorted bindings, GET / MEM / GET_AND_UPDATE
-- answer like on a map, a removed key is gone, and the machine computes the same
def progB : Instr :=
  .seq [.EMPTY_BIG_MAP .string .nat,
        .PUSH (.option .nat) (.some (.num .nat 2)), .PUSH .string (.str [98]), .UPDATE,
        .PUSH (.option .nat) (.some (.num .nat 1)), .PUSH .string (.str [97]), .UPDATE,
        .PUSH (.option .nat) (.none .nat), .PUSH .string (.str [98]), .GET_AND_UPDATE,
        .SWAP, .DUP, .PUSH .string (.str [98]), .MEM, .SWAP, .DUP, .PUSH .string (.str [97]), .GET]
example : Spec.eval true env0 30 progB []
    = .ok [.some (.num .nat 1), .bigMap .string .nat [.pair (.str [97]) (.num .nat 1)], .bool false, .some (.num .nat 2)] := by rfl
example : Impl.run env0 30 progB []
    = .ok [.some (.num .nat 1), .bigMap .string .nat [.pair (.str [97]) (.num .nat 1)], .bool false, .some (.num .nat 2)] :=
  run_ok env0 30 _ [] _ (by rfl)
example : Typing.typeInstr false progB [] = some (.ok [.option .nat, .bigMap .string .nat, .bool, .option .nat]) := by rfl
-- a big map is not pushable, not packable, not comparable, cannot hold a big map or an operation, and has no SIZE / ITER;
-- APPLY cannot capture one (the captured value becomes a PUSH)
example : Typing.typeInstr false (.PUSH (.bigMap .int .int) (.bigMap .int .int [])) [] = none := by rfl
example : Typing.typeInstr false .PACK [.bigMap .int .int] = none := by rfl
example : Typing.typeInstr false .COMPARE [.bigMap .int .int, .bigMap .int .int] = none := by rfl
example : Typing.typeInstr false (.EMPTY_BIG_MAP .int (.bigMap .int .int)) [] = none := by rfl
example : Typing.typeInstr false (.EMPTY_BIG_MAP .int .operation) [] = none := by rfl
example : Typing.typeInstr false .SIZE [.bigMap .int .int] = none := by rfl
example : Typing.typeInstr false .APPLY [.bigMap .int .int, .lambda (.pair (.bigMap .int .int) .unit) .unit] = none := by rfl
example : Typing.typeInstr false (.seq [.DUP, .PAIR]) [.bigMap .int .int] = some (.ok [.pair (.bigMap .int .int) (.bigMap .int .int)]) := by rfl

-- non-vacuity of `welltyped_run_eq_reference` / `progress`: a well-typed program with a loop, a lambda call and a sorted
-- set literal, run on a well-typed input stack; the hypotheses hold and the run is inside the guard
def progW : Instr :=
  .seq [.PUSH (.set .int) set13, .SWAP, .DUP, .DIP (.seq [.MEM]), .PUSH .int (.num .int 0), .COMPARE, .LT,
        .LOOP (.seq [.PUSH .bool (.bool false)]), .LAMBDA .bool .bool (.seq [.NOT]), .SWAP, .EXEC]
example : Typing.typeInstr false progW ([Val.num .int 3].map typeOf) = some (.ok [.bool]) := by rfl
example : Typing.literalsOk progW = true := by rfl
example : ∀ v ∈ [Val.num .int 3], WellFormed v := by simp [WellFormed, Typing.checkVal, typeOf, Typing.litOk]
example : Spec.eval true env0 30 progW [.num .int 3] = .ok [.bool false] := by rfl
example : Impl.run env0 30 progW [.num .int 3] = .ok [.bool false] := by
  rw [welltyped_run_eq_reference env0 30 progW [.num .int 3] (.ok [.bool]) (by rfl) (by simp [WellFormed, Typing.checkVal, typeOf, Typing.litOk]) (by rfl)
    (by rw [show Spec.eval true env0 30 progW [.num .int 3] = .ok [.bool false] from rfl]; intro h; cases h)]
  rfl
-- non-vacuity of the strict statements: MAP over an *empty* list and over a non-empty one with a type-keeping body, a lambda
-- (pushed by LAMBDA, and one given on the input stack) whose body contains a MAP and is called by EXEC: strictly typed,
-- strictly well-typed input, and the machine's run is the reference's — no guard hypothesis anywhere
def progS : Instr :=
  .seq [.NIL .int, .MAP (.seq [.PUSH .int (.num .int 1), .ADD]), .PUSH .int (.num .int 5), .CONS,
        .LAMBDA (.list .int) (.list .int) (.MAP (.seq [.DUP, .MUL])), .SWAP, .EXEC, .EXEC]
def lamS : Val := .lam (.list .int) (.list .int) (.seq [.MAP (.seq [.PUSH .int (.num .int 2), .SWAP, .SUB]), .NIL .int, .SWAP, .DROP])
example : Typing.typeInstr true progS ([lamS].map typeOf) = some (.ok [.list .int]) := by rfl
example : Typing.literalsOk progS = true := by rfl
example : ∀ v ∈ [lamS], StrictWF v := by intro v hv; simp at hv; subst hv; exact ⟨by rfl, by rfl⟩
example : Spec.eval false env0 30 progS [lamS] = .ok [.list .int []] := by rfl
example : Impl.run env0 30 progS [lamS] = .ok [.list .int []] := by
  rw [strict_run_eq_reference env0 30 progS [lamS] (.ok [.list .int]) (by rfl)
    (by intro v hv; simp at hv; subst hv; exact ⟨by rfl, by rfl⟩) (by rfl)]
  rfl
example : Spec.eval true env0 30 progS [lamS] ≠ .offguard :=
  strict_guard_never_fires env0 30 progS [lamS] (.ok [.list .int]) (by rfl)
    (by intro v hv; simp at hv; subst hv; exact ⟨by rfl, by rfl⟩) (by rfl)
-- the program of the open finding is well-typed but NOT strictly typed (its MAP body turns timestamps into ints), and a
-- lambda with such a body is not a strictly well-typed value: the static hypotheses exclude exactly the guard's case
example : Typing.typeInstr false (.seq [.NIL .timestamp, .MAP (.seq [.DROP, .PUSH .int (.num .int 0)])]) [] = some (.ok [.list .int]) := by rfl
example : Typing.typeInstr true (.seq [.NIL .timestamp, .MAP (.seq [.DROP, .PUSH .int (.num .int 0)])]) [] = none := by rfl
example : ¬ StrictWF (.lam (.list .timestamp) (.list .int) (.MAP (.seq [.DROP, .PUSH .int (.num .int 0)]))) := by
  intro h; exact absurd h.1 (by decide)
example : WellFormed (.lam (.list .timestamp) (.list .int) (.MAP (.seq [.DROP, .PUSH .int (.num .int 0)]))) := ⟨by rfl, by rfl⟩
-- a runtime failure is an outcome of a well-typed program, not a stuck state — and the machine has it too
example : Typing.typeInstr false (.seq [.PUSH .mutez (.num .mutez (2 ^ 62)), .DUP, .ADD]) [] = some (.ok [.mutez]) := by rfl
example : Spec.eval false env0 9 (.seq [.PUSH .mutez (.num .mutez (2 ^ 62)), .DUP, .ADD]) [] = .rtfail := by rfl
example : Impl.run env0 9 (.seq [.PUSH .mutez (.num .mutez (2 ^ 62)), .DUP, .ADD]) [] = .rtfail :=
  run_rtfail env0 9 _ [] (by rfl)
example : Spec.eval false env0 9 (.seq [.PUSH .nat (.num .nat 257), .PUSH .nat (.num .nat 1), .LSL]) [] = .rtfail := by rfl
-- stuck is what happens to ill-typed configurations only: ADD on a string, MEM on an unsorted set
example : Spec.eval false env0 9 (.seq [.PUSH .string (.str [97]), .PUSH .int (.num .int 1), .ADD]) [] = .stuck := by rfl
example : Typing.typeInstr false (.seq [.PUSH .string (.str [97]), .PUSH .int (.num .int 1), .ADD]) [] = none := by rfl
-- out of fuel: the machine and the reference exhaust the same bound
example : Spec.eval false env0 3 (.seq [.PUSH .bool (.bool true), .LOOP (.seq [.PUSH .bool (.bool true)])]) [] = .oof := by rfl
example : Impl.run env0 3 (.seq [.PUSH .bool (.bool true), .LOOP (.seq [.PUSH .bool (.bool true)])]) [] = .oof := by rfl

end C01
