import PytezosModel.Michelson.Interp.Impl
import PytezosModel.Michelson.Interp.Spec
namespace C01
end C01
