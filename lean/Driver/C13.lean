import Driver.MichIO
import PytezosModel.Michelson.Entrypoints
open Driver Impl.Entrypoints

/-! line protocol (tokens separated by single spaces)
  type   ::= `o <ann> <type> <type>` | `l <ann> <tyid>`          ann ::= `-` (none) | `+<hex utf8>` (`+` = empty string)
  value  ::= `L <value>` | `R <value>` | `V <tyid> <payload>`
  `root <type>`                    → `+<hex>` | `err:<kind>`
  `list <type>`                    → `<ann> <type> ; <ann> <type> ; …` (dict order) | `err:<kind>`
  `spec <type>`                    → the same for `Spec.entrypoints` | `ill-formed`
  `to <type> <value>`              → `<ann> <value>` | `err:<kind>`
  `from <type> <ann> <value>`      → `<value>` | `err:<kind>` -/

def readAnn (t : String) : Option (Option String) :=
  if t = "-" then some none
  else if t.startsWith "+" then
    let h := (t.drop 1).toString
    if h = "" then some (some "") else (hexToString h).map some
  else none

def showAnn : Option String → String
  | none => "-"
  | some s => if s = "" then "+" else "+" ++ stringToHex s

partial def readTy : List String → Option (PTy × List String)
  | "o" :: a :: rest => do
    let a ← readAnn a
    let (l, r1) ← readTy rest
    let (r, r2) ← readTy r1
    pure (.or a l r, r2)
  | "l" :: a :: t :: rest => do
    let a ← readAnn a
    let t ← t.toNat?
    pure (.leaf a t, rest)
  | _ => none

partial def readVal : List String → Option (PVal × List String)
  | "L" :: rest => do
    let (v, r) ← readVal rest
    pure (.left v, r)
  | "R" :: rest => do
    let (v, r) ← readVal rest
    pure (.right v, r)
  | "V" :: t :: x :: rest => do
    let t ← t.toNat?
    let x ← x.toNat?
    pure (.leaf t x, rest)
  | _ => none

def showTy : PTy → List String
  | .leaf a t => ["l", showAnn a, toString t]
  | .or a l r => ["o", showAnn a] ++ showTy l ++ showTy r

def showVal : PVal → List String
  | .leaf t x => ["V", toString t, toString x]
  | .left v => "L" :: showVal v
  | .right v => "R" :: showVal v

def showErr : Err → String
  | .duplicateKey => "err:duplicate-key"
  | .notUnion => "err:not-union"
  | .unknownEntrypoint => "err:unknown-entrypoint"
  | .badValue => "err:bad-value"
  | .keyError => "err:key-error"
  | .unrecognised => "unrecognised-source"

def showDict (d : List (String × PTy)) : String :=
  joinWith " ; " (d.map fun e => joinWith " " (showAnn (some e.1) :: showTy e.2))

def handleWith (c : Cfg) (line : String) : String :=
  match words line with
  | "root" :: ts =>
    match readTy ts with
    | some (p, []) => match rootName c p with
      | .ok n => showAnn (some n)
      | .error e => showErr e
    | _ => "bad-op"
  | "list" :: ts =>
    match readTy ts with
    | some (p, []) => match listEntrypoints c p with
      | .ok d => showDict d
      | .error e => showErr e
    | _ => "bad-op"
  | "spec" :: ts =>
    match readTy ts with
    | some (p, []) => match Spec.Entrypoints.entrypoints c.dflt c.root p with
      | some d => showDict d
      | none => "ill-formed"
    | _ => "bad-op"
  | "to" :: ts =>
    match readTy ts with
    | some (p, r) => match readVal r with
      | some (v, []) => match toParameters c p v with
        | .ok (e, a) => joinWith " " (showAnn (some e) :: showVal a)
        | .error e => showErr e
      | _ => "bad-op"
    | none => "bad-op"
  | "from" :: ts =>
    match readTy ts with
    | some (p, a :: r) => match readAnn a, readVal r with
      | some (some e), some (v, []) => match fromParameters c p e v with
        | .ok v => joinWith " " (showVal v)
        | .error e => showErr e
      | _, _ => "bad-op"
    | _ => "bad-op"
  | _ => "bad-op"

def handle (line : String) : String :=
  match cfg? with
  | some c => handleWith c line
  | none => "unrecognised-source"

def main : IO Unit := mainWith handle
