import Driver.MichIO
import PytezosModel.Michelson.EntrypointsPy
open Driver Impl.Entrypoints

/-! line protocol (tokens separated by single spaces)
  rtype  ::= `o <annots> <rtype> <rtype>` | `l <annots> <prim> <tyid>` | `p <annots> <tyid> <rtype> <rtype>`
           | `O <annots> <tyid> <rtype>` | `S <annots> <tyid> <rtype>`        (the type expression as written; or / type without
                                                                              arguments / pair / option / list)
  annots ::= `<k> <ann>*k`, each `+<hex utf8 of the annotation with its prefix character>`;  prim ::= `+<hex utf8>`
  type   ::= `o <ann> <type> <type>` | `l <ann> <tyid>`  (output only)       ann ::= `-` (none) | `+<hex utf8>` (`+` = empty string)
  value  ::= `L <value>` | `R <value>` | `V <tyid> <payload>`
  pyobj  ::= `D <ann> <pyobj>` (`{name: obj}`) | `S <ann>` (a string) | `U` (`Unit`) | `V <tyid> <payload>` (object of a leaf value)
  `root <rtype>`                   → `+<hex>` | `err:<kind>`
  `list <rtype>`                   → `<ann> <type> ; <ann> <type> ; …` (dict order) | `err:<kind>`
  `spec <rtype>`                   → the same for `Spec.entrypoints (view r)` | `ill-formed` | `rejected` (not `RawOk`)
  `to <rtype> <value>`             → `<ann> <value>` | `err:<kind>`
  `from <rtype> <ann> <value>`     → `<value>` | `err:<kind>`
  `pyfrom <rtype> <pyobj>`         → `<value>` | `err:<kind>`        (`ParameterSection.from_python_object`)
  `pyto <rtype> <value>`           → `<pyobj>` | `err:<kind>`        (`ParameterSection.to_python_object`) -/

def readAnn (t : String) : Option (Option String) :=
  if t = "-" then some none
  else if t.startsWith "+" then
    let h := (t.drop 1).toString
    if h = "" then some (some "") else (hexToString h).map some
  else none

def showAnn : Option String → String
  | none => "-"
  | some s => if s = "" then "+" else "+" ++ stringToHex s

def readStr (t : String) : Option String :=
  if t.startsWith "+" then
    let h := (t.drop 1).toString
    if h = "" then some "" else hexToString h
  else none

def readAnnots : List String → Option (List String × List String)
  | k :: rest => do
    let k ← k.toNat?
    if rest.length < k then none else do
    let as ← (rest.take k).mapM readStr
    pure (as, rest.drop k)
  | _ => none

partial def readRTy : List String → Option (RTy × List String)
  | "o" :: rest => do
    let (as, r0) ← readAnnots rest
    let (l, r1) ← readRTy r0
    let (r, r2) ← readRTy r1
    pure (.or as l r, r2)
  | "l" :: rest => do
    let (as, r0) ← readAnnots rest
    match r0 with
    | p :: t :: r1 => do
      let p ← readStr p
      let t ← t.toNat?
      pure (.prim as p t, r1)
    | _ => none
  | "p" :: rest => do
    let (as, r0) ← readAnnots rest
    match r0 with
    | t :: r1 => do
      let t ← t.toNat?
      let (l, r2) ← readRTy r1
      let (r, r3) ← readRTy r2
      pure (.pair as t l r, r3)
    | _ => none
  | "O" :: rest => do
    let (as, r0) ← readAnnots rest
    match r0 with
    | t :: r1 => do
      let t ← t.toNat?
      let (a, r2) ← readRTy r1
      pure (.option as t a, r2)
    | _ => none
  | "S" :: rest => do
    let (as, r0) ← readAnnots rest
    match r0 with
    | t :: r1 => do
      let t ← t.toNat?
      let (a, r2) ← readRTy r1
      pure (.list as t a, r2)
    | _ => none
  | _ => none

/-- the matched type and what the entrypoint functions read of it -/
def readTy (ts : List String) : Option (Except Err (QTy × PTy) × List String) := do
  let (r, rest) ← readRTy ts
  pure ((matchTy r).map fun q => (q, q.erase), rest)

partial def readPy : List String → Option (PyObj × List String)
  | "D" :: k :: rest => do
    let k ← readStr k
    let (v, r) ← readPy rest
    pure (.dict1 k v, r)
  | "S" :: k :: rest => do
    let k ← readStr k
    pure (.str k, rest)
  | "U" :: rest => pure (.unit, rest)
  | "V" :: t :: x :: rest => do
    let t ← t.toNat?
    let x ← x.toNat?
    pure (.leaf t x, rest)
  | _ => none

def showPy : PyObj → List String
  | .leaf t x => ["V", toString t, toString x]
  | .unit => ["U"]
  | .str s => ["S", "+" ++ (if s = "" then "" else stringToHex s)]
  | .dict1 k v => "D" :: ("+" ++ (if k = "" then "" else stringToHex k)) :: showPy v

partial def readVal : List String → Option (PVal × List String)
  | "L" :: rest => do
    let (v, r) ← readVal rest
    pure (.left v, r)
  | "R" :: rest => do
    let (v, r) ← readVal rest
    pure (.right v, r)
  | "V" :: t :: x :: rest => do
    let t ← t.toNat?
    let x ← x.toNat?
    pure (.leaf t x, rest)
  | _ => none

def showTy : PTy → List String
  | .leaf a t => ["l", showAnn a, toString t]
  | .or a l r => ["o", showAnn a] ++ showTy l ++ showTy r

def showVal : PVal → List String
  | .leaf t x => ["V", toString t, toString x]
  | .left v => "L" :: showVal v
  | .right v => "R" :: showVal v

def showErr : Err → String
  | .duplicateKey => "err:duplicate-key"
  | .notUnion => "err:not-union"
  | .unknownEntrypoint => "err:unknown-entrypoint"
  | .badValue => "err:bad-value"
  | .keyError => "err:key-error"
  | .unrecognised => "unrecognised-source"
  | .typeError => "err:type-error"
  | .pyAssert => "err:py-assert"
  | .rejectedType => "err:rejected-type"

def showDict (d : List (String × PTy)) : String :=
  joinWith " ; " (d.map fun e => joinWith " " (showAnn (some e.1) :: showTy e.2))

def handleWith (c : Cfg) (line : String) : String :=
  match words line with
  | "root" :: ts =>
    match readTy ts with
    | some (.ok (_, p), []) => match rootName c p with
      | .ok n => showAnn (some n)
      | .error e => showErr e
    | some (.error e, []) => showErr e
    | _ => "bad-op"
  | "list" :: ts =>
    match readTy ts with
    | some (.ok (_, p), []) => match listEntrypoints c p with
      | .ok d => showDict d
      | .error e => showErr e
    | some (.error e, []) => showErr e
    | _ => "bad-op"
  | "spec" :: ts =>
    match readRTy ts with
    | some (r, []) =>
      if Spec.Entrypoints.RawOk r then
        match Spec.Entrypoints.entrypoints c.dflt c.root (Spec.Entrypoints.view r) with
        | some d => showDict d
        | none => "ill-formed"
      else "rejected"
    | _ => "bad-op"
  | "to" :: ts =>
    match readTy ts with
    | some (.ok (_, p), r) => match readVal r with
      | some (v, []) => match toParameters c p v with
        | .ok (e, a) => joinWith " " (showAnn (some e) :: showVal a)
        | .error e => showErr e
      | _ => "bad-op"
    | some (.error e, _) => showErr e
    | none => "bad-op"
  | "from" :: ts =>
    match readTy ts with
    | some (.ok (_, p), a :: r) => match readAnn a, readVal r with
      | some (some e), some (v, []) => match fromParameters c p e v with
        | .ok v => joinWith " " (showVal v)
        | .error e => showErr e
      | _, _ => "bad-op"
    | some (.error e, _) => showErr e
    | _ => "bad-op"
  | "pyfrom" :: ts =>
    match readTy ts with
    | some (.ok (q, _), r) => match readPy r with
      | some (o, []) => match fromPythonObject c q o with
        | .ok v => joinWith " " (showVal v)
        | .error e => showErr e
      | _ => "bad-op"
    | some (.error e, _) => showErr e
    | none => "bad-op"
  | "pyto" :: ts =>
    match readTy ts with
    | some (.ok (q, _), r) => match readVal r with
      | some (v, []) => match toPythonObject c q v with
        | .ok o => joinWith " " (showPy o)
        | .error e => showErr e
      | _ => "bad-op"
    | some (.error e, _) => showErr e
    | none => "bad-op"
  | _ => "bad-op"

def handle (line : String) : String :=
  match cfg? with
  | some c => handleWith c line
  | none => "unrecognised-source"

def main : IO Unit := mainWith handle
