import Driver.Util
import PytezosModel.Client.Errors
open Driver
open Impl.Errors

/-! line `E <hexid> …`: the ids of the errors handed to `RpcError.from_errors` (hex of the ascii id, `-` = empty id;
no word = empty list)  →  `unspecified` | `<Class>@<index of the error used>` (`RpcError` for the generic class)
line `V <hexid>`: `_gen_error_variants(id)` → the variants, hex, space separated -/
def handle (line : String) : String :=
  match words line with
  | "E" :: ws =>
    match ws.mapM parseHex with
    | none => "bad-op"
    | some ids =>
      match classify ids with
      | none => "unrecognised-source"
      | some .unspecified => "unspecified"
      | some (.handler c i) => s!"{c.name}@{i}"
      | some (.generic i) => s!"RpcError@{i}"
  | ["V", w] =>
    match parseHex w with
    | none => "bad-op"
    | some id =>
      match variants id with
      | none => "unrecognised-source"
      | some vs => joinWith " " (vs.map toHex)
  | _ => "bad-op"

def main : IO Unit := mainWith handle
