import Driver.KeyIO
open Driver Driver.KeyIO Impl.Key

/-! `sign <curve> <pub> <sec|none> <generic 0|1> <msg> | …`  → `ok <text hex>` | `err <class> <site>`
    `verify <curve> <pub> <sig> <msg> | …`                  → `ok` | `err …`
    `check <pk text hex> <sig text hex> <msg hex> | …`       → `true` | `false` | `err …`
    `scrub <input>`                                          → `ok <hex>` | `err …`
    `tables`                                                 → the dispatch tables the model is instantiated with
 `<msg>`, `<sig>`, `<input>`: `b:<hex>` (bytes) or `s:<cp>.<cp>…` (str). -/

def showFlags (t : Option (List (List Nat × Bool))) : String :=
  match t with
  | none => "none"
  | some rows => ",".intercalate (rows.map fun r => s!"{toHex r.1}:{r.2}")

def handle (line : String) : String :=
  let (ws, o) := splitLine line
  let P := mkPrims o
  let C := mkCodec o
  match ws with
  | ["sign", c, pub, sec, g, msg] =>
    match parseCurve c, parseHex pub, optHex sec, parsePyIn msg with
    | some c, some pub, some sec, some msg =>
      match sign P C ⟨pub, sec, c⟩ msg (g == "1") with
      | .ok s => s!"ok {toHex s}"
      | .error e => errStr e
    | _, _, _, _ => "bad-op"
  | ["verify", c, pub, sig, msg] =>
    match parseCurve c, parseHex pub, parsePyIn sig, parsePyIn msg with
    | some c, some pub, some sig, some msg =>
      match verify P C ⟨pub, none, c⟩ sig msg with
      | .ok _ => "ok"
      | .error e => errStr e
    | _, _, _, _ => "bad-op"
  | ["check", pk, sig, msg] =>
    match parseHex pk, parseHex sig, parseHex msg with
    | some pk, some sig, some msg =>
      match checkSignature P C pk sig msg with
      | .ok b => toString b
      | .error e => errStr e
    | _, _, _ => "bad-op"
  | ["scrub", v] =>
    match parsePyIn v with
    | some v =>
      match scrub v with
      | .ok b => s!"ok {toHex b}"
      | .error e => errStr e
    | none => "bad-op"
  | ["tables"] =>
    let pf := match Generated.C07.signPrefix with
      | none => "none"
      | some rows => ",".intercalate (rows.map fun (r : List Nat × Bool × List Nat) => s!"{toHex r.1}:{r.2.1}:{toHex r.2.2}")
    let rows := ",".intercalate (sigRows.map fun r => s!"{toHex r.human}/{r.encLen}/{toHex r.bin}/{r.dataLen}")
    s!"sign={showFlags Generated.C07.signPayload} verify={showFlags Generated.C07.verifyPayload} prefix={pf} rows={rows} catches={repr Generated.C07.verifyP256CatchesRangeError}"
  | _ => "bad-op"

def main : IO Unit := mainWith handle
