import Driver.Util
import PytezosModel.Client.Counters
open Driver Impl.Counters

/-! line protocol:  `<counter> <pending> ev ev …`  with events
  n<k> (new group of k >= 1 contents)  fT fC (fill the unfilled / the current group)  aT aC (autofill)  s (sign)
  iO iF (inject; the node applies its rule / refuses)  b (bake)
answer: one token per event joined by `;`:
  ok | nogroup | ctrs:<c1,c2,…> | simerr | notsigned | sent:<c1,…>:<accepted|refused>:<fresh|stale>:<expected c1,…> -/

def parseEvent (w : String) : Option Event :=
  match w with
  | "fT" => some (.fill .tmpl)
  | "fC" => some (.fill .cur)
  | "aT" => some (.autofill .tmpl)
  | "aC" => some (.autofill .cur)
  | "s" => some .sign
  | "iO" => some (.inject true)
  | "iF" => some (.inject false)
  | "b" => some .bake
  | _ =>
    if w.startsWith "n" then
      match (w.drop 1).toString.toNat? with
      | some k => if k = 0 then none else some (.new k)
      | none => none
    else none

def nats (xs : List Nat) : String := joinWith "," (xs.map toString)

def render (sh : Shape) : State → List Event → List String
  | _, [] => []
  | s, e :: es =>
    let r := step sh s e
    let tok := match r.2.1, r.2.2 with
      | .done, _ => "ok"
      | .noGroup, _ => "nogroup"
      | .ctrs cs, _ => "ctrs:" ++ nats cs
      | .simError, _ => "simerr"
      | .notSigned, _ => "notsigned"
      | .sent cs acc, some o =>
        s!"sent:{nats cs}:{if acc then "accepted" else "refused"}:{if o.fresh then "fresh" else "stale"}:{nats o.expected}"
      | .sent cs acc, none => s!"sent:{nats cs}:{if acc then "accepted" else "refused"}:?:?"
    tok :: render sh r.1 es

def handle (line : String) : String :=
  match words line with
  | c :: p :: evs =>
    match c.toNat?, p.toNat?, evs.mapM parseEvent, shape with
    | some c, some p, some es, some sh => joinWith ";" (render sh (init c p) es)
    | _, _, _, none => "unrecognised-source"
    | _, _, _, _ => "bad-op"
  | _ => "bad-op"

def main : IO Unit := mainWith handle
