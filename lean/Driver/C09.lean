import Driver.Util
import PytezosModel.Crypto.Encoding
import PytezosModel.Crypto.RealHash
open Driver Base58 Impl.Encoding

/-! line protocol (strings and bytes in hex, `-` = empty):
  `enc <prefix> <payload>`         base58_encode(payload, prefix)      → `ok <string>` | `err <site>`
  `dec <string>`                   base58_decode(string)               → `ok <payload>` | `err <site>`
  `val <name> <string>`            is_xxx(string)                      → `true` | `false` | `nofunc`
  `b58e <bytes>` / `b58d <string>` base58.b58encode / base58.b58decode → `ok <…>` | `err …`
  `cks <bytes>`                    the checksum alone (first four bytes of SHA-256(SHA-256 bytes))
  `table` / `validators`           dump of the regenerated tables
The checksum is `RealHash.cks` (executable SHA-256, `Core/HashSha2.lean`): the driver computes the complete Base58Check
text itself; nothing is handed in by the harness. -/

def cks : List Nat → List Nat := RealHash.cks

def errSite (fn : String) : Err → String
  | .unrecognisedSource => "unrecognised-source"
  | .noRow => s!"ValueError@{fn}"
  | .rowMismatch => "ValueError@base58_decode"
  | .invalidChar => "ValueError@b58decode_int"
  | .invalidChecksum => "ValueError@b58decode_check"
  | .unknownPrefix => "ValueError@_validate"

def rowStr (r : Row) : String :=
  s!"{toHex r.human}/{r.encLen}/{toHex r.bin}/{r.dataLen}"

def handle (line : String) : String :=
  match words line with
  | ["enc", pfx, payload] =>
    match parseHex pfx, parseHex payload with
    | some pfx, some v =>
      match base58Encode cks v pfx with
      | .ok s => s!"ok {toHex s}"
      | .error e => s!"err {errSite "base58_encode" e}"
    | _, _ => "bad-op"
  | ["dec", s] =>
    match parseHex s with
    | some s =>
      match base58Decode cks s with
      | .ok v => s!"ok {toHex v}"
      | .error e => s!"err {errSite "base58_decode" e}"
    | none => "bad-op"
  | ["val", name, s] =>
    match parseHex s with
    | some s =>
      match isKind cks name s with
      | some true => "true"
      | some false => "false"
      | none => "nofunc"
    | none => "bad-op"
  | ["cks", bs] =>
    match parseHex bs with
    | some bs => toHex (cks bs)
    | none => "bad-op"
  | ["b58e", bs] =>
    match parseHex bs with
    | some bs => s!"ok {toHex (b58enc bs)}"
    | none => "bad-op"
  | ["b58d", s] =>
    match parseHex s with
    | some s =>
      match b58dec (rstrip s) with
      | some bs => s!"ok {toHex bs}"
      | none => "err ValueError@b58decode_int"
    | none => "bad-op"
  | ["table"] => joinWith " " (table.map rowStr)
  | ["validators"] =>
    joinWith " " (Generated.C09.validators.map fun v => v.1 ++ "=" ++ joinWith "," (v.2.map toHex))
  | _ => "bad-op"

def main : IO Unit := mainWith handle
