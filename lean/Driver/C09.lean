import Driver.Util
import PytezosModel.Crypto.Encoding
open Driver Base58 Impl.Encoding

/-! line protocol (strings and bytes in hex, `-` = empty):
  `enc <prefix> <payload> <cks>`   base58_encode(payload, prefix)      → `ok <string>` | `err <site>`
  `dec <string> <cks>`             base58_decode(string)               → `ok <payload>` | `err <site>`
  `val <name> <string> <cks>`      is_xxx(string)                      → `true` | `false` | `nofunc`
  `b58e <bytes>` / `b58d <string>` base58.b58encode / base58.b58decode → `ok <…>` | `err …`
  `table` / `validators`           dump of the regenerated tables
`<cks>` = `key:check,key:check,…`: the real double-SHA-256 checksums of the byte strings the call needs
(computed by the harness); a key that is needed but missing is reported, never defaulted. -/

def parsePairs (s : String) : Option (List (List Nat × List Nat)) :=
  if s = "-" then some [] else
  (s.splitOn ",").mapM fun kv =>
    match kv.splitOn ":" with
    | [k, c] => do let k ← parseHex k; let c ← parseHex c; pure (k, c)
    | _ => none

def cksOf (pairs : List (List Nat × List Nat)) (v : List Nat) : List Nat :=
  match pairs.find? (·.1 == v) with
  | some p => p.2
  | none => []

def hasKey (pairs : List (List Nat × List Nat)) (v : List Nat) : Bool := pairs.any (·.1 == v)

def errSite (fn : String) : Err → String
  | .unrecognisedSource => "unrecognised-source"
  | .noRow => s!"ValueError@{fn}"
  | .rowMismatch => "ValueError@base58_decode"
  | .invalidChar => "ValueError@b58decode_int"
  | .invalidChecksum => "ValueError@b58decode_check"
  | .unknownPrefix => "ValueError@_validate"

/-- the byte string whose checksum `base58_decode(s)` looks at, if it gets that far -/
def decodeKey (s : List Nat) : Option (List Nat) :=
  (b58dec (rstrip s)).map fun r => r.take (r.length - 4)

def rowStr (r : Row) : String :=
  s!"{toHex r.human}/{r.encLen}/{toHex r.bin}/{r.dataLen}"

def handle (line : String) : String :=
  match words line with
  | ["enc", pfx, payload, pairs] =>
    match parseHex pfx, parseHex payload, parsePairs pairs with
    | some pfx, some v, some pairs =>
      let need := (findEncodeRow table v.length pfx).map fun r => r.bin ++ v
      if need.any (fun k => !hasKey pairs k) then "err cks-missing" else
      match base58Encode (cksOf pairs) v pfx with
      | .ok s => s!"ok {toHex s}"
      | .error e => s!"err {errSite "base58_encode" e}"
    | _, _, _ => "bad-op"
  | ["dec", s, pairs] =>
    match parseHex s, parsePairs pairs with
    | some s, some pairs =>
      if (decodeKey s).any (fun k => !hasKey pairs k) then "err cks-missing" else
      match base58Decode (cksOf pairs) s with
      | .ok v => s!"ok {toHex v}"
      | .error e => s!"err {errSite "base58_decode" e}"
    | _, _ => "bad-op"
  | ["val", name, s, pairs] =>
    match parseHex s, parsePairs pairs with
    | some s, some pairs =>
      if (decodeKey s).any (fun k => !hasKey pairs k) then "err cks-missing" else
      match isKind (cksOf pairs) name s with
      | some true => "true"
      | some false => "false"
      | none => "nofunc"
    | _, _ => "bad-op"
  | ["b58e", bs] =>
    match parseHex bs with
    | some bs => s!"ok {toHex (b58enc bs)}"
    | none => "bad-op"
  | ["b58d", s] =>
    match parseHex s with
    | some s =>
      match b58dec (rstrip s) with
      | some bs => s!"ok {toHex bs}"
      | none => "err ValueError@b58decode_int"
    | none => "bad-op"
  | ["table"] => joinWith " " (table.map rowStr)
  | ["validators"] =>
    joinWith " " (Generated.C09.validators.map fun v => v.1 ++ "=" ++ joinWith "," (v.2.map toHex))
  | _ => "bad-op"

def main : IO Unit := mainWith handle
